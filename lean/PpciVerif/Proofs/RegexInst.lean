import PpciVerif.Proofs.RegexRun
/-! Helper lemmas for C31, part 4: the generic results instantiated for `Regex` states
(`compile`, `accepts`, `scan`) and for `ExpressionVector` states (`compileVec`, `scanVec`). -/
set_option linter.unusedSectionVars false
namespace Proofs.Regex
open Spec.Lang Spec.RegexLang Model.Regex Model Spec.IntSet

/-- decidable equality of results, for the concrete `example`s of the property file -/
instance instDecEqExcept {ε α : Type} [DecidableEq ε] [DecidableEq α] : DecidableEq (Except ε α)
  | .ok a, .ok b => if h : a = b then isTrue (by rw [h]) else isFalse (fun e => h (by cases e; rfl))
  | .error a, .error b => if h : a = b then isTrue (by rw [h]) else isFalse (fun e => h (by cases e; rfl))
  | .ok _, .error _ => isFalse (fun e => by cases e)
  | .error _, .ok _ => isFalse (fun e => by cases e)

theorem munch_congr {σ} {L L' : List σ → Prop} (h : ∀ t, L t ↔ L' t) :
    ∀ {s ts ok}, Munch L s ts ok → Munch L' s ts ok := by
  intro s ts ok hm
  induction hm with
  | done => exact .done
  | stuck hne hno => exact .stuck hne (fun t a b c => hno t a b ((h t).2 c))
  | tok hlp _ ih =>
    refine .tok ⟨hlp.1, hlp.2.1, (h _).1 hlp.2.2.1, fun t' a b => hlp.2.2.2 t' a ((h t').2 b)⟩ ih

theorem munch_tokens_accepted {σ} {L : List σ → Prop} {s : List σ} {ts : List (List σ)} {ok : Bool}
    (h : Munch L s ts ok) : ∀ t ∈ ts, L t := by
  induction h with
  | done => simp
  | stuck _ _ => simp
  | tok hlp _ ih =>
    intro t ht
    rcases List.mem_cons.1 ht with rfl | ht
    · exact hlp.2.2.1
    · exact ih t ht

/-! ### single expressions -/

theorem sound_re : Sound reOps WF :=
  ⟨fun x c h => WF_derivative x c h, fun x h => classesOK_re x h⟩

theorem contains_nil (c : Int) : IntSet.contains [] c = false := by
  cases h : IntSet.contains [] c
  · rfl
  · exact absurd ((Proofs.IntSet.contains_iff [] (by simp [Canon]) c).1 h) (Proofs.IntSet.mem_nil c)

theorem derivative_NULL (c : Int) : derivative NULL c = NULL := by
  simp [derivative, NULL, contains_nil]

theorem derivs_NULL : ∀ s : List Int, derivs NULL s = NULL
  | [] => rfl
  | c :: s => by
    show derivs (derivative NULL c) s = NULL
    rw [derivative_NULL, derivs_NULL s]

theorem nullable_NULL : nullable NULL = false := by simp [nullable, nu, NULL]

theorem foldl_reOps (r : Re) (s : List Int) : s.foldl reOps.deriv r = derivs r s := rfl

/-- running the tables of `compile r` on `s` ends in the state of the iterated derivative -/
theorem compile_accepts (r : Re) (hr : WF r) (fuel : Nat) (d : DFA Bool) (hc : compile fuel r = .ok d)
    (s : List Int) (hs : InSigma s) : accepts d s = .ok (nullable (derivs r s)) := by
  obtain ⟨S, hsim⟩ := compileWith_sim sound_re nullable hr WF_NULL fuel d hc
  obtain ⟨j, hrun, hj⟩ := run_spec hsim s 0 r hs hsim.root0
  simp only [accepts, hrun, hsim.accepts, List.getD_eq_getElem?_getD, List.getElem?_map, hj, Option.map_some,
    Option.getD_some]
  rfl

theorem compile_scan (r : Re) (hr : WF r) (fuel : Nat) (d : DFA Bool) (hc : compile fuel r = .ok d)
    (s : List Int) (hs : InSigma s) :
    ∃ ok, (scan d s).2 = (if ok then End.done else End.noMatch) ∧ Munch (L r) s (scan d s).1 ok := by
  obtain ⟨S, hsim⟩ := compileWith_sim sound_re nullable hr WF_NULL fuel d hc
  have hdead : ∀ t : List Int, id (nullable (t.foldl reOps.deriv (reOps.null r))) = false := by
    intro t
    show nullable (derivs NULL t) = false
    rw [derivs_NULL, nullable_NULL]
  obtain ⟨ok, h1, h2, _⟩ := scanLoop_spec hsim id hdead (s.length + 1) s (Nat.lt_succ_self _) hs
  refine ⟨ok, h1, ?_⟩
  simp only [scan]
  refine munch_congr ?_ h2
  intro t
  exact nullable_derivs r t hr

/-! ### expression vectors -/

/-- representation invariant of an `ExpressionVector`: not empty, canonical symbol sets -/
def VecWF (v : Vec) : Prop := v ≠ [] ∧ ∀ p ∈ v, WF p.2

theorem classesOK_filter {σ} {cls : List SymSet} {d : Int → σ} (h : ClassesOK cls d) :
    ClassesOK (cls.filter fun s => !s.isEmpty) d where
  canon := fun K hK => h.canon K (List.mem_filter.1 hK).1
  disj := h.disj.filter _
  cover := by
    intro c h0 h1
    obtain ⟨K, hK, hm⟩ := h.cover c h0 h1
    refine ⟨K, List.mem_filter.2 ⟨hK, ?_⟩, hm⟩
    cases K with
    | nil => exact absurd hm (Proofs.IntSet.mem_nil c)
    | cons _ _ => rfl
  coh := fun K hK => h.coh K (List.mem_filter.1 hK).1

theorem vec_derivative_append (a b : Vec) (c : Int) :
    Vec.derivative (a ++ b) c = Vec.derivative a c ++ Vec.derivative b c := by
  simp [Vec.derivative]

theorem classesOK_vec_fold : ∀ (t pre : Vec) (acc : List SymSet),
    ClassesOK acc (fun c => Vec.derivative pre c) → (∀ q ∈ t, WF q.2) →
    ClassesOK (t.foldl (fun acc q => productIntersections acc (derivativeClasses q.2)) acc)
      (fun c => Vec.derivative (pre ++ t) c)
  | [], pre, acc, h, _ => by simpa using h
  | q :: t, pre, acc, h, hw => by
    have step : ClassesOK (productIntersections acc (derivativeClasses q.2))
        (fun c => Vec.derivative (pre ++ [q]) c) :=
      classesOK_product _ h (classesOK_re q.2 (hw q (by simp)))
        (fun c1 c2 e1 e2 => by
          simp only [vec_derivative_append] at e1 ⊢
          rw [e1]; simp [Vec.derivative, e2])
    have := classesOK_vec_fold t (pre ++ [q]) _ step (fun q' hq' => hw q' (List.mem_cons_of_mem _ hq'))
    simpa using this

theorem classesOK_vec (v : Vec) (h : VecWF v) : ClassesOK (Vec.derivativeClasses v) (Vec.derivative v) := by
  cases v with
  | nil => exact absurd rfl h.1
  | cons p t =>
    simp only [Vec.derivativeClasses]
    apply classesOK_filter
    have base : ClassesOK (derivativeClasses p.2) (fun c => Vec.derivative [p] c) := by
      have := classesOK_re p.2 (h.2 p (by simp))
      exact { canon := this.canon, disj := this.disj, cover := this.cover
              coh := fun K hK c1 c2 h1 h2 => by simp [Vec.derivative, this.coh K hK c1 c2 h1 h2] }
    have := classesOK_vec_fold t [p] _ base (fun q hq => h.2 q (List.mem_cons_of_mem _ hq))
    simpa using this

theorem vecWF_derivative (v : Vec) (c : Int) (h : VecWF v) : VecWF (Vec.derivative v c) := by
  refine ⟨by simpa [Vec.derivative] using h.1, ?_⟩
  intro p hp
  obtain ⟨q, hq, rfl⟩ := List.mem_map.1 hp
  exact WF_derivative q.2 c (h.2 q hq)

theorem vecWF_null (v : Vec) (h : VecWF v) : VecWF (Vec.null v) := by
  refine ⟨by simpa [Vec.null] using h.1, ?_⟩
  intro p hp
  obtain ⟨q, _, rfl⟩ := List.mem_map.1 hp
  exact WF_NULL

theorem sound_vec : Sound vecOps VecWF :=
  ⟨fun x c h => vecWF_derivative x c h, fun x h => classesOK_vec x h⟩

theorem foldl_vecOps : ∀ (s : List Int) (v : Vec),
    s.foldl vecOps.deriv v = v.map (fun p => (p.1, derivs p.2 s))
  | [], v => by simp [derivs]
  | c :: s, v => by
    show s.foldl vecOps.deriv (Vec.derivative v c) = _
    rw [foldl_vecOps s]
    simp [Vec.derivative, derivs]

/-- `name` is the first entry of `v` whose expression matches `t` -/
def FirstMatch (v : Vec) (t : List Int) (name : Nat) : Prop :=
  ∃ pre p post, v = pre ++ p :: post ∧ p.1 = name ∧ L p.2 t ∧ ∀ q ∈ pre, ¬ L q.2 t

theorem nullableNames_spec : ∀ (v : Vec) (t : List Int), (∀ p ∈ v, WF p.2) →
    ((Vec.nullableNames (v.map fun p => (p.1, derivs p.2 t))).isEmpty = false ↔ ∃ p ∈ v, L p.2 t) ∧
    ((Vec.nullableNames (v.map fun p => (p.1, derivs p.2 t))).isEmpty = false →
      FirstMatch v t ((Vec.nullableNames (v.map fun p => (p.1, derivs p.2 t))).headD 0))
  | [], t, _ => by simp [Vec.nullableNames]
  | p :: v, t, hw => by
    have ih := nullableNames_spec v t (fun q hq => hw q (List.mem_cons_of_mem _ hq))
    have hp := nullable_derivs p.2 t (hw p (by simp))
    simp only [Vec.nullableNames] at ih ⊢
    by_cases hn : nullable (derivs p.2 t) = true
    · simp only [List.map_cons, List.filter_cons, hn, if_true, List.isEmpty_cons, List.headD_cons, true_iff,
        forall_const]
      exact ⟨⟨p, by simp, hp.1 hn⟩, [], p, v, rfl, rfl, hp.1 hn, by simp⟩
    · have hnl : ¬ L p.2 t := fun h => hn (hp.2 h)
      have hn' : nullable (derivs p.2 t) = false := by simpa using hn
      simp only [List.map_cons, List.filter_cons, hn', Bool.false_eq_true, if_false]
      refine ⟨?_, ?_⟩
      · rw [ih.1]
        constructor
        · rintro ⟨q, hq, hl⟩; exact ⟨q, List.mem_cons_of_mem _ hq, hl⟩
        · rintro ⟨q, hq, hl⟩
          rcases List.mem_cons.1 hq with rfl | hq
          · exact absurd hl hnl
          · exact ⟨q, hq, hl⟩
      · intro he
        obtain ⟨pre, q, post, e, h1, h2, h3⟩ := ih.2 he
        refine ⟨p :: pre, q, post, by rw [e]; rfl, h1, h2, ?_⟩
        intro q' hq'
        rcases List.mem_cons.1 hq' with rfl | hq'
        · exact hnl
        · exact h3 q' hq'

theorem compileVec_scan (v : Vec) (hv : VecWF v) (fuel : Nat) (d : DFA (List Nat))
    (hc : compileVec fuel v = .ok d) (s : List Int) (hs : InSigma s) :
    ∃ ok, (scanVec d s).2 = (if ok then End.done else End.noMatch) ∧
      Munch (fun t => ∃ p ∈ v, L p.2 t) s ((scanVec d s).1.map (·.2)) ok ∧
      ∀ tok ∈ (scanVec d s).1, FirstMatch v tok.2 tok.1 := by
  obtain ⟨S, hsim⟩ := compileWith_sim sound_vec Vec.nullableNames hv (vecWF_null v hv) fuel d hc
  have hacc : ∀ t : List Int, (!(Vec.nullableNames (t.foldl vecOps.deriv v)).isEmpty) = true ↔ ∃ p ∈ v, L p.2 t := by
    intro t
    rw [foldl_vecOps, ← (nullableNames_spec v t hv.2).1]
    simp
  have hdead : ∀ t : List Int,
      (fun a : List Nat => !a.isEmpty) (Vec.nullableNames (t.foldl vecOps.deriv (vecOps.null v))) = false := by
    intro t
    show (!(Vec.nullableNames (t.foldl vecOps.deriv (Vec.null v))).isEmpty) = false
    rw [foldl_vecOps]
    simp only [Vec.nullableNames, Vec.null, List.map_map, Bool.not_eq_eq_eq_not, Bool.not_false,
      List.isEmpty_iff, List.map_eq_nil_iff, List.filter_eq_nil_iff, List.mem_map, Function.comp]
    rintro _ ⟨q, _, rfl⟩
    simp [derivs_NULL, nullable_NULL]
  obtain ⟨ok, h1, h2, h3⟩ := scanLoop_spec hsim (fun a : List Nat => !a.isEmpty) hdead (s.length + 1) s
    (Nat.lt_succ_self _) hs
  refine ⟨ok, h1, ?_, ?_⟩
  · simp only [scanVec, List.map_map]
    have : ((fun p : Nat × List Int => p.2) ∘ fun p : List Nat × List Int => (p.1.headD 0, p.2)) = (·.2) := rfl
    rw [this]
    exact munch_congr hacc h2
  · intro tok htok
    simp only [scanVec, List.mem_map] at htok
    obtain ⟨p, hp, rfl⟩ := htok
    have hlab := h3 p hp
    -- every emitted token was accepted
    have hne : (Vec.nullableNames (v.map fun q => (q.1, derivs q.2 p.2))).isEmpty = false := by
      have hmem := Proofs.Regex.munch_tokens_accepted h2 p.2 (List.mem_map.2 ⟨p, hp, rfl⟩)
      rw [foldl_vecOps] at hmem
      simpa using hmem
    have := (nullableNames_spec v p.2 hv.2).2 hne
    rw [hlab, foldl_vecOps]
    exact this

end Proofs.Regex
