import PpciVerif.Proofs.Encode
/-!
C08 Thm A, the generic lifting lemmas over the declarative encoder model of C10 (`Model.Encode`):
patterns are applied in order and a later write wins, so a pattern's field keeps its value iff
no LATER pattern writes one of its bits.  `marks` computes that per pattern (fixed or not);
`marked_recoverable` reads every marked field back after all writes.  From it:
* two instances of the same shape with the same token words agree (mod 2^width) on every marked
  operand (`same_tokens_same_operands`) — no two fitting operand tuples collide;
* a marked FIXED pattern's field holds exactly the declared constant (`fixed_field_value`).
-/
namespace Proofs.EncodeC08
open Model.Tables Model.Token Model.Encode Proofs.Token Proofs.Encode

/-- for each pattern: does no later pattern write a bit of its field? -/
def marks (ds : List TokenDesc) : List PatDesc → List Bool
  | [] => []
  | p :: later => later.all (fun q => !fieldsOverlap ds q.field p.field) :: marks ds later

theorem marks_length (ds : List TokenDesc) (ps : List PatDesc) : (marks ds ps).length = ps.length := by
  induction ps with
  | nil => rfl
  | cons p ps ih => simp [marks, ih]

/-- after all writes every marked pattern's field reads the bits stored for its value -/
theorem marked_recoverable (ts ts' : List Inst) (pw : List (PatDesc × Option Int)) (ws : List (String × Int))
    (hwf : ∀ t ∈ descs ts, wfToken t = true)
    (hws : allSome (pw.map toWrite) = some ws) (happ : applyWrites ts ws = .ok ts') :
    ∀ x ∈ pw.zip (marks (descs ts) (pw.map (·.1))), x.2 = true →
      ∃ v fd, x.1.2 = some v ∧ resolveField (descs ts) x.1.1.field = some fd
        ∧ seqGet ts' x.1.1.field = .ok (stored (width fd) v) := by
  induction pw generalizing ts ws with
  | nil => intro x hx; simp at hx
  | cons a rest ih =>
    obtain ⟨y, ws', h1, h2, h3⟩ := allSome_cons (by simpa using hws)
    subst h3
    obtain ⟨p, ov⟩ := a
    cases ov with
    | none => simp [toWrite] at h1
    | some v =>
      simp only [toWrite, Option.map_some, Option.some.injEq] at h1
      subst h1
      unfold applyWrites at happ
      split at happ
      · cases happ
      · rename_i ts1 hset
        have hd := seqSet_descs hset
        intro x hx hm
        simp only [List.map_cons, marks, List.zip_cons_cons, List.mem_cons] at hx
        rcases hx with rfl | hin
        · simp only at hm ⊢
          obtain ⟨fd, hres, hget⟩ := seqSet_get_same hwf hset
          refine ⟨v, fd, rfl, hres, ?_⟩
          rw [← hget]
          apply applyWrites_preserves (by rw [hd]; exact hwf) happ
          intro g hg
          rw [writes_fields h2] at hg
          rw [List.all_eq_true] at hm
          obtain ⟨q, hq, rfl⟩ := List.mem_map.mp hg
          rw [hd]
          have := hm q.1 (List.mem_map.mpr ⟨q, hq, rfl⟩)
          simpa using this
        · have := ih ts1 ws' (by rw [hd]; exact hwf) h2 happ x (by rw [hd]; exact hin) hm
          rw [hd] at this
          exact this

/-- under C10's `orderedOK` every pattern written from an operand is marked -/
theorem ordered_marks (ds : List TokenDesc) (ps : List PatDesc) (h : orderedOK ds ps = true) :
    ∀ x ∈ ps.zip (marks ds ps), isFixed x.1.val = false → x.2 = true := by
  induction ps with
  | nil => intro x hx; simp at hx
  | cons p later ih =>
    simp only [orderedOK, Bool.and_eq_true, Bool.or_eq_true] at h
    intro x hx hnf
    simp only [marks, List.zip_cons_cons, List.mem_cons] at hx
    rcases hx with rfl | hin
    · simp only at hnf ⊢
      exact h.1.resolve_left (by simp [hnf])
    · exact ih h.2 x hin hnf

/-- the marks of an instance: those of the concatenated pattern list of its shape -/
def instMarks (ds : List TokenDesc) (flat : List (InstrDesc × Vals)) : List Bool :=
  marks ds ((flat.map (·.1)).flatMap (·.patterns))

/-- every marked pattern of a declarative instance reads back after `Instruction.encode` -/
theorem encode_marked_fields (tt : List TokenDesc) (flat : List (InstrDesc × Vals)) (ds : List TokenDesc)
    (ts : List Inst) (hds : tokenDescs tt (flat.map (·.1)) = some ds) (hwfb : ds.all wfToken = true)
    (henc : encodeTokens tt flat = .ok ts) :
    ∀ x ∈ (patWrites flat).zip (instMarks ds flat), x.2 = true →
      ∃ v fd, x.1.2 = some v ∧ resolveField ds x.1.1.field = some fd
        ∧ seqGet ts x.1.1.field = .ok (stored (width fd) v) := by
  unfold encodeTokens at henc
  rw [hds] at henc
  cases hws : writes flat with
  | none => rw [hws] at henc; cases henc
  | some ws =>
    rw [hws] at henc
    simp only at henc
    have hdescs : descs (ds.map (fun d => (d, d.init))) = ds := descs_init ds
    have hwf : ∀ t ∈ descs (ds.map (fun d => (d, d.init))), wfToken t = true := by
      rw [hdescs]; exact fun t ht => List.all_eq_true.mp hwfb t ht
    have := marked_recoverable _ ts (patWrites flat) ws hwf hws henc
    rw [hdescs, patWrites_pats] at this
    exact this

theorem mem_zip_map {α β γ : Type} (f : α → β) : ∀ (l : List α) (m : List γ), m.length = l.length →
    ∀ x ∈ l, ∃ b, (x, b) ∈ l.zip m ∧ (f x, b) ∈ (l.map f).zip m
  | [], _, _, x, hx => by cases hx
  | a :: l, [], hl, _, _ => by simp at hl
  | a :: l, b :: m, hl, x, hx => by
    rcases List.mem_cons.mp hx with rfl | hin
    · exact ⟨b, by simp, by simp⟩
    · obtain ⟨b', h1, h2⟩ := mem_zip_map f l m (by simpa using hl) x hin
      exact ⟨b', by simp [h1], by simp [h2]⟩

/-- a pattern of an instance, paired with its mark, in both zipped views -/
theorem pattern_with_mark (ds : List TokenDesc) (flat : List (InstrDesc × Vals)) (pv : PatDesc × Option Int)
    (h : pv ∈ patWrites flat) :
    ∃ b, (pv, b) ∈ (patWrites flat).zip (instMarks ds flat)
      ∧ (pv.1, b) ∈ ((flat.map (·.1)).flatMap (·.patterns)).zip (marks ds ((flat.map (·.1)).flatMap (·.patterns))) := by
  have hl : (instMarks ds flat).length = (patWrites flat).length := by
    unfold instMarks; rw [marks_length, ← patWrites_pats, List.length_map]
  obtain ⟨b, h1, h2⟩ := mem_zip_map (·.1) (patWrites flat) (instMarks ds flat) hl pv h
  refine ⟨b, h1, ?_⟩
  rw [patWrites_pats] at h2
  exact h2

/-- NO COLLISION.  Two instances of the same shape whose encodings have the same token words: every
    marked pattern (in particular, under `orderedOK`, every pattern written from an operand) was given
    values that agree modulo `2^width` — hence equal values when both fit the field. -/
theorem same_tokens_same_operands (tt : List TokenDesc) (flat₁ flat₂ : List (InstrDesc × Vals)) (ds : List TokenDesc)
    (ts : List Inst) (hshape : flat₁.map (·.1) = flat₂.map (·.1))
    (hds : tokenDescs tt (flat₁.map (·.1)) = some ds) (hwfb : ds.all wfToken = true)
    (h₁ : encodeTokens tt flat₁ = .ok ts) (h₂ : encodeTokens tt flat₂ = .ok ts) :
    ∀ x₁ ∈ (patWrites flat₁).zip (instMarks ds flat₁), ∀ x₂ ∈ (patWrites flat₂).zip (instMarks ds flat₂),
      x₁.2 = true → x₂.2 = true → x₁.1.1 = x₂.1.1 →
      ∃ v₁ v₂ fd, x₁.1.2 = some v₁ ∧ x₂.1.2 = some v₂ ∧ resolveField ds x₁.1.1.field = some fd
        ∧ v₁ % 2 ^ width fd = v₂ % 2 ^ width fd := by
  intro x₁ hx₁ x₂ hx₂ hm₁ hm₂ hp
  obtain ⟨v₁, fd₁, e₁, r₁, g₁⟩ := encode_marked_fields tt flat₁ ds ts hds hwfb h₁ x₁ hx₁ hm₁
  obtain ⟨v₂, fd₂, e₂, r₂, g₂⟩ := encode_marked_fields tt flat₂ ds ts (hshape ▸ hds) hwfb h₂ x₂ hx₂ hm₂
  rw [← hp] at r₂ g₂
  rw [r₁] at r₂
  cases r₂
  rw [g₁] at g₂
  have hs : stored (width fd₁) v₁ = stored (width fd₁) v₂ := by
    simpa using g₂
  refine ⟨v₁, v₂, fd₁, e₁, e₂, r₁, ?_⟩
  rw [← stored_cast, ← stored_cast, hs]

/-- modular agreement is equality for values in the same representable window -/
theorem eq_of_mod_eq_of_window {w : Nat} {a b lo : Int} (h : a % 2 ^ w = b % 2 ^ w)
    (ha : lo ≤ a ∧ a < lo + 2 ^ w) (hb : lo ≤ b ∧ b < lo + 2 ^ w) : a = b := by
  have hp : (0 : Int) < 2 ^ w := two_pow_pos_int w
  generalize (2 : Int) ^ w = M at *
  have ea := Int.mul_ediv_add_emod a M
  have eb := Int.mul_ediv_add_emod b M
  rw [h] at ea
  rcases Int.lt_trichotomy (a / M) (b / M) with hlt | heq | hgt
  · have : M * (a / M + 1) ≤ M * (b / M) := Int.mul_le_mul_of_nonneg_left (by omega) (Int.le_of_lt hp)
    rw [Int.mul_add, Int.mul_one] at this
    omega
  · rw [heq] at ea; omega
  · have : M * (b / M + 1) ≤ M * (a / M) := Int.mul_le_mul_of_nonneg_left (by omega) (Int.le_of_lt hp)
    rw [Int.mul_add, Int.mul_one] at this
    omega

/-- FIXED BITS.  A marked fixed pattern whose constant fits its field (`fixedFits`, part of `isaOK`)
    leaves exactly that constant in the field. -/
theorem fixed_field_value (tt : List TokenDesc) (flat : List (InstrDesc × Vals)) (ds : List TokenDesc)
    (ts : List Inst) (hds : tokenDescs tt (flat.map (·.1)) = some ds) (hwfb : ds.all wfToken = true)
    (henc : encodeTokens tt flat = .ok ts) :
    ∀ x ∈ (patWrites flat).zip (instMarks ds flat), x.2 = true →
      ∀ c : Int, x.1.1.val = .fixed c → fixedFits ds x.1.1 = true →
        seqGet ts x.1.1.field = .ok c.toNat := by
  intro x hx hm c hc hfit
  obtain ⟨v, fd, e, r, g⟩ := encode_marked_fields tt flat ds ts hds hwfb henc x hx hm
  -- the value the instance supplies for a fixed pattern is the constant
  have hv : v = c := by
    have hmem : x.1 ∈ patWrites flat := (List.of_mem_zip hx).1
    unfold patWrites at hmem
    obtain ⟨⟨cc, vals⟩, _, hin⟩ := List.mem_flatMap.mp hmem
    obtain ⟨p, _, hpe⟩ := List.mem_map.mp hin
    rw [← hpe] at hc e
    simp only at hc e
    unfold patValue at e
    rw [hc] at e
    simp only [Option.some.injEq] at e
    exact e.symm
  subst hv
  unfold fixedFits at hfit
  rw [hc, r] at hfit
  simp only [Bool.and_eq_true, decide_eq_true_eq] at hfit
  rw [g]
  congr 1
  unfold stored
  rw [Int.emod_eq_of_lt hfit.1 hfit.2]

end Proofs.EncodeC08
