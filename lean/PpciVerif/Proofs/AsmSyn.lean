import PpciVerif.Proofs.AsmLex
/-
C09 theorem (1): a well-spaced flat syntax, printed with ANY fitting operand values, lexes to exactly
the tokens the grammar rule of that syntax expects.
-/
namespace Proofs.AsmSyn
open Model.AsmLex Model.AsmSyn Proofs.AsmLex

/-! ### decimal numerals -/

theorem digitChar_spec {k : Nat} (h : k < 10) :
    isDigit (digitChar k) = true ∧ digitVal (digitChar k) = k := by
  have : k = 0 ∨ k = 1 ∨ k = 2 ∨ k = 3 ∨ k = 4 ∨ k = 5 ∨ k = 6 ∨ k = 7 ∨ k = 8 ∨ k = 9 := by omega
  rcases this with rfl|rfl|rfl|rfl|rfl|rfl|rfl|rfl|rfl|rfl <;> decide

theorem numVal_append_single (b : Nat) (xs : List Char) (c : Char) :
    numVal b (xs ++ [c]) = numVal b xs * b + digitVal c := by
  simp [numVal, List.foldl_append]

theorem natDigits_spec (n : Nat) :
    natDigits n ≠ [] ∧ (∀ x ∈ natDigits n, isDigit x = true) ∧ numVal 10 (natDigits n) = n := by
  induction n using Nat.strongRecOn with
  | _ n ih =>
    unfold natDigits
    by_cases h : n < 10
    · have := digitChar_spec h
      simp [h, this.1, numVal, this.2]
    · have hlt : n / 10 < n := by omega
      obtain ⟨h1, h2, h3⟩ := ih (n / 10) hlt
      have hd := digitChar_spec (k := n % 10) (by omega)
      simp only [h, dite_false]
      refine ⟨by simp, ?_, ?_⟩
      · intro x hx
        simp only [List.mem_append, List.mem_singleton] at hx
        rcases hx with hx | rfl
        · exact h2 x hx
        · exact hd.1
      · rw [numVal_append_single, h3, hd.2]; omega

/-! ### lexemes of a printed flat syntax -/

def pieceLx : Elem → List Lx
  | .word s => [.id s.toList]
  | .glyph c => [.glyph c]
  | _ => []

def numLx (z : Int) : List Lx :=
  if z < 0 then [.glyph '-', .num (natDigits z.natAbs)] else [.num (natDigits z.natAbs)]

def lexemes : List Leaf → List Val → List Lx
  | [], _ => []
  | .word s :: ls, vs => .id s :: lexemes ls vs
  | .ws s :: ls, vs => s.map .sp ++ lexemes ls vs
  | .glyph c :: ls, vs => .glyph c :: lexemes ls vs
  | .reg _ :: ls, .reg r :: vs => r.pieces.flatMap pieceLx ++ lexemes ls vs
  | .int :: ls, .int z :: vs => numLx z ++ lexemes ls vs
  | .label :: ls, .label s :: vs => .id s :: lexemes ls vs
  | .other _ :: ls, vs => lexemes ls vs
  | .reg _ :: ls, [] => lexemes ls []
  | .int :: ls, [] => lexemes ls []
  | .label :: ls, [] => lexemes ls []
  | .reg _ :: ls, .int _ :: vs => lexemes ls vs
  | .reg _ :: ls, .label _ :: vs => lexemes ls vs
  | .int :: ls, .reg _ :: vs => lexemes ls vs
  | .int :: ls, .label _ :: vs => lexemes ls vs
  | .label :: ls, .reg _ :: vs => lexemes ls vs
  | .label :: ls, .int _ :: vs => lexemes ls vs

/-- chain of lexemes followed by the text `r` -/
inductive ChainR (r : List Char) : List Lx → Prop
  | nil : ChainR r []
  | cons {l : Lx} {rest : List Lx} : l.wf → l.next (strs rest ++ r) → ChainR r rest → ChainR r (l :: rest)

theorem strs_append (a b : List Lx) : strs (a ++ b) = strs a ++ strs b := by simp [strs]
theorem strs_cons (l : Lx) (b : List Lx) : strs (l :: b) = l.str ++ strs b := by simp [strs]
theorem toks_append (a b : List Lx) : toks (a ++ b) = toks a ++ toks b := by simp [toks]

theorem chain_append {a b : List Lx} (ha : ChainR (strs b) a) (hb : Chain b) : Chain (a ++ b) := by
  induction ha with
  | nil => simpa using hb
  | @cons l rest hw hn _ ih =>
    refine Chain.cons hw ?_ ih
    show l.next (strs (rest ++ b))
    rw [strs_append]; exact hn

/-! ### how a printed leaf begins -/

/-- the text `r` begins like a leaf with edge `e` -/
def StartsLike : Edge → List Char → Prop
  | .wordy, r => ∃ c r', r = c :: r' ∧ isIdStart c = true
  | .number, r => ∃ c r', r = c :: r' ∧ (isDigit c = true ∨ c = '-')
  | .glyph g, r => ∃ r', r = g :: r'
  | .space, r => ∃ c r', r = c :: r' ∧ isSkip c = true

/-- the last lexeme of a leaf with edge `e` may be followed by `r` -/
def EndsOK : Edge → List Char → Prop
  | .wordy, r => HeadNot isIdChar r
  | .number, r => HeadNot (fun x => isIdChar x || x == '.') r
  | .glyph g, r => g = '%' → HeadNot isBin r
  | .space, _ => True

theorem glyph_not_idChar {g : Char} (h : isGlyph g = true) : isIdChar g = false := by
  have hg : g ∈ glyphs := by simpa [isGlyph] using h
  simp only [glyphs, List.mem_cons, List.not_mem_nil, or_false] at hg
  rcases hg with rfl|rfl|rfl|rfl|rfl|rfl|rfl|rfl|rfl|rfl|rfl|rfl|rfl|rfl|rfl|rfl|rfl <;> decide

theorem glyph_not_bin {g : Char} (h : isGlyph g = true) : isBin g = false := by
  have hg : g ∈ glyphs := by simpa [isGlyph] using h
  simp only [glyphs, List.mem_cons, List.not_mem_nil, or_false] at hg
  rcases hg with rfl|rfl|rfl|rfl|rfl|rfl|rfl|rfl|rfl|rfl|rfl|rfl|rfl|rfl|rfl|rfl|rfl <;> decide

theorem skip_not_idChar {c : Char} (h : isSkip c = true) : isIdChar c = false := by
  have hn : c.toNat = 32 ∨ c.toNat = 9 := by simpa [isSkip, Bool.or_eq_true, beq_iff_eq] using h
  simp only [isIdChar, isIdStart, isDigit, Bool.or_eq_false_iff, Bool.and_eq_false_iff,
    decide_eq_false_iff_not, beq_eq_false_iff_ne, ne_eq]
  omega

theorem skip_not_bin {c : Char} (h : isSkip c = true) : isBin c = false := by
  have hn : c.toNat = 32 ∨ c.toNat = 9 := by simpa [isSkip, Bool.or_eq_true, beq_iff_eq] using h
  simp only [isBin, Bool.or_eq_false_iff, beq_eq_false_iff_ne, ne_eq]
  omega

theorem skip_not_dot {c : Char} (h : isSkip c = true) : (c == '.') = false := by
  have hn : c.toNat = 32 ∨ c.toNat = 9 := by simpa [isSkip, Bool.or_eq_true, beq_iff_eq] using h
  exact beq_false_of_toNat (by simp; omega)

theorem idStart_not_bin {c : Char} (h : isIdStart c = true) : isBin c = false := by
  simp only [isIdStart, Bool.or_eq_true, Bool.and_eq_true, decide_eq_true_eq, beq_iff_eq] at h
  simp only [isBin, Bool.or_eq_false_iff, beq_eq_false_iff_ne, ne_eq]
  omega

/-- the heart of `compatEdge`: a compatible successor cuts the predecessor's last lexeme off -/
theorem endsOK_of_compat {x y : Edge} {r : List Char} (hc : compatEdge x y = true)
    (hg : ∀ g, y = .glyph g → isGlyph g = true) (hs : StartsLike y r) : EndsOK x r := by
  cases x with
  | space => trivial
  | wordy =>
    cases y with
    | wordy => simp [compatEdge] at hc
    | number => simp [compatEdge] at hc
    | glyph g =>
      obtain ⟨r', rfl⟩ := hs
      exact headNot_cons.mpr (glyph_not_idChar (hg g rfl))
    | space =>
      obtain ⟨c, r', rfl, h⟩ := hs
      exact headNot_cons.mpr (skip_not_idChar h)
  | number =>
    cases y with
    | wordy => simp [compatEdge] at hc
    | number => simp [compatEdge] at hc
    | glyph g =>
      obtain ⟨r', rfl⟩ := hs
      have hne : (g == '.') = false := by simpa [compatEdge] using hc
      exact headNot_cons.mpr (by simp [glyph_not_idChar (hg g rfl), hne])
    | space =>
      obtain ⟨c, r', rfl, h⟩ := hs
      exact headNot_cons.mpr (by simp [skip_not_idChar h, skip_not_dot h])
  | glyph g0 =>
    intro hp
    subst hp
    cases y with
    | wordy =>
      obtain ⟨c, r', rfl, h⟩ := hs
      exact headNot_cons.mpr (idStart_not_bin h)
    | number => simp [compatEdge] at hc
    | glyph g =>
      obtain ⟨r', rfl⟩ := hs
      exact headNot_cons.mpr (glyph_not_bin (hg g rfl))
    | space =>
      obtain ⟨c, r', rfl, h⟩ := hs
      exact headNot_cons.mpr (skip_not_bin h)

theorem endsOK_nil (x : Edge) : EndsOK x [] := by
  cases x <;> simp [EndsOK, headNot_nil]

/-! ### the lexemes of each kind of leaf -/

theorem ident_starts {s r : List Char} (h : isIdent s = true) : StartsLike .wordy (s ++ r) := by
  cases s with
  | nil => simp [isIdent] at h
  | cons c cs =>
    simp only [isIdent, Bool.and_eq_true] at h
    exact ⟨c, cs ++ r, rfl, h.1⟩

theorem chainR_id {s r : List Char} (h : isIdent s = true) (he : HeadNot isIdChar r) :
    ChainR r [.id s] :=
  ChainR.cons h (by simpa [strs, Lx.next] using he) ChainR.nil

theorem chainR_sp {s r : List Char} (h : ∀ x ∈ s, isSkip x = true) : ChainR r (s.map .sp) := by
  induction s with
  | nil => exact ChainR.nil
  | cons c cs ih =>
    exact ChainR.cons (h c (by simp)) trivial (ih (fun x hx => h x (by simp [hx])))

theorem strs_sp (s : List Char) : strs (s.map .sp) = s := by
  induction s with
  | nil => rfl
  | cons c cs ih => simp [strs_cons, Lx.str, ih]

theorem toks_sp (s : List Char) : toks (s.map .sp) = [] := by
  induction s with
  | nil => rfl
  | cons c cs ih => simpa [toks, Lx.tok] using ih

theorem chainR_pieces {ps : List Elem} {r : List Char} (h : piecesOK ps = true)
    (he : HeadNot isIdChar r) :
    ChainR r (ps.flatMap pieceLx) ∧ StartsLike .wordy (strs (ps.flatMap pieceLx) ++ r) := by
  fun_induction piecesOK ps with
  | case1 => simp at h
  | case2 s =>
    simp only [List.flatMap_cons, List.flatMap_nil, pieceLx, List.append_nil]
    exact ⟨chainR_id h he, by simpa [strs, Lx.str] using ident_starts h⟩
  | case3 s c rest ih =>
    simp only [Bool.and_eq_true, bne_iff_ne, ne_eq] at h
    obtain ⟨⟨⟨hs, hc⟩, hne⟩, hrest⟩ := h
    obtain ⟨ih1, ih2⟩ := ih hrest
    simp only [List.flatMap_cons, pieceLx, List.cons_append, List.nil_append]
    refine ⟨ChainR.cons hs ?_ (ChainR.cons hc ?_ ih1), ?_⟩
    · simp only [strs_cons, Lx.str, List.cons_append, List.nil_append]
      exact headNot_cons.mpr (glyph_not_idChar hc)
    · intro hp; exact absurd hp hne
    · simp only [strs_cons, Lx.str, List.append_assoc]
      exact ident_starts hs
  | case4 ps h1 h2 h3 => simp at h

theorem strs_pieces (ps : List Elem) (h : piecesOK ps = true) :
    strs (ps.flatMap pieceLx) = ps.flatMap pieceStr := by
  fun_induction piecesOK ps with
  | case1 => rfl
  | case2 s => simp [strs, pieceLx, pieceStr, Lx.str]
  | case3 s c rest ih =>
    simp only [Bool.and_eq_true] at h
    simp [strs_cons, pieceLx, pieceStr, Lx.str, ih h.2]
  | case4 ps h1 h2 h3 => simp at h

theorem toks_pieces (ps : List Elem) (h : piecesOK ps = true) :
    toks (ps.flatMap pieceLx) = ps.flatMap pieceToks := by
  fun_induction piecesOK ps with
  | case1 => rfl
  | case2 s => simp [toks, pieceLx, pieceToks, Lx.tok]
  | case3 s c rest ih =>
    simp only [Bool.and_eq_true] at h
    have := ih h.2
    simp only [toks] at this
    simp [toks, pieceLx, pieceToks, Lx.tok, this]
  | case4 ps h1 h2 h3 => simp at h

theorem chainR_num {z : Int} {r : List Char}
    (he : HeadNot (fun x => isIdChar x || x == '.') r) :
    ChainR r (numLx z) ∧ StartsLike .number (strs (numLx z) ++ r) := by
  obtain ⟨h1, h2, _⟩ := natDigits_spec z.natAbs
  have hnum : ChainR r [.num (natDigits z.natAbs)] :=
    ChainR.cons ⟨h1, h2⟩ (by simpa [strs, Lx.next] using he) ChainR.nil
  have hstart : ∃ c cs, natDigits z.natAbs = c :: cs ∧ isDigit c = true := by
    cases hd : natDigits z.natAbs with
    | nil => exact absurd hd h1
    | cons c cs => exact ⟨c, cs, rfl, h2 c (by simp [hd])⟩
  obtain ⟨c, cs, hcs, hc⟩ := hstart
  unfold numLx
  by_cases hz : z < 0
  · simp only [hz, if_true]
    refine ⟨ChainR.cons (show isGlyph '-' = true by decide) (fun hp => by cases hp) hnum, ?_⟩
    exact ⟨'-', natDigits z.natAbs ++ r, by simp [strs, Lx.str], Or.inr rfl⟩
  · simp only [hz, if_false]
    refine ⟨hnum, ?_⟩
    exact ⟨c, cs ++ r, by simp [strs_cons, Lx.str, hcs, strs], Or.inl hc⟩

/-! ### the whole flat syntax -/

theorem chainOK_tail {a : Leaf} {rest : List Leaf} (h : chainOK (a :: rest) = true) :
    chainOK rest = true := by
  cases rest with
  | nil => rfl
  | cons b rest' => simp only [chainOK, Bool.and_eq_true] at h; exact h.2

theorem ends_of_chain {cfg : Config} {a : Leaf} {rest : List Leaf} {e : Edge} {B : List Char}
    (hall : rest.all (leafOK cfg) = true) (hch : chainOK (a :: rest) = true) (he : edgeOf a = some e)
    (hstart : ∀ b rest', rest = b :: rest' → ∃ e', edgeOf b = some e' ∧ StartsLike e' B)
    (hnil : rest = [] → B = []) : EndsOK e B := by
  cases rest with
  | nil => rw [hnil rfl]; exact endsOK_nil e
  | cons b rest' =>
    obtain ⟨e', he', hs⟩ := hstart b rest' rfl
    simp only [chainOK, he, he', Bool.and_eq_true] at hch
    refine endsOK_of_compat hch.1 ?_ hs
    intro g hg
    subst hg
    have hb : leafOK cfg b = true := by
      simp only [List.all_cons, Bool.and_eq_true] at hall; exact hall.1
    cases b <;> simp [edgeOf] at he'
    subst he'
    simpa [leafOK] using hb

theorem regOK_of_fits {cfg : Config} {c : Nat} {r : RegDesc} (hok : regClassOK cfg c = true)
    (hm : ∃ rc, cfg.regClasses[c]? = some rc ∧ r ∈ rc.regs) : regOK r = true := by
  obtain ⟨rc, hf, hr⟩ := hm
  simp only [regClassOK, hf, List.all_eq_true] at hok
  exact hok r hr

theorem lexemes_spec (cfg : Config) :
    ∀ (ls : List Leaf) (vs : List Val), ls.all (leafOK cfg) = true → chainOK ls = true →
      Fits cfg ls vs →
      Chain (lexemes ls vs) ∧ strs (lexemes ls vs) = render ls vs
        ∧ toks (lexemes ls vs) = tokens ls vs
        ∧ (∀ a rest, ls = a :: rest → ∃ e, edgeOf a = some e ∧ StartsLike e (strs (lexemes ls vs))) := by
  intro ls
  induction ls with
  | nil =>
    intro vs _ _ _
    refine ⟨by simpa [lexemes] using Chain.nil, by simp [lexemes, render, strs],
      by simp [lexemes, tokens, toks], ?_⟩
    intro a rest h; cases h
  | cons a rest ih =>
    intro vs hall hch hfit
    simp only [List.all_cons, Bool.and_eq_true] at hall
    obtain ⟨ha, hrest⟩ := hall
    have hch' := chainOK_tail hch
    -- everything about the tail, for whichever value list the tail gets
    have tailFacts : ∀ vs', Fits cfg rest vs' → ∀ e, edgeOf a = some e →
        Chain (lexemes rest vs') ∧ strs (lexemes rest vs') = render rest vs'
          ∧ toks (lexemes rest vs') = tokens rest vs' ∧ EndsOK e (strs (lexemes rest vs')) := by
      intro vs' hf e he
      obtain ⟨c1, c2, c3, c4⟩ := ih vs' hrest hch' hf
      refine ⟨c1, c2, c3, ends_of_chain hrest hch he c4 ?_⟩
      intro hnil; subst hnil; simp [lexemes, strs]
    cases a with
    | word s =>
      have hf : Fits cfg rest vs := by simpa [Fits] using hfit
      obtain ⟨c1, c2, c3, c4⟩ := tailFacts vs hf .wordy rfl
      have hid : isIdent s = true := by simpa [leafOK] using ha
      refine ⟨?_, ?_, ?_, ?_⟩
      · simpa [lexemes] using chain_append (chainR_id hid c4) c1
      · simp [lexemes, render, strs_cons, Lx.str, c2]
      · simp only [lexemes, tokens]; simp [toks, Lx.tok] at c3 ⊢; exact c3
      · intro a' rest' h; cases h
        exact ⟨.wordy, rfl, by simpa [lexemes, strs_cons, Lx.str] using ident_starts hid⟩
    | ws s =>
      have hf : Fits cfg rest vs := by simpa [Fits] using hfit
      obtain ⟨c1, c2, c3, _⟩ := tailFacts vs hf .space rfl
      simp only [leafOK, Bool.and_eq_true, Bool.not_eq_true', List.all_eq_true] at ha
      refine ⟨?_, ?_, ?_, ?_⟩
      · simpa [lexemes] using chain_append (chainR_sp ha.2) c1
      · simp [lexemes, render, strs_append, strs_sp, c2]
      · simp [lexemes, tokens, toks_append, toks_sp, c3]
      · intro a' rest' h; cases h
        refine ⟨.space, rfl, ?_⟩
        cases s with
        | nil => simp at ha
        | cons c cs =>
          exact ⟨c, strs (cs.map .sp ++ lexemes rest vs), by simp [lexemes, strs_cons, Lx.str], ha.2 c (by simp)⟩
    | glyph c =>
      have hf : Fits cfg rest vs := by simpa [Fits] using hfit
      obtain ⟨c1, c2, c3, c4⟩ := tailFacts vs hf (.glyph c) rfl
      have hg : isGlyph c = true := by simpa [leafOK] using ha
      refine ⟨?_, ?_, ?_, ?_⟩
      · have : ChainR (strs (lexemes rest vs)) [Lx.glyph c] :=
          ChainR.cons hg (by simpa [strs, Lx.next, EndsOK] using c4) ChainR.nil
        simpa [lexemes] using chain_append this c1
      · simp [lexemes, render, strs_cons, Lx.str, c2]
      · simp only [lexemes, tokens]; simp [toks, Lx.tok] at c3 ⊢; exact c3
      · intro a' rest' h; cases h
        exact ⟨.glyph c, rfl, ⟨strs (lexemes rest vs), by simp [lexemes, strs_cons, Lx.str]⟩⟩
    | reg cl =>
      cases vs with
      | nil => simp [Fits] at hfit
      | cons v vs' =>
        cases v with
        | int z => simp [Fits] at hfit
        | label s => simp [Fits] at hfit
        | reg r =>
          simp only [Fits] at hfit
          obtain ⟨hm, hf⟩ := hfit
          obtain ⟨c1, c2, c3, c4⟩ := tailFacts vs' hf .wordy rfl
          have hok : regOK r = true := regOK_of_fits (by simpa [leafOK] using ha) hm
          simp only [regOK, Bool.and_eq_true, beq_iff_eq] at hok
          obtain ⟨hp, hname⟩ := hok
          obtain ⟨k1, k2⟩ := chainR_pieces hp c4
          refine ⟨?_, ?_, ?_, ?_⟩
          · simpa [lexemes] using chain_append k1 c1
          · simp [lexemes, render, strs_append, strs_pieces _ hp, hname, c2]
          · simp [lexemes, tokens, toks_append, toks_pieces _ hp, c3]
          · intro a' rest' h; cases h
            exact ⟨.wordy, rfl, by simpa [lexemes, strs_append] using k2⟩
    | int =>
      cases vs with
      | nil => simp [Fits] at hfit
      | cons v vs' =>
        cases v with
        | reg r => simp [Fits] at hfit
        | label s => simp [Fits] at hfit
        | int z =>
          have hf : Fits cfg rest vs' := by simpa [Fits] using hfit
          obtain ⟨c1, c2, c3, c4⟩ := tailFacts vs' hf .number rfl
          obtain ⟨k1, k2⟩ := chainR_num (z := z) c4
          obtain ⟨_, _, hv⟩ := natDigits_spec z.natAbs
          refine ⟨?_, ?_, ?_, ?_⟩
          · simpa [lexemes] using chain_append k1 c1
          · simp only [lexemes, render, strs_append, c2]
            congr 1
            unfold numLx intStr
            by_cases hz : z < 0 <;> simp [hz, strs, Lx.str]
          · simp only [lexemes, tokens, toks_append, c3]
            congr 1
            unfold numLx
            by_cases hz : z < 0 <;> simp [hz, toks, Lx.tok, hv]
          · intro a' rest' h; cases h
            exact ⟨.number, rfl, by simpa [lexemes, strs_append] using k2⟩
    | label =>
      cases vs with
      | nil => simp [Fits] at hfit
      | cons v vs' =>
        cases v with
        | reg r => simp [Fits] at hfit
        | int z => simp [Fits] at hfit
        | label s =>
          simp only [Fits] at hfit
          obtain ⟨hid, hf⟩ := hfit
          obtain ⟨c1, c2, c3, c4⟩ := tailFacts vs' hf .wordy rfl
          refine ⟨?_, ?_, ?_, ?_⟩
          · simpa [lexemes] using chain_append (chainR_id hid c4) c1
          · simp [lexemes, render, strs_cons, Lx.str, c2]
          · simp only [lexemes, tokens]; simp [toks, Lx.tok] at c3 ⊢; exact c3
          · intro a' rest' h; cases h
            exact ⟨.wordy, rfl, by simpa [lexemes, strs_cons, Lx.str] using ident_starts hid⟩
    | other d => simp [leafOK] at ha

/-- **C09 theorem (1), generic form.**  For a well-spaced flat syntax and ALL fitting operand values
    (any register of the operand's class, any integer, any identifier as label), lexing the printed text
    succeeds and yields exactly the expected token list. -/
theorem lex_render_eq_tokens (cfg : Config) (ls : List Leaf) (vs : List Val)
    (hw : wellSpaced cfg ls = true) (hf : Fits cfg ls vs) :
    lex (render ls vs) = some (tokens ls vs) := by
  simp only [wellSpaced, Bool.and_eq_true] at hw
  obtain ⟨c1, c2, c3, _⟩ := lexemes_spec cfg ls vs hw.1 hw.2 hf
  rw [← c2, ← c3]
  exact lex_chain c1

/-! ### the driver's `expandChoice` selects one of the flattenings `expand` enumerates -/

theorem headChoice_mem {subC : List Nat → List Nat → Option (List Leaf × List Nat)}
    {subE : List Nat → List (List Leaf)}
    (hsub : ∀ opts ch ls ch', subC opts ch = some (ls, ch') → ls ∈ subE opts)
    (e : Elem) (ch : List Nat) (l : List Leaf) (c : List Nat)
    (h : headChoice subC e ch = some (l, c)) : l ∈ headLeaves subE e := by
  cases e with
  | word s => simp [headChoice] at h; simp [headLeaves, h.1]
  | ws s => simp [headChoice] at h; simp [headLeaves, h.1]
  | glyph g => simp [headChoice] at h; simp [headLeaves, h.1]
  | op n k =>
    cases k with
    | reg r => simp [headChoice] at h; simp [headLeaves, h.1]
    | int => simp [headChoice] at h; simp [headLeaves, h.1]
    | str => simp [headChoice] at h; simp [headLeaves, h.1]
    | other d => simp [headChoice] at h; simp [headLeaves, h.1]
    | cons opts => exact hsub opts ch l c h

theorem chooseElems_mem {subC : List Nat → List Nat → Option (List Leaf × List Nat)}
    {subE : List Nat → List (List Leaf)}
    (hsub : ∀ opts ch ls ch', subC opts ch = some (ls, ch') → ls ∈ subE opts) :
    ∀ es ch ls ch', chooseElems subC es ch = some (ls, ch') → ls ∈ expandElems subE es := by
  intro es
  induction es with
  | nil => intro ch ls ch' h; simp [chooseElems] at h; simp [expandElems, h.1]
  | cons e es ih =>
    intro ch ls ch' h
    simp only [chooseElems] at h
    cases hh : headChoice subC e ch with
    | none => simp [hh] at h
    | some p =>
      obtain ⟨l, c1⟩ := p
      simp only [hh] at h
      cases ht : chooseElems subC es c1 with
      | none => simp [ht] at h
      | some q =>
        obtain ⟨t, c2⟩ := q
        simp only [ht, Option.some.injEq, Prod.mk.injEq] at h
        simp only [expandElems, List.mem_flatMap, List.mem_map]
        exact ⟨l, headChoice_mem hsub e ch l c1 hh, t, ih c1 t c2 ht, h.1⟩

theorem expandChoice_mem (tab : List SynDesc) :
    ∀ fuel es ch ls ch', expandChoice tab fuel es ch = some (ls, ch') → ls ∈ expand tab fuel es := by
  intro fuel
  induction fuel with
  | zero =>
    intro es ch ls ch' h
    unfold expandChoice at h; unfold expand
    exact chooseElems_mem (by intro _ _ _ _ h; simp at h) es ch ls ch' h
  | succ f ih =>
    intro es ch ls ch' h
    unfold expandChoice at h; unfold expand
    refine chooseElems_mem ?_ es ch ls ch' h
    intro opts ch0 l c hs
    cases ch0 with
    | nil => simp at hs
    | cons k ch1 =>
      simp only at hs
      cases ho : opts[k]? with
      | none => simp [ho] at hs
      | some o =>
        simp only [ho] at hs
        simp only [List.mem_flatMap]
        refine ⟨o, List.mem_of_getElem? ho, ?_⟩
        cases hl : lookup tab o with
        | none => simp [hl] at hs
        | some d => simp only [hl] at hs ⊢; exact ih _ _ _ _ hs

/-- the cheap table check implies the semantic one -/
theorem wellSpaced_of_fast {cfg : Config} {ls : List Leaf} (hr : regsOK cfg = true)
    (h : wellSpacedFast cfg ls = true) : wellSpaced cfg ls = true := by
  simp only [wellSpacedFast, wellSpaced, Bool.and_eq_true, List.all_eq_true] at h ⊢
  refine ⟨?_, h.2⟩
  intro l hl
  have := h.1 l hl
  cases l with
  | reg c =>
    simp only [leafOKFast, decide_eq_true_eq] at this
    simp only [leafOK, regClassOK]
    have hc : cfg.regClasses[c]? = some cfg.regClasses[c] := List.getElem?_eq_getElem this
    rw [hc]
    simp only [regsOK, List.all_eq_true] at hr
    simpa [List.all_eq_true] using hr _ (List.getElem_mem this)
  | word s => simpa [leafOK, leafOKFast] using this
  | ws s => simpa [leafOK, leafOKFast] using this
  | glyph c => simpa [leafOK, leafOKFast] using this
  | int => rfl
  | label => rfl
  | other d => simp [leafOKFast] at this

end Proofs.AsmSyn
