import PpciVerif.Proofs.Reloc
/-! arm `ldr_imm12`: a relocation that ORs into the instruction bytes.
Its theorem assumes the field bits are clear in the emitted instruction (as `encode()` leaves them). -/
namespace Proofs.Reloc
open Model.Token Model.Reloc Proofs.Token Spec.RelocSem

theorem or_low {a z k : Nat} (ha : a % 2 ^ k = 0) (hz : z < 2 ^ k) : a ||| z = a + z := by
  have e : a = (a / 2 ^ k) <<< k := by
    rw [Nat.shiftLeft_eq]
    have := Nat.div_add_mod a (2 ^ k)
    rw [ha] at this
    rw [Nat.mul_comm]; omega
  rw [e, ← Nat.shiftLeft_add_eq_or_of_lt hz]

theorem or_lt_256 {a z : Nat} (ha : a < 256) (hz : z < 256) : a ||| z < 256 :=
  Nat.or_lt_two_pow (n := 8) ha hz

theorem data4' {data : List Nat} (hlen : data.length = 4) : ∃ b0 b1 b2 b3, data = [b0, b1, b2, b3] := by
  match data, hlen with
  | [b0, b1, b2, b3], _ => exact ⟨b0, b1, b2, b3, rfl⟩

theorem orByte_ok {data : List Nat} {i old v : Nat} (h : data[i]? = some old) (hlt : old ||| v < 256) :
    orByte data i v = .ok (data.set i (old ||| v)) := by
  unfold orByte
  rw [h]
  simp only
  rw [if_neg (by omega)]

theorem setByte_ok {data : List Nat} {i : Nat} {v : Int} (h0 : 0 ≤ v) (h1 : v < 256) (hi : i < data.length) :
    setByte data i v = .ok (data.set i v.toNat) := by
  unfold setByte
  rw [if_neg (by omega), if_neg (by omega)]

/-! ### arm `ldr_imm12` (LDR literal: U bit 23, imm12 bits 11:0) -/

theorem ldrImm12_target {S P : Int} {data out : List Nat} (hlen : data.length = 4) (hb : Bytes data)
    (himm : bits (wordLE data) 8 4 = 0) (hu : bits (wordLE data) 23 1 = 0)
    (h : Arm.ldrImm12 S data P = .ok out) : armLdrLitAddr (wordLE out) P = S := by
  obtain ⟨b0, b1, b2, b3, rfl⟩ := data4' hlen
  have h0 : b0 < 256 := hb b0 (by simp)
  have h1 : b1 < 256 := hb b1 (by simp)
  have h2 : b2 < 256 := hb b2 (by simp)
  have h3 : b3 < 256 := hb b3 (by simp)
  unfold bits wordLE wordLE wordLE wordLE wordLE at himm hu
  norm_num at himm hu
  have hb1 : b1 % 2 ^ 4 = 0 := by norm_num; omega
  have hb2 : b2 % 2 ^ 8 < 128 := by norm_num; omega
  unfold Arm.ldrImm12 at h
  obtain ⟨_, a1, h⟩ := bind_ok h
  obtain ⟨_, a2, h⟩ := bind_ok h
  have hS := mod4_of_beq (assert_ok a1)
  have hP := mod4_of_beq (assert_ok a2)
  simp only at h
  by_cases hneg : S - (P + 8) < 0
  · rw [if_pos hneg] at h
    simp only at h
    obtain ⟨_, a3, h⟩ := bind_ok h
    have hlt : -(S - (P + 8)) < 4096 := by simpa using assert_ok a3
    rw [orByte_ok (data := [b0, b1, b2, b3]) (i := 2) (old := b2) rfl (show b2 ||| 0 * 128 < 256 by simpa using h2)] at h
    simp only [bind, Except.bind, List.set] at h
    have hx : ((-(S - (P + 8))) / 256 % 16).toNat < 2 ^ 4 := by norm_num; omega
    rw [orByte_ok (i := 1) (old := b1) rfl (by rw [or_low hb1 hx]; norm_num at hx ⊢; omega)] at h
    simp only [List.set] at h
    rw [setByte_ok (by omega) (by omega) (by simp)] at h
    cases h
    rw [or_low hb1 hx]
    simp only [List.set, Nat.zero_mul, Nat.or_zero]
    unfold armLdrLitAddr bits wordLE wordLE wordLE wordLE wordLE
    generalize hn : (-(S - (P + 8)) % 256).toNat = n0
    generalize hm : (-(S - (P + 8)) / 256 % 16).toNat = n1
    have e0 : (n0 : Int) = -(S - (P + 8)) % 256 := by rw [← hn]; exact Int.toNat_of_nonneg (by omega)
    have e1 : (n1 : Int) = -(S - (P + 8)) / 256 % 16 := by rw [← hm]; exact Int.toNat_of_nonneg (by omega)
    norm_num
    split <;> omega
  · rw [if_neg hneg] at h
    simp only at h
    obtain ⟨_, a3, h⟩ := bind_ok h
    have hlt : S - (P + 8) < 4096 := by simpa using assert_ok a3
    have hb2' : b2 % 2 ^ 7 = b2 := by norm_num at hb2 ⊢; omega
    have hor : b2 ||| 128 = b2 + 128 := by
      rw [Nat.or_comm, show (128 : Nat) = 1 <<< 7 from rfl, ← Nat.shiftLeft_add_eq_or_of_lt (by norm_num at hb2 ⊢; omega)]
      omega
    rw [orByte_ok (data := [b0, b1, b2, b3]) (i := 2) (old := b2) rfl (by rw [show 1 * 128 = 128 from rfl, hor]; norm_num at hb2; omega)] at h
    simp only [bind, Except.bind, List.set] at h
    have hx : ((S - (P + 8)) / 256 % 16).toNat < 2 ^ 4 := by norm_num; omega
    rw [orByte_ok (i := 1) (old := b1) rfl (by rw [or_low hb1 hx]; norm_num at hx ⊢; omega)] at h
    simp only [List.set] at h
    rw [setByte_ok (by omega) (by omega) (by simp)] at h
    cases h
    rw [or_low hb1 hx, show 1 * 128 = 128 from rfl, hor]
    simp only [List.set]
    unfold armLdrLitAddr bits wordLE wordLE wordLE wordLE wordLE
    generalize hn : ((S - (P + 8)) % 256).toNat = n0
    generalize hm : ((S - (P + 8)) / 256 % 16).toNat = n1
    have e0 : (n0 : Int) = (S - (P + 8)) % 256 := by rw [← hn]; exact Int.toNat_of_nonneg (by omega)
    have e1 : (n1 : Int) = (S - (P + 8)) / 256 % 16 := by rw [← hm]; exact Int.toNat_of_nonneg (by omega)
    norm_num at hb2 ⊢
    split <;> omega


end Proofs.Reloc
