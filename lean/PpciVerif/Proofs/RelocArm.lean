import PpciVerif.Proofs.Reloc
/-! arm `ldr_imm12`, `adr_imm12` and thumb `b_imm11_imm6`: the relocations that OR into the instruction bytes.
Their theorems assume the field bits are clear in the emitted instruction (as `encode()` leaves them). -/
namespace Proofs.Reloc
open Model.Token Model.Reloc Proofs.Token Spec.RelocSem

theorem or_low {a z k : Nat} (ha : a % 2 ^ k = 0) (hz : z < 2 ^ k) : a ||| z = a + z := by
  have e : a = (a / 2 ^ k) <<< k := by
    rw [Nat.shiftLeft_eq]
    have := Nat.div_add_mod a (2 ^ k)
    rw [ha] at this
    rw [Nat.mul_comm]; omega
  rw [e, ← Nat.shiftLeft_add_eq_or_of_lt hz]

theorem or_lt_256 {a z : Nat} (ha : a < 256) (hz : z < 256) : a ||| z < 256 :=
  Nat.or_lt_two_pow (n := 8) ha hz

theorem data4' {data : List Nat} (hlen : data.length = 4) : ∃ b0 b1 b2 b3, data = [b0, b1, b2, b3] := by
  match data, hlen with
  | [b0, b1, b2, b3], _ => exact ⟨b0, b1, b2, b3, rfl⟩

theorem orByte_ok {data : List Nat} {i old v : Nat} (h : data[i]? = some old) (hlt : old ||| v < 256) :
    orByte data i v = .ok (data.set i (old ||| v)) := by
  unfold orByte
  rw [h]
  simp only
  rw [if_neg (by omega)]

theorem setByte_ok {data : List Nat} {i : Nat} {v : Int} (h0 : 0 ≤ v) (h1 : v < 256) (hi : i < data.length) :
    setByte data i v = .ok (data.set i v.toNat) := by
  unfold setByte
  rw [if_neg (by omega), if_neg (by omega)]

/-! ### arm `ldr_imm12` (LDR literal: U bit 23, imm12 bits 11:0) -/

theorem ldrImm12_target {S P : Int} {data out : List Nat} (hlen : data.length = 4) (hb : Bytes data)
    (himm : bits (wordLE data) 8 4 = 0) (hu : bits (wordLE data) 23 1 = 0)
    (h : Arm.ldrImm12 S data P = .ok out) : armLdrLitAddr (wordLE out) P = S := by
  obtain ⟨b0, b1, b2, b3, rfl⟩ := data4' hlen
  have h0 : b0 < 256 := hb b0 (by simp)
  have h1 : b1 < 256 := hb b1 (by simp)
  have h2 : b2 < 256 := hb b2 (by simp)
  have h3 : b3 < 256 := hb b3 (by simp)
  unfold bits wordLE wordLE wordLE wordLE wordLE at himm hu
  norm_num at himm hu
  have hb1 : b1 % 2 ^ 4 = 0 := by norm_num; omega
  have hb2 : b2 % 2 ^ 8 < 128 := by norm_num; omega
  unfold Arm.ldrImm12 at h
  obtain ⟨_, a1, h⟩ := bind_ok h
  obtain ⟨_, a2, h⟩ := bind_ok h
  have hS := mod4_of_beq (assert_ok a1)
  have hP := mod4_of_beq (assert_ok a2)
  simp only at h
  by_cases hneg : S - (P + 8) < 0
  · rw [if_pos hneg] at h
    simp only at h
    obtain ⟨_, a3, h⟩ := bind_ok h
    have hlt : -(S - (P + 8)) < 4096 := by simpa using assert_ok a3
    rw [orByte_ok (data := [b0, b1, b2, b3]) (i := 2) (old := b2) rfl (show b2 ||| 0 * 128 < 256 by simpa using h2)] at h
    simp only [bind, Except.bind, List.set] at h
    have hx : ((-(S - (P + 8))) / 256 % 16).toNat < 2 ^ 4 := by norm_num; omega
    rw [orByte_ok (i := 1) (old := b1) rfl (by rw [or_low hb1 hx]; norm_num at hx ⊢; omega)] at h
    simp only [List.set] at h
    rw [setByte_ok (by omega) (by omega) (by simp)] at h
    cases h
    rw [or_low hb1 hx]
    simp only [List.set, Nat.zero_mul, Nat.or_zero]
    unfold armLdrLitAddr bits wordLE wordLE wordLE wordLE wordLE
    generalize hn : (-(S - (P + 8)) % 256).toNat = n0
    generalize hm : (-(S - (P + 8)) / 256 % 16).toNat = n1
    have e0 : (n0 : Int) = -(S - (P + 8)) % 256 := by rw [← hn]; exact Int.toNat_of_nonneg (by omega)
    have e1 : (n1 : Int) = -(S - (P + 8)) / 256 % 16 := by rw [← hm]; exact Int.toNat_of_nonneg (by omega)
    norm_num
    split <;> omega
  · rw [if_neg hneg] at h
    simp only at h
    obtain ⟨_, a3, h⟩ := bind_ok h
    have hlt : S - (P + 8) < 4096 := by simpa using assert_ok a3
    have hb2' : b2 % 2 ^ 7 = b2 := by norm_num at hb2 ⊢; omega
    have hor : b2 ||| 128 = b2 + 128 := by
      rw [Nat.or_comm, show (128 : Nat) = 1 <<< 7 from rfl, ← Nat.shiftLeft_add_eq_or_of_lt (by norm_num at hb2 ⊢; omega)]
      omega
    rw [orByte_ok (data := [b0, b1, b2, b3]) (i := 2) (old := b2) rfl (by rw [show 1 * 128 = 128 from rfl, hor]; norm_num at hb2; omega)] at h
    simp only [bind, Except.bind, List.set] at h
    have hx : ((S - (P + 8)) / 256 % 16).toNat < 2 ^ 4 := by norm_num; omega
    rw [orByte_ok (i := 1) (old := b1) rfl (by rw [or_low hb1 hx]; norm_num at hx ⊢; omega)] at h
    simp only [List.set] at h
    rw [setByte_ok (by omega) (by omega) (by simp)] at h
    cases h
    rw [or_low hb1 hx, show 1 * 128 = 128 from rfl, hor]
    simp only [List.set]
    unfold armLdrLitAddr bits wordLE wordLE wordLE wordLE wordLE
    generalize hn : ((S - (P + 8)) % 256).toNat = n0
    generalize hm : ((S - (P + 8)) / 256 % 16).toNat = n1
    have e0 : (n0 : Int) = (S - (P + 8)) % 256 := by rw [← hn]; exact Int.toNat_of_nonneg (by omega)
    have e1 : (n1 : Int) = (S - (P + 8)) / 256 % 16 := by rw [← hm]; exact Int.toNat_of_nonneg (by omega)
    norm_num at hb2 ⊢
    split <;> omega


/-! ### thumb `b_imm11_imm6` (B<c>.W, T3; ppci sets J1 = J2 = S) -/

theorem or_bit2 (b : Nat) (_hb : b < 256) (h : b / 4 % 2 = 0) : b ||| 4 = b + 4 := by
  have hr : b % 8 < 4 := by omega
  have eb : b = (b / 8) <<< 3 ||| b % 8 := by
    rw [← Nat.shiftLeft_add_eq_or_of_lt (by norm_num; omega), Nat.shiftLeft_eq]; omega
  have e4 : b % 8 ||| 4 = 4 + b % 8 := by
    rw [Nat.or_comm, show (4 : Nat) = 1 <<< 2 from rfl, ← Nat.shiftLeft_add_eq_or_of_lt (by norm_num; exact hr)]
  rw [eb, Nat.or_assoc, e4, ← Nat.shiftLeft_add_eq_or_of_lt (by norm_num; omega), ← Nat.shiftLeft_add_eq_or_of_lt (by norm_num; omega)]
  omega

theorem word_split {o0 o1 o2 o3 : Nat} (h0 : o0 < 256) (h1 : o1 < 256) (h2 : o2 < 256) :
    (o0 + 256 * (o1 + 256 * (o2 + 256 * o3))) % 65536 = o0 + 256 * o1
    ∧ (o0 + 256 * (o1 + 256 * (o2 + 256 * o3))) / 65536 = o2 + 256 * o3 := by omega

theorem half_bits {a b : Nat} (ha : a < 256) :
    (a + 256 * b) / 2 ^ 10 % 2 ^ 1 = b / 4 % 2 ∧ (a + 256 * b) / 2 ^ 0 % 2 ^ 6 = a % 64
    ∧ (a + 256 * b) / 2 ^ 13 % 2 ^ 1 = b / 32 % 2 ∧ (a + 256 * b) / 2 ^ 11 % 2 ^ 1 = b / 8 % 2
    ∧ (a + 256 * b) / 2 ^ 0 % 2 ^ 11 = a + 256 * (b % 8) := by
  norm_num; omega

theorem bcw_final (d i : Int) (hd : d % 2 = 0) (h1 : -262144 ≤ d) (h2 : d < 262144) (hi : i = d / 2 % 4294967296)
    (sb n6 n2 n3 : Nat) (hsb : (sb : Int) = i / 131072 % 2) (e6 : (n6 : Int) = i / 2048 % 64)
    (e2 : (n2 : Int) = i % 2048 % 256) (e3 : (n3 : Int) = i % 2048 / 256 % 8) :
    Spec.Bits.wrapS 21 ((sb * 1048576 + sb * 524288 + sb * 262144 + n6 * 4096 + (n2 + 256 * n3) * 2 : Nat) : Int) = d := by
  unfold Spec.Bits.wrapS
  push_cast
  norm_num
  split <;> omega
theorem or_b3_40 (b : Nat) (_hb : b < 256) (x : Nat) (hx : x < 8) (h : b % 64 = 0) : (b ||| x) ||| 40 = b + x + 40 := by
  have e : x ||| 40 = 40 + x := by
    rw [Nat.or_comm, show (40 : Nat) = 5 <<< 3 from rfl, ← Nat.shiftLeft_add_eq_or_of_lt (by norm_num; exact hx)]
  rw [Nat.or_assoc, e, or_low (k := 6) (by norm_num; exact h) (by norm_num; omega)]
  omega
theorem or_b3_0 (b : Nat) (_hb : b < 256) (x : Nat) (hx : x < 8) (h : b % 64 = 0) : (b ||| x) ||| 0 = b + x := by
  rw [Nat.or_zero, or_low (k := 6) (by norm_num; exact h) (by norm_num; omega)]

theorem align2_even' {P : Int} (h : P % 2 = 0) : align P 2 = P := by
  unfold align
  have : (-P) % ((2 : Nat) : Int) = 0 := by norm_num; omega
  rw [this]; ring

/-- ppci's encoding of B<c>.W is right for distances within ±256 KiB (it accepts ±1 MiB: finding) -/
theorem bImm11Imm6_target {S P : Int} {data out : List Nat} (hlen : data.length = 4) (hb : Bytes data)
    (hP : P % 2 = 0) (h6 : bits (wordLE data) 0 6 = 0) (hs : bits (wordLE data) 10 1 = 0)
    (hj : bits (wordLE data) 24 6 = 0)
    (h : Thumb.bImm11Imm6 S data P = .ok out) (hfit : Spec.Bits.fitsS 19 (S - P - 4)) :
    thumbBcWTarget (wordLE out) P = S := by
  obtain ⟨b0, b1, b2, b3, rfl⟩ := data4' hlen
  have h0 : b0 < 256 := hb b0 (by simp)
  have h1 : b1 < 256 := hb b1 (by simp)
  have h2 : b2 < 256 := hb b2 (by simp)
  have h3 : b3 < 256 := hb b3 (by simp)
  unfold bits wordLE wordLE wordLE wordLE wordLE at h6 hs hj
  norm_num at h6 hs hj
  have hb0 : b0 % 2 ^ 6 = 0 := by norm_num; omega
  have hb1 : b1 / 4 % 2 = 0 := by omega
  have hb3 : b3 % 64 = 0 := by omega
  unfold Thumb.bImm11Imm6 at h
  rw [align2_even' hP] at h
  obtain ⟨_, a0, h⟩ := bind_ok h
  obtain ⟨_, a1, h⟩ := bind_ok h
  obtain ⟨imm32, a2, h⟩ := bind_ok h
  have hS := even_of_beq (assert_ok a0)
  have hr : -1048576 ≤ S - (P + 4) ∧ S - (P + 4) < 1048574 ∧ (S - (P + 4) - -1048576) % ((2 : Nat) : Int) = 0 := by
    have := assert_ok a1; unfold inRangeStep at this; simpa using this
  obtain ⟨w1, w2, rfl⟩ := wrapNegative_ok a2
  unfold Spec.Bits.fitsS at hfit
  norm_num at hfit hr
  generalize hi : (S - (P + 4)) / 2 % 2 ^ 32 = i at h
  have hi0 : 0 ≤ i := by rw [← hi]; exact Int.emod_nonneg _ (by norm_num)
  have hi1 : i < 4294967296 := by rw [← hi]; have := Int.emod_lt_of_pos ((S - (P + 4)) / 2) (show (0 : Int) < 2 ^ 32 by norm_num); norm_num at this ⊢; exact this
  simp only [bind, Except.bind] at h
  rw [setByte_ok (by omega) (by omega) (by simp)] at h
  simp only [List.set] at h
  have hx : (i % 2048 / 256 % 8).toNat < 8 := by omega
  rw [orByte_ok (i := 3) (old := b3) rfl (by
    have := or_low (a := b3) (z := (i % 2048 / 256 % 8).toNat) (k := 6) (by norm_num; exact hb3) (by norm_num; omega)
    rw [this]; omega)] at h
  simp only [List.set] at h
  have hsv : i / 131072 % 2 = 0 ∨ i / 131072 % 2 = 1 := by omega
  have hor3 : (b3 ||| (i % 2048 / 256 % 8).toNat) ||| (i / 131072 % 2 * 32 + i / 131072 % 2 * 8).toNat
      = b3 + (i % 2048 / 256 % 8).toNat + (i / 131072 % 2 * 40).toNat := by
    rcases hsv with e | e
    · rw [e]; simpa using or_b3_0 b3 h3 _ hx hb3
    · rw [e]; simpa using or_b3_40 b3 h3 _ hx hb3
  rw [orByte_ok (i := 3) (old := b3 ||| (i % 2048 / 256 % 8).toNat) rfl (by rw [hor3]; omega)] at h
  simp only [List.set] at h
  have h6' : (i / 2048 % 64).toNat < 2 ^ 6 := by norm_num; omega
  rw [orByte_ok (i := 0) (old := b0) rfl (by rw [or_low hb0 h6']; norm_num at h6' ⊢; omega)] at h
  simp only [List.set] at h
  have hor1 : b1 ||| (i / 131072 % 2 * 4).toNat = b1 + (i / 131072 % 2 * 4).toNat := by
    rcases hsv with e | e
    · rw [e]; simp
    · rw [e]; simpa using or_bit2 b1 h1 hb1
  rw [orByte_ok (i := 1) (old := b1) rfl (by rw [hor1]; omega)] at h
  simp only [List.set] at h
  cases h
  rw [hor3, hor1, or_low hb0 h6']
  unfold thumbBcWTarget bits wordLE wordLE wordLE wordLE wordLE
  generalize hn2 : (i % 2048 % 256).toNat = n2
  generalize hn3 : (i % 2048 / 256 % 8).toNat = n3
  generalize hn4 : (i / 131072 % 2 * 40).toNat = n4
  generalize hn6 : (i / 2048 % 64).toNat = n6
  generalize hn1 : (i / 131072 % 2 * 4).toNat = n1
  have e2 : (n2 : Int) = i % 2048 % 256 := by rw [← hn2]; exact Int.toNat_of_nonneg (by omega)
  have e3 : (n3 : Int) = i % 2048 / 256 % 8 := by rw [← hn3]; exact Int.toNat_of_nonneg (by omega)
  have e4 : (n4 : Int) = i / 131072 % 2 * 40 := by rw [← hn4]; exact Int.toNat_of_nonneg (by omega)
  have e6 : (n6 : Int) = i / 2048 % 64 := by rw [← hn6]; exact Int.toNat_of_nonneg (by omega)
  have e1 : (n1 : Int) = i / 131072 % 2 * 4 := by rw [← hn1]; exact Int.toNat_of_nonneg (by omega)
  obtain ⟨sb, hsb⟩ : ∃ sb : Nat, (sb : Int) = i / 131072 % 2 := ⟨(i / 131072 % 2).toNat, Int.toNat_of_nonneg (by omega)⟩
  have q1 : n1 = 4 * sb := by omega
  have q4 : n4 = 40 * sb := by omega
  have hb0' : b0 % 64 = 0 := by norm_num at hb0; exact hb0
  have p0 : b0 + n6 < 256 ∧ (b0 + n6) % 64 = n6 := by omega
  have p1 : b1 + n1 < 256 ∧ (b1 + n1) / 4 % 2 = sb := by omega
  have p3 : (b3 + n3 + n4) % 8 = n3 ∧ (b3 + n3 + n4) / 8 % 2 = sb ∧ (b3 + n3 + n4) / 32 % 2 = sb := by omega
  have p2 : n2 < 256 := by omega
  obtain ⟨w1, w2⟩ := word_split (o3 := b3 + n3 + n4) p0.1 p1.1 p2
  simp only [w1, w2]
  obtain ⟨f1, f4, _, _, _⟩ := half_bits (b := b1 + n1) p0.1
  obtain ⟨_, _, f2, f3, f5⟩ := half_bits (b := b3 + n3 + n4) p2
  rw [f1, f2, f3, f4, f5, p0.2, p1.2, p3.1, p3.2.1, p3.2.2]
  have := bcw_final (S - (P + 4)) i (by omega) (by omega) (by omega) (by rw [← hi]; norm_num) sb n6 n2 n3 hsb e6 e2 e3
  rw [this]; ring

end Proofs.Reloc
