import PpciVerif.Spec.IRWF
/-!
# Proofs.IRGraph — `Spec.IR.Func.reach` / `Func.dominates` are path reachability / path dominance

The Boolean graph search of `Spec.IR` (`reachStep`, `reachIter`, `Func.reach`, `Func.dominates`)
is characterised by the walks `Spec.IRWF.PathIn` of the block-level CFG:

* `mem_reach_iff`   : `v ∈ f.reach avoid ↔` there is a walk entry → v none of whose vertices is `avoid`
* `reachable_iff`   : `(f.reach none).contains v ↔ Reachable f v`
* `dominates_iff`   : `f.dominates d v = true ↔ Dom f d v`   (for every `f`, no side condition)
* order facts: `dom_refl`, `dom_trans`, `dom_antisymm` (on reachable blocks), `dom_reachable`.

The number of rounds `f.blocks.length` suffices because a shortest walk repeats no vertex and all
its vertices but the last are names of blocks (pigeonhole, `nodup_sub_length_le`).
Core Lean only.
-/
namespace Proofs.IRGraph
open Spec.IR Spec.IRWF

/-! ## walks -/

section Walks
variable {succ : String → List String}

theorem PathIn.last_mem {u v : String} {l : List String} (p : PathIn succ u l v) : v ∈ u :: l := by
  induction p with
  | nil _ => simp
  | cons _ _ ih => exact List.mem_cons_of_mem _ ih

theorem PathIn.append {u w v : String} {l1 l2 : List String}
    (p : PathIn succ u l1 w) (q : PathIn succ w l2 v) : PathIn succ u (l1 ++ l2) v := by
  induction p with
  | nil _ => simpa using q
  | cons e _ ih => exact PathIn.cons e (ih q)

theorem PathIn.snoc {u w v : String} {l : List String}
    (p : PathIn succ u l w) (e : v ∈ succ w) : PathIn succ u (l ++ [v]) v :=
  PathIn.append p (PathIn.cons e (PathIn.nil v))

/-- split a walk at the first occurrence of a vertex on it -/
theorem PathIn.split {u v x : String} {l : List String} (p : PathIn succ u l v) (hx : x ∈ u :: l) :
    ∃ l1 l2, l = l1 ++ l2 ∧ PathIn succ u l1 x ∧ PathIn succ x l2 v := by
  induction p with
  | nil u =>
    simp at hx; subst hx
    exact ⟨[], [], rfl, PathIn.nil _, PathIn.nil _⟩
  | @cons u w v l e p ih =>
    by_cases hxu : x = u
    · subst hxu
      exact ⟨[], w :: l, rfl, PathIn.nil _, PathIn.cons e p⟩
    · have : x ∈ w :: l := by
        rcases List.mem_cons.1 hx with h | h
        · exact absurd h hxu
        · exact h
      obtain ⟨l1, l2, hl, p1, p2⟩ := ih this
      exact ⟨w :: l1, l2, by simp [hl], PathIn.cons e p1, p2⟩

/-- split a walk at the last occurrence of a vertex on it -/
theorem PathIn.split_last {u v x : String} {l : List String} (p : PathIn succ u l v) (hx : x ∈ u :: l) :
    ∃ l1 l2, l = l1 ++ l2 ∧ PathIn succ u l1 x ∧ PathIn succ x l2 v ∧ x ∉ l2 := by
  induction p with
  | nil u =>
    simp at hx; subst hx
    exact ⟨[], [], rfl, PathIn.nil _, PathIn.nil _, by simp⟩
  | @cons u w v l e p ih =>
    by_cases hin : x ∈ w :: l
    · obtain ⟨l1, l2, hl, p1, p2, hn⟩ := ih hin
      exact ⟨w :: l1, l2, by simp [hl], PathIn.cons e p1, p2, hn⟩
    · have hxu : x = u := by
        rcases List.mem_cons.1 hx with h | h
        · exact h
        · exact absurd h hin
      subst hxu
      exact ⟨[], w :: l, rfl, PathIn.nil _, PathIn.cons e p, hin⟩

/-- every walk contains a simple walk (no repeated vertex) between the same ends, using only
    vertices of the original one -/
theorem PathIn.simple {u v : String} {l : List String} (p : PathIn succ u l v) :
    ∃ l', PathIn succ u l' v ∧ (u :: l').Nodup ∧ ∀ x ∈ l', x ∈ l := by
  induction p with
  | nil u => exact ⟨[], PathIn.nil _, by simp, by simp⟩
  | @cons u w v l e p ih =>
    obtain ⟨l', p', nd, sub⟩ := ih
    by_cases hu : u ∈ w :: l'
    · obtain ⟨l1, l2, hl, _, p2, hn⟩ := PathIn.split_last p' hu
      refine ⟨l2, p2, ?_, ?_⟩
      · have : (l1 ++ l2).Nodup := by rw [← hl]; exact (List.nodup_cons.1 nd).2
        exact List.nodup_cons.2 ⟨hn, (List.nodup_append.1 this).2.1⟩
      · intro x hx
        have : x ∈ l' := by rw [hl]; exact List.mem_append_right _ hx
        exact List.mem_cons_of_mem _ (sub x this)
    · refine ⟨w :: l', PathIn.cons e p', List.nodup_cons.2 ⟨hu, nd⟩, ?_⟩
      intro x hx
      rcases List.mem_cons.1 hx with h | h
      · subst h; simp
      · exact List.mem_cons_of_mem _ (sub x h)

/-- every vertex of a walk except the last one has a successor -/
theorem PathIn.init_has_succ {u v : String} {l : List String} (p : PathIn succ u l v) :
    ∀ x ∈ (u :: l).dropLast, succ x ≠ [] := by
  induction p with
  | nil u => simp
  | @cons u w v l e p ih =>
    intro x hx
    rw [List.dropLast_cons_cons] at hx
    rcases List.mem_cons.1 hx with h | h
    · subst h; exact List.ne_nil_of_mem e
    · exact ih x h

end Walks

/-- pigeonhole: a duplicate-free list whose members all occur in `l₂` is no longer than `l₂` -/
theorem nodup_sub_length_le : ∀ (l₁ l₂ : List String), l₁.Nodup → (∀ x ∈ l₁, x ∈ l₂) → l₁.length ≤ l₂.length := by
  intro l₁
  induction l₁ with
  | nil => intro _ _ _; simp
  | cons a l ih =>
    intro l₂ nd h
    have ha : a ∈ l₂ := h a (by simp)
    have nd' := List.nodup_cons.1 nd
    have h' : ∀ x ∈ l, x ∈ l₂.erase a := by
      intro x hx
      have hxa : x ≠ a := by intro e; subst e; exact nd'.1 hx
      exact (List.mem_erase_of_ne hxa).2 (h x (List.mem_cons_of_mem _ hx))
    have := ih (l₂.erase a) nd'.2 h'
    rw [List.length_erase_of_mem ha] at this
    have : l₂.length > 0 := List.length_pos_of_mem ha
    simp only [List.length_cons]
    omega

/-! ## one round / `k` rounds of the search -/

section Search
variable (succ : String → List String) (avoid : Option String)

theorem mem_inner (ts : List String) : ∀ (acc : List String) (x : String),
    x ∈ ts.foldl (fun acc t => if acc.contains t || avoid = some t then acc else acc ++ [t]) acc ↔
      x ∈ acc ∨ (x ∈ ts ∧ avoid ≠ some x) := by
  induction ts with
  | nil => intro acc x; simp
  | cons t ts ih =>
    intro acc x
    rw [List.foldl_cons, ih]
    by_cases hc : (acc.contains t || decide (avoid = some t)) = true
    · rw [if_pos hc]
      constructor
      · rintro (h | ⟨h, ha⟩)
        · exact Or.inl h
        · exact Or.inr ⟨List.mem_cons_of_mem _ h, ha⟩
      · rintro (h | ⟨h, ha⟩)
        · exact Or.inl h
        · rcases List.mem_cons.1 h with h | h
          · subst h
            simp only [Bool.or_eq_true, List.contains_iff_mem, decide_eq_true_eq] at hc
            rcases hc with hc | hc
            · exact Or.inl hc
            · exact absurd hc ha
          · exact Or.inr ⟨h, ha⟩
    · rw [if_neg hc]
      simp only [Bool.or_eq_true, List.contains_iff_mem, decide_eq_true_eq, not_or] at hc
      constructor
      · rintro (h | ⟨h, ha⟩)
        · rcases List.mem_append.1 h with h | h
          · exact Or.inl h
          · simp at h; subst h
            exact Or.inr ⟨List.mem_cons_self, hc.2⟩
        · exact Or.inr ⟨List.mem_cons_of_mem _ h, ha⟩
      · rintro (h | ⟨h, ha⟩)
        · exact Or.inl (List.mem_append_left _ h)
        · rcases List.mem_cons.1 h with h | h
          · subst h; exact Or.inl (List.mem_append_right _ (by simp))
          · exact Or.inr ⟨h, ha⟩

theorem mem_outer (ns : List String) : ∀ (acc : List String) (x : String),
    x ∈ ns.foldl (fun acc n =>
        (succ n).foldl (fun acc t => if acc.contains t || avoid = some t then acc else acc ++ [t]) acc) acc ↔
      x ∈ acc ∨ ∃ n ∈ ns, x ∈ succ n ∧ avoid ≠ some x := by
  induction ns with
  | nil => intro acc x; simp
  | cons n ns ih =>
    intro acc x
    rw [List.foldl_cons, ih, mem_inner]
    constructor
    · rintro ((h | ⟨h, ha⟩) | ⟨n', hn', h⟩)
      · exact Or.inl h
      · exact Or.inr ⟨n, List.mem_cons_self, h, ha⟩
      · exact Or.inr ⟨n', List.mem_cons_of_mem _ hn', h⟩
    · rintro (h | ⟨n', hn', h⟩)
      · exact Or.inl (Or.inl h)
      · rcases List.mem_cons.1 hn' with e | e
        · subst e; exact Or.inl (Or.inr h)
        · exact Or.inr ⟨n', e, h⟩

theorem mem_reachStep (seen : List String) (x : String) :
    x ∈ reachStep succ avoid seen ↔ x ∈ seen ∨ ∃ n ∈ seen, x ∈ succ n ∧ avoid ≠ some x := by
  unfold reachStep
  exact mem_outer succ avoid seen seen x

/-- `k` rounds find exactly the vertices within distance `k` of the start set, along walks whose
    vertices (after the start) are allowed -/
theorem mem_reachIter (k : Nat) : ∀ (seen : List String) (x : String),
    x ∈ reachIter succ avoid k seen ↔
      ∃ u ∈ seen, ∃ l, PathIn succ u l x ∧ l.length ≤ k ∧ ∀ y ∈ l, avoid ≠ some y := by
  induction k with
  | zero =>
    intro seen x
    simp only [reachIter]
    constructor
    · intro h; exact ⟨x, h, [], PathIn.nil _, by simp, by simp⟩
    · rintro ⟨u, hu, l, p, hl, _⟩
      have : l = [] := List.length_eq_zero_iff.1 (by omega)
      subst this; cases p; exact hu
  | succ k ih =>
    intro seen x
    simp only [reachIter]
    rw [ih]
    constructor
    · rintro ⟨u, hu, l, p, hl, ha⟩
      rcases (mem_reachStep succ avoid seen u).1 hu with h | ⟨n, hn, hs, hav⟩
      · exact ⟨u, h, l, p, by omega, ha⟩
      · refine ⟨n, hn, u :: l, PathIn.cons hs p, by simp; omega, ?_⟩
        intro y hy
        rcases List.mem_cons.1 hy with e | e
        · subst e; exact hav
        · exact ha y e
    · rintro ⟨u, hu, l, p, hl, ha⟩
      cases p with
      | nil _ => exact ⟨x, (mem_reachStep succ avoid seen x).2 (Or.inl hu), [], PathIn.nil _, by simp, by simp⟩
      | @cons _ w _ l' e p' =>
        refine ⟨w, (mem_reachStep succ avoid seen w).2 (Or.inr ⟨u, hu, e, ha w (by simp)⟩), l', p', ?_, ?_⟩
        · simp at hl; omega
        · intro y hy; exact ha y (List.mem_cons_of_mem _ hy)

end Search

/-! ## `Func.reach` -/

theorem succOf_ne_nil {f : Func} {x : String} (h : f.succOf x ≠ []) : x ∈ f.blockNames := by
  unfold Func.succOf at h
  cases hb : f.findBlock x with
  | none => simp [hb] at h
  | some b =>
    unfold Func.findBlock at hb
    have h1 := List.mem_of_find?_eq_some hb
    have h2 := List.find?_some hb
    simp at h2
    unfold Func.blockNames
    exact List.mem_map.2 ⟨b, h1, h2⟩

/-- a walk can be replaced by one of at most `f.blocks.length` edges over a subset of its vertices -/
theorem short_path {f : Func} {u v : String} {l : List String} (p : Path f u l v) :
    ∃ l', Path f u l' v ∧ l'.length ≤ f.blocks.length ∧ ∀ x ∈ l', x ∈ l := by
  obtain ⟨l', p', nd, sub⟩ := PathIn.simple p
  refine ⟨l', p', ?_, sub⟩
  have hnd : ((u :: l').dropLast).Nodup := List.Nodup.sublist (List.dropLast_sublist _) nd
  have hsub : ∀ x ∈ (u :: l').dropLast, x ∈ f.blockNames :=
    fun x hx => succOf_ne_nil (PathIn.init_has_succ p' x hx)
  have := nodup_sub_length_le _ _ hnd hsub
  simp [Func.blockNames] at this
  omega

/-- membership in `f.reach avoid` = existence of a walk from the entry none of whose vertices is avoided -/
theorem mem_reach_iff (f : Func) (avoid : Option String) (v : String) :
    v ∈ f.reach avoid ↔ ∃ l, Path f f.entry l v ∧ ∀ y ∈ f.entry :: l, avoid ≠ some y := by
  unfold Func.reach
  by_cases he : avoid = some f.entry
  · rw [if_pos he]
    simp only [List.not_mem_nil, false_iff]
    rintro ⟨l, _, h⟩
    exact h f.entry (by simp) he
  · rw [if_neg he, mem_reachIter]
    constructor
    · rintro ⟨u, hu, l, p, _, ha⟩
      simp at hu; subst hu
      refine ⟨l, p, ?_⟩
      intro y hy
      rcases List.mem_cons.1 hy with e | e
      · subst e; exact he
      · exact ha y e
    · rintro ⟨l, p, ha⟩
      obtain ⟨l', p', hlen, sub⟩ := short_path p
      exact ⟨f.entry, by simp, l', p', hlen, fun y hy => ha y (List.mem_cons_of_mem _ (sub y hy))⟩

theorem reachable_iff (f : Func) (v : String) : (f.reach none).contains v = true ↔ Reachable f v := by
  rw [List.contains_iff_mem, mem_reach_iff]
  unfold Reachable
  constructor
  · rintro ⟨l, p, _⟩; exact ⟨l, p⟩
  · rintro ⟨l, p⟩; exact ⟨l, p, by simp⟩

/-- the Boolean dominance test of `Spec.IR` is dominance by paths -/
theorem dominates_iff (f : Func) (d v : String) : f.dominates d v = true ↔ Dom f d v := by
  unfold Func.dominates Dom
  simp only [Bool.or_eq_true, decide_eq_true_eq, Bool.not_eq_true', ← Bool.not_eq_true,
    List.contains_iff_mem, mem_reach_iff]
  constructor
  · rintro (h | h) l p
    · subst h; exact PathIn.last_mem p
    · apply Classical.byContradiction
      intro hd
      apply h
      refine ⟨l, p, ?_⟩
      intro y hy e
      simp at e; subst e; exact hd hy
  · intro h
    by_cases hdv : d = v
    · exact Or.inl hdv
    · right
      rintro ⟨l, p, ha⟩
      exact ha d (h l p) rfl

/-! ## order facts of dominance -/

theorem dom_refl (f : Func) (v : String) : Dom f v v := fun _ p => PathIn.last_mem p

theorem dom_entry (f : Func) (v : String) : Dom f f.entry v := fun _ _ => by simp

theorem dom_trans {f : Func} {a b v : String} (h1 : Dom f a b) (h2 : Dom f b v) : Dom f a v := by
  intro l p
  obtain ⟨l1, l2, hl, p1, _⟩ := PathIn.split p (h2 l p)
  have := h1 l1 p1
  rw [hl, ← List.cons_append]
  exact List.mem_append_left _ this

/-- a dominator of a reachable block is reachable -/
theorem dom_reachable {f : Func} {d v : String} (h : Dom f d v) (r : Reachable f v) : Reachable f d := by
  obtain ⟨l, p⟩ := r
  obtain ⟨l1, _, _, p1, _⟩ := PathIn.split p (h l p)
  exact ⟨l1, p1⟩

/-- antisymmetry on reachable blocks -/
theorem dom_antisymm {f : Func} {a b : String} (hab : Dom f a b) (hba : Dom f b a)
    (r : Reachable f b) : a = b := by
  apply Classical.byContradiction
  intro hne
  have key : ∀ k, ∀ l, l.length ≤ k → ¬ Path f f.entry l b := by
    intro k
    induction k with
    | zero =>
      intro l hl p
      have : l = [] := List.length_eq_zero_iff.1 (by omega)
      subst this
      have := hab [] p
      cases p
      simp at this
      exact hne this
    | succ k ih =>
      intro l hl p
      obtain ⟨l1, l2, hl12, p1, p2⟩ := PathIn.split p (hab l p)
      have hl2 : l2 ≠ [] := by
        intro h; subst h; cases p2; exact hne rfl
      obtain ⟨l3, l4, hl34, p3, _⟩ := PathIn.split p1 (hba l1 p1)
      refine ih l3 ?_ p3
      have : l2.length > 0 := List.length_pos_iff.2 hl2
      have h1 : l.length = l1.length + l2.length := by rw [hl12]; simp
      have h2 : l1.length = l3.length + l4.length := by rw [hl34]; simp
      omega
  obtain ⟨l, p⟩ := r
  exact key l.length l (Nat.le_refl _) p

end Proofs.IRGraph
