import PpciVerif.Model.Reloc
import PpciVerif.Spec.RelocSem
import PpciVerif.Proofs.Token
import Mathlib.Tactic.Ring
import Mathlib.Tactic.Linarith
/-!
Lemmas for the relocation theorems of C10 (2) / C11: little-endian buffers, `BitView` writes as
`writeBits` on the buffer's integer, reading fields of the result, and per-relocation facts
`apply = ok out → (representable → Spec decoder of out designates S)`.
-/
namespace Proofs.Reloc
open Model.Token Model.Reloc Proofs.Token Spec.RelocSem

/-! ### little-endian buffers -/

def Bytes (data : List Nat) : Prop := ∀ b ∈ data, b < 256

theorem wordLE_eq (data : List Nat) : wordLE data = fromLE data := by
  induction data with
  | nil => rfl
  | cons b bs ih => simp [wordLE, fromLE, ih]

theorem length_toLE (n x : Nat) : (toLE n x).length = n := by
  induction n generalizing x with
  | zero => rfl
  | succ k ih => simp [toLE, ih]

theorem bytes_toLE (n x : Nat) : Bytes (toLE n x) := by
  induction n generalizing x with
  | zero => intro b hb; cases hb
  | succ k ih =>
    intro b hb
    simp only [toLE, List.mem_cons] at hb
    rcases hb with rfl | hb
    · omega
    · exact ih _ b hb

theorem fromLE_lt (data : List Nat) (h : Bytes data) : fromLE data < 2 ^ (8 * data.length) := by
  induction data with
  | nil => simp [fromLE]
  | cons b bs ih =>
    have hb : b < 256 := h b (by simp)
    have := ih (fun x hx => h x (by simp [hx]))
    simp only [fromLE, List.length_cons]
    have e : 2 ^ (8 * (bs.length + 1)) = 256 * 2 ^ (8 * bs.length) := by
      rw [Nat.mul_add, Nat.pow_add]; ring
    omega

theorem fromLE_toLE (n x : Nat) (h : x < 2 ^ (8 * n)) : fromLE (toLE n x) = x := by
  induction n generalizing x with
  | zero => simp at h; simp [toLE, fromLE, h]
  | succ k ih =>
    have e : 2 ^ (8 * (k + 1)) = 256 * 2 ^ (8 * k) := by rw [Nat.mul_add, Nat.pow_add]; ring
    have : x / 256 < 2 ^ (8 * k) := by omega
    simp only [toLE, fromLE, ih _ this]
    omega

theorem toLE_fromLE (data : List Nat) (h : Bytes data) : toLE data.length (fromLE data) = data := by
  induction data with
  | nil => rfl
  | cons b bs ih =>
    have hb : b < 256 := h b (by simp)
    simp only [List.length_cons, toLE, fromLE]
    have e1 : (b + 256 * fromLE bs) % 256 = b := by omega
    have e2 : (b + 256 * fromLE bs) / 256 = fromLE bs := by omega
    rw [e1, e2, ih (fun x hx => h x (by simp [hx]))]

/-! ### `Token.pack/unpack` (little endian) are `toLE/fromLE` -/

theorem pack_le (size bv : Nat) : pack size false bv = toLE (size / 8) bv := by
  unfold pack
  simp only [Bool.false_eq_true, if_false]
  generalize size / 8 = n
  induction n generalizing bv with
  | zero => rfl
  | succ k ih =>
    rw [List.range_succ_eq_map, List.map_cons, List.map_map, toLE]
    congr 1
    · simp [Nat.and_two_pow_sub_one_eq_mod bv 8]
    · rw [← ih (bv / 256)]
      apply List.map_congr_left
      intro x _
      simp only [Function.comp, Nat.succ_eq_add_one]
      congr 1
      rw [Nat.shiftRight_eq_div_pow, Nat.shiftRight_eq_div_pow, Nat.add_mul, Nat.pow_add, Nat.div_div_eq_div_mul]
      ring_nf

theorem foldl_unpack (data : List Nat) :
    data.reverse.foldl (fun v byte => (v <<< 8) + byte) 0 = fromLE data := by
  rw [List.foldl_reverse]
  induction data with
  | nil => rfl
  | cons b bs ih =>
    simp only [List.foldr_cons, fromLE, ih, Nat.shiftLeft_eq]
    omega

theorem unpack_le (size : Nat) (data : List Nat) (h : data.length = size / 8) :
    unpack size false data = .ok (fromLE data) := by
  unfold unpack
  simp [h, foldl_unpack]

/-! ### reading a field of a written word -/

theorem bits_eq (w lo len : Nat) : bits w lo len = w / 2 ^ lo % 2 ^ len := rfl

/-- the slice just written -/
theorem bits_write_same {size bv b w x : Nat} (hx : x < 2 ^ w) (hs : b + w ≤ size) :
    bits (writeBits size bv b w x) b w = x := slice_written_same hx hs

/-- a slice that shares no bit with the written one -/
theorem bits_write_other {size bv b w x lo len : Nat} (hx : x < 2 ^ w) (hl : lo + len ≤ size)
    (hd : lo + len ≤ b ∨ b + w ≤ lo) : bits (writeBits size bv b w x) lo len = bits bv lo len := by
  unfold bits
  apply sliceVal_congr
  intro i h1 h2
  have := written_testBit_out (size := size) (bv := bv) (b := b) (w := w) (x := x) (i := i) hx (by omega)
  unfold written at this
  rw [this]
  have : i < size := by omega
  simp [this]

theorem writeBits_lt {size bv b w x : Nat} (hx : x < 2 ^ w) (hs : b + w ≤ size) :
    writeBits size bv b w x < 2 ^ size := written_lt hx hs

/-! ### `BitView.__setitem__` -/

/-- one `bv[a:b] = v` on a buffer that is the little-endian image of the word `w` -/
theorem bvSet_word (n w L a b : Nat) (v : Int) (hw : w < 2 ^ (8 * n)) (hab : a < b) (hL : b ≤ L * 8)
    (hn : b ≤ 8 * n) (hv : v < 2 ^ (b - a)) :
    bvSet (toLE n w) L a b v = .ok (toLE n (writeBits (8 * n) w a (b - a) (stored (b - a) v))) := by
  unfold bvSet
  rw [length_toLE, fromLE_toLE n w hw]
  have c1 : ¬ ¬ (b > a) := by omega
  have c2 : ¬ ¬ (b ≤ L * 8) := by omega
  have c3 : ¬ ¬ (v < 2 ^ (b - a)) := by simpa using hv
  have c4 : ¬ (b > 8 * n) := by omega
  rw [if_neg c1, if_neg c2, if_neg c3, if_neg c4]
  rfl

end Proofs.Reloc
