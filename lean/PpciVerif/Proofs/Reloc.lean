import PpciVerif.Model.Reloc
import PpciVerif.Spec.RelocSem
import PpciVerif.Proofs.Token
import Mathlib.Tactic.Ring
import Mathlib.Tactic.Linarith
/-!
Lemmas for the relocation theorems of C10 (2) / C11: little-endian buffers, `BitView` writes as
`writeBits` on the buffer's integer, reading fields of the result, and per-relocation facts
`apply = ok out → (representable → Spec decoder of out designates S)`.
-/
namespace Proofs.Reloc
open Model.Token Model.Reloc Proofs.Token Spec.RelocSem

/-! ### little-endian buffers -/

def Bytes (data : List Nat) : Prop := ∀ b ∈ data, b < 256

theorem wordLE_eq (data : List Nat) : wordLE data = fromLE data := by
  induction data with
  | nil => rfl
  | cons b bs ih => simp [wordLE, fromLE, ih]

theorem length_toLE (n x : Nat) : (toLE n x).length = n := by
  induction n generalizing x with
  | zero => rfl
  | succ k ih => simp [toLE, ih]

theorem bytes_toLE (n x : Nat) : Bytes (toLE n x) := by
  induction n generalizing x with
  | zero => intro b hb; cases hb
  | succ k ih =>
    intro b hb
    simp only [toLE, List.mem_cons] at hb
    rcases hb with rfl | hb
    · omega
    · exact ih _ b hb

theorem fromLE_lt (data : List Nat) (h : Bytes data) : fromLE data < 2 ^ (8 * data.length) := by
  induction data with
  | nil => simp [fromLE]
  | cons b bs ih =>
    have hb : b < 256 := h b (by simp)
    have := ih (fun x hx => h x (by simp [hx]))
    simp only [fromLE, List.length_cons]
    have e : 2 ^ (8 * (bs.length + 1)) = 256 * 2 ^ (8 * bs.length) := by
      rw [Nat.mul_add, Nat.pow_add]; ring
    omega

theorem fromLE_toLE (n x : Nat) (h : x < 2 ^ (8 * n)) : fromLE (toLE n x) = x := by
  induction n generalizing x with
  | zero => simp at h; simp [toLE, fromLE, h]
  | succ k ih =>
    have e : 2 ^ (8 * (k + 1)) = 256 * 2 ^ (8 * k) := by rw [Nat.mul_add, Nat.pow_add]; ring
    have : x / 256 < 2 ^ (8 * k) := by omega
    simp only [toLE, fromLE, ih _ this]
    omega

theorem toLE_fromLE (data : List Nat) (h : Bytes data) : toLE data.length (fromLE data) = data := by
  induction data with
  | nil => rfl
  | cons b bs ih =>
    have hb : b < 256 := h b (by simp)
    simp only [List.length_cons, toLE, fromLE]
    have e1 : (b + 256 * fromLE bs) % 256 = b := by omega
    have e2 : (b + 256 * fromLE bs) / 256 = fromLE bs := by omega
    rw [e1, e2, ih (fun x hx => h x (by simp [hx]))]

/-! ### `Token.pack/unpack` (little endian) are `toLE/fromLE` -/

theorem pack_le (size bv : Nat) : pack size false bv = toLE (size / 8) bv := by
  unfold pack
  simp only [Bool.false_eq_true, if_false]
  generalize size / 8 = n
  induction n generalizing bv with
  | zero => rfl
  | succ k ih =>
    rw [List.range_succ_eq_map, List.map_cons, List.map_map, toLE]
    congr 1
    · simp [Nat.and_two_pow_sub_one_eq_mod bv 8]
    · rw [← ih (bv / 256)]
      apply List.map_congr_left
      intro x _
      simp only [Function.comp, Nat.succ_eq_add_one]
      congr 1
      rw [Nat.shiftRight_eq_div_pow, Nat.shiftRight_eq_div_pow, Nat.add_mul, Nat.pow_add, Nat.div_div_eq_div_mul]
      ring_nf

theorem foldr_unpack (data : List Nat) :
    List.foldr (fun x y => y <<< 8 + x) 0 data = fromLE data := by
  induction data with
  | nil => rfl
  | cons b bs ih =>
    rw [List.foldr_cons, ih, fromLE, Nat.shiftLeft_eq]
    omega

theorem unpack_le (size : Nat) (data : List Nat) (h : data.length = size / 8) :
    unpack size false data = .ok (fromLE data) := by
  unfold unpack
  simp [h, List.foldl_reverse, foldr_unpack]

/-! ### reading a field of a written word -/

theorem bits_eq (w lo len : Nat) : bits w lo len = w / 2 ^ lo % 2 ^ len := rfl

/-- the slice just written -/
theorem bits_write_same {size bv b w x : Nat} (hx : x < 2 ^ w) (hs : b + w ≤ size) :
    bits (writeBits size bv b w x) b w = x := slice_written_same hx hs

/-- a slice that shares no bit with the written one -/
theorem bits_write_other {size bv b w x lo len : Nat} (hx : x < 2 ^ w) (hl : lo + len ≤ size)
    (hd : lo + len ≤ b ∨ b + w ≤ lo) : bits (writeBits size bv b w x) lo len = bits bv lo len := by
  unfold bits
  apply sliceVal_congr
  intro i h1 h2
  have := written_testBit_out (size := size) (bv := bv) (b := b) (w := w) (x := x) (i := i) hx (by omega)
  unfold written at this
  rw [this]
  have : i < size := by omega
  simp [this]

theorem writeBits_lt {size bv b w x : Nat} (hx : x < 2 ^ w) (hs : b + w ≤ size) :
    writeBits size bv b w x < 2 ^ size := written_lt hx hs

/-! ### `BitView.__setitem__` -/

/-- one `bv[a:b] = v` on a buffer that is the little-endian image of the word `w` -/
theorem bvSet_word (n w L a b : Nat) (v : Int) (hw : w < 2 ^ (8 * n)) (hab : a < b) (hL : b ≤ L * 8)
    (hn : b ≤ 8 * n) (hv : v < 2 ^ (b - a)) :
    bvSet (toLE n w) L a b v = .ok (toLE n (writeBits (8 * n) w a (b - a) (stored (b - a) v))) := by
  unfold bvSet
  rw [length_toLE, fromLE_toLE n w hw]
  have c1 : ¬ ¬ (b > a) := by omega
  have c2 : ¬ ¬ (b ≤ L * 8) := by omega
  have c3 : ¬ ¬ (v < 2 ^ (b - a)) := by simpa using hv
  have c4 : ¬ (b > 8 * n) := by omega
  rw [if_neg c1, if_neg c2, if_neg c3, if_neg c4]
  rfl


/-! ### helpers about the bitfun functions -/

theorem assert_ok {c : Bool} (h : Model.Reloc.assert c = .ok ()) : c = true := by
  unfold Model.Reloc.assert at h
  by_cases hc : c = true
  · exact hc
  · simp [hc] at h

theorem assert_true : Model.Reloc.assert true = .ok () := rfl

theorem assert_false : Model.Reloc.assert false = .error .AssertionError := rfl

theorem wrapNegative_ok {v : Int} {bits : Nat} {r : Int} (h : wrapNegative v bits = .ok r) :
    -(2 ^ (bits - 1)) ≤ v ∧ v < 2 ^ bits ∧ r = v % 2 ^ bits := by
  unfold wrapNegative at h
  simp only at h
  split at h
  · cases h
  · rename_i hc
    cases h
    have hc' : -(2 ^ (bits - 1)) ≤ v ∧ v < 2 ^ bits - 1 + 1 := by simpa using hc
    exact ⟨hc'.1, by omega, rfl⟩

theorem wrapNegative_of {v : Int} {bits : Nat} (h1 : -(2 ^ (bits - 1)) ≤ v) (h2 : v < 2 ^ bits) :
    wrapNegative v bits = .ok (v % 2 ^ bits) := by
  unfold wrapNegative
  simp only
  rw [if_neg]
  simp only [not_not]
  exact ⟨h1, by omega⟩

theorem wrapNegative_err {v : Int} {bits : Nat} (h : v < -(2 ^ (bits - 1)) ∨ 2 ^ bits ≤ v) :
    wrapNegative v bits = .error .ValueError := by
  unfold wrapNegative
  simp only
  rw [if_pos]
  intro hc
  omega

/-! ## riscv J-type scatter (`b_imm20`, `cb_imm11`, `cbl_imm11`) -/

def jWord (w : Nat) (r : Int) : Nat :=
  writeBits 32 (writeBits 32 (writeBits 32 (writeBits 32 w 21 10 (stored 10 (r % 1024)))
    20 1 (stored 1 (r / 1024 % 2))) 12 8 (stored 8 (r / 2048 % 256))) 31 1 (stored 1 (r / 524288 % 2))

theorem data4 {data : List Nat} (hlen : data.length = 4) (hb : Bytes data) :
    data = toLE 4 (fromLE data) ∧ fromLE data < 2 ^ 32 := by
  refine ⟨by rw [← hlen, toLE_fromLE data hb], ?_⟩
  have := fromLE_lt data hb
  rw [hlen] at this
  exact this

theorem jScatter_eq {data : List Nat} (r : Int) (hlen : data.length = 4) (hb : Bytes data) :
    Riscv.jScatter data r = .ok (toLE 4 (jWord (fromLE data) r)) := by
  obtain ⟨hd, hw⟩ := data4 hlen hb
  generalize fromLE data = w at hd hw
  subst hd
  unfold Riscv.jScatter jWord
  have p10 : (0 : Int) < 1024 := by decide
  simp only [bind, Except.bind]
  rw [bvSet_word 4 w 4 21 31 _ hw (by decide) (by decide) (by decide) (by norm_num; exact Int.emod_lt_of_pos _ (by decide))]
  simp only
  rw [bvSet_word 4 _ 4 20 21 _ (writeBits_lt (stored_lt _ _) (by decide)) (by decide) (by decide) (by decide)
    (by norm_num; exact Int.emod_lt_of_pos _ (by decide))]
  simp only
  rw [bvSet_word 4 _ 4 12 20 _ (writeBits_lt (stored_lt _ _) (by decide)) (by decide) (by decide) (by decide)
    (by norm_num; exact Int.emod_lt_of_pos _ (by decide))]
  simp only
  rw [bvSet_word 4 _ 4 31 32 _ (writeBits_lt (stored_lt _ _) (by decide)) (by decide) (by decide) (by decide)
    (by norm_num; exact Int.emod_lt_of_pos _ (by decide))]

theorem jWord_bits (w : Nat) (r : Int) :
    bits (jWord w r) 31 1 = stored 1 (r / 524288 % 2) ∧ bits (jWord w r) 12 8 = stored 8 (r / 2048 % 256)
    ∧ bits (jWord w r) 20 1 = stored 1 (r / 1024 % 2) ∧ bits (jWord w r) 21 10 = stored 10 (r % 1024) := by
  unfold jWord
  refine ⟨?_, ?_, ?_, ?_⟩
  · rw [bits_write_same (stored_lt _ _) (by decide)]
  · rw [bits_write_other (stored_lt _ _) (by decide) (by decide), bits_write_same (stored_lt _ _) (by decide)]
  · rw [bits_write_other (stored_lt _ _) (by decide) (by decide), bits_write_other (stored_lt _ _) (by decide) (by decide),
      bits_write_same (stored_lt _ _) (by decide)]
  · rw [bits_write_other (stored_lt _ _) (by decide) (by decide), bits_write_other (stored_lt _ _) (by decide) (by decide),
      bits_write_other (stored_lt _ _) (by decide) (by decide), bits_write_same (stored_lt _ _) (by decide)]

theorem stored_small {w : Nat} {v : Int} (h0 : 0 ≤ v) (h1 : v < 2 ^ w) : (stored w v : Int) = v := by
  rw [stored_cast]; exact Int.emod_eq_of_lt h0 h1

/-- the J-type decoder reads back `2·r` (sign-extended from 21 bits) -/
theorem rvJOffset_jWord (w : Nat) (r : Int) (h0 : 0 ≤ r) (h1 : r < 1048576) :
    rvJOffset (jWord w r) = Spec.Bits.wrapS 21 (2 * r) := by
  obtain ⟨b31, b12, b20, b21⟩ := jWord_bits w r
  unfold rvJOffset
  rw [b31, b12, b20, b21]
  congr 1
  push_cast
  rw [stored_small (by omega) (by norm_num; omega), stored_small (by omega) (by norm_num; omega),
    stored_small (by omega) (by norm_num; omega), stored_small (by omega) (by norm_num; omega)]
  omega


theorem bind_ok {α β : Type} {x : Except Model.Token.Err α} {f : α → Except Model.Token.Err β} {r : β}
    (h : (x >>= f) = .ok r) : ∃ a, x = .ok a ∧ f a = .ok r := by
  cases x with
  | error e => simp [bind, Except.bind] at h
  | ok a => exact ⟨a, rfl, by simpa [bind, Except.bind] using h⟩

theorem even_of_beq {x : Int} (h : (x % 2 == 0) = true) : x % 2 = 0 := by simpa using h

theorem mod4_of_beq {x : Int} (h : (x % 4 == 0) = true) : x % 4 = 0 := by simpa using h

/-- sign extension of `2·((d/2) mod 2^(n-1))` gives back an even `d` that fits `n` bits -/
theorem wrapS_double {n : Nat} (hn : 2 ≤ n) {d : Int} (he : d % 2 = 0) (hf : Spec.Bits.fitsS n d) :
    Spec.Bits.wrapS n (2 * (d / 2 % 2 ^ (n - 1))) = d := by
  obtain ⟨k, rfl⟩ : ∃ k, n = k + 2 := ⟨n - 2, by omega⟩
  unfold Spec.Bits.fitsS at hf
  unfold Spec.Bits.wrapS
  have hP : (0 : Int) < 2 ^ k := two_pow_pos_int k
  have e1 : (2 : Int) ^ (k + 2 - 1) = 2 * 2 ^ k := by
    have : k + 2 - 1 = k + 1 := by omega
    rw [this, Int.pow_succ]; ring
  have e2 : (2 : Int) ^ (k + 2) = 4 * 2 ^ k := by rw [Int.pow_succ, Int.pow_succ]; ring
  rw [e1] at hf ⊢
  rw [e2]
  generalize (2 : Int) ^ k = Q at *
  -- d = 2 * h, -Q ≤ h < Q, m = h mod 2Q
  have hd : d = 2 * (d / 2) := by omega
  generalize d / 2 = h at *
  subst hd
  have hh : -Q ≤ h ∧ h < Q := by omega
  by_cases hneg : 0 ≤ h
  · have m : h % (2 * Q) = h := Int.emod_eq_of_lt hneg (by omega)
    rw [m]
    have m2 : 2 * h % (4 * Q) = 2 * h := Int.emod_eq_of_lt (by omega) (by omega)
    rw [m2, if_pos (by omega)]
  · have m : h % (2 * Q) = h + 2 * Q := by
      have : (h + 2 * Q) % (2 * Q) = h + 2 * Q := Int.emod_eq_of_lt (by omega) (by omega)
      rw [Int.add_emod_right] at this
      exact this
    rw [m]
    have m2 : 2 * (h + 2 * Q) % (4 * Q) = 2 * h + 4 * Q := by
      have : (2 * h + 4 * Q) % (4 * Q) = 2 * h + 4 * Q := Int.emod_eq_of_lt (by omega) (by omega)
      rw [← this]; congr 1; ring
    rw [m2, if_neg (by omega)]
    omega

/-- what a successful riscv `b_imm20` (= rvc `cb_imm11`, `cbl_imm11`) did -/
theorem bImm20_ok {S P : Int} {data out : List Nat} (hlen : data.length = 4) (hb : Bytes data)
    (h : Riscv.bImm20 S data P = .ok out) :
    S % 2 = 0 ∧ P % 2 = 0 ∧ -(2 ^ 19) ≤ (S - P) / 2 ∧ (S - P) / 2 < 2 ^ 20
      ∧ out = toLE 4 (jWord (fromLE data) ((S - P) / 2 % 2 ^ 20)) := by
  unfold Riscv.bImm20 at h
  obtain ⟨_, a1, h⟩ := bind_ok h
  obtain ⟨_, a2, h⟩ := bind_ok h
  obtain ⟨r, a3, h⟩ := bind_ok h
  obtain ⟨w1, w2, w3⟩ := wrapNegative_ok a3
  subst w3
  rw [jScatter_eq _ hlen hb] at h
  cases h
  exact ⟨even_of_beq (assert_ok a1), even_of_beq (assert_ok a2), by simpa using w1, w2, rfl⟩

/-- C10(2)/C11 for the J-type relocations: a successful apply of a representable reference makes the
    instruction word designate exactly `S` -/
theorem bImm20_target {S P : Int} {data out : List Nat} (hlen : data.length = 4) (hb : Bytes data)
    (h : Riscv.bImm20 S data P = .ok out) (hfit : Spec.Bits.fitsS 21 (S - P)) :
    P + rvJOffset (wordLE out) = S := by
  obtain ⟨hS, hP, _, _, rfl⟩ := bImm20_ok hlen hb h
  have hr0 : 0 ≤ (S - P) / 2 % 2 ^ 20 := Int.emod_nonneg _ (by norm_num)
  have hr1 : (S - P) / 2 % 2 ^ 20 < 1048576 := by
    have := Int.emod_lt_of_pos ((S - P) / 2) (show (0 : Int) < 2 ^ 20 by norm_num)
    norm_num at this ⊢; exact this
  rw [wordLE_eq, fromLE_toLE _ _ (by
    unfold jWord; exact writeBits_lt (stored_lt _ _) (by decide)), rvJOffset_jWord _ _ hr0 hr1]
  have := wrapS_double (n := 21) (by decide) (d := S - P) (by omega) hfit
  simp only [show 21 - 1 = 20 from rfl] at this
  rw [this]; omega

/-- EXACT acceptance region of `b_imm20`: even addresses and `(S-P)/2 ∈ [-2^19, 2^20)` — the upper half
    `[2^19, 2^20)` is NOT representable (finding) -/
theorem bImm20_accepts {S P : Int} {data : List Nat} (hlen : data.length = 4) (hb : Bytes data)
    (hS : S % 2 = 0) (hP : P % 2 = 0) (h1 : -(2 ^ 19) ≤ (S - P) / 2) (h2 : (S - P) / 2 < 2 ^ 20) :
    ∃ out, Riscv.bImm20 S data P = .ok out := by
  unfold Riscv.bImm20
  have a1 : Model.Reloc.assert (S % 2 == 0) = .ok () := by simp [Model.Reloc.assert, hS]
  have a2 : Model.Reloc.assert (P % 2 == 0) = .ok () := by simp [Model.Reloc.assert, hP]
  simp only [a1, a2, bind, Except.bind]
  rw [wrapNegative_of (by simpa using h1) h2]
  simp only
  exact ⟨_, jScatter_eq _ hlen hb⟩

theorem bImm20_rejects {S P : Int} {data : List Nat}
    (h : S % 2 ≠ 0 ∨ P % 2 ≠ 0 ∨ (S - P) / 2 < -(2 ^ 19) ∨ 2 ^ 20 ≤ (S - P) / 2) :
    ∃ e, Riscv.bImm20 S data P = .error e := by
  unfold Riscv.bImm20
  by_cases hS : S % 2 = 0
  · by_cases hP : P % 2 = 0
    · have a1 : Model.Reloc.assert (S % 2 == 0) = .ok () := by simp [Model.Reloc.assert, hS]
      have a2 : Model.Reloc.assert (P % 2 == 0) = .ok () := by simp [Model.Reloc.assert, hP]
      simp only [a1, a2, bind, Except.bind]
      rw [wrapNegative_err (by
        rcases h with h | h | h | h
        · exact absurd hS h
        · exact absurd hP h
        · left; simpa using h
        · right; exact h)]
      exact ⟨_, rfl⟩
    · have a1 : Model.Reloc.assert (S % 2 == 0) = .ok () := by simp [Model.Reloc.assert, hS]
      have a2 : Model.Reloc.assert (P % 2 == 0) = .error .AssertionError := by simp [Model.Reloc.assert, hP]
      simp only [a1, a2, bind, Except.bind]
      exact ⟨_, rfl⟩
  · have a1 : Model.Reloc.assert (S % 2 == 0) = .error .AssertionError := by simp [Model.Reloc.assert, hS]
    simp only [a1, bind, Except.bind]
    exact ⟨_, rfl⟩


/-! ### token-based relocations: one plain `bit_range` field -/

theorem dataN {data : List Nat} {n : Nat} (hlen : data.length = n) (hb : Bytes data) :
    data = toLE n (fromLE data) ∧ fromLE data < 2 ^ (8 * n) := by
  refine ⟨by rw [← hlen, toLE_fromLE data hb], ?_⟩
  have := fromLE_lt data hb
  rw [hlen] at this
  exact this

/-- `Relocation.apply` through a token with a plain field `[b, e)`: succeeds exactly on `[-2^w, 2^w)` and
    rewrites just that slice with `v mod 2^w` -/
theorem applyToken_range {size b e : Nat} {nm : String} {sg : Bool} {data : List Nat} {v : Int}
    (hlen : data.length = size / 8) (hbe : b < e) :
    applyToken size false ⟨nm, false, [(b, e)], sg⟩ data v =
      if -(2 ^ (e - b)) ≤ v ∧ v < 2 ^ (e - b)
      then .ok (toLE (size / 8) (writeBits size (fromLE data) b (e - b) (stored (e - b) v)))
      else if 2 ^ (e - b) ≤ v then .error .ValueError else .error .AssertionError := by
  unfold applyToken
  rw [unpack_le size data hlen]
  simp only [setField, Bool.false_eq_true, if_false]
  by_cases hacc : -(2 ^ (e - b)) ≤ v ∧ v < 2 ^ (e - b)
  · rw [if_pos hacc, setSlice_accept _ _ _ _ _ hbe hacc.1 hacc.2]
    simp only [pack_le, written]
  · rw [if_neg hacc]
    by_cases hhi : 2 ^ (e - b) ≤ v
    · rw [if_pos hhi, setSlice_reject_hi _ _ _ _ _ hbe hhi]
    · rw [if_neg hhi, setSlice_reject_lo _ _ _ _ _ hbe (by omega)]

/-! ## riscv `b_imm12` (SB token, `imm = bit(31) + bit(7) + bit_range(25,31) + bit_range(8,12)`) -/

def sbWord (w : Nat) (v : Int) : Nat :=
  writeBits 32 (writeBits 32 (writeBits 32 (writeBits 32 w 8 4 (stored 4 v))
    25 6 (stored 6 (v / 16))) 7 1 (stored 1 (v / 16 / 64))) 31 1 (stored 1 (v / 16 / 64 / 2))

theorem emod_range (x : Int) (k : Nat) : -(2 ^ k) ≤ x % 2 ^ k ∧ x % 2 ^ k < 2 ^ k := by
  have h0 := Int.emod_nonneg x (Int.ne_of_gt (two_pow_pos_int k))
  have h1 := Int.emod_lt_of_pos x (two_pow_pos_int k)
  have := two_pow_pos_int k
  omega

theorem stored_emod (k : Nat) (x : Int) : stored k (x % 2 ^ k) = stored k x := by
  unfold stored; rw [Int.emod_emod_of_dvd _ (Int.dvd_refl _)]

theorem setField_sb (w : Nat) (v : Int) : setField 32 riscvSB_imm w v = .ok (sbWord w v) := by
  simp only [setField, riscvSB_imm, if_true, List.reverse_cons, List.reverse_nil, List.nil_append, List.cons_append,
    setConcatRev]
  rw [setSlice_accept 32 w 8 12 _ (by decide) (emod_range v 4).1 (emod_range v 4).2]
  simp only
  rw [setSlice_accept 32 _ 25 31 _ (by decide) (emod_range _ 6).1 (emod_range _ 6).2]
  simp only
  rw [setSlice_accept 32 _ 7 8 _ (by decide) (emod_range _ 1).1 (emod_range _ 1).2]
  simp only
  rw [setSlice_accept 32 _ 31 32 _ (by decide) (emod_range _ 1).1 (emod_range _ 1).2]
  simp only [written, sbWord, stored_emod]
  norm_num

theorem applyToken_sb {data : List Nat} (v : Int) (hlen : data.length = 4) :
    applyToken 32 false riscvSB_imm data v = .ok (toLE 4 (sbWord (fromLE data) v)) := by
  unfold applyToken
  rw [unpack_le 32 data (by rw [hlen])]
  simp only [setField_sb, pack_le]

theorem sbWord_bits (w : Nat) (v : Int) :
    bits (sbWord w v) 31 1 = stored 1 (v / 16 / 64 / 2) ∧ bits (sbWord w v) 7 1 = stored 1 (v / 16 / 64)
    ∧ bits (sbWord w v) 25 6 = stored 6 (v / 16) ∧ bits (sbWord w v) 8 4 = stored 4 v := by
  unfold sbWord
  refine ⟨?_, ?_, ?_, ?_⟩
  · rw [bits_write_same (stored_lt _ _) (by decide)]
  · rw [bits_write_other (stored_lt _ _) (by decide) (by decide), bits_write_same (stored_lt _ _) (by decide)]
  · rw [bits_write_other (stored_lt _ _) (by decide) (by decide), bits_write_other (stored_lt _ _) (by decide) (by decide),
      bits_write_same (stored_lt _ _) (by decide)]
  · rw [bits_write_other (stored_lt _ _) (by decide) (by decide), bits_write_other (stored_lt _ _) (by decide) (by decide),
      bits_write_other (stored_lt _ _) (by decide) (by decide), bits_write_same (stored_lt _ _) (by decide)]

theorem rvBOffset_sbWord (w : Nat) (v : Int) : rvBOffset (sbWord w v) = Spec.Bits.wrapS 13 (2 * (v % 4096)) := by
  obtain ⟨b31, b7, b25, b8⟩ := sbWord_bits w v
  unfold rvBOffset
  rw [b31, b7, b25, b8]
  congr 1
  push_cast
  simp only [stored_cast]
  norm_num
  omega

theorem bImm12_ok {S P : Int} {data out : List Nat} (hlen : data.length = 4)
    (h : Riscv.bImm12 S data P = .ok out) :
    S % 2 = 0 ∧ P % 2 = 0 ∧ -(2 ^ 11) ≤ (S - P) / 2 ∧ (S - P) / 2 < 2 ^ 12
      ∧ out = toLE 4 (sbWord (fromLE data) ((S - P) / 2 % 2 ^ 12)) := by
  unfold Riscv.bImm12 Riscv.bImm12Calc at h
  obtain ⟨v, hv, h⟩ := bind_ok h
  obtain ⟨_, a1, hv⟩ := bind_ok hv
  obtain ⟨_, a2, hv⟩ := bind_ok hv
  obtain ⟨w1, w2, w3⟩ := wrapNegative_ok hv
  subst w3
  rw [applyToken_sb _ hlen] at h
  cases h
  exact ⟨even_of_beq (assert_ok a1), even_of_beq (assert_ok a2), by simpa using w1, w2, rfl⟩

theorem bImm12_target {S P : Int} {data out : List Nat} (hlen : data.length = 4)
    (h : Riscv.bImm12 S data P = .ok out) (hfit : Spec.Bits.fitsS 13 (S - P)) :
    P + rvBOffset (wordLE out) = S := by
  obtain ⟨hS, hP, _, _, rfl⟩ := bImm12_ok hlen h
  rw [wordLE_eq, fromLE_toLE _ _ (by unfold sbWord; exact writeBits_lt (stored_lt _ _) (by decide)), rvBOffset_sbWord]
  rw [Int.emod_emod_of_dvd _ (by norm_num)]
  have := wrapS_double (n := 13) (by decide) (d := S - P) (by omega) hfit
  simp only [show 13 - 1 = 12 from rfl] at this
  norm_num at this ⊢
  rw [this]; omega

theorem bImm12_accepts {S P : Int} {data : List Nat} (hlen : data.length = 4)
    (hS : S % 2 = 0) (hP : P % 2 = 0) (h1 : -(2 ^ 11) ≤ (S - P) / 2) (h2 : (S - P) / 2 < 2 ^ 12) :
    ∃ out, Riscv.bImm12 S data P = .ok out := by
  unfold Riscv.bImm12 Riscv.bImm12Calc
  have a1 : Model.Reloc.assert (S % 2 == 0) = .ok () := by simp [Model.Reloc.assert, hS]
  have a2 : Model.Reloc.assert (P % 2 == 0) = .ok () := by simp [Model.Reloc.assert, hP]
  simp only [a1, a2, bind, Except.bind]
  rw [wrapNegative_of (by simpa using h1) h2]
  simp only
  exact ⟨_, applyToken_sb _ hlen⟩

theorem bImm12_rejects {S P : Int} {data : List Nat}
    (h : (S - P) / 2 < -(2 ^ 11) ∨ 2 ^ 12 ≤ (S - P) / 2) : ∃ e, Riscv.bImm12 S data P = .error e := by
  unfold Riscv.bImm12 Riscv.bImm12Calc
  simp only [bind, Except.bind]
  cases a1 : Model.Reloc.assert (S % 2 == 0) with
  | error e => exact ⟨_, rfl⟩
  | ok _ =>
    cases a2 : Model.Reloc.assert (P % 2 == 0) with
    | error e => exact ⟨_, rfl⟩
    | ok _ =>
      simp only
      have hw : wrapNegative ((S - P) / 2) 12 = .error .ValueError := by
        apply wrapNegative_err
        rcases h with h | h
        · left; simpa using h
        · right; exact h
      rw [hw]
      exact ⟨_, rfl⟩

end Proofs.Reloc
