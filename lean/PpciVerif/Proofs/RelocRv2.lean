import PpciVerif.Proofs.Reloc
/-! riscv hi/lo pairs (`abs32_imm20`+`abs32_imm12`, `rel_imm20`+`rel_imm12`) and the RVC relocations
(`bc_imm11`, `bc_imm8`; `cb_imm11`/`cbl_imm11` are the J-type scatter of `Proofs.Reloc`). -/
namespace Proofs.Reloc
open Model.Token Model.Reloc Proofs.Token Spec.RelocSem

/-! ## hi/lo pairs -/

/-- the 20 bits `hi20` writes for `v` (the `+0x800` carry done with `v - 0xFFFFF000`) -/
def hiBits (v : Int) : Int :=
  if v / 2048 % 2 = 0 then v / 4096 % 1048576 else (v - 0xFFFFF000) / 4096 % 1048576

theorem hiBits_range (v : Int) : 0 ≤ hiBits v ∧ hiBits v < 1048576 := by
  unfold hiBits; split <;> omega

theorem hi20_eq {data : List Nat} (v : Int) (hlen : data.length = 4) (hb : Bytes data) :
    Riscv.hi20 data v = .ok (toLE 4 (writeBits 32 (fromLE data) 12 20 (stored 20 (hiBits v)))) := by
  obtain ⟨hd, hw⟩ := data4 hlen hb
  generalize fromLE data = w at hd hw
  subst hd
  have hr := hiBits_range v
  unfold Riscv.hi20 hiBits
  split
  · rename_i hc
    rw [bvSet_word 4 w 4 12 32 _ hw (by decide) (by decide) (by decide) (by norm_num; omega)]
  · rename_i hc
    rw [bvSet_word 4 w 4 12 32 _ hw (by decide) (by decide) (by decide) (by norm_num; omega)]

theorem lo12_eq {data : List Nat} (v : Int) (hlen : data.length = 4) :
    applyToken 32 false riscvI_imm data (v % 4096) =
      .ok (toLE 4 (writeBits 32 (fromLE data) 20 12 (stored 12 v))) := by
  unfold riscvI_imm
  rw [applyToken_range (by rw [hlen]) (by decide)]
  have : -(2 ^ (32 - 20)) ≤ v % 4096 ∧ v % 4096 < 2 ^ (32 - 20) := by norm_num; omega
  rw [if_pos this]
  have e : stored (32 - 20) (v % 4096) = stored 12 v := by
    have := stored_emod 12 v
    norm_num at this ⊢; exact this
  rw [e]

/-- ISA-manual meaning of the pair: `(hi << 12) + sext12(lo) ≡ v (mod 2^32)` for EVERY integer `v` -/
theorem hilo_value (whi wlo : Nat) (v : Int) :
    rvHiLo (writeBits 32 whi 12 20 (stored 20 (hiBits v))) (writeBits 32 wlo 20 12 (stored 12 v))
      = Spec.Bits.wrapU 32 v := by
  unfold rvHiLo rvUValue rvIImm
  rw [bits_write_same (stored_lt _ _) (by decide), bits_write_same (stored_lt _ _) (by decide)]
  have hr := hiBits_range v
  push_cast
  rw [stored_small hr.1 (by norm_num; omega), stored_cast]
  unfold Spec.Bits.wrapU Spec.Bits.wrapS hiBits
  norm_num
  split <;> split <;> omega

/-- `lui rd, %hi(S) ; addi rd, rd, %lo(S)` after `abs32_imm20` / `abs32_imm12` computes `S mod 2^32` -/
theorem abs32_pair {S P P' : Int} {dhi dlo ohi olo : List Nat} (h1 : dhi.length = 4) (hb1 : Bytes dhi)
    (h2 : dlo.length = 4)
    (hhi : Riscv.abs32Imm20 S dhi P = .ok ohi) (hlo : Riscv.abs32Imm12 S dlo P' = .ok olo) :
    rvHiLo (wordLE ohi) (wordLE olo) = Spec.Bits.wrapU 32 S := by
  unfold Riscv.abs32Imm20 at hhi
  obtain ⟨_, _, hhi⟩ := bind_ok hhi
  rw [hi20_eq _ h1 hb1] at hhi
  unfold Riscv.abs32Imm12 at hlo
  obtain ⟨_, _, hlo⟩ := bind_ok hlo
  rw [lo12_eq _ h2] at hlo
  cases hhi; cases hlo
  rw [wordLE_eq, wordLE_eq, fromLE_toLE _ _ (writeBits_lt (stored_lt _ _) (by decide)),
    fromLE_toLE _ _ (writeBits_lt (stored_lt _ _) (by decide)), hilo_value]

/-- hence for a 32-bit address the pair yields exactly `S` -/
theorem abs32_pair_exact {S P P' : Int} {dhi dlo ohi olo : List Nat} (h1 : dhi.length = 4) (hb1 : Bytes dhi)
    (h2 : dlo.length = 4)
    (hhi : Riscv.abs32Imm20 S dhi P = .ok ohi) (hlo : Riscv.abs32Imm12 S dlo P' = .ok olo)
    (hfit : Spec.Bits.fitsU 32 S) : rvHiLo (wordLE ohi) (wordLE olo) = S := by
  rw [abs32_pair h1 hb1 h2 hhi hlo]
  exact Int.emod_eq_of_lt hfit.1 hfit.2

/-- `auipc rd, %pcrel_hi(S) ; addi rd, rd, %pcrel_lo` (the `addi` 4 bytes after the `auipc` at `P`):
    `P + pair ≡ S (mod 2^32)` -/
theorem rel_pair {S P : Int} {dhi dlo ohi olo : List Nat} (h1 : dhi.length = 4) (hb1 : Bytes dhi)
    (h2 : dlo.length = 4)
    (hhi : Riscv.relImm20 S dhi P = .ok ohi) (hlo : Riscv.relImm12 S dlo (P + 4) = .ok olo) :
    rvHiLo (wordLE ohi) (wordLE olo) = Spec.Bits.wrapU 32 (S - P) := by
  unfold Riscv.relImm20 at hhi
  obtain ⟨_, _, hhi⟩ := bind_ok hhi
  obtain ⟨_, _, hhi⟩ := bind_ok hhi
  rw [hi20_eq _ h1 hb1] at hhi
  unfold Riscv.relImm12 at hlo
  obtain ⟨_, _, hlo⟩ := bind_ok hlo
  obtain ⟨_, _, hlo⟩ := bind_ok hlo
  have e : S - (P + 4) + 4 = S - P := by ring
  simp only [e] at hlo
  rw [lo12_eq _ h2] at hlo
  cases hhi; cases hlo
  rw [wordLE_eq, wordLE_eq, fromLE_toLE _ _ (writeBits_lt (stored_lt _ _) (by decide)),
    fromLE_toLE _ _ (writeBits_lt (stored_lt _ _) (by decide)), hilo_value]


/-! ## rvc `bc_imm11` (C.J / C.JAL) -/

def cjWord (w : Nat) (r : Int) : Nat :=
  writeBits 16 (writeBits 16 (writeBits 16 (writeBits 16 (writeBits 16 (writeBits 16 (writeBits 16 (writeBits 16 w
    2 1 (stored 1 (r / 16 % 2))) 3 3 (stored 3 (r % 8))) 6 1 (stored 1 (r / 64 % 2))) 7 1 (stored 1 (r / 32 % 2)))
    8 1 (stored 1 (r / 512 % 2))) 9 2 (stored 2 (r / 128 % 4))) 11 1 (stored 1 (r / 8 % 2))) 12 1 (stored 1 (r / 1024 % 2))

theorem data2 {data : List Nat} (hlen : data.length = 2) (hb : Bytes data) :
    data = toLE 2 (fromLE data) ∧ fromLE data < 2 ^ 16 := by
  have := dataN hlen hb
  exact this

theorem coolMapping_eq {data : List Nat} (r : Int) (hlen : data.length = 2) (hb : Bytes data) :
    Rvc.coolMapping data r = .ok (toLE 2 (cjWord (fromLE data) r)) := by
  obtain ⟨hd, hw⟩ := data2 hlen hb
  generalize fromLE data = w at hd hw
  subst hd
  unfold Rvc.coolMapping cjWord
  simp only [bind, Except.bind]
  rw [bvSet_word 2 w 4 2 3 _ hw (by decide) (by decide) (by decide) (by norm_num; omega)]
  simp only
  rw [bvSet_word 2 _ 4 3 6 _ (writeBits_lt (stored_lt _ _) (by decide)) (by decide) (by decide) (by decide) (by norm_num; omega)]
  simp only
  rw [bvSet_word 2 _ 4 6 7 _ (writeBits_lt (stored_lt _ _) (by decide)) (by decide) (by decide) (by decide) (by norm_num; omega)]
  simp only
  rw [bvSet_word 2 _ 4 7 8 _ (writeBits_lt (stored_lt _ _) (by decide)) (by decide) (by decide) (by decide) (by norm_num; omega)]
  simp only
  rw [bvSet_word 2 _ 4 8 9 _ (writeBits_lt (stored_lt _ _) (by decide)) (by decide) (by decide) (by decide) (by norm_num; omega)]
  simp only
  rw [bvSet_word 2 _ 4 9 11 _ (writeBits_lt (stored_lt _ _) (by decide)) (by decide) (by decide) (by decide) (by norm_num; omega)]
  simp only
  rw [bvSet_word 2 _ 4 11 12 _ (writeBits_lt (stored_lt _ _) (by decide)) (by decide) (by decide) (by decide) (by norm_num; omega)]
  simp only
  rw [bvSet_word 2 _ 4 12 13 _ (writeBits_lt (stored_lt _ _) (by decide)) (by decide) (by decide) (by decide) (by norm_num; omega)]

macro "wb_same" : tactic => `(tactic| rw [bits_write_same (stored_lt _ _) (by decide)])
macro "wb_other" : tactic => `(tactic| rw [bits_write_other (stored_lt _ _) (by decide) (by decide)])

theorem cjWord_bits (w : Nat) (r : Int) :
    bits (cjWord w r) 12 1 = stored 1 (r / 1024 % 2) ∧ bits (cjWord w r) 11 1 = stored 1 (r / 8 % 2)
    ∧ bits (cjWord w r) 9 2 = stored 2 (r / 128 % 4) ∧ bits (cjWord w r) 8 1 = stored 1 (r / 512 % 2)
    ∧ bits (cjWord w r) 7 1 = stored 1 (r / 32 % 2) ∧ bits (cjWord w r) 6 1 = stored 1 (r / 64 % 2)
    ∧ bits (cjWord w r) 3 3 = stored 3 (r % 8) ∧ bits (cjWord w r) 2 1 = stored 1 (r / 16 % 2) := by
  unfold cjWord
  refine ⟨?_, ?_, ?_, ?_, ?_, ?_, ?_, ?_⟩
  · wb_same
  · wb_other; wb_same
  · wb_other; wb_other; wb_same
  · wb_other; wb_other; wb_other; wb_same
  · wb_other; wb_other; wb_other; wb_other; wb_same
  · wb_other; wb_other; wb_other; wb_other; wb_other; wb_same
  · wb_other; wb_other; wb_other; wb_other; wb_other; wb_other; wb_same
  · wb_other; wb_other; wb_other; wb_other; wb_other; wb_other; wb_other; wb_same

theorem rvcJOffset_cjWord (w : Nat) (r : Int) (h0 : 0 ≤ r) (h1 : r < 2048) :
    rvcJOffset (cjWord w r) = Spec.Bits.wrapS 12 (2 * r) := by
  obtain ⟨b12, b11, b9, b8, b7, b6, b3, b2⟩ := cjWord_bits w r
  unfold rvcJOffset
  rw [b12, b11, b9, b8, b7, b6, b3, b2]
  congr 1
  push_cast
  simp only [stored_cast]
  norm_num
  omega

theorem bcImm11_ok {S P : Int} {data out : List Nat} (hlen : data.length = 2) (hb : Bytes data)
    (h : Rvc.bcImm11 S data P = .ok out) :
    S % 2 = 0 ∧ P % 2 = 0 ∧ -(2 ^ 10) ≤ (S - P) / 2 ∧ (S - P) / 2 < 2 ^ 11
      ∧ out = toLE 2 (cjWord (fromLE data) ((S - P) / 2 % 2 ^ 11)) := by
  unfold Rvc.bcImm11 at h
  obtain ⟨_, a1, h⟩ := bind_ok h
  obtain ⟨_, a2, h⟩ := bind_ok h
  obtain ⟨r, a3, h⟩ := bind_ok h
  obtain ⟨w1, w2, w3⟩ := wrapNegative_ok a3
  subst w3
  rw [coolMapping_eq _ hlen hb] at h
  cases h
  exact ⟨even_of_beq (assert_ok a1), even_of_beq (assert_ok a2), by simpa using w1, w2, rfl⟩

theorem bcImm11_target {S P : Int} {data out : List Nat} (hlen : data.length = 2) (hb : Bytes data)
    (h : Rvc.bcImm11 S data P = .ok out) (hfit : Spec.Bits.fitsS 12 (S - P)) :
    P + rvcJOffset (wordLE out) = S := by
  obtain ⟨hS, hP, _, _, rfl⟩ := bcImm11_ok hlen hb h
  have hr0 : 0 ≤ (S - P) / 2 % 2 ^ 11 := Int.emod_nonneg _ (by norm_num)
  have hr1 : (S - P) / 2 % 2 ^ 11 < 2048 := by
    have := Int.emod_lt_of_pos ((S - P) / 2) (show (0 : Int) < 2 ^ 11 by norm_num)
    norm_num at this ⊢; exact this
  rw [wordLE_eq, fromLE_toLE _ _ (by unfold cjWord; exact writeBits_lt (stored_lt _ _) (by decide)),
    rvcJOffset_cjWord _ _ hr0 hr1]
  have := wrapS_double (n := 12) (by decide) (d := S - P) (by omega) hfit
  simp only [show 12 - 1 = 11 from rfl] at this
  rw [this]; omega

/-! ## rvc `bc_imm8` (C.BEQZ / C.BNEZ) -/

def cbWord (w : Nat) (r : Int) : Nat :=
  writeBits 16 (writeBits 16 (writeBits 16 (writeBits 16 (writeBits 16 w
    2 1 (stored 1 (r / 16 % 2))) 3 2 (stored 2 (r % 4))) 5 2 (stored 2 (r / 32 % 4))) 10 2 (stored 2 (r / 4 % 4)))
    12 1 (stored 1 (r / 128 % 2))

theorem cbWord_eq {data : List Nat} (r : Int) (hlen : data.length = 2) (hb : Bytes data) :
    (do let d ← bvSet data 4 2 3 (r / 16 % 2)
        let d ← bvSet d 4 3 5 (r % 4)
        let d ← bvSet d 4 5 7 (r / 32 % 4)
        let d ← bvSet d 4 10 12 (r / 4 % 4)
        bvSet d 4 12 13 (r / 128 % 2)) = .ok (toLE 2 (cbWord (fromLE data) r)) := by
  obtain ⟨hd, hw⟩ := data2 hlen hb
  generalize fromLE data = w at hd hw
  subst hd
  unfold cbWord
  simp only [bind, Except.bind]
  rw [bvSet_word 2 w 4 2 3 _ hw (by decide) (by decide) (by decide) (by norm_num; omega)]
  simp only
  rw [bvSet_word 2 _ 4 3 5 _ (writeBits_lt (stored_lt _ _) (by decide)) (by decide) (by decide) (by decide) (by norm_num; omega)]
  simp only
  rw [bvSet_word 2 _ 4 5 7 _ (writeBits_lt (stored_lt _ _) (by decide)) (by decide) (by decide) (by decide) (by norm_num; omega)]
  simp only
  rw [bvSet_word 2 _ 4 10 12 _ (writeBits_lt (stored_lt _ _) (by decide)) (by decide) (by decide) (by decide) (by norm_num; omega)]
  simp only
  rw [bvSet_word 2 _ 4 12 13 _ (writeBits_lt (stored_lt _ _) (by decide)) (by decide) (by decide) (by decide) (by norm_num; omega)]

theorem cbWord_bits (w : Nat) (r : Int) :
    bits (cbWord w r) 12 1 = stored 1 (r / 128 % 2) ∧ bits (cbWord w r) 10 2 = stored 2 (r / 4 % 4)
    ∧ bits (cbWord w r) 5 2 = stored 2 (r / 32 % 4) ∧ bits (cbWord w r) 3 2 = stored 2 (r % 4)
    ∧ bits (cbWord w r) 2 1 = stored 1 (r / 16 % 2) := by
  unfold cbWord
  refine ⟨?_, ?_, ?_, ?_, ?_⟩
  · wb_same
  · wb_other; wb_same
  · wb_other; wb_other; wb_same
  · wb_other; wb_other; wb_other; wb_same
  · wb_other; wb_other; wb_other; wb_other; wb_same

theorem rvcBOffset_cbWord (w : Nat) (r : Int) (h0 : 0 ≤ r) (h1 : r < 256) :
    rvcBOffset (cbWord w r) = Spec.Bits.wrapS 9 (2 * r) := by
  obtain ⟨b12, b10, b5, b3, b2⟩ := cbWord_bits w r
  unfold rvcBOffset
  rw [b12, b10, b5, b3, b2]
  congr 1
  push_cast
  simp only [stored_cast]
  norm_num
  omega

theorem bcImm8_ok {S P : Int} {data out : List Nat} (hlen : data.length = 2) (hb : Bytes data)
    (h : Rvc.bcImm8 S data P = .ok out) :
    S % 2 = 0 ∧ P % 2 = 0 ∧ -(2 ^ 7) ≤ (S - P) / 2 ∧ (S - P) / 2 < 2 ^ 8
      ∧ out = toLE 2 (cbWord (fromLE data) ((S - P) / 2 % 2 ^ 8)) := by
  unfold Rvc.bcImm8 at h
  obtain ⟨_, a1, h⟩ := bind_ok h
  obtain ⟨_, a2, h⟩ := bind_ok h
  obtain ⟨r, a3, h⟩ := bind_ok h
  obtain ⟨w1, w2, w3⟩ := wrapNegative_ok a3
  subst w3
  rw [cbWord_eq _ hlen hb] at h
  cases h
  exact ⟨even_of_beq (assert_ok a1), even_of_beq (assert_ok a2), by simpa using w1, w2, rfl⟩

theorem bcImm8_target {S P : Int} {data out : List Nat} (hlen : data.length = 2) (hb : Bytes data)
    (h : Rvc.bcImm8 S data P = .ok out) (hfit : Spec.Bits.fitsS 9 (S - P)) :
    P + rvcBOffset (wordLE out) = S := by
  obtain ⟨hS, hP, _, _, rfl⟩ := bcImm8_ok hlen hb h
  have hr0 : 0 ≤ (S - P) / 2 % 2 ^ 8 := Int.emod_nonneg _ (by norm_num)
  have hr1 : (S - P) / 2 % 2 ^ 8 < 256 := by
    have := Int.emod_lt_of_pos ((S - P) / 2) (show (0 : Int) < 2 ^ 8 by norm_num)
    norm_num at this ⊢; exact this
  rw [wordLE_eq, fromLE_toLE _ _ (by unfold cbWord; exact writeBits_lt (stored_lt _ _) (by decide)),
    rvcBOffset_cbWord _ _ hr0 hr1]
  have := wrapS_double (n := 9) (by decide) (d := S - P) (by omega) hfit
  simp only [show 9 - 1 = 8 from rfl] at this
  rw [this]; omega


/-! ## rvc linker relaxation: `can_shrink` / `do_shrink` of `cb_imm11`, `cbl_imm11` -/

/-- EXACT characterisation of the relaxation test: it says yes iff both addresses are even and the displacement
    fits the signed 12-bit range of `C.J`/`C.JAL` (and raises AssertionError on an odd address) -/
theorem canShrink_true_iff (S P : Int) :
    Rvc.canShrink S P = .ok true ↔ (S % 2 = 0 ∧ P % 2 = 0 ∧ Spec.Bits.fitsS 12 (S - P)) := by
  unfold Rvc.canShrink Rvc.isinsrange Spec.Bits.fitsS
  by_cases hS : S % 2 = 0
  · by_cases hP : P % 2 = 0
    · have a1 : Model.Reloc.assert (S % 2 == 0) = .ok () := by simp [Model.Reloc.assert, hS]
      have a2 : Model.Reloc.assert (P % 2 == 0) = .ok () := by simp [Model.Reloc.assert, hP]
      simp only [a1, a2, bind, Except.bind, pure, Except.pure, Except.ok.injEq, decide_eq_true_eq]
      norm_num
      omega
    · have a1 : Model.Reloc.assert (S % 2 == 0) = .ok () := by simp [Model.Reloc.assert, hS]
      have a2 : Model.Reloc.assert (P % 2 == 0) = .error .AssertionError := by simp [Model.Reloc.assert, hP]
      simp only [a1, a2, bind, Except.bind]
      constructor
      · intro h; cases h
      · intro h; exact absurd h.2.1 hP
  · have a1 : Model.Reloc.assert (S % 2 == 0) = .error .AssertionError := by simp [Model.Reloc.assert, hS]
    simp only [a1, bind, Except.bind]
    constructor
    · intro h; cases h
    · intro h; exact absurd h.1 hS

theorem bcImm11_accepts {S P : Int} {data : List Nat} (hlen : data.length = 2) (hb : Bytes data)
    (hS : S % 2 = 0) (hP : P % 2 = 0) (h1 : -(2 ^ 10) ≤ (S - P) / 2) (h2 : (S - P) / 2 < 2 ^ 11) :
    ∃ out, Rvc.bcImm11 S data P = .ok out := by
  unfold Rvc.bcImm11
  have a1 : Model.Reloc.assert (S % 2 == 0) = .ok () := by simp [Model.Reloc.assert, hS]
  have a2 : Model.Reloc.assert (P % 2 == 0) = .ok () := by simp [Model.Reloc.assert, hP]
  simp only [a1, a2, bind, Except.bind]
  rw [wrapNegative_of (by simpa using h1) h2]
  simp only
  exact ⟨_, coolMapping_eq _ hlen hb⟩

theorem doShrink_shape {opc : Nat} {S P : Int} {data d2 : List Nat} (hlen : data.length = 4) (hb : Bytes data)
    (hopc : opc < 8) (h : Rvc.doShrink opc S data P = .ok d2) : d2.length = 2 ∧ Bytes d2 := by
  unfold Rvc.doShrink at h
  obtain ⟨_, _, h⟩ := bind_ok h
  obtain ⟨_, _, h⟩ := bind_ok h
  obtain ⟨hd, hw⟩ := data4 hlen hb
  rw [hd, bvSet_word 4 _ 4 0 2 _ hw (by decide) (by decide) (by decide) (by norm_num)] at h
  simp only [bind, Except.bind] at h
  rw [bvSet_word 4 _ 4 13 16 _ (writeBits_lt (stored_lt _ _) (by decide)) (by decide) (by decide) (by decide)
    (by norm_num; omega)] at h
  simp only [pure, Except.pure, Except.ok.injEq] at h
  subst h
  refine ⟨by simp [length_toLE], fun x hx => ?_⟩
  exact bytes_toLE _ _ x (List.mem_of_mem_take hx)

/-- RELAXATION IS SAFE AS IT IS: whenever `can_shrink` says yes, the shrunk 16-bit jump relocated with `bc_imm11`
    at the same addresses is accepted and designates exactly `S` -/
theorem shrink_resolves {opc : Nat} {S P : Int} {data d2 : List Nat} (hlen : data.length = 4) (hb : Bytes data)
    (hopc : opc < 8) (hcan : Rvc.canShrink S P = .ok true) (hsh : Rvc.doShrink opc S data P = .ok d2) :
    ∃ out, Rvc.bcImm11 S d2 P = .ok out ∧ P + rvcJOffset (wordLE out) = S := by
  obtain ⟨hS, hP, hfit⟩ := (canShrink_true_iff S P).mp hcan
  obtain ⟨hl2, hb2⟩ := doShrink_shape hlen hb hopc hsh
  have hf := hfit
  unfold Spec.Bits.fitsS at hf
  norm_num at hf
  obtain ⟨out, hout⟩ := bcImm11_accepts hl2 hb2 hS hP (by norm_num; omega) (by norm_num; omega)
  exact ⟨out, hout, bcImm11_target hl2 hb2 hout hfit⟩

end Proofs.Reloc
