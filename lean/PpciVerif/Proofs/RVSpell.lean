import PpciVerif.Model.RVEnc
/-! C08 Thm B, printed text: for every class (two exceptions) and all valid operands, the tokens the
class prints are a spelling (canonical or ISA-manual pseudo-instruction) of its meaning. -/
set_option linter.unusedSimpArgs false
namespace Proofs.RVEnc
open Spec.RV32 Model.RVEnc

theorem spelled_all (c : Cls) (o : Ops) (h : valid c o) (h1 : c ≠ .CBnez) (h2 : c ≠ .Adrlrel) :
    (meaning c o).spelledBy (ptoks c o) := by
  cases c <;> first
    | contradiction
    | exact Or.inl rfl
    | (simp only [valid, reg, regP, simm, uimm, Nat.reduceSub, Nat.reducePow] at h
       simp [meaning, ptoks, Meaning.spelledBy, Instr.spelledBy, Instr.toks, Instr.aliases, CInstr.spelledBy,
         CInstr.toks, CInstr.aliases, AluOp.name, MulOp.name, ImmOp.name, ShiftOp.name, BrOp.name, LoadOp.name,
         StoreOp.name, CsrOp.name, CAluOp.name]
       try omega)

end Proofs.RVEnc
