import PpciVerif.Model.FrameAlloc
import PpciVerif.Spec.StackSlots
/-!
# Lemmas about `Model.FrameAlloc` (core Lean only)

One call (`alloc_top_ok`, `alloc_bottom_ok`), then histories by induction with the frame
generalised: in TOP mode every later slot lies strictly below every earlier one, in BOTTOM mode
strictly above, and all of them inside `[-stacksize, 0)` resp. `[0, stacksize)` of the final frame.
-/
namespace Proofs.FrameAlloc
open Model.FrameAlloc Spec.StackSlots

theorem fmod_pos (s a : Int) (ha : 0 < a) : Int.fmod s a = s % a :=
  Int.fmod_eq_emod_of_nonneg s (Int.le_of_lt ha)

/-- rounding `s` up to a multiple of `a` -/
theorem roundup_facts (s a : Int) (ha : 0 < a) :
    let m := s % a
    let s' := if m ≠ 0 then s - m + a else s
    a ∣ s' ∧ s ≤ s' ∧ s' < s + a := by
  intro m s'
  have h0 : 0 ≤ m := Int.emod_nonneg s (Int.ne_of_gt ha)
  have h1 : m < a := Int.emod_lt_of_pos s ha
  have hd : a ∣ s - m := Int.dvd_self_sub_emod
  by_cases hm : m = 0
  · have : s' = s := by simp [s', hm]
    rw [this]
    refine ⟨?_, Int.le_refl _, by omega⟩
    have : s - m = s := by omega
    rw [this] at hd; exact hd
  · have : s' = s - m + a := by simp [s', hm]
    rw [this]
    exact ⟨Int.dvd_add hd (Int.dvd_refl a), by omega, by omega⟩

/-- rounding up, as both branches do it -/
def roundUp (s a : Int) : Int := if s % a ≠ 0 then s - s % a + a else s

theorem roundUp_facts (s a : Int) (ha : 0 < a) : a ∣ roundUp s a ∧ s ≤ roundUp s a ∧ roundUp s a < s + a :=
  roundup_facts s a ha

theorem alloc_top_eq (f : Frame) (sz a : Int) (hm : f.mode = .top) (hsz : 0 < sz) (ha : 0 < a) :
    alloc f sz a = ({ f with alignment := max f.alignment a, stacksize := roundUp (f.stacksize + sz) a },
                    .ok { offset := -roundUp (f.stacksize + sz) a, size := sz }) := by
  have hsz0 : sz ≠ 0 := Int.ne_of_gt hsz
  have ha0 : a ≠ 0 := Int.ne_of_gt ha
  unfold alloc roundUp
  simp only [hsz0, ha0, hm, if_false, fmod_pos _ _ ha]

theorem alloc_bottom_eq (f : Frame) (sz a : Int) (hm : f.mode = .bottom) (hsz : 0 < sz) (ha : 0 < a) :
    alloc f sz a = ({ f with alignment := max f.alignment a, stacksize := roundUp f.stacksize a + sz },
                    .ok { offset := roundUp f.stacksize a, size := sz }) := by
  have hsz0 : sz ≠ 0 := Int.ne_of_gt hsz
  have ha0 : a ≠ 0 := Int.ne_of_gt ha
  have e : ∀ m : Int, f.stacksize + (a - m) = f.stacksize - m + a := by intro m; omega
  unfold alloc roundUp
  simp only [hsz0, ha0, hm, if_false, fmod_pos _ _ ha, e]

/-- one successful TOP call -/
theorem alloc_top_ok (f : Frame) (sz a : Int) (hm : f.mode = .top) (hsz : 0 < sz) (ha : 0 < a) :
    ∃ f' s, alloc f sz a = (f', .ok s) ∧ f'.mode = .top ∧ s.size = sz ∧ s.offset = -f'.stacksize ∧
      Aligned s.offset a ∧ f.stacksize + sz ≤ f'.stacksize ∧ f'.stacksize < f.stacksize + sz + a ∧
      f'.alignment = max f.alignment a := by
  obtain ⟨r1, r2, r3⟩ := roundUp_facts (f.stacksize + sz) a ha
  refine ⟨_, _, alloc_top_eq f sz a hm hsz ha, hm, rfl, rfl, ?_, r2, r3, rfl⟩
  unfold Aligned
  exact (Int.dvd_neg).mpr r1

/-- one successful BOTTOM call -/
theorem alloc_bottom_ok (f : Frame) (sz a : Int) (hm : f.mode = .bottom) (hsz : 0 < sz) (ha : 0 < a) :
    ∃ f' s, alloc f sz a = (f', .ok s) ∧ f'.mode = .bottom ∧ s.size = sz ∧ f'.stacksize = s.offset + sz ∧
      Aligned s.offset a ∧ f.stacksize ≤ s.offset ∧ s.offset < f.stacksize + a ∧
      f'.alignment = max f.alignment a := by
  obtain ⟨r1, r2, r3⟩ := roundUp_facts f.stacksize a ha
  exact ⟨_, _, alloc_bottom_eq f sz a hm hsz ha, hm, rfl, rfl, r1, r2, r3, rfl⟩

/-- all calls of a history have positive size and alignment -/
def Pos (h : List (Int × Int)) : Prop := ∀ p ∈ h, 0 < p.1 ∧ 0 < p.2

theorem Pos.tail {p : Int × Int} {h : List (Int × Int)} (hp : Pos (p :: h)) : Pos h :=
  fun q hq => hp q (List.mem_cons_of_mem _ hq)

/-- result of a whole history: every call succeeds -/
def AllOk : List (Except Err Slot) → List (Int × Int) → Prop
  | [], [] => True
  | r :: rs, p :: h => (∃ s, r = .ok s ∧ s.size = p.1 ∧ Aligned s.offset p.2) ∧ AllOk rs h
  | _, _ => False

theorem slots_length : ∀ (rs : List (Except Err Slot)) (h : List (Int × Int)), AllOk rs h →
    (slots rs).length = h.length
  | [], [], _ => rfl
  | r :: rs, p :: h, ok => by
    obtain ⟨⟨s, rfl, _⟩, ok'⟩ := ok
    simp [slots, slots_length rs h ok']
  | [], _ :: _, ok => by simp [AllOk] at ok
  | _ :: _, [], ok => by simp [AllOk] at ok

/-- TOP histories -/
theorem run_top (h : List (Int × Int)) : ∀ (f : Frame), f.mode = .top → Pos h →
    let r := run alloc f h
    r.1.mode = .top ∧ f.stacksize ≤ r.1.stacksize ∧ AllOk r.2 h ∧
    (∀ s ∈ slots r.2, -r.1.stacksize ≤ s.offset ∧ s.offset + s.size ≤ -f.stacksize ∧ 0 < s.size) ∧
    List.Pairwise (fun a b : Slot => b.offset + b.size ≤ a.offset) (slots r.2) := by
  induction h with
  | nil =>
    intro f hm _
    simp [run, slots, AllOk, hm]
  | cons p rest ih =>
    intro f hm hp
    obtain ⟨sz, a⟩ := p
    have hpos := hp (sz, a) (List.mem_cons_self)
    obtain ⟨f', s, he, hm', hs1, hs2, hs3, hs4, _, _⟩ := alloc_top_ok f sz a hm hpos.1 hpos.2
    have IH := ih f' hm' hp.tail
    simp only at IH
    obtain ⟨i1, i2, i3, i4, i5⟩ := IH
    simp only [run, he]
    refine ⟨i1, by omega, ?_, ?_, ?_⟩
    · exact ⟨⟨s, rfl, hs1, hs3⟩, i3⟩
    · intro t ht
      simp only [slots, List.mem_cons] at ht
      rcases ht with rfl | ht
      · refine ⟨by omega, by omega, by omega⟩
      · have := i4 t ht
        exact ⟨this.1, by omega, this.2.2⟩
    · simp only [slots]
      refine List.Pairwise.cons ?_ i5
      intro t ht
      have := i4 t ht
      omega

/-- BOTTOM histories -/
theorem run_bottom (h : List (Int × Int)) : ∀ (f : Frame), f.mode = .bottom → Pos h →
    let r := run alloc f h
    r.1.mode = .bottom ∧ f.stacksize ≤ r.1.stacksize ∧ AllOk r.2 h ∧
    (∀ s ∈ slots r.2, f.stacksize ≤ s.offset ∧ s.offset + s.size ≤ r.1.stacksize ∧ 0 < s.size) ∧
    List.Pairwise (fun a b : Slot => a.offset + a.size ≤ b.offset) (slots r.2) := by
  induction h with
  | nil =>
    intro f hm _
    simp [run, slots, AllOk, hm]
  | cons p rest ih =>
    intro f hm hp
    obtain ⟨sz, a⟩ := p
    have hpos := hp (sz, a) (List.mem_cons_self)
    obtain ⟨f', s, he, hm', hs1, hs2, hs3, hs4, _, _⟩ := alloc_bottom_ok f sz a hm hpos.1 hpos.2
    have IH := ih f' hm' hp.tail
    simp only at IH
    obtain ⟨i1, i2, i3, i4, i5⟩ := IH
    simp only [run, he]
    refine ⟨i1, by omega, ?_, ?_, ?_⟩
    · exact ⟨⟨s, rfl, hs1, hs3⟩, i3⟩
    · intro t ht
      simp only [slots, List.mem_cons] at ht
      rcases ht with rfl | ht
      · refine ⟨by omega, by omega, by omega⟩
      · have := i4 t ht
        exact ⟨by omega, this.2.1, this.2.2⟩
    · simp only [slots]
      refine List.Pairwise.cons ?_ i5
      intro t ht
      have := i4 t ht
      omega

theorem alloc_alignment (f : Frame) (sz a : Int) : (alloc f sz a).1.alignment = max f.alignment a := by
  unfold alloc
  by_cases h1 : sz = 0
  · simp [h1]
  · by_cases h2 : a = 0
    · cases f.mode <;> simp [h1, h2]
    · cases f.mode <;> simp [h1, h2]

/-- the frame alignment never decreases and dominates every requested alignment -/
theorem run_alignment_mono (h : List (Int × Int)) : ∀ (f : Frame), f.alignment ≤ (run alloc f h).1.alignment := by
  induction h with
  | nil => intro f; simp [run]
  | cons q rest ih =>
    intro f
    obtain ⟨sz, a⟩ := q
    simp only [run]
    have h1 : f.alignment ≤ (alloc f sz a).1.alignment := by rw [alloc_alignment]; omega
    exact Int.le_trans h1 (ih _)

theorem run_alignment (h : List (Int × Int)) : ∀ (f : Frame) (p : Int × Int), p ∈ h →
    p.2 ≤ (run alloc f h).1.alignment := by
  induction h with
  | nil => intro f p hp; cases hp
  | cons q rest ih =>
    intro f p hp
    obtain ⟨sz, a⟩ := q
    simp only [run]
    rcases List.mem_cons.mp hp with rfl | hp
    · have h1 : a ≤ (alloc f sz a).1.alignment := by rw [alloc_alignment]; omega
      exact Int.le_trans h1 (run_alignment_mono _ _)
    · exact ih _ p hp

end Proofs.FrameAlloc
