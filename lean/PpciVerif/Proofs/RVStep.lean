import PpciVerif.Model.RVAnnot
/-!
The register footprint of `Spec.RV32.step`, for ALL states and ALL instructions:
* `step_frame`: a register outside `Instr.writes i` keeps its value;
* `step_dep`: two states that agree on `pc`, memory, CSRs and on the registers in `Instr.reads i`
  step to states that agree on `pc`, memory, CSRs and on the registers in `Instr.writes i`
  (and either both trap into the environment or neither does).
Core Lean only.
-/
set_option linter.unusedSimpArgs false
namespace Proofs.RVStep
open Spec.RV32 Model.RVAnnot

theorem get_set (s : State) (rd v r : Nat) :
    (s.set rd v).get r = if r = rd ∧ r ≠ 0 then v % W else s.get r := by
  unfold State.set State.get
  by_cases hrd : rd = 0
  · subst hrd
    by_cases hr : r = 0 <;> simp [hr]
  · by_cases hr : r = 0
    · simp [hr]
    · by_cases he : r = rd <;> simp [hrd, hr, he]

@[simp] theorem set_pc (s : State) (rd v : Nat) : (s.set rd v).pc = s.pc := by
  unfold State.set; split <;> rfl
@[simp] theorem set_mem (s : State) (rd v : Nat) : (s.set rd v).mem = s.mem := by
  unfold State.set; split <;> rfl
@[simp] theorem set_csr (s : State) (rd v : Nat) : (s.set rd v).csr = s.csr := by
  unfold State.set; split <;> rfl

@[simp] theorem get_mk (t : State) (p : Nat) (m c : Nat → Nat) (r : Nat) :
    ({ regs := t.regs, pc := p, mem := m, csr := c } : State).get r = t.get r := rfl

@[simp] theorem get_with_pc (s : State) (p r : Nat) : ({ s with pc := p } : State).get r = s.get r := rfl
@[simp] theorem get_with_mem_pc (s : State) (m : Nat → Nat) (p r : Nat) :
    ({ s with mem := m, pc := p } : State).get r = s.get r := rfl
@[simp] theorem get_with_csr_pc (s : State) (c : Nat → Nat) (p r : Nat) :
    ({ s with csr := c, pc := p } : State).get r = s.get r := rfl

/-- FRAME: no register outside the footprint changes -/
theorem step_frame (s s' : State) (i : Instr) (len : Nat) (h : step s i len = some s')
    (r : Nat) (hr : r ∉ Instr.writes i) : s'.get r = s.get r := by
  cases i <;> simp only [step, Option.some.injEq, reduceCtorEq] at h <;> subst h <;>
    simp only [Instr.writes, List.mem_cons, List.not_mem_nil, or_false, List.mem_singleton] at hr <;>
    simp [get_set, hr]

theorem loadLE_congr (s₁ s₂ : State) (hm : s₁.mem = s₂.mem) (a n : Nat) : loadLE s₁ a n = loadLE s₂ a n := by
  induction n generalizing a with
  | zero => rfl
  | succ n ih => simp [loadLE, loadByte, hm, ih]

theorem loadOp_congr (op : LoadOp) (s₁ s₂ : State) (hm : s₁.mem = s₂.mem) (a : Nat) :
    loadOp op s₁ a = loadOp op s₂ a := by
  cases op <;> simp [loadOp, loadLE_congr s₁ s₂ hm]

/-- the agreement of two states after a step -/
def Agree (i : Instr) : Option State → Option State → Prop
  | some a, some b => a.pc = b.pc ∧ a.mem = b.mem ∧ a.csr = b.csr ∧ ∀ r ∈ Instr.writes i, a.get r = b.get r
  | none, none => True
  | _, _ => False

/-- DEPENDENCY: the effect depends on `pc`, memory, CSRs and the footprint registers only -/
theorem step_dep (s₁ s₂ : State) (i : Instr) (len : Nat) (hpc : s₁.pc = s₂.pc) (hm : s₁.mem = s₂.mem)
    (hc : s₁.csr = s₂.csr) (hreg : ∀ r ∈ Instr.reads i, s₁.get r = s₂.get r) :
    Agree i (step s₁ i len) (step s₂ i len) := by
  cases i <;> simp only [Instr.reads, List.mem_cons, List.not_mem_nil, or_false, List.mem_singleton, forall_eq_or_imp,
    forall_eq, false_implies, implies_true, and_true] at hreg <;>
    simp only [step, Agree, Instr.writes, List.mem_singleton, forall_eq, List.not_mem_nil, false_implies, implies_true,
      and_true, set_pc, set_mem, set_csr, get_mk, get_with_pc, get_with_mem_pc, get_with_csr_pc, get_set, hpc, hm, hc]
  all_goals (try trivial)
  all_goals (try simp only [loadOp_congr _ s₁ s₂ hm])
  all_goals (try (first | rw [hreg] | (obtain ⟨h1, h2⟩ := hreg; rw [h1, h2]) | skip))
  all_goals (try (split <;> simp_all [State.get]))
  all_goals (try exact ⟨trivial, rfl⟩)

theorem get_zero (s : State) : s.get 0 = 0 := rfl

end Proofs.RVStep
