import PpciVerif.Proofs.Reloc
/-! x86_64 relocations (`rel32`, `abs32`, `jmp8`, `abs64`), the generic data relocations
(`absaddr16/32/64`) and arm `imm24`: a plain `bit_range` field written through the default
`Relocation.apply`. -/
namespace Proofs.Reloc
open Model.Token Model.Reloc Proofs.Token Spec.RelocSem

/-- writing the whole word -/
theorem writeBits_full {size w x : Nat} (hx : x < 2 ^ size) : writeBits size w 0 size x = x := by
  have h1 := bits_write_same (size := size) (bv := w) (b := 0) (w := size) hx (by omega)
  have h2 := writeBits_lt (size := size) (bv := w) (b := 0) (w := size) hx (by omega)
  unfold bits at h1
  simp only [Nat.pow_zero, Nat.div_one] at h1
  rw [Nat.mod_eq_of_lt h2] at h1
  exact h1

/-- whole-token field `[0, 8n)`: outcome of the default apply -/
theorem applyToken_whole {n : Nat} {nm : String} {sg : Bool} {data : List Nat} {v : Int}
    (hlen : data.length = n) (hn : 0 < n) :
    applyToken (8 * n) false ⟨nm, false, [(0, 8 * n)], sg⟩ data v =
      if -(2 ^ (8 * n)) ≤ v ∧ v < 2 ^ (8 * n) then .ok (toLE n (stored (8 * n) v))
      else if 2 ^ (8 * n) ≤ v then .error .ValueError else .error .AssertionError := by
  have e : 8 * n / 8 = n := by omega
  rw [applyToken_range (by rw [hlen, e]) (by omega)]
  simp only [Nat.sub_zero, e]
  rw [writeBits_full (stored_lt _ _)]

theorem wordLE_toLE_stored (n : Nat) (v : Int) : (wordLE (toLE n (stored (8 * n) v)) : Int) = v % 2 ^ (8 * n) := by
  rw [wordLE_eq, fromLE_toLE _ _ (stored_lt _ _), stored_cast]

/-! ### x86_64 -/

/-- `rel32`: exact acceptance `[-2^32, 2^32)` (too wide: finding) and the stored word -/
theorem rel32_eq {A S P : Int} {data : List Nat} (hlen : data.length = 4) :
    X86.rel32 A S data P =
      if -(2 ^ 32) ≤ S - P + A ∧ S - P + A < 2 ^ 32 then .ok (toLE 4 (stored 32 (S - P + A)))
      else if 2 ^ 32 ≤ S - P + A then .error .ValueError else .error .AssertionError := by
  unfold X86.rel32 x86_disp32
  exact applyToken_whole (n := 4) hlen (by decide)

theorem rel32_target {A S P : Int} {data out : List Nat} (hlen : data.length = 4)
    (h : X86.rel32 A S data P = .ok out) (hfit : Spec.Bits.fitsS 32 (S + A - P)) :
    x86Rel32Target (wordLE out) P = S + A := by
  rw [rel32_eq hlen] at h
  split at h
  · cases h
    unfold x86Rel32Target
    rw [wordLE_toLE_stored 4]
    unfold Spec.Bits.fitsS at hfit
    unfold Spec.Bits.wrapS
    norm_num at hfit ⊢
    split <;> omega
  · split at h <;> cases h

theorem rel32_rejects {A S P : Int} {data : List Nat} (hlen : data.length = 4)
    (h : S - P + A < -(2 ^ 32) ∨ 2 ^ 32 ≤ S - P + A) : ∃ e, X86.rel32 A S data P = .error e := by
  rw [rel32_eq hlen, if_neg (by omega)]
  split <;> exact ⟨_, rfl⟩

theorem jmp8_eq {S P : Int} {data : List Nat} (hlen : data.length = 1) :
    X86.jmp8 S data P =
      if -(2 ^ 8) ≤ S - (P + 1) ∧ S - (P + 1) < 2 ^ 8 then .ok (toLE 1 (stored 8 (S - (P + 1))))
      else if 2 ^ 8 ≤ S - (P + 1) then .error .ValueError else .error .AssertionError := by
  unfold X86.jmp8 x86_disp8
  exact applyToken_whole (n := 1) hlen (by decide)

theorem jmp8_target {S P : Int} {data out : List Nat} (hlen : data.length = 1)
    (h : X86.jmp8 S data P = .ok out) (hfit : Spec.Bits.fitsS 8 (S - P - 1)) :
    x86Rel8Target (wordLE out) P = S := by
  rw [jmp8_eq hlen] at h
  split at h
  · cases h
    unfold x86Rel8Target
    rw [wordLE_toLE_stored 1]
    unfold Spec.Bits.fitsS at hfit
    unfold Spec.Bits.wrapS
    norm_num at hfit ⊢
    split <;> omega
  · split at h <;> cases h

theorem abs32_eq {S P : Int} {data : List Nat} (hlen : data.length = 4) :
    X86.abs32 S data P =
      if -(2 ^ 32) ≤ S ∧ S < 2 ^ 32 then .ok (toLE 4 (stored 32 S))
      else if 2 ^ 32 ≤ S then .error .ValueError else .error .AssertionError := by
  unfold X86.abs32 x86_disp32
  exact applyToken_whole (n := 4) hlen (by decide)

/-- absolute 32-bit: an address `0 ≤ S` either is stored exactly or the apply fails -/
theorem abs32_target {S P : Int} {data out : List Nat} (hlen : data.length = 4) (hS : 0 ≤ S)
    (h : X86.abs32 S data P = .ok out) : (wordLE out : Int) = S ∧ Spec.Bits.fitsU 32 S := by
  rw [abs32_eq hlen] at h
  split at h
  · rename_i hr
    cases h
    rw [wordLE_toLE_stored 4]
    norm_num at hr ⊢
    exact ⟨Int.emod_eq_of_lt hS hr.2, hS, by norm_num; exact hr.2⟩
  · split at h <;> cases h

theorem abs64_target {S P : Int} {data out : List Nat} (hlen : data.length = 8) (hS : 0 ≤ S)
    (h : X86.abs64 S data P = .ok out) : (wordLE out : Int) = S ∧ S < 2 ^ 64 := by
  unfold X86.abs64 at h
  obtain ⟨v, hv, h⟩ := bind_ok h
  obtain ⟨w1, w2, rfl⟩ := wrapNegative_ok hv
  unfold x86_disp64 at h
  rw [applyToken_whole (n := 8) hlen (by decide)] at h
  split at h
  · cases h
    rw [wordLE_toLE_stored 8]
    norm_num at w2 ⊢
    exact ⟨Int.emod_eq_of_lt hS w2, w2⟩
  · split at h <;> cases h

/-! ### data relocations -/

theorem absaddr16_target {S P : Int} {data out : List Nat} (hlen : data.length = 2) (hS : 0 ≤ S)
    (h : Data.absaddr16 S data P = .ok out) : (wordLE out : Int) = S ∧ S < 2 ^ 16 := by
  unfold Data.absaddr16 data_value at h
  obtain ⟨_, _, h⟩ := bind_ok h
  rw [applyToken_whole (n := 2) hlen (by decide)] at h
  split at h
  · rename_i hr
    cases h
    rw [wordLE_toLE_stored 2]
    norm_num at hr ⊢
    exact ⟨Int.emod_eq_of_lt hS hr.2, hr.2⟩
  · split at h <;> cases h

theorem absaddr32_target {S P : Int} {data out : List Nat} (hlen : data.length = 4) (hS : 0 ≤ S)
    (h : Data.absaddr32 S data P = .ok out) : (wordLE out : Int) = S ∧ S < 2 ^ 32 := by
  unfold Data.absaddr32 data_value at h
  obtain ⟨_, _, h⟩ := bind_ok h
  rw [applyToken_whole (n := 4) hlen (by decide)] at h
  split at h
  · rename_i hr
    cases h
    rw [wordLE_toLE_stored 4]
    norm_num at hr ⊢
    exact ⟨Int.emod_eq_of_lt hS hr.2, hr.2⟩
  · split at h <;> cases h

theorem absaddr64_target {S P : Int} {data out : List Nat} (hlen : data.length = 8) (hS : 0 ≤ S)
    (h : Data.absaddr64 S data P = .ok out) : (wordLE out : Int) = S ∧ S < 2 ^ 64 := by
  unfold Data.absaddr64 data_value at h
  obtain ⟨_, _, h⟩ := bind_ok h
  rw [applyToken_whole (n := 8) hlen (by decide)] at h
  split at h
  · rename_i hr
    cases h
    rw [wordLE_toLE_stored 8]
    norm_num at hr ⊢
    exact ⟨Int.emod_eq_of_lt hS hr.2, hr.2⟩
  · split at h <;> cases h

/-! ### arm `imm24` (B / BL) -/

theorem imm24_ok {S P : Int} {data out : List Nat} (hlen : data.length = 4)
    (h : Arm.imm24 S data P = .ok out) :
    S % 4 = 0 ∧ P % 4 = 0 ∧ -(2 ^ 23) ≤ (S - (P + 8)) / 4 ∧ (S - (P + 8)) / 4 < 2 ^ 24
      ∧ out = toLE 4 (writeBits 32 (fromLE data) 0 24 (stored 24 ((S - (P + 8)) / 4))) := by
  unfold Arm.imm24 Arm.imm24Calc at h
  obtain ⟨v, hv, h⟩ := bind_ok h
  obtain ⟨_, a1, hv⟩ := bind_ok hv
  obtain ⟨_, a2, hv⟩ := bind_ok hv
  obtain ⟨w1, w2, rfl⟩ := wrapNegative_ok hv
  unfold arm_imm24 at h
  rw [applyToken_range (by rw [hlen]) (by decide)] at h
  have hr := emod_range ((S - (P + 8)) / 4) 24
  rw [if_pos (by simpa using hr)] at h
  cases h
  refine ⟨mod4_of_beq (assert_ok a1), mod4_of_beq (assert_ok a2), by simpa using w1, w2, ?_⟩
  have := stored_emod 24 ((S - (P + 8)) / 4)
  simp only [Nat.sub_zero] at this ⊢
  rw [this]

theorem imm24_target {S P : Int} {data out : List Nat} (hlen : data.length = 4)
    (h : Arm.imm24 S data P = .ok out) (hfit : Spec.Bits.fitsS 26 (S - P - 8)) :
    armBTarget (wordLE out) P = S := by
  obtain ⟨hS, hP, _, _, rfl⟩ := imm24_ok hlen h
  unfold armBTarget
  rw [wordLE_eq, fromLE_toLE _ _ (writeBits_lt (stored_lt _ _) (by decide)),
    bits_write_same (stored_lt _ _) (by decide)]
  push_cast
  rw [stored_cast]
  unfold Spec.Bits.fitsS at hfit
  unfold Spec.Bits.wrapS
  norm_num at hfit ⊢
  split <;> omega

end Proofs.Reloc
