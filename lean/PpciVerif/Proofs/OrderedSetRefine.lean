import PpciVerif.Model.OrderedSet
import PpciVerif.Spec.OrderedSet
import PpciVerif.Proofs.OrderedSet
import PpciVerif.Proofs.OrderedSetSpec
/-!
C30, OrderedSet: the linked structure refines the duplicate-free list of
`Spec.OrderedSet`, operation by operation and for whole histories.
-/
namespace Proofs.OrderedSet
open Model.OrderedSet

/-- `s` represents the abstract list `l` -/
def Rep (s : OSet) (l : List Int) : Prop := ∃ cells, Inv s cells ∧ cells.map s.key = l

theorem rep_empty : Rep empty [] := ⟨[], inv_empty, rfl⟩

theorem rep_toList {s : OSet} {l : List Int} (h : Rep s l) : toList s = l := by
  obtain ⟨cells, hi, rfl⟩ := h; exact toList_eq s cells hi

theorem rep_iter {s : OSet} {l : List Int} (h : Rep s l) : iter s = .ok l := by
  obtain ⟨cells, hi, rfl⟩ := h; exact iter_eq s cells hi

theorem rep_contains {s : OSet} {l : List Int} (h : Rep s l) (v : Int) : contains s v = true ↔ v ∈ l := by
  obtain ⟨cells, hi, rfl⟩ := h; exact contains_iff s cells hi v

theorem rep_nodup {s : OSet} {l : List Int} (h : Rep s l) : l.Nodup := by
  obtain ⟨cells, hi, rfl⟩ := h; exact keys_nodup s cells hi

theorem rep_len {s : OSet} {l : List Int} (h : Rep s l) : len s = l.length := by
  obtain ⟨cells, hi, rfl⟩ := h; simp [len, hi.count]

theorem rep_add {s : OSet} {l : List Int} (h : Rep s l) (v : Int) : Rep (add s v) (Spec.OrderedSet.add l v) := by
  have hc := rep_contains h v
  obtain ⟨cells, hi, rfl⟩ := h
  unfold Spec.OrderedSet.add
  cases hv : s.map v with
  | some c =>
    have : v ∈ cells.map s.key := hc.mp (by simp [contains, hv])
    rw [add_present s v c hv, if_pos this]
    exact ⟨cells, hi, rfl⟩
  | none =>
    have : v ∉ cells.map s.key := fun hm => by
      have := hc.mpr hm; simp [contains, hv] at this
    rw [if_neg this]
    obtain ⟨h1, h2⟩ := add_absent s cells hi v hv
    exact ⟨_, h1, h2⟩

theorem rep_discard {s : OSet} {l : List Int} (h : Rep s l) (v : Int) :
    Rep (Model.OrderedSet.discard s v) (Spec.OrderedSet.discard l v) := by
  have hc := rep_contains h v
  obtain ⟨cells, hi, rfl⟩ := h
  unfold Spec.OrderedSet.discard
  cases hv : s.map v with
  | some c =>
    obtain ⟨pre, post, -, h1, h2⟩ := discard_present s cells hi v c hv
    exact ⟨_, h1, h2⟩
  | none =>
    have hn : v ∉ cells.map s.key := fun hm => by
      have := hc.mpr hm; simp [contains, hv] at this
    rw [discard_absent s v hv]
    refine ⟨cells, hi, ?_⟩
    rw [List.filter_eq_self.mpr]
    intro x hx; simp; intro e; exact hn (e ▸ hx)

/-! ### folds -/

theorem rep_foldl_add {s : OSet} {l : List Int} (h : Rep s l) (it : List Int) :
    Rep (it.foldl add s) (it.foldl Spec.OrderedSet.add l) := by
  induction it generalizing s l with
  | nil => exact h
  | cons a as ih => exact ih (rep_add h a)

theorem rep_foldl_discard {s : OSet} {l : List Int} (h : Rep s l) (it : List Int) :
    Rep (it.foldl Model.OrderedSet.discard s) (it.foldl Spec.OrderedSet.discard l) := by
  induction it generalizing s l with
  | nil => exact h
  | cons a as ih => exact ih (rep_discard h a)

theorem rep_ofList (it : List Int) : Rep (ofList it) (Spec.OrderedSet.ofList it) :=
  rep_foldl_add rep_empty it

theorem rep_clear {s : OSet} {l : List Int} (h : Rep s l) : Rep (clear s) [] := by
  have := rep_foldl_discard h l
  rw [SpecL.foldl_discard] at this
  have he : l.filter (· ∉ l) = [] := by
    rw [List.filter_eq_nil_iff]; intro x hx; simp [hx]
  rw [he] at this
  unfold clear; rw [rep_toList h]; exact this

theorem rep_toggle {s : OSet} {l : List Int} (h : Rep s l) (xs : List Int) :
    Rep (xs.foldl (fun s v => if contains s v then Model.OrderedSet.discard s v else add s v) s)
        (xs.foldl (fun l v => if v ∈ l then Spec.OrderedSet.discard l v else Spec.OrderedSet.add l v) l) := by
  induction xs generalizing s l with
  | nil => exact h
  | cons a as ih =>
    simp only [List.foldl_cons]
    by_cases ha : a ∈ l
    · have hc : contains s a = true := (rep_contains h a).mpr ha
      simp only [hc, if_true, ha]
      exact ih (rep_discard h a)
    · have hc : contains s a = false := by
        cases hcc : contains s a with
        | false => rfl
        | true => exact absurd ((rep_contains h a).mp hcc) ha
      simp only [hc, ha, if_false]
      exact ih (rep_add h a)

/-! ### one operation, whole histories -/

def toSpec : Op → Spec.OrderedSet.Op
  | .add v => .add v | .discard v => .discard v | .remove v => .remove v | .pop => .pop | .clear => .clear
  | .ior l => .ior l | .iand l => .iand l | .isub l => .isub l | .ixor l => .ixor l
  | .iorSelf => .iorSelf | .iandSelf => .iandSelf | .isubSelf => .isubSelf | .ixorSelf => .ixorSelf
  | .init l => .init l

theorem subList_eq {s : OSet} {l : List Int} (h : Rep s l) (it : List Int) :
    subList s it = l.filter (· ∉ it) := by
  unfold subList
  rw [rep_toList h]
  apply List.filter_congr
  intro x _
  have := rep_contains (rep_ofList it) x
  rw [SpecL.mem_ofList] at this
  by_cases hx : x ∈ it
  · simp [hx, this.mpr hx]
  · have : contains (ofList it) x = false := by
      cases hc : contains (ofList it) x with
      | false => rfl
      | true => exact absurd (this.mp hc) hx
    simp [hx, this]

theorem rep_apply {s : OSet} {l : List Int} (h : Rep s l) (op : Op) :
    Rep (apply s op).1 (Spec.OrderedSet.apply l (toSpec op)).1 ∧
    ((apply s op).2 = some .KeyError ↔ (Spec.OrderedSet.apply l (toSpec op)).2 = true) ∧
    ((apply s op).2 = none ↔ (Spec.OrderedSet.apply l (toSpec op)).2 = false) := by
  cases op with
  | add v => exact ⟨rep_add h v, by simp [apply, Spec.OrderedSet.apply, toSpec], by simp [apply, Spec.OrderedSet.apply, toSpec]⟩
  | discard v => exact ⟨rep_discard h v, by simp [apply, Spec.OrderedSet.apply, toSpec], by simp [apply, Spec.OrderedSet.apply, toSpec]⟩
  | remove v =>
    by_cases hv : v ∈ l
    · have hc := (rep_contains h v).mpr hv
      simp only [apply, remove, hc, if_true, Spec.OrderedSet.apply, toSpec, hv]
      exact ⟨rep_discard h v, by simp, by simp⟩
    · have hc : contains s v = false := by
        cases hcc : contains s v with
        | false => rfl
        | true => exact absurd ((rep_contains h v).mp hcc) hv
      simp only [apply, remove, hc, Spec.OrderedSet.apply, toSpec, hv, if_false]
      exact ⟨h, by simp, by simp⟩
  | pop =>
    have ht := rep_toList h
    cases l with
    | nil =>
      simp only [apply, pop, ht, Spec.OrderedSet.apply, toSpec]
      exact ⟨h, by simp, by simp⟩
    | cons v rest =>
      simp only [apply, pop, ht, Spec.OrderedSet.apply, toSpec]
      refine ⟨?_, by simp, by simp⟩
      have := rep_discard h v
      rwa [SpecL.discard_head v rest (rep_nodup h)] at this
  | clear => exact ⟨rep_clear h, by simp [apply, Spec.OrderedSet.apply, toSpec], by simp [apply, Spec.OrderedSet.apply, toSpec]⟩
  | ior it => exact ⟨rep_foldl_add h it, by simp [apply, Spec.OrderedSet.apply, toSpec], by simp [apply, Spec.OrderedSet.apply, toSpec]⟩
  | isub it =>
    refine ⟨?_, by simp [apply, Spec.OrderedSet.apply, toSpec], by simp [apply, Spec.OrderedSet.apply, toSpec]⟩
    have := rep_foldl_discard h it
    rw [SpecL.foldl_discard] at this
    simpa [apply, isub, Spec.OrderedSet.apply, toSpec] using this
  | iand it =>
    refine ⟨?_, by simp [apply, Spec.OrderedSet.apply, toSpec], by simp [apply, Spec.OrderedSet.apply, toSpec]⟩
    have := rep_foldl_discard h (subList s it)
    rw [SpecL.foldl_discard, subList_eq h it] at this
    have he : l.filter (· ∉ l.filter (· ∉ it)) = l.filter (· ∈ it) := by
      apply List.filter_congr
      intro x hx
      simp [hx]
    rw [he] at this
    simpa [apply, iand, subList_eq h it, Spec.OrderedSet.apply, toSpec] using this
  | ixor it =>
    refine ⟨?_, by simp [apply, Spec.OrderedSet.apply, toSpec], by simp [apply, Spec.OrderedSet.apply, toSpec]⟩
    have := rep_toggle h (Spec.OrderedSet.ofList it)
    simpa [apply, ixor, rep_toList (rep_ofList it), Spec.OrderedSet.apply, toSpec] using this
  | iorSelf =>
    refine ⟨?_, by simp [apply, Spec.OrderedSet.apply, toSpec], by simp [apply, Spec.OrderedSet.apply, toSpec]⟩
    have := rep_foldl_add h l
    rw [SpecL.foldl_add_of_subset l l (fun x hx => hx)] at this
    simpa [apply, ior, rep_toList h, Spec.OrderedSet.apply, toSpec] using this
  | iandSelf =>
    refine ⟨?_, by simp [apply, Spec.OrderedSet.apply, toSpec], by simp [apply, Spec.OrderedSet.apply, toSpec]⟩
    have := rep_foldl_discard h (subList s l)
    rw [SpecL.foldl_discard, subList_eq h l] at this
    have he : l.filter (· ∉ l.filter (· ∉ l)) = l := by
      rw [List.filter_eq_self]; intro x hx; simp [hx]
    rw [he] at this
    simpa [apply, iand, rep_toList h, subList_eq h l, Spec.OrderedSet.apply, toSpec] using this
  | isubSelf => exact ⟨rep_clear h, by simp [apply, Spec.OrderedSet.apply, toSpec], by simp [apply, Spec.OrderedSet.apply, toSpec]⟩
  | ixorSelf => exact ⟨rep_clear h, by simp [apply, Spec.OrderedSet.apply, toSpec], by simp [apply, Spec.OrderedSet.apply, toSpec]⟩
  | init it => exact ⟨rep_ofList it, by simp [apply, Spec.OrderedSet.apply, toSpec], by simp [apply, Spec.OrderedSet.apply, toSpec]⟩

theorem rep_foldl_apply {s : OSet} {l : List Int} (h : Rep s l) (ops : List Op) :
    Rep (ops.foldl (fun s op => (apply s op).1) s)
        ((ops.map toSpec).foldl (fun l op => (Spec.OrderedSet.apply l op).1) l) := by
  induction ops generalizing s l with
  | nil => exact h
  | cons op ops ih => exact ih (rep_apply h op).1

theorem rep_run (ops : List Op) : Rep (run ops) (Spec.OrderedSet.run (ops.map toSpec)) :=
  rep_foldl_apply rep_empty ops

end Proofs.OrderedSet
