import PpciVerif.Gen.Py_riscv_relocations
import PpciVerif.Proofs.T1_reloc
/-!
T1 translation tie for `ppci/arch/riscv/relocations.py`: the `calc` / `apply` bodies REGENERATED from the
source (`Gen.Py_riscv_relocations`) equal the hand models `Model.Reloc.Riscv.*` for every symbol value,
every site address and every buffer (a list of naturals).
-/
set_option linter.unusedSimpArgs false
set_option linter.unusedTactic false
namespace Proofs.T1.RiscvReloc
open Model Model.PyRt Model.Reloc Model.Reloc.Riscv Gen.Py_riscv_relocations Proofs.T1 Proofs.T1.Reloc

theorem gen_bImm12_calc (fuel : Nat) (S P : Int) :
    BImm12Relocation_calc fuel S P = liftI (bImm12Calc S P) := by
  unfold BImm12Relocation_calc bImm12Calc
  py_norm
  simp only [assert_bind, beq_iff_eq]
  by_cases hS : S % 2 = 0
  · by_cases hP : P % 2 = 0
    · simp only [hS, hP, if_true]
      rw [show (12 : Int) = ((12 : Nat) : Int) from rfl, gen_wrap_negative fuel _ 12 (by decide)]
      cases Model.Reloc.wrapNegative ((S - P) / 2) 12 <;> rfl
    · simp [hS, hP, liftI, errOf]
  · simp [hS, liftI, errOf]

theorem gen_jscatter (d : List Nat) (rel20 : Int) :
    (PyRt.bind (PyRt.bvSet (ints d) 4 21 31 (rel20 % 1024)) fun t2 =>
     PyRt.bind (PyRt.bvSet t2 4 20 21 (rel20 / 1024 % 2)) fun t3 =>
     PyRt.bind (PyRt.bvSet t3 4 12 20 (rel20 / 2048 % 256)) fun t4 =>
     PyRt.bind (PyRt.bvSet t4 4 31 32 (rel20 / 524288 % 2)) fun t5 => .ok t5) = liftL (jScatter d rel20) := by
  unfold jScatter
  rw [bvSet_ints]
  refine liftL_bind _ _ _ (fun d1 => ?_)
  rw [bvSet_ints]
  refine liftL_bind _ _ _ (fun d2 => ?_)
  rw [bvSet_ints]
  refine liftL_bind _ _ _ (fun d3 => ?_)
  rw [bvSet_ints]
  cases Model.Reloc.bvSet d3 4 31 32 (rel20 / 524288 % 2) <;> rfl

theorem gen_bImm20_apply (fuel : Nat) (S : Int) (d : List Nat) (P : Int) :
    BImm20Relocation_apply fuel S (ints d) P = liftL (bImm20 S d P) := by
  unfold BImm20Relocation_apply bImm20
  py_norm
  simp only [assert_bind, beq_iff_eq]
  by_cases hS : S % 2 = 0
  · by_cases hP : P % 2 = 0
    · simp only [hS, hP, if_true]
      rw [show (20 : Int) = ((20 : Nat) : Int) from rfl, gen_wrap_negative fuel _ 20 (by decide)]
      refine liftI_bind _ _ _ (fun rel20 => ?_)
      exact gen_jscatter d rel20
    · simp [hS, hP, liftL, errOf]
  · simp [hS, liftL, errOf]

theorem gen_hi20 (d : List Nat) (v : Int) :
    (if v / 2048 % 2 * 2048 = 0 then
       PyRt.bind (PyRt.bvSet (ints d) 4 12 32 (v / 4096 % 1048576)) fun t => .ok t
     else
       PyRt.bind (PyRt.bvSet (ints d) 4 12 32 ((v - 4294963200) / 4096 % 1048576)) fun t => .ok t) = liftL (hi20 d v) := by
  unfold hi20
  by_cases h : v / 2048 % 2 = 0
  · rw [if_pos (by omega), if_pos h, bvSet_ints]
    cases Model.Reloc.bvSet d 4 12 32 (v / 4096 % 1048576) <;> rfl
  · rw [if_neg (by omega), if_neg h, bvSet_ints]
    cases Model.Reloc.bvSet d 4 12 32 ((v - 4294963200) / 4096 % 1048576) <;> rfl

theorem gen_abs32Imm20_apply (fuel : Nat) (S : Int) (d : List Nat) (P : Int) :
    Abs32Imm20Relocation_apply fuel S (ints d) P = liftL (abs32Imm20 S d P) := by
  unfold Abs32Imm20Relocation_apply abs32Imm20
  py_norm
  simp only [assert_bind, beq_iff_eq]
  by_cases hS : S % 2 = 0
  · simp only [hS, if_true]
    exact gen_hi20 d S
  · simp [hS, liftL, errOf]

theorem gen_relImm20_apply (fuel : Nat) (S : Int) (d : List Nat) (P : Int) :
    RelImm20Relocation_apply fuel S (ints d) P = liftL (relImm20 S d P) := by
  unfold RelImm20Relocation_apply relImm20
  py_norm
  simp only [assert_bind, beq_iff_eq]
  by_cases hS : S % 2 = 0
  · by_cases hP : P % 2 = 0
    · simp only [hS, hP, if_true]
      exact gen_hi20 d (S - P)
    · simp [hS, hP, liftL, errOf]
  · simp [hS, liftL, errOf]

/-- `Abs32Imm12Relocation.calc`: the value the default `apply` stores into `RiscvIToken.imm`
    (the hand model `abs32Imm12` inlines it: `applyToken … (S % 4096)` after the assert) -/
theorem gen_abs32Imm12_calc (fuel : Nat) (S P : Int) :
    Abs32Imm12Relocation_calc fuel S P = if S % 2 = 0 then .ok (S % 4096) else .error .AssertionError := by
  unfold Abs32Imm12Relocation_calc
  py_norm

theorem gen_relImm12_calc (fuel : Nat) (S P : Int) :
    RelImm12Relocation_calc fuel S P =
      if S % 2 = 0 then (if P % 2 = 0 then .ok ((S - P + 4) % 4096) else .error .AssertionError)
      else .error .AssertionError := by
  unfold RelImm12Relocation_calc
  py_norm

theorem gen_absAddr32_apply (fuel : Nat) (S : Int) (d : List Nat) (P : Int) :
    AbsAddr32Relocation_apply fuel S (ints d) P = liftL (absAddr32 S d P) := by
  unfold AbsAddr32Relocation_apply absAddr32
  dsimp only
  rw [bvSet_ints]
  cases Model.Reloc.bvSet d 4 0 32 S <;> rfl

end Proofs.T1.RiscvReloc
