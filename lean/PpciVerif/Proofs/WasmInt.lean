import PpciVerif.Model.WasmRt
import PpciVerif.Spec.WasmInt
import PpciVerif.Proofs.Bitfun
/-!
Bridge between Lean core's `BitVec` operators (the reference of `Spec.WasmInt`)
and the bit-index definitions of `Spec.Bits`, and from there to the model of
ppci's wasm runtime helpers.
-/
namespace Proofs.WasmInt
open Spec.Bits Proofs.Bits Proofs.Bitfun Model.Bitfun

/-! ### host integers ↔ bit vectors -/

theorem toNat_ofInt (n : Nat) (v : Int) : ((BitVec.ofInt n v).toNat : Int) = wrapU n v := by
  rw [BitVec.toNat_ofInt, natCast_pow]
  exact Int.toNat_of_nonneg (wrapU_nonneg n v)

theorem getLsbD_eq (n : Nat) (x : BitVec n) (i : Nat) : x.getLsbD i = testBit (x.toNat : Int) i := by
  rw [testBit_natCast, BitVec.testBit_toNat]

theorem getLsbD_ofInt (n : Nat) (v : Int) (i : Nat) :
    (BitVec.ofInt n v).getLsbD i = (decide (i < n) && testBit v i) := by
  rw [getLsbD_eq, toNat_ofInt, testBit_wrapU]

theorem fitsU_toNat {n : Nat} (x : BitVec n) : fitsU n (x.toNat : Int) := by
  refine ⟨Int.natCast_nonneg _, ?_⟩
  rw [← natCast_pow]; exact Int.ofNat_lt.2 x.isLt

/-- the signed reading of a bit vector is `wrapS` of its unsigned reading -/
theorem toInt_eq_wrapS {n : Nat} (hn : 1 ≤ n) (x : BitVec n) : x.toInt = wrapS n (x.toNat : Int) := by
  have hf := fitsU_toNat x
  rw [BitVec.toInt_eq_toNat_cond]
  unfold wrapS
  rw [Int.emod_eq_of_lt hf.1 hf.2]
  have h2 := pow_pred n hn
  have hlt : x.toNat < 2 ^ n := x.isLt
  have hc : (2 * x.toNat < 2 ^ n) ↔ ((x.toNat : Int) < 2 ^ (n - 1)) := by
    have e : ((2 ^ n : Nat) : Int) = 2 ^ n := natCast_pow n
    constructor
    · intro h; have := Int.ofNat_lt.2 h; push_cast at this; omega
    · intro h; apply Int.ofNat_lt.1; push_cast; omega
  by_cases h : 2 * x.toNat < 2 ^ n
  · rw [if_pos h, if_pos (hc.1 h)]
  · rw [if_neg h, if_neg (fun hh => h (hc.2 hh)), natCast_pow]

/-- a natural number equals `ofBits` of its bits when it fits -/
theorem toNat_eq_of_bits {n : Nat} (x : BitVec n) (m : Nat) (hm : m < 2 ^ n)
    (h : ∀ i, i < n → x.getLsbD i = m.testBit i) : x.toNat = m := by
  apply Nat.eq_of_testBit_eq
  intro i
  rw [BitVec.testBit_toNat]
  by_cases hi : i < n
  · exact h i hi
  · rw [BitVec.getLsbD_of_ge _ _ (by omega)]
    symm
    exact Nat.testBit_lt_two_pow (Nat.lt_of_lt_of_le hm (Nat.pow_le_pow_right (by decide) (by omega)))

/-! ### clz / ctz / popcnt -/

theorem toNat_ofNat_le {w k : Nat} (h : k ≤ w) : (BitVec.ofNat w k).toNat = k := by
  rw [BitVec.toNat_ofNat]
  exact Nat.mod_eq_of_lt (Nat.lt_of_le_of_lt h Nat.lt_two_pow_self)

theorem toNat_clzAuxRec {w : Nat} (x : BitVec w) : ∀ n, n < w →
    (x.clzAuxRec n).toNat = w - 1 - n + Spec.Bits.clz (n + 1) (x.toNat : Int) := by
  intro n
  induction n with
  | zero =>
    intro hw
    rw [BitVec.clzAuxRec_zero]
    simp only [Spec.Bits.clz, ← getLsbD_eq]
    by_cases hb : x.getLsbD 0
    · rw [if_pos hb, if_pos hb, toNat_ofNat_le (by omega)]; omega
    · rw [if_neg hb, if_neg hb, toNat_ofNat_le (by omega)]; omega
  | succ n ih =>
    intro hw
    rw [BitVec.clzAuxRec_succ]
    rw [show Spec.Bits.clz (n + 1 + 1) (x.toNat : Int) =
      if testBit (x.toNat : Int) (n + 1) then 0 else Spec.Bits.clz (n + 1) (x.toNat : Int) + 1 from rfl]
    rw [← getLsbD_eq]
    by_cases hb : x.getLsbD (n + 1)
    · rw [if_pos hb, if_pos hb, toNat_ofNat_le (by omega)]; omega
    · rw [if_neg hb, if_neg hb, ih (by omega)]; omega

theorem toNat_clz {w : Nat} (hw : 1 ≤ w) (x : BitVec w) : x.clz.toNat = Spec.Bits.clz w (x.toNat : Int) := by
  unfold BitVec.clz
  rw [toNat_clzAuxRec x (w - 1) (by omega)]
  have : w - 1 + 1 = w := by omega
  rw [this]; omega

theorem toNat_reverse {w : Nat} (x : BitVec w) : x.reverse.toNat = Spec.Bits.reverse w (x.toNat : Int) := by
  apply toNat_eq_of_bits _ _ (ofBits_lt _ _)
  intro i hi
  rw [testBit_ofBits_nat, BitVec.getLsbD_reverse, BitVec.getMsbD_eq_getLsbD, getLsbD_eq]

/-- leading zeros of the reversed field = trailing zeros of the field -/
theorem clz_reverse (n : Nat) (x : Int) : Spec.Bits.clz n (Spec.Bits.reverse n x : Int) = Spec.Bits.ctz n x := by
  apply isCtz_unique _ (ctz_isCtz n x)
  obtain ⟨h1, h2, h3⟩ := clz_isClz n (Spec.Bits.reverse n x : Int)
  refine ⟨h1, fun i hi => ?_, fun hk => ?_⟩
  · have := h2 (n - 1 - i) (by omega) (by omega)
    rw [testBit_reverse] at this
    have e : n - 1 - (n - 1 - i) = i := by omega
    rw [e] at this
    simpa [show n - 1 - i < n by omega] using this
  · have := h3 hk
    rw [testBit_reverse] at this
    have e : n - 1 - (n - 1 - Spec.Bits.clz n (Spec.Bits.reverse n x : Int)) = Spec.Bits.clz n (Spec.Bits.reverse n x : Int) := by omega
    rw [e] at this
    simpa [show n - 1 - Spec.Bits.clz n (Spec.Bits.reverse n x : Int) < n by omega] using this

theorem toNat_ctz {w : Nat} (hw : 1 ≤ w) (x : BitVec w) : x.ctz.toNat = Spec.Bits.ctz w (x.toNat : Int) := by
  rw [BitVec.ctz_eq_reverse_clz, toNat_clz hw, toNat_reverse, clz_reverse]

theorem popcount_succ (n : Nat) (x : Int) :
    popcount (n + 1) x = popcount n x + (testBit x n).toNat := by
  unfold popcount
  rw [List.range_succ, List.filter_append, List.length_append]
  by_cases h : testBit x n <;> simp [h]

theorem cpopNatRec_eq {w : Nat} (x : BitVec w) : ∀ n acc,
    x.cpopNatRec n acc = acc + popcount n (x.toNat : Int) := by
  intro n
  induction n with
  | zero => intro acc; simp [popcount]
  | succ n ih =>
    intro acc
    rw [BitVec.cpopNatRec_succ, ih, popcount_succ, getLsbD_eq]; omega

theorem toNat_cpop {w : Nat} (x : BitVec w) : x.cpop.toNat = popcount w (x.toNat : Int) := by
  rw [BitVec.toNat_cpop, cpopNatRec_eq]; omega

/-- the count helpers only look at the low `n` bits -/
theorem clz_wrapU (n : Nat) (x : Int) : Spec.Bits.clz n (wrapU n x) = Spec.Bits.clz n x := by
  apply isClz_unique _ (clz_isClz n x)
  obtain ⟨h1, h2, h3⟩ := clz_isClz n (wrapU n x)
  refine ⟨h1, fun i a b => ?_, fun hk => ?_⟩
  · have := h2 i a b; rw [testBit_wrapU] at this; simpa [b] using this
  · have := h3 hk; rw [testBit_wrapU] at this
    simpa [show n - 1 - Spec.Bits.clz n (wrapU n x) < n by omega] using this

theorem ctz_wrapU (n : Nat) (x : Int) : Spec.Bits.ctz n (wrapU n x) = Spec.Bits.ctz n x := by
  apply isCtz_unique _ (ctz_isCtz n x)
  obtain ⟨h1, h2, h3⟩ := ctz_isCtz n (wrapU n x)
  refine ⟨h1, fun i a => ?_, fun hk => ?_⟩
  · have := h2 i a; rw [testBit_wrapU] at this; simpa [show i < n by omega] using this
  · have := h3 hk; rw [testBit_wrapU] at this; simpa [hk] using this

/-! ### rotations (the count is an `iN` value: only `cnt mod N` matters because `N ∣ 2^N`) -/

theorem toNat_irotl32 (v cnt : Int) :
    (Spec.WasmInt.irotl (BitVec.ofInt 32 v) (BitVec.ofInt 32 cnt)).toNat = Spec.Bits.rotl 32 v cnt := by
  unfold Spec.WasmInt.irotl
  apply toNat_eq_of_bits _ _ (ofBits_lt _ _)
  intro i hi
  rw [testBit_ofBits_nat, BitVec.getLsbD_rotateLeft, BitVec.toNat_ofInt]
  simp only [getLsbD_ofInt]
  have hr : (cnt % ((2 ^ 32 : Nat) : Int)).toNat % 32 = (cnt % 32).toNat := by
    norm_num; omega
  rw [hr]
  have hc : (cnt % 32).toNat < 32 := by omega
  generalize hcdef : (cnt % 32).toNat = c at *
  by_cases hic : i < c
  · have e : (((i : Int) - cnt) % ((32 : Nat) : Int)).toNat = 32 - c + i := by omega
    rw [e]; simp [hic, hi]; omega
  · have e : (((i : Int) - cnt) % ((32 : Nat) : Int)).toNat = i - c := by omega
    rw [e]; simp [hic, hi]; omega

theorem toNat_irotr32 (v cnt : Int) :
    (Spec.WasmInt.irotr (BitVec.ofInt 32 v) (BitVec.ofInt 32 cnt)).toNat = Spec.Bits.rotr 32 v cnt := by
  unfold Spec.WasmInt.irotr
  apply toNat_eq_of_bits _ _ (ofBits_lt _ _)
  intro i hi
  rw [testBit_ofBits_nat, BitVec.getLsbD_rotateRight, BitVec.toNat_ofInt]
  simp only [getLsbD_ofInt]
  have hr : (cnt % ((2 ^ 32 : Nat) : Int)).toNat % 32 = (cnt % 32).toNat := by
    norm_num; omega
  rw [hr]
  have hc : (cnt % 32).toNat < 32 := by omega
  generalize hcdef : (cnt % 32).toNat = c at *
  by_cases hic : i < 32 - c
  · have e : (((i : Int) + cnt) % ((32 : Nat) : Int)).toNat = c + i := by omega
    rw [e]; simp [hic, hi]; omega
  · have e : (((i : Int) + cnt) % ((32 : Nat) : Int)).toNat = i - (32 - c) := by omega
    rw [e]; simp [hic, hi]; omega

theorem toNat_irotl64 (v cnt : Int) :
    (Spec.WasmInt.irotl (BitVec.ofInt 64 v) (BitVec.ofInt 64 cnt)).toNat = Spec.Bits.rotl 64 v cnt := by
  unfold Spec.WasmInt.irotl
  apply toNat_eq_of_bits _ _ (ofBits_lt _ _)
  intro i hi
  rw [testBit_ofBits_nat, BitVec.getLsbD_rotateLeft, BitVec.toNat_ofInt]
  simp only [getLsbD_ofInt]
  have hr : (cnt % ((2 ^ 64 : Nat) : Int)).toNat % 64 = (cnt % 64).toNat := by
    norm_num; omega
  rw [hr]
  have hc : (cnt % 64).toNat < 64 := by omega
  generalize hcdef : (cnt % 64).toNat = c at *
  by_cases hic : i < c
  · have e : (((i : Int) - cnt) % ((64 : Nat) : Int)).toNat = 64 - c + i := by omega
    rw [e]; simp [hic, hi]; omega
  · have e : (((i : Int) - cnt) % ((64 : Nat) : Int)).toNat = i - c := by omega
    rw [e]; simp [hic, hi]; omega

theorem toNat_irotr64 (v cnt : Int) :
    (Spec.WasmInt.irotr (BitVec.ofInt 64 v) (BitVec.ofInt 64 cnt)).toNat = Spec.Bits.rotr 64 v cnt := by
  unfold Spec.WasmInt.irotr
  apply toNat_eq_of_bits _ _ (ofBits_lt _ _)
  intro i hi
  rw [testBit_ofBits_nat, BitVec.getLsbD_rotateRight, BitVec.toNat_ofInt]
  simp only [getLsbD_ofInt]
  have hr : (cnt % ((2 ^ 64 : Nat) : Int)).toNat % 64 = (cnt % 64).toNat := by
    norm_num; omega
  rw [hr]
  have hc : (cnt % 64).toNat < 64 := by omega
  generalize hcdef : (cnt % 64).toNat = c at *
  by_cases hic : i < 64 - c
  · have e : (((i : Int) + cnt) % ((64 : Nat) : Int)).toNat = c + i := by omega
    rw [e]; simp [hic, hi]; omega
  · have e : (((i : Int) + cnt) % ((64 : Nat) : Int)).toNat = i - (64 - c) := by omega
    rw [e]; simp [hic, hi]; omega

end Proofs.WasmInt
