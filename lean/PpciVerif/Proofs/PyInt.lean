import PpciVerif.Model.PyInt
import PpciVerif.Proofs.Bits
/-!
Facts about the Python `int` bit operators of `Model.PyInt`: bit-index
characterisations (so that every identity follows by `eq_of_testBit_eq`), masks,
agreement with the `Nat` operators.
-/
namespace Proofs.PyInt
open Spec.Bits Proofs.Bits Model

theorem testBit_andNot (a b i : Nat) : (PyInt.andNot a b).testBit i = (a.testBit i && !b.testBit i) := by
  unfold PyInt.andNot
  rw [Nat.testBit_xor, Nat.testBit_and]
  cases a.testBit i <;> cases b.testBit i <;> rfl

theorem testBit_and (x y : Int) (i : Nat) : testBit (PyInt.and x y) i = (testBit x i && testBit y i) := by
  cases x with
  | ofNat a =>
    cases y with
    | ofNat b =>
      show testBit ((a &&& b : Nat) : Int) i = (testBit (a : Int) i && testBit (b : Int) i)
      simp only [testBit_natCast, Nat.testBit_and]
    | negSucc b =>
      show testBit ((PyInt.andNot a b : Nat) : Int) i = (testBit (a : Int) i && testBit (Int.negSucc b) i)
      simp only [testBit_natCast, testBit_negSucc, testBit_andNot]
  | negSucc a =>
    cases y with
    | ofNat b =>
      show testBit ((PyInt.andNot b a : Nat) : Int) i = (testBit (Int.negSucc a) i && testBit (b : Int) i)
      simp only [testBit_natCast, testBit_negSucc, testBit_andNot, Bool.and_comm]
    | negSucc b =>
      show testBit (Int.negSucc (a ||| b)) i = (testBit (Int.negSucc a) i && testBit (Int.negSucc b) i)
      simp only [testBit_negSucc, Nat.testBit_or, Bool.not_or]

theorem testBit_or (x y : Int) (i : Nat) : testBit (PyInt.or x y) i = (testBit x i || testBit y i) := by
  cases x with
  | ofNat a =>
    cases y with
    | ofNat b =>
      show testBit ((a ||| b : Nat) : Int) i = (testBit (a : Int) i || testBit (b : Int) i)
      simp only [testBit_natCast, Nat.testBit_or]
    | negSucc b =>
      show testBit (Int.negSucc (PyInt.andNot b a)) i = (testBit (a : Int) i || testBit (Int.negSucc b) i)
      simp only [testBit_natCast, testBit_negSucc, testBit_andNot]
      cases a.testBit i <;> cases b.testBit i <;> rfl
  | negSucc a =>
    cases y with
    | ofNat b =>
      show testBit (Int.negSucc (PyInt.andNot a b)) i = (testBit (Int.negSucc a) i || testBit (b : Int) i)
      simp only [testBit_natCast, testBit_negSucc, testBit_andNot]
      cases a.testBit i <;> cases b.testBit i <;> rfl
    | negSucc b =>
      show testBit (Int.negSucc (a &&& b)) i = (testBit (Int.negSucc a) i || testBit (Int.negSucc b) i)
      simp only [testBit_negSucc, Nat.testBit_and, Bool.not_and]

theorem testBit_xor (x y : Int) (i : Nat) : testBit (PyInt.xor x y) i = (testBit x i ^^ testBit y i) := by
  cases x with
  | ofNat a =>
    cases y with
    | ofNat b =>
      show testBit ((a ^^^ b : Nat) : Int) i = (testBit (a : Int) i ^^ testBit (b : Int) i)
      simp only [testBit_natCast, Nat.testBit_xor]
    | negSucc b =>
      show testBit (Int.negSucc (a ^^^ b)) i = (testBit (a : Int) i ^^ testBit (Int.negSucc b) i)
      simp only [testBit_natCast, testBit_negSucc, Nat.testBit_xor]
      cases a.testBit i <;> cases b.testBit i <;> rfl
  | negSucc a =>
    cases y with
    | ofNat b =>
      show testBit (Int.negSucc (a ^^^ b)) i = (testBit (Int.negSucc a) i ^^ testBit (b : Int) i)
      simp only [testBit_natCast, testBit_negSucc, Nat.testBit_xor]
      cases a.testBit i <;> cases b.testBit i <;> rfl
    | negSucc b =>
      show testBit ((a ^^^ b : Nat) : Int) i = (testBit (Int.negSucc a) i ^^ testBit (Int.negSucc b) i)
      simp only [testBit_natCast, testBit_negSucc, Nat.testBit_xor]
      cases a.testBit i <;> cases b.testBit i <;> rfl

theorem testBit_not (x : Int) (i : Nat) : testBit (PyInt.not x) i = !testBit x i := by
  cases x with
  | ofNat a =>
    have : PyInt.not (Int.ofNat a) = Int.negSucc a := by
      unfold PyInt.not; rw [Int.negSucc_eq]; simp; omega
    rw [this, testBit_negSucc]
    show (!a.testBit i) = !testBit (a : Int) i
    rw [testBit_natCast]
  | negSucc a =>
    have : PyInt.not (Int.negSucc a) = (a : Int) := by
      unfold PyInt.not; rw [Int.negSucc_eq]; omega
    rw [this, testBit_natCast, testBit_negSucc]; simp

theorem and_comm (x y : Int) : PyInt.and x y = PyInt.and y x :=
  eq_of_testBit_eq fun i => by rw [testBit_and, testBit_and, Bool.and_comm]

theorem or_comm (x y : Int) : PyInt.or x y = PyInt.or y x :=
  eq_of_testBit_eq fun i => by rw [testBit_or, testBit_or, Bool.or_comm]

/-- `x & (2^k - 1) = x mod 2^k`, also for negative `x` -/
theorem and_mask (x : Int) (k : Nat) : PyInt.and x (2 ^ k - 1) = x % 2 ^ k :=
  eq_of_testBit_eq fun i => by
    rw [testBit_and, testBit_two_pow_sub_one, ← wrapU, testBit_wrapU, Bool.and_comm]

/-- `x & 2^k` isolates bit `k` -/
theorem and_pow (x : Int) (k : Nat) : PyInt.and x (2 ^ k) = if testBit x k then 2 ^ k else 0 :=
  eq_of_testBit_eq fun i => by
    rw [testBit_and, testBit_two_pow]
    by_cases hk : k = i
    · subst hk
      by_cases hx : testBit x k <;> simp [hx, testBit_two_pow]
      simp [testBit]
    · by_cases hx : testBit x k <;> simp [hx, hk, testBit_two_pow]
      simp [testBit]

theorem and_pow_eq_zero (x : Int) (k : Nat) : PyInt.and x (2 ^ k) = 0 ↔ testBit x k = false := by
  rw [and_pow]
  have := pow_pos k
  by_cases hx : testBit x k <;> simp [hx]

theorem and_one (x : Int) : PyInt.and x 1 = x % 2 := by
  have := and_mask x 1
  simpa using this

theorem and_255 (x : Int) : PyInt.and x 255 = x % 256 := by
  have := and_mask x 8
  simpa using this

theorem and_nonneg_right (x : Int) {y : Int} (hy : 0 ≤ y) : 0 ≤ PyInt.and x y := by
  obtain ⟨b, rfl⟩ := Int.eq_ofNat_of_zero_le hy
  cases x with
  | ofNat a => exact Int.natCast_nonneg _
  | negSucc a => exact Int.natCast_nonneg _

theorem or_natCast (a b : Nat) : PyInt.or (a : Int) (b : Int) = ((a ||| b : Nat) : Int) := rfl
theorem and_natCast (a b : Nat) : PyInt.and (a : Int) (b : Int) = ((a &&& b : Nat) : Int) := rfl

/-- disjoint bit patterns: `|` is `+` -/
theorem or_eq_add_of_lt (a : Int) {b : Int} {k : Nat} (hb : fitsU k b) : PyInt.or (a * 2 ^ k) b = a * 2 ^ k + b :=
  eq_of_testBit_eq fun i => by
    rw [testBit_or, testBit_mul_pow]
    by_cases hi : i < k
    · have := testBit_add_mul_pow b a hi
      rw [Int.add_comm] at this
      rw [this]; simp; omega
    · rw [testBit_of_fitsU hb (by omega)]
      have h1 : testBit (a * 2 ^ k + b) i = testBit ((a * 2 ^ k + b) / 2 ^ k) (i - k) := by
        rw [testBit_div_pow]; congr 1; omega
      have h2 : (a * 2 ^ k + b) / 2 ^ k = a := by
        rw [Int.add_comm, Int.add_mul_ediv_right _ _ (pow_ne k), Int.ediv_eq_zero_of_lt hb.1 hb.2]; simp
      rw [h1, h2]; simp; omega

theorem bitLength_natCast (n : Nat) : PyInt.bitLength (n : Int) = if n = 0 then 0 else Nat.log2 n + 1 := by
  simp [PyInt.bitLength]

/-- for `0 ≤ v < 2^bits`, `bits ≥ 1`: `v.bit_length() == bits` iff the top bit is set -/
theorem bitLength_eq_iff {v : Int} {bits : Nat} (hb : 1 ≤ bits) (hv : fitsU bits v) :
    PyInt.bitLength v = bits ↔ 2 ^ (bits - 1) ≤ v := by
  obtain ⟨n, rfl⟩ := Int.eq_ofNat_of_zero_le hv.1
  have hn : n < 2 ^ bits := by
    have := hv.2; rw [← natCast_pow] at this; exact Int.ofNat_lt.1 this
  rw [bitLength_natCast, ← natCast_pow]
  by_cases h0 : n = 0
  · subst h0
    have := Nat.two_pow_pos (bits - 1)
    have := pow_pos (bits - 1)
    simp; omega
  · have h1 := Nat.log2_lt (k := bits) h0
    have h2 := Nat.log2_lt (k := bits - 1) h0
    simp only [h0, if_false]
    constructor
    · intro h
      have : ¬ n < 2 ^ (bits - 1) := fun hh => by have := h2.2 hh; omega
      exact Int.ofNat_le.2 (by omega)
    · intro h
      have h' : 2 ^ (bits - 1) ≤ n := Int.ofNat_le.1 h
      have a := h1.2 hn
      have b : ¬ Nat.log2 n < bits - 1 := fun hh => by have := h2.1 hh; omega
      omega

end Proofs.PyInt
