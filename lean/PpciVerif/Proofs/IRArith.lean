import PpciVerif.Spec.IRArith
/-! Basic facts about `Spec.IRArith` (no Mathlib needed): `wrap` normalises, is the identity on
values, and the wrap-around operators are closed on values.  Proved by case split over the eight
types (the moduli become literals) and `omega`. -/
namespace Proofs.IRArith
open Spec.IRArith

theorem wrap_inRange (ty : Ty) (x : Int) : InRange ty (wrap ty x) := by
  cases ty <;> simp [InRange, wrap, Ty.minVal, Ty.maxVal, Ty.signed, Ty.bits] <;> omega

theorem wrap_of_inRange (ty : Ty) (v : Int) (h : InRange ty v) : wrap ty v = v := by
  cases ty <;> simp [InRange, wrap, Ty.minVal, Ty.maxVal, Ty.signed, Ty.bits] at h ⊢ <;> omega

theorem wrap_wrap (ty : Ty) (x : Int) : wrap ty (wrap ty x) = wrap ty x :=
  wrap_of_inRange ty _ (wrap_inRange ty x)

/-- `wrap` is congruent to its argument modulo `2^bits` -/
theorem wrap_emod (ty : Ty) (x : Int) : wrap ty x % 2 ^ ty.bits = x % 2 ^ ty.bits := by
  cases ty <;> simp [wrap, Ty.signed, Ty.bits] <;> omega

/-- two values of a type that are congruent modulo `2^bits` are equal -/
theorem eq_of_emod_eq (ty : Ty) (a b : Int) (ha : InRange ty a) (hb : InRange ty b)
    (h : a % 2 ^ ty.bits = b % 2 ^ ty.bits) : a = b := by
  cases ty <;> simp [InRange, Ty.minVal, Ty.maxVal, Ty.signed, Ty.bits] at ha hb h <;> omega

theorem wrap_add_wrap_left (ty : Ty) (x y : Int) : wrap ty (wrap ty x + y) = wrap ty (x + y) := by
  cases ty <;> simp [wrap, Ty.signed, Ty.bits] <;> omega

theorem wrap_add_wrap_right (ty : Ty) (x y : Int) : wrap ty (x + wrap ty y) = wrap ty (x + y) := by
  cases ty <;> simp [wrap, Ty.signed, Ty.bits] <;> omega

theorem wrap_sub_wrap_left (ty : Ty) (x y : Int) : wrap ty (wrap ty x - y) = wrap ty (x - y) := by
  cases ty <;> simp [wrap, Ty.signed, Ty.bits] <;> omega

theorem wrap_sub_wrap_right (ty : Ty) (x y : Int) : wrap ty (x - wrap ty y) = wrap ty (x - y) := by
  cases ty <;> simp [wrap, Ty.signed, Ty.bits] <;> omega

/-! ### `/ %` and `>>` produce values -/

/-- truncating remainder through absolute values -/
theorem tmod_eq_abs (a b : Int) :
    Int.tmod a b = if a < 0 then -((if a < 0 then -a else a) % (if b < 0 then -b else b))
                   else (if a < 0 then -a else a) % (if b < 0 then -b else b) := by
  by_cases ha : a < 0 <;> by_cases hb' : b < 0 <;> simp only [ha, hb', if_true, if_false, Int.emod_neg]
  · have h := Int.neg_tmod (-a) b
    rw [Int.neg_neg] at h; rw [h, Int.tmod_eq_emod_of_nonneg (by omega)]
  · have h := Int.neg_tmod (-a) b
    rw [Int.neg_neg] at h; rw [h, Int.tmod_eq_emod_of_nonneg (by omega)]
  · rw [Int.tmod_eq_emod_of_nonneg (by omega)]
  · rw [Int.tmod_eq_emod_of_nonneg (by omega)]

/-- the truncating remainder of two values of a type is a value of the type -/
theorem tmod_inRange (ty : Ty) (a b : Int) (ha : InRange ty a) (hb : InRange ty b) (h0 : b ≠ 0) :
    InRange ty (Int.tmod a b) := by
  rw [tmod_eq_abs]
  have hpos : 0 < (if b < 0 then -b else b) := by split <;> omega
  have h1 := Int.emod_nonneg (if a < 0 then -a else a) (Int.ne_of_gt hpos)
  have h2 := Int.emod_lt_of_pos (if a < 0 then -a else a) hpos
  generalize (if a < 0 then -a else a) % (if b < 0 then -b else b) = r at h1 h2 ⊢
  cases ty <;> simp [InRange, Ty.minVal, Ty.maxVal, Ty.signed, Ty.bits] at ha hb ⊢ <;>
    split <;> split at h2 <;> omega

/-- bounds of the truncating quotient: between `-|a|` and `|a|`, and strictly inside for `|b| ≥ 2`, `a ≠ 0` -/
theorem tdiv_bounds (a b : Int) :
    (0 ≤ a → 0 < b → 0 ≤ Int.tdiv a b ∧ Int.tdiv a b ≤ a) ∧
    (0 ≤ a → b < 0 → -a ≤ Int.tdiv a b ∧ Int.tdiv a b ≤ 0) ∧
    (a < 0 → 0 < b → a ≤ Int.tdiv a b ∧ Int.tdiv a b ≤ 0) ∧
    (a < 0 → b < 0 → 0 ≤ Int.tdiv a b ∧ Int.tdiv a b ≤ -a ∧ (b ≤ -2 → Int.tdiv a b < -a)) := by
  have pos : ∀ x c : Int, 0 ≤ x → 0 < c → 0 ≤ x / c ∧ x / c ≤ x := fun x c hx hc =>
    ⟨Int.ediv_nonneg hx (Int.le_of_lt hc), Int.ediv_le_self c hx⟩
  have strict : ∀ x c : Int, 0 < x → 2 ≤ c → x / c < x := fun x c hx hc => by
    apply Int.ediv_lt_of_lt_mul (by omega)
    have := Int.mul_le_mul_of_nonneg_left hc (Int.le_of_lt hx)
    omega
  refine ⟨fun ha hb => ?_, fun ha hb => ?_, fun ha hb => ?_, fun ha hb => ?_⟩
  · rw [Int.tdiv_eq_ediv_of_nonneg ha]; exact pos a b ha hb
  · have h := Int.tdiv_neg a (-b); rw [Int.neg_neg] at h
    rw [h, Int.tdiv_eq_ediv_of_nonneg ha]
    have := pos a (-b) ha (by omega); omega
  · have h := Int.neg_tdiv (-a) b; rw [Int.neg_neg] at h
    rw [h, Int.tdiv_eq_ediv_of_nonneg (by omega)]
    have := pos (-a) b (by omega) hb; omega
  · have h := Int.neg_tdiv (-a) b; rw [Int.neg_neg] at h
    have h2 := Int.tdiv_neg (-a) (-b); rw [Int.neg_neg] at h2
    rw [h, h2, Int.neg_neg, Int.tdiv_eq_ediv_of_nonneg (by omega)]
    have := pos (-a) (-b) (by omega) (by omega)
    refine ⟨this.1, this.2, fun hb2 => strict (-a) (-b) (by omega) (by omega)⟩

theorem tdiv_inRange (ty : Ty) (a b : Int) (ha : InRange ty a) (hb : InRange ty b)
    (h : ¬ divUndefined ty a b) : InRange ty (Int.tdiv a b) := by
  have hb0 : b ≠ 0 := fun h0 => h (Or.inl h0)
  obtain ⟨h1, h2, h3, h4⟩ := tdiv_bounds a b
  simp only [divUndefined, not_or, not_and] at h
  have hm := h.2
  generalize Int.tdiv a b = q at *
  cases ty <;> simp [InRange, Ty.minVal, Ty.maxVal, Ty.signed, Ty.bits] at ha hb hm ⊢ <;> omega

theorem ediv_pow_inRange (ty : Ty) (a : Int) (c : Nat) (ha : InRange ty a) : InRange ty (a / 2 ^ c) := by
  have hp : (0:Int) < 2 ^ c := Int.pow_pos (by omega)
  have hlo : min a 0 ≤ a / 2 ^ c := by
    by_cases h : 0 ≤ a
    · have := Int.ediv_nonneg h (Int.le_of_lt hp); omega
    · have h1 : a * 2 ^ c ≤ a * 1 := Int.mul_le_mul_of_nonpos_left (by omega) (by omega)
      have := (Int.le_ediv_iff_mul_le hp).2 (by omega : a * 2 ^ c ≤ a); omega
  have hhi : a / 2 ^ c ≤ max a 0 := by
    by_cases h : 0 ≤ a
    · have := Int.ediv_le_self (2 ^ c) h; omega
    · have := Int.ediv_neg_of_neg_of_pos (by omega : a < 0) hp; omega
  cases ty <;> simp [InRange, Ty.minVal, Ty.maxVal, Ty.signed, Ty.bits] at ha ⊢ <;> omega

/-- a logical right shift of a non-negative value is the floor division -/
theorem shiftRight_logical (a : Int) (c : Nat) (ha : 0 ≤ a) : Int.ofNat (a.toNat >>> c) = a / 2 ^ c := by
  rw [Nat.shiftRight_eq_div_pow]
  have : a = (a.toNat : Int) := (Int.toNat_of_nonneg ha).symm
  conv => rhs; rw [this]
  simp

/-- **The specification is closed on values**: every defined result of an operation on values of a
    type is a value of the type. -/
theorem binop_inRange (ty : Ty) (op : Op) (a b v : Int) (ha : InRange ty a) (hb : InRange ty b)
    (h : binop ty op a b = some v) : InRange ty v := by
  cases op <;> simp only [binop] at h
  case add | sub | mul | and | or | xor => replace h := Option.some.inj h; rw [← h]; exact wrap_inRange ty _
  case div =>
    split at h
    · simp at h
    · rename_i hd; replace h := Option.some.inj h; rw [← h]; exact tdiv_inRange ty a b ha hb hd
  case rem =>
    split at h
    · simp at h
    · rename_i hd; replace h := Option.some.inj h; rw [← h]
      exact tmod_inRange ty a b ha hb (fun h0 => hd (Or.inl h0))
  case shl =>
    split at h
    · replace h := Option.some.inj h; rw [← h]; exact wrap_inRange ty _
    · simp at h
  case shr =>
    split at h
    · replace h := Option.some.inj h
      split at h
      · rw [← h]; exact ediv_pow_inRange ty a _ ha
      · rename_i hsg
        have ha0 : 0 ≤ a := by
          cases ty <;> simp [Ty.signed] at hsg <;> simp [InRange, Ty.minVal, Ty.signed] at ha <;> omega
        rw [← h, shiftRight_logical a _ ha0]; exact ediv_pow_inRange ty a _ ha
    · simp at h

/-- casts produce values -/
theorem cast_inRange (to : Ty) (v : Int) : InRange to (cast to v) := wrap_inRange to v

/-- a cast to a type that already contains the value is the identity -/
theorem cast_of_inRange (to : Ty) (v : Int) (h : InRange to v) : cast to v = v := wrap_of_inRange to v h

end Proofs.IRArith
