import PpciVerif.Spec.IRArith
/-! Basic facts about `Spec.IRArith` (no Mathlib needed): `wrap` normalises, is the identity on
values, and the wrap-around operators are closed on values.  Proved by case split over the eight
types (the moduli become literals) and `omega`. -/
namespace Proofs.IRArith
open Spec.IRArith

theorem wrap_inRange (ty : Ty) (x : Int) : InRange ty (wrap ty x) := by
  cases ty <;> simp [InRange, wrap, Ty.minVal, Ty.maxVal, Ty.signed, Ty.bits] <;> omega

theorem wrap_of_inRange (ty : Ty) (v : Int) (h : InRange ty v) : wrap ty v = v := by
  cases ty <;> simp [InRange, wrap, Ty.minVal, Ty.maxVal, Ty.signed, Ty.bits] at h ⊢ <;> omega

theorem wrap_wrap (ty : Ty) (x : Int) : wrap ty (wrap ty x) = wrap ty x :=
  wrap_of_inRange ty _ (wrap_inRange ty x)

/-- `wrap` is congruent to its argument modulo `2^bits` -/
theorem wrap_emod (ty : Ty) (x : Int) : wrap ty x % 2 ^ ty.bits = x % 2 ^ ty.bits := by
  cases ty <;> simp [wrap, Ty.signed, Ty.bits] <;> omega

/-- two values of a type that are congruent modulo `2^bits` are equal -/
theorem eq_of_emod_eq (ty : Ty) (a b : Int) (ha : InRange ty a) (hb : InRange ty b)
    (h : a % 2 ^ ty.bits = b % 2 ^ ty.bits) : a = b := by
  cases ty <;> simp [InRange, Ty.minVal, Ty.maxVal, Ty.signed, Ty.bits] at ha hb h <;> omega

theorem wrap_add_wrap_left (ty : Ty) (x y : Int) : wrap ty (wrap ty x + y) = wrap ty (x + y) := by
  cases ty <;> simp [wrap, Ty.signed, Ty.bits] <;> omega

theorem wrap_add_wrap_right (ty : Ty) (x y : Int) : wrap ty (x + wrap ty y) = wrap ty (x + y) := by
  cases ty <;> simp [wrap, Ty.signed, Ty.bits] <;> omega

theorem wrap_sub_wrap_left (ty : Ty) (x y : Int) : wrap ty (wrap ty x - y) = wrap ty (x - y) := by
  cases ty <;> simp [wrap, Ty.signed, Ty.bits] <;> omega

theorem wrap_sub_wrap_right (ty : Ty) (x y : Int) : wrap ty (x - wrap ty y) = wrap ty (x - y) := by
  cases ty <;> simp [wrap, Ty.signed, Ty.bits] <;> omega

/-- casts produce values -/
theorem cast_inRange (to : Ty) (v : Int) : InRange to (cast to v) := wrap_inRange to v

/-- a cast to a type that already contains the value is the identity -/
theorem cast_of_inRange (to : Ty) (v : Int) (h : InRange to v) : cast to v = v := wrap_of_inRange to v h

end Proofs.IRArith
