import PpciVerif.Spec.ObjSer
import PpciVerif.Proofs.ObjSer
/-!
C14, debug info: `deDebug (serDebug d) = d`.

The serializer threads the `type_ids` dictionary (`seen`) through the whole
traversal.  `*_spec` lemmas show that what it emits is the *pure* serialisation
`p*` with the id function `fun r => idx r F` for ANY later dictionary `F`
(ids, once handed out, never change: `idx_append_of_mem`).  With all types
registered, the final dictionary contains every position `< n` exactly once, so
the id function is injective and the loader's id → position lookup inverts it.
-/
namespace Proofs.ObjSer
open Model.ObjSer Spec.ObjSer

/-! ### the id dictionary -/

def Ext (s s' : List Nat) : Prop := ∃ t, s' = s ++ t

theorem Ext.refl (s : List Nat) : Ext s s := ⟨[], by simp⟩
theorem Ext.trans {a b c : List Nat} (h1 : Ext a b) (h2 : Ext b c) : Ext a c := by
  obtain ⟨t, rfl⟩ := h1; obtain ⟨u, rfl⟩ := h2; exact ⟨t ++ u, by simp⟩
theorem Ext.mem {a b : List Nat} (h : Ext a b) {x : Nat} (hx : x ∈ a) : x ∈ b := by
  obtain ⟨t, rfl⟩ := h; simp [hx]

theorem idx_append_of_mem (r : Nat) (s t : List Nat) (h : r ∈ s) : idx r (s ++ t) = idx r s := by
  induction s with
  | nil => simp at h
  | cons x xs ih =>
    simp only [List.cons_append, idx]
    by_cases hx : x = r
    · simp [hx]
    · have : r ∈ xs := by
        rcases List.mem_cons.mp h with h | h
        · exact absurd h.symm hx
        · exact h
      simp [hx, ih this]

theorem idx_ext {s F : List Nat} (h : Ext s F) {r : Nat} (hr : r ∈ s) : idx r F = idx r s := by
  obtain ⟨t, rfl⟩ := h; exact idx_append_of_mem r s t hr

theorem visit_ext (s : List Nat) (t : Nat) : Ext s (visit s t) := by
  unfold visit; split
  · exact Ext.refl s
  · exact ⟨[t], rfl⟩

theorem visit_mem (s : List Nat) (t : Nat) : t ∈ visit s t := by
  unfold visit; split <;> simp_all

theorem visit_nodup (s : List Nat) (t : Nat) (h : s.Nodup) : (visit s t).Nodup := by
  unfold visit; split
  · exact h
  · rename_i hn
    rw [List.nodup_append]
    refine ⟨h, by simp, ?_⟩
    intro a ha b hb
    simp at hb; subst hb
    intro e; subst e; exact hn ha

theorem visit_of_mem (s : List Nat) (t : Nat) (h : t ∈ s) : visit s t = s := by
  simp [visit, h]

/-- the id `get_type_id` returns is the id in every later dictionary -/
theorem getId_fst (s F : List Nat) (t : Nat) (h : Ext (visit s t) F) :
    (getId s t).1 = .num (idx t F) := by
  simp [getId, idx_ext h (visit_mem s t)]

/-! ### pure serialisation with a fixed id function -/

def pField (g : Nat → Nat) (f : Field) : Json :=
  .obj [("name", f.name), ("type", .num (g f.typ)), ("offset", f.offset)]

def pType (g : Nat → Nat) (p : Nat) : TypeDesc → Json
  | .base name size enc =>
    .obj [("id", .num (g p)), ("kind", .str kBase), ("name", name), ("size", size), ("encoding", enc)]
  | .struct fields =>
    .obj [("id", .num (g p)), ("kind", .str kStruct), ("fields", .arr (fields.map (pField g)))]
  | .array elem size =>
    .obj [("id", .num (g p)), ("kind", .str kArray), ("element_type", .num (g elem)), ("size", .num size)]
  | .pointer target =>
    .obj [("id", .num (g p)), ("kind", .str kPointer), ("pointed_type", .num (g target))]

def pTypes (g : Nat → Nat) : Nat → List TypeDesc → List Json
  | _, [] => []
  | p, t :: ts => pType g p t :: pTypes g (p + 1) ts

def pVar (g : Nat → Nat) (v : DbgVar) : Json :=
  .obj [("source", serSrc v.loc), ("name", v.name), ("type", .num (g v.typ)), ("address", serAddr v.address)]

def pArg (g : Nat → Nat) (a : DbgParam) : Json :=
  .obj [("name", a.name), ("type", .num (g a.typ))]

def pFunc (g : Nat → Nat) (f : DbgFunc) : Json :=
  .obj [("source", serSrc f.loc), ("function_name", f.name), ("return_type", .num (g f.returnType)),
        ("arguments", .arr (f.arguments.map (pArg g))), ("begin", serAddr f.begin_), ("end", serAddr f.end_),
        ("variables", .arr (f.variables.map (pVar g)))]

/-- what a stateful serialiser step guarantees -/
structure StepOk (seen : List Nat) (out : List Nat) (refs : List Nat) : Prop where
  ext : Ext seen out
  mem : ∀ r ∈ refs, r ∈ out
  nodup : seen.Nodup → out.Nodup

theorem serFields_spec (fs : List Field) (seen : List Nat) :
    StepOk seen (serFields fs seen).2 (fs.map (·.typ)) ∧
    ∀ F, Ext (serFields fs seen).2 F → (serFields fs seen).1 = fs.map (pField (fun r => idx r F)) := by
  induction fs generalizing seen with
  | nil => exact ⟨⟨Ext.refl _, by simp, id⟩, fun F _ => rfl⟩
  | cons f fs ih =>
    obtain ⟨ok, sp⟩ := ih (visit seen f.typ)
    simp only [serFields, getId]
    refine ⟨⟨(visit_ext seen f.typ).trans ok.ext, ?_, fun h => ok.nodup (visit_nodup _ _ h)⟩, ?_⟩
    · intro r hr
      simp only [List.map_cons, List.mem_cons] at hr
      rcases hr with rfl | hr
      · exact ok.ext.mem (visit_mem seen _)
      · exact ok.mem r hr
    · intro F hF
      simp only [List.map_cons, pField, sp F hF,
        idx_ext (ok.ext.trans hF) (visit_mem seen f.typ)]

theorem serType_spec (p : Nat) (t : TypeDesc) (seen : List Nat) :
    StepOk seen (serType p t seen).2 (p :: fieldRefs t) ∧
    ∀ F, Ext (serType p t seen).2 F → (serType p t seen).1 = pType (fun r => idx r F) p t := by
  cases t with
  | base name size enc =>
    simp only [serType, getId, pType, fieldRefs]
    refine ⟨⟨visit_ext _ _, ?_, visit_nodup _ _⟩, ?_⟩
    · intro r hr; simp at hr; subst hr; exact visit_mem _ _
    · intro F hF; simp [idx_ext hF (visit_mem seen p)]
  | struct fields =>
    obtain ⟨ok, sp⟩ := serFields_spec fields (visit seen p)
    simp only [serType, getId, pType, fieldRefs]
    refine ⟨⟨(visit_ext _ _).trans ok.ext, ?_, fun h => ok.nodup (visit_nodup _ _ h)⟩, ?_⟩
    · intro r hr
      rcases List.mem_cons.mp hr with rfl | hr
      · exact ok.ext.mem (visit_mem _ _)
      · exact ok.mem r hr
    · intro F hF
      simp [sp F hF, idx_ext (ok.ext.trans hF) (visit_mem seen p)]
  | array elem size =>
    simp only [serType, getId, pType, fieldRefs]
    refine ⟨⟨(visit_ext _ _).trans (visit_ext _ _), ?_, fun h => visit_nodup _ _ (visit_nodup _ _ h)⟩, ?_⟩
    · intro r hr
      simp at hr
      rcases hr with rfl | rfl
      · exact (visit_ext _ _).mem (visit_mem _ _)
      · exact visit_mem _ _
    · intro F hF
      simp [idx_ext ((visit_ext _ _).trans hF) (visit_mem seen p), idx_ext hF (visit_mem (visit seen p) elem)]
  | pointer target =>
    simp only [serType, getId, pType, fieldRefs]
    refine ⟨⟨(visit_ext _ _).trans (visit_ext _ _), ?_, fun h => visit_nodup _ _ (visit_nodup _ _ h)⟩, ?_⟩
    · intro r hr
      simp at hr
      rcases hr with rfl | rfl
      · exact (visit_ext _ _).mem (visit_mem _ _)
      · exact visit_mem _ _
    · intro F hF
      simp [idx_ext ((visit_ext _ _).trans hF) (visit_mem seen p), idx_ext hF (visit_mem (visit seen p) target)]

theorem serTypes_spec (ts : List TypeDesc) (p : Nat) (seen : List Nat) :
    StepOk seen (serTypes p ts seen).2 (List.range' p ts.length ++ ts.flatMap fieldRefs) ∧
    ∀ F, Ext (serTypes p ts seen).2 F → (serTypes p ts seen).1 = pTypes (fun r => idx r F) p ts := by
  induction ts generalizing p seen with
  | nil => exact ⟨⟨Ext.refl _, by simp, id⟩, fun F _ => rfl⟩
  | cons t ts ih =>
    obtain ⟨ok1, sp1⟩ := serType_spec p t seen
    obtain ⟨ok2, sp2⟩ := ih (p + 1) (serType p t seen).2
    simp only [serTypes]
    refine ⟨⟨ok1.ext.trans ok2.ext, ?_, fun h => ok2.nodup (ok1.nodup h)⟩, ?_⟩
    · intro r hr
      simp only [List.length_cons, List.range'_succ, List.flatMap_cons, List.cons_append,
        List.mem_cons, List.mem_append] at hr
      rcases hr with rfl | hr | hr | hr
      · exact ok2.ext.mem (ok1.mem r (by simp))
      · exact ok2.mem r (by simp [hr])
      · exact ok2.ext.mem (ok1.mem r (by simp [hr]))
      · exact ok2.mem r (by simp [hr])
    · intro F hF
      simp only [pTypes, sp1 F (ok2.ext.trans hF), sp2 F hF]

/-- once a reference is in the dictionary, `get_type_id` is a pure lookup -/
theorem getId_of_mem (s : List Nat) (t : Nat) (h : t ∈ s) : getId s t = (.num (idx t s), s) := by
  simp [getId, visit_of_mem s t h]

theorem serArgs_stable (as : List DbgParam) (F : List Nat) (h : ∀ a ∈ as, a.typ ∈ F) :
    serArgs as F = (as.map (pArg (fun r => idx r F)), F) := by
  induction as with
  | nil => rfl
  | cons a as ih =>
    simp only [serArgs, getId_of_mem F a.typ (h a (by simp)), ih (fun x hx => h x (by simp [hx]))]
    rfl

theorem serVars_stable (vs : List DbgVar) (F : List Nat) (h : ∀ v ∈ vs, v.typ ∈ F) :
    serVars vs F = (vs.map (pVar (fun r => idx r F)), F) := by
  induction vs with
  | nil => rfl
  | cons v vs ih =>
    simp only [serVars, serVar, getId_of_mem F v.typ (h v (by simp)), ih (fun x hx => h x (by simp [hx]))]
    rfl

theorem serFuncs_stable (fs : List DbgFunc) (F : List Nat) (h : ∀ f ∈ fs, ∀ r ∈ funcRefs f, r ∈ F) :
    serFuncs fs F = (fs.map (pFunc (fun r => idx r F)), F) := by
  induction fs with
  | nil => rfl
  | cons f fs ih =>
    have hf := h f (by simp)
    have ha : ∀ a ∈ f.arguments, a.typ ∈ F := fun a ha =>
      hf _ (by simp only [funcRefs, List.mem_cons, List.mem_append, List.mem_map]; exact Or.inr (Or.inl ⟨a, ha, rfl⟩))
    have hv : ∀ v ∈ f.variables, v.typ ∈ F := fun v hv =>
      hf _ (by simp only [funcRefs, List.mem_cons, List.mem_append, List.mem_map]; exact Or.inr (Or.inr ⟨v, hv, rfl⟩))
    have hr : f.returnType ∈ F := hf _ (by simp [funcRefs])
    simp only [serFuncs, serFunc, serArgs_stable _ F ha, serVars_stable _ F hv, getId_of_mem F _ hr,
      ih (fun x hx => h x (by simp [hx]))]
    rfl

/-! ### the loader inverts an injective id function -/

/-- `g` is injective on the positions `< n` (as Python ints) -/
def InjOn (g : Nat → Nat) (n : Nat) : Prop := ∀ a b, a < n → b < n → g a = g b → a = b

def idsOf (g : Nat → Nat) (p k : Nat) : List Int := (List.range' p k).map (fun q => (g q : Int))

theorem idsOf_succ (g : Nat → Nat) (p k : Nat) : idsOf g p (k + 1) = (g p : Int) :: idsOf g (p + 1) k := by
  simp [idsOf, List.range'_succ]

theorem mem_idsOf (g : Nat → Nat) (p k r : Nat) (h1 : p ≤ r) (h2 : r < p + k) : (g r : Int) ∈ idsOf g p k := by
  simp only [idsOf, List.mem_map, List.mem_range'_1]
  exact ⟨r, ⟨h1, h2⟩, rfl⟩

theorem idxI_idsOf (g : Nat → Nat) (n : Nat) (hg : InjOn g n) (k p r : Nat) (hpk : p + k ≤ n)
    (h1 : p ≤ r) (h2 : r < p + k) : idxI (g r : Int) (idsOf g p k) = r - p := by
  induction k generalizing p with
  | zero => omega
  | succ k ih =>
    rw [idsOf_succ]
    simp only [idxI]
    by_cases hpr : p = r
    · subst hpr; simp
    · have hne : ¬ ((g p : Int) = (g r : Int)) := by
        intro e
        have : g p = g r := by exact_mod_cast e
        exact hpr (hg p r (by omega) (by omega) this)
      simp only [hne, if_false]
      rw [ih (p + 1) (by omega) (by omega) (by omega)]
      omega

theorem idsOf_nodup (g : Nat → Nat) (n : Nat) (hg : InjOn g n) (k p : Nat) (hpk : p + k ≤ n) :
    (idsOf g p k).Nodup := by
  induction k generalizing p with
  | zero => simp [idsOf]
  | succ k ih =>
    rw [idsOf_succ, List.nodup_cons]
    refine ⟨?_, ih (p + 1) (by omega)⟩
    intro hmem
    simp only [idsOf, List.mem_map, List.mem_range'_1] at hmem
    obtain ⟨q, ⟨hq1, hq2⟩, e⟩ := hmem
    have : g q = g p := by exact_mod_cast e
    have := hg q p (by omega) (by omega) this
    omega

theorem refOf_ok (g : Nat → Nat) (n : Nat) (hg : InjOn g n) (r : Nat) (hr : r < n) :
    refOf (idsOf g 0 n) (.num (g r)) = .ok r := by
  have hm := mem_idsOf g 0 n r (by omega) (by omega)
  have hi := idxI_idsOf g n hg n 0 r (by omega) (by omega) (by omega)
  simp [refOf, asTypeId, hm, hi]

theorem typeEntries_pTypes (g : Nat → Nat) (ts : List TypeDesc) (p : Nat) :
    mapE typeEntry (pTypes g p ts) = .ok ((pTypes g p ts).zip (idsOf g p ts.length) |>.map (fun x => (x.2, x.1))) := by
  induction ts generalizing p with
  | nil => rfl
  | cons t ts ih =>
    have h1 : typeEntry (pType g p t) = .ok ((g p : Int), pType g p t) := by
      cases t <;> simp [typeEntry, pType, getKey, lookup, asTypeId]
    simp only [pTypes, mapE, h1, bind_ok, ih (p + 1), List.length_cons, idsOf_succ, List.zip_cons_cons,
      List.map_cons, pure_eq_ok]

theorem zip_ids (g : Nat → Nat) (ts : List TypeDesc) (p : Nat) :
    ((pTypes g p ts).zip (idsOf g p ts.length) |>.map (fun x => (x.2, x.1))).map (·.1) = idsOf g p ts.length := by
  induction ts generalizing p with
  | nil => simp [pTypes, idsOf]
  | cons t ts ih =>
    simp only [pTypes, List.length_cons, idsOf_succ, List.zip_cons_cons, List.map_cons, ih (p + 1)]

theorem readSrc_ser (l : SrcLoc) : readSrc (serSrc l) = .ok l := by
  simp [readSrc, serSrc, getKey, lookup]

theorem kinds_ne : kFprel ≠ kFixed ∧ kUnknown ≠ kFixed ∧ kUnknown ≠ kFprel ∧ kStruct ≠ kBase ∧
    kPointer ≠ kBase ∧ kPointer ≠ kStruct ∧ kArray ≠ kBase ∧ kArray ≠ kStruct ∧ kArray ≠ kPointer := by decide

theorem readAddr_ser (a : Addr) : readAddr (serAddr a) = .ok a := by
  obtain ⟨h1, h2, h3, -⟩ := kinds_ne
  cases a <;> simp [readAddr, serAddr, getKey, lookup, Json.get?, h1, h2, h3]

theorem readLocation_ser (l : DbgLoc) : readLocation (serLocation l) = .ok l := by
  simp [readLocation, serLocation, getKey, lookup, readSrc_ser, readAddr_ser]

theorem mapE_map {α β γ : Type} (f : α → γ) (g : γ → Except Err β) (l : List α) (l' : List β)
    (hl : l.length = l'.length) (hh : ∀ i (h1 : i < l.length) (h2 : i < l'.length), g (f l[i]) = .ok l'[i]) :
    mapE g (l.map f) = .ok l' := by
  induction l generalizing l' with
  | nil => cases l' with
    | nil => rfl
    | cons _ _ => simp at hl
  | cons a as ih =>
    cases l' with
    | nil => simp at hl
    | cons b bs =>
      have h0 := hh 0 (by simp) (by simp)
      simp only [List.getElem_cons_zero] at h0
      have ht := ih bs (by simpa using hl) (fun i h1 h2 => by
        have := hh (i + 1) (by simp; omega) (by simp; omega)
        simpa using this)
      simp [mapE, h0, ht]

theorem mapE_map_id {α β : Type} (f : β → α) (g : α → Except Err β) (l : List β)
    (hh : ∀ b ∈ l, g (f b) = .ok b) : mapE g (l.map f) = .ok l := by
  induction l with
  | nil => rfl
  | cons a as ih =>
    simp [mapE, hh a (by simp), ih (fun x hx => hh x (by simp [hx]))]

section inv
variable (g : Nat → Nat) (n : Nat) (hg : InjOn g n)
include hg

theorem convFields_ok (fs : List Field) (h : ∀ f ∈ fs, f.typ < n) :
    mapE (convField (idsOf g 0 n)) (fs.map (pField g)) = .ok fs := by
  apply mapE_map_id
  intro f hf
  simp [convField, pField, getKey, lookup, refOf_ok g n hg f.typ (h f hf)]

theorem convType_ok (p : Nat) (t : TypeDesc) (h : ∀ r ∈ fieldRefs t, r < n) :
    convType (idsOf g 0 n) (pType g p t) = .ok t := by
  obtain ⟨-, -, -, h4, h5, h6, h7, h8, h9⟩ := kinds_ne
  cases t with
  | base name size enc => simp [convType, pType, getKey, lookup, Json.get?]
  | struct fields =>
    have hf := convFields_ok g n hg fields (fun f hf => h f.typ (by simp [fieldRefs]; exact ⟨f, hf, rfl⟩))
    simp only [convType, pType, getKey, lookup]
    simp [h4, asArr, hf]
  | array elem size =>
    have := refOf_ok g n hg elem (h elem (by simp [fieldRefs]))
    simp only [convType, pType, getKey, lookup]
    simp [h7, h8, h9, this]
  | pointer target =>
    have := refOf_ok g n hg target (h target (by simp [fieldRefs]))
    simp only [convType, pType, getKey, lookup]
    simp [h5, h6, this]

theorem convTypes_ok (ts : List TypeDesc) (p : Nat) (h : ∀ t ∈ ts, ∀ r ∈ fieldRefs t, r < n) :
    mapE (convType (idsOf g 0 n)) (pTypes g p ts) = .ok ts := by
  induction ts generalizing p with
  | nil => rfl
  | cons t ts ih =>
    simp [pTypes, mapE, convType_ok g n hg p t (h t (by simp)), ih (p + 1) (fun x hx => h x (by simp [hx]))]

theorem readVar_ok (v : DbgVar) (h : v.typ < n) : readVar (idsOf g 0 n) (pVar g v) = .ok v := by
  simp [readVar, pVar, getKey, lookup, readSrc_ser, readAddr_ser, refOf_ok g n hg v.typ h]

theorem readParam_ok (a : DbgParam) (h : a.typ < n) : readParam (idsOf g 0 n) (pArg g a) = .ok a := by
  simp [readParam, pArg, getKey, lookup, refOf_ok g n hg a.typ h]

theorem readFunc_ok (f : DbgFunc) (h : ∀ r ∈ funcRefs f, r < n) :
    readFunc (idsOf g 0 n) (pFunc g f) = .ok f := by
  have ha : mapE (readParam (idsOf g 0 n)) (f.arguments.map (pArg g)) = .ok f.arguments :=
    mapE_map_id _ _ _ (fun a ha => readParam_ok g n hg a (h _ (by
      simp only [funcRefs, List.mem_cons, List.mem_append, List.mem_map]; exact Or.inr (Or.inl ⟨a, ha, rfl⟩))))
  have hv : mapE (readVar (idsOf g 0 n)) (f.variables.map (pVar g)) = .ok f.variables :=
    mapE_map_id _ _ _ (fun v hv => readVar_ok g n hg v (h _ (by
      simp only [funcRefs, List.mem_cons, List.mem_append, List.mem_map]; exact Or.inr (Or.inr ⟨v, hv, rfl⟩))))
  have hr := refOf_ok g n hg f.returnType (h _ (by simp [funcRefs]))
  simp [readFunc, pFunc, getKey, lookup, readSrc_ser, readAddr_ser, hr, asArr, ha, hv]

end inv

/-! ### assembling -/

theorem idx_injOn (F : List Nat) (n : Nat) (hall : ∀ p, p < n → p ∈ F) :
    InjOn (fun r => idx r F) n := by
  intro a b ha hb e
  have key : ∀ (F : List Nat) (a b : Nat), a ∈ F → b ∈ F → idx a F = idx b F → a = b := by
    intro F
    induction F with
    | nil => intro a b ha; simp at ha
    | cons x xs ih =>
      intro a b ha hb e
      simp only [idx] at e
      by_cases h1 : x = a <;> by_cases h2 : x = b
      · omega
      · rw [if_pos h1, if_neg h2] at e; omega
      · rw [if_neg h1, if_pos h2] at e; omega
      · rw [if_neg h1, if_neg h2] at e
        have ha' : a ∈ xs := by
          rcases List.mem_cons.mp ha with h | h
          · exact absurd h.symm h1
          · exact h
        have hb' : b ∈ xs := by
          rcases List.mem_cons.mp hb with h | h
          · exact absurd h.symm h2
          · exact h
        exact ih a b ha' hb' (by omega)
  exact key F a b (hall a ha) (hall b hb) e

/-- `DictDeserializer().deserialize(DictSerializer().serialize(d))` rebuilds `d`, for every
    debug info whose type references are registered and whose saved type table the
    loader's traversal accepts. -/
theorem deDebug_serDebug (d : DebugInfo) (hreg : TypesRegistered d) (hl : loadable d = true) :
    deDebug (serDebug d) = .ok d := by
  obtain ⟨hT, hV, hFn⟩ := hreg
  obtain ⟨ok, sp⟩ := serTypes_spec d.types 0 []
  -- the final dictionary
  generalize hF : (serTypes 0 d.types []).2 = F at ok sp
  have hall : ∀ p, p < d.types.length → p ∈ F := fun p hp =>
    ok.mem p (by simp only [List.mem_append, List.mem_range'_1]; exact Or.inl ⟨by omega, by omega⟩)
  have hTy := sp F (Ext.refl F)
  have hvars := serVars_stable d.variables F (fun v hv => hall _ (hV v hv))
  have hfuncs := serFuncs_stable d.functions F (fun f hf r hr => hall _ (hFn f hf r hr))
  have hg := idx_injOn F d.types.length hall
  -- the loader's worklist and id list
  have hwl := typeEntries_pTypes (fun r => idx r F) d.types 0
  have hids := zip_ids (fun r => idx r F) d.types 0
  have hnd := idsOf_nodup (fun r => idx r F) d.types.length hg d.types.length 0 (by omega)
  -- the traversal is accepted (hypothesis)
  have hload : ∃ st, loadTypes ((pTypes (fun r => idx r F) 0 d.types).zip
      (idsOf (fun r => idx r F) 0 d.types.length) |>.map (fun x => (x.2, x.1))) = .ok st := by
    unfold loadable at hl
    rw [hTy, hwl] at hl
    simp only at hl
    split at hl
    · rename_i st h; exact ⟨st, h⟩
    · simp at hl
  obtain ⟨st, hst⟩ := hload
  have hconv := convTypes_ok (fun r => idx r F) d.types.length hg d.types 0 hT
  have hlocs : mapE readLocation (d.locations.map serLocation) = .ok d.locations :=
    mapE_map_id _ _ _ (fun l _ => readLocation_ser l)
  have hv2 : mapE (readVar (idsOf (fun r => idx r F) 0 d.types.length)) (d.variables.map (pVar fun r => idx r F))
      = .ok d.variables :=
    mapE_map_id _ _ _ (fun v hv => readVar_ok _ _ hg v (hV v hv))
  have hf2 : mapE (readFunc (idsOf (fun r => idx r F) 0 d.types.length)) (d.functions.map (pFunc fun r => idx r F))
      = .ok d.functions :=
    mapE_map_id _ _ _ (fun f hf => readFunc_ok _ _ hg f (hFn f hf))
  unfold serDebug deDebug
  simp only [hF, hTy, hvars, hfuncs]
  simp only [getKey, lookup, String.reduceEq, if_true, if_false, bind_ok, asArr, hlocs, hwl, hids, hnd,
    not_true_eq_false, hst, hconv, hv2, hf2, pure_eq_ok]

end Proofs.ObjSer
