import PpciVerif.Proofs.IntSet
import Mathlib.Data.Set.Card
/-! C33: `cardinality` as `Set.ncard` of the denoted set (needs Mathlib's `Set.ncard`). -/
namespace Proofs.IntSet
open Model.IntSet Spec.IntSet

/-- `cardinality` is the cardinality (`Set.ncard`) of the denoted set of integers -/
theorem cardinality_eq_ncard (rs : List (Int × Int)) (h : Canon rs) :
    cardinality rs = ((({v | Mem rs v} : Set Int).ncard : Nat) : Int) := by
  have hs : ({v | Mem rs v} : Set Int) = ↑((iter rs).toFinset) := by
    ext v; simp [mem_iter]
  rw [hs, Set.ncard_coe_finset, List.toFinset_card_of_nodup, cardinality_eq_length rs h]
  exact (iter_sorted rs h).imp (fun hab => Int.ne_of_lt hab)

end Proofs.IntSet
