import PpciVerif.Proofs.RegexCompile
/-! Helper lemmas for C31, part 3: the loop of `compile`, running the tables, maximal munch. -/
set_option linter.unusedSectionVars false
namespace Proofs.Regex
open Spec.Lang Spec.RegexLang Model.Regex Model Spec.IntSet

section generic
variable {σ α : Type} [DecidableEq σ]

/-- the tables `d` simulate the derivative automaton whose states are listed in `S` -/
structure Simulates (O : Ops σ) (acc : σ → α) (root : σ) (d : DFA α) (S : List σ) : Prop where
  root0 : S[0]? = some root
  nodup : S.Nodup
  accepts : d.accepts = S.map acc
  good : ∀ (i : Nat) (x : σ), S[i]? = some x → ∃ T, d.trans[i]? = some T ∧ Good O S T x
  nullIn : O.null root ∈ S
  error : d.error = indexOf (O.null root) S

theorem loop_inv {O : Ops σ} {P : σ → Prop} (hS : Sound O P) {root : σ} (hnull : P (O.null root)) :
    ∀ (fuel : Nat) (st st' : CState σ), Inv O P root st → (st.stack = [] → O.null root ∈ st.states) →
      loop O root fuel st = some st' → Inv O P root st' ∧ st'.stack = [] ∧ O.null root ∈ st'.states := by
  intro fuel
  induction fuel with
  | zero =>
    intro st st' h hn hl
    unfold loop at hl
    split at hl
    · next e => cases hl; exact ⟨h, e, hn e⟩
    · simp at hl
  | succ f ih =>
    intro st st' h hn hl
    unfold loop at hl
    split at hl
    · next e => cases hl; exact ⟨h, e, hn e⟩
    · next x rest e =>
      simp only at hl
      exact ih _ _ (h.process hS hnull e) (processState_null root _ x) hl

theorem inv_init {O : Ops σ} {P : σ → Prop} {root : σ} (hroot : P root) :
    Inv O P root (addState ⟨[], [], []⟩ root) where
  len := by simp [addState]
  nodup := by simp [addState]
  pst := by intro x hx; simp [addState] at hx; subst hx; exact hroot
  stackNodup := by simp [addState]
  stackSub := by intro x hx; simpa [addState] using hx
  pending := by
    intro i x hi _
    simp only [addState, List.nil_append] at hi ⊢
    cases i with
    | zero => rfl
    | succ i => simp at hi
  done := by
    intro i x hi hx
    simp only [addState, List.nil_append] at hi hx
    cases i with
    | zero => simp at hi; subst hi; simp at hx
    | succ i => simp at hi
  root0 := by simp [addState]

/-- whenever `compile` returns, its tables simulate the derivative automaton -/
theorem compileWith_sim {O : Ops σ} {P : σ → Prop} (hS : Sound O P) (acc : σ → α) {root : σ}
    (hroot : P root) (hnull : P (O.null root)) (fuel : Nat) (d : DFA α)
    (h : compileWith O acc fuel root = .ok d) : ∃ S, Simulates O acc root d S := by
  unfold compileWith at h
  split at h
  · cases h
  · next st hl =>
    obtain ⟨hinv, hstack, hin⟩ := loop_inv hS hnull fuel _ st (inv_init hroot) (by simp [addState]) hl
    simp only [hin, if_true, Except.ok.injEq] at h
    subst h
    refine ⟨st.states, hinv.root0, hinv.nodup, rfl, ?_, hin, rfl⟩
    intro i x hi
    exact hinv.done i x hi (by simp [hstack])

/-- `state_numbers[expr.null]` never raises KeyError -/
theorem compileWith_no_keyError {O : Ops σ} {P : σ → Prop} (hS : Sound O P) (acc : σ → α) {root : σ}
    (hroot : P root) (hnull : P (O.null root)) (fuel : Nat) :
    compileWith O acc fuel root ≠ .error .KeyError := by
  unfold compileWith
  split
  · simp
  · next st hl =>
    obtain ⟨_, _, hin⟩ := loop_inv hS hnull fuel _ st (inv_init hroot) (by simp [addState]) hl
    simp [hin]

theorem run_spec {O : Ops σ} {acc : σ → α} {root : σ} {d : DFA α} {S : List σ}
    (hsim : Simulates O acc root d S) :
    ∀ (s : List Int) (i : Nat) (x : σ), (∀ c ∈ s, 0 ≤ c ∧ c ≤ 255) → S[i]? = some x →
      ∃ j, run d i s = .ok j ∧ S[j]? = some (s.foldl O.deriv x)
  | [], i, x, _, hi => ⟨i, rfl, hi⟩
  | c :: s, i, x, hs, hi => by
    obtain ⟨T, hT, hG⟩ := hsim.good i x hi
    obtain ⟨j, hj, hsj⟩ := hG c (hs c (by simp)).1 (hs c (by simp)).2
    obtain ⟨j', hr, hs'⟩ := run_spec hsim s j (O.deriv x c) (fun c' hc' => hs c' (List.mem_cons_of_mem _ hc')) hsj
    refine ⟨j', ?_, hs'⟩
    simp only [run, List.getD_eq_getElem?_getD, hT, Option.getD_some, hj]
    exact hr

/-! ### maximal munch -/

variable [Inhabited α]

/-- what one pass of `munch` computes, in terms of the derivative automaton -/
def MunchPost (O : Ops σ) (A : σ → Bool) (acc : σ → α) (x : σ) (inp : List Int) (k : Nat)
    (best best' : Option (α × Nat)) (k' : Nat) : Prop :=
  (inp = [] → k' = k) ∧ (inp ≠ [] → k < k') ∧
  ((∃ n, n ≤ inp.length ∧ A ((inp.take n).foldl O.deriv x) = true ∧
      best' = some (acc ((inp.take n).foldl O.deriv x), k + n) ∧
      ∀ m, n < m → m ≤ inp.length → A ((inp.take m).foldl O.deriv x) = false)
   ∨ ((∀ n, n ≤ inp.length → A ((inp.take n).foldl O.deriv x) = false) ∧ best' = best))

theorem munch_spec {O : Ops σ} {acc : σ → α} {root : σ} {d : DFA α} {S : List σ}
    (hsim : Simulates O acc root d S) (isAcc : α → Bool)
    (hdead : ∀ s : List Int, isAcc (acc (s.foldl O.deriv (O.null root))) = false) :
    ∀ (inp : List Int) (q : Nat) (x : σ) (k : Nat) (best : Option (α × Nat)),
      (∀ c ∈ inp, 0 ≤ c ∧ c ≤ 255) → S[q]? = some x →
      ∃ best' k', munch d isAcc q inp k best = .ok (best', k') ∧
        MunchPost O (fun y => isAcc (acc y)) acc x inp k best best' k'
  | [], q, x, k, best, _, hq => by
    have hacc : d.accepts.getD q default = acc x := by
      simp [hsim.accepts, List.getD_eq_getElem?_getD, List.getElem?_map, hq]
    unfold munch
    simp only [hacc]
    refine ⟨_, k, rfl, fun _ => rfl, fun h => absurd rfl h, ?_⟩
    by_cases ha : isAcc (acc x) = true
    · left
      refine ⟨0, Nat.le_refl _, by simpa using ha, by simp [ha], ?_⟩
      intro m h1 h2; simp at h2; omega
    · right
      refine ⟨?_, by simp [ha]⟩
      intro n hn
      simp only [List.length_nil, Nat.le_zero_eq] at hn
      subst hn
      simpa using ha
  | c :: inp, q, x, k, best, hs, hq => by
    have hacc : d.accepts.getD q default = acc x := by
      simp [hsim.accepts, List.getD_eq_getElem?_getD, List.getElem?_map, hq]
    obtain ⟨T, hT, hG⟩ := hsim.good q x hq
    obtain ⟨q', hpick, hq'⟩ := hG c (hs c (by simp)).1 (hs c (by simp)).2
    have hs' : ∀ c' ∈ inp, 0 ≤ c' ∧ c' ≤ 255 := fun c' hc' => hs c' (List.mem_cons_of_mem _ hc')
    have htake : ∀ m, ((c :: inp).take (m + 1)).foldl O.deriv x = (inp.take m).foldl O.deriv (O.deriv x c) := by
      intro m; simp
    unfold munch
    simp only [hacc, List.getD_eq_getElem?_getD, hT, Option.getD_some, hpick]
    by_cases herr : q' = d.error
    · -- the error state: nothing after this symbol can be accepted
      simp only [herr, if_true]
      have hnull : O.deriv x c = O.null root := by
        have := indexOf_spec hsim.nullIn
        rw [← hsim.error, ← herr, hq'] at this
        exact Option.some.inj this
      have hlater : ∀ m, 0 < m → m ≤ (c :: inp).length →
          isAcc (acc (((c :: inp).take m).foldl O.deriv x)) = false := by
        intro m h1 _
        obtain ⟨m', rfl⟩ : ∃ m', m = m' + 1 := ⟨m - 1, by omega⟩
        rw [htake, hnull]
        exact hdead _
      refine ⟨_, k + 1, rfl, fun h => by simp at h, fun _ => by omega, ?_⟩
      by_cases ha : isAcc (acc x) = true
      · left
        exact ⟨0, Nat.zero_le _, by simpa using ha, by simp [ha], fun m h1 h2 => hlater m h1 h2⟩
      · right
        refine ⟨?_, by simp [ha]⟩
        intro n hn
        cases n with
        | zero => simpa using ha
        | succ n => exact hlater _ (by omega) hn
    · simp only [herr, if_false]
      obtain ⟨best', k', hm, hp1, hp2, hp3⟩ := munch_spec hsim isAcc hdead inp q' (O.deriv x c) (k + 1)
        (if isAcc (acc x) = true then some (acc x, k) else best) hs' hq'
      refine ⟨best', k', hm, fun h => by simp at h, fun _ => ?_, ?_⟩
      · by_cases he : inp = []
        · have := hp1 he; omega
        · have := hp2 he; omega
      · rcases hp3 with ⟨n, hn, hA, hb, hlater⟩ | ⟨hnone, hb⟩
        · left
          refine ⟨n + 1, by simp only [List.length_cons]; omega, by rw [htake]; exact hA, ?_, ?_⟩
          · rw [htake, hb]; congr 2; omega
          · intro m h1 h2
            obtain ⟨m', rfl⟩ : ∃ m', m = m' + 1 := ⟨m - 1, by omega⟩
            rw [htake]
            exact hlater m' (by omega) (by simp only [List.length_cons] at h2; omega)
        · by_cases ha : isAcc (acc x) = true
          · left
            refine ⟨0, Nat.zero_le _, by simpa using ha, by simp [hb, ha], ?_⟩
            intro m h1 h2
            obtain ⟨m', rfl⟩ : ∃ m', m = m' + 1 := ⟨m - 1, by omega⟩
            rw [htake]
            exact hnone m' (by simp only [List.length_cons] at h2; omega)
          · right
            refine ⟨?_, by simp [hb, ha]⟩
            intro n hn
            cases n with
            | zero => simpa using ha
            | succ n =>
              rw [htake]
              exact hnone n (by simp only [List.length_cons] at hn; omega)

/-- `scanLoop` computes the maximal-munch tokenisation w.r.t. the language accepted from the root,
each token labelled with the accept value of the state reached by the token -/
theorem scanLoop_spec {O : Ops σ} {acc : σ → α} {root : σ} {d : DFA α} {S : List σ}
    (hsim : Simulates O acc root d S) (isAcc : α → Bool)
    (hdead : ∀ s : List Int, isAcc (acc (s.foldl O.deriv (O.null root))) = false) :
    ∀ (fuel : Nat) (rest : List Int), rest.length < fuel → (∀ c ∈ rest, 0 ≤ c ∧ c ≤ 255) →
      ∃ ok, (scanLoop d isAcc fuel rest).2 = (if ok then End.done else End.noMatch) ∧
        Munch (fun t => isAcc (acc (t.foldl O.deriv root)) = true) rest
          ((scanLoop d isAcc fuel rest).1.map (·.2)) ok ∧
        ∀ p ∈ (scanLoop d isAcc fuel rest).1, p.1 = acc (p.2.foldl O.deriv root) := by
  intro fuel
  induction fuel with
  | zero => intro rest h; omega
  | succ f ih =>
    intro rest hlen hs
    obtain ⟨best', k', hm, hp1, hp2, hp3⟩ := munch_spec hsim isAcc hdead rest 0 root 0 none hs hsim.root0
    unfold scanLoop
    simp only [hm]
    -- no accepted non-empty prefix
    have stuckOrDone : (∀ n, 0 < n → n ≤ rest.length → isAcc (acc ((rest.take n).foldl O.deriv root)) = false) →
        ∃ ok, (if k' > 0 then (([] : List (α × List Int)), End.noMatch) else ([], End.done)).2
            = (if ok then End.done else End.noMatch) ∧
          Munch (fun t => isAcc (acc (t.foldl O.deriv root)) = true) rest
            ((if k' > 0 then (([] : List (α × List Int)), End.noMatch) else ([], End.done)).1.map (·.2)) ok ∧
          ∀ p ∈ (if k' > 0 then (([] : List (α × List Int)), End.noMatch) else ([], End.done)).1,
            p.1 = acc (p.2.foldl O.deriv root) := by
      intro hnone
      by_cases he : rest = []
      · have := hp1 he
        subst he
        refine ⟨true, by simp [this], by simp [this]; exact Munch.done, by simp [this]⟩
      · have := hp2 he
        refine ⟨false, by simp [this], ?_, by simp [this]⟩
        simp only [this, if_true, List.map_nil]
        refine Munch.stuck he ?_
        intro t hne hpre ht
        have hlen' : t.length ≤ rest.length := hpre.length_le
        have : t = rest.take t.length := (List.prefix_iff_eq_take.1 hpre)
        rw [this] at ht
        have hpos : 0 < t.length := List.length_pos_iff.2 hne
        have := hnone t.length hpos hlen'
        simp [ht] at this
    rcases hp3 with ⟨n, hn, hA, hb, hlater⟩ | ⟨hnone, hb⟩
    · subst hb
      simp only [Nat.zero_add]
      by_cases hpos : n > 0
      · simp only [hpos, if_true]
        have hdl : (rest.drop n).length < f := by simp only [List.length_drop]; omega
        obtain ⟨ok, h1, h2, h3⟩ := ih (rest.drop n) hdl (fun c hc => hs c (List.mem_of_mem_drop hc))
        refine ⟨ok, h1, ?_, ?_⟩
        · simp only [List.map_cons]
          have hsplit : rest = rest.take n ++ rest.drop n := (List.take_append_drop n rest).symm
          have hlp : LongestPrefix (fun t => isAcc (acc (t.foldl O.deriv root)) = true)
              (rest.take n ++ rest.drop n) (rest.take n) := by
            rw [← hsplit]
            refine ⟨?_, List.take_prefix n rest, hA, ?_⟩
            · intro e
              have := congrArg List.length e
              simp only [List.length_take, List.length_nil] at this
              omega
            · intro t' hpre ht'
              have hl' : t'.length ≤ rest.length := hpre.length_le
              have e' : t' = rest.take t'.length := List.prefix_iff_eq_take.1 hpre
              simp only [List.length_take]
              rcases Nat.lt_or_ge n t'.length with hlt | hge
              · have := hlater t'.length hlt hl'
                rw [← e'] at this
                simp [ht'] at this
              · omega
          have := Munch.tok hlp h2
          rw [← hsplit] at this
          exact this
        · intro p hp
          rcases List.mem_cons.1 hp with rfl | hp
          · rfl
          · exact h3 p hp
      · have hn0 : n = 0 := by omega
        subst hn0
        simp only [Nat.lt_irrefl, if_false]
        exact stuckOrDone (fun m h1 h2 => hlater m h1 h2)
    · subst hb
      simp only
      exact stuckOrDone (fun m _ h2 => hnone m h2)

end generic

end Proofs.Regex
