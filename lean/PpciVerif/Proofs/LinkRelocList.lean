import PpciVerif.Proofs.LinkReloc
/-! List level: `do_relocations` over pairwise disjoint sites.  Every site of the output holds the `apply`
result computed from the INPUT bytes, symbol values and addresses; bytes outside all sites are the input bytes. -/
namespace Proofs.LinkReloc
open Model.LinkReloc Model.Reloc

/-- `secs'` has the same sections as `secs` (same names present, same addresses, same lengths) and the same
    bytes wherever `keep section index` holds -/
def Frame (keep : String → Nat → Prop) (secs secs' : List Sec) : Prop :=
  ∀ n, (getSec secs' n = none ↔ getSec secs n = none) ∧
    ∀ s, getSec secs n = some s → ∃ s', getSec secs' n = some s' ∧ s'.address = s.address
      ∧ s'.data.length = s.data.length ∧ ∀ i, keep n i → s'.data[i]? = s.data[i]?

theorem Frame.refl (keep : String → Nat → Prop) (secs : List Sec) : Frame keep secs secs :=
  fun _ => ⟨Iff.rfl, fun s hs => ⟨s, hs, rfl, rfl, fun _ _ => rfl⟩⟩

theorem Frame.trans {k1 k2 : String → Nat → Prop} {a b c : List Sec} (h1 : Frame k1 a b) (h2 : Frame k2 b c) :
    Frame (fun n i => k1 n i ∧ k2 n i) a c := by
  intro n
  refine ⟨(h2 n).1.trans (h1 n).1, fun s hs => ?_⟩
  obtain ⟨s1, hs1, a1, l1, b1⟩ := (h1 n).2 s hs
  obtain ⟨s2, hs2, a2, l2, b2⟩ := (h2 n).2 s1 hs1
  exact ⟨s2, hs2, a2.trans a1, l2.trans l1, fun i hi => (b2 i hi.2).trans (b1 i hi.1)⟩

theorem Frame.weaken {k1 k2 : String → Nat → Prop} {a b : List Sec} (h : Frame k1 a b)
    (hk : ∀ n i, k2 n i → k1 n i) : Frame k2 a b :=
  fun n => ⟨(h n).1, fun s hs => by
    obtain ⟨s', h1, h2, h3, h4⟩ := (h n).2 s hs
    exact ⟨s', h1, h2, h3, fun i hi => h4 i (hk n i hi)⟩⟩

theorem getSec_updSec_ne (secs : List Sec) (n m : String) (f : Sec → Sec) (hf : ∀ s, (f s).name = s.name)
    (hne : m ≠ n) : getSec (updSec secs n f) m = getSec secs m := by
  induction secs with
  | nil => rfl
  | cons s rest ih =>
    unfold getSec updSec at *
    simp only [List.map_cons, List.find?_cons]
    by_cases hs : (s.name == n) = true
    · have hsn : s.name = n := by simpa using hs
      have : ((f s).name == m) = false := by rw [hf, hsn]; simpa using fun h => hne h.symm
      have h2 : (s.name == m) = false := by rw [hsn]; simpa using fun h => hne h.symm
      simp only [hs, if_true, this, h2]
      exact ih
    · simp only [Bool.not_eq_true] at hs
      simp only [hs, Bool.false_eq_true, if_false]
      cases hm : (s.name == m) with
      | true => rfl
      | false => exact ih

/-- the output of a successful step, as an update of the input -/
theorem doRelocation_upd {isa : String} {secs secs' : List Sec} {syms : List Sym} {r : RelocEntry}
    (h : doRelocation isa secs syms r = .ok secs') :
    ∃ sec size out, getSec secs r.sect = some sec ∧ relocSize isa r.relocType = some size ∧ out.length = size
      ∧ (slice sec.data r.offset size).length = size
      ∧ secs' = updSec secs r.sect (fun s => { s with data := splice s.data r.offset out }) := by
  unfold doRelocation at h
  cases hS : symbolValue secs syms r.symbolId with
  | error e => rw [hS] at h; cases h
  | ok S =>
    rw [hS] at h
    cases hsec : getSec secs r.sect with
    | none => rw [hsec] at h; cases h
    | some sec =>
      rw [hsec] at h
      cases hsz : relocSize isa r.relocType with
      | none => rw [hsz] at h; cases h
      | some size =>
        rw [hsz] at h
        simp only at h
        split at h
        · cases h
        · rename_i hlen
          cases hap : Model.Reloc.apply isa r.relocType r.addend S (slice sec.data r.offset size) (sec.address + ↑r.offset) with
          | none => rw [hap] at h; cases h
          | some res =>
            rw [hap] at h
            cases res with
            | error e => cases h
            | ok out =>
              simp only at h
              split at h
              · cases h
              · rename_i hout
                cases h
                exact ⟨sec, size, out, rfl, rfl, by simpa using hout, by simpa using hlen, rfl⟩

/-- one step changes nothing but the bytes of its own site -/
theorem step_frame {isa : String} {secs secs' : List Sec} {syms : List Sym} {r : RelocEntry}
    (h : doRelocation isa secs syms r = .ok secs') : Frame (fun n i => ¬ inSite isa r n i) secs secs' := by
  obtain ⟨sec, size, out, hsec, hsz, hout, hlen, rfl⟩ := doRelocation_upd h
  have hfit : r.offset + out.length ≤ sec.data.length ∨ out.length = 0 := by
    rw [hout]; exact slice_full hlen
  intro n
  by_cases hn : n = r.sect
  · subst hn
    have hg := getSec_updSec secs r.sect (fun s => { s with data := splice s.data r.offset out }) (fun _ => rfl)
    rw [hg, hsec]
    refine ⟨by simp, fun s hs => ?_⟩
    cases hs
    refine ⟨_, rfl, rfl, ?_, fun i hi => ?_⟩
    · rcases hfit with hf | hf
      · exact splice_length hf
      · have : out = [] := List.eq_nil_of_length_eq_zero hf
        subst this
        unfold splice; simp
    · rcases hfit with hf | hf
      · apply splice_frame hf
        unfold inSite siteSize at hi
        rw [hsz] at hi
        simp only [Option.getD_some, true_and, not_and, Nat.not_lt] at hi
        rw [hout]
        by_cases hlt : i < r.offset
        · exact Or.inl hlt
        · exact Or.inr (hi (by omega))
      · have : out = [] := List.eq_nil_of_length_eq_zero hf
        subst this
        unfold splice; simp
  · have hg := getSec_updSec_ne secs r.sect n (fun s => { s with data := splice s.data r.offset out }) (fun _ => rfl) hn
    rw [hg]
    exact ⟨Iff.rfl, fun s hs => ⟨s, hs, rfl, rfl, fun _ _ => rfl⟩⟩

/-- symbol values only depend on section addresses -/
theorem symbolValue_frame {keep : String → Nat → Prop} {secs secs' : List Sec} (hf : Frame keep secs secs')
    (syms : List Sym) (id : Nat) : symbolValue secs' syms id = symbolValue secs syms id := by
  unfold symbolValue
  cases syms.find? (fun s => s.id == id) with
  | none => rfl
  | some s =>
    simp only
    split
    · rfl
    · cases hn : s.sect with
      | none => rfl
      | some n =>
        simp only
        cases hg : getSec secs n with
        | none => rw [(hf n).1.mpr hg]
        | some sec =>
          obtain ⟨s', h1, h2, _, _⟩ := (hf n).2 sec hg
          rw [h1]
          simp only [h2]

theorem slice_congr {x y : List Nat} {b n : Nat} (_hl : x.length = y.length)
    (h : ∀ i, b ≤ i → i < b + n → x[i]? = y[i]?) : slice x b n = slice y b n := by
  unfold slice
  apply List.ext_getElem?
  intro j
  simp only [List.getElem?_take, List.getElem?_drop]
  by_cases hj : j < n
  · simp only [hj, if_true]
    exact h (b + j) (by omega) (by omega)
  · simp [hj]

/-- all steps together change nothing but the bytes of their sites -/
theorem doRelocations_frame {isa : String} {syms : List Sym} {rs : List RelocEntry} {secs secs' : List Sec}
    (h : doRelocations isa syms secs rs = .ok secs') :
    Frame (fun n i => ∀ r ∈ rs, ¬ inSite isa r n i) secs secs' := by
  induction rs generalizing secs with
  | nil => simp only [doRelocations] at h; cases h; exact Frame.refl _ _
  | cons r rs ih =>
    unfold doRelocations at h
    cases h1 : doRelocation isa secs syms r with
    | error e => rw [h1] at h; cases h
    | ok secs1 =>
      rw [h1] at h
      exact (Frame.trans (step_frame h1) (ih h)).weaken
        (fun n i hk => ⟨hk r (by simp), fun r' hr' => hk r' (by simp [hr'])⟩)

theorem sitesApart_not_inSite {isa : String} {a b : RelocEntry} (h : sitesApart isa a b = true) {n : String} {i : Nat}
    (hb : inSite isa b n i) : ¬ inSite isa a n i := by
  unfold sitesApart at h
  unfold inSite at *
  simp only [Bool.or_eq_true, bne_iff_ne, ne_eq, decide_eq_true_eq] at h
  rintro ⟨ha1, ha2, ha3⟩
  obtain ⟨hb1, hb2, hb3⟩ := hb
  rcases h with (h | h) | h
  · exact h (ha1.symm.trans hb1)
  · omega
  · omega

theorem sitesApart_symm {isa : String} {a b : RelocEntry} (h : sitesApart isa a b = true) : sitesApart isa b a = true := by
  unfold sitesApart at *
  simp only [Bool.or_eq_true, bne_iff_ne, ne_eq, decide_eq_true_eq] at *
  rcases h with (h | h) | h
  · exact Or.inl (Or.inl (fun e => h e.symm))
  · exact Or.inr h
  · exact Or.inl (Or.inr h)

/-- THE LIST-LEVEL THEOREM.  If `do_relocations` succeeds on pairwise disjoint sites then, for EVERY relocation `r`
    of the list, the site bytes of the output are `apply S (input site bytes) P`, where `S` is the symbol value
    and `P` the site address computed in the INPUT object (they do not change during relocation). -/
theorem doRelocations_sites {isa : String} {syms : List Sym} {rs : List RelocEntry} {secs secs' : List Sec}
    (h : doRelocations isa syms secs rs = .ok secs') (hd : sitesDisjoint isa rs = true) :
    ∀ r ∈ rs, ∃ S sec size out,
      symbolValue secs syms r.symbolId = .ok S ∧ getSec secs r.sect = some sec
      ∧ relocSize isa r.relocType = some size ∧ (slice sec.data r.offset size).length = size
      ∧ Model.Reloc.apply isa r.relocType r.addend S (slice sec.data r.offset size) (sec.address + r.offset) = some (.ok out)
      ∧ ∃ sec', getSec secs' r.sect = some sec' ∧ sec'.address = sec.address ∧ slice sec'.data r.offset size = out := by
  induction rs generalizing secs with
  | nil => intro r hr; cases hr
  | cons r0 rs ih =>
    unfold doRelocations at h
    cases h1 : doRelocation isa secs syms r0 with
    | error e => rw [h1] at h; cases h
    | ok secs1 =>
      rw [h1] at h
      simp only [sitesDisjoint, Bool.and_eq_true, List.all_eq_true] at hd
      obtain ⟨hd0, hdr⟩ := hd
      have hstep := step_frame h1
      have hrest := doRelocations_frame h
      intro r hr
      rcases List.mem_cons.mp hr with rfl | hr
      · -- the head: its own step writes the site, the later steps leave it alone
        obtain ⟨S, sec, size, out, e1, e2, e3, e4, e5, e6, e7, e8⟩ := doRelocation_spec h1
        have hfit : r.offset + size ≤ sec.data.length ∨ size = 0 := slice_full e6
        obtain ⟨s2, g1, g2, g3, g4⟩ := (hrest r.sect).2 _ e7
        refine ⟨S, sec, size, out, e1, e2, e3, e6, e4, s2, g1, g2, ?_⟩
        have hsl : slice (splice sec.data r.offset out) r.offset size = out := by
          rcases hfit with hf | hf
          · exact e8 hf
          · subst hf
            have : out = [] := List.eq_nil_of_length_eq_zero e5
            subst this; simp [slice]
        rw [← hsl]
        apply slice_congr g3
        intro i hi1 hi2
        apply g4 i
        intro r' hr'
        exact sitesApart_not_inSite (sitesApart_symm (hd0 r' hr'))
          (by unfold inSite siteSize; rw [e3]; exact ⟨rfl, hi1, by simpa using hi2⟩)
      · -- a later relocation: by induction on the state after the first step, transported back along the frame
        obtain ⟨S, sec1, size, out, e1, e2, e3, e4, e5, s2, g1, g2, g3⟩ := ih h hdr r hr
        rw [symbolValue_frame hstep] at e1
        -- the section before the first step
        cases hsec0 : getSec secs r.sect with
        | none => rw [(hstep r.sect).1.mpr hsec0] at e2; cases e2
        | some sec0 =>
          obtain ⟨s1', f1, f2, f3, f4⟩ := (hstep r.sect).2 sec0 hsec0
          rw [e2] at f1; cases f1
          have hsl : slice sec1.data r.offset size = slice sec0.data r.offset size := by
            apply slice_congr f3
            intro i hi1 hi2
            apply f4 i
            exact sitesApart_not_inSite (hd0 r hr)
              (by unfold inSite siteSize; rw [e3]; exact ⟨rfl, hi1, by simpa using hi2⟩)
          rw [hsl, f2] at e5
          rw [hsl] at e4
          exact ⟨S, sec0, size, out, e1, rfl, e3, e4, e5, s2, g1, g2.trans f2, g3⟩

end Proofs.LinkReloc
