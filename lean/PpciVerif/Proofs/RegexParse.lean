import PpciVerif.Model.RegexParse
/-! Helper lemmas for C31, part 5: the recursive-descent parser reads back every rendered syntax tree. -/
namespace Proofs.RegexParse
open Model.Regex Model.RegexParse Spec.Lang

/-- the text starts with a character that begins an element -/
def StartOK (inp : List Int) : Prop :=
  ∃ c r, inp = c :: r ∧ c ≠ 124 ∧ c ≠ 41 ∧ c ≠ 42 ∧ c ≠ 43 ∧ c ≠ 63
/-- the text does not start with a postfix operator -/
def NoMod (inp : List Int) : Prop := ∀ c r, inp = c :: r → c ≠ 42 ∧ c ≠ 43 ∧ c ≠ 63
/-- the text is empty or starts with `|` or `)` -/
def SeqEnd (inp : List Int) : Prop := inp = [] ∨ ∃ r, inp = 124 :: r ∨ inp = 41 :: r

theorem NoMod.of_start {inp : List Int} (h : StartOK inp) : NoMod inp := by
  obtain ⟨c, r, rfl, _, _, h1, h2, h3⟩ := h
  intro c' r' e
  simp only [List.cons.injEq] at e
  obtain ⟨rfl, _⟩ := e
  exact ⟨h1, h2, h3⟩

theorem NoMod.of_seqEnd {inp : List Int} (h : SeqEnd inp) : NoMod inp := by
  intro c r e
  rcases h with rfl | ⟨r', rfl | rfl⟩
  · cases e
  · simp only [List.cons.injEq] at e; obtain ⟨rfl, _⟩ := e; omega
  · simp only [List.cons.injEq] at e; obtain ⟨rfl, _⟩ := e; omega

/-! ### equations of the mutually recursive functions -/

theorem parseOr_succ (f : Nat) (inp : List Int) : parseOr (f + 1) inp =
    (match parseConcat f inp with
     | .error e => .error e
     | .ok (e, r) => orLoop f e r) := by rw [parseOr]; rfl

theorem orLoop_succ (f : Nat) (acc : Re) (inp : List Int) : orLoop (f + 1) acc inp =
    (if peek 124 inp then
      (match parseConcat f (inp.drop 1) with
       | .error e => .error e
       | .ok (e, r') => orLoop f (logicalOr acc e) r')
    else .ok (acc, inp)) := by rw [orLoop]; rfl

theorem parseConcat_succ (f : Nat) (inp : List Int) : parseConcat (f + 1) inp =
    (match parseElement f inp with
     | .error e => .error e
     | .ok (e, r) => concatLoop f e r) := by rw [parseConcat]; rfl

theorem concatLoop_succ (f : Nat) (acc : Re) (inp : List Int) : concatLoop (f + 1) acc inp =
    (if inp.isEmpty || peek 124 inp || peek 41 inp then .ok (acc, inp)
    else
      match parseElement f inp with
      | .error e => .error e
      | .ok (e, r) => concatLoop f (concatenate acc e) r) := by rw [concatLoop]; rfl

theorem parseElement_succ (f : Nat) (inp : List Int) : parseElement (f + 1) inp =
    (if peek 40 inp then
      (match parseOr f (inp.drop 1) with
       | .error e => .error e
       | .ok (e, r1) =>
         match eatC 41 r1 with
         | .error e => .error e
         | .ok r2 => .ok (modifier e r2))
    else if peek 91 inp then
      (match parseSet f inp with
       | .error e => .error e
       | .ok (e, r1) => .ok (modifier e r1))
    else if peek 46 inp then .ok (modifier SIGMA (inp.drop 1))
    else
      (match eatAny inp with
       | .error e => .error e
       | .ok (c, r) => .ok (modifier (symbol c) r))) := by rw [parseElement]; rfl

theorem concatLoop_end (f : Nat) (acc : Re) (rest : List Int) (h : SeqEnd rest) :
    concatLoop (f + 1) acc rest = .ok (acc, rest) := by
  rw [concatLoop_succ]
  rcases h with rfl | ⟨r, rfl | rfl⟩ <;> simp [peek]

theorem orLoop_end (f : Nat) (acc : Re) (rest : List Int) (h : ∀ r, rest ≠ 124 :: r) :
    orLoop (f + 1) acc rest = .ok (acc, rest) := by
  rw [orLoop_succ]
  cases rest with
  | nil => simp [peek]
  | cons c r =>
    have : c ≠ 124 := fun e => h r (by rw [e])
    simp [peek, this]

/-! ### characters -/

theorem mem_meta (c : Int) : c ∈ metaChars ↔
    c = 40 ∨ c = 41 ∨ c = 91 ∨ c = 93 ∨ c = 46 ∨ c = 42 ∨ c = 43 ∨ c = 63 ∨ c = 124 ∨ c = 92 := by
  simp [metaChars]

theorem mem_clsMeta (c : Int) : c ∈ clsMeta ↔ c = 93 ∨ c = 45 ∨ c = 92 ∨ c = 94 := by
  simp [clsMeta]

theorem ppChr_length_pos (c : Int) : 1 ≤ (ppChr c).length := by
  unfold ppChr; split <;> simp

theorem startOK_ppChr (c : Int) (rest : List Int) : StartOK (ppChr c ++ rest) := by
  unfold ppChr
  split
  · exact ⟨92, c :: rest, rfl, by omega, by omega, by omega, by omega, by omega⟩
  · next h =>
    rw [mem_meta] at h
    exact ⟨c, rest, rfl, by omega, by omega, by omega, by omega, by omega⟩

/-- parsing a rendered literal -/
theorem parseElement_chr (c : Int) (rest : List Int) (f : Nat) :
    parseElement (f + 1) (ppChr c ++ rest) = .ok (modifier (symbol c) rest) := by
  rw [parseElement_succ]
  unfold ppChr
  split
  · simp [peek, eatAny]
  · next h =>
    rw [mem_meta] at h
    have h40 : c ≠ 40 := by omega
    have h91 : c ≠ 91 := by omega
    have h46 : c ≠ 46 := by omega
    have h92 : c ≠ 92 := by omega
    simp [peek, eatAny, h40, h91, h46, h92]

/-! ### character classes -/

theorem ppItemChr_spec (c : Int) (more : List Int) :
    eatAny (ppItemChr c ++ more) = .ok (c, more) ∧ peek 93 (ppItemChr c ++ more) = false ∧
    peek 94 (ppItemChr c ++ more) = false ∧ peek 45 (ppItemChr c ++ more) = false := by
  unfold ppItemChr
  split
  · simp [peek, eatAny]
  · next h =>
    rw [mem_clsMeta] at h
    have h1 : c ≠ 93 := by omega
    have h2 : c ≠ 45 := by omega
    have h3 : c ≠ 92 := by omega
    have h4 : c ≠ 94 := by omega
    simp [peek, eatAny, h1, h2, h3, h4]

theorem ppItemChr_length_pos (c : Int) : 1 ≤ (ppItemChr c).length := by
  unfold ppItemChr; split <;> simp

theorem ppItem_length_pos (r : Int × Int) : 1 ≤ (ppItem r).length := by
  unfold ppItem
  split
  · exact ppItemChr_length_pos _
  · have := ppItemChr_length_pos r.1
    simp only [List.length_append]; omega

theorem flatMap_ppItem_length (items : List (Int × Int)) : items.length ≤ (items.flatMap ppItem).length := by
  induction items with
  | nil => simp
  | cons r t ih =>
    have := ppItem_length_pos r
    simp only [List.flatMap_cons, List.length_append, List.length_cons]; omega

theorem ppItem_single (a : Int) : ppItem (a, a) = ppItemChr a := by simp [ppItem]
theorem ppItem_range {a b : Int} (h : a ≠ b) : ppItem (a, b) = ppItemChr a ++ 45 :: ppItemChr b := by
  simp [ppItem, h]

/-- the text after an item does not start with `-` -/
theorem peek45_items (items : List (Int × Int)) (rest : List Int) :
    peek 45 (items.flatMap ppItem ++ 93 :: rest) = false := by
  cases items with
  | nil => simp [peek]
  | cons r t =>
    obtain ⟨a, b⟩ := r
    simp only [List.flatMap_cons, List.append_assoc]
    by_cases e : a = b
    · subst e; rw [ppItem_single]; exact (ppItemChr_spec _ _).2.2.2
    · rw [ppItem_range e]; simp only [List.append_assoc]; exact (ppItemChr_spec _ _).2.2.2

theorem setLoop_step_single (f : Nat) (a : Int) (more : List Int) (acc : List (Int × Int))
    (h45 : peek 45 more = false) :
    setLoop (f + 1) (ppItemChr a ++ more) acc = setLoop f more (acc ++ [(a, a)]) := by
  have hs := ppItemChr_spec a more
  rw [setLoop]
  simp only [hs.2.1, Bool.false_eq_true, if_false, hs.1, h45]

theorem setLoop_step_range (f : Nat) (a b : Int) (more : List Int) (acc : List (Int × Int)) (hlt : a < b) :
    setLoop (f + 1) (ppItemChr a ++ 45 :: (ppItemChr b ++ more)) acc = setLoop f more (acc ++ [(a, b)]) := by
  have hs := ppItemChr_spec a (45 :: (ppItemChr b ++ more))
  have hb := ppItemChr_spec b more
  have h45 : peek 45 (45 :: (ppItemChr b ++ more)) = true := by simp [peek]
  rw [setLoop]
  simp only [hs.2.1, Bool.false_eq_true, if_false, hs.1, h45, if_true, List.drop_succ_cons, List.drop_zero,
    hb.1, hlt]

theorem setLoop_items : ∀ (items : List (Int × Int)) (acc : List (Int × Int)) (rest : List Int) (f : Nat),
    (∀ r ∈ items, r.1 ≤ r.2) → items.length < f →
    setLoop f (items.flatMap ppItem ++ 93 :: rest) acc = .ok (acc ++ items, 93 :: rest)
  | [], acc, rest, f, _, hf => by
    obtain ⟨f', rfl⟩ : ∃ f', f = f' + 1 := ⟨f - 1, by omega⟩
    simp [setLoop, peek]
  | (a, b) :: items, acc, rest, f, hv, hf => by
    obtain ⟨f', rfl⟩ : ∃ f', f = f' + 1 := ⟨f - 1, by simp at hf; omega⟩
    have hab : a ≤ b := hv (a, b) (by simp)
    have ih := fun acc' => setLoop_items items acc' rest f' (fun r hr => hv r (List.mem_cons_of_mem _ hr))
      (by simp at hf; omega)
    have h45 := peek45_items items rest
    simp only [List.flatMap_cons, List.append_assoc]
    by_cases e : a = b
    · subst e
      rw [ppItem_single, setLoop_step_single _ _ _ _ h45, ih]; simp
    · rw [ppItem_range e]
      simp only [List.append_assoc, List.cons_append]
      rw [setLoop_step_range _ _ _ _ _ (by omega), ih]; simp

theorem parseSet_items (items : List (Int × Int)) (rest : List Int) (f : Nat)
    (hne : items ≠ []) (hv : ∀ r ∈ items, r.1 ≤ r.2) (hf : items.length < f) :
    parseSet f (91 :: (items.flatMap ppItem ++ 93 :: rest)) = .ok (symbolSet items, rest) := by
  have h94 : peek 94 (items.flatMap ppItem ++ 93 :: rest) = false := by
    cases items with
    | nil => exact absurd rfl hne
    | cons r t =>
      obtain ⟨a, b⟩ := r
      simp only [List.flatMap_cons, List.append_assoc]
      by_cases e : a = b
      · subst e; rw [ppItem_single]; exact (ppItemChr_spec _ _).2.2.1
      · rw [ppItem_range e]; simp only [List.append_assoc]; exact (ppItemChr_spec _ _).2.2.1
  have he : items.isEmpty = false := by cases items <;> simp_all
  simp [parseSet, eatC, h94, setLoop_items items [] rest f hv hf, he]

/-! ### the four levels of the grammar -/

/-- atom level: the text of `t` at precedence 3 followed by anything -/
def PA (t : Syn) : Prop := ∀ (rest : List Int) (F : Nat), 3 * (pp 3 t).length ≤ F →
  parseElement F (pp 3 t ++ rest) = .ok (modifier (meaning t) rest)
/-- element level -/
def PE (t : Syn) : Prop := ∀ (rest : List Int) (F : Nat), NoMod rest → 3 * (pp 2 t).length ≤ F →
  parseElement F (pp 2 t ++ rest) = .ok (meaning t, rest)
/-- concatenation level: after the text of `t` the loop continues with at most `|text|` less fuel -/
def PS (t : Syn) : Prop := ∀ (rest : List Int) (F : Nat), NoMod rest → 3 * (pp 1 t).length + 1 ≤ F →
  ∃ F', F ≤ F' + (pp 1 t).length ∧ parseConcat F (pp 1 t ++ rest) = concatLoop F' (meaning t) rest
/-- alternation level -/
def PO (t : Syn) : Prop := ∀ (rest : List Int) (F : Nat), SeqEnd rest → 3 * (pp 0 t).length + 2 ≤ F →
  ∃ F', F ≤ F' + (pp 0 t).length ∧ parseOr F (pp 0 t ++ rest) = orLoop F' (meaning t) rest

theorem modifier_noMod (e : Re) (rest : List Int) (h : NoMod rest) : modifier e rest = (e, rest) := by
  cases rest with
  | nil => rfl
  | cons c r =>
    obtain ⟨h1, h2, h3⟩ := h c r rfl
    simp [modifier, h1, h2, h3]

theorem paren_true (s : List Int) : paren true s = 40 :: (s ++ [41]) := by simp [paren]
theorem paren_false (s : List Int) : paren false s = s := by simp [paren]

theorem startOK_pp : ∀ (t : Syn) (k : Nat) (rest : List Int), StartOK (pp k t ++ rest)
  | .chr c, k, rest => by simp only [pp]; exact startOK_ppChr c rest
  | .dot, k, rest => ⟨46, rest, by simp [pp], by omega, by omega, by omega, by omega, by omega⟩
  | .cls items, k, rest => ⟨91, _, by simp only [pp, List.singleton_append, List.cons_append]; rfl,
      by omega, by omega, by omega, by omega, by omega⟩
  | .star e, k, rest => by
    simp only [pp]
    by_cases h : k > 2
    · exact ⟨40, _, by simp only [h, decide_true, paren_true, List.cons_append]; rfl,
        by omega, by omega, by omega, by omega, by omega⟩
    · simp only [h, decide_false, paren_false, List.append_assoc]; exact startOK_pp e 3 _
  | .plus e, k, rest => by
    simp only [pp]
    by_cases h : k > 2
    · exact ⟨40, _, by simp only [h, decide_true, paren_true, List.cons_append]; rfl,
        by omega, by omega, by omega, by omega, by omega⟩
    · simp only [h, decide_false, paren_false, List.append_assoc]; exact startOK_pp e 3 _
  | .opt e, k, rest => by
    simp only [pp]
    by_cases h : k > 2
    · exact ⟨40, _, by simp only [h, decide_true, paren_true, List.cons_append]; rfl,
        by omega, by omega, by omega, by omega, by omega⟩
    · simp only [h, decide_false, paren_false, List.append_assoc]; exact startOK_pp e 3 _
  | .cat l r, k, rest => by
    simp only [pp]
    by_cases h : k > 1
    · exact ⟨40, _, by simp only [h, decide_true, paren_true, List.cons_append]; rfl,
        by omega, by omega, by omega, by omega, by omega⟩
    · simp only [h, decide_false, paren_false, List.append_assoc]; exact startOK_pp l 1 _
  | .alt l r, k, rest => by
    simp only [pp]
    by_cases h : k > 0
    · exact ⟨40, _, by simp only [h, decide_true, paren_true, List.cons_append]; rfl,
        by omega, by omega, by omega, by omega, by omega⟩
    · simp only [h, decide_false, paren_false, List.append_assoc]; exact startOK_pp l 0 _

theorem pp_length_pos (t : Syn) (k : Nat) : 1 ≤ (pp k t).length := by
  obtain ⟨c, r, e, _⟩ := startOK_pp t k []
  rw [List.append_nil] at e
  rw [e]; simp

theorem PE_of_PA (t : Syn) (h23 : pp 2 t = pp 3 t) (ha : PA t) : PE t := by
  intro rest F hn hF
  rw [h23] at hF ⊢
  rw [ha rest F hF, modifier_noMod _ _ hn]

theorem PS_of_PE (t : Syn) (h12 : pp 1 t = pp 2 t) (he : PE t) : PS t := by
  intro rest F hn hF
  have hpos := pp_length_pos t 2
  rw [h12] at hF ⊢
  obtain ⟨G, rfl⟩ : ∃ G, F = G + 1 := ⟨F - 1, by omega⟩
  refine ⟨G, by omega, ?_⟩
  rw [parseConcat_succ, he rest G hn (by omega)]

theorem PO_of_PS (t : Syn) (h01 : pp 0 t = pp 1 t) (hs : PS t) : PO t := by
  intro rest F hse hF
  have hpos := pp_length_pos t 1
  rw [h01] at hF ⊢
  obtain ⟨G, rfl⟩ : ∃ G, F = G + 1 := ⟨F - 1, by omega⟩
  obtain ⟨G', hG', hpc⟩ := hs rest G (NoMod.of_seqEnd hse) (by omega)
  obtain ⟨G'', rfl⟩ : ∃ G'', G' = G'' + 1 := ⟨G' - 1, by omega⟩
  refine ⟨G, by omega, ?_⟩
  rw [parseOr_succ, hpc, concatLoop_end _ _ _ hse]

theorem PA_of_PO (t : Syn) (h3 : pp 3 t = 40 :: (pp 0 t ++ [41])) (ho : PO t) : PA t := by
  intro rest F hF
  rw [h3] at hF ⊢
  simp only [List.length_cons, List.length_append, List.length_nil] at hF
  obtain ⟨G, rfl⟩ : ∃ G, F = G + 1 := ⟨F - 1, by omega⟩
  obtain ⟨G', hG', hpo⟩ := ho (41 :: rest) G (.inr ⟨rest, .inr rfl⟩) (by omega)
  obtain ⟨G'', rfl⟩ : ∃ G'', G' = G'' + 1 := ⟨G' - 1, by omega⟩
  rw [parseElement_succ]
  have hpeek : peek 40 (40 :: (pp 0 t ++ [41]) ++ rest) = true := by simp [peek]
  have hdrop : (40 :: (pp 0 t ++ [41]) ++ rest).drop 1 = pp 0 t ++ 41 :: rest := by simp
  rw [hpeek, hdrop, if_pos rfl, hpo, orLoop_end _ _ _ (by intro r e; simp at e)]
  simp [eatC]

/-- a postfix operator applied to an atom-level text -/
theorem PE_postfix (t e : Syn) (op : Int) (_hop : op = 42 ∨ op = 43 ∨ op = 63)
    (h2 : pp 2 t = pp 3 e ++ [op]) (hm : ∀ rest, modifier (meaning e) (op :: rest) = (meaning t, rest))
    (ha : PA e) : PE t := by
  intro rest F _ hF
  rw [h2] at hF ⊢
  simp only [List.length_append, List.length_singleton] at hF
  rw [List.append_assoc, ha _ F (by omega)]
  simp only [List.singleton_append, hm]

theorem PS_cat (l r : Syn) (hl : PS l) (hr : PE r) : PS (.cat l r) := by
  intro rest F hn hF
  have e1 : pp 1 (.cat l r) = pp 1 l ++ pp 2 r := by simp [pp, paren]
  rw [e1] at hF ⊢
  simp only [List.length_append] at hF ⊢
  have hposr := pp_length_pos r 2
  have hstart := startOK_pp r 2 rest
  obtain ⟨F1, hF1, h1⟩ := hl (pp 2 r ++ rest) F (NoMod.of_start hstart) (by omega)
  obtain ⟨F2, rfl⟩ : ∃ F2, F1 = F2 + 1 := ⟨F1 - 1, by omega⟩
  refine ⟨F2, by omega, ?_⟩
  rw [List.append_assoc, h1, concatLoop_succ]
  obtain ⟨c, r', e, c1, c2, _⟩ := hstart
  have hcond : ((pp 2 r ++ rest).isEmpty || peek 124 (pp 2 r ++ rest) || peek 41 (pp 2 r ++ rest)) = false := by
    rw [e]; simp [peek, c1, c2]
  rw [hcond]
  simp only [Bool.false_eq_true, if_false]
  rw [hr rest F2 hn (by omega)]
  rfl

theorem PO_alt (l r : Syn) (hl : PO l) (hr : PS r) : PO (.alt l r) := by
  intro rest F hse hF
  have e0 : pp 0 (.alt l r) = pp 0 l ++ 124 :: pp 1 r := by simp [pp, paren]
  rw [e0] at hF ⊢
  simp only [List.length_append, List.length_cons] at hF ⊢
  obtain ⟨F1, hF1, h1⟩ := hl (124 :: pp 1 r ++ rest) F (.inr ⟨_, .inl rfl⟩) (by omega)
  obtain ⟨F2, rfl⟩ : ∃ F2, F1 = F2 + 1 := ⟨F1 - 1, by omega⟩
  obtain ⟨F3, hF3, h3⟩ := hr rest F2 (NoMod.of_seqEnd hse) (by omega)
  obtain ⟨F4, rfl⟩ : ∃ F4, F3 = F4 + 1 := ⟨F3 - 1, by omega⟩
  refine ⟨F2, by omega, ?_⟩
  have happ : pp 0 l ++ 124 :: pp 1 r ++ rest = pp 0 l ++ (124 :: pp 1 r ++ rest) := by simp
  rw [happ, h1, orLoop_succ]
  have hpeek : peek 124 (124 :: pp 1 r ++ rest) = true := by simp [peek]
  have hdrop : (124 :: pp 1 r ++ rest).drop 1 = pp 1 r ++ rest := by simp
  rw [hpeek, hdrop, if_pos rfl, h3, concatLoop_end _ _ _ hse]
  rfl

/-- the parser reads every rendered tree back, at all four levels -/
theorem all_levels : ∀ (t : Syn), t.WF → PA t ∧ PE t ∧ PS t ∧ PO t
  | .chr c, _ => by
    have ha : PA (.chr c) := by
      intro rest F hF
      have := ppChr_length_pos c
      simp only [pp] at hF ⊢
      obtain ⟨G, rfl⟩ : ∃ G, F = G + 1 := ⟨F - 1, by omega⟩
      exact parseElement_chr c rest G
    have he := PE_of_PA _ rfl ha
    have hs := PS_of_PE _ rfl he
    exact ⟨ha, he, hs, PO_of_PS _ rfl hs⟩
  | .dot, _ => by
    have ha : PA .dot := by
      intro rest F hF
      simp only [pp, List.length_singleton] at hF ⊢
      obtain ⟨G, rfl⟩ : ∃ G, F = G + 1 := ⟨F - 1, by omega⟩
      rw [parseElement_succ]
      simp [peek, meaning]
    have he := PE_of_PA _ rfl ha
    have hs := PS_of_PE _ rfl he
    exact ⟨ha, he, hs, PO_of_PS _ rfl hs⟩
  | .cls items, hwf => by
    have ha : PA (.cls items) := by
      intro rest F hF
      have hl := flatMap_ppItem_length items
      simp only [pp, List.length_append, List.length_singleton] at hF
      obtain ⟨G, rfl⟩ : ∃ G, F = G + 1 := ⟨F - 1, by omega⟩
      rw [parseElement_succ]
      have e : pp 3 (.cls items) ++ rest = 91 :: (items.flatMap ppItem ++ 93 :: rest) := by simp [pp]
      rw [e]
      have h40 : peek 40 (91 :: (items.flatMap ppItem ++ 93 :: rest)) = false := by simp [peek]
      have h91 : peek 91 (91 :: (items.flatMap ppItem ++ 93 :: rest)) = true := by simp [peek]
      rw [h40, h91, parseSet_items items rest G hwf.1 hwf.2 (by omega)]
      simp [meaning]
    have he := PE_of_PA _ rfl ha
    have hs := PS_of_PE _ rfl he
    exact ⟨ha, he, hs, PO_of_PS _ rfl hs⟩
  | .star e, hwf => by
    have ih := all_levels e hwf
    have he : PE (.star e) := PE_postfix _ e 42 (.inl rfl) (by simp [pp, paren])
      (fun rest => by simp [modifier, meaning]) ih.1
    have hs := PS_of_PE _ (by simp [pp, paren]) he
    have ho := PO_of_PS _ (by simp [pp, paren]) hs
    exact ⟨PA_of_PO _ (by simp [pp, paren]) ho, he, hs, ho⟩
  | .plus e, hwf => by
    have ih := all_levels e hwf
    have he : PE (.plus e) := PE_postfix _ e 43 (.inr (.inl rfl)) (by simp [pp, paren])
      (fun rest => by simp [modifier, meaning]) ih.1
    have hs := PS_of_PE _ (by simp [pp, paren]) he
    have ho := PO_of_PS _ (by simp [pp, paren]) hs
    exact ⟨PA_of_PO _ (by simp [pp, paren]) ho, he, hs, ho⟩
  | .opt e, hwf => by
    have ih := all_levels e hwf
    have he : PE (.opt e) := PE_postfix _ e 63 (.inr (.inr rfl)) (by simp [pp, paren])
      (fun rest => by simp [modifier, meaning]) ih.1
    have hs := PS_of_PE _ (by simp [pp, paren]) he
    have ho := PO_of_PS _ (by simp [pp, paren]) hs
    exact ⟨PA_of_PO _ (by simp [pp, paren]) ho, he, hs, ho⟩
  | .cat l r, hwf => by
    have ihl := all_levels l hwf.1
    have ihr := all_levels r hwf.2
    have hs := PS_cat l r ihl.2.2.1 ihr.2.1
    have ho := PO_of_PS _ (by simp [pp, paren]) hs
    have ha := PA_of_PO _ (by simp [pp, paren]) ho
    exact ⟨ha, PE_of_PA _ (by simp [pp, paren]) ha, hs, ho⟩
  | .alt l r, hwf => by
    have ihl := all_levels l hwf.1
    have ihr := all_levels r hwf.2
    have ho := PO_alt l r ihl.2.2.2 ihr.2.2.1
    have ha := PA_of_PO _ (by simp [pp, paren]) ho
    have he := PE_of_PA _ (by simp [pp, paren]) ha
    exact ⟨ha, he, PS_of_PE _ (by simp [pp, paren]) he, ho⟩

/-- `parse (pretty t) = meaning t` -/
theorem parse_pretty (t : Syn) (hwf : t.WF) : parse (pretty t) = .ok (meaning t) := by
  have ho := (all_levels t hwf).2.2.2
  obtain ⟨F', hF', hp⟩ := ho [] (parseFuel (pretty t)) (.inl rfl) (by simp [parseFuel, pretty])
  have hpos := pp_length_pos t 0
  obtain ⟨F'', rfl⟩ : ∃ F'', F' = F'' + 1 := ⟨F' - 1, by simp [parseFuel, pretty] at hF'; omega⟩
  rw [List.append_nil] at hp
  unfold parse
  have hne : pretty t ≠ [] := by
    intro e; rw [pretty] at e; rw [e] at hpos; simp at hpos
  split
  · next e => exact absurd e hne
  · have hp' : parseOr (parseFuel (pretty t)) (pretty t) = .ok (meaning t, []) := by
      have hp2 : parseOr (parseFuel (pretty t)) (pretty t) = orLoop (F'' + 1) (meaning t) [] := hp
      rw [hp2, orLoop_end _ _ _ (by intro r e; cases e)]
    simp only [hp']
    simp [parseFuel, topLoop]

end Proofs.RegexParse
