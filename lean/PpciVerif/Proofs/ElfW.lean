import PpciVerif.Spec.Elf
import PpciVerif.Model.ElfW
/-!
Helper definitions and lemmas for C17 (`Props/C17.lean`): core Lean only.

* numbers: `toLE`/`leVal`, `encode` / `uval` round trip
* records: `serialize` / `readRec`, `serializeAll` / `readTable`
* string table: `getString` keeps every earlier name readable
* file layout: every writer step only appends to the file (`Ext`), so a chunk
  once written stays where it is (`InBody`)
* `write_images`: program headers versus images (`SegOK`)
* inversion of `exportObject`
-/
namespace Proofs.ElfW
open Spec.Elf Model.ElfW

/-! ### gABI layouts as model parameter -/

/-- the `struct` byte-order prefix that announces byte order `e` -/
def orderOf : End → Order
  | .le => .lt
  | .be => .gt

/-- a gABI field as a ppci header field in byte order `e` -/
def toP (e : End) (f : Field) : PField := ⟨f.name, orderOf e, f.fmt⟩

/-- the gABI layouts of `Spec.Elf` as the `_fields` tables the model is parametrised with -/
def gabiLayouts (c : Cls) (e : End) : Layouts :=
  { ehdr := (ehdr c).map (toP e), phdr := (phdr c).map (toP e), shdr := (shdr c).map (toP e),
    sym := (sym c).map (toP e), rela := (rela c).map (toP e), dyn := (dyn c).map (toP e) }

/-- the byte order a `struct` prefix selects on the (little-endian) host -/
def endOf : Order → End
  | .gt => .be
  | _ => .le

theorem endOf_orderOf (e : End) : endOf (orderOf e) = e := by cases e <;> rfl

theorem hsize_map (e : End) (fs : List Field) : hsize (fs.map (toP e)) = recSize fs := by
  induction fs with
  | nil => rfl
  | cons f fs ih => simp [hsize, recSize, toP, ih]

/-! ### numbers -/

theorem toLE_length (n v : Nat) : (toLE n v).length = n := by
  induction n generalizing v with
  | zero => rfl
  | succ n ih => simp [toLE, ih]

theorem leVal_toLE (n v : Nat) : leVal (toLE n v) = v % 256 ^ n := by
  induction n generalizing v with
  | zero => simp [toLE, leVal, Nat.mod_one]
  | succ n ih =>
    simp only [toLE, leVal, ih]
    rw [Nat.pow_succ, Nat.mul_comm (256 ^ n) 256, Nat.mod_mul]

/-- the unsigned number stored for `v` in an `n`-byte field -/
def rawOf (n : Nat) (v : Int) : Nat := (v % 2 ^ (8 * n)).toNat

theorem two_pow_pos (k : Nat) : (0 : Int) < 2 ^ k := Int.pow_pos (by decide)

theorem rawOf_lt (n : Nat) (v : Int) : rawOf n v < 256 ^ n := by
  unfold rawOf
  have h1 := two_pow_pos (8 * n)
  have h2 := Int.emod_lt_of_pos v h1
  have h3 := Int.emod_nonneg v (Int.ne_of_gt h1)
  have e : (256 : Nat) ^ n = 2 ^ (8 * n) := by rw [Nat.pow_mul]
  rw [e]
  have : ((v % 2 ^ (8 * n)).toNat : Int) < ((2 ^ (8 * n) : Nat) : Int) := by
    rw [Int.toNat_of_nonneg h3]; simpa using h2
  exact Int.ofNat_lt.mp this

/-- an unsigned field that `struct.pack` accepted stores the value itself -/
theorem rawOf_of_fits_unsigned {f : Fmt} {v : Int} (hs : f.signed = false) (h : fits f v = true) :
    0 ≤ v ∧ (rawOf f.size v : Int) = v := by
  unfold fits at h
  rw [hs] at h
  simp at h
  refine ⟨h.1, ?_⟩
  unfold rawOf
  rw [Int.emod_eq_of_lt h.1 h.2, Int.toNat_of_nonneg h.1]

theorem rawOf_nat_of_fits {f : Fmt} {n : Nat} (hs : f.signed = false) (h : fits f (n : Int) = true) :
    rawOf f.size (n : Int) = n := by
  have := (rawOf_of_fits_unsigned hs h).2
  exact Int.ofNat_inj.mp this

theorem encode_ok {f : PField} {v : Int} {bs : List Nat} (h : encode f v = .ok bs) :
    bs.length = f.fmt.size ∧ uval (endOf f.order) bs = rawOf f.fmt.size v ∧ fits f.fmt v = true := by
  unfold encode at h
  split at h
  · rename_i hf
    injection h with h
    subst h
    have hl := toLE_length f.fmt.size (v % 2 ^ (8 * f.fmt.size)).toNat
    have hv : leVal (toLE f.fmt.size (rawOf f.fmt.size v)) = rawOf f.fmt.size v := by
      rw [leVal_toLE]; exact Nat.mod_eq_of_lt (rawOf_lt _ _)
    refine ⟨?_, ?_, hf⟩
    · cases f.order <;> simp [applyOrder, hl]
    · cases f.order <;> simp [applyOrder, endOf, uval] <;> exact hv
  · cases h

/-! ### records -/

/-- what the gABI reader must return for header object `h` -/
def recOf (fs : List Field) (h : Hdr) : Rec :=
  fs.map (fun f => (f.name, rawOf f.fmt.size (h.get f.name)))

theorem serialize_read (e : End) : ∀ (fs : List Field) (h : Hdr) (bs rest : List Nat),
    serialize (fs.map (toP e)) h = .ok bs →
    readRec e fs (bs ++ rest) = some (recOf fs h) ∧ bs.length = recSize fs ∧
      (∀ f ∈ fs, fits f.fmt (h.get f.name) = true) := by
  intro fs
  induction fs with
  | nil =>
    intro h bs rest hs
    simp [serialize] at hs
    subst hs
    simp [readRec, recOf, recSize]
  | cons f fs ih =>
    intro h bs rest hs
    simp only [List.map_cons, serialize] at hs
    split at hs
    · cases hs
    · rename_i x hx
      split at hs
      · cases hs
      · rename_i r hr
        injection hs with hs
        subst hs
        have ⟨hl, hv, hf⟩ := encode_ok hx
        have ⟨ih1, ih2, ih3⟩ := ih h r rest hr
        simp only [toP] at hl hv hf
        rw [endOf_orderOf] at hv
        refine ⟨?_, ?_, ?_⟩
        · simp only [readRec, List.append_assoc]
          have hlen : ¬ (x ++ (r ++ rest)).length < f.fmt.size := by simp [hl]
          rw [if_neg hlen]
          have hd : (x ++ (r ++ rest)).drop f.fmt.size = r ++ rest := by
            rw [← hl]; simp
          have ht : (x ++ (r ++ rest)).take f.fmt.size = x := by
            rw [← hl]; simp
          rw [hd, ht, ih1, hv]
          simp [recOf]
        · simp [recSize, hl, ih2]
        · intro g hg
          simp at hg
          rcases hg with hg | hg
          · subst hg; exact hf
          · exact ih3 g hg

theorem serializeAll_read (e : End) (fs : List Field) : ∀ (hs : List Hdr) (bytes pre post : List Nat),
    serializeAll (fs.map (toP e)) hs = .ok bytes →
    readTable (pre ++ bytes ++ post) e fs (recSize fs) pre.length hs.length = some (hs.map (recOf fs)) ∧
      bytes.length = hs.length * recSize fs ∧
      (∀ h ∈ hs, ∀ f ∈ fs, fits f.fmt (h.get f.name) = true) := by
  intro hs
  induction hs with
  | nil =>
    intro bytes pre post h
    simp [serializeAll] at h
    subst h
    simp [readTable]
  | cons h hs ih =>
    intro bytes pre post hser
    simp only [serializeAll] at hser
    split at hser
    · cases hser
    · rename_i x hx
      split at hser
      · cases hser
      · rename_i r hr
        injection hser with hser
        subst hser
        have ⟨h1, h2, h3⟩ := serialize_read e fs h x (r ++ post) hx
        have ⟨i1, i2, i3⟩ := ih r (pre ++ x) post hr
        refine ⟨?_, ?_, ?_⟩
        · simp only [List.length_cons, readTable]
          have hd : (pre ++ (x ++ r) ++ post).drop pre.length = x ++ (r ++ post) := by simp
          rw [hd, h1]
          have e1 : pre ++ (x ++ r) ++ post = pre ++ x ++ r ++ post := by simp
          have e2 : pre.length + recSize fs = (pre ++ x).length := by simp [h2]
          rw [e1, e2, i1]
          simp
        · simp [h2, i2, Nat.add_mul, Nat.add_comm]
        · intro g hg
          simp at hg
          rcases hg with hg | hg
          · subst hg; exact h3
          · exact i3 g hg

/-! ### string table -/

/-- a name that can be stored in a string table -/
def NoNul (n : List Nat) : Prop := ∀ b ∈ n, b ≠ 0

theorem cstr_append (n rest : List Nat) (h : NoNul n) : cstr (n ++ 0 :: rest) = some n := by
  induction n with
  | nil => simp [cstr]
  | cons b bs ih =>
    have hb : b ≠ 0 := h b (by simp)
    have hbs : NoNul bs := fun x hx => h x (by simp [hx])
    simp [cstr, hb, ih hbs]

theorem cstr_mono (l more s : List Nat) (h : cstr l = some s) : cstr (l ++ more) = some s := by
  induction l generalizing s with
  | nil => simp [cstr] at h
  | cons b bs ih =>
    simp only [List.cons_append, cstr] at h ⊢
    split
    · rename_i hb; rw [if_pos hb] at h; exact h
    · rename_i hb
      rw [if_neg hb] at h
      cases hc : cstr bs with
      | none => simp [hc] at h
      | some t =>
        simp [hc] at h
        simp [ih t hc, h]

theorem strAt_mono (tab more : List Nat) (off : Nat) (s : List Nat) (h : strAt tab off = some s) :
    strAt (tab ++ more) off = some s := by
  unfold strAt at h ⊢
  by_cases hlt : off ≤ tab.length
  · rw [List.drop_append_of_le_length hlt]
    exact cstr_mono _ _ _ h
  · have : tab.drop off = [] := List.drop_eq_nil_of_le (by omega)
    rw [this] at h
    simp [cstr] at h

theorem strAt_new (tab n : List Nat) (h : NoNul n) : strAt (tab ++ n ++ [0]) tab.length = some n := by
  unfold strAt
  have : (tab ++ n ++ [0]).drop tab.length = n ++ 0 :: [] := by simp
  rw [this]
  exact cstr_append n [] h

/-- every recorded name is where the dictionary says -/
def StrWF (s : St) : Prop := ∀ n off, assoc n s.names = some off → strAt s.strtab off = some n

theorem assoc_cons_self {β} (k : List Nat) (v : β) (t : List (List Nat × β)) : assoc k ((k, v) :: t) = some v := by
  simp [assoc]

/-- `get_name`: the returned offset holds the name, earlier names stay readable -/
theorem getString_spec (s : St) (txt : List Nat) (hn : NoNul txt) (hw : StrWF s) :
    StrWF (s.getString txt).1 ∧ strAt (s.getString txt).1.strtab (s.getString txt).2 = some txt ∧
      (∃ more, (s.getString txt).1.strtab = s.strtab ++ more) := by
  unfold St.getString
  cases ha : assoc txt s.names with
  | some off =>
    simp only
    exact ⟨hw, hw txt off ha, ⟨[], by simp⟩⟩
  | none =>
    simp only
    refine ⟨?_, ?_, ⟨txt ++ [0], by simp⟩⟩
    · intro n off hno
      simp only [assoc] at hno
      split at hno
      · rename_i heq
        injection hno with hno
        subst hno; subst heq
        exact strAt_new s.strtab _ hn
      · have := hw n off hno
        have h2 := strAt_mono s.strtab (txt ++ [0]) off n this
        simpa using h2
    · exact strAt_new s.strtab txt hn

/-! ### alignment -/

theorem align_mod (t a : Nat) (ha : 0 < a) : (t + (a - t % a) % a) % a = 0 := by
  have hr := Nat.mod_lt t ha
  by_cases h0 : t % a = 0
  · simp [h0, Nat.mod_self]
  · have h1 : (a - t % a) % a = a - t % a := Nat.mod_eq_of_lt (by omega)
    rw [h1]
    have h2 : t + (a - t % a) = a * (t / a + 1) := by
      have := Nat.div_add_mod t a
      rw [Nat.mul_add, Nat.mul_one]; omega
    rw [h2]; exact Nat.mul_mod_right _ _

/-- `align_to` pads with zeros up to a multiple of the alignment -/
theorem alignTo_spec {s s' : St} {a : Nat} (h : s.alignTo a = .ok s') :
    0 < a ∧ s' = s.write (zeros ((a - s.tell % a) % a)) ∧ s'.tell % a = 0 := by
  unfold St.alignTo at h
  split at h
  · cases h
  · rename_i ha
    injection h with h
    subst h
    refine ⟨Nat.pos_of_ne_zero ha, rfl, ?_⟩
    simp only [St.tell, St.write, List.length_append, zeros, List.length_replicate]
    rw [← Nat.add_assoc]
    exact align_mod _ _ (Nat.pos_of_ne_zero ha)

/-! ### the file only grows: every writer step appends to `body` -/

/-- `s'` is `s` after more writing: same base, `body` extended; the program headers are untouched -/
def Post (s s' : St) : Prop :=
  s'.base = s.base ∧ (∃ more, s'.body = s.body ++ more) ∧ s'.phdrs = s.phdrs

theorem Post.refl (s : St) : Post s s := ⟨rfl, ⟨[], by simp⟩, rfl⟩

theorem Post.trans {a b c : St} (h1 : Post a b) (h2 : Post b c) : Post a c := by
  obtain ⟨b1, ⟨m1, e1⟩, p1⟩ := h1
  obtain ⟨b2, ⟨m2, e2⟩, p2⟩ := h2
  exact ⟨b2.trans b1, ⟨m1 ++ m2, by rw [e2, e1]; simp⟩, p2.trans p1⟩

theorem write_post (s : St) (bs : List Nat) : Post s (s.write bs) :=
  ⟨rfl, ⟨bs, rfl⟩, rfl⟩

theorem getString_frame (s : St) (t : List Nat) :
    (s.getString t).1.base = s.base ∧ (s.getString t).1.body = s.body ∧ (s.getString t).1.phdrs = s.phdrs ∧
    (s.getString t).1.shdrs = s.shdrs ∧ (s.getString t).1.secnums = s.secnums ∧
    (s.getString t).1.symIds = s.symIds ∧ (s.getString t).1.shoff = s.shoff := by
  unfold St.getString
  split <;> simp

theorem getString_post (s : St) (t : List Nat) : Post s (s.getString t).1 := by
  have h := getString_frame s t
  exact ⟨h.1, ⟨[], by simp [h.2.1]⟩, h.2.2.1⟩

theorem alignTo_post {s s' : St} {a : Nat} (h : s.alignTo a = .ok s') : Post s s' := by
  have := (alignTo_spec h).2.1
  subst this
  exact write_post _ _

theorem genSectionHeader_post (s : St) (sec : Sec) (off : Int) : Post s (s.genSectionHeader sec off) := by
  unfold St.genSectionHeader
  have h := getString_frame s sec.name
  rcases hg : s.getString sec.name with ⟨s1, nm⟩
  rw [hg] at h
  simp only at h ⊢
  exact ⟨h.1, ⟨[], by simp [h.2.1]⟩, h.2.2.1⟩

theorem genImageSectionHeaders_post (fo ia : Nat) : ∀ (secs : List Sec) (s : St),
    Post s (genImageSectionHeaders fo ia s secs) := by
  intro secs
  induction secs with
  | nil => intro s; exact Post.refl s
  | cons sec rest ih =>
    intro s
    simp only [genImageSectionHeaders]
    exact Post.trans (genSectionHeader_post _ _ _) (ih _)

theorem writeSections_post : ∀ (secs : List Sec) (s s' : St), writeSections s secs = .ok s' → Post s s' := by
  intro secs
  induction secs with
  | nil => intro s s' h; simp [writeSections] at h; subst h; exact Post.refl s
  | cons sec rest ih =>
    intro s s' h
    simp only [writeSections] at h
    split at h
    · exact ih _ _ h
    · split at h
      · cases h
      · rename_i s1 h1
        exact Post.trans (alignTo_post h1)
          (Post.trans (Post.trans (write_post _ _) (genSectionHeader_post _ _ _)) (ih _ _ h))

theorem writeSymbol_post {q : Quirks} {L : Layouts} {o : Obj} {s s' : St} {nr : Nat} {sy : Sym}
    (h : s.writeSymbol q L o nr sy = .ok s') : Post s s' := by
  unfold St.writeSymbol at h
  simp only at h
  have hf := getString_frame { s with symIds := (sy.id, nr) :: s.symIds } sy.name
  rcases hg : St.getString { s with symIds := (sy.id, nr) :: s.symIds } sy.name with ⟨s1, nm⟩
  rw [hg] at h hf
  simp only at h hf
  split at h
  · cases h
  · split at h
    · cases h
    · injection h with h
      subst h
      exact Post.trans (⟨hf.1, ⟨[], by simp [hf.2.1]⟩, hf.2.2.1⟩ : Post s s1) (write_post _ _)

theorem writeSymbols_post {q : Quirks} {L : Layouts} {o : Obj} : ∀ (syms : List Sym) (s s' : St) (nr : Nat),
    writeSymbols q L o s nr syms = .ok s' → Post s s' := by
  intro syms
  induction syms with
  | nil => intro s s' nr h; simp [writeSymbols] at h; subst h; exact Post.refl s
  | cons sy rest ih =>
    intro s s' nr h
    simp only [writeSymbols] at h
    split at h
    · cases h
    · rename_i s1 h1
      exact Post.trans (writeSymbol_post h1) (ih _ _ _ h)

theorem writeSymbolTable_post {q : Quirks} {L : Layouts} {o : Obj} {s s' : St}
    (h : writeSymbolTable q L o s = .ok s') : Post s s' := by
  unfold writeSymbolTable at h
  simp only at h
  split at h
  · cases h
  · rename_i s1 h1
    split at h
    · cases h
    · rename_i s2 h2
      have hf := getString_frame s2 symtabName
      rcases hg : s2.getString symtabName with ⟨s3, nm⟩
      rw [hg] at h hf
      simp only at h hf
      injection h with h
      subst h
      have p1 := alignTo_post h1
      have p2 := writeSymbols_post _ _ _ _ h2
      have p3 : Post s2 s3 := ⟨hf.1, ⟨[], by simp [hf.2.1]⟩, hf.2.2.1⟩
      have p12 := Post.trans p1 (Post.trans (write_post _ _) (Post.trans p2 p3))
      exact ⟨p12.1, p12.2.1, p12.2.2⟩

theorem writeRela_post {L : Layouts} {c : Cls} {s s' : St} {r : Rel} (h : s.writeRela L c r = .ok s') : Post s s' := by
  unfold St.writeRela at h
  split at h
  · cases h
  · split at h
    · cases h
    · cases h
    · simp only at h
      split at h
      · cases h
      · injection h with h; subst h; exact write_post _ _

theorem writeRelas_post {L : Layouts} {c : Cls} : ∀ (rs : List Rel) (s s' : St), writeRelas L c s rs = .ok s' → Post s s' := by
  intro rs
  induction rs with
  | nil => intro s s' h; simp [writeRelas] at h; subst h; exact Post.refl s
  | cons r rest ih =>
    intro s s' h
    simp only [writeRelas] at h
    split at h
    · cases h
    · rename_i s1 h1
      exact Post.trans (writeRela_post h1) (ih _ _ h)

theorem writeRelaGroup_post {L : Layouts} {o : Obj} {s s' : St} {n : List Nat}
    (h : s.writeRelaGroup L o n = .ok s') : Post s s' := by
  unfold St.writeRelaGroup at h
  simp only at h
  split at h
  · cases h
  · rename_i s1 h1
    split at h
    · cases h
    · rename_i s2 h2
      have hf := getString_frame s2 (relaPrefix ++ n)
      rcases hg : s2.getString (relaPrefix ++ n) with ⟨s3, nm⟩
      rw [hg] at h hf
      simp only at h hf
      split at h
      · cases h
      · injection h with h
        subst h
        have p12 := Post.trans (alignTo_post h1) (writeRelas_post _ _ _ h2)
        have p3 : Post s2 s3 := ⟨hf.1, ⟨[], by simp [hf.2.1]⟩, hf.2.2.1⟩
        have p := Post.trans p12 p3
        exact ⟨p.1, p.2.1, p.2.2⟩

theorem writeRelaGroups_post {L : Layouts} {o : Obj} : ∀ (ns : List (List Nat)) (s s' : St),
    writeRelaGroups L o s ns = .ok s' → Post s s' := by
  intro ns
  induction ns with
  | nil => intro s s' h; simp [writeRelaGroups] at h; subst h; exact Post.refl s
  | cons n rest ih =>
    intro s s' h
    simp only [writeRelaGroups] at h
    split at h
    · cases h
    · rename_i s1 h1
      exact Post.trans (writeRelaGroup_post h1) (ih _ _ h)

theorem writeStringTable_post (s : St) : Post s (writeStringTable s) := by
  unfold writeStringTable
  have hf := getString_frame s strtabName
  rcases hg : s.getString strtabName with ⟨s1, nm⟩
  rw [hg] at hf
  simp only at hf ⊢
  exact ⟨hf.1, ⟨s1.strtab, by simp [St.write, hf.2.1]⟩, hf.2.2.1⟩

theorem writeHeaders_post {L : Layouts} {sn : List (List Nat × Nat)} : ∀ (hs : List Hdr) (s s' : St),
    writeHeaders L sn s hs = .ok s' → Post s s' := by
  intro hs
  induction hs with
  | nil => intro s s' h; simp [writeHeaders] at h; subst h; exact Post.refl s
  | cons hd rest ih =>
    intro s s' h
    simp only [writeHeaders] at h
    split at h
    · cases h
    · split at h
      · cases h
      · exact Post.trans (write_post _ _) (ih _ _ h)

theorem writeSectionHeaders_post {L : Layouts} {s s' : St} (h : writeSectionHeaders L s = .ok s') : Post s s' := by
  unfold writeSectionHeaders at h
  split at h
  · cases h
  · rename_i s1 h1
    simp only at h
    have p1 := alignTo_post h1
    have p2 := writeHeaders_post _ _ _ h
    have p3 : Post s1 (St.write { s1 with shoff := s1.tell } (zeros (hsize L.shdr))) := ⟨rfl, ⟨_, rfl⟩, rfl⟩
    exact Post.trans p1 (Post.trans p3 p2)

/-! ### chunks stay where they were written -/

/-- same base, `body` extended (program headers may have been added) -/
def Grow (s s' : St) : Prop := s'.base = s.base ∧ ∃ more, s'.body = s.body ++ more

theorem Post.grow {s s' : St} (h : Post s s') : Grow s s' := ⟨h.1, h.2.1⟩

theorem Grow.refl (s : St) : Grow s s := ⟨rfl, ⟨[], by simp⟩⟩

theorem Grow.trans {a b c : St} (h1 : Grow a b) (h2 : Grow b c) : Grow a c := by
  obtain ⟨b1, ⟨m1, e1⟩⟩ := h1
  obtain ⟨b2, ⟨m2, e2⟩⟩ := h2
  exact ⟨b2.trans b1, ⟨m1 ++ m2, by rw [e2, e1]; simp⟩⟩

/-- the bytes `d` are in the file at offset `off` -/
def InBody (s : St) (off : Nat) (d : List Nat) : Prop :=
  ∃ a b, s.body = a ++ d ++ b ∧ off = s.base + a.length

theorem InBody.grow {s s' : St} {off : Nat} {d : List Nat} (g : Grow s s') (h : InBody s off d) : InBody s' off d := by
  obtain ⟨a, b, hb, ho⟩ := h
  obtain ⟨gb, ⟨m, gm⟩⟩ := g
  exact ⟨a, b ++ m, by rw [gm, hb]; simp, by rw [gb]; exact ho⟩

/-- a chunk of the body is the corresponding slice of the complete file -/
theorem InBody.slice {s : St} {off : Nat} {d : List Nat} (pre : List Nat) (hpre : pre.length = s.base)
    (h : InBody s off d) : slice (pre ++ s.body) off d.length = some d := by
  obtain ⟨a, b, hb, ho⟩ := h
  unfold Spec.Elf.slice
  have hlen : off + d.length ≤ (pre ++ s.body).length := by
    rw [hb, ho, ← hpre]; simp; omega
  rw [if_pos hlen]
  have e : pre ++ s.body = (pre ++ a) ++ (d ++ b) := by rw [hb]; simp
  have e2 : off = (pre ++ a).length := by rw [ho, ← hpre]; simp
  rw [e, e2, List.drop_left]
  simp

/-! ### `write_images` -/

def imgFlags (img : Img) : Int := if img.name = [99, 111, 100, 101] then 5 else 6

/-- the program header `write_images` creates for an image whose data went to file offset `off` -/
def phdrOf (img : Img) (off len : Nat) : Hdr :=
  [(.p_type, 1), (.p_flags, imgFlags img), (.p_offset, off), (.p_vaddr, img.address),
   (.p_paddr, img.address), (.p_filesz, len), (.p_memsz, len), (.p_align, pageSize)]

/-- program header `ph` describes image `img`, whose data is in the file where `ph` says -/
def SegOK (s : St) (img : Img) (ph : Hdr) : Prop :=
  ∃ d off, img.data = .ok d ∧ InBody s off d ∧ off % pageSize = img.address % pageSize ∧
    ph = phdrOf img off d.length

theorem SegOK.grow {s s' : St} {img : Img} {ph : Hdr} (g : Grow s s') (h : SegOK s img ph) : SegOK s' img ph := by
  obtain ⟨d, off, h1, h2, h3, h4⟩ := h
  exact ⟨d, off, h1, h2.grow g, h3, h4⟩

theorem writeImage_eq {s s' : St} {img : Img} (h : s.writeImage {} img = .ok s') :
    ∃ s1 d, s.alignTo pageSize = .ok s1 ∧ img.data = .ok d ∧
      s' = { (St.write (genImageSectionHeaders (St.tell (s1.write (zeros (img.address % pageSize)))) img.address
                (s1.write (zeros (img.address % pageSize))) img.sections) d) with
             phdrs := (genImageSectionHeaders (St.tell (s1.write (zeros (img.address % pageSize)))) img.address
                (s1.write (zeros (img.address % pageSize))) img.sections).phdrs ++
                [phdrOf img (St.tell (s1.write (zeros (img.address % pageSize)))) d.length] } := by
  unfold St.writeImage at h
  split at h
  · cases h
  · rename_i s1 h1
    simp only [Bool.false_eq_true, if_false] at h
    split at h
    · cases h
    · rename_i d hd
      injection h with h
      exact ⟨s1, d, h1, hd, h.symm⟩

theorem genSectionHeader_body (s : St) (sec : Sec) (off : Int) :
    (s.genSectionHeader sec off).body = s.body ∧ (s.genSectionHeader sec off).base = s.base := by
  unfold St.genSectionHeader
  have hf := getString_frame s sec.name
  rcases hg : s.getString sec.name with ⟨s9, nm⟩
  rw [hg] at hf
  simp only at hf ⊢
  exact ⟨hf.2.1, hf.1⟩

theorem genImageSectionHeaders_body (fo ia : Nat) : ∀ (secs : List Sec) (s : St),
    (genImageSectionHeaders fo ia s secs).body = s.body ∧ (genImageSectionHeaders fo ia s secs).base = s.base := by
  intro secs
  induction secs with
  | nil => intro s; exact ⟨rfl, rfl⟩
  | cons sec rest ih =>
    intro s
    simp only [genImageSectionHeaders]
    have h1 := ih (s.genSectionHeader sec ((fo : Int) + ((sec.address : Int) - ia)))
    have h2 := genSectionHeader_body s sec ((fo : Int) + ((sec.address : Int) - ia))
    exact ⟨h1.1.trans h2.1, h1.2.trans h2.2⟩

theorem writeImage_spec {s s' : St} {img : Img} (h : s.writeImage {} img = .ok s') :
    Grow s s' ∧ ∃ ph, s'.phdrs = s.phdrs ++ [ph] ∧ SegOK s' img ph := by
  obtain ⟨s1, d, h1, hd, he⟩ := writeImage_eq h
  have ha := alignTo_spec h1
  have p1 : Post s s1 := alignTo_post h1
  generalize hs2 : s1.write (zeros (img.address % pageSize)) = s2 at he
  have p2 : Post s1 s2 := by rw [← hs2]; exact write_post _ _
  have p3 := genImageSectionHeaders_post s2.tell img.address img.sections s2
  have b3 := genImageSectionHeaders_body s2.tell img.address img.sections s2
  generalize hs3 : genImageSectionHeaders s2.tell img.address s2 img.sections = s3 at he p3 b3
  have p13 : Post s s3 := Post.trans p1 (Post.trans p2 p3)
  subst he
  refine ⟨?_, phdrOf img s2.tell d.length, ?_, ?_⟩
  · obtain ⟨b, ⟨m, hm⟩, _⟩ := p13
    exact ⟨b, ⟨m ++ d, by simp [St.write, hm]⟩⟩
  · simp [p13.2.2]
  · refine ⟨d, s2.tell, hd, ?_, ?_, rfl⟩
    · refine ⟨s2.body, [], ?_, ?_⟩
      · simp [St.write, b3.1]
      · simp [St.tell, St.write, b3.2]
    · have h0 := ha.2.2
      rw [← hs2]
      simp only [St.tell, St.write, List.length_append, zeros, List.length_replicate] at h0 ⊢
      have : pageSize = 4096 := rfl
      rw [this] at h0 ⊢
      omega

theorem writeImages_spec : ∀ (imgs : List Img) (s s' : St), writeImages {} s imgs = .ok s' →
    Grow s s' ∧ ∃ phs, s'.phdrs = s.phdrs ++ phs ∧ List.Forall₂ (SegOK s') imgs phs := by
  intro imgs
  induction imgs with
  | nil =>
    intro s s' h
    simp [writeImages] at h
    subst h
    exact ⟨Grow.refl s, [], by simp, List.Forall₂.nil⟩
  | cons img rest ih =>
    intro s s' h
    simp only [writeImages] at h
    split at h
    · cases h
    · rename_i s1 h1
      have ⟨g1, ph, hp, hs⟩ := writeImage_spec h1
      have ⟨g2, phs, hps, hf⟩ := ih _ _ h
      refine ⟨g1.trans g2, ph :: phs, by rw [hps, hp]; simp, List.Forall₂.cons (hs.grow g2) hf⟩

/-! ### inversion of `export_object` -/

theorem exportObject_inv {L : Layouts} {o : Obj} {t : EType} {file : List Nat}
    (h : exportObject {} L o t = .ok file) :
    ∃ (s1 s2 s3 s4 s6 : St) (entry : Int) (shstrndx : Nat) (ehb phb : List Nat),
      (if withImages o t then writeImages {} (initState L o t) o.images else .ok (initState L o t)) = .ok s1 ∧
      writeSections s1 o.sections = .ok s2 ∧
      writeSymbolTable {} L o s2 = .ok s3 ∧
      (if t == .rel then writeRelaTable L o s3 else .ok s3) = .ok s4 ∧
      writeSectionHeaders L (writeStringTable s4) = .ok s6 ∧
      entryValue o t = .ok entry ∧
      assoc strtabName s6.secnums = some shstrndx ∧
      serialize L.ehdr (elfHeader L o t s6 entry shstrndx) = .ok ehb ∧
      s6.phdrs.length = phnum o t ∧
      serializeAll L.phdr s6.phdrs = .ok phb ∧
      file = ident o.arch ++ ehb ++ phb ++ s6.body := by
  unfold exportObject at h
  split at h
  · cases h
  · rename_i s1 h1
    split at h
    · cases h
    · rename_i s2 h2
      split at h
      · cases h
      · rename_i s3 h3
        split at h
        · cases h
        · rename_i s4 h4
          split at h
          · cases h
          · rename_i s6 h6
            split at h
            · cases h
            · rename_i entry h7
              split at h
              · cases h
              · rename_i shstrndx h8
                split at h
                · cases h
                · rename_i ehb h9
                  split at h
                  · cases h
                  · rename_i h10
                    split at h
                    · cases h
                    · rename_i phb h11
                      injection h with h
                      exact ⟨s1, s2, s3, s4, s6, entry, shstrndx, ehb, phb, h1, h2, h3, h4, h6, h7, h8, h9,
                        by simpa using h10, h11, h.symm⟩

end Proofs.ElfW
