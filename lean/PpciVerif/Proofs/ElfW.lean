import PpciVerif.Spec.Elf
import PpciVerif.Model.ElfW
/-!
Helper definitions and lemmas for C17 (`Props/C17.lean`): core Lean only.

* numbers: `toLE`/`leVal`, `encode` / `uval` round trip
* records: `serialize` / `readRec`, `serializeAll` / `readTable`
* string table: `getString` keeps every earlier name readable
* file layout: every writer step only appends to the file (`Ext`), so a chunk
  once written stays where it is (`InBody`)
* `write_images`: program headers versus images (`SegOK`)
* inversion of `exportObject`
-/
namespace Proofs.ElfW
open Spec.Elf Model.ElfW

/-! ### gABI layouts as model parameter -/

/-- the `struct` byte-order prefix that announces byte order `e` -/
def orderOf : End → Order
  | .le => .lt
  | .be => .gt

/-- a gABI field as a ppci header field in byte order `e` -/
def toP (e : End) (f : Field) : PField := ⟨f.name, orderOf e, f.fmt⟩

/-- the gABI layouts of `Spec.Elf` as the `_fields` tables the model is parametrised with -/
def gabiLayouts (c : Cls) (e : End) : Layouts :=
  { ehdr := (ehdr c).map (toP e), phdr := (phdr c).map (toP e), shdr := (shdr c).map (toP e),
    sym := (sym c).map (toP e), rela := (rela c).map (toP e), dyn := (dyn c).map (toP e) }

/-- the byte order a `struct` prefix selects on the (little-endian) host -/
def endOf : Order → End
  | .gt => .be
  | _ => .le

theorem endOf_orderOf (e : End) : endOf (orderOf e) = e := by cases e <;> rfl

theorem hsize_map (e : End) (fs : List Field) : hsize (fs.map (toP e)) = recSize fs := by
  induction fs with
  | nil => rfl
  | cons f fs ih => simp [hsize, recSize, toP, ih]

/-! ### numbers -/

theorem toLE_length (n v : Nat) : (toLE n v).length = n := by
  induction n generalizing v with
  | zero => rfl
  | succ n ih => simp [toLE, ih]

theorem leVal_toLE (n v : Nat) : leVal (toLE n v) = v % 256 ^ n := by
  induction n generalizing v with
  | zero => simp [toLE, leVal, Nat.mod_one]
  | succ n ih =>
    simp only [toLE, leVal, ih]
    rw [Nat.pow_succ, Nat.mul_comm (256 ^ n) 256, Nat.mod_mul]

/-- the unsigned number stored for `v` in an `n`-byte field -/
def rawOf (n : Nat) (v : Int) : Nat := (v % 2 ^ (8 * n)).toNat

theorem two_pow_pos (k : Nat) : (0 : Int) < 2 ^ k := Int.pow_pos (by decide)

theorem rawOf_lt (n : Nat) (v : Int) : rawOf n v < 256 ^ n := by
  unfold rawOf
  have h1 := two_pow_pos (8 * n)
  have h2 := Int.emod_lt_of_pos v h1
  have h3 := Int.emod_nonneg v (Int.ne_of_gt h1)
  have e : (256 : Nat) ^ n = 2 ^ (8 * n) := by rw [Nat.pow_mul]
  rw [e]
  have : ((v % 2 ^ (8 * n)).toNat : Int) < ((2 ^ (8 * n) : Nat) : Int) := by
    rw [Int.toNat_of_nonneg h3]; simpa using h2
  exact Int.ofNat_lt.mp this

/-- an unsigned field that `struct.pack` accepted stores the value itself -/
theorem rawOf_of_fits_unsigned {f : Fmt} {v : Int} (hs : f.signed = false) (h : fits f v = true) :
    0 ≤ v ∧ (rawOf f.size v : Int) = v := by
  unfold fits at h
  rw [hs] at h
  simp at h
  refine ⟨h.1, ?_⟩
  unfold rawOf
  rw [Int.emod_eq_of_lt h.1 h.2, Int.toNat_of_nonneg h.1]

theorem rawOf_nat_of_fits {f : Fmt} {n : Nat} (hs : f.signed = false) (h : fits f (n : Int) = true) :
    rawOf f.size (n : Int) = n := by
  have := (rawOf_of_fits_unsigned hs h).2
  exact Int.ofNat_inj.mp this

theorem encode_ok {f : PField} {v : Int} {bs : List Nat} (h : encode f v = .ok bs) :
    bs.length = f.fmt.size ∧ uval (endOf f.order) bs = rawOf f.fmt.size v ∧ fits f.fmt v = true := by
  unfold encode at h
  split at h
  · rename_i hf
    injection h with h
    subst h
    have hl := toLE_length f.fmt.size (v % 2 ^ (8 * f.fmt.size)).toNat
    have hv : leVal (toLE f.fmt.size (rawOf f.fmt.size v)) = rawOf f.fmt.size v := by
      rw [leVal_toLE]; exact Nat.mod_eq_of_lt (rawOf_lt _ _)
    refine ⟨?_, ?_, hf⟩
    · cases f.order <;> simp [applyOrder, hl]
    · cases f.order <;> simp [applyOrder, endOf, uval] <;> exact hv
  · cases h

/-! ### records -/

/-- what the gABI reader must return for header object `h` -/
def recOf (fs : List Field) (h : Hdr) : Rec :=
  fs.map (fun f => (f.name, rawOf f.fmt.size (h.get f.name)))

theorem serialize_read (e : End) : ∀ (fs : List Field) (h : Hdr) (bs rest : List Nat),
    serialize (fs.map (toP e)) h = .ok bs →
    readRec e fs (bs ++ rest) = some (recOf fs h) ∧ bs.length = recSize fs ∧
      (∀ f ∈ fs, fits f.fmt (h.get f.name) = true) := by
  intro fs
  induction fs with
  | nil =>
    intro h bs rest hs
    simp [serialize] at hs
    subst hs
    simp [readRec, recOf, recSize]
  | cons f fs ih =>
    intro h bs rest hs
    simp only [List.map_cons, serialize] at hs
    split at hs
    · cases hs
    · rename_i x hx
      split at hs
      · cases hs
      · rename_i r hr
        injection hs with hs
        subst hs
        have ⟨hl, hv, hf⟩ := encode_ok hx
        have ⟨ih1, ih2, ih3⟩ := ih h r rest hr
        simp only [toP] at hl hv hf
        rw [endOf_orderOf] at hv
        refine ⟨?_, ?_, ?_⟩
        · simp only [readRec, List.append_assoc]
          have hlen : ¬ (x ++ (r ++ rest)).length < f.fmt.size := by simp [hl]
          rw [if_neg hlen]
          have hd : (x ++ (r ++ rest)).drop f.fmt.size = r ++ rest := by
            rw [← hl]; simp
          have ht : (x ++ (r ++ rest)).take f.fmt.size = x := by
            rw [← hl]; simp
          rw [hd, ht, ih1, hv]
          simp [recOf]
        · simp [recSize, hl, ih2]
        · intro g hg
          simp at hg
          rcases hg with hg | hg
          · subst hg; exact hf
          · exact ih3 g hg

theorem serializeAll_read (e : End) (fs : List Field) : ∀ (hs : List Hdr) (bytes pre post : List Nat),
    serializeAll (fs.map (toP e)) hs = .ok bytes →
    readTable (pre ++ bytes ++ post) e fs (recSize fs) pre.length hs.length = some (hs.map (recOf fs)) ∧
      bytes.length = hs.length * recSize fs ∧
      (∀ h ∈ hs, ∀ f ∈ fs, fits f.fmt (h.get f.name) = true) := by
  intro hs
  induction hs with
  | nil =>
    intro bytes pre post h
    simp [serializeAll] at h
    subst h
    simp [readTable]
  | cons h hs ih =>
    intro bytes pre post hser
    simp only [serializeAll] at hser
    split at hser
    · cases hser
    · rename_i x hx
      split at hser
      · cases hser
      · rename_i r hr
        injection hser with hser
        subst hser
        have ⟨h1, h2, h3⟩ := serialize_read e fs h x (r ++ post) hx
        have ⟨i1, i2, i3⟩ := ih r (pre ++ x) post hr
        refine ⟨?_, ?_, ?_⟩
        · simp only [List.length_cons, readTable]
          have hd : (pre ++ (x ++ r) ++ post).drop pre.length = x ++ (r ++ post) := by simp
          rw [hd, h1]
          have e1 : pre ++ (x ++ r) ++ post = pre ++ x ++ r ++ post := by simp
          have e2 : pre.length + recSize fs = (pre ++ x).length := by simp [h2]
          rw [e1, e2, i1]
          simp
        · simp [h2, i2, Nat.add_mul, Nat.add_comm]
        · intro g hg
          simp at hg
          rcases hg with hg | hg
          · subst hg; exact h3
          · exact i3 g hg

/-! ### string table -/

/-- a name that can be stored in a string table -/
def NoNul (n : List Nat) : Prop := ∀ b ∈ n, b ≠ 0

theorem cstr_append (n rest : List Nat) (h : NoNul n) : cstr (n ++ 0 :: rest) = some n := by
  induction n with
  | nil => simp [cstr]
  | cons b bs ih =>
    have hb : b ≠ 0 := h b (by simp)
    have hbs : NoNul bs := fun x hx => h x (by simp [hx])
    simp [cstr, hb, ih hbs]

theorem cstr_mono (l more s : List Nat) (h : cstr l = some s) : cstr (l ++ more) = some s := by
  induction l generalizing s with
  | nil => simp [cstr] at h
  | cons b bs ih =>
    simp only [List.cons_append, cstr] at h ⊢
    split
    · rename_i hb; rw [if_pos hb] at h; exact h
    · rename_i hb
      rw [if_neg hb] at h
      cases hc : cstr bs with
      | none => simp [hc] at h
      | some t =>
        simp [hc] at h
        simp [ih t hc, h]

theorem strAt_mono (tab more : List Nat) (off : Nat) (s : List Nat) (h : strAt tab off = some s) :
    strAt (tab ++ more) off = some s := by
  unfold strAt at h ⊢
  by_cases hlt : off ≤ tab.length
  · rw [List.drop_append_of_le_length hlt]
    exact cstr_mono _ _ _ h
  · have : tab.drop off = [] := List.drop_eq_nil_of_le (by omega)
    rw [this] at h
    simp [cstr] at h

theorem strAt_new (tab n : List Nat) (h : NoNul n) : strAt (tab ++ n ++ [0]) tab.length = some n := by
  unfold strAt
  have : (tab ++ n ++ [0]).drop tab.length = n ++ 0 :: [] := by simp
  rw [this]
  exact cstr_append n [] h

/-- every recorded name is where the dictionary says -/
def StrWF (s : St) : Prop := ∀ n off, assoc n s.names = some off → strAt s.strtab off = some n

theorem assoc_cons_self {β} (k : List Nat) (v : β) (t : List (List Nat × β)) : assoc k ((k, v) :: t) = some v := by
  simp [assoc]

/-- `get_name`: the returned offset holds the name, earlier names stay readable -/
theorem getString_spec (s : St) (txt : List Nat) (hn : NoNul txt) (hw : StrWF s) :
    StrWF (s.getString txt).1 ∧ strAt (s.getString txt).1.strtab (s.getString txt).2 = some txt ∧
      (∃ more, (s.getString txt).1.strtab = s.strtab ++ more) := by
  unfold St.getString
  cases ha : assoc txt s.names with
  | some off =>
    simp only
    exact ⟨hw, hw txt off ha, ⟨[], by simp⟩⟩
  | none =>
    simp only
    refine ⟨?_, ?_, ⟨txt ++ [0], by simp⟩⟩
    · intro n off hno
      simp only [assoc] at hno
      split at hno
      · rename_i heq
        injection hno with hno
        subst hno; subst heq
        exact strAt_new s.strtab _ hn
      · have := hw n off hno
        have h2 := strAt_mono s.strtab (txt ++ [0]) off n this
        simpa using h2
    · exact strAt_new s.strtab txt hn

/-! ### alignment -/

theorem align_mod (t a : Nat) (ha : 0 < a) : (t + (a - t % a) % a) % a = 0 := by
  have hr := Nat.mod_lt t ha
  by_cases h0 : t % a = 0
  · simp [h0, Nat.mod_self]
  · have h1 : (a - t % a) % a = a - t % a := Nat.mod_eq_of_lt (by omega)
    rw [h1]
    have h2 : t + (a - t % a) = a * (t / a + 1) := by
      have := Nat.div_add_mod t a
      rw [Nat.mul_add, Nat.mul_one]; omega
    rw [h2]; exact Nat.mul_mod_right _ _

/-- `align_to` pads with zeros up to a multiple of the alignment -/
theorem alignTo_spec {s s' : St} {a : Nat} (h : s.alignTo a = .ok s') :
    0 < a ∧ s' = s.write (zeros ((a - s.tell % a) % a)) ∧ s'.tell % a = 0 := by
  unfold St.alignTo at h
  split at h
  · cases h
  · rename_i ha
    injection h with h
    subst h
    refine ⟨Nat.pos_of_ne_zero ha, rfl, ?_⟩
    simp only [St.tell, St.write, List.length_append, zeros, List.length_replicate]
    rw [← Nat.add_assoc]
    exact align_mod _ _ (Nat.pos_of_ne_zero ha)

/-! ### the file only grows: every writer step appends to `body` -/

/-- `s'` is `s` after more writing: same base, `body` extended; the program headers are untouched -/
def Post (s s' : St) : Prop :=
  s'.base = s.base ∧ (∃ more, s'.body = s.body ++ more) ∧ s'.phdrs = s.phdrs

theorem Post.refl (s : St) : Post s s := ⟨rfl, ⟨[], by simp⟩, rfl⟩

theorem Post.trans {a b c : St} (h1 : Post a b) (h2 : Post b c) : Post a c := by
  obtain ⟨b1, ⟨m1, e1⟩, p1⟩ := h1
  obtain ⟨b2, ⟨m2, e2⟩, p2⟩ := h2
  exact ⟨b2.trans b1, ⟨m1 ++ m2, by rw [e2, e1]; simp⟩, p2.trans p1⟩

theorem write_post (s : St) (bs : List Nat) : Post s (s.write bs) :=
  ⟨rfl, ⟨bs, rfl⟩, rfl⟩

theorem getString_frame (s : St) (t : List Nat) :
    (s.getString t).1.base = s.base ∧ (s.getString t).1.body = s.body ∧ (s.getString t).1.phdrs = s.phdrs ∧
    (s.getString t).1.shdrs = s.shdrs ∧ (s.getString t).1.secnums = s.secnums ∧
    (s.getString t).1.symIds = s.symIds ∧ (s.getString t).1.shoff = s.shoff := by
  unfold St.getString
  split <;> simp

theorem getString_post (s : St) (t : List Nat) : Post s (s.getString t).1 := by
  have h := getString_frame s t
  exact ⟨h.1, ⟨[], by simp [h.2.1]⟩, h.2.2.1⟩

theorem alignTo_post {s s' : St} {a : Nat} (h : s.alignTo a = .ok s') : Post s s' := by
  have := (alignTo_spec h).2.1
  subst this
  exact write_post _ _

theorem addHeader_frame (s : St) (name : List Nat) (mk : Nat → Hdr) (reg : Bool) :
    (s.addHeader name mk reg).base = s.base ∧ (s.addHeader name mk reg).body = s.body ∧
    (s.addHeader name mk reg).phdrs = s.phdrs ∧ (s.addHeader name mk reg).symIds = s.symIds ∧
    (s.addHeader name mk reg).shoff = s.shoff := by
  unfold St.addHeader
  have h := getString_frame s name
  rcases hg : s.getString name with ⟨s1, nm⟩
  rw [hg] at h
  simp only at h ⊢
  exact ⟨h.1, h.2.1, h.2.2.1, h.2.2.2.2.2.1, h.2.2.2.2.2.2⟩

theorem addHeader_post (s : St) (name : List Nat) (mk : Nat → Hdr) (reg : Bool) : Post s (s.addHeader name mk reg) := by
  have h := addHeader_frame s name mk reg
  exact ⟨h.1, ⟨[], by simp [h.2.1]⟩, h.2.2.1⟩

theorem genSectionHeader_post (s : St) (sec : Sec) (off : Int) : Post s (s.genSectionHeader sec off) :=
  addHeader_post _ _ _ _

theorem genImageSectionHeaders_post (fo ia : Nat) : ∀ (secs : List Sec) (s : St),
    Post s (genImageSectionHeaders fo ia s secs) := by
  intro secs
  induction secs with
  | nil => intro s; exact Post.refl s
  | cons sec rest ih =>
    intro s
    simp only [genImageSectionHeaders]
    exact Post.trans (genSectionHeader_post _ _ _) (ih _)

theorem writeSections_post : ∀ (secs : List Sec) (s s' : St), writeSections s secs = .ok s' → Post s s' := by
  intro secs
  induction secs with
  | nil => intro s s' h; simp [writeSections] at h; subst h; exact Post.refl s
  | cons sec rest ih =>
    intro s s' h
    simp only [writeSections] at h
    split at h
    · exact ih _ _ h
    · split at h
      · cases h
      · rename_i s1 h1
        exact Post.trans (alignTo_post h1)
          (Post.trans (Post.trans (write_post _ _) (genSectionHeader_post _ _ _)) (ih _ _ h))

theorem writeSymbol_post {q : Quirks} {L : Layouts} {o : Obj} {s s' : St} {nr : Nat} {sy : Sym}
    (h : s.writeSymbol q L o nr sy = .ok s') : Post s s' := by
  unfold St.writeSymbol at h
  simp only at h
  have hf := getString_frame { s with symIds := (sy.id, nr) :: s.symIds } sy.name
  rcases hg : St.getString { s with symIds := (sy.id, nr) :: s.symIds } sy.name with ⟨s1, nm⟩
  rw [hg] at h hf
  simp only at h hf
  split at h
  · cases h
  · split at h
    · cases h
    · injection h with h
      subst h
      exact Post.trans (⟨hf.1, ⟨[], by simp [hf.2.1]⟩, hf.2.2.1⟩ : Post s s1) (write_post _ _)

theorem writeSymbols_post {q : Quirks} {L : Layouts} {o : Obj} : ∀ (syms : List Sym) (s s' : St) (nr : Nat),
    writeSymbols q L o s nr syms = .ok s' → Post s s' := by
  intro syms
  induction syms with
  | nil => intro s s' nr h; simp [writeSymbols] at h; subst h; exact Post.refl s
  | cons sy rest ih =>
    intro s s' nr h
    simp only [writeSymbols] at h
    split at h
    · cases h
    · rename_i s1 h1
      exact Post.trans (writeSymbol_post h1) (ih _ _ _ h)

theorem writeSymbolTable_post {q : Quirks} {L : Layouts} {o : Obj} {s s' : St}
    (h : writeSymbolTable q L o s = .ok s') : Post s s' := by
  unfold writeSymbolTable at h
  simp only at h
  split at h
  · cases h
  · rename_i s1 h1
    split at h
    · cases h
    · rename_i s2 h2
      injection h with h
      subst h
      have p1 := alignTo_post h1
      have p2 := writeSymbols_post _ _ _ _ h2
      exact Post.trans p1 (Post.trans (write_post _ _) (Post.trans p2 (addHeader_post _ _ _ _)))

theorem writeRela_post {L : Layouts} {c : Cls} {s s' : St} {r : Rel} (h : s.writeRela L c r = .ok s') : Post s s' := by
  unfold St.writeRela at h
  split at h
  · cases h
  · split at h
    · cases h
    · cases h
    · split at h
      · cases h
      · injection h with h; subst h; exact write_post _ _

theorem writeRelas_post {L : Layouts} {c : Cls} : ∀ (rs : List Rel) (s s' : St), writeRelas L c s rs = .ok s' → Post s s' := by
  intro rs
  induction rs with
  | nil => intro s s' h; simp [writeRelas] at h; subst h; exact Post.refl s
  | cons r rest ih =>
    intro s s' h
    simp only [writeRelas] at h
    split at h
    · cases h
    · rename_i s1 h1
      exact Post.trans (writeRela_post h1) (ih _ _ h)

theorem writeRelaGroup_post {L : Layouts} {o : Obj} {s s' : St} {n : List Nat}
    (h : s.writeRelaGroup L o n = .ok s') : Post s s' := by
  unfold St.writeRelaGroup at h
  simp only at h
  split at h
  · cases h
  · rename_i s1 h1
    split at h
    · cases h
    · rename_i s2 h2
      split at h
      · cases h
      · injection h with h
        subst h
        exact Post.trans (alignTo_post h1) (Post.trans (writeRelas_post _ _ _ h2) (addHeader_post _ _ _ _))

theorem writeRelaGroups_post {L : Layouts} {o : Obj} : ∀ (ns : List (List Nat)) (s s' : St),
    writeRelaGroups L o s ns = .ok s' → Post s s' := by
  intro ns
  induction ns with
  | nil => intro s s' h; simp [writeRelaGroups] at h; subst h; exact Post.refl s
  | cons n rest ih =>
    intro s s' h
    simp only [writeRelaGroups] at h
    split at h
    · cases h
    · rename_i s1 h1
      exact Post.trans (writeRelaGroup_post h1) (ih _ _ h)

theorem writeStringTable_post (s : St) : Post s (writeStringTable s) := by
  unfold writeStringTable
  have hf := getString_frame s strtabName
  rcases hg : s.getString strtabName with ⟨s1, nm⟩
  rw [hg] at hf
  simp only at hf ⊢
  exact ⟨hf.1, ⟨s1.strtab, by simp [St.write, hf.2.1]⟩, hf.2.2.1⟩

theorem writeHeaders_post {L : Layouts} {sn : List (List Nat × Nat)} : ∀ (hs : List Hdr) (s s' : St),
    writeHeaders L sn s hs = .ok s' → Post s s' := by
  intro hs
  induction hs with
  | nil => intro s s' h; simp [writeHeaders] at h; subst h; exact Post.refl s
  | cons hd rest ih =>
    intro s s' h
    simp only [writeHeaders] at h
    split at h
    · cases h
    · split at h
      · cases h
      · exact Post.trans (write_post _ _) (ih _ _ h)

theorem writeSectionHeaders_post {L : Layouts} {s s' : St} (h : writeSectionHeaders L s = .ok s') : Post s s' := by
  unfold writeSectionHeaders at h
  split at h
  · cases h
  · rename_i s1 h1
    simp only at h
    have p1 := alignTo_post h1
    have p2 := writeHeaders_post _ _ _ h
    have p3 : Post s1 (St.write { s1 with shoff := s1.tell } (zeros (hsize L.shdr))) := ⟨rfl, ⟨_, rfl⟩, rfl⟩
    exact Post.trans p1 (Post.trans p3 p2)

/-! ### chunks stay where they were written -/

/-- same base, `body` extended (program headers may have been added) -/
def Grow (s s' : St) : Prop := s'.base = s.base ∧ ∃ more, s'.body = s.body ++ more

theorem Post.grow {s s' : St} (h : Post s s') : Grow s s' := ⟨h.1, h.2.1⟩

theorem Grow.refl (s : St) : Grow s s := ⟨rfl, ⟨[], by simp⟩⟩

theorem Grow.trans {a b c : St} (h1 : Grow a b) (h2 : Grow b c) : Grow a c := by
  obtain ⟨b1, ⟨m1, e1⟩⟩ := h1
  obtain ⟨b2, ⟨m2, e2⟩⟩ := h2
  exact ⟨b2.trans b1, ⟨m1 ++ m2, by rw [e2, e1]; simp⟩⟩

/-- the bytes `d` are in the file at offset `off` -/
def InBody (s : St) (off : Nat) (d : List Nat) : Prop :=
  ∃ a b, s.body = a ++ d ++ b ∧ off = s.base + a.length

theorem InBody.grow {s s' : St} {off : Nat} {d : List Nat} (g : Grow s s') (h : InBody s off d) : InBody s' off d := by
  obtain ⟨a, b, hb, ho⟩ := h
  obtain ⟨gb, ⟨m, gm⟩⟩ := g
  exact ⟨a, b ++ m, by rw [gm, hb]; simp, by rw [gb]; exact ho⟩

/-- a chunk of the body is the corresponding slice of the complete file -/
theorem InBody.slice {s : St} {off : Nat} {d : List Nat} (pre : List Nat) (hpre : pre.length = s.base)
    (h : InBody s off d) : slice (pre ++ s.body) off d.length = some d := by
  obtain ⟨a, b, hb, ho⟩ := h
  unfold Spec.Elf.slice
  have hlen : off + d.length ≤ (pre ++ s.body).length := by
    rw [hb, ho, ← hpre]; simp; omega
  rw [if_pos hlen]
  have e : pre ++ s.body = (pre ++ a) ++ (d ++ b) := by rw [hb]; simp
  have e2 : off = (pre ++ a).length := by rw [ho, ← hpre]; simp
  rw [e, e2, List.drop_left]
  simp

/-! ### `write_images` -/

/-- pointwise relation of two lists of the same length -/
inductive All2 {α β : Type} (R : α → β → Prop) : List α → List β → Prop
  | nil : All2 R [] []
  | cons {a : α} {b : β} {as : List α} {bs : List β} : R a b → All2 R as bs → All2 R (a :: as) (b :: bs)

theorem All2.length {α β : Type} {R : α → β → Prop} {as : List α} {bs : List β} (h : All2 R as bs) :
    as.length = bs.length := by
  induction h with
  | nil => rfl
  | cons _ _ ih => simp [ih]

theorem All2.imp {α β : Type} {R S : α → β → Prop} {as : List α} {bs : List β} (f : ∀ a b, R a b → S a b)
    (h : All2 R as bs) : All2 S as bs := by
  induction h with
  | nil => exact .nil
  | cons h1 _ ih => exact .cons (f _ _ h1) ih

def imgFlags (img : Img) : Int := if img.name = [99, 111, 100, 101] then 5 else 6

/-- the program header `write_images` creates for an image whose data went to file offset `off` -/
def phdrOf (img : Img) (off len : Nat) : Hdr :=
  [(.p_type, 1), (.p_flags, imgFlags img), (.p_offset, off), (.p_vaddr, img.address),
   (.p_paddr, img.address), (.p_filesz, len), (.p_memsz, len), (.p_align, pageSize)]

/-- program header `ph` describes image `img`, whose data is in the file where `ph` says -/
def SegOK (s : St) (img : Img) (ph : Hdr) : Prop :=
  ∃ d off, img.data = .ok d ∧ InBody s off d ∧ off % pageSize = img.address % pageSize ∧
    ph = phdrOf img off d.length

theorem SegOK.grow {s s' : St} {img : Img} {ph : Hdr} (g : Grow s s') (h : SegOK s img ph) : SegOK s' img ph := by
  obtain ⟨d, off, h1, h2, h3, h4⟩ := h
  exact ⟨d, off, h1, h2.grow g, h3, h4⟩

theorem writeImage_eq {s s' : St} {img : Img} (h : s.writeImage {} img = .ok s') :
    ∃ s1 d, s.alignTo pageSize = .ok s1 ∧ img.data = .ok d ∧
      s' = { (St.write (genImageSectionHeaders (St.tell (s1.write (zeros (img.address % pageSize)))) img.address
                (s1.write (zeros (img.address % pageSize))) img.sections) d) with
             phdrs := (genImageSectionHeaders (St.tell (s1.write (zeros (img.address % pageSize)))) img.address
                (s1.write (zeros (img.address % pageSize))) img.sections).phdrs ++
                [phdrOf img (St.tell (s1.write (zeros (img.address % pageSize)))) d.length] } := by
  unfold St.writeImage at h
  split at h
  · cases h
  · rename_i s1 h1
    simp only [Bool.false_eq_true, if_false] at h
    split at h
    · cases h
    · rename_i d hd
      injection h with h
      exact ⟨s1, d, h1, hd, h.symm⟩

theorem genSectionHeader_body (s : St) (sec : Sec) (off : Int) :
    (s.genSectionHeader sec off).body = s.body ∧ (s.genSectionHeader sec off).base = s.base := by
  have h := addHeader_frame s sec.name (fun nm => secHdr nm sec off) true
  exact ⟨h.2.1, h.1⟩

theorem genImageSectionHeaders_body (fo ia : Nat) : ∀ (secs : List Sec) (s : St),
    (genImageSectionHeaders fo ia s secs).body = s.body ∧ (genImageSectionHeaders fo ia s secs).base = s.base := by
  intro secs
  induction secs with
  | nil => intro s; exact ⟨rfl, rfl⟩
  | cons sec rest ih =>
    intro s
    simp only [genImageSectionHeaders]
    have h1 := ih (s.genSectionHeader sec ((fo : Int) + ((sec.address : Int) - ia)))
    have h2 := genSectionHeader_body s sec ((fo : Int) + ((sec.address : Int) - ia))
    exact ⟨h1.1.trans h2.1, h1.2.trans h2.2⟩

theorem writeImage_spec {s s' : St} {img : Img} (h : s.writeImage {} img = .ok s') :
    Grow s s' ∧ ∃ ph, s'.phdrs = s.phdrs ++ [ph] ∧ SegOK s' img ph := by
  obtain ⟨s1, d, h1, hd, he⟩ := writeImage_eq h
  have ha := alignTo_spec h1
  have p1 : Post s s1 := alignTo_post h1
  generalize hs2 : s1.write (zeros (img.address % pageSize)) = s2 at he
  have p2 : Post s1 s2 := by rw [← hs2]; exact write_post _ _
  have p3 := genImageSectionHeaders_post s2.tell img.address img.sections s2
  have b3 := genImageSectionHeaders_body s2.tell img.address img.sections s2
  generalize hs3 : genImageSectionHeaders s2.tell img.address s2 img.sections = s3 at he p3 b3
  have p13 : Post s s3 := Post.trans p1 (Post.trans p2 p3)
  subst he
  refine ⟨?_, phdrOf img s2.tell d.length, ?_, ?_⟩
  · obtain ⟨b, ⟨m, hm⟩, _⟩ := p13
    exact ⟨b, ⟨m ++ d, by simp [St.write, hm]⟩⟩
  · simp [p13.2.2]
  · refine ⟨d, s2.tell, hd, ?_, ?_, rfl⟩
    · refine ⟨s2.body, [], ?_, ?_⟩
      · simp [St.write, b3.1]
      · simp [St.tell, St.write, b3.2]
    · have h0 := ha.2.2
      rw [← hs2]
      simp only [St.tell, St.write, List.length_append, zeros, List.length_replicate] at h0 ⊢
      have : pageSize = 4096 := rfl
      rw [this] at h0 ⊢
      omega

theorem writeImages_spec : ∀ (imgs : List Img) (s s' : St), writeImages {} s imgs = .ok s' →
    Grow s s' ∧ ∃ phs, s'.phdrs = s.phdrs ++ phs ∧ All2 (SegOK s') imgs phs := by
  intro imgs
  induction imgs with
  | nil =>
    intro s s' h
    simp [writeImages] at h
    subst h
    exact ⟨Grow.refl s, [], by simp, All2.nil⟩
  | cons img rest ih =>
    intro s s' h
    simp only [writeImages] at h
    split at h
    · cases h
    · rename_i s1 h1
      have ⟨g1, ph, hp, hs⟩ := writeImage_spec h1
      have ⟨g2, phs, hps, hf⟩ := ih _ _ h
      refine ⟨g1.trans g2, ph :: phs, by rw [hps, hp]; simp, All2.cons (hs.grow g2) hf⟩

/-! ### inversion of `export_object` -/

theorem exportObject_inv {L : Layouts} {o : Obj} {t : EType} {file : List Nat}
    (h : exportObject {} L o t = .ok file) :
    ∃ (s1 s2 s3 s4 s6 : St) (entry : Int) (shstrndx : Nat) (ehb phb : List Nat),
      (if withImages o t then writeImages {} (initState L o t) o.images else .ok (initState L o t)) = .ok s1 ∧
      writeSections s1 o.sections = .ok s2 ∧
      writeSymbolTable {} L o s2 = .ok s3 ∧
      (if t == .rel then writeRelaTable L o s3 else .ok s3) = .ok s4 ∧
      writeSectionHeaders L (writeStringTable s4) = .ok s6 ∧
      entryValue o t = .ok entry ∧
      assoc strtabName s6.secnums = some shstrndx ∧
      serialize L.ehdr (elfHeader L o t s6 entry shstrndx) = .ok ehb ∧
      s6.phdrs.length = phnum o t ∧
      serializeAll L.phdr s6.phdrs = .ok phb ∧
      file = ident o.arch ++ ehb ++ phb ++ s6.body := by
  unfold exportObject at h
  split at h
  · cases h
  · rename_i s1 h1
    split at h
    · cases h
    · rename_i s2 h2
      split at h
      · cases h
      · rename_i s3 h3
        split at h
        · cases h
        · rename_i s4 h4
          split at h
          · cases h
          · rename_i s6 h6
            split at h
            · cases h
            · rename_i entry h7
              split at h
              · cases h
              · rename_i shstrndx h8
                split at h
                · cases h
                · rename_i ehb h9
                  split at h
                  · cases h
                  · rename_i h10
                    split at h
                    · cases h
                    · rename_i phb h11
                      injection h with h
                      exact ⟨s1, s2, s3, s4, s6, entry, shstrndx, ehb, phb, h1, h2, h3, h4, h6, h7, h8, h9,
                        by simpa using h10, h11, h.symm⟩

/-! ### reading named fields back -/

theorem get_recOf (fs : List Field) (h : Hdr) (n : FName) (f : Field)
    (hfind : fs.find? (fun g => g.name = n) = some f) :
    Rec.get (recOf fs h) n = rawOf f.fmt.size (h.get n) := by
  induction fs with
  | nil => simp at hfind
  | cons g gs ih =>
    simp only [List.find?_cons] at hfind
    by_cases hg : g.name = n
    · simp [hg] at hfind
      subst hfind
      simp [recOf, Rec.get, hg]
    · simp [hg] at hfind
      simp only [recOf, List.map_cons, Rec.get, hg, if_false]
      exact ih hfind

/-- an unsigned field of a record that was written successfully reads back as the value itself -/
theorem get_recOf_unsigned {fs : List Field} {h : Hdr} {n : FName} {f : Field}
    (hfind : fs.find? (fun g => g.name = n) = some f) (hs : f.fmt.signed = false)
    (hfits : ∀ g ∈ fs, fits g.fmt (h.get g.name) = true) :
    ((Rec.get (recOf fs h) n : Nat) : Int) = h.get n := by
  rw [get_recOf fs h n f hfind]
  have hm : f ∈ fs := List.mem_of_find?_eq_some hfind
  have hn : f.name = n := by simpa using List.find?_some hfind
  have := hfits f hm
  rw [hn] at this
  exact (rawOf_of_fits_unsigned hs this).2

/-! ### the file prefix -/

theorem ident_length (a : Arch) : (ident a).length = 16 := by
  cases a <;> rfl

theorem readIdent_ident (a : Arch) (rest : List Nat) : readIdent (ident a ++ rest) = .ok (a.cls, a.en) := by
  cases a <;> simp [readIdent, ident, zeros, Arch.cls, Arch.en, List.replicate]

theorem writeRelaTable_post {L : Layouts} {o : Obj} {s s' : St} (h : writeRelaTable L o s = .ok s') : Post s s' :=
  writeRelaGroups_post _ _ _ h

/-- from the first step's result to the final state only appends happen and no program header is added -/
theorem export_chain {L : Layouts} {o : Obj} {t : EType} {s1 s2 s3 s4 s6 : St}
    (h2 : writeSections s1 o.sections = .ok s2)
    (h3 : writeSymbolTable {} L o s2 = .ok s3)
    (h4 : (if t == .rel then writeRelaTable L o s3 else .ok s3) = .ok s4)
    (h6 : writeSectionHeaders L (writeStringTable s4) = .ok s6) : Post s1 s6 := by
  have p2 := writeSections_post _ _ _ h2
  have p3 := writeSymbolTable_post h3
  have p4 : Post s3 s4 := by
    split at h4
    · exact writeRelaTable_post h4
    · injection h4 with h4; subst h4; exact Post.refl _
  have p5 := writeStringTable_post s4
  have p6 := writeSectionHeaders_post h6
  exact Post.trans p2 (Post.trans p3 (Post.trans p4 (Post.trans p5 p6)))

/-! ### program headers read back as segments that hold the images -/

/-- what an ELF reader must see of a loadable segment written for image `img` -/
def SegFaithful (img : Img) (sg : Segment) : Prop :=
  sg.type = PT_LOAD ∧ sg.vaddr = img.address ∧ sg.paddr = img.address ∧ img.data = .ok sg.data ∧
  sg.filesz = sg.data.length ∧ sg.memsz = sg.data.length ∧ sg.align = 4096 ∧
  sg.offset % 4096 = sg.vaddr % 4096 ∧ (sg.flags : Int) = imgFlags img

theorem mkSegment_phdrOf (c : Cls) (file pre : List Nat) (s : St) (img : Img) (ph : Hdr)
    (hpre : pre.length = s.base) (hfile : file = pre ++ s.body) (hok : SegOK s img ph)
    (hfits : ∀ f ∈ phdr c, fits f.fmt (ph.get f.name) = true) :
    ∃ sg, mkSegment file (recOf (phdr c) ph) = .ok sg ∧ SegFaithful img sg := by
  obtain ⟨d, off, hd, hin, hcong, hph⟩ := hok
  subst hph
  have hsl := hin.slice pre hpre
  rw [← hfile] at hsl
  have g_type := get_recOf_unsigned (fs := phdr c) (n := .p_type) (f := ⟨.p_type, .I⟩) (by cases c <;> rfl) rfl hfits
  have g_flags := get_recOf_unsigned (fs := phdr c) (n := .p_flags) (f := ⟨.p_flags, .I⟩) (by cases c <;> rfl) rfl hfits
  have g_off := get_recOf_unsigned (fs := phdr c) (n := .p_offset) (f := ⟨.p_offset, wordFmt c⟩) (by cases c <;> rfl)
    (by cases c <;> rfl) hfits
  have g_va := get_recOf_unsigned (fs := phdr c) (n := .p_vaddr) (f := ⟨.p_vaddr, wordFmt c⟩) (by cases c <;> rfl)
    (by cases c <;> rfl) hfits
  have g_pa := get_recOf_unsigned (fs := phdr c) (n := .p_paddr) (f := ⟨.p_paddr, wordFmt c⟩) (by cases c <;> rfl)
    (by cases c <;> rfl) hfits
  have g_fs := get_recOf_unsigned (fs := phdr c) (n := .p_filesz) (f := ⟨.p_filesz, wordFmt c⟩) (by cases c <;> rfl)
    (by cases c <;> rfl) hfits
  have g_ms := get_recOf_unsigned (fs := phdr c) (n := .p_memsz) (f := ⟨.p_memsz, wordFmt c⟩) (by cases c <;> rfl)
    (by cases c <;> rfl) hfits
  have g_al := get_recOf_unsigned (fs := phdr c) (n := .p_align) (f := ⟨.p_align, wordFmt c⟩) (by cases c <;> rfl)
    (by cases c <;> rfl) hfits
  simp only [phdrOf, Hdr.get, reduceCtorEq, if_false, if_true] at g_type g_flags g_off g_va g_pa g_fs g_ms g_al
  have e_type : Rec.get (recOf (phdr c) (phdrOf img off d.length)) .p_type = 1 := by
    have : ((Rec.get (recOf (phdr c) (phdrOf img off d.length)) .p_type : Nat) : Int) = ((1 : Nat) : Int) := g_type
    exact Int.ofNat_inj.mp this
  have e_off : Rec.get (recOf (phdr c) (phdrOf img off d.length)) .p_offset = off := Int.ofNat_inj.mp g_off
  have e_va : Rec.get (recOf (phdr c) (phdrOf img off d.length)) .p_vaddr = img.address := Int.ofNat_inj.mp g_va
  have e_pa : Rec.get (recOf (phdr c) (phdrOf img off d.length)) .p_paddr = img.address := Int.ofNat_inj.mp g_pa
  have e_fs : Rec.get (recOf (phdr c) (phdrOf img off d.length)) .p_filesz = d.length := Int.ofNat_inj.mp g_fs
  have e_ms : Rec.get (recOf (phdr c) (phdrOf img off d.length)) .p_memsz = d.length := Int.ofNat_inj.mp g_ms
  have e_al : Rec.get (recOf (phdr c) (phdrOf img off d.length)) .p_align = 4096 := by
    have : ((Rec.get (recOf (phdr c) (phdrOf img off d.length)) .p_align : Nat) : Int) = ((4096 : Nat) : Int) := g_al
    exact Int.ofNat_inj.mp this
  unfold mkSegment
  rw [e_off, e_fs, hsl]
  simp only [e_type, e_ms, e_al, e_va, e_off, e_fs, e_pa]
  have hp : isPow2 4096 = true := by decide
  have hc : img.address % 4096 = off % 4096 := hcong.symm
  simp [PT_LOAD, hp, hc]
  refine ⟨rfl, rfl, rfl, hd, rfl, rfl, rfl, hcong, g_flags⟩

theorem segments_of_all2 (c : Cls) (file pre : List Nat) (s : St) (hpre : pre.length = s.base)
    (hfile : file = pre ++ s.body) : ∀ (imgs : List Img) (phs : List Hdr), All2 (SegOK s) imgs phs →
    (∀ ph ∈ phs, ∀ f ∈ phdr c, fits f.fmt (ph.get f.name) = true) →
    ∃ sgs, mapE (mkSegment file) (phs.map (recOf (phdr c))) = .ok sgs ∧ All2 SegFaithful imgs sgs := by
  intro imgs phs h
  induction h with
  | nil => intro _; exact ⟨[], rfl, .nil⟩
  | cons h1 _ ih =>
    intro hf
    obtain ⟨sg, e1, e2⟩ := mkSegment_phdrOf c file pre s _ _ hpre hfile h1 (hf _ (by simp))
    obtain ⟨sgs, e3, e4⟩ := ih (fun ph hph => hf ph (by simp [hph]))
    exact ⟨sg :: sgs, by simp [mapE, e1, e3], .cons e2 e4⟩

/-! ### the ELF header of a written file -/

/-- everything the later theorems need about a successfully written file, in one place -/
theorem export_facts {o : Obj} {t : EType} {file : List Nat}
    (h : exportObject {} (gabiLayouts o.arch.cls o.arch.en) o t = .ok file) :
    ∃ (s6 : St) (entry : Int) (shstrndx : Nat) (ehb phb : List Nat) (phs : List Hdr),
      let L := gabiLayouts o.arch.cls o.arch.en
      let eh := elfHeader L o t s6 entry shstrndx
      file = ident o.arch ++ ehb ++ phb ++ s6.body ∧
      (ident o.arch ++ ehb ++ phb).length = s6.base ∧
      ehb.length = recSize (ehdr o.arch.cls) ∧
      entryValue o t = .ok entry ∧
      assoc strtabName s6.secnums = some shstrndx ∧
      readRec o.arch.en (ehdr o.arch.cls) (ehb ++ (phb ++ s6.body)) = some (recOf (ehdr o.arch.cls) eh) ∧
      (∀ f ∈ ehdr o.arch.cls, fits f.fmt (eh.get f.name) = true) ∧
      s6.phdrs = phs ∧ phs.length = phnum o t ∧
      serializeAll ((phdr o.arch.cls).map (toP o.arch.en)) phs = .ok phb ∧
      (withImages o t = true → All2 (SegOK s6) o.images phs) := by
  obtain ⟨s1, s2, s3, s4, s6, entry, shstrndx, ehb, phb, h1, h2, h3, h4, h6, h7, h8, h9, h10, h11, hfile⟩ :=
    exportObject_inv h
  have pc := export_chain h2 h3 h4 h6
  have ⟨r1, r2, r3⟩ := serialize_read o.arch.en (ehdr o.arch.cls) _ ehb (phb ++ s6.body) h9
  have ⟨t1, t2, t3⟩ := serializeAll_read o.arch.en (phdr o.arch.cls) s6.phdrs phb [] [] h11
  -- the first step
  have hfirst : Grow (initState (gabiLayouts o.arch.cls o.arch.en) o t) s1 ∧
      (withImages o t = true → All2 (SegOK s1) o.images s1.phdrs) := by
    split at h1
    · rename_i hw
      have ⟨g, phs, hp, ha⟩ := writeImages_spec _ _ _ h1
      refine ⟨g, fun _ => ?_⟩
      simp [initState] at hp
      rw [hp]; exact ha
    · rename_i hw
      injection h1 with h1
      subst h1
      exact ⟨Grow.refl _, fun hh => absurd hh hw⟩
  have hbase : s6.base = 16 + recSize (ehdr o.arch.cls) + phnum o t * phentsize (gabiLayouts o.arch.cls o.arch.en) o t := by
    rw [pc.1, hfirst.1.1]
    simp [initState, gabiLayouts, hsize_map]
  refine ⟨s6, entry, shstrndx, ehb, phb, s6.phdrs, hfile, ?_, r2, h7, h8, r1, r3, rfl, h10, h11, ?_⟩
  · simp only [List.length_append, ident_length, r2, t2, hbase, h10]
    unfold phentsize phnum
    split
    · simp [gabiLayouts, hsize_map]
    · simp
  · intro hw
    rw [pc.2.2]
    exact All2.imp (fun _ _ hs => hs.grow pc.grow) (hfirst.2 hw)

theorem file_drop16 (a : Arch) (rest : List Nat) : (ident a ++ rest).drop 16 = rest := by
  have := ident_length a
  rw [← this]; simp

/-- field `n` (unsigned, present in the ELF header layout) of the header that was written -/
theorem ehdr_field {c : Cls} {eh : Hdr} (n : FName) (f : Field)
    (hfind : (ehdr c).find? (fun g => g.name = n) = some f) (hs : f.fmt.signed = false)
    (hfits : ∀ g ∈ ehdr c, fits g.fmt (eh.get g.name) = true) :
    ((Rec.get (recOf (ehdr c) eh) n : Nat) : Int) = eh.get n :=
  get_recOf_unsigned hfind hs hfits

theorem readEhdr_of_facts {o : Obj} {t : EType} {file ehb phb : List Nat} {s6 : St} {entry : Int} {shstrndx : Nat}
    (hfile : file = ident o.arch ++ ehb ++ phb ++ s6.body)
    (hread : readRec o.arch.en (ehdr o.arch.cls) (ehb ++ (phb ++ s6.body)) =
      some (recOf (ehdr o.arch.cls) (elfHeader (gabiLayouts o.arch.cls o.arch.en) o t s6 entry shstrndx)))
    (hfits : ∀ f ∈ ehdr o.arch.cls,
      fits f.fmt ((elfHeader (gabiLayouts o.arch.cls o.arch.en) o t s6 entry shstrndx).get f.name) = true) :
    readIdent file = .ok (o.arch.cls, o.arch.en) ∧
    readEhdr file o.arch.cls o.arch.en =
      .ok (recOf (ehdr o.arch.cls) (elfHeader (gabiLayouts o.arch.cls o.arch.en) o t s6 entry shstrndx)) := by
  refine ⟨?_, ?_⟩
  · rw [hfile, List.append_assoc, List.append_assoc]
    exact readIdent_ident _ _
  · unfold readEhdr
    have hd : file.drop 16 = ehb ++ (phb ++ s6.body) := by
      rw [hfile, List.append_assoc, List.append_assoc]
      exact file_drop16 _ _
    rw [hd, hread]
    have g_ver := ehdr_field (c := o.arch.cls) .e_version ⟨.e_version, .I⟩ (by cases o.arch.cls <;> rfl) rfl hfits
    have g_sz := ehdr_field (c := o.arch.cls) .e_ehsize ⟨.e_ehsize, .H⟩ (by cases o.arch.cls <;> rfl) rfl hfits
    have v_ver : (elfHeader (gabiLayouts o.arch.cls o.arch.en) o t s6 entry shstrndx).get .e_version = 1 := rfl
    have v_sz : (elfHeader (gabiLayouts o.arch.cls o.arch.en) o t s6 entry shstrndx).get .e_ehsize
        = ((16 + hsize (gabiLayouts o.arch.cls o.arch.en).ehdr : Nat) : Int) := by
      simp [elfHeader, Hdr.get]
    rw [v_ver] at g_ver
    rw [v_sz] at g_sz
    have e_ver := Int.ofNat_inj.mp (show ((_ : Nat) : Int) = ((1 : Nat) : Int) from g_ver)
    have e_sz := Int.ofNat_inj.mp g_sz
    have h2 : hsize (gabiLayouts o.arch.cls o.arch.en).ehdr = recSize (ehdr o.arch.cls) := by
      simp [gabiLayouts, hsize_map]
    rw [h2] at e_sz
    simp [e_ver, e_sz]

theorem export_readEhdr {o : Obj} {t : EType} {file : List Nat}
    (h : exportObject {} (gabiLayouts o.arch.cls o.arch.en) o t = .ok file) :
    ∃ (s6 : St) (entry : Int) (shstrndx : Nat),
      let eh := elfHeader (gabiLayouts o.arch.cls o.arch.en) o t s6 entry shstrndx
      readIdent file = .ok (o.arch.cls, o.arch.en) ∧
      readEhdr file o.arch.cls o.arch.en = .ok (recOf (ehdr o.arch.cls) eh) ∧
      entryValue o t = .ok entry ∧
      (∀ f ∈ ehdr o.arch.cls, fits f.fmt (eh.get f.name) = true) := by
  obtain ⟨s6, entry, shstrndx, ehb, phb, phs, hfile, hlen, hel, hent, hstr, hread, hfits, _, _, _, _⟩ := export_facts h
  have ⟨a, b⟩ := readEhdr_of_facts hfile hread hfits
  exact ⟨s6, entry, shstrndx, a, b, hent, hfits⟩

/-- executables: the reader's segments are the images -/
theorem export_segments {o : Obj} {file : List Nat}
    (h : exportObject {} (gabiLayouts o.arch.cls o.arch.en) o .exec = .ok file) :
    ∃ hd sgs, readEhdr file o.arch.cls o.arch.en = .ok hd ∧
      readSegments file o.arch.cls o.arch.en hd = .ok sgs ∧ All2 SegFaithful o.images sgs := by
  obtain ⟨s6, entry, shstrndx, ehb, phb, phs, hfile, hlen, hel, hent, hstr, hread, hfits, hph, hphn, hser, hall⟩ :=
    export_facts h
  have ⟨_, hrd⟩ := readEhdr_of_facts hfile hread hfits
  have g_phnum := ehdr_field (c := o.arch.cls) .e_phnum ⟨.e_phnum, .H⟩ (by cases o.arch.cls <;> rfl) rfl hfits
  have g_phent := ehdr_field (c := o.arch.cls) .e_phentsize ⟨.e_phentsize, .H⟩ (by cases o.arch.cls <;> rfl) rfl hfits
  have g_phoff := ehdr_field (c := o.arch.cls) .e_phoff ⟨.e_phoff, wordFmt o.arch.cls⟩ (by cases o.arch.cls <;> rfl)
    (by cases o.arch.cls <;> rfl) hfits
  have v_phnum : (elfHeader (gabiLayouts o.arch.cls o.arch.en) o .exec s6 entry shstrndx).get .e_phnum
      = ((phnum o .exec : Nat) : Int) := by simp [elfHeader, Hdr.get]
  have v_phent : (elfHeader (gabiLayouts o.arch.cls o.arch.en) o .exec s6 entry shstrndx).get .e_phentsize
      = ((phentsize (gabiLayouts o.arch.cls o.arch.en) o .exec : Nat) : Int) := by simp [elfHeader, Hdr.get]
  have v_phoff : (elfHeader (gabiLayouts o.arch.cls o.arch.en) o .exec s6 entry shstrndx).get .e_phoff
      = ((phoff (gabiLayouts o.arch.cls o.arch.en) o .exec : Nat) : Int) := by simp [elfHeader, Hdr.get]
  rw [v_phnum] at g_phnum
  rw [v_phent] at g_phent
  rw [v_phoff] at g_phoff
  have e_phnum := Int.ofNat_inj.mp g_phnum
  have e_phent := Int.ofNat_inj.mp g_phent
  have e_phoff := Int.ofNat_inj.mp g_phoff
  have ⟨t1, t2, t3⟩ := serializeAll_read o.arch.en (phdr o.arch.cls) phs phb (ident o.arch ++ ehb) s6.body hser
  by_cases hw : withImages o .exec = true
  · have hall' := hall hw
    have ⟨sgs, m1, m2⟩ := segments_of_all2 o.arch.cls file (ident o.arch ++ ehb ++ phb) s6 hlen hfile o.images phs hall' t3
    have hn : phnum o .exec = o.images.length := by simp [phnum, hw]
    have hne : o.images ≠ [] := by
      intro he; simp [withImages, he] at hw
    have hn0 : ¬ phnum o .exec = 0 := by
      rw [hn]; intro h0; exact hne (List.length_eq_zero_iff.mp h0)
    have hps : phentsize (gabiLayouts o.arch.cls o.arch.en) o .exec = recSize (phdr o.arch.cls) := by
      simp [phentsize, hw, gabiLayouts, hsize_map]
    have hpo : phoff (gabiLayouts o.arch.cls o.arch.en) o .exec = (ident o.arch ++ ehb).length := by
      simp [phoff, hw, gabiLayouts, hsize_map, ident_length, hel]
    have hlen2 : ¬ file.length < (ident o.arch ++ ehb).length + phnum o .exec * recSize (phdr o.arch.cls) := by
      rw [hfile, ← hphn]
      simp only [List.length_append, t2]
      omega
    have ht : readTable file o.arch.en (phdr o.arch.cls) (recSize (phdr o.arch.cls)) (ident o.arch ++ ehb).length
        (phnum o .exec) = some (phs.map (recOf (phdr o.arch.cls))) := by
      rw [hfile, ← hphn]; exact t1
    refine ⟨_, sgs, hrd, ?_, m2⟩
    unfold readSegments
    simp only [e_phnum, e_phent, e_phoff]
    rw [if_neg hn0, hps, if_neg (by simp), hpo, if_neg hlen2, ht]
    exact m1
  · have hn : phnum o .exec = 0 := by simp [phnum, hw]
    have himg : o.images = [] := by
      cases hi : o.images with
      | nil => rfl
      | cons a b => simp [withImages, hi] at hw
    refine ⟨_, [], hrd, ?_, by rw [himg]; exact .nil⟩
    unfold readSegments
    simp only [e_phnum]
    rw [if_pos hn]

/-! ### signed fields (r_addend) -/

theorem ts32 (v : Int) (h1 : -2147483648 ≤ v) (h2 : v < 2147483648) :
    toSigned 32 ((v % 4294967296).toNat) = v := by
  unfold toSigned
  simp only [Nat.reduceSub, Nat.reducePow, Int.reducePow]
  split <;> omega

theorem ts64 (v : Int) (h1 : -9223372036854775808 ≤ v) (h2 : v < 9223372036854775808) :
    toSigned 64 ((v % 18446744073709551616).toNat) = v := by
  unfold toSigned
  simp only [Nat.reduceSub, Nat.reducePow, Int.reducePow]
  split <;> omega

/-- a signed field that `struct.pack` accepted reads back (two's complement) as the value itself -/
theorem toSigned_rawOf {f : Fmt} {v : Int} (hs : f.signed = true) (h : fits f v = true) :
    toSigned (8 * f.size) (rawOf f.size v) = v := by
  cases f <;> simp [Fmt.signed] at hs
  · simp [fits, Fmt.signed, Fmt.size] at h
    exact ts32 v (of_decide_eq_true h).1 (of_decide_eq_true h).2
  · simp [fits, Fmt.signed, Fmt.size] at h
    exact ts64 v (of_decide_eq_true h).1 (of_decide_eq_true h).2

/-! ### symbol order -/

theorem orderSymbols_perm (syms : List Sym) : (orderSymbols syms).Perm syms := by
  unfold orderSymbols
  have := List.filter_append_perm (fun s : Sym => !s.isGlobal) syms
  refine List.Perm.trans ?_ this
  apply List.Perm.append_left
  have e : (fun s : Sym => s.isGlobal) = (fun s : Sym => !(fun s : Sym => !s.isGlobal) s) := by
    funext s; simp
  rw [e]

theorem orderSymbols_locals_first (syms : List Sym) :
    let n := (syms.filter (fun s => !s.isGlobal)).length
    (∀ s ∈ (orderSymbols syms).take n, s.isGlobal = false) ∧
    (∀ s ∈ (orderSymbols syms).drop n, s.isGlobal = true) := by
  simp only [orderSymbols]
  constructor
  · intro s hs
    rw [List.take_left] at hs
    simpa using (List.mem_filter.mp hs).2
  · intro s hs
    rw [List.drop_left] at hs
    simpa using (List.mem_filter.mp hs).2

/-- the gABI reader's `sh_info` check accepts the symbol order the writer produces -/
theorem checkInfo_ordered (syms : List Sym) (null : Symbol) (h0 : null.bind = 0) (f : Sym → Symbol)
    (hf : ∀ s, (f s).bind = if s.isGlobal then 1 else 0) :
    checkInfo ((syms.filter (fun s => !s.isGlobal)).length + 1) (null :: (orderSymbols syms).map f) = .ok () := by
  unfold checkInfo orderSymbols
  have hlen : ¬ (null :: (syms.filter (fun s => !s.isGlobal) ++ syms.filter (fun s => s.isGlobal)).map f).length <
      (syms.filter (fun s => !s.isGlobal)).length + 1 := by
    simp
  rw [if_neg hlen]
  have htake : (null :: (syms.filter (fun s => !s.isGlobal) ++ syms.filter (fun s => s.isGlobal)).map f).take
      ((syms.filter (fun s => !s.isGlobal)).length + 1) = null :: (syms.filter (fun s => !s.isGlobal)).map f := by
    simp [List.take_succ_cons, List.map_append]
  have hdrop : (null :: (syms.filter (fun s => !s.isGlobal) ++ syms.filter (fun s => s.isGlobal)).map f).drop
      ((syms.filter (fun s => !s.isGlobal)).length + 1) = (syms.filter (fun s => s.isGlobal)).map f := by
    simp [List.map_append]
  rw [htake, hdrop]
  have h1 : (null :: (syms.filter (fun s => !s.isGlobal)).map f).any (fun s => s.bind != STB_LOCAL) = false := by
    simp [List.any_cons, h0, STB_LOCAL, hf]
  have h2 : ((syms.filter (fun s => s.isGlobal)).map f).any (fun s => s.bind == STB_LOCAL) = false := by
    simp [STB_LOCAL, hf]
  simp [h1, h2]

/-! ### table entries are read back by the reader's own entry parsers -/

theorem mkRela_relaHdr (c : Cls) (off rsym rtype nsyms : Nat) (add : Int)
    (hfits : ∀ f ∈ rela c, fits f.fmt ((relaHdr c off rsym rtype add).get f.name) = true)
    (hs : rsym < nsyms) (ht : rtype < (match c with | .c32 => 256 | .c64 => 4294967296)) :
    mkRela c nsyms (recOf (rela c) (relaHdr c off rsym rtype add)) =
      .ok { offset := off, sym := rsym, type := rtype, addend := add } := by
  have g_off := get_recOf_unsigned (fs := rela c) (n := .r_offset) (f := ⟨.r_offset, wordFmt c⟩) (by cases c <;> rfl)
    (by cases c <;> rfl) hfits
  have g_info := get_recOf_unsigned (fs := rela c) (n := .r_info) (f := ⟨.r_info, wordFmt c⟩) (by cases c <;> rfl)
    (by cases c <;> rfl) hfits
  have g_add := get_recOf (rela c) (relaHdr c off rsym rtype add) .r_addend ⟨.r_addend, swordFmt c⟩ (by cases c <;> rfl)
  have f_add : fits (swordFmt c) add = true := by
    have := hfits ⟨.r_addend, swordFmt c⟩ (by cases c <;> simp [rela])
    simpa [relaHdr, Hdr.get] using this
  have v_off : (relaHdr c off rsym rtype add).get .r_offset = (off : Int) := by simp [relaHdr, Hdr.get]
  have v_add : (relaHdr c off rsym rtype add).get .r_addend = add := by simp [relaHdr, Hdr.get]
  rw [v_off] at g_off
  rw [v_add] at g_add
  have e_off := Int.ofNat_inj.mp g_off
  unfold mkRela
  cases c
  · have v_info : (relaHdr .c32 off rsym rtype add).get .r_info = ((rsym * 256 + rtype : Nat) : Int) := by
      simp [relaHdr, Hdr.get]
    rw [v_info] at g_info
    have e_info := Int.ofNat_inj.mp g_info
    have hts := toSigned_rawOf (f := .i) rfl f_add
    simp only [e_info, e_off, g_add] at *
    have h1 : (rsym * 256 + rtype) / 256 = rsym := by omega
    have h2 : (rsym * 256 + rtype) % 256 = rtype := by omega
    simp [h1, h2, Nat.not_le.mpr hs]
    exact hts
  · have v_info : (relaHdr .c64 off rsym rtype add).get .r_info = ((rsym * 4294967296 + rtype : Nat) : Int) := by
      simp [relaHdr, Hdr.get]
    rw [v_info] at g_info
    have e_info := Int.ofNat_inj.mp g_info
    have hts := toSigned_rawOf (f := .q) rfl f_add
    simp only [e_info, e_off, g_add] at *
    have h1 : (rsym * 4294967296 + rtype) / 4294967296 = rsym := by omega
    have h2 : (rsym * 4294967296 + rtype) % 4294967296 = rtype := by omega
    simp [h1, h2, Nat.not_le.mpr hs]
    exact hts

theorem mkSymbol_symHdr (c : Cls) (strtab name : List Nat) (nsec nm shndx value size : Nat) (g : Bool) (t : SymTyp)
    (hname : strAt strtab nm = some name)
    (hfits : ∀ f ∈ sym c, fits f.fmt ((symHdr nm g t shndx value size).get f.name) = true)
    (hndx : shndx < nsec ∨ SHN_LORESERVE ≤ shndx) :
    mkSymbol strtab nsec (recOf (sym c) (symHdr nm g t shndx value size)) =
      .ok { name := name, value := value, size := size, bind := if g then 1 else 0, type := t.st, other := 0,
            shndx := shndx } := by
  have g_name := get_recOf_unsigned (fs := sym c) (n := .st_name) (f := ⟨.st_name, .I⟩) (by cases c <;> rfl) rfl hfits
  have g_info := get_recOf_unsigned (fs := sym c) (n := .st_info) (f := ⟨.st_info, .B⟩) (by cases c <;> rfl) rfl hfits
  have g_other := get_recOf_unsigned (fs := sym c) (n := .st_other) (f := ⟨.st_other, .B⟩) (by cases c <;> rfl) rfl hfits
  have g_ndx := get_recOf_unsigned (fs := sym c) (n := .st_shndx) (f := ⟨.st_shndx, .H⟩) (by cases c <;> rfl) rfl hfits
  have g_val := get_recOf_unsigned (fs := sym c) (n := .st_value) (f := ⟨.st_value, wordFmt c⟩) (by cases c <;> rfl)
    (by cases c <;> rfl) hfits
  have g_size := get_recOf_unsigned (fs := sym c) (n := .st_size) (f := ⟨.st_size, wordFmt c⟩) (by cases c <;> rfl)
    (by cases c <;> rfl) hfits
  have v1 : (symHdr nm g t shndx value size).get .st_name = (nm : Int) := by simp [symHdr, Hdr.get]
  have v2 : (symHdr nm g t shndx value size).get .st_info = (((if g then 1 else 0) * 16 + t.st : Nat) : Int) := by
    simp [symHdr, Hdr.get]
  have v3 : (symHdr nm g t shndx value size).get .st_other = ((0 : Nat) : Int) := by simp [symHdr, Hdr.get]
  have v4 : (symHdr nm g t shndx value size).get .st_shndx = (shndx : Int) := by simp [symHdr, Hdr.get]
  have v5 : (symHdr nm g t shndx value size).get .st_value = (value : Int) := by simp [symHdr, Hdr.get]
  have v6 : (symHdr nm g t shndx value size).get .st_size = (size : Int) := by simp [symHdr, Hdr.get]
  rw [v1] at g_name; rw [v2] at g_info; rw [v3] at g_other; rw [v4] at g_ndx; rw [v5] at g_val; rw [v6] at g_size
  have e1 := Int.ofNat_inj.mp g_name
  have e2 := Int.ofNat_inj.mp g_info
  have e3 := Int.ofNat_inj.mp g_other
  have e4 := Int.ofNat_inj.mp g_ndx
  have e5 := Int.ofNat_inj.mp g_val
  have e6 := Int.ofNat_inj.mp g_size
  unfold mkSymbol
  rw [e1, hname]
  simp only [e2, e3, e4, e5, e6]
  have hbad : ¬ (nsec ≤ shndx ∧ shndx < SHN_LORESERVE) := by omega
  rw [if_neg hbad]
  have hst : t.st < 16 := by cases t <;> decide
  have b1 : ((if g then 1 else 0) * 16 + t.st) / 16 = (if g then 1 else 0) := by cases g <;> simp <;> omega
  have b2 : ((if g then 1 else 0) * 16 + t.st) % 16 = t.st := by cases g <;> simp <;> omega
  rw [b1, b2]

/-! ### what the reader's segments say about the file -/

theorem slice_getElem {file d : List Nat} {off n : Nat} (h : slice file off n = some d) (i : Nat) (hi : i < n) :
    file[off + i]? = d[i]? := by
  unfold Spec.Elf.slice at h
  split at h
  · injection h with h
    subst h
    rw [List.getElem?_take_of_lt hi, List.getElem?_drop]
  · cases h

theorem mkSegment_data {file : List Nat} {p : Rec} {sg : Segment} (h : mkSegment file p = .ok sg) :
    slice file sg.offset sg.filesz = some sg.data := by
  unfold mkSegment at h
  split at h
  · cases h
  · rename_i d hd
    simp only at h
    split at h
    · cases h
    · split at h
      · cases h
      · split at h
        · cases h
        · injection h with h
          subst h
          exact hd

theorem mapE_mem {α β ε : Type} {f : α → Except ε β} : ∀ {as : List α} {bs : List β}, mapE f as = .ok bs →
    ∀ b ∈ bs, ∃ a ∈ as, f a = .ok b := by
  intro as
  induction as with
  | nil => intro bs h b hb; simp [mapE] at h; subst h; simp at hb
  | cons a rest ih =>
    intro bs h b hb
    simp only [mapE] at h
    split at h
    · cases h
    · rename_i b0 h0
      split at h
      · cases h
      · rename_i bs0 h1
        injection h with h
        subst h
        simp at hb
        rcases hb with hb | hb
        · subst hb; exact ⟨a, by simp, h0⟩
        · obtain ⟨a', ha', hf⟩ := ih h1 b hb
          exact ⟨a', by simp [ha'], hf⟩

theorem readSegments_data {file : List Nat} {c : Cls} {e : End} {hd : Rec} {sgs : List Segment}
    (h : readSegments file c e hd = .ok sgs) : ∀ sg ∈ sgs, slice file sg.offset sg.filesz = some sg.data := by
  unfold readSegments at h
  simp only at h
  split at h
  · injection h with h; subst h; simp
  · split at h
    · cases h
    · split at h
      · cases h
      · split at h
        · cases h
        · intro sg hsg
          obtain ⟨p, _, hp⟩ := mapE_mem h sg hsg
          exact mkSegment_data hp

/-- with `p_offset ≡ p_vaddr (mod page)`, mapping whole file pages shows the segment's bytes at its addresses -/
theorem pageMapped_eq {file : List Nat} {sg : Segment} (hs : slice file sg.offset sg.filesz = some sg.data)
    (hc : sg.offset % 4096 = sg.vaddr % 4096) (i : Nat) (hi : i < sg.filesz) :
    pageMappedByte file 4096 sg (sg.vaddr + i) = sg.data[i]? := by
  unfold pageMappedByte
  rw [← slice_getElem hs i hi]
  congr 1
  omega

/-! ### concrete objects for the examples in Props/C17.lean -/

/-- the layouts ppci used before commit ec1546e: every field packed in native (little-endian) order -/
def legacyLayouts (c : Cls) : Layouts :=
  let n (f : Field) : PField := ⟨f.name, .native, f.fmt⟩
  { ehdr := (ehdr c).map n, phdr := (phdr c).map n, shdr := (shdr c).map n,
    sym := (sym c).map n, rela := (rela c).map n, dyn := (dyn c).map n }

def codeN : List Nat := [99, 111, 100, 101]

/-- a relocatable object: two sections, a local, a global in the 2nd section, an absolute and an undefined symbol -/
def tinyRel (a : Arch) : Obj :=
  { arch := a,
    sections := [⟨codeN, 0, [1, 2, 3, 4, 5], 4⟩, ⟨dataName, 0, [9, 8], 8⟩],
    symbols := [⟨0, [103], true, some 1, some dataName, .object, 4⟩, ⟨1, [108], false, some 3, some codeN, .func, 0⟩,
                ⟨2, [97], true, some 4660, none, .object, 0⟩, ⟨3, [117], true, none, none, .func, 0⟩],
    relocs := [⟨.ok 2, 0, codeN, 1, -4⟩, ⟨.ok 1, 1, dataName, 0, 7⟩],
    images := [], entry := none }

/-- an executable with one image at the non page-aligned address 0x10004 -/
def tinyExec : Obj :=
  { arch := .arm,
    sections := [⟨codeN, 0x10004, [1, 2, 3, 4], 4⟩],
    symbols := [⟨0, [103], true, some 2, some codeN, .func, 0⟩],
    relocs := [],
    images := [⟨codeN, 0x10004, [⟨codeN, 0x10004, [1, 2, 3, 4], 4⟩]⟩], entry := some 0 }

structure SecRow where
  name : List Nat
  type : Nat
  addr : Nat
  data : List Nat
  deriving DecidableEq, Repr

structure SymRow where
  name : List Nat
  value : Nat
  bind : Nat
  type : Nat
  shndx : Nat
  deriving DecidableEq, Repr

structure RelaRow where
  offset : Nat
  sym : Nat
  type : Nat
  addend : Int
  deriving DecidableEq, Repr

structure SegRow where
  vaddr : Nat
  offset : Nat
  data : List Nat
  deriving DecidableEq, Repr

structure SymTabRow where
  info : Nat
  syms : List SymRow
  deriving DecidableEq, Repr

structure RelaTabRow where
  target : Nat
  entries : List RelaRow
  deriving DecidableEq, Repr

/-- what the examples compare: the reader's view, reduced to the data the property talks about -/
structure Summary where
  cls : Cls
  en : End
  machine : Nat
  entry : Nat
  sections : List SecRow
  symbols : List SymTabRow
  relas : List RelaTabRow
  segments : List SegRow
  deriving DecidableEq, Repr

def summarize (v : File) : Summary :=
  { cls := v.cls, en := v.en, machine := v.machine, entry := v.entry,
    sections := v.sections.map (fun s => ⟨s.name, s.type, s.addr, s.data⟩),
    symbols := v.symtabs.map (fun t => ⟨t.firstNonLocal, t.syms.map (fun y => ⟨y.name, y.value, y.bind, y.type, y.shndx⟩)⟩),
    relas := v.relatabs.map (fun t => ⟨t.target, t.entries.map (fun r => ⟨r.offset, r.sym, r.type, r.addend⟩)⟩),
    segments := v.segments.map (fun s => ⟨s.vaddr, s.offset, s.data⟩) }

inductive Outcome
  | readBack (s : Summary)
  | rejected (e : Spec.Elf.Err)
  | noFile (e : Model.ElfW.Err)
  deriving DecidableEq, Repr

/-- write, then read with the gABI reader -/
def outcome (r : Except Model.ElfW.Err (List Nat)) : Outcome :=
  match r with
  | .error e => .noFile e
  | .ok f =>
    match Spec.Elf.read f with
    | .error e => .rejected e
    | .ok v => .readBack (summarize v)

end Proofs.ElfW
