import PpciVerif.Model.Shape
/-!
Soundness of the structuring validator `Model.Shape.check` (C23).

* `Path g o h t`    : `h` is the history of a run of the CFG under oracle `o`
                      that is about to execute block `t`.
* `chk_sound`       : every outcome of executing an accepted skeleton from a
                      state that matches the abstract pre-state matches the
                      abstract post-state / a recorded branch / a CFG return.
* `chk_progress`    : for every `k` there is a fuel with which the execution has
                      completed or has executed `k` more blocks.
-/
namespace Proofs.Shape
open Model.Shape

/-! ### CFG paths -/

inductive Path (g : Cfg) (o : Oracle) : List Nat → Nat → Prop
  | start : Path g o [] g.entry
  | jmp {h b t} : Path g o h b → g.term b = some (.jmp t) → Path g o (b :: h) t
  | cj {h b y n} : Path g o h b → g.term b = some (.cj y n) →
      Path g o (b :: h) (if o (b :: h) then y else n)

theorem run_path {g : Cfg} {o : Oracle} {h : List Nat} {b : Nat} (p : Path g o h b) :
    ∀ k, cfgRun g o (h.length + k) g.entry [] = cfgRun g o k b h := by
  induction p with
  | start => intro k; simp
  | @jmp h b t _ ht ih =>
    intro k
    have := ih (k + 1)
    rw [show (b :: h).length + k = h.length + (k + 1) by simp only [List.length_cons]; omega, this]
    simp [cfgRun, ht]
  | @cj h b y n _ ht ih =>
    intro k
    have := ih (k + 1)
    rw [show (b :: h).length + k = h.length + (k + 1) by simp only [List.length_cons]; omega, this]
    simp [cfgRun, ht]

theorem trace_of_path {g : Cfg} {o : Oracle} {h : List Nat} {b : Nat} (p : Path g o h b) :
    cfgTrace g o h.length = ⟨h, false⟩ := by
  have := run_path p 0
  simpa [cfgTrace, cfgRun] using this

theorem trace_of_ret {g : Cfg} {o : Oracle} {h : List Nat} {b : Nat} (p : Path g o h b)
    (hr : g.term b = some .ret) : cfgTrace g o (h.length + 1) = ⟨b :: h, true⟩ := by
  have := run_path p 1
  simpa [cfgTrace, cfgRun, hr] using this

/-- a finished run does not change with more steps -/
theorem cfgRun_done_stable (g : Cfg) (o : Oracle) : ∀ (k d b : Nat) (h : List Nat),
    (cfgRun g o k b h).done = true → cfgRun g o (k + d) b h = cfgRun g o k b h := by
  intro k
  induction k with
  | zero => intro d b h hd; simp [cfgRun] at hd
  | succ k ih =>
    intro d b h hd
    rw [show k + 1 + d = (k + d) + 1 by omega]
    unfold cfgRun at hd ⊢
    split
    · rfl
    · rfl
    · next t ht => simp only [ht] at hd; exact ih d _ _ hd
    · next y n ht => simp only [ht] at hd; exact ih d _ _ hd

/-- the blocks of a shorter observation are a suffix (= an initial segment in
    execution order) of those of a longer one -/
theorem cfgRun_suffix (g : Cfg) (o : Oracle) : ∀ (k b : Nat) (h : List Nat),
    h <:+ (cfgRun g o k b h).blocks := by
  intro k
  induction k with
  | zero => intro b h; simp [cfgRun]
  | succ k ih =>
    intro b h
    unfold cfgRun
    split
    · simp
    · simp
    · exact List.IsSuffix.trans (List.suffix_cons _ _) (ih _ _)
    · exact List.IsSuffix.trans (List.suffix_cons _ _) (ih _ _)

theorem cfgRun_mono (g : Cfg) (o : Oracle) : ∀ (k d b : Nat) (h : List Nat),
    (cfgRun g o k b h).blocks <:+ (cfgRun g o (k + d) b h).blocks := by
  intro k
  induction k with
  | zero => intro d b h; simpa [cfgRun] using cfgRun_suffix g o d b h
  | succ k ih =>
    intro d b h
    rw [show k + 1 + d = (k + d) + 1 by omega]
    unfold cfgRun
    split
    · simp
    · simp
    · exact ih d _ _
    · exact ih d _ _

/-! ### Matching concrete and abstract states -/

def Match (g : Cfg) (o : Oracle) (s : St) : Abs → Prop
  | .dead => False
  | .next t => Path g o s.hist t
  | .cond y n => ∃ b h cs, s.hist = b :: h ∧ Path g o h b ∧ g.term b = some (.cj y n) ∧
      s.conds = o (b :: h) :: cs

theorem Match.path {g o s a} (m : Match g o s a) : ∃ t, Path g o s.hist t := by
  cases a with
  | dead => exact m.elim
  | next t => exact ⟨t, m⟩
  | cond y n =>
    obtain ⟨b, h, cs, hh, p, ht, _⟩ := m
    exact ⟨_, hh ▸ Path.cj p ht⟩

theorem Match.asNext {g o s a t} (m : Match g o s a) (h : asNext a = some t) : Path g o s.hist t := by
  cases a with
  | dead => exact m.elim
  | next t' => simp [Model.Shape.asNext] at h; subst h; exact m
  | cond y n =>
    obtain ⟨b, hh, cs, hs, p, ht, _⟩ := m
    simp [Model.Shape.asNext] at h
    obtain ⟨rfl, rfl⟩ := h
    have := Path.cj (o := o) p ht
    simp at this
    exact hs ▸ this

def Good (g : Cfg) (o : Oracle) (post : Abs) (obs : Obs) : Out → Prop
  | .fall s => Match g o s post
  | .br n s => ∃ t, (n, t) ∈ obs ∧ Path g o s.hist t
  | .ret s => ∃ b h, s.hist = b :: h ∧ Path g o h b ∧ g.term b = some .ret
  | .out s => ∃ t, Path g o s.hist t
  | .stuck _ => False

theorem mem_here {obs : Obs} {t : Nat} (h : (0, t) ∈ obs) : t ∈ here obs := by
  simp only [here, List.mem_filterMap]
  exact ⟨(0, t), h, rfl⟩

theorem mem_outer {obs : Obs} {n t : Nat} (h : (n + 1, t) ∈ obs) : (n, t) ∈ outer obs := by
  simp only [outer, List.mem_filterMap]
  exact ⟨(n + 1, t), h, rfl⟩

theorem join_post {g o s p ts q} (hj : join p ts = some q) (m : Match g o s p) : Match g o s q := by
  cases p with
  | dead => exact m.elim
  | cond y n => simp [join] at hj
  | next t =>
    simp only [join] at hj
    split at hj
    · cases hj; exact m
    · cases hj

theorem join_tgt {p ts q t} (hj : join p ts = some q) (ht : t ∈ ts) : q = .next t := by
  cases p with
  | cond y n => simp [join] at hj
  | next t' =>
    simp only [join] at hj
    split at hj
    · next hall =>
      cases hj
      have := List.all_eq_true.mp hall t ht
      simp at this
      rw [this]
    · cases hj
  | dead =>
    cases ts with
    | nil => cases ht
    | cons t' r =>
      simp only [join] at hj
      split at hj
      · next hall =>
        cases hj
        rcases List.mem_cons.mp ht with rfl | hr
        · rfl
        · have := List.all_eq_true.mp hall t hr
          simp at this
          rw [this]
      · cases hj

/-- `unlabel` at a label whose branch targets have been merged into `q` -/
theorem good_unlabel {g o p obs q r} (hg : Good g o p obs r)
    (hfall : ∀ s, Match g o s p → Match g o s q)
    (hbr : ∀ t, t ∈ here obs → q = .next t) :
    Good g o q (outer obs) (unlabel r) := by
  cases r with
  | fall s => exact hfall s hg
  | br n s =>
    obtain ⟨t, hm, hp⟩ := hg
    cases n with
    | zero =>
      have := hbr t (mem_here hm)
      simp only [unlabel, Good]
      rw [this]; exact hp
    | succ n => exact ⟨t, mem_outer hm, hp⟩
  | ret s => exact hg
  | out s => exact hg
  | stuck s => exact hg

/-! ### Lemma A: soundness of `chk` -/

theorem chk_sound (g : Cfg) (o : Oracle) : ∀ (f : Nat) (w : W) (pre post : Abs) (obs : Obs) (s : St),
    chk g w pre = some (post, obs) → Match g o s pre → Good g o post obs (exec g o f w s) := by
  intro f
  induction f with
  | zero =>
    intro w pre post obs s _ hm
    simp only [exec, Good]
    exact hm.path
  | succ f ih =>
    intro w pre post obs s hc hm
    cases w with
    | skip =>
      simp only [chk, Option.some.injEq, Prod.mk.injEq] at hc
      obtain ⟨rfl, rfl⟩ := hc
      simpa [exec, Good] using hm
    | code b =>
      cases pre with
      | dead => exact hm.elim
      | next t =>
        simp only [chk, asNext] at hc
        split at hc
        · next htb =>
          subst htb
          simp only [exec]
          split at hc
          · cases hc
          · next ht => cases hc; simp only [Good]; exact ⟨_, _, rfl, hm, ht⟩
          · next t' ht => cases hc; simp only [Good, Match]; exact Path.jmp hm ht
          · next y n ht =>
            cases hc; simp only [Good, Match]
            exact ⟨_, _, _, rfl, hm, ht, rfl⟩
        · cases hc
      | cond y n =>
        have hp := fun t h => Match.asNext (t := t) hm h
        simp only [chk] at hc
        split at hc
        · cases hc
        · next t hat =>
          have hp := hp t hat
          split at hc
          · next htb =>
            subst htb
            simp only [exec]
            split at hc
            · cases hc
            · next ht => cases hc; simp only [Good]; exact ⟨_, _, rfl, hp, ht⟩
            · next t' ht => cases hc; simp only [Good, Match]; exact Path.jmp hp ht
            · next y n ht =>
              cases hc; simp only [Good, Match]
              exact ⟨_, _, _, rfl, hp, ht, rfl⟩
          · cases hc
    | br n =>
      cases pre with
      | dead => exact hm.elim
      | next t =>
        simp only [chk, Option.some.injEq, Prod.mk.injEq] at hc
        obtain ⟨rfl, rfl⟩ := hc
        simp only [exec, Good]
        exact ⟨t, by simp, hm⟩
      | cond y n => simp [chk] at hc
    | seq a b =>
      simp only [chk] at hc
      split at hc
      · cases hc
      · next p1 o1 h1 =>
        split at hc
        · cases hc
        · next p2 o2 h2 =>
          cases hc
          have ga := ih a pre p1 o1 s h1 hm
          simp only [exec]
          cases hr : exec g o f a s with
          | fall s' =>
            rw [hr] at ga
            have gb := ih b p1 post o2 s' h2 ga
            simp only []
            cases hr2 : exec g o f b s' with
            | fall s2 => rw [hr2] at gb; exact gb
            | br n s2 =>
              rw [hr2] at gb; obtain ⟨t, hmem, hp⟩ := gb
              exact ⟨t, List.mem_append_right _ hmem, hp⟩
            | ret s2 => rw [hr2] at gb; exact gb
            | out s2 => rw [hr2] at gb; exact gb
            | stuck s2 => rw [hr2] at gb; exact gb
          | br n s' =>
            rw [hr] at ga; obtain ⟨t, hmem, hp⟩ := ga
            exact ⟨t, List.mem_append_left _ hmem, hp⟩
          | ret s' => rw [hr] at ga; exact ga
          | out s' => rw [hr] at ga; exact ga
          | stuck s' => rw [hr] at ga; exact ga
    | block a =>
      cases pre with
      | dead => exact hm.elim
      | cond y n => simp [chk] at hc
      | next t =>
        simp only [chk] at hc
        split at hc
        · cases hc
        · next p1 o1 h1 =>
          split at hc
          · cases hc
          · next q hj =>
            cases hc
            simp only [exec]
            exact good_unlabel (ih a _ p1 o1 s h1 hm) (fun s m => join_post hj m)
              (fun t ht => join_tgt hj ht)
    | loop a =>
      cases pre with
      | dead => exact hm.elim
      | cond y n => simp [chk] at hc
      | next t =>
        have hc0 := hc
        simp only [chk] at hc
        split at hc
        · split at hc
          · cases hc
          · next p1 o1 h1 =>
            split at hc
            · next hall =>
              split at hc
              · cases hc
              · next q hj =>
                cases hc
                have ga := ih a _ p1 o1 s h1 hm
                simp only [exec]
                cases hr : exec g o f a s with
                | br n s' =>
                  rw [hr] at ga
                  cases n with
                  | zero =>
                    simp only []
                    obtain ⟨t', hmem, hp⟩ := ga
                    have := List.all_eq_true.mp hall t' (mem_here hmem)
                    simp at this
                    subst this
                    exact ih (.loop a) _ _ _ s' hc0 hp
                  | succ n =>
                    obtain ⟨t', hmem, hp⟩ := ga
                    exact ⟨t', mem_outer hmem, hp⟩
                | fall s' => rw [hr] at ga; exact join_post hj ga
                | ret s' => rw [hr] at ga; exact ga
                | out s' => rw [hr] at ga; exact ga
                | stuck s' => rw [hr] at ga; exact ga
            · cases hc
        · cases hc
    | ite y n =>
      cases pre with
      | dead => exact hm.elim
      | next t => simp [chk] at hc
      | cond ty tn =>
        simp only [chk] at hc
        split at hc
        · next p1 o1 p2 o2 h1 h2 =>
          split at hc
          · cases hc
          · next t2 htg =>
            split at hc
            · cases hc
            · next q hj =>
              cases hc
              obtain ⟨b, h, cs, hh, pth, ht, hcs⟩ := hm
              simp only [exec, hcs]
              have pn : Path g o s.hist (if o (b :: h) then ty else tn) := hh ▸ Path.cj pth ht
              cases hob : o (b :: h) with
              | true =>
                simp only [hob, if_true] at pn ⊢
                have ga := ih y (.next ty) p1 o1 ⟨s.hist, cs⟩ h1 pn
                have := good_unlabel ga (fun s m => join_post hj m)
                  (fun t ht => join_tgt hj (by simp [ht]))
                cases hr : unlabel (exec g o f y ⟨s.hist, cs⟩) with
                | fall s' => rw [hr] at this; exact this
                | br k s' =>
                  rw [hr] at this; obtain ⟨t, hmem, hp⟩ := this
                  exact ⟨t, List.mem_append_left _ hmem, hp⟩
                | ret s' => rw [hr] at this; exact this
                | out s' => rw [hr] at this; exact this
                | stuck s' => rw [hr] at this; exact this
              | false =>
                simp only [hob, Bool.false_eq_true, if_false] at pn ⊢
                have ga := ih n (.next tn) p2 o2 ⟨s.hist, cs⟩ h2 pn
                have hfall : ∀ s, Match g o s p2 → Match g o s post := by
                  intro s m
                  cases p2 with
                  | dead => exact m.elim
                  | cond _ _ => simp [targets] at htg
                  | next t' =>
                    simp only [targets, Option.some.injEq] at htg
                    subst htg
                    have := join_tgt (t := t') hj (by simp)
                    rw [this]; exact m
                have := good_unlabel ga hfall
                  (fun t ht => join_tgt hj (by simp [ht]))
                cases hr : unlabel (exec g o f n ⟨s.hist, cs⟩) with
                | fall s' => rw [hr] at this; exact this
                | br k s' =>
                  rw [hr] at this; obtain ⟨t, hmem, hp⟩ := this
                  exact ⟨t, List.mem_append_right _ hmem, hp⟩
                | ret s' => rw [hr] at this; exact this
                | out s' => rw [hr] at this; exact this
                | stuck s' => rw [hr] at this; exact this
        · cases hc

/-! ### Fuel monotonicity -/

theorem exec_loop (g : Cfg) (o : Oracle) (f : Nat) (a : W) (s : St) :
    exec g o (f + 1) (.loop a) s =
      (match exec g o f a s with
       | .br 0 s' => exec g o f (.loop a) s'
       | .br (n+1) s' => .br n s'
       | r => r) := rfl

theorem exec_seq (g : Cfg) (o : Oracle) (f : Nat) (a b : W) (s : St) :
    exec g o (f + 1) (.seq a b) s =
      (match exec g o f a s with
       | .fall s' => exec g o f b s'
       | r => r) := rfl

/-- `r'` is at least as far as `r`: a completed outcome is final, an exhausted
    one can only be extended -/
def Le (r r' : Out) : Prop :=
  match r with
  | .out s => s.hist.length ≤ r'.st.hist.length
  | _ => r' = r

theorem Le.refl (r : Out) : Le r r := by cases r <;> simp [Le, Out.st]

theorem Le.trans {a b c : Out} (h1 : Le a b) (h2 : Le b c) : Le a c := by
  cases a with
  | out s =>
    cases b with
    | out s2 => simp only [Le, Out.st] at h1 h2 ⊢; omega
    | fall s2 => simp only [Le] at h2; subst h2; exact h1
    | br n s2 => simp only [Le] at h2; subst h2; exact h1
    | ret s2 => simp only [Le] at h2; subst h2; exact h1
    | stuck s2 => simp only [Le] at h2; subst h2; exact h1
  | fall s => simp only [Le] at h1; subst h1; exact h2
  | br n s => simp only [Le] at h1; subst h1; exact h2
  | ret s => simp only [Le] at h1; subst h1; exact h2
  | stuck s => simp only [Le] at h1; subst h1; exact h2

theorem st_unlabel (r : Out) : (unlabel r).st = r.st := by
  cases r with
  | br n s => cases n <;> rfl
  | _ => rfl

theorem le_unlabel {r r' : Out} (h : Le r r') : Le (unlabel r) (unlabel r') := by
  cases r with
  | out s =>
    show s.hist.length ≤ (unlabel r').st.hist.length
    rw [st_unlabel]; exact h
  | fall s => simp only [Le] at h; subst h; exact Le.refl _
  | br n s => simp only [Le] at h; subst h; exact Le.refl _
  | ret s => simp only [Le] at h; subst h; exact Le.refl _
  | stuck s => simp only [Le] at h; subst h; exact Le.refl _

/-- execution only extends the history -/
theorem hist_le (g : Cfg) (o : Oracle) : ∀ (f : Nat) (w : W) (s : St),
    s.hist.length ≤ (exec g o f w s).st.hist.length := by
  intro f
  induction f with
  | zero => intro w s; simp [exec, Out.st]
  | succ f ih =>
    intro w s
    cases w with
    | skip => simp [exec, Out.st]
    | code b => simp only [exec]; split <;> simp [Out.st]
    | br n => simp [exec, Out.st]
    | seq a b =>
      simp only [exec]
      have ha := ih a s
      cases hr : exec g o f a s with
      | fall s' =>
        rw [hr] at ha; simp only [Out.st] at ha
        have := ih b s'
        simp only []; omega
      | br n s' => rw [hr] at ha; exact ha
      | ret s' => rw [hr] at ha; exact ha
      | out s' => rw [hr] at ha; exact ha
      | stuck s' => rw [hr] at ha; exact ha
    | block a => simp only [exec, st_unlabel]; exact ih a s
    | loop a =>
      simp only [exec]
      have ha := ih a s
      cases hr : exec g o f a s with
      | br n s' =>
        rw [hr] at ha; simp only [Out.st] at ha
        cases n with
        | zero => have := ih (.loop a) s'; simp only []; omega
        | succ n => exact ha
      | fall s' => rw [hr] at ha; exact ha
      | ret s' => rw [hr] at ha; exact ha
      | out s' => rw [hr] at ha; exact ha
      | stuck s' => rw [hr] at ha; exact ha
    | ite y n =>
      simp only [exec]
      split
      · simp [Out.st]
      · next c cs _ => rw [st_unlabel]; exact ih _ ⟨s.hist, cs⟩

theorem exec_mono1 (g : Cfg) (o : Oracle) : ∀ (f : Nat) (w : W) (s : St),
    Le (exec g o f w s) (exec g o (f + 1) w s) := by
  intro f
  induction f with
  | zero => intro w s; simpa [exec, Le] using hist_le g o 1 w s
  | succ f ih =>
    intro w s
    cases w with
    | skip => simp only [exec]; exact Le.refl _
    | code b => simp only [exec]; exact Le.refl _
    | br n => simp only [exec]; exact Le.refl _
    | seq a b =>
      have ha := ih a s
      simp only [exec]
      cases hr : exec g o f a s with
      | out s1 =>
        rw [hr] at ha; simp only [Le] at ha ⊢
        cases hr2 : exec g o (f + 1) a s with
        | fall s' =>
          rw [hr2] at ha; simp only [Out.st] at ha
          have := hist_le g o (f + 1) b s'
          simp only []; omega
        | br n s' => rw [hr2] at ha; exact ha
        | ret s' => rw [hr2] at ha; exact ha
        | out s' => rw [hr2] at ha; exact ha
        | stuck s' => rw [hr2] at ha; exact ha
      | fall s' => rw [hr] at ha; simp only [Le] at ha; rw [ha]; exact ih b s'
      | br n s' => rw [hr] at ha; simp only [Le] at ha; rw [ha]; exact Le.refl _
      | ret s' => rw [hr] at ha; simp only [Le] at ha; rw [ha]; exact Le.refl _
      | stuck s' => rw [hr] at ha; simp only [Le] at ha; rw [ha]; exact Le.refl _
    | block a => simp only [exec]; exact le_unlabel (ih a s)
    | loop a =>
      have ha := ih a s
      rw [exec_loop g o f, exec_loop g o (f + 1)]
      cases hr : exec g o f a s with
      | out s1 =>
        rw [hr] at ha; simp only [Le] at ha
        simp only [Le]
        cases hr2 : exec g o (f + 1) a s with
        | br n s' =>
          rw [hr2] at ha; simp only [Out.st] at ha
          cases n with
          | zero =>
            have := hist_le g o (f + 1) (.loop a) s'
            simp only []; omega
          | succ n => exact ha
        | fall s' => rw [hr2] at ha; exact ha
        | ret s' => rw [hr2] at ha; exact ha
        | out s' => rw [hr2] at ha; exact ha
        | stuck s' => rw [hr2] at ha; exact ha
      | br n s' =>
        rw [hr] at ha; simp only [Le] at ha; rw [ha]
        cases n with
        | zero => exact ih (.loop a) s'
        | succ n => exact Le.refl _
      | fall s' => rw [hr] at ha; simp only [Le] at ha; rw [ha]; exact Le.refl _
      | ret s' => rw [hr] at ha; simp only [Le] at ha; rw [ha]; exact Le.refl _
      | stuck s' => rw [hr] at ha; simp only [Le] at ha; rw [ha]; exact Le.refl _
    | ite y n =>
      simp only [exec]
      split
      · exact Le.refl _
      · exact le_unlabel (ih _ _)

theorem exec_mono (g : Cfg) (o : Oracle) (w : W) (s : St) {f f' : Nat} (h : f ≤ f') :
    Le (exec g o f w s) (exec g o f' w s) := by
  obtain ⟨d, rfl⟩ := Nat.exists_eq_add_of_le h
  induction d with
  | zero => exact Le.refl _
  | succ d ih => exact Le.trans (ih (by omega)) (exec_mono1 g o (f + d) w s)

/-! ### Progress -/

/-- with outcome `r` the run started in `s` has completed, or executed at least
    `k` further blocks -/
def Adv (k : Nat) (s : St) : Out → Prop
  | .out s' => s.hist.length + k ≤ s'.hist.length
  | _ => True

theorem adv_le {k s r r'} (h : Adv k s r) (hl : Le r r') : Adv k s r' := by
  cases r with
  | out s1 =>
    simp only [Le] at hl; simp only [Adv] at h
    cases r' <;> simp only [Adv, Out.st] at hl ⊢
    omega
  | fall s1 => simp only [Le] at hl; subst hl; trivial
  | br n s1 => simp only [Le] at hl; subst hl; trivial
  | ret s1 => simp only [Le] at hl; subst hl; trivial
  | stuck s1 => simp only [Le] at hl; subst hl; trivial

theorem adv_unlabel {k s r} (h : Adv k s r) : Adv k s (unlabel r) := by
  cases r with
  | br n s1 => cases n <;> trivial
  | out s1 => exact h
  | _ => trivial

theorem adv_from {k s s' r} (h : Adv k s' r) (hl : s.hist.length ≤ s'.hist.length) : Adv k s r := by
  cases r <;> simp only [Adv] at h ⊢
  omega

def Prog (s : St) : Out → Prop
  | .fall s' => s.hist.length < s'.hist.length
  | .br _ s' => s.hist.length < s'.hist.length
  | _ => True

theorem swc_progress (g : Cfg) (o : Oracle) : ∀ (a : W), startsWithCode a = true →
    ∀ (f : Nat) (s : St), Prog s (exec g o f a s) := by
  intro a
  induction a with
  | code b =>
    intro _ f s
    cases f with
    | zero => simp [exec, Prog]
    | succ f => simp only [exec]; split <;> simp [Prog]
  | seq a b iha _ =>
    intro h f s
    simp only [startsWithCode] at h
    cases f with
    | zero => simp [exec, Prog]
    | succ f =>
      simp only [exec]
      have pa := iha h f s
      cases hr : exec g o f a s with
      | fall s' =>
        rw [hr] at pa; simp only [Prog] at pa
        have hb := hist_le g o f b s'
        simp only []
        cases hr2 : exec g o f b s' <;> rw [hr2] at hb <;> simp only [Prog, Out.st] at hb ⊢ <;> omega
      | br n s' => rw [hr] at pa; exact pa
      | ret s' => trivial
      | out s' => trivial
      | stuck s' => trivial
  | skip => intro h; simp [startsWithCode] at h
  | br n => intro h; simp [startsWithCode] at h
  | block a _ => intro h; simp [startsWithCode] at h
  | loop a _ => intro h; simp [startsWithCode] at h
  | ite y n _ _ => intro h; simp [startsWithCode] at h

/-- a completed outcome is the outcome for every larger fuel -/
theorem exec_stable {g o w s f f' r} (h : exec g o f w s = r) (hr : ∀ s', r ≠ .out s')
    (hf : f ≤ f') : exec g o f' w s = r := by
  have := exec_mono g o w s hf
  rw [h] at this
  cases r with
  | out s' => exact absurd rfl (hr s')
  | fall _ => exact this
  | br _ _ => exact this
  | ret _ => exact this
  | stuck _ => exact this

/-- Lemma B: every accepted construct makes progress -/
theorem chk_progress (g : Cfg) (o : Oracle) : ∀ (k : Nat) (w : W) (pre post : Abs) (obs : Obs) (s : St),
    chk g w pre = some (post, obs) → Match g o s pre → ∃ f, Adv k s (exec g o f w s) := by
  intro k
  induction k with
  | zero => intro w pre post obs s _ _; exact ⟨0, by simp [exec, Adv]⟩
  | succ k ihk =>
    intro w
    induction w with
    | skip => intro pre post obs s _ _; exact ⟨1, by simp [exec, Adv]⟩
    | code b => intro pre post obs s _ _; refine ⟨1, ?_⟩; simp only [exec]; split <;> simp [Adv]
    | br n => intro pre post obs s _ _; exact ⟨1, by simp [exec, Adv]⟩
    | seq a b iha ihb =>
      intro pre post obs s hc hm
      simp only [chk] at hc
      split at hc
      · cases hc
      · next p1 o1 hca =>
        split at hc
        · cases hc
        · next p2 o2 hcb =>
          cases hc
          obtain ⟨f1, h1⟩ := iha pre p1 o1 s hca hm
          cases hr : exec g o f1 a s with
          | fall s' =>
            have ga := chk_sound g o f1 a pre p1 o1 s hca hm
            rw [hr] at ga
            obtain ⟨f2, h2⟩ := ihb p1 post o2 s' hcb ga
            refine ⟨max f1 f2 + 1, ?_⟩
            simp only [exec]
            rw [exec_stable hr (by intro s'; simp) (Nat.le_max_left f1 f2)]
            simp only []
            have hl := hist_le g o f1 a s
            rw [hr] at hl
            exact adv_from (adv_le h2 (exec_mono g o b s' (Nat.le_max_right f1 f2))) hl
          | out s1 => refine ⟨f1 + 1, ?_⟩; simp only [exec, hr]; rw [hr] at h1; exact h1
          | br n s' => refine ⟨f1 + 1, ?_⟩; simp only [exec, hr]; trivial
          | ret s' => refine ⟨f1 + 1, ?_⟩; simp only [exec, hr]; trivial
          | stuck s' => refine ⟨f1 + 1, ?_⟩; simp only [exec, hr]; trivial
    | block a iha =>
      intro pre post obs s hc hm
      cases pre with
      | dead => exact hm.elim
      | cond y n => simp [chk] at hc
      | next t =>
        simp only [chk] at hc
        split at hc
        · cases hc
        · next p1 o1 h1c =>
          obtain ⟨f1, h1⟩ := iha _ p1 o1 s h1c hm
          exact ⟨f1 + 1, by simp only [exec]; exact adv_unlabel h1⟩
    | loop a iha =>
      intro pre post obs s hc hm
      cases pre with
      | dead => exact hm.elim
      | cond y n => simp [chk] at hc
      | next t =>
        have hc0 := hc
        simp only [chk] at hc
        split at hc
        · next hswc =>
          split at hc
          · cases hc
          · next p1 o1 h1c =>
            split at hc
            · next hall =>
              obtain ⟨f1, h1⟩ := iha _ p1 o1 s h1c hm
              cases hr : exec g o f1 a s with
              | br n s' =>
                cases n with
                | zero =>
                  have ga := chk_sound g o f1 a _ p1 o1 s h1c hm
                  rw [hr] at ga
                  obtain ⟨t', hmem, hp⟩ := ga
                  have := List.all_eq_true.mp hall t' (mem_here hmem)
                  simp at this
                  subst this
                  have pg := swc_progress g o a hswc f1 s
                  rw [hr] at pg; simp only [Prog] at pg
                  obtain ⟨f2, h2⟩ := ihk (.loop a) _ post obs s' hc0 hp
                  refine ⟨max f1 f2 + 1, ?_⟩
                  simp only [exec]
                  rw [exec_stable hr (by intro s'; simp) (Nat.le_max_left f1 f2)]
                  simp only []
                  have h3 := adv_le h2 (exec_mono g o (.loop a) s' (Nat.le_max_right f1 f2))
                  cases hr3 : exec g o (max f1 f2) (.loop a) s' <;> rw [hr3] at h3 <;>
                    simp only [Adv] at h3 ⊢
                  omega
                | succ n => refine ⟨f1 + 1, ?_⟩; simp only [exec, hr]; trivial
              | out s1 => refine ⟨f1 + 1, ?_⟩; simp only [exec, hr]; rw [hr] at h1; exact h1
              | fall s' => refine ⟨f1 + 1, ?_⟩; simp only [exec, hr]; trivial
              | ret s' => refine ⟨f1 + 1, ?_⟩; simp only [exec, hr]; trivial
              | stuck s' => refine ⟨f1 + 1, ?_⟩; simp only [exec, hr]; trivial
            · cases hc
        · cases hc
    | ite y n ihy ihn =>
      intro pre post obs s hc hm
      cases pre with
      | dead => exact hm.elim
      | next t => simp [chk] at hc
      | cond ty tn =>
        simp only [chk] at hc
        split at hc
        · next p1 o1 p2 o2 h1c h2c =>
          obtain ⟨b, h, cs, hh, pth, ht, hcs⟩ := hm
          have pn : Path g o s.hist (if o (b :: h) then ty else tn) := hh ▸ Path.cj pth ht
          cases hob : o (b :: h) with
          | true =>
            simp only [hob, if_true] at pn
            obtain ⟨f1, h1⟩ := ihy (.next ty) p1 o1 ⟨s.hist, cs⟩ h1c pn
            refine ⟨f1 + 1, ?_⟩
            simp only [exec, hcs, hob, if_true]
            exact adv_from (adv_unlabel h1) (Nat.le_refl _)
          | false =>
            simp only [hob, Bool.false_eq_true, if_false] at pn
            obtain ⟨f1, h1⟩ := ihn (.next tn) p2 o2 ⟨s.hist, cs⟩ h2c pn
            refine ⟨f1 + 1, ?_⟩
            simp only [exec, hcs, hob, Bool.false_eq_true, if_false]
            exact adv_from (adv_unlabel h1) (Nat.le_refl _)
        · cases hc

end Proofs.Shape
