import PpciVerif.Gen.Py_arm_relocations
import PpciVerif.Gen.Py_thumb_relocations
import PpciVerif.Gen.Py_x86_64_relocations
import PpciVerif.Proofs.T1_reloc
/-!
T1 translation tie for relocation bodies of arm (`Rel8.calc`, `Imm24.calc`), thumb (`lit8`, `wrap_new11`, `rel8`,
`bl_imm11` `apply`) and x86_64 (the four `calc` methods): regenerated definitions = `Model.Reloc.*`.
`align(v, m)` is the TRANSLATED loop of bitfun.py (`Gen.Py_bitfun.align`), so a fuel bound `m + 1` appears
(3 resp. 5); the hand model uses the closed form `v + (-v) % m`.
-/
set_option linter.unusedSimpArgs false
set_option linter.unusedTactic false
namespace Proofs.T1.ArmX86Reloc
open Model Model.PyRt Model.Reloc Proofs.T1 Proofs.T1.Reloc

theorem gen_align (fuel : Nat) (v : Int) (m : Nat) (hm : 1 ≤ m) (hf : m + 1 ≤ fuel) :
    Gen.Py_bitfun.align fuel v (m : Int) = .ok (Model.Reloc.align v m) := by
  rw [Proofs.T1.Bitfun.gen_align_eq_model fuel v m hf, Proofs.Bitfun.align_eq v hm]
  rfl

theorem gen_align' (fuel : Nat) (v : Int) (m : Nat) (mi : Int) (hmi : mi = (m : Int)) (hm : 1 ≤ m) (hf : m + 1 ≤ fuel) :
    Gen.Py_bitfun.align fuel v mi = .ok (Model.Reloc.align v m) := by
  subst hmi; exact gen_align fuel v m hm hf

theorem gen_wrap_negative' (fuel : Nat) (v : Int) (bits : Nat) (bi : Int) (hbi : bi = (bits : Int)) (hb : 1 ≤ bits) :
    Gen.Py_bitfun.wrap_negative fuel v bi = liftI (Model.Reloc.wrapNegative v bits) := by
  subst hbi; exact gen_wrap_negative fuel v bits hb

theorem setByte_ints (d : List Nat) (i : Nat) (v : Int) :
    PyRt.setByte (ints d) i v = liftL (Model.Reloc.setByte d i v) := by
  unfold PyRt.setByte Model.Reloc.setByte
  simp only [ints_length]
  split
  · rfl
  · rename_i h
    split
    · rfl
    · have h0 : 0 ≤ v := by
        have : 0 ≤ v ∧ v < 256 := Decidable.not_not.1 h
        exact this.1
      simp only [liftL, ints, List.map_set, Int.ofNat_eq_natCast, Int.toNat_of_nonneg h0]

/-! ### arm -/
open Gen.Py_arm_relocations in
theorem gen_arm_rel8_calc (fuel : Nat) (S P : Int) (hf : 3 ≤ fuel) :
    Rel8Relocation_calc fuel S P = liftI (Arm.rel8Calc S P) := by
  unfold Rel8Relocation_calc Arm.rel8Calc
  rw [gen_align' fuel P 2 2 rfl (by decide) hf]
  py_norm
  simp only [assert_bind, beq_iff_eq, bind_ok, inRangeStep, Nat.cast_ofNat, decide_eq_true_eq]
  by_cases hS : S % 2 = 0
  · simp only [hS, if_true]
    split
    · rw [gen_wrap_negative' fuel _ 8 8 rfl (by decide)]
      cases Model.Reloc.wrapNegative ((S - (Model.Reloc.align P 2 + 4)) / 2) 8 <;> rfl
    · rfl
  · simp [hS, liftI, errOf]

open Gen.Py_arm_relocations in
theorem gen_arm_imm24_calc (fuel : Nat) (S P : Int) :
    Imm24Relocation_calc fuel S P = liftI (Arm.imm24Calc S P) := by
  unfold Imm24Relocation_calc Arm.imm24Calc
  py_norm
  simp only [assert_bind, beq_iff_eq]
  by_cases hS : S % 4 = 0
  · by_cases hP : P % 4 = 0
    · simp only [hS, hP, if_true]
      rw [gen_wrap_negative' fuel _ 24 24 rfl (by decide)]
      cases Model.Reloc.wrapNegative ((S - (P + 8)) / 4) 24 <;> rfl
    · simp [hS, hP, liftI, errOf]
  · simp [hS, liftI, errOf]

/-! ### thumb -/
open Gen.Py_thumb_relocations in
theorem gen_thumb_lit8_apply (fuel : Nat) (S : Int) (d : List Nat) (P : Int) (hf : 5 ≤ fuel) :
    Lit8Relocation_apply fuel S (ints d) P = liftL (Thumb.lit8 S d P) := by
  unfold Lit8Relocation_apply Thumb.lit8
  rw [gen_align' fuel (P + 2) 4 4 rfl (by decide) hf]
  py_norm
  simp only [assert_bind, beq_iff_eq, bind_ok, inRangeStep, Nat.cast_ofNat, decide_eq_true_eq, Int.sub_zero]
  by_cases hS : S % 4 = 0
  · simp only [hS, if_true]
    split
    · rw [setByte_ints]
      cases Model.Reloc.setByte d 0 ((S - Model.Reloc.align (P + 2) 4) / 4) <;> rfl
    · rfl
  · simp [hS, liftL, errOf]

open Gen.Py_thumb_relocations in
theorem gen_thumb_wrap_new11_apply (fuel : Nat) (S : Int) (d : List Nat) (P : Int) (hf : 3 ≤ fuel) :
    WrapNew11Relocation_apply fuel S (ints d) P = liftL (Thumb.wrapNew11 S d P) := by
  unfold WrapNew11Relocation_apply Thumb.wrapNew11
  rw [gen_align' fuel P 2 2 rfl (by decide) hf]
  py_norm
  simp only [assert_bind, beq_iff_eq, bind_ok, inRangeStep, Nat.cast_ofNat, decide_eq_true_eq]
  split
  · rw [gen_wrap_negative' fuel _ 11 11 rfl (by decide)]
    refine liftI_bind _ _ _ (fun imm11 => ?_)
    rw [bvSet_ints]
    cases Model.Reloc.bvSet d 2 0 11 imm11 <;> rfl
  · rfl

open Gen.Py_thumb_relocations in
theorem gen_thumb_rel8_apply (fuel : Nat) (S : Int) (d : List Nat) (P : Int) (hf : 3 ≤ fuel) :
    Rel8Relocation_apply fuel S (ints d) P = liftL (Thumb.rel8 S d P) := by
  unfold Rel8Relocation_apply Thumb.rel8
  rw [gen_align' fuel P 2 2 rfl (by decide) hf]
  py_norm
  simp only [assert_bind, beq_iff_eq, bind_ok, inRangeStep, Nat.cast_ofNat, decide_eq_true_eq]
  by_cases hS : S % 2 = 0
  · simp only [hS, if_true]
    split
    · rw [gen_wrap_negative' fuel _ 8 8 rfl (by decide)]
      refine liftI_bind _ _ _ (fun imm8 => ?_)
      rw [setByte_ints]
      cases Model.Reloc.setByte d 0 imm8 <;> rfl
    · rfl
  · simp [hS, liftL, errOf]

open Gen.Py_thumb_relocations in
theorem gen_thumb_bl_imm11_apply (fuel : Nat) (S : Int) (d : List Nat) (P : Int) (hf : 3 ≤ fuel) :
    BlImm11Relocation_apply fuel S (ints d) P = liftL (Thumb.blImm11 S d P) := by
  unfold BlImm11Relocation_apply Thumb.blImm11
  rw [gen_align' fuel P 2 2 rfl (by decide) hf]
  py_norm
  simp only [assert_bind, beq_iff_eq, bind_ok, inRangeStep, Nat.cast_ofNat, decide_eq_true_eq]
  by_cases hS : S % 2 = 0
  · simp only [hS, if_true]
    split
    · rw [gen_wrap_negative' fuel _ 32 32 rfl (by decide)]
      refine liftI_bind _ _ _ (fun imm32 => ?_)
      rw [bvSet_ints]
      refine liftL_bind _ _ _ (fun d1 => ?_)
      rw [bvSet_ints]
      refine liftL_bind _ _ _ (fun d2 => ?_)
      rw [bvSet_ints]
      cases Model.Reloc.bvSet d2 4 16 27 (imm32 % 2048) <;> rfl
    · rfl
  · simp [hS, liftL, errOf]

/-! ### x86_64: the value `calc` hands to the default `apply` (`Model.Reloc.X86.*` pass exactly these to `applyToken`) -/
open Gen.Py_x86_64_relocations in
theorem gen_x86_calcs (fuel : Nat) (addend S P : Int) :
    Rel32JmpRelocation_calc fuel addend S P = .ok (S - P + addend) ∧
    Abs32Relocation_calc fuel S P = .ok S ∧
    Jmp8Relocation_calc fuel S P = .ok (S - (P + 1)) ∧
    Abs64Relocation_calc fuel S P = liftI (Model.Reloc.wrapNegative S 64) := by
  refine ⟨rfl, rfl, rfl, ?_⟩
  unfold Abs64Relocation_calc
  rw [gen_wrap_negative' fuel _ 64 64 rfl (by decide)]
  cases Model.Reloc.wrapNegative S 64 <;> rfl

end Proofs.T1.ArmX86Reloc
