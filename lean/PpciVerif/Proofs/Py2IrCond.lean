import PpciVerif.Proofs.Py2Ir
import PpciVerif.Proofs.Py2IrCFG
/-!
# Proofs.Py2IrCond — the blocks emitted by `gen_cond` branch the way CPython evaluates the condition
-/
namespace Proofs.Py2IrCond
open Model.Py2Ir Proofs.Py2Ir Proofs.Py2IrCFG

theorem blockInstrs_append (a b : List Event) (k : Nat) : blockInstrs (a ++ b) k = blockInstrs a k ++ blockInstrs b k := by
  simp [blockInstrs, List.filterMap_append]

theorem blockInstrs_map_emit (cur : Nat) (code : List Instr) (k : Nat) :
    blockInstrs (code.map (Event.emit cur)) k = if cur = k then code else [] := by
  induction code with
  | nil => simp [blockInstrs]
  | cons i is ih =>
    simp only [blockInstrs, List.map_cons, List.filterMap_cons] at ih ⊢
    by_cases h : cur = k
    · simp [h] at ih ⊢; exact ih
    · simp [h] at ih ⊢

/-- plain code in front of the terminator is simply executed -/
theorem stepBlock_append (μ : Val → Option Int) (code rest : List Instr) (r r' : Regs)
    (hp : ∀ i ∈ code, PlainI i) (h : exec μ code r = some r') :
    stepBlock μ (code ++ rest) r = stepBlock μ rest r' := by
  induction code generalizing r with
  | nil => simp [exec] at h; subst h; rfl
  | cons i is ih =>
    have hpi := hp i (by simp)
    simp only [exec] at h
    cases hi : execInstr μ r i with
    | none => simp [hi] at h
    | some r1 =>
      simp only [hi] at h
      have := ih r1 (fun j hj => hp j (by simp [hj])) h
      cases i with
      | jump t => simp [PlainI, Instr.targets] at hpi
      | cjump a op b y n => simp [PlainI, Instr.targets] at hpi
      | _ => simp only [List.cons_append, stepBlock, hi]; exact this

theorem Arrives.mono {μ : Val → Option Int} {L L' : List Event} {P P' : Nat → Prop} {is : List Instr} {r : Regs}
    {t : Nat} {r' : Regs} (h : Arrives μ L P is r t r')
    (hP : ∀ u, P u → P' u ∧ blockInstrs L' u = blockInstrs L u) : Arrives μ L' P' is r t r' := by
  induction h with
  | here hs => exact Arrives.here hs
  | next hs hu _ ih => exact Arrives.next hs (hP _ hu).1 ((hP _ hu).2 ▸ ih)

theorem Arrives.trans {μ : Val → Option Int} {L : List Event} {P : Nat → Prop} {is : List Instr} {r : Regs}
    {u : Nat} {r1 : Regs} {t : Nat} {r' : Regs} (h1 : Arrives μ L P is r u r1) (hu : P u)
    (h2 : Arrives μ L P (blockInstrs L u) r1 t r') : Arrives μ L P is r t r' := by
  induction h1 with
  | here hs => exact Arrives.next hs hu h2
  | next hs hv _ ih => exact Arrives.next hs hv (ih hu h2)

/-- where the events of a segment are emitted: into the block that was current at the start, or
    into blocks created meanwhile -/
def EmitAt (cur nb nb' : Nat) (seg : List Event) : Prop :=
  ∀ b i, Event.emit b i ∈ seg → b = cur ∨ (nb ≤ b ∧ b < nb')

theorem EmitAt.block_nil {cur nb nb' : Nat} {seg : List Event} (h : EmitAt cur nb nb' seg) (k : Nat)
    (h1 : k ≠ cur) (h2 : ¬ (nb ≤ k ∧ k < nb')) : blockInstrs seg k = [] := by
  simp only [blockInstrs, List.filterMap_eq_nil_iff]
  intro e he
  cases e with
  | emit b i =>
    simp only
    split
    · rename_i hb
      subst hb
      rcases h _ i he with h3 | h3
      · exact absurd h3 h1
      · exact absurd h3 h2
    · rfl
  | hoist a d => rfl
  | incoming p b v => rfl

/-- all events of the log are in existing blocks -/
def LogWF (st : St) : Prop := ∀ b i, Event.emit b i ∈ st.log → b < st.nblocks

theorem LogWF.block_nil {st : St} (h : LogWF st) (k : Nat) (hk : st.nblocks ≤ k) : blockInstrs st.log k = [] := by
  simp only [blockInstrs, List.filterMap_eq_nil_iff]
  intro e he
  cases e with
  | emit b i =>
    simp only
    split
    · rename_i hb
      subst hb
      have := h _ i he
      omega
    · rfl
  | hoist a d => rfl
  | incoming p b v => rfl

/-- `St.expr` spelled out -/
theorem expr_spec (st : St) (e : PExpr) (v : Val) (t : Ty) (st1 : St) (h : st.expr e = .ok (v, t, st1)) :
    ∃ code n, genExpr st.locals e st.nvals = .ok (code, v, t, n) ∧
      st1 = { st with log := st.log ++ code.map (Event.emit st.cur), nvals := n } := by
  simp only [St.expr] at h
  cases hg : genExpr st.locals e st.nvals with
  | error er => simp [hg] at h
  | ok r =>
    obtain ⟨code, v', t', n⟩ := r
    simp only [hg, Except.ok.injEq, Prod.mk.injEq] at h
    obtain ⟨rfl, rfl, rfl⟩ := h
    exact ⟨code, n, rfl, rfl⟩

/-- the comparison table entry has CPython's truth value -/
theorem cmp_holds (op : Spec.Py.CmpOp) (sym : String) (h : lookup op.astName cmpMap = some sym) (x y : Int) :
    condHolds? sym x y = some (op.holds x y) := by
  cases op <;> simp [lookup, cmpMap, Spec.Py.CmpOp.astName] at h <;> subst h <;>
    simp [condHolds?, Spec.IR.Cond.all, Spec.IR.Cond.symbol, Spec.IR.evalCond, Spec.Py.CmpOp.holds]
  · by_cases h : x = y <;> simp [h]
  · by_cases h : x = y <;> simp [h]


theorem EmitAt.append {cur nb nb1 nb2 cur2 : Nat} {s1 s2 : List Event} (h1 : EmitAt cur nb nb1 s1)
    (h2 : EmitAt cur2 nb1 nb2 s2) (hn1 : nb ≤ nb1) (hn2 : nb1 ≤ nb2) (hc : cur2 = cur ∨ (nb ≤ cur2 ∧ cur2 < nb1)) :
    EmitAt cur nb nb2 (s1 ++ s2) := by
  intro b i hm
  rcases List.mem_append.1 hm with hm | hm
  · rcases h1 b i hm with h | h
    · left; exact h
    · right; omega
  · rcases h2 b i hm with h | h
    · subst h
      rcases hc with h | h
      · left; exact h
      · right; omega
    · right; omega

/-- where `gen_cond` emits, whatever the condition evaluates to (or whether it evaluates at all) -/
theorem genCond_emitAt (c : PCond) :
    ∀ (yes no : Nat) (st st' : St), genCond c yes no st = .ok st' →
      ∃ seg, st'.log = st.log ++ seg ∧ EmitAt st.cur st.nblocks st'.nblocks seg ∧ st'.locals = st.locals ∧
        st.nblocks ≤ st'.nblocks := by
  induction c with
  | cmp op a b =>
    intro yes no st st' hg
    simp only [genCond] at hg
    cases ha : st.expr a with
    | error er => simp [ha] at hg
    | ok ra =>
      obtain ⟨va, ta, st1⟩ := ra
      simp only [ha] at hg
      cases hop : lookup op cmpMap with
      | none => simp [hop] at hg
      | some sym =>
        simp only [hop] at hg
        cases hb : st1.expr b with
        | error er => simp [hb] at hg
        | ok rb =>
          obtain ⟨vb, tb, st2⟩ := rb
          simp only [hb] at hg
          split at hg
          · simp at hg
          · simp only [Except.ok.injEq] at hg
            subst hg
            obtain ⟨ca, n1, _, rfl⟩ := expr_spec st a va ta st1 ha
            obtain ⟨cb, n2, _, rfl⟩ := expr_spec _ b vb tb st2 hb
            refine ⟨ca.map (Event.emit st.cur) ++ cb.map (Event.emit st.cur) ++ [.emit st.cur (.cjump va sym vb yes no)],
              by simp [St.emit, List.append_assoc], ?_, rfl, Nat.le_refl _⟩
            intro b' i hmem
            simp only [List.mem_append, List.mem_map, List.mem_cons, List.not_mem_nil, or_false] at hmem
            rcases hmem with (⟨_, _, h⟩ | ⟨_, _, h⟩) | h
            · injection h with h1 _; left; exact h1.symm
            · injection h with h1 _; left; exact h1.symm
            · injection h with h1 _; left; exact h1
  | and a b iha ihb =>
    intro yes no st st' hg
    simp only [genCond, St.newBlock] at hg
    cases hga : genCond a st.nblocks no { st with nblocks := st.nblocks + 1 } with
    | error er => simp [hga] at hg
    | ok st2 =>
      simp only [hga] at hg
      obtain ⟨sA, lA, eA, locA, nA⟩ := iha _ _ _ _ hga
      obtain ⟨sB, lB, eB, locB, nB⟩ := ihb _ _ _ _ hg
      simp only [St.setBlock] at lA eA locA nA lB eB locB nB
      refine ⟨sA ++ sB, by rw [lB, lA, List.append_assoc], ?_, by rw [locB, locA], by omega⟩
      have eA' : EmitAt st.cur st.nblocks st2.nblocks sA := by
        intro b' i hm
        rcases eA b' i hm with h | h
        · left; exact h
        · right; omega
      exact eA'.append eB (by omega) nB (Or.inr ⟨Nat.le_refl _, by omega⟩)
  | or a b iha ihb =>
    intro yes no st st' hg
    simp only [genCond, St.newBlock] at hg
    cases hga : genCond a yes st.nblocks { st with nblocks := st.nblocks + 1 } with
    | error er => simp [hga] at hg
    | ok st2 =>
      simp only [hga] at hg
      obtain ⟨sA, lA, eA, locA, nA⟩ := iha _ _ _ _ hga
      obtain ⟨sB, lB, eB, locB, nB⟩ := ihb _ _ _ _ hg
      simp only [St.setBlock] at lA eA locA nA lB eB locB nB
      refine ⟨sA ++ sB, by rw [lB, lA, List.append_assoc], ?_, by rw [locB, locA], by omega⟩
      have eA' : EmitAt st.cur st.nblocks st2.nblocks sA := by
        intro b' i hm
        rcases eA b' i hm with h | h
        · left; exact h
        · right; omega
      exact eA'.append eB (by omega) nB (Or.inr ⟨Nat.le_refl _, by omega⟩)
  | other =>
    intro yes no st st' hg
    simp [genCond] at hg

/-- composition step shared by `and` / `or`: the first operand was generated from `st1`
    (= `st` with one more block, `mid = st.nblocks`) to `st2`, the second from `st2.setBlock mid`
    to `st'`. -/
theorem compose_run (μ : Val → Option Int) (st st2 st' : St) (segA segB seg : List Event)
    (hc : st.cur < st.nblocks) (hw : LogWF st)
    (lA : st2.log = st.log ++ segA) (eA : EmitAt st.cur (st.nblocks + 1) st2.nblocks segA) (nA : st.nblocks + 1 ≤ st2.nblocks)
    (lB : st'.log = st2.log ++ segB) (eB : EmitAt st.nblocks st2.nblocks st'.nblocks segB) (nB : st2.nblocks ≤ st'.nblocks)
    (hseg : st'.log = st.log ++ seg) :
    seg = segA ++ segB ∧
    blockInstrs seg st.cur = blockInstrs segA st.cur ∧
    blockInstrs st'.log st.nblocks = blockInstrs segB st.nblocks ∧
    (∀ u, (st.nblocks + 1 ≤ u ∧ u < st2.nblocks) →
      (st.nblocks ≤ u ∧ u < st'.nblocks) ∧ blockInstrs st'.log u = blockInstrs st2.log u) := by
  have hs : seg = segA ++ segB := by
    rw [lB, lA, List.append_assoc] at hseg
    exact (List.append_cancel_left hseg).symm
  refine ⟨hs, ?_, ?_, ?_⟩
  · rw [hs, blockInstrs_append, eB.block_nil st.cur (by omega) (by omega), List.append_nil]
  · rw [lB, lA, blockInstrs_append, blockInstrs_append, hw.block_nil st.nblocks (Nat.le_refl _),
      eA.block_nil st.nblocks (by omega) (by omega)]
    rfl
  · intro u hu
    refine ⟨by omega, ?_⟩
    rw [lB, blockInstrs_append, eB.block_nil u (by omega) (by omega), List.append_nil]

/-- **`gen_cond` branches the way CPython evaluates the condition.**  For every condition built from
    comparisons of integer expressions with `and` / `or`: if the front-end generates it in a sane
    builder state and CPython's short-circuit evaluation (all values within 64 bits) yields the truth
    value `tv`, then executing the instructions appended to the current block and following the
    conditional jumps through the blocks created for the condition, control enters `yes_block` when
    `tv` is true and `no_block` when it is false — without undefined behaviour, and every block
    entered on the way is one created for this condition. -/
theorem genCond_sem (σ : Spec.Py.Env) (μ : Val → Option Int) (c : Spec.Py.Cond) :
    ∀ (yes no : Nat) (st st' : St) (tv : Bool) (seg : List Event),
      genCond (embedCond c) yes no st = .ok st' → Spec.Py.evalCond64 σ c = some tv →
      LocalsOk st.locals σ μ → yes < st.nblocks → no < st.nblocks → st.cur < st.nblocks → LogWF st →
      st'.log = st.log ++ seg →
      ∀ r, ∃ r', Arrives μ st'.log (fun u => st.nblocks ≤ u ∧ u < st'.nblocks) (blockInstrs seg st.cur) r
        (if tv then yes else no) r' := by
  induction c with
  | cmp op a b =>
    intro yes no st st' tv seg hg he hl hy hn hc hw hseg
    simp only [embedCond, genCond] at hg
    cases ha : st.expr (embed a) with
    | error er => simp [ha] at hg
    | ok ra =>
      obtain ⟨va, ta, st1⟩ := ra
      simp only [ha] at hg
      cases hop : lookup op.astName cmpMap with
      | none => simp [hop] at hg
      | some sym =>
        simp only [hop] at hg
        cases hb : st1.expr (embed b) with
        | error er => simp [hb] at hg
        | ok rb =>
          obtain ⟨vb, tb, st2⟩ := rb
          simp only [hb] at hg
          split at hg
          · simp at hg
          · simp only [Except.ok.injEq] at hg
            subst hg
            obtain ⟨ca, n1, hga, rfl⟩ := expr_spec st (embed a) va ta st1 ha
            obtain ⟨cb, n2, hgb, rfl⟩ := expr_spec _ (embed b) vb tb st2 hb
            simp only at hgb
            have hs : seg = ca.map (Event.emit st.cur) ++ cb.map (Event.emit st.cur) ++
                [.emit st.cur (.cjump va sym vb yes no)] := by
              simp only [St.emit, List.append_assoc] at hseg
              exact (List.append_cancel_left hseg).symm ▸ by simp [List.append_assoc]
            subst hs
            -- CPython's evaluation
            simp only [Spec.Py.evalCond64] at he
            cases hea : Spec.Py.eval64 σ a with
            | none => simp [hea] at he
            | some xa =>
              cases heb : Spec.Py.eval64 σ b with
              | none => simp [hea, heb] at he
              | some xb =>
                simp only [hea, heb, Option.some.injEq] at he
                subst he
                intro r
                obtain ⟨r1, hx1, hv1, _, hf1, hn1, hb1, _⟩ := genExpr_exec st.locals σ μ hl a st.nvals r xa ca va ta n1 hga hea
                obtain ⟨r2, hx2, hv2, _, hf2, _, _, _⟩ := genExpr_exec st.locals σ μ hl b n1 r1 xb cb vb tb n2 hgb heb
                have hva2 : r2.get va = some xa := by rw [hf2.get va hb1]; exact hv1
                obtain ⟨pa, _⟩ := genExpr_plain st.locals (embed a) st.nvals ca va ta n1 hga
                obtain ⟨pb, _⟩ := genExpr_plain st.locals (embed b) n1 cb vb tb n2 hgb
                refine ⟨r2, Arrives.here ?_⟩
                simp only [blockInstrs_append, blockInstrs_map_emit, if_true]
                have hlast : blockInstrs [Event.emit st.cur (.cjump va sym vb yes no)] st.cur = [.cjump va sym vb yes no] := by
                  simp [blockInstrs]
                rw [hlast, List.append_assoc, stepBlock_append μ ca _ r r1 pa hx1, stepBlock_append μ cb _ r1 r2 pb hx2]
                simp only [stepBlock, hva2, hv2, cmp_holds op sym hop xa xb]
                cases op.holds xa xb <;> rfl
  | and a b iha ihb =>
    intro yes no st st' tv seg hg he hl hy hn hc hw hseg
    simp only [embedCond, genCond, St.newBlock] at hg
    cases hga : genCond (embedCond a) st.nblocks no { st with nblocks := st.nblocks + 1 } with
    | error er => simp [hga] at hg
    | ok st2 =>
      simp only [hga] at hg
      obtain ⟨segA, lA, eA, locA, nA⟩ := genCond_emitAt _ _ _ _ _ hga
      obtain ⟨segB, lB, eB, locB, nB⟩ := genCond_emitAt _ _ _ _ _ hg
      simp only [St.setBlock] at lA eA locA nA lB eB locB nB
      obtain ⟨hs, hcur, hmid, hmono⟩ := compose_run μ st st2 st' segA segB seg hc hw lA eA nA lB eB nB hseg
      simp only [Spec.Py.evalCond64] at he
      cases hea : Spec.Py.evalCond64 σ a with
      | none => simp [hea] at he
      | some tva =>
        have runA := iha st.nblocks no { st with nblocks := st.nblocks + 1 } st2 tva segA hga hea
          hl (by simp) (by simp; omega) (by simp; omega) (by intro b' i hm; have := hw b' i hm; simp; omega) lA
        simp only at runA
        intro r
        obtain ⟨r1, hr1⟩ := runA r
        have hr1' := Arrives.mono (L' := st'.log) (P' := fun u => st.nblocks ≤ u ∧ u < st'.nblocks) hr1 hmono
        rw [hcur]
        cases tva with
        | false =>
          simp only [hea] at he
          have htv : tv = false := (Option.some.inj he).symm
          subst htv
          exact ⟨r1, by simpa using hr1'⟩
        | true =>
          simp only [hea] at he
          have hl2 : LocalsOk (st2.setBlock st.nblocks).locals σ μ := by simp only [St.setBlock, locA]; exact hl
          have hw2 : LogWF (st2.setBlock st.nblocks) := by
            intro b' i hm
            simp only [St.setBlock, lA, List.mem_append] at hm ⊢
            rcases hm with hm | hm
            · have := hw b' i hm; omega
            · rcases eA b' i hm with h | h <;> omega
          have runB := ihb yes no (st2.setBlock st.nblocks) st' tv segB hg he hl2
            (by simp [St.setBlock]; omega) (by simp [St.setBlock]; omega) (by simp [St.setBlock]; omega) hw2 lB
          simp only [St.setBlock] at runB
          obtain ⟨r2, hr2⟩ := runB r1
          have hr2' := Arrives.mono (L' := st'.log) (P' := fun u => st.nblocks ≤ u ∧ u < st'.nblocks) hr2
            (fun u hu => ⟨⟨by omega, hu.2⟩, rfl⟩)
          rw [← hmid] at hr2'
          exact ⟨r2, Arrives.trans (by simpa using hr1') ⟨Nat.le_refl _, by omega⟩ hr2'⟩
  | or a b iha ihb =>
    intro yes no st st' tv seg hg he hl hy hn hc hw hseg
    simp only [embedCond, genCond, St.newBlock] at hg
    cases hga : genCond (embedCond a) yes st.nblocks { st with nblocks := st.nblocks + 1 } with
    | error er => simp [hga] at hg
    | ok st2 =>
      simp only [hga] at hg
      obtain ⟨segA, lA, eA, locA, nA⟩ := genCond_emitAt _ _ _ _ _ hga
      obtain ⟨segB, lB, eB, locB, nB⟩ := genCond_emitAt _ _ _ _ _ hg
      simp only [St.setBlock] at lA eA locA nA lB eB locB nB
      obtain ⟨hs, hcur, hmid, hmono⟩ := compose_run μ st st2 st' segA segB seg hc hw lA eA nA lB eB nB hseg
      simp only [Spec.Py.evalCond64] at he
      cases hea : Spec.Py.evalCond64 σ a with
      | none => simp [hea] at he
      | some tva =>
        have runA := iha yes st.nblocks { st with nblocks := st.nblocks + 1 } st2 tva segA hga hea
          hl (by simp; omega) (by simp) (by simp; omega) (by intro b' i hm; have := hw b' i hm; simp; omega) lA
        simp only at runA
        intro r
        obtain ⟨r1, hr1⟩ := runA r
        have hr1' := Arrives.mono (L' := st'.log) (P' := fun u => st.nblocks ≤ u ∧ u < st'.nblocks) hr1 hmono
        rw [hcur]
        cases tva with
        | true =>
          simp only [hea] at he
          have htv : tv = true := (Option.some.inj he).symm
          subst htv
          exact ⟨r1, by simpa using hr1'⟩
        | false =>
          simp only [hea] at he
          have hl2 : LocalsOk (st2.setBlock st.nblocks).locals σ μ := by simp only [St.setBlock, locA]; exact hl
          have hw2 : LogWF (st2.setBlock st.nblocks) := by
            intro b' i hm
            simp only [St.setBlock, lA, List.mem_append] at hm ⊢
            rcases hm with hm | hm
            · have := hw b' i hm; omega
            · rcases eA b' i hm with h | h <;> omega
          have runB := ihb yes no (st2.setBlock st.nblocks) st' tv segB hg he hl2
            (by simp [St.setBlock]; omega) (by simp [St.setBlock]; omega) (by simp [St.setBlock]; omega) hw2 lB
          simp only [St.setBlock] at runB
          obtain ⟨r2, hr2⟩ := runB r1
          have hr2' := Arrives.mono (L' := st'.log) (P' := fun u => st.nblocks ≤ u ∧ u < st'.nblocks) hr2
            (fun u hu => ⟨⟨by omega, hu.2⟩, rfl⟩)
          rw [← hmid] at hr2'
          exact ⟨r2, Arrives.trans (by simpa using hr1') ⟨Nat.le_refl _, by omega⟩ hr2'⟩

end Proofs.Py2IrCond
