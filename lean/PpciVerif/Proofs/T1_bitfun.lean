import PpciVerif.Gen.Py_bitfun
import PpciVerif.Model.Bitfun
import PpciVerif.Proofs.T1_PyRt
import PpciVerif.Proofs.T1_PyMask
import PpciVerif.Proofs.BitfunEnc
/-!
T1 translation tie for `ppci/utils/bitfun.py`: each definition of `Gen.Py_bitfun`
(REGENERATED from the source on every run) equals the hand model `Model.Bitfun`
that the theorems of C39 are about.  Values and rotation counts are arbitrary
integers; widths / moduli are natural numbers here because the hand model takes
them as `Nat` (negative widths are outside the model, as before).  Loops: for
every `fuel` above the stated bound the result is the model's, so `FuelExhausted`
is never returned.
-/
set_option linter.unusedTactic false   -- `py_norm` is a no-op for the current spelling of some loops
set_option linter.unusedSimpArgs false   -- simp sets list alternative spellings (`1 << n` / `2 ** n`)
namespace Proofs.T1.Bitfun
open Model Model.PyRt Model.Bitfun Gen.Py_bitfun Proofs.T1

def errOf : Model.Bitfun.Err → PyErr
  | .ValueError => .ValueError | .ZeroDivisionError => .ZeroDivisionError
  | .AssertionError => .AssertionError | .TypeError => .TypeError

def liftI : Except Model.Bitfun.Err Int → Except PyErr Int
  | .ok v => .ok v
  | .error e => .error (errOf e)

def liftN : Except Model.Bitfun.Err Nat → Except PyErr Int
  | .ok v => .ok (v : Int)
  | .error e => .error (errOf e)

def liftB : Except Model.Bitfun.Err Bool → Except PyErr Bool
  | .ok v => .ok v
  | .error e => .error (errOf e)

/-! ### rotations -/

theorem gen_rotate_right_eq_model (fuel : Nat) (v n : Int) (hn : 0 ≤ n) :
    rotate_right fuel v n = liftI (rotateRight v n) := by
  obtain ⟨k, rfl⟩ := Int.eq_ofNat_of_zero_le hn
  unfold rotate_right rotateRight
  simp only [pow_natCast, shr_natCast, bind_ok, Int.toNat_natCast]
  rw [if_neg (by omega)]
  by_cases h32 : (32 : Int) < k
  · rw [if_pos h32, shl_of_neg _ (by omega)]; rfl
  · rw [if_neg h32, shl_of_nonneg _ (by omega)]
    have e : ((32 : Int) - (k : Int)).toNat = 32 - k := by omega
    rw [e]; rfl

/-- `2 ** n` with `n < 0` is a float: the translated function leaves the integer fragment
    (the Python function raises TypeError at `v & mask`; the hand model says so) -/
theorem gen_rotate_right_negative (fuel : Nat) (v n : Int) (hn : n < 0) :
    rotate_right fuel v n = .error .OutsideFragment ∧ rotateRight v n = .error .TypeError := by
  unfold rotate_right rotateRight
  simp [pow_of_neg _ hn, hn]

theorem gen_rotate_left_eq_model (fuel : Nat) (v n : Int) :
    rotate_left fuel v n = liftI (rotateLeft v n) := by
  unfold rotate_left rotateLeft
  by_cases h0 : n ≥ 0
  · by_cases h1 : n < 32
    · simp only [h0, h1, if_true, not_true_eq_false, if_false]
      rw [gen_rotate_right_eq_model fuel v (32 - n) (by omega)]
      cases rotateRight v (32 - n) <;> rfl
    · simp [h0, h1, liftI, errOf]
  · simp [h0, liftI, errOf]

theorem gen_rotl_eq_model (fuel : Nat) (v count : Int) (bits : Nat) :
    rotl fuel v count (bits : Int) = liftI (Model.Bitfun.rotl v count bits) := by
  unfold Gen.Py_bitfun.rotl Model.Bitfun.rotl
  simp only [shl_natCast, pow_natCast, bind_ok]
  by_cases hb : bits = 0
  · subst hb; simp [mod_zero, liftI, errOf]
  · have hpos : (0 : Int) < bits := by omega
    have c0 := Int.emod_nonneg count (show (bits : Int) ≠ 0 by omega)
    have c1 := Int.emod_lt_of_pos count hpos
    simp only [mod_of_pos _ hpos, bind_ok, hb, if_false]
    rw [shl_of_nonneg _ c0, shr_of_nonneg _ (by omega)]
    have e : ((bits : Int) - count % (bits : Int)).toNat = bits - (count % (bits : Int)).toNat := by omega
    simp only [bind_ok, e, Int.one_mul, liftI]

theorem gen_rotr_eq_model (fuel : Nat) (v count : Int) (bits : Nat) :
    rotr fuel v count (bits : Int) = liftI (Model.Bitfun.rotr v count bits) := by
  unfold Gen.Py_bitfun.rotr Model.Bitfun.rotr
  simp only [shl_natCast, pow_natCast, bind_ok]
  by_cases hb : bits = 0
  · subst hb; simp [mod_zero, liftI, errOf]
  · have hpos : (0 : Int) < bits := by omega
    have c0 := Int.emod_nonneg count (show (bits : Int) ≠ 0 by omega)
    have c1 := Int.emod_lt_of_pos count hpos
    simp only [mod_of_pos _ hpos, bind_ok, hb, if_false]
    rw [shr_of_nonneg _ c0, shl_of_nonneg _ (by omega)]
    have e : ((bits : Int) - count % (bits : Int)).toNat = bits - (count % (bits : Int)).toNat := by omega
    simp only [bind_ok, e, Int.one_mul, liftI]

/-! ### correct / to_signed / to_unsigned / sign_extend -/

theorem gen_correct_eq_model (fuel : Nat) (value : Int) (bits : Nat) (signed : Bool) :
    Gen.Py_bitfun.correct fuel value (bits : Int) (PyRt.ofBool signed) = .ok (Model.Bitfun.correct value bits signed) := by
  unfold Gen.Py_bitfun.correct Model.Bitfun.correct
  have hpos : (0 : Int) < 2 ^ bits := Proofs.Bits.pow_pos bits
  simp only [shl_natCast, pow_natCast, bind_ok, Int.one_mul]
  simp only [mod_of_pos _ hpos, bind_ok, PyRt.bitLength, PyRt.ofBool]
  cases signed
  · simp
  · by_cases hbl : PyInt.bitLength (value % 2 ^ bits) = bits
    · simp [hbl]
    · have : ¬ ((PyInt.bitLength (value % 2 ^ bits) : Int) = (bits : Int)) := by omega
      simp [hbl, this]

theorem gen_to_signed_eq_model (fuel : Nat) (value : Int) (bits : Nat) :
    to_signed fuel value (bits : Int) = .ok (toSigned value bits) := by
  unfold to_signed toSigned
  have := gen_correct_eq_model fuel value bits true
  simp only [PyRt.ofBool, if_true] at this
  rw [this]; rfl

theorem gen_to_unsigned_eq_model (fuel : Nat) (value : Int) (bits : Nat) :
    to_unsigned fuel value (bits : Int) = .ok (toUnsigned value bits) := by
  unfold to_unsigned toUnsigned
  have := gen_correct_eq_model fuel value bits false
  simp only [PyRt.ofBool, Bool.false_eq_true, if_false] at this
  rw [this]; rfl

theorem gen_sign_extend_eq_model (fuel : Nat) (value : Int) (bits : Nat) :
    sign_extend fuel value (bits : Int) = liftI (signExtend value bits) := by
  unfold sign_extend signExtend
  by_cases hb : bits = 0
  · subst hb; simp [shl_of_neg, liftI, errOf]
  · have e : ((bits : Int) - 1).toNat = bits - 1 := by omega
    rw [shl_of_nonneg _ (by omega)]
    simp only [bind_ok, e, Int.one_mul, hb, if_false, liftI]

/-! ### reverse_bits -/

theorem gen_reverse_loop : ∀ (p : Nat) (v y : Int) (fuel : Nat), p + 1 ≤ fuel →
    ∃ v', reverse_bits_loop1 fuel v y ((p : Int) - 1) = .ok (v', revLoop y v p, -1) := by
  intro p
  induction p with
  | zero =>
    intro v y fuel hf
    obtain ⟨f, rfl⟩ : ∃ f, fuel = f + 1 := ⟨fuel - 1, by omega⟩
    unfold reverse_bits_loop1
    exact ⟨v, by simp [revLoop]⟩
  | succ p ih =>
    intro v y fuel hf
    obtain ⟨f, rfl⟩ : ∃ f, fuel = f + 1 := ⟨fuel - 1, by omega⟩
    have e : ((p + 1 : Nat) : Int) - 1 = (p : Int) := by omega
    unfold reverse_bits_loop1
    rw [e, if_pos (by omega)]
    simp only [shl_natCast, pow_natCast, bind_ok, revLoop]
    py_norm
    exact ih (v / 2) (y + v % 2 * 2 ^ p) f (by omega)

/-- fuel bound: `bits + 1` -/
theorem gen_reverse_bits_eq_model (fuel : Nat) (v : Int) (bits : Nat) (hf : bits + 1 ≤ fuel) :
    reverse_bits fuel v (bits : Int) = .ok (reverseBits v bits) := by
  obtain ⟨v', h⟩ := gen_reverse_loop bits v 0 fuel hf
  unfold reverse_bits reverseBits
  simp only [h, bind_ok]

/-! ### clz / ctz / popcnt -/

theorem gen_clz_loop (bits : Nat) (mask : Int) : ∀ (r : Nat) (v : Int) (count fuel : Nat), r + 1 ≤ fuel → count + r = bits →
    ∃ v', clz_loop1 fuel v (count : Int) (bits : Int) mask = .ok (v', ((clzLoop mask v count r : Nat) : Int)) := by
  intro r
  induction r with
  | zero =>
    intro v count fuel hf hc
    obtain ⟨f, rfl⟩ : ∃ f, fuel = f + 1 := ⟨fuel - 1, by omega⟩
    unfold clz_loop1
    rw [if_neg (by omega)]
    exact ⟨v, rfl⟩
  | succ r ih =>
    intro v count fuel hf hc
    obtain ⟨f, rfl⟩ : ∃ f, fuel = f + 1 := ⟨fuel - 1, by omega⟩
    unfold clz_loop1
    simp only [clzLoop]
    py_norm
    by_cases hz : PyInt.and v mask = 0
    · rw [if_pos ⟨by omega, hz⟩, if_pos hz]
      have e : (count : Int) + 1 = ((count + 1 : Nat) : Int) := by omega
      rw [e]
      exact ih (v * 2) (count + 1) f (by omega) (by omega)
    · rw [if_neg (fun h => hz h.2), if_neg hz]
      exact ⟨v, rfl⟩

/-- fuel bound: `bits + 1` -/
theorem gen_clz_eq_model (fuel : Nat) (v : Int) (bits : Nat) (hf : bits + 1 ≤ fuel) :
    Gen.Py_bitfun.clz fuel v (bits : Int) = liftN (Model.Bitfun.clz v bits) := by
  unfold Gen.Py_bitfun.clz Model.Bitfun.clz
  by_cases hb : bits = 0
  · subst hb; simp [shl_of_neg, liftN, errOf]
  · have e : ((bits : Int) - 1).toNat = bits - 1 := by omega
    rw [shl_of_nonneg _ (by omega)]
    simp only [bind_ok, e, Int.one_mul, hb, if_false, liftN]
    obtain ⟨v', h⟩ := gen_clz_loop bits (2 ^ (bits - 1)) bits v 0 fuel hf (by omega)
    have h' : clz_loop1 fuel v 0 (bits : Int) (2 ^ (bits - 1)) = .ok (v', ((clzLoop (2 ^ (bits - 1)) v 0 bits : Nat) : Int)) := h
    simp only [h', bind_ok]

theorem gen_ctz_loop (bits : Nat) : ∀ (r : Nat) (v : Int) (count fuel : Nat), r + 1 ≤ fuel → count + r = bits →
    ∃ v', ctz_loop1 fuel v (count : Int) (bits : Int) = .ok (v', ((ctzLoop v count r : Nat) : Int)) := by
  intro r
  induction r with
  | zero =>
    intro v count fuel hf hc
    obtain ⟨f, rfl⟩ : ∃ f, fuel = f + 1 := ⟨fuel - 1, by omega⟩
    unfold ctz_loop1
    rw [if_neg (by omega)]
    exact ⟨v, rfl⟩
  | succ r ih =>
    intro v count fuel hf hc
    obtain ⟨f, rfl⟩ : ∃ f, fuel = f + 1 := ⟨fuel - 1, by omega⟩
    unfold ctz_loop1
    simp only [ctzLoop]
    py_norm
    by_cases hz : v % 2 = 0
    · rw [if_pos ⟨by omega, hz⟩, if_pos hz]
      have e : (count : Int) + 1 = ((count + 1 : Nat) : Int) := by omega
      rw [e]
      exact ih (v / 2) (count + 1) f (by omega) (by omega)
    · rw [if_neg (fun h => hz h.2), if_neg hz]
      exact ⟨v, rfl⟩

/-- fuel bound: `bits + 1` -/
theorem gen_ctz_eq_model (fuel : Nat) (v : Int) (bits : Nat) (hf : bits + 1 ≤ fuel) :
    Gen.Py_bitfun.ctz fuel v (bits : Int) = .ok ((Model.Bitfun.ctz v bits : Nat) : Int) := by
  unfold Gen.Py_bitfun.ctz Model.Bitfun.ctz
  obtain ⟨v', h⟩ := gen_ctz_loop bits bits v 0 fuel hf (by omega)
  have h' : ctz_loop1 fuel v 0 (bits : Int) = .ok (v', ((ctzLoop v 0 bits : Nat) : Int)) := h
  simp only [h', bind_ok]

theorem gen_popcnt_loop (bits : Nat) (v : Int) : ∀ (r i count fuel : Nat), r + 1 ≤ fuel → i + r = bits →
    popcnt_loop1 fuel (bits : Int) (i : Int) (count : Int) v
      = .ok (((List.range' i r).foldl (fun count i => if PyInt.and v (2 ^ i) ≠ 0 then count + 1 else count) count : Nat) : Int) := by
  intro r
  induction r with
  | zero =>
    intro i count fuel hf hc
    obtain ⟨f, rfl⟩ : ∃ f, fuel = f + 1 := ⟨fuel - 1, by omega⟩
    unfold popcnt_loop1
    rw [if_neg (by omega)]
    rfl
  | succ r ih =>
    intro i count fuel hf hc
    obtain ⟨f, rfl⟩ : ∃ f, fuel = f + 1 := ⟨fuel - 1, by omega⟩
    unfold popcnt_loop1
    rw [if_pos (by omega)]
    simp only [shl_natCast, pow_natCast, bind_ok, Int.one_mul, List.range'_succ, List.foldl_cons]
    have ei : (i : Int) + 1 = ((i + 1 : Nat) : Int) := by omega
    by_cases hz : PyInt.and v (2 ^ i) ≠ 0
    · rw [if_pos hz, if_pos hz, ei]
      have e : (count : Int) + 1 = ((count + 1 : Nat) : Int) := by omega
      rw [e]
      exact ih (i + 1) (count + 1) f (by omega) (by omega)
    · rw [if_neg hz, if_neg hz, ei]
      exact ih (i + 1) count f (by omega) (by omega)

/-- fuel bound: `bits + 1` -/
theorem gen_popcnt_eq_model (fuel : Nat) (v : Int) (bits : Nat) (hf : bits + 1 ≤ fuel) :
    Gen.Py_bitfun.popcnt fuel v (bits : Int) = .ok ((Model.Bitfun.popcnt v bits : Nat) : Int) := by
  unfold Gen.Py_bitfun.popcnt Model.Bitfun.popcnt
  have h := gen_popcnt_loop bits v bits 0 0 fuel hf (by omega)
  have h' : popcnt_loop1 fuel (bits : Int) 0 0 v = _ := h
  simp only [h', bind_ok, List.range_eq_range']

/-! ### encode_imm32 -/

def encOut : Except Model.Bitfun.Err Int → Except PyErr (PyRt.Ctl Unit Int)
  | .ok x => .ok (.ret x)
  | .error _ => .ok (.next ())

theorem rotateLeft_ok (v : Int) (i : Nat) (hi : i < 16) : ∃ v2, rotateLeft v ((i : Int) * 2) = .ok v2 := by
  unfold rotateLeft rotateRight
  rw [if_neg (by omega), if_neg (by omega), if_neg (by omega), if_neg (by omega)]
  exact ⟨_, rfl⟩

theorem gen_enc_loop (v : Int) : ∀ (r i fuel : Nat), r + 1 ≤ fuel → i + r = 16 →
    encode_imm32_loop1 fuel 16 (i : Int) v = encOut (encLoop v r i) := by
  intro r
  induction r with
  | zero =>
    intro i fuel hf hc
    obtain ⟨f, rfl⟩ : ∃ f, fuel = f + 1 := ⟨fuel - 1, by omega⟩
    unfold encode_imm32_loop1
    rw [if_neg (by omega)]
    rfl
  | succ r ih =>
    intro i fuel hf hc
    obtain ⟨f, rfl⟩ : ∃ f, fuel = f + 1 := ⟨fuel - 1, by omega⟩
    obtain ⟨v2, hv2⟩ := rotateLeft_ok v i (by omega)
    unfold encode_imm32_loop1
    rw [if_pos (by omega)]
    simp only [gen_rotate_left_eq_model, hv2, liftI, bind_ok, encLoop, Except.bind, PyRt.shlN]
    have ei : (i : Int) + 1 = ((i + 1 : Nat) : Int) := by omega
    by_cases hz : PyInt.and v2 4294967040 = 0
    · rw [if_pos hz, if_pos hz]; rfl
    · rw [if_neg hz, if_neg hz, ei]
      exact ih (i + 1) f (by omega) (by omega)

/-- fuel bound: 17 (16 iterations and the final test of the `for`) -/
theorem gen_encode_imm32_eq_model (fuel : Nat) (v : Int) (hf : 17 ≤ fuel) :
    Gen.Py_bitfun.encode_imm32 fuel v = liftI (encodeImm32 v) := by
  unfold Gen.Py_bitfun.encode_imm32 encodeImm32
  by_cases hr : 0 ≤ v ∧ v < 2 ^ 32
  · have h := gen_enc_loop v 16 0 fuel hf (by omega)
    have h' : encode_imm32_loop1 fuel 16 0 v = encOut (encLoop v 16 0) := h
    rw [if_neg (by simpa using hr), if_neg (by simpa using hr), h']
    cases hE : encLoop v 16 0 with
    | ok x => rfl
    | error e =>
      -- the only error the loop model can end with here is the final ValueError
      have : e = .ValueError := by
        have key : ∀ (r i : Nat), i + r = 16 → ∀ e, encLoop v r i = .error e → e = .ValueError := by
          intro r
          induction r with
          | zero => intro i _ e h; simp [encLoop] at h; exact h.symm
          | succ r ih =>
            intro i hc e h
            obtain ⟨v2, hv2⟩ := rotateLeft_ok v i (by omega)
            simp only [encLoop, hv2, Except.bind] at h
            split at h
            · cases h
            · exact ih (i + 1) (by omega) e h
        exact key 16 0 (by omega) e hE
      subst this; rfl
  · rw [if_pos (by simpa using hr), if_pos (by simpa using hr)]; rfl

/-! ### align -/

theorem gen_align_loop (m : Nat) (hm : 0 < m) : ∀ (k : Nat) (v : Int) (fuel : Nat), k + 1 ≤ fuel → (-v) % (m : Int) ≤ k →
    align_loop1 fuel v (m : Int) = .ok (v + (-v) % (m : Int)) := by
  have hpos : (0 : Int) < m := by omega
  intro k
  induction k with
  | zero =>
    intro v fuel hf h
    obtain ⟨f, rfl⟩ : ∃ f, fuel = f + 1 := ⟨fuel - 1, by omega⟩
    have h0 := Int.emod_nonneg (-v) (show (m : Int) ≠ 0 by omega)
    have hz : (-v) % (m : Int) = 0 := by omega
    have hz' := (Proofs.Bitfun.neg_emod_eq_zero_iff v m).1 hz
    unfold align_loop1
    simp only [mod_of_pos _ hpos, bind_ok, hz', hz]
    simp
  | succ k ih =>
    intro v fuel hf h
    obtain ⟨f, rfl⟩ : ∃ f, fuel = f + 1 := ⟨fuel - 1, by omega⟩
    have h0 := Int.emod_nonneg (-v) (show (m : Int) ≠ 0 by omega)
    have h1 := Int.emod_lt_of_pos (-v) hpos
    unfold align_loop1
    simp only [mod_of_pos _ hpos, bind_ok]
    by_cases hz : v % (m : Int) = 0
    · rw [if_neg (by simp [hz])]
      rw [(Proofs.Bitfun.neg_emod_eq_zero_iff v m).2 hz]; simp
    · rw [if_pos hz]
      have hd : (-v) % (m : Int) ≠ 0 := fun hh => hz ((Proofs.Bitfun.neg_emod_eq_zero_iff v m).1 hh)
      have e : (-(v + 1)) % (m : Int) = (-v) % (m : Int) - 1 := by
        have : -(v + 1) = -v - 1 := by ring
        rw [this, ← Int.emod_sub_emod, Int.emod_eq_of_lt (by omega) (by omega)]
      rw [ih (v + 1) f (by omega) (by omega), e]
      congr 1; ring

/-- fuel bound: `m + 1` (the loop runs fewer than `m` times); `m = 0` raises ZeroDivisionError -/
theorem gen_align_eq_model (fuel : Nat) (value : Int) (m : Nat) (hf : m + 1 ≤ fuel) :
    Gen.Py_bitfun.align fuel value (m : Int) = liftI (Model.Bitfun.align value m) := by
  by_cases hm : m = 0
  · subst hm
    obtain ⟨f, rfl⟩ : ∃ f, fuel = f + 1 := ⟨fuel - 1, by omega⟩
    unfold Gen.Py_bitfun.align align_loop1 Model.Bitfun.align
    simp [mod_zero, liftI, errOf]
  · have hm' : 0 < m := by omega
    have hb : (-value) % (m : Int) ≤ m := Int.le_of_lt (Int.emod_lt_of_pos _ (by omega))
    unfold Gen.Py_bitfun.align
    rw [gen_align_loop m hm' m value fuel hf hb, Proofs.Bitfun.align_eq value hm']
    rfl

/-! ### wrap_negative / inrange -/

theorem gen_wrap_negative_eq_model (fuel : Nat) (value : Int) (bits : Nat) :
    Gen.Py_bitfun.wrap_negative fuel value (bits : Int) = liftI (wrapNegative value bits) := by
  unfold Gen.Py_bitfun.wrap_negative wrapNegative
  simp only [shl_natCast, pow_natCast, bind_ok, Int.one_mul]
  by_cases hb : bits = 0
  · subst hb; simp [shl_of_neg, liftI, errOf]
  · have e : ((bits : Int) - 1).toNat = bits - 1 := by omega
    rw [shl_of_nonneg _ (by omega)]
    simp only [bind_ok, e, Int.one_mul, hb, if_false]
    split
    · rfl
    · split <;> simp_all [liftI, errOf]

theorem gen_inrange_eq_model (fuel : Nat) (value : Int) (bits : Nat) :
    Gen.Py_bitfun.inrange fuel value (bits : Int) = liftB (Model.Bitfun.inrange value bits) := by
  unfold Gen.Py_bitfun.inrange Model.Bitfun.inrange
  by_cases hb : bits = 0
  · subst hb; simp [shl_of_neg, liftB, errOf]
  · have e : ((bits : Int) - 1).toNat = bits - 1 := by omega
    rw [shl_of_nonneg _ (by omega)]
    simp only [bind_ok, e, Int.one_mul, hb, if_false, liftB]

end Proofs.T1.Bitfun
