import PpciVerif.Proofs.AsmSyn
import PpciVerif.Proofs.AsmParse
import PpciVerif.Gen.AsmAll
import PpciVerif.Proofs.AsmTab.arm
import PpciVerif.Proofs.AsmTab.thumb
import PpciVerif.Proofs.AsmTab.avr
import PpciVerif.Proofs.AsmTab.m68k
import PpciVerif.Proofs.AsmTab.mcs6500
import PpciVerif.Proofs.AsmTab.microblaze
import PpciVerif.Proofs.AsmTab.mips
import PpciVerif.Proofs.AsmTab.msp430
import PpciVerif.Proofs.AsmTab.or1k
import PpciVerif.Proofs.AsmTab.riscv
import PpciVerif.Proofs.AsmTab.rvc
import PpciVerif.Proofs.AsmTab.rvf
import PpciVerif.Proofs.AsmTab.rvfx
import PpciVerif.Proofs.AsmTab.stm8
import PpciVerif.Proofs.AsmTab.x86_64
import PpciVerif.Proofs.AsmTab.x87
import PpciVerif.Proofs.AsmTab.xtensa
/-!
# C09 — assembling an instruction's printed form reproduces its encoding   (level P)

What is proved here (all for ALL operand values, no bounds):

1. **Lexing** (`lex_render_eq_tokens`, `printed_form_lexes_partial`): for every instruction syntax of every
   assembler configuration, flattened over every choice of operand constructor, the text ppci prints
   (`Syntax.render`: mnemonic words, blanks, glyphs, register names, decimal integers incl. negatives,
   identifier labels) lexes — with the model of `AsmLexer`, ordered alternatives, maximal munch per class —
   to exactly the token list the generated grammar rule of that syntax is built from.  The hypothesis is
   the decidable `wellSpaced`, checked by the kernel on the regenerated table of every configuration
   (`<key>_wellSpaced`).  Syntaxes with a register-SET operand (arm/thumb push/pop) are outside (`supported`).
2. **Parsing** (`parses_sound_and_complete`, `parses_all_trees_of_ranked`, `<key>_ranked`): the Lean
   enumerator `parses` returns exactly the derivation trees (of bounded depth) of the dumped grammar for a
   token-type sequence; the grammars of 15 of the 17 configurations are recursion free (kernel-checked
   ranking), so there the enumerator returns ALL derivation trees.  The harness feeds the real token types
   of every printed instance to it and encodes every tree with the real classes.

What is NOT proved (and not claimed): that ppci's Earley parser returns one of those trees and resolves
priorities as documented (observed on every run only); that encoding a tree gives the instance's bytes
(evaluated on the real code per instance, never proved).  `unambiguous_full` — every printed instruction
has one derivation — is FALSE for x86_64, msp430, rvc (witnesses below; open findings).
-/
namespace Props.C09
open Model.AsmLex Model.AsmSyn Model.AsmParse

/-! ## (1) lexing the printed form -/

/-- generic form: any well-spaced flat syntax, any fitting operand values -/
theorem lex_render_eq_tokens (cfg : Config) (ls : List Leaf) (vs : List Val)
    (hw : wellSpaced cfg ls = true) (hf : Fits cfg ls vs) :
    lex (render ls vs) = some (tokens ls vs) :=
  Proofs.AsmSyn.lex_render_eq_tokens cfg ls vs hw hf

/-- the flattening the driver renders (by constructor choices) is one of those the table check covers -/
theorem expandChoice_covered (tab : List SynDesc) (fuel : Nat) (es : List Elem) (ch : List Nat)
    (ls : List Leaf) (ch' : List Nat) (h : expandChoice tab fuel es ch = some (ls, ch')) :
    ls ∈ expand tab fuel es :=
  Proofs.AsmSyn.expandChoice_mem tab fuel es ch ls ch' h

theorem arm_wellSpaced : configWellSpaced Gen.Asm_arm.config = true := Proofs.AsmTab.arm.wellSpaced
theorem thumb_wellSpaced : configWellSpaced Gen.Asm_thumb.config = true := Proofs.AsmTab.thumb.wellSpaced
theorem avr_wellSpaced : configWellSpaced Gen.Asm_avr.config = true := Proofs.AsmTab.avr.wellSpaced
theorem m68k_wellSpaced : configWellSpaced Gen.Asm_m68k.config = true := Proofs.AsmTab.m68k.wellSpaced
theorem mcs6500_wellSpaced : configWellSpaced Gen.Asm_mcs6500.config = true := Proofs.AsmTab.mcs6500.wellSpaced
theorem microblaze_wellSpaced : configWellSpaced Gen.Asm_microblaze.config = true := Proofs.AsmTab.microblaze.wellSpaced
theorem mips_wellSpaced : configWellSpaced Gen.Asm_mips.config = true := Proofs.AsmTab.mips.wellSpaced
theorem msp430_wellSpaced : configWellSpaced Gen.Asm_msp430.config = true := Proofs.AsmTab.msp430.wellSpaced
theorem or1k_wellSpaced : configWellSpaced Gen.Asm_or1k.config = true := Proofs.AsmTab.or1k.wellSpaced
theorem riscv_wellSpaced : configWellSpaced Gen.Asm_riscv.config = true := Proofs.AsmTab.riscv.wellSpaced
theorem rvc_wellSpaced : configWellSpaced Gen.Asm_rvc.config = true := Proofs.AsmTab.rvc.wellSpaced
theorem rvf_wellSpaced : configWellSpaced Gen.Asm_rvf.config = true := Proofs.AsmTab.rvf.wellSpaced
theorem rvfx_wellSpaced : configWellSpaced Gen.Asm_rvfx.config = true := Proofs.AsmTab.rvfx.wellSpaced
theorem stm8_wellSpaced : configWellSpaced Gen.Asm_stm8.config = true := Proofs.AsmTab.stm8.wellSpaced
theorem x86_64_wellSpaced : configWellSpaced Gen.Asm_x86_64.config = true := Proofs.AsmTab.x86_64.wellSpaced
theorem x87_wellSpaced : configWellSpaced Gen.Asm_x87.config = true := Proofs.AsmTab.x87.wellSpaced
theorem xtensa_wellSpaced : configWellSpaced Gen.Asm_xtensa.config = true := Proofs.AsmTab.xtensa.wellSpaced

/-- the list `Gen.AsmAll.all` is exactly these 17 configurations -/
theorem all_configs_wellSpaced : ∀ cfg ∈ Gen.AsmAll.all, configWellSpaced cfg = true := by
  intro cfg h
  simp only [Gen.AsmAll.all, List.mem_cons, List.not_mem_nil, or_false] at h
  rcases h with rfl|rfl|rfl|rfl|rfl|rfl|rfl|rfl|rfl|rfl|rfl|rfl|rfl|rfl|rfl|rfl|rfl
  · exact arm_wellSpaced
  · exact thumb_wellSpaced
  · exact avr_wellSpaced
  · exact m68k_wellSpaced
  · exact mcs6500_wellSpaced
  · exact microblaze_wellSpaced
  · exact mips_wellSpaced
  · exact msp430_wellSpaced
  · exact or1k_wellSpaced
  · exact riscv_wellSpaced
  · exact rvc_wellSpaced
  · exact rvf_wellSpaced
  · exact rvfx_wellSpaced
  · exact stm8_wellSpaced
  · exact x86_64_wellSpaced
  · exact x87_wellSpaced
  · exact xtensa_wellSpaced

/-- **Theorem (1).**  For every configuration, every instruction class with a syntax, every choice of
    operand constructors (flattening `ls`) without a register-set operand, and ALL operand values that fit
    (`Fits`: any register of the operand's class, any integer, any identifier), the printed text lexes to
    the expected tokens.  Partial with respect to C09: says nothing about parsing and encoding. -/
theorem printed_form_lexes_partial (cfg : Config) (hc : cfg ∈ Gen.AsmAll.all)
    (s : SynDesc) (hs : s ∈ cfg.syntaxes) (hi : s.isInstr = true)
    (ls : List Leaf) (hl : ls ∈ expand cfg.syntaxes expandFuel s.elems) (hsup : supported ls = true)
    (vs : List Val) (hf : Fits cfg ls vs) :
    lex (render ls vs) = some (tokens ls vs) := by
  have h := all_configs_wellSpaced cfg hc
  simp only [configWellSpaced, Bool.and_eq_true, List.all_eq_true, Bool.or_eq_true, Bool.not_eq_true'] at h
  obtain ⟨hregs, h⟩ := h
  have hregs' : regsOK cfg = true := by simpa [regsOK, List.all_eq_true] using hregs
  have h1 := h s hs
  rcases h1 with h1 | h1
  · rw [hi] at h1; cases h1
  · have h2 := h1 ls hl
    rcases h2 with h2 | h2
    · rw [hsup] at h2; cases h2
    · exact lex_render_eq_tokens cfg ls vs (Proofs.AsmSyn.wellSpaced_of_fast hregs' h2) hf

/-! non-vacuity: a concrete avr instruction with a two-token register name and a negative immediate -/

def regIdx (cfg : Config) (n : String) : Nat := cfg.regClasses.findIdx (·.name == n)

def demoLeaves : List Leaf :=
  [.word "ldd".toList, .ws " ".toList, .reg (regIdx Gen.Asm_avr.config "AvrRegister"), .glyph ',', .ws " ".toList,
   .reg (regIdx Gen.Asm_avr.config "AvrYRegister"), .glyph '+', .int]
def demoVals : List Val := [.reg ⟨"r5", [.word "r5"]⟩, .reg ⟨"Y", [.word "Y"]⟩, .int (-3)]

example : wellSpaced Gen.Asm_avr.config demoLeaves = true := by decide +kernel
example : Fits Gen.Asm_avr.config demoLeaves demoVals :=
  ⟨⟨(Gen.Asm_avr.config.regClasses[regIdx Gen.Asm_avr.config "AvrRegister"]?).getD default, by decide +kernel, by decide +kernel⟩,
   ⟨(Gen.Asm_avr.config.regClasses[regIdx Gen.Asm_avr.config "AvrYRegister"]?).getD default, by decide +kernel, by decide +kernel⟩,
   rfl⟩
example : String.ofList (render demoLeaves demoVals) = "ldd r5, Y+-3" := by decide +kernel
example : tokens demoLeaves demoVals =
    [.id "ldd".toList, .id "r5".toList, .glyph ',', .id "Y".toList, .glyph '+', .glyph '-', .num 3] := by
  decide +kernel

/-! negation witnesses for the spacing condition: the syntaxes ppci had before the fixes
    (`sdiv` + register, thumb `bkpt` + immediate) are not well spaced and really lex differently -/

example : wellSpaced Gen.Asm_arm.config [.word "sdiv".toList, .reg (regIdx Gen.Asm_arm.config "ArmRegister")] = false := by
  decide +kernel
example : lex "sdivR0".toList = some [.id "sdivR0".toList] := by decide +kernel
example : wellSpaced Gen.Asm_thumb.config [.word "bkpt".toList, .int] = false := by decide +kernel
example : lex "bkpt2".toList = some [.id "bkpt2".toList] := by decide +kernel
example : lex "1.5".toList = some [.real "1.5".toList] := by decide +kernel
example : lex "%10".toList = some [.num 2] := by decide +kernel
example : lex "0x1f".toList = some [.num 31] := by decide +kernel

/-! ## (2) all parses of a token-type sequence -/

/-- the enumerator returns exactly the derivation trees of depth ≤ fuel with the given yield,
    for ANY grammar (recursive or not) -/
theorem parses_sound_and_complete (G : List Prod) (fuel : Nat) (A : String) (ts : List String) (t : Tree) :
    t ∈ parses G fuel A ts ↔ (t.ok G (.nt A) ∧ t.yield = ts ∧ t.depth ≤ fuel) :=
  Proofs.AsmParse.mem_parses_iff G fuel A ts t

/-- for a ranked grammar and fuel `rank A + 1`: exactly ALL derivation trees with that yield -/
theorem parses_all_trees_of_ranked (G : List Prod) (ranks : List (String × Nat))
    (hr : rankedB G ranks = true) (A : String) (ts : List String) (t : Tree) :
    t ∈ parses G (rankOf ranks A + 1) A ts ↔ (t.ok G (.nt A) ∧ t.yield = ts) :=
  Proofs.AsmParse.parses_complete_of_ranked G ranks hr A ts t

theorem avr_ranked : rankedB Gen.Asm_avr.grammar Gen.Asm_avr.ranks = true := Proofs.AsmTab.avr.ranked
theorem m68k_ranked : rankedB Gen.Asm_m68k.grammar Gen.Asm_m68k.ranks = true := Proofs.AsmTab.m68k.ranked
theorem mcs6500_ranked : rankedB Gen.Asm_mcs6500.grammar Gen.Asm_mcs6500.ranks = true := Proofs.AsmTab.mcs6500.ranked
theorem microblaze_ranked : rankedB Gen.Asm_microblaze.grammar Gen.Asm_microblaze.ranks = true := Proofs.AsmTab.microblaze.ranked
theorem mips_ranked : rankedB Gen.Asm_mips.grammar Gen.Asm_mips.ranks = true := Proofs.AsmTab.mips.ranked
theorem msp430_ranked : rankedB Gen.Asm_msp430.grammar Gen.Asm_msp430.ranks = true := Proofs.AsmTab.msp430.ranked
theorem or1k_ranked : rankedB Gen.Asm_or1k.grammar Gen.Asm_or1k.ranks = true := Proofs.AsmTab.or1k.ranked
theorem riscv_ranked : rankedB Gen.Asm_riscv.grammar Gen.Asm_riscv.ranks = true := Proofs.AsmTab.riscv.ranked
theorem rvc_ranked : rankedB Gen.Asm_rvc.grammar Gen.Asm_rvc.ranks = true := Proofs.AsmTab.rvc.ranked
theorem rvf_ranked : rankedB Gen.Asm_rvf.grammar Gen.Asm_rvf.ranks = true := Proofs.AsmTab.rvf.ranked
theorem rvfx_ranked : rankedB Gen.Asm_rvfx.grammar Gen.Asm_rvfx.ranks = true := Proofs.AsmTab.rvfx.ranked
theorem stm8_ranked : rankedB Gen.Asm_stm8.grammar Gen.Asm_stm8.ranks = true := Proofs.AsmTab.stm8.ranked
theorem x86_64_ranked : rankedB Gen.Asm_x86_64.grammar Gen.Asm_x86_64.ranks = true := Proofs.AsmTab.x86_64.ranked
theorem x87_ranked : rankedB Gen.Asm_x87.grammar Gen.Asm_x87.ranks = true := Proofs.AsmTab.x87.ranked
theorem xtensa_ranked : rankedB Gen.Asm_xtensa.grammar Gen.Asm_xtensa.ranks = true := Proofs.AsmTab.xtensa.ranked

/-! arm and thumb have the hand-written left-recursive register-list rules
    (`reg_list_inner → reg_list_inner , reg_or_range`): no ranking exists, the dump carries `[]`, and only
    the depth-bounded statement `parses_sound_and_complete` applies (the driver uses fuel 12). -/
example : Gen.Asm_arm.ranks = [] := rfl
example : rankedB Gen.Asm_arm.grammar Gen.Asm_arm.ranks = false := Proofs.AsmTab.arm.not_ranked
example : rankedB Gen.Asm_thumb.grammar Gen.Asm_thumb.ranks = false := Proofs.AsmTab.thumb.not_ranked

/-- token types the parser sees for a printed flat syntax -/
def typs (cfg : Config) (ls : List Leaf) (vs : List Val) : List String :=
  (tokens ls vs).map (typOf cfg.keywords)

def fuelOf (cfg : Config) : Nat := rankOf cfg.ranks "instruction" + 1

/-- what would make the Earley parser's choice irrelevant: every printed instruction has at most one
    derivation.  NOT a theorem: -/
def unambiguous_full (cfg : Config) : Prop :=
  ∀ s ∈ cfg.syntaxes, s.isInstr = true → ∀ ls ∈ expand cfg.syntaxes expandFuel s.elems, supported ls = true →
    ∀ vs, Fits cfg ls vs → (parses cfg.grammar (fuelOf cfg) "instruction" (typs cfg ls vs)).length ≤ 1

/-- the x86_64 class `add reg64, rm64` (found by its shape so that the witness survives re-numbering) -/
def addRR : SynDesc :=
  (Gen.Asm_x86_64.config.syntaxes.find? fun s =>
    s.isInstr && match s.elems with
      | [.word "add", .ws _, .op _ (.reg c), .glyph ',', .ws _, .op _ (.cons _)] =>
          c == regIdx Gen.Asm_x86_64.config "Register64"
      | _ => false).getD default
/-- its flattening with a register as `rm` -/
def addRRLeaves : List Leaf :=
  [.word "add".toList, .ws " ".toList, .reg (regIdx Gen.Asm_x86_64.config "Register64"), .glyph ',', .ws " ".toList,
   .reg (regIdx Gen.Asm_x86_64.config "Register64")]

/-- x86_64 `add rax, rcx` has two derivations (`add rm, reg` with priority 0 and `add reg, rm` with priority 1,
    different opcodes 01/03): the reg,rm instance is assembled as the rm,reg instruction (open finding) -/
theorem x86_64_unambiguous_full_false : ¬ unambiguous_full Gen.Asm_x86_64.config := by
  intro h
  have := h addRR (by decide +kernel) (by decide +kernel) addRRLeaves (by decide +kernel) (by decide +kernel)
    [.reg ⟨"rax", [.word "rax"]⟩, .reg ⟨"rcx", [.word "rcx"]⟩]
    ⟨⟨(Gen.Asm_x86_64.config.regClasses[regIdx Gen.Asm_x86_64.config "Register64"]?).getD default,
        by decide +kernel, by decide +kernel⟩,
     ⟨(Gen.Asm_x86_64.config.regClasses[regIdx Gen.Asm_x86_64.config "Register64"]?).getD default,
        by decide +kernel, by decide +kernel⟩, rfl⟩
  have e : (parses Gen.Asm_x86_64.config.grammar (fuelOf Gen.Asm_x86_64.config) "instruction"
      (typs Gen.Asm_x86_64.config addRRLeaves
        [.reg ⟨"rax", [.word "rax"]⟩, .reg ⟨"rcx", [.word "rcx"]⟩])).length = 2 := by decide +kernel
  omega

/-- msp430 `mov.w #0, r3`: the constant-generator source and the immediate source both derive `# NUMBER` -/
theorem msp430_two_parses :
    2 ≤ (parses Gen.Asm_msp430.grammar (fuelOf Gen.Asm_msp430.config) "instruction"
      ["mov", ".", "w", "#", "NUMBER", ",", "r3"]).length := by decide +kernel

/-- rvc `j a`: the base-ISA `j` (relocation b_imm20) and the rvc `j` (relaxable cb_imm11) have the same syntax -/
theorem rvc_two_parses :
    2 ≤ (parses Gen.Asm_rvc.grammar (fuelOf Gen.Asm_rvc.config) "instruction" ["j", "ID"]).length := by
  decide +kernel

/-- a configuration where the same question has the answer one -/
example : (parses Gen.Asm_avr.grammar (fuelOf Gen.Asm_avr.config) "instruction"
    ["ldd", "r5", ",", "y", "+", "-", "NUMBER"]).length = 1 := by decide +kernel

end Props.C09
