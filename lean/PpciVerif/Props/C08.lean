import PpciVerif.Spec.RV32
import PpciVerif.Model.RVEnc
import PpciVerif.Model.Encode
import PpciVerif.Gen.Tokens
import PpciVerif.Gen.Instrs
import PpciVerif.Proofs.RVEnc32
import PpciVerif.Proofs.RVEncC
import PpciVerif.Proofs.RVSpell
import PpciVerif.Proofs.EncodeC08
/-!
# C08 — instruction encodings agree with the architecture reference

Property theorems only.

**B (riscv).**  Model: `Model.RVEnc` (hand model of every RV32I/M/Zicsr and RVC class of
`ppci/arch/riscv/{instructions,rvc_instructions}.py`: encoder, printed tokens, intended meaning, tied to
the code by correspondence).  Specification: `Spec.RV32` (decoders and spellings written from the ISA
manual, validated against llvm-mc).  Shape P: proved for all registers and all architecturally in-range
immediates (`valid`); ppci accepts more than is in range (C10) and the full statement over everything it
accepts is false — negation proved below.

**A (all ISAs).**  Tables `Gen.Tokens`/`Gen.Instrs` regenerated from the live classes on every run,
`decide +kernel` per table + the generic lemmas of `Proofs.EncodeC08` (over C10's `Model.Encode`).
-/
namespace Props.C08
open Spec.RV32 Model.RVEnc Proofs.RVEnc

/-! ## B — riscv: decode ∘ encode = meaning, printed text spells the meaning -/

/-- For EVERY modelled class and all architecturally valid operands the encoder accepts, and the
    bytes decode (ISA-manual decoder) to the instruction the class is meant to be. -/
theorem riscv_encode_decodes_partial (c : Cls) (o : Ops) (h : valid c o) :
    ∃ w, enc c o = .ok w ∧ decodeAny c.size w.toNat = some (meaning c o) :=
  match c with
  | .Movr => good_Movr o h | .Csrs => good_Csrs o h | .Csrwi => good_Csrwi o h | .Csrsi => good_Csrsi o h
  | .Csrci => good_Csrci o h | .Csrw => good_Csrw o h | .Csrr => good_Csrr o h | .Mret => good_Mret o h
  | .Addr => good_Addr o h | .Subr => good_Subr o h | .Sll => good_Sll o h | .Slt => good_Slt o h
  | .Sltu => good_Sltu o h | .Xorr => good_Xorr o h | .Srl => good_Srl o h | .Sra => good_Sra o h
  | .Orr => good_Orr o h | .Andr => good_Andr o h
  | .Slli => good_Slli o h | .Srli => good_Srli o h | .Srai => good_Srai o h
  | .Addi => good_Addi o h | .Slti => good_Slti o h | .Sltiu => good_Sltiu o h | .Xori => good_Xori o h
  | .Ori => good_Ori o h | .Andi => good_Andi o h | .Nop => good_Nop o h
  | .Rdcyclei => good_Rdcyclei o h | .Rdcyclehi => good_Rdcyclehi o h | .Rdtimei => good_Rdtimei o h
  | .Rdtimehi => good_Rdtimehi o h | .Rdinstreti => good_Rdinstreti o h | .Rdinstrethi => good_Rdinstrethi o h
  | .Ebreak => good_Ebreak o h | .Bl => good_Bl o h | .B => good_B o h | .Blr => good_Blr o h
  | .Lui => good_Lui o h | .Adru => good_Adru o h | .Adrurel => good_Adrurel o h | .Adrl => good_Adrl o h
  | .Loadlrel => good_Loadlrel o h | .Adrlrel => good_Adrlrel o h | .Auipc => good_Auipc o h
  | .Beq => good_Beq o h | .Bne => good_Bne o h | .Blt => good_Blt o h | .Bgt => good_Bgt o h
  | .Bge => good_Bge o h | .Ble => good_Ble o h | .Bltu => good_Bltu o h | .Bgtu => good_Bgtu o h
  | .Bgeu => good_Bgeu o h | .Bleu => good_Bleu o h
  | .Sb => good_Sb o h | .Sh => good_Sh o h | .Sw => good_Sw o h
  | .Lb => good_Lb o h | .Lh => good_Lh o h | .Lw => good_Lw o h | .Lbu => good_Lbu o h | .Lhu => good_Lhu o h
  | .Mul => good_Mul o h | .Div => good_Div o h | .Divu => good_Divu o h | .Rem => good_Rem o h
  | .Remu => good_Remu o h
  | .CSub => good_CSub o h | .CXor => good_CXor o h | .COr => good_COr o h | .CAnd => good_CAnd o h
  | .CSlli => good_CSlli o h | .CSrli => good_CSrli o h | .CSrai => good_CSrai o h | .CAndi => good_CAndi o h
  | .CAddi => good_CAddi o h | .CNop => good_CNop o h | .CEbreak => good_CEbreak o h | .CMovr => good_CMovr o h
  | .CBl => good_CBl o h | .CJal => good_CJal o h | .CB => good_CB o h | .CJ => good_CJ o h
  | .CJr => good_CJr o h | .CJalr => good_CJalr o h | .CBeqz => good_CBeqz o h | .CBnez => good_CBnez o h
  | .CLw => good_CLw o h | .CSw => good_CSw o h | .CLwsp => good_CLwsp o h | .CAddi4spn => good_CAddi4spn o h
  | .CAddi16sp => good_CAddi16sp o h | .CSwsp => good_CSwsp o h | .CLi => good_CLi o h | .CLui => good_CLui o h

/-- the emitted token fits its size: the bytes ARE the little-endian bytes of the decoded word -/
theorem riscv_word_fits (c : Cls) (o : Ops) (h : valid c o) :
    ∃ w, enc c o = .ok w ∧ w.toNat < 2 ^ (8 * c.size) := by
  obtain ⟨w, he, hd⟩ := riscv_encode_decodes_partial c o h
  refine ⟨w, he, ?_⟩
  unfold decodeAny at hd
  by_cases hc : c.isC = true
  · simp only [Cls.size, hc, if_true] at hd ⊢
    by_cases hlt : 2 ^ 16 ≤ w.toNat
    · exfalso
      unfold decodeC at hd
      rw [if_pos hlt] at hd
      simp at hd
    · omega
  · have hc' : c.isC = false := by simpa using hc
    simp only [Cls.size, hc', Bool.false_eq_true, if_false] at hd ⊢
    have h42 : ¬ ((4 : Nat) = 2) := by decide
    rw [if_neg h42] at hd
    by_cases hlt : 2 ^ 32 ≤ w.toNat
    · exfalso
      unfold decode at hd
      rw [if_pos hlt] at hd
      simp at hd
    · omega

/-- what the class prints is a spelling — the canonical form or a pseudo-instruction of the ISA manual —
    of the instruction the bytes decode to.  Two exceptions, excluded here and witnessed below:
    `CBnez` prints the mnemonic `c.bneqz` (open finding), `Adrlrel` prints ppci's private two-operand
    relocation form `addi rd, label` for `addi rd, rd, %pcrel_lo(label)` (counted as an unknown spelling). -/
theorem riscv_printed_spelling_partial (c : Cls) (o : Ops) (h : valid c o) (h1 : c ≠ .CBnez) (h2 : c ≠ .Adrlrel) :
    (meaning c o).spelledBy (ptoks c o) := spelled_all c o h h1 h2

/-- the full statement (every operand tuple the encoder ACCEPTS) — not true of the code -/
def riscv_encode_decodes_full : Prop :=
  ∀ (c : Cls) (o : Ops) (w : Int), enc c o = .ok w → decodeAny c.size w.toNat = some (meaning c o)

/-- Lean-proved negation: `addi x5, x5, 4095` is accepted and is the encoding of `addi x5, x5, -1`
    (`Li` emits exactly this form for the low half of a constant) -/
theorem riscv_encode_decodes_full_false : ¬ riscv_encode_decodes_full := by
  intro h
  have := h .Addi ⟨5, 5, 0, 4095⟩ 0xfff28293 (by decide)
  revert this
  decide

/-! witnesses (replayed on the real classes by harness/c08.py) -/
example : enc .Addi ⟨5, 5, 0, 4095⟩ = .ok 0xfff28293
    ∧ decode 0xfff28293 = some (.alui .addi 5 5 (-1)) := by decide
example : ¬ (meaning .CBnez ⟨9, 0, 0, 0⟩).spelledBy (ptoks .CBnez ⟨9, 0, 0, 0⟩) := by decide
example : ¬ (meaning .Adrlrel ⟨7, 0, 0, 0⟩).spelledBy (ptoks .Adrlrel ⟨7, 0, 0, 0⟩) := by decide
/-! non-vacuity: concrete in-range instances of every shape -/
example : valid .Sw ⟨5, 6, 0, -4⟩ ∧ enc .Sw ⟨5, 6, 0, -4⟩ = .ok 0xfe532e23 := by decide
example : valid .CAddi ⟨0, 5, 0, -1⟩ ∧ enc .CAddi ⟨0, 5, 0, -1⟩ = .ok 0x12fd
    ∧ decodeC 0x12fd = some (.addi 5 (-1)) := by decide
example : valid .Ble ⟨5, 6, 0, 0⟩ ∧ meaning .Ble ⟨5, 6, 0, 0⟩ = .base (.branch .bge 6 5 0) := by decide
example : valid .CLui ⟨5, 0, 0, -3⟩ ∧ decodeC 0x72f5 = some (.lui 5 (-3)) := by decide
example : (CInstr.lui 5 (-3)).expand = .lui 5 1048573 := by decide

/-! ## A — all ISAs: declarative classes -/

open Model.Tables Model.Token Model.Encode Proofs.Encode Proofs.EncodeC08

/-- the tables of every ISA, paired -/
def tables : List (List TokenDesc × List InstrDesc) :=
  [(Gen.Tokens.armTokens, Gen.Instrs.armInstrs), (Gen.Tokens.thumbTokens, Gen.Instrs.thumbInstrs),
   (Gen.Tokens.avrTokens, Gen.Instrs.avrInstrs), (Gen.Tokens.m68kTokens, Gen.Instrs.m68kInstrs),
   (Gen.Tokens.mcs6500Tokens, Gen.Instrs.mcs6500Instrs), (Gen.Tokens.microblazeTokens, Gen.Instrs.microblazeInstrs),
   (Gen.Tokens.mipsTokens, Gen.Instrs.mipsInstrs), (Gen.Tokens.msp430Tokens, Gen.Instrs.msp430Instrs),
   (Gen.Tokens.or1kTokens, Gen.Instrs.or1kInstrs), (Gen.Tokens.riscvTokens, Gen.Instrs.riscvInstrs),
   (Gen.Tokens.stm8Tokens, Gen.Instrs.stm8Instrs), (Gen.Tokens.x86_64Tokens, Gen.Instrs.x86_64Instrs),
   (Gen.Tokens.xtensaTokens, Gen.Instrs.xtensaInstrs), (Gen.Tokens.miscTokens, Gen.Instrs.miscInstrs)]

/-- TABLE FACT (kernel-checked on the regenerated tables of all 14 ISA packages): in every declarative
    instruction class, for every choice of constructor operands, the token classes are well formed, no
    bit of a field written from an operand is written again by a later pattern, every fixed value fits
    its field and every register number fits the field it goes to. -/
theorem all_tables_ordered : tables.all (fun p => isaOK p.1 p.2) = true := by decide +kernel

/-- classes in which a FIXED field is deliberately overlaid by a later pattern (a default that a
    constructor operand overwrites): exactly these, pinned -/
def overlaidFixed (tt : List TokenDesc) (is : List InstrDesc) : List String :=
  (is.filter (fun c => covered c &&
    match expand is expandFuel c with
    | none => true
    | some flats => flats.any (fun flat => declarativeFlat flat &&
        match tokenDescs tt flat with
        | none => true
        | some ds => (marks ds (flat.flatMap (·.patterns))).any (!·)))).map (·.name)

theorem overlaid_fixed_pinned :
    tables.map (fun p => overlaidFixed p.1 p.2) =
      [["Mov2", "movls"], [], [], [], [], [], [], [], [], [],
       ["BccmLongmemBit", "BcplLongmemBit", "BresLongmemBit", "BsetLongmemBit", "BtjfLongmemBitBranch",
        "BtjtLongmemBitBranch"], [], [], []] := by decide +kernel

/-- THE LIFT (no collision).  In any tables satisfying `isaOK`, for a covered class, any of its
    declarative shapes and any two instances of that shape: if both encode to the same token words, then
    every operand written by a pattern was given values congruent modulo `2^width` of its field — so two
    operand tuples whose values fit their fields (same representable window) never collide. -/
theorem declarative_no_collision {tt : List TokenDesc} {is : List InstrDesc} (hok : isaOK tt is = true)
    {c : InstrDesc} (hc : c ∈ is) (hcov : covered c = true) :
    ∃ flats, expand is expandFuel c = some flats ∧
      ∀ (flat₁ flat₂ : List (InstrDesc × Vals)) (ts : List Inst), flat₁.map (·.1) ∈ flats →
        declarativeFlat (flat₁.map (·.1)) = true → flat₁.map (·.1) = flat₂.map (·.1) →
        encodeTokens tt flat₁ = .ok ts → encodeTokens tt flat₂ = .ok ts →
        ∀ pv₁ ∈ patWrites flat₁, ∀ pv₂ ∈ patWrites flat₂, pv₁.1 = pv₂.1 → isFixed pv₁.1.val = false →
          ∃ v₁ v₂ fd, pv₁.2 = some v₁ ∧ pv₂.2 = some v₂ ∧ v₁ % 2 ^ width fd = v₂ % 2 ^ width fd
            ∧ ∀ lo : Int, (lo ≤ v₁ ∧ v₁ < lo + 2 ^ width fd) → (lo ≤ v₂ ∧ v₂ < lo + 2 ^ width fd) → v₁ = v₂ := by
  obtain ⟨flats, he, hall⟩ := instrOK_shapes hok hc hcov
  refine ⟨flats, he, fun flat₁ flat₂ ts hm hd hshape h₁ h₂ pv₁ hp₁ pv₂ hp₂ hpe hnf => ?_⟩
  have hchk := hall _ hm hd
  unfold checkFlat at hchk
  cases hds : tokenDescs tt (flat₁.map (·.1)) with
  | none => rw [hds] at hchk; cases hchk
  | some ds =>
    rw [hds] at hchk
    simp only [Bool.and_eq_true] at hchk
    obtain ⟨⟨hwfb, hord⟩, _⟩ := hchk
    obtain ⟨b₁, hz₁, hpm₁⟩ := pattern_with_mark ds flat₁ pv₁ hp₁
    obtain ⟨b₂, hz₂, hpm₂⟩ := pattern_with_mark ds flat₂ pv₂ hp₂
    -- both are marked: operand patterns under orderedOK
    have hm₁ : b₁ = true := ordered_marks ds _ hord _ hpm₁ hnf
    have hm₂ : b₂ = true := ordered_marks ds _ (hshape ▸ hord) _ hpm₂ (hpe ▸ hnf)
    obtain ⟨v₁, v₂, fd, e₁, e₂, _, hmod⟩ :=
      same_tokens_same_operands tt flat₁ flat₂ ds ts hshape hds hwfb h₁ h₂ _ hz₁ _ hz₂ hm₁ hm₂ hpe
    exact ⟨v₁, v₂, fd, e₁, e₂, hmod, fun lo ha hb => eq_of_mod_eq_of_window hmod ha hb⟩

/-- THE LIFT (fixed bits).  Under `isaOK`, every fixed pattern of a declarative instance that no later
    pattern overlays (all of them, except in the classes of `overlaid_fixed_pinned`) leaves exactly its
    declared constant in its field. -/
theorem declarative_fixed_bits {tt : List TokenDesc} {is : List InstrDesc} (hok : isaOK tt is = true)
    {c : InstrDesc} (hc : c ∈ is) (hcov : covered c = true) :
    ∃ flats, expand is expandFuel c = some flats ∧
      ∀ (flat : List (InstrDesc × Vals)) (ts : List Inst), flat.map (·.1) ∈ flats →
        declarativeFlat (flat.map (·.1)) = true → encodeTokens tt flat = .ok ts →
        ∃ ds, tokenDescs tt (flat.map (·.1)) = some ds ∧
          ∀ x ∈ (patWrites flat).zip (instMarks ds flat), x.2 = true → ∀ k : Int, x.1.1.val = .fixed k →
            seqGet ts x.1.1.field = .ok k.toNat := by
  obtain ⟨flats, he, hall⟩ := instrOK_shapes hok hc hcov
  refine ⟨flats, he, fun flat ts hm hd henc => ?_⟩
  have hchk := hall _ hm hd
  unfold checkFlat at hchk
  cases hds : tokenDescs tt (flat.map (·.1)) with
  | none => rw [hds] at hchk; cases hchk
  | some ds =>
    rw [hds] at hchk
    simp only [Bool.and_eq_true] at hchk
    obtain ⟨⟨hwfb, _⟩, hfits⟩ := hchk
    refine ⟨ds, rfl, fun x hx hmk k hk => ?_⟩
    apply fixed_field_value tt flat ds ts hds hwfb henc x hx hmk k hk
    -- `fixedFits` of this pattern, from the table condition
    have hmem : x.1 ∈ patWrites flat := (List.of_mem_zip hx).1
    unfold patWrites at hmem
    obtain ⟨⟨cc, vals⟩, hcv, hin⟩ := List.mem_flatMap.mp hmem
    obtain ⟨p, hp, hpe⟩ := List.mem_map.mp hin
    have hcc : cc ∈ flat.map (·.1) := List.mem_map.mpr ⟨(cc, vals), hcv, rfl⟩
    have := List.all_eq_true.mp (List.all_eq_true.mp hfits cc hcc) p hp
    simp only [Bool.and_eq_true] at this
    rw [← hpe]
    exact this.1

/-! non-vacuity: a covered class of a live table, two different in-range operand tuples, different words -/
example : (Gen.Instrs.riscvInstrs.filter covered).length > 40 := by decide +kernel

end Props.C08
