import PpciVerif.Props.C10
import PpciVerif.Proofs.T1_riscv_reloc
import PpciVerif.Proofs.T1_rvc_reloc
/-!
# C10 — T1 translation tie for relocation bodies (riscv, rvc)

`Gen.Py_riscv_relocations.*` / `Gen.Py_rvc_relocations.*` are written by `translate/py2lean.py` on every run from
the source text of `ppci/arch/riscv/relocations.py` and `rvc_relocations.py` of the checked tree: the `calc`
methods of the token-based types and the `apply` methods that write through a `BitView` (`bv[a:b] = v` is the
primitive `PyRt.bvSet`; `wrap_negative` is the TRANSLATED `Gen.Py_bitfun.wrap_negative`).
`gen_*_eq_model`: the regenerated body IS the hand model `Model.Reloc.*` for every symbol value `S`, site address
`P` and buffer.  Then the range theorems of C10 are restated about the regenerated bodies.
`ints` maps a byte list to the `List Int` the translated code works on; `liftL/liftI` map results and errors.
-/
namespace Props.C10T1
open Model.Reloc Spec.RelocSem Proofs.Reloc Proofs.T1.Reloc

/-! ### riscv -/
theorem gen_riscv_b_imm12_calc_eq_model (fuel : Nat) (S P : Int) :
    Gen.Py_riscv_relocations.BImm12Relocation_calc fuel S P = liftI (Riscv.bImm12Calc S P) :=
  Proofs.T1.RiscvReloc.gen_bImm12_calc fuel S P
theorem gen_riscv_b_imm20_apply_eq_model (fuel : Nat) (S : Int) (d : List Nat) (P : Int) :
    Gen.Py_riscv_relocations.BImm20Relocation_apply fuel S (ints d) P = liftL (Riscv.bImm20 S d P) :=
  Proofs.T1.RiscvReloc.gen_bImm20_apply fuel S d P
theorem gen_riscv_abs32_imm20_apply_eq_model (fuel : Nat) (S : Int) (d : List Nat) (P : Int) :
    Gen.Py_riscv_relocations.Abs32Imm20Relocation_apply fuel S (ints d) P = liftL (Riscv.abs32Imm20 S d P) :=
  Proofs.T1.RiscvReloc.gen_abs32Imm20_apply fuel S d P
theorem gen_riscv_rel_imm20_apply_eq_model (fuel : Nat) (S : Int) (d : List Nat) (P : Int) :
    Gen.Py_riscv_relocations.RelImm20Relocation_apply fuel S (ints d) P = liftL (Riscv.relImm20 S d P) :=
  Proofs.T1.RiscvReloc.gen_relImm20_apply fuel S d P
/-- the value `Abs32Imm12Relocation.calc` hands to the default `apply` (= what `Riscv.abs32Imm12` stores) -/
theorem gen_riscv_abs32_imm12_calc_eq_model (fuel : Nat) (S P : Int) :
    Gen.Py_riscv_relocations.Abs32Imm12Relocation_calc fuel S P
      = if S % 2 = 0 then .ok (S % 4096) else .error .AssertionError :=
  Proofs.T1.RiscvReloc.gen_abs32Imm12_calc fuel S P
theorem gen_riscv_rel_imm12_calc_eq_model (fuel : Nat) (S P : Int) :
    Gen.Py_riscv_relocations.RelImm12Relocation_calc fuel S P
      = if S % 2 = 0 then (if P % 2 = 0 then .ok ((S - P + 4) % 4096) else .error .AssertionError)
        else .error .AssertionError :=
  Proofs.T1.RiscvReloc.gen_relImm12_calc fuel S P
theorem gen_riscv_absaddr32_apply_eq_model (fuel : Nat) (S : Int) (d : List Nat) (P : Int) :
    Gen.Py_riscv_relocations.AbsAddr32Relocation_apply fuel S (ints d) P = liftL (Riscv.absAddr32 S d P) :=
  Proofs.T1.RiscvReloc.gen_absAddr32_apply fuel S d P

/-! ### rvc -/
theorem gen_rvc_cb_imm11_apply_eq_model (fuel : Nat) (S : Int) (d : List Nat) (P : Int) :
    Gen.Py_rvc_relocations.CBImm11Relocation_apply fuel S (ints d) P = liftL (Rvc.cbImm11 S d P) :=
  Proofs.T1.RvcReloc.gen_cbImm11_apply fuel S d P
theorem gen_rvc_cbl_imm11_apply_eq_model (fuel : Nat) (S : Int) (d : List Nat) (P : Int) :
    Gen.Py_rvc_relocations.CBlImm11Relocation_apply fuel S (ints d) P = liftL (Rvc.cbImm11 S d P) :=
  Proofs.T1.RvcReloc.gen_cblImm11_apply fuel S d P
theorem gen_rvc_cool_mapping_eq_model (fuel : Nat) (d : List Nat) (rel11 : Int) :
    Gen.Py_rvc_relocations.apply_cool_mapping fuel (ints d) 4 rel11 = liftL (Rvc.coolMapping d rel11) :=
  Proofs.T1.RvcReloc.gen_cool_mapping fuel d rel11
theorem gen_rvc_bc_imm11_apply_eq_model (fuel : Nat) (S : Int) (d : List Nat) (P : Int) :
    Gen.Py_rvc_relocations.BcImm11Relocation_apply fuel S (ints d) P = liftL (Rvc.bcImm11 S d P) :=
  Proofs.T1.RvcReloc.gen_bcImm11_apply fuel S d P
theorem gen_rvc_bc_imm8_apply_eq_model (fuel : Nat) (S : Int) (d : List Nat) (P : Int) :
    Gen.Py_rvc_relocations.BcImm8Relocation_apply fuel S (ints d) P = liftL (Rvc.bcImm8 S d P) :=
  Proofs.T1.RvcReloc.gen_bcImm8_apply fuel S d P

/-! ### the range theorems, about the regenerated bodies -/

/-- a successful regenerated `apply` is a successful model `apply` with the same bytes -/
theorem ok_of_liftL {x : Except Model.Token.Err (List Nat)} {out' : List Int} (h : liftL x = .ok out') :
    ∃ out, x = .ok out ∧ out' = ints out := by
  cases x with
  | error e => cases h
  | ok out => exact ⟨out, rfl, by cases h; rfl⟩

/-- regenerated `b_imm20.apply`: representable distance ⇒ the J-immediate of the result decodes to `S - P` -/
theorem gen_riscv_b_imm20_partial {S P : Int} {data : List Nat} {out' : List Int} (fuel : Nat) (hlen : data.length = 4)
    (hb : ∀ b ∈ data, b < 256) (h : Gen.Py_riscv_relocations.BImm20Relocation_apply fuel S (ints data) P = .ok out')
    (hfit : Spec.Bits.fitsS 21 (S - P)) : ∃ out, out' = ints out ∧ rvJOffset (wordLE out) = S - P := by
  rw [gen_riscv_b_imm20_apply_eq_model] at h
  obtain ⟨out, hm, rfl⟩ := ok_of_liftL h
  exact ⟨out, rfl, Props.C10.riscv_b_imm20_partial hlen hb hm hfit⟩

/-- exact acceptance region of the regenerated `b_imm20.apply` -/
theorem gen_riscv_b_imm20_accept_iff {S P : Int} {data : List Nat} (fuel : Nat) (hlen : data.length = 4)
    (hb : ∀ b ∈ data, b < 256) :
    (∃ out', Gen.Py_riscv_relocations.BImm20Relocation_apply fuel S (ints data) P = .ok out') ↔
      (S % 2 = 0 ∧ P % 2 = 0 ∧ -(2 ^ 19) ≤ (S - P) / 2 ∧ (S - P) / 2 < 2 ^ 20) := by
  rw [← Props.C10.riscv_b_imm20_accept_iff hlen hb, gen_riscv_b_imm20_apply_eq_model]
  constructor
  · rintro ⟨out', h⟩
    obtain ⟨out, hm, _⟩ := ok_of_liftL h
    exact ⟨out, hm⟩
  · rintro ⟨out, hm⟩
    exact ⟨ints out, by rw [hm]; rfl⟩

theorem gen_rvc_bc_imm11_partial {S P : Int} {data : List Nat} {out' : List Int} (fuel : Nat) (hlen : data.length = 2)
    (hb : ∀ b ∈ data, b < 256) (h : Gen.Py_rvc_relocations.BcImm11Relocation_apply fuel S (ints data) P = .ok out')
    (hfit : Spec.Bits.fitsS 12 (S - P)) : ∃ out, out' = ints out ∧ rvcJOffset (wordLE out) = S - P := by
  rw [gen_rvc_bc_imm11_apply_eq_model] at h
  obtain ⟨out, hm, rfl⟩ := ok_of_liftL h
  exact ⟨out, rfl, Props.C10.rvc_bc_imm11_partial hlen hb hm hfit⟩

theorem gen_rvc_bc_imm8_partial {S P : Int} {data : List Nat} {out' : List Int} (fuel : Nat) (hlen : data.length = 2)
    (hb : ∀ b ∈ data, b < 256) (h : Gen.Py_rvc_relocations.BcImm8Relocation_apply fuel S (ints data) P = .ok out')
    (hfit : Spec.Bits.fitsS 9 (S - P)) : ∃ out, out' = ints out ∧ rvcBOffset (wordLE out) = S - P := by
  rw [gen_rvc_bc_imm8_apply_eq_model] at h
  obtain ⟨out, hm, rfl⟩ := ok_of_liftL h
  exact ⟨out, rfl, Props.C10.rvc_bc_imm8_partial hlen hb hm hfit⟩

/-- the accepted-but-unrepresentable region is visible on the regenerated code as well (the C10 finding):
    a branch 2^20 bytes ahead is accepted and encodes the jump −2^20 -/
example : Gen.Py_riscv_relocations.BImm20Relocation_apply 0 1048576 [0x6f, 0, 0, 0] 0 = .ok [111, 0, 0, 128] := by
  decide +kernel
example : Gen.Py_rvc_relocations.BcImm11Relocation_apply 0 2048 [0x01, 0xa0] 0 = .ok [1, 176] := by decide +kernel
example : Gen.Py_riscv_relocations.BImm12Relocation_calc 0 6000 0 = .ok 3000 := by decide +kernel

end Props.C10T1
