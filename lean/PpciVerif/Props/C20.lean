import PpciVerif.Model.Leb128
import PpciVerif.Spec.Leb
import PpciVerif.Proofs.Leb128
/-!
# C20 — LEB128 encoding is the canonical specification encoding

Property theorems only (helper lemmas live in this file's private section for
now because they are short).  Model: `Model.Leb128` (hand model of
`ppci/utils/leb128.py`, tied by correspondence).  Spec: `Spec.Leb`.
-/
namespace Props.C20
open Model.Leb128 Spec.Leb Proofs.Leb128

/-! ### property theorems: unsigned -/

/-- The unsigned encoder produces the canonical (unique minimal) encoding. -/
theorem unsigned_encode_canonical (n : Nat) :
    unsignedEncode (n : Int) = .ok (uencLoop n) ∧ UCanonical (uencLoop n) n := by
  refine ⟨by simp [unsignedEncode], uenc_val n, fun cs hcs => ⟨uenc_length_min n cs hcs, fun hl => ?_⟩⟩
  exact uval_inj cs (uencLoop n) n hcs (uenc_val n) hl

/-- The unsigned encoder rejects every negative number. -/
theorem unsigned_encode_rejects_negative (z : Int) (h : z < 0) :
    unsignedEncode z = .error .ValueError := by
  simp [unsignedEncode, h]

/-- The unsigned decoder returns the denoted value of every well-formed encoding
    (canonical or not) and leaves the iterator just after it. -/
theorem unsigned_decode_denotes (bs : List Nat) (n : Nat) (rest : List Nat) (h : uval bs = some n) :
    unsignedDecode (bs ++ rest) = .ok (n, rest) := by
  have := udecLoop_spec bs n 0 0 rest h (by simp)
  simpa [unsignedDecode] using this

/-- Round trip: decode ∘ encode = id for every natural number. -/
theorem unsigned_roundtrip (n : Nat) (rest : List Nat) :
    unsignedDecode (uencLoop n ++ rest) = .ok (n, rest) :=
  unsigned_decode_denotes _ n rest (uenc_val n)

/-! ### property theorems: signed -/

/-- The signed encoder produces the canonical (unique minimal) encoding of every integer. -/
theorem signed_encode_canonical (z : Int) : SCanonical (signedEncode z) z := by
  refine ⟨senc_val z, fun cs hcs => ⟨senc_length_min z cs hcs, fun hl => ?_⟩⟩
  exact sval_inj cs (sencLoop z) z hcs (senc_val z) hl

theorem signed_decode_denotes (bs : List Nat) (z : Int) (rest : List Nat) (h : sval bs = some z) :
    signedDecode (bs ++ rest) = .ok (z, rest) := signedDecode_spec bs z rest h

/-- Round trip: decode ∘ encode = id for every integer. -/
theorem signed_roundtrip (z : Int) (rest : List Nat) :
    signedDecode (signedEncode z ++ rest) = .ok (z, rest) :=
  signed_decode_denotes _ z rest (senc_val z)

/-- Every emitted byte is a byte. -/
theorem signed_encode_bytes (z : Int) : ∀ b ∈ signedEncode z, b < 256 := by
  unfold signedEncode
  fun_induction sencLoop z with
  | case1 value byte value' signBit h =>
    intro b hb; simp at hb; subst hb
    have h1 : value % 128 < 128 := Int.emod_lt_of_pos _ (by omega)
    simp only [byte]; omega
  | case2 value byte value' signBit h ih =>
    intro b hb; simp at hb
    rcases hb with hb | hb
    · subst hb
      have h1 : value % 128 < 128 := Int.emod_lt_of_pos _ (by omega)
      simp only [byte]; omega
    · exact ih b hb

theorem unsigned_encode_bytes (n : Nat) : ∀ b ∈ uencLoop n, b < 256 := by
  fun_induction uencLoop n with
  | case1 value byte value' h => intro b hb; simp at hb; subst hb; simp only [byte]; omega
  | case2 value byte value' h ih =>
    intro b hb; simp at hb
    rcases hb with hb | hb
    · subst hb; simp only [byte]; omega
    · exact ih b hb

/-! ### non-vacuity / concrete instances (tests, labelled as such) -/
example : signedEncode (-1337) = [0xc7, 0x75] := by decide +kernel
example : uencLoop 624485 = [0xe5, 0x8e, 0x26] := by decide +kernel
example : sval [0x9b, 0xf1, 0x59] = some (-624485) := by decide +kernel
example : uval [0x80, 0x00] = some 0 := by decide +kernel   -- a non-canonical encoding of 0

end Props.C20
