import PpciVerif.Model.Leb128
import PpciVerif.Spec.Leb
import PpciVerif.Proofs.Leb128
import PpciVerif.Proofs.T1_leb128
/-!
# C20 — LEB128 encoding is the canonical specification encoding

Property theorems only (helper lemmas live in this file's private section for
now because they are short).  Model: `Model.Leb128` (hand model of
`ppci/utils/leb128.py`, tied by correspondence).  Spec: `Spec.Leb`.
-/
namespace Props.C20
open Model.Leb128 Spec.Leb Proofs.Leb128

/-! ### property theorems: unsigned -/

/-- The unsigned encoder produces the canonical (unique minimal) encoding. -/
theorem unsigned_encode_canonical (n : Nat) :
    unsignedEncode (n : Int) = .ok (uencLoop n) ∧ UCanonical (uencLoop n) n := by
  refine ⟨by simp [unsignedEncode], uenc_val n, fun cs hcs => ⟨uenc_length_min n cs hcs, fun hl => ?_⟩⟩
  exact uval_inj cs (uencLoop n) n hcs (uenc_val n) hl

/-- The unsigned encoder rejects every negative number. -/
theorem unsigned_encode_rejects_negative (z : Int) (h : z < 0) :
    unsignedEncode z = .error .ValueError := by
  simp [unsignedEncode, h]

/-- The unsigned decoder returns the denoted value of every well-formed encoding
    (canonical or not) and leaves the iterator just after it. -/
theorem unsigned_decode_denotes (bs : List Nat) (n : Nat) (rest : List Nat) (h : uval bs = some n) :
    unsignedDecode (bs ++ rest) = .ok (n, rest) := by
  have := udecLoop_spec bs n 0 0 rest h (by simp)
  simpa [unsignedDecode] using this

/-- Round trip: decode ∘ encode = id for every natural number. -/
theorem unsigned_roundtrip (n : Nat) (rest : List Nat) :
    unsignedDecode (uencLoop n ++ rest) = .ok (n, rest) :=
  unsigned_decode_denotes _ n rest (uenc_val n)

/-! ### property theorems: signed -/

/-- The signed encoder produces the canonical (unique minimal) encoding of every integer. -/
theorem signed_encode_canonical (z : Int) : SCanonical (signedEncode z) z := by
  refine ⟨senc_val z, fun cs hcs => ⟨senc_length_min z cs hcs, fun hl => ?_⟩⟩
  exact sval_inj cs (sencLoop z) z hcs (senc_val z) hl

theorem signed_decode_denotes (bs : List Nat) (z : Int) (rest : List Nat) (h : sval bs = some z) :
    signedDecode (bs ++ rest) = .ok (z, rest) := signedDecode_spec bs z rest h

/-- Round trip: decode ∘ encode = id for every integer. -/
theorem signed_roundtrip (z : Int) (rest : List Nat) :
    signedDecode (signedEncode z ++ rest) = .ok (z, rest) :=
  signed_decode_denotes _ z rest (senc_val z)

/-- Every emitted byte is a byte. -/
theorem signed_encode_bytes (z : Int) : ∀ b ∈ signedEncode z, b < 256 := by
  unfold signedEncode
  fun_induction sencLoop z with
  | case1 value byte value' signBit h =>
    intro b hb; simp at hb; subst hb
    have h1 : value % 128 < 128 := Int.emod_lt_of_pos _ (by omega)
    simp only [byte]; omega
  | case2 value byte value' signBit h ih =>
    intro b hb; simp at hb
    rcases hb with hb | hb
    · subst hb
      have h1 : value % 128 < 128 := Int.emod_lt_of_pos _ (by omega)
      simp only [byte]; omega
    · exact ih b hb

theorem unsigned_encode_bytes (n : Nat) : ∀ b ∈ uencLoop n, b < 256 := by
  fun_induction uencLoop n with
  | case1 value byte value' h => intro b hb; simp at hb; subst hb; simp only [byte]; omega
  | case2 value byte value' h ih =>
    intro b hb; simp at hb
    rcases hb with hb | hb
    · subst hb; simp only [byte]; omega
    · exact ih b hb

/-! ### non-vacuity / concrete instances (tests, labelled as such) -/
example : signedEncode (-1337) = [0xc7, 0x75] := by decide +kernel
example : uencLoop 624485 = [0xe5, 0x8e, 0x26] := by decide +kernel
example : sval [0x9b, 0xf1, 0x59] = some (-624485) := by decide +kernel
example : uval [0x80, 0x00] = some 0 := by decide +kernel   -- a non-canonical encoding of 0

/-! ### T1 translation tie: the functions REGENERATED from `ppci/utils/leb128.py`

`Gen.Py_leb128.*` is written by `translate/py2lean.py` from the source text of the checked tree on
every run.  The `gen_*_eq_model` theorems say that, for every input and every `fuel` above the
stated bound, the regenerated function IS the hand model above (so `FuelExhausted` is never
returned: the loops terminate); the remaining theorems restate the property directly about the
regenerated functions.  `ints` maps a byte list to the `List Int` the translated code works on. -/
section T1
open Proofs.T1.Leb128 Model.PyRt

theorem gen_signed_encode_eq_model (value : Int) (fuel : Nat) (hf : value.natAbs + 1 ≤ fuel) :
    Gen.Py_leb128.signed_leb128_encode fuel value = .ok (ints (signedEncode value)) :=
  Proofs.T1.Leb128.gen_signed_encode_eq_model value fuel hf

theorem gen_unsigned_encode_eq_model (value : Int) (fuel : Nat) (hf : value.natAbs + 1 ≤ fuel) :
    Gen.Py_leb128.unsigned_leb128_encode fuel value = liftBytes (unsignedEncode value) :=
  Proofs.T1.Leb128.gen_unsigned_encode_eq_model value fuel hf

theorem gen_signed_decode_eq_model (data : List Nat) (fuel : Nat) (hf : data.length + 1 ≤ fuel) :
    Gen.Py_leb128.signed_leb128_decode fuel (ints data) = liftDecS (signedDecode data) :=
  Proofs.T1.Leb128.gen_signed_decode_eq_model data fuel hf

theorem gen_unsigned_decode_eq_model (data : List Nat) (fuel : Nat) (hf : data.length + 1 ≤ fuel) :
    Gen.Py_leb128.unsigned_leb128_decode fuel (ints data) = liftDecU (unsignedDecode data) :=
  Proofs.T1.Leb128.gen_unsigned_decode_eq_model data fuel hf

/-- the regenerated signed encoder emits the canonical encoding of every integer -/
theorem gen_signed_encode_canonical (z : Int) (fuel : Nat) (hf : z.natAbs + 1 ≤ fuel) :
    ∃ bs : List Nat, Gen.Py_leb128.signed_leb128_encode fuel z = .ok (ints bs) ∧ SCanonical bs z :=
  ⟨_, gen_signed_encode_eq_model z fuel hf, signed_encode_canonical z⟩

/-- the regenerated unsigned encoder emits the canonical encoding of every natural number … -/
theorem gen_unsigned_encode_canonical (n : Nat) (fuel : Nat) (hf : n + 1 ≤ fuel) :
    ∃ bs : List Nat, Gen.Py_leb128.unsigned_leb128_encode fuel (n : Int) = .ok (ints bs) ∧ UCanonical bs n := by
  refine ⟨uencLoop n, ?_, (unsigned_encode_canonical n).2⟩
  rw [gen_unsigned_encode_eq_model (n : Int) fuel (by omega), (unsigned_encode_canonical n).1]; rfl

/-- … and rejects every negative one (for every fuel: the loop is not reached) -/
theorem gen_unsigned_encode_rejects_negative (z : Int) (h : z < 0) (fuel : Nat) (hf : z.natAbs + 1 ≤ fuel) :
    Gen.Py_leb128.unsigned_leb128_encode fuel z = .error .ValueError := by
  rw [gen_unsigned_encode_eq_model z fuel hf, unsigned_encode_rejects_negative z h]; rfl

/-- the regenerated decoders return the denoted value of every well-formed encoding and leave the
    iterator right after it -/
theorem gen_unsigned_decode_denotes (bs : List Nat) (n : Nat) (rest : List Nat) (h : uval bs = some n)
    (fuel : Nat) (hf : (bs ++ rest).length + 1 ≤ fuel) :
    Gen.Py_leb128.unsigned_leb128_decode fuel (ints (bs ++ rest)) = .ok ((n : Int), ints rest) := by
  rw [gen_unsigned_decode_eq_model _ fuel hf, unsigned_decode_denotes bs n rest h]; rfl

theorem gen_signed_decode_denotes (bs : List Nat) (z : Int) (rest : List Nat) (h : sval bs = some z)
    (fuel : Nat) (hf : (bs ++ rest).length + 1 ≤ fuel) :
    Gen.Py_leb128.signed_leb128_decode fuel (ints (bs ++ rest)) = .ok (z, ints rest) := by
  rw [gen_signed_decode_eq_model _ fuel hf, signed_decode_denotes bs z rest h]; rfl

/-- round trip of the regenerated functions: decode (encode z ++ rest) = (z, rest) -/
theorem gen_signed_roundtrip (z : Int) (rest : List Nat) (f1 f2 : Nat) (h1 : z.natAbs + 1 ≤ f1)
    (h2 : (signedEncode z ++ rest).length + 1 ≤ f2) :
    ∃ bs : List Nat, Gen.Py_leb128.signed_leb128_encode f1 z = .ok (ints bs) ∧
      Gen.Py_leb128.signed_leb128_decode f2 (ints (bs ++ rest)) = .ok (z, ints rest) :=
  ⟨_, gen_signed_encode_eq_model z f1 h1, gen_signed_decode_denotes _ z rest (senc_val z) f2 h2⟩

theorem gen_unsigned_roundtrip (n : Nat) (rest : List Nat) (f1 f2 : Nat) (h1 : n + 1 ≤ f1)
    (h2 : (uencLoop n ++ rest).length + 1 ≤ f2) :
    ∃ bs : List Nat, Gen.Py_leb128.unsigned_leb128_encode f1 (n : Int) = .ok (ints bs) ∧
      Gen.Py_leb128.unsigned_leb128_decode f2 (ints (bs ++ rest)) = .ok ((n : Int), ints rest) := by
  refine ⟨uencLoop n, ?_, gen_unsigned_decode_denotes _ n rest (uenc_val n) f2 h2⟩
  rw [gen_unsigned_encode_eq_model (n : Int) f1 (by omega), (unsigned_encode_canonical n).1]; rfl

/-- termination of the four regenerated loops: above the bound the fuel never runs out -/
theorem gen_loops_terminate (z : Int) (data : List Nat) (f1 f2 : Nat) (h1 : z.natAbs + 1 ≤ f1) (h2 : data.length + 1 ≤ f2) :
    Gen.Py_leb128.signed_leb128_encode f1 z ≠ .error .FuelExhausted ∧
    Gen.Py_leb128.unsigned_leb128_encode f1 z ≠ .error .FuelExhausted ∧
    Gen.Py_leb128.signed_leb128_decode f2 (ints data) ≠ .error .FuelExhausted ∧
    Gen.Py_leb128.unsigned_leb128_decode f2 (ints data) ≠ .error .FuelExhausted := by
  rw [gen_signed_encode_eq_model z f1 h1, gen_unsigned_encode_eq_model z f1 h1,
    gen_signed_decode_eq_model data f2 h2, gen_unsigned_decode_eq_model data f2 h2]
  refine ⟨by simp, ?_, ?_, ?_⟩
  · cases unsignedEncode z with
    | ok l => simp [liftBytes]
    | error e => cases e <;> simp [liftBytes, errOf]
  · cases signedDecode data with
    | ok l => simp [liftDecS]
    | error e => cases e <;> simp [liftDecS, errOf]
  · cases unsignedDecode data with
    | ok l => simp [liftDecU]
    | error e => cases e <;> simp [liftDecU, errOf]

example : Gen.Py_leb128.signed_leb128_encode 20 (-1337) = .ok [0xc7, 0x75] := by decide +kernel
example : Gen.Py_leb128.signed_leb128_decode 20 [0x9b, 0xf1, 0x59, 7] = .ok (-624485, [7]) := by decide +kernel
example : Gen.Py_leb128.signed_leb128_encode 1 (-1337) = .error .FuelExhausted := by decide +kernel  -- below the bound

end T1

end Props.C20
