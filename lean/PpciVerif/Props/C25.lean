import PpciVerif.Spec.Graph
import PpciVerif.Model.Dom
import PpciVerif.Model.LT
import PpciVerif.Proofs.Graph
import PpciVerif.Proofs.Dom
import PpciVerif.Proofs.DomTree
/-!
# C25 — dominators, post-dominators and reachability match their path-based definitions

Spec: `Spec.Graph` (inductive `Path`; `Dom/SDom/IsIdom/InDF/PDom/ReachPlus` are
statements about *all paths*).  Models: `Model.Dom` (fixed-point
post-dominators, immediate post-dominator selection, dominator-tree numbering
and interval tests, Cytron's dominance frontier, `calculate_reach`),
`Model.LT` (Lengauer–Tarjan, executable only).

Everything below is for ALL digraphs (no size bound).  `g.WF` (every listed
successor is a node, one row per node) is what the driver checks for each graph
it receives from the harness.

Part A  the executable reference (`reachB/domB/idom/dfB/…`) decides the path definitions
Part B  order facts of dominance (shared with C02/C03/C23)
Part C  the validator for immediate-dominator maps (covers Lengauer–Tarjan per output)
Part D  theorems about the models of the code
-/
namespace Props.C25
open Spec.Graph Proofs.Graph Proofs.Dom Proofs.DomTree Model.Dom

/-! ## Part A — the reference decides the path-based definitions -/

/-- `reachB` decides "there is a path" -/
theorem reach_decides (g : Digraph) (u v : Nat) : reachB g u v = true ↔ Reach g u v := reachB_iff_path g u v

/-- transitive closure with at least one edge -/
theorem reachPlus_decides (g : Digraph) (u v : Nat) : (reachPlusSet g u).testBit v = true ↔ ReachPlus g u v :=
  reachPlusSet_iff g u v

/-- `domB g e d v` (v unreachable from e in g∖{d}) ⇔ every path e→v passes through d -/
theorem dom_decides (g : Digraph) (e d v : Nat) : domB g e d v = true ↔ Dom g e d v := domB_iff g e d v

theorem sdom_decides (g : Digraph) (e d v : Nat) : sdomB g e d v = true ↔ SDom g e d v := sdomB_iff g e d v

/-- the reference `idom` returns exactly the path-defined immediate dominator … -/
theorem idom_decides (g : Digraph) (e v d : Nat) :
    idom g e v = some d ↔ (Reach g e v ∧ v ≠ e ∧ IsIdom g e d v) := idom_eq_some_iff g e v d

/-- … and `none` exactly for the entry and for unreachable nodes -/
theorem idom_none (g : Digraph) (e v : Nat) : idom g e v = none ↔ (¬ Reach g e v ∨ v = e) := idom_eq_none_iff g e v

theorem df_decides (g : Digraph) (e x y : Nat) : dfB g e x y = true ↔ InDF g e x y := dfB_iff g e x y

/-- the table-driven versions used by the driver compute the same values -/
theorem tables_agree (g : Digraph) (e : Nat) :
    (∀ d v, domT (domTable g e) (reachSet g none e) d v = domB g e d v) ∧
    (∀ v, idomT g e (domTable g e) (reachSet g none e) v = idom g e v) ∧
    (∀ x y, dfT (predTable g) (domTable g e) (reachSet g none e) x y = dfB g e x y) :=
  ⟨domT_eq g e, idomT_eq g e, dfT_eq g e⟩

/-- post-dominance (defined as dominance in the reversed graph) is "every path to the exit passes through d" -/
theorem pdom_is_paths_to_exit (g : Digraph) (x d v : Nat) :
    PDom g x d v ↔ ∀ l, Path g v l x → d ∈ v :: l := pdom_iff_paths g x d v

/-! ## Part B — order facts -/

theorem dominance_reflexive (g : Digraph) (e v : Nat) : Dom g e v v := dom_refl g e v

theorem dominance_transitive (g : Digraph) (e a b v : Nat) (h1 : Dom g e a b) (h2 : Dom g e b v) : Dom g e a v :=
  dom_trans h1 h2

theorem dominance_antisymmetric (g : Digraph) (e a b : Nat) (h1 : Dom g e a b) (h2 : Dom g e b a)
    (r : Reach g e b) : a = b := dom_antisymm h1 h2 r

/-- the dominators of a reachable node form a chain -/
theorem dominators_form_chain (g : Digraph) (e a b v : Nat) (ha : Dom g e a v) (hb : Dom g e b v)
    (r : Reach g e v) : Dom g e a b ∨ Dom g e b a := dom_chain ha hb r

/-- a strict dominator of `v` dominates every predecessor of `v` -/
theorem strict_dominator_dominates_predecessors (g : Digraph) (e d p v : Nat) (h : SDom g e d v)
    (hp : g.Edge p v) : Dom g e d p := sdom_edge h hp

theorem immediate_dominator_exists_unique (g : Digraph) (e v : Nat) (r : Reach g e v) (hne : v ≠ e) :
    ∃ d, IsIdom g e d v ∧ ∀ d', IsIdom g e d' v → d' = d := by
  obtain ⟨d, hd⟩ := isIdom_exists r hne
  exact ⟨d, hd, fun d' hd' => isIdom_unique hd' hd r⟩

/-! ## Part C — verified validator (covers `lt.LengauerTarjan.compute` per output)

The driver evaluates `checkIdom g e out` on the idom map returned by the REAL
`lt.calculate_idom` for every generated graph; acceptance is a proof that this
output is the dominator tree.  Not shown: that Lengauer–Tarjan produces an
accepted map for every graph. -/

theorem checkIdom_sound (g : Digraph) (e : Nat) (out : List (Option Nat)) (h : checkIdom g e out = true) :
    out.length = g.n ∧ ∀ v, v < g.n →
      (∀ d, out.getD v none = some d ↔ (Reach g e v ∧ v ≠ e ∧ IsIdom g e d v)) ∧
      (out.getD v none = none ↔ (¬ Reach g e v ∨ v = e)) := Proofs.Graph.checkIdom_sound g e out h

/-- the full statement that is NOT shown (kept visible): Lengauer–Tarjan as modelled
    returns the path-defined immediate dominators whenever all predecessors of
    reachable nodes are reachable. -/
def lengauerTarjan_correct_full : Prop :=
  ∀ (g : Digraph) (pred : List (List Nat)) (e : Nat), g.WF → e < g.n →
    (∀ v, v < g.n → ∀ u, u ∈ pred.getD v [] ↔ g.Edge u v) → (∀ v, v < g.n → Reach g e v) →
    ∃ o, Model.LT.compute g.n g.adj pred e = .ok o ∧ ∀ v, v < g.n → o.idom.getD v none = idom g e v

/-! ## Part D — the models of the code -/

/-- **post-dominators** (`calculate_post_dominators`): whenever the loop returns, entry `v` is exactly
    the set of path-defined post-dominators of `v` — for every graph, every exit (with or without
    successors), every node (for nodes that cannot reach the exit: all nodes, vacuously) -/
theorem postDominators_correct (g : Digraph) (hwf : g.WF) (x : Nat) (r : List Nat)
    (h : postDominators g.n g.adj x = some r) :
    r.length = g.n ∧ ∀ v, v < g.n → ∀ d, (getM r v).testBit d = true ↔ (d < g.n ∧ PDom g x d v) :=
  pdLoop_correct g x hwf _ r h

/-- … and it always returns (the `while change:` loop terminates within `n² + 2` rounds) -/
theorem postDominators_terminates (g : Digraph) (hwf : g.WF) (x : Nat) :
    (postDominators g.n g.adj x).isSome = true := pdLoop_terminates g x hwf

/-- **immediate post-dominators** (`calculate_immediate_post_dominators` on the sets above): for every
    node from which the exit is reachable the selected node is the path-defined immediate
    post-dominator, `None` for the exit -/
theorem immediatePostDominators_correct (g : Digraph) (hwf : g.WF) (x : Nat) (r : List Nat)
    (h : postDominators g.n g.adj x = some r) (v : Nat) (hreach : Reach g v x) :
    (immediatePostDominators g.n r).getD v .missing =
      match Spec.Graph.ipdom g x v with
      | none => .none_
      | some c => .node c := by
  obtain ⟨l, p⟩ := hreach
  have hv : v < g.n := p.lt_left
  have := ipdomOf_correct g x r (postDominators_correct g hwf x r h).2 v ⟨l, p⟩
  unfold immediatePostDominators
  rw [List.getD_eq_getElem?_getD, List.getElem?_map, List.getElem?_range hv]
  exact this

/-- **reachability** (`calculate_reach`): entry `u` is exactly the set of nodes reachable from `u`
    by a path with at least one edge -/
theorem reach_correct (g : Digraph) (hwf : g.WF) (r : List Nat) (h : Model.Dom.reach g.n g.adj = some r) :
    r.length = g.n ∧ ∀ u, u < g.n → ∀ v, (getM r u).testBit v = true ↔ ReachPlus g u v :=
  reachLoop_correct g hwf _ r h

theorem reach_terminates (g : Digraph) (hwf : g.WF) : (Model.Dom.reach g.n g.adj).isSome = true :=
  reachLoop_terminates g hwf

/-- **dominator-tree intervals** (`_calculate_dominator_tree`, `_number_dominator_tree`, `dominates`,
    `strictly_dominates`): given that the idom map is the path-defined one (which `checkIdom` establishes
    for each real Lengauer–Tarjan output), the numbering loop terminates and, for all nodes reachable
    from the entry, the interval test `below_or_same` decides dominance and `below` strict dominance -/
theorem interval_tests_decide_dominance (g : Digraph) (e : Nat) (idomL : List (Option Nat))
    (hI : ∀ v, v < g.n → idomL.getD v none = idom g e v) (he : e < g.n) :
    ∃ intv, numberTree g.n (childrenOf g.n idomL) e = some intv ∧
      ∀ one other, Reach g e one → Reach g e other →
        dominates intv one other = some (domB g e one other) ∧
        strictlyDominates intv one other = some (sdomB g e one other) :=
  numberTree_correct g e idomL hI he

/-- Cytron's recurrence, as a fact about graphs (all nodes reachable): `DF(x)` is the local part plus
    what is passed up from the children of `x` in the dominator tree -/
theorem cytron_recurrence (g : Digraph) (e : Nat) (hall : ∀ v, v < g.n → Reach g e v) (x y : Nat) :
    InDF g e x y ↔ ((g.Edge x y ∧ idom g e y ≠ some x) ∨
      ∃ z, idom g e z = some x ∧ InDF g e z y ∧ idom g e y ≠ some x) := by
  have hI : ∀ v, v < g.n → ((List.range g.n).map (idom g e)).getD v none = idom g e v := by
    intro v hv
    rw [List.getD_eq_getElem?_getD, List.getElem?_map, List.getElem?_range hv]; rfl
  rw [cytron g e _ hI hall x y]
  constructor
  · rintro (h | ⟨z, hz, h⟩)
    · exact Or.inl h
    · exact Or.inr ⟨z, ((mem_children g e _ hI x z).1 hz).2.2, h⟩
  · rintro (h | ⟨z, hz, h⟩)
    · exact Or.inl h
    · have hc := (idom_eq_some_iff g e z x).1 hz
      have hzn : z < g.n := by obtain ⟨l, p⟩ := hc.1; exact p.lt_right
      exact Or.inr ⟨z, (mem_children g e _ hI x z).2 ⟨dom_lt hc.2.2.1.1 hc.1, hzn, hz⟩, h⟩

/-- **dominance frontier** (`bottom_up`, `calculate_dominance_frontier`): given the path-defined idom map
    and all nodes reachable from the entry, the bottom-up computation terminates without KeyError and
    `df[x]` is exactly the path-defined dominance frontier of `x`, for every node `x` -/
theorem dominanceFrontier_is_DF (g : Digraph) (hwf : g.WF) (e : Nat) (idomL : List (Option Nat))
    (hI : ∀ v, v < g.n → idomL.getD v none = idom g e v) (he : e < g.n) (hall : ∀ v, v < g.n → Reach g e v) :
    ∃ df, dominanceFrontier g.n g.adj idomL e = some df ∧
      ∀ x, x < g.n → ∃ m, df.getD x none = some m ∧ ∀ y, m.testBit y = true ↔ InDF g e x y :=
  dominanceFrontier_correct g e idomL hI hwf he hall

/-! ### the defect that was fixed (commit "fix: fixed-point (post-)dominators must not re-evaluate the root node")

Before the fix the exit node was re-evaluated like every other node.  On
`0 → 1 → 0, 2 → 0` with exit 0 the old code returns "everything post-dominates
everything", although the path `2 → 0` does not pass through 1. -/

def witness : Digraph := ⟨3, [[1], [0], [0]]⟩

example : postDominatorsLegacy 3 witness.adj 0 = some [7, 7, 7] := by decide +kernel
example : postDominators 3 witness.adj 0 = some [1, 3, 5] := by decide +kernel
/-- node 1 does not post-dominate node 2 (the path `2 → 0` avoids it) … -/
example : pdomB witness 0 1 2 = false := by decide +kernel
/-- … but the old code said it does (bit 1 of entry 2 is set) -/
example : (postDominatorsLegacy 3 witness.adj 0).map (fun r => (getM r 2).testBit 1) = some true := by decide +kernel

/-! ### non-vacuity / concrete instances (tests, labelled as such) -/

/-- the 13-node example of Lengauer & Tarjan's paper (as in test/graph/test_lt.py, renumbered) -/
def g13 : Digraph := ⟨13, [[1, 2], [3, 6], [4, 7], [5, 6], [7, 2], [8, 10], [9], [12], [11], [11], [11], [12], []]⟩

example : g13.WF := by decide
example : (List.range 13).map (idom g13 0) =
    [none, some 0, some 0, some 1, some 2, some 3, some 1, some 2, some 5, some 6, some 5, some 1, some 0] := by
  decide +kernel
example : checkIdom g13 0
    [none, some 0, some 0, some 1, some 2, some 3, some 1, some 2, some 5, some 6, some 5, some 1, some 0] = true := by
  decide +kernel
/-- the validator rejects a wrong map (idom 11 claimed to be 8) -/
example : checkIdom g13 0
    [none, some 0, some 0, some 1, some 2, some 3, some 1, some 2, some 5, some 6, some 5, some 8, some 0] = false := by
  decide +kernel
example : (Model.LT.compute 13 g13.adj ((List.range 13).map g13.preds) 0).toOption.map (·.idom) =
    some [none, some 0, some 0, some 1, some 2, some 3, some 1, some 2, some 5, some 6, some 5, some 1, some 0] := by
  decide +kernel
example : (postDominators 13 g13.adj 12).isSome = true := postDominators_terminates g13 (by decide) 12
example : Spec.Graph.ipdom g13 12 0 = some 12 ∧ Spec.Graph.ipdom g13 12 5 = some 11 := by decide +kernel
example : (Model.Dom.reach 3 [[1], [2], [1]]).map (fun r => r.map fun m => m) = some [6, 6, 6] := by decide +kernel
example : dfB g13 0 3 6 = true ∧ dfB g13 0 3 11 = true ∧ dfB g13 0 3 5 = false := by decide +kernel
/-- the hypotheses of the interval / frontier theorems are satisfiable: the reference idom map of `g13`,
    all 13 nodes reachable; the model then numbers the tree and `3` strictly dominates `8` but not `6` -/
def idom13 : List (Option Nat) := (List.range 13).map (idom g13 0)
example : (List.range 13).all (fun v => reachB g13 0 v) = true := by decide +kernel
example : (numberTree 13 (childrenOf 13 idom13) 0).bind (fun iv => strictlyDominates iv 3 8) = some true ∧
    (numberTree 13 (childrenOf 13 idom13) 0).bind (fun iv => strictlyDominates iv 3 6) = some false := by decide +kernel
example : (dominanceFrontier 13 g13.adj idom13 0).map (fun df => df.getD 3 none) = some (some (2 ^ 6 ||| 2 ^ 11)) := by
  decide +kernel

end Props.C25
