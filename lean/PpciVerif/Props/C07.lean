import PpciVerif.Spec.RV32
import PpciVerif.Model.RVEnc
import PpciVerif.Model.RVAnnot
import PpciVerif.Gen.RVAnnot
import PpciVerif.Proofs.RVStep
import PpciVerif.Proofs.RVAnnot
/-!
# C07 — instruction read/write annotations match machine semantics (RISC-V only)

Property theorems only.  Specification: `Spec.RV32.step` (one-step semantics written from the ISA
manual: 32 integer registers with `x0` hard-wired, `pc`, byte memory, CSR file).  Annotations:
`Gen.RVAnnot.table`, regenerated on every run from the live `Operand(read=…, write=…)` flags that
`Instruction.used_registers/defined_registers` consult.  Instruction executed by a class instance:
`(Model.RVEnc.meaning c o).instr` — by C08 (`Props.C08.riscv_encode_decodes_partial`) this IS what the
emitted bytes decode to, for all valid operands.

Shape P: RISC-V only (arm, thumb, m68k, mips, x86_64 have no formal ISA semantics here and are NOT
covered); three compressed classes whose implicit register effect is not annotated are excluded and
witnessed (`CJal`, `CJalr` write `x1`; `CAddi16sp` writes `x2`) — open findings.
-/
namespace Props.C07
open Spec.RV32 Model.RVEnc Model.RVAnnot Proofs.RVStep Proofs.RVAnnot

/-- classes whose annotations do NOT cover their instruction's footprint (open findings) -/
def exceptions : List Cls := [.CJal, .CJalr, .CAddi16sp]

/-- TABLE FACT (kernel-checked on the regenerated annotation table): every modelled class has a row, and for
    every class outside `exceptions` the declared reads/writes cover the register footprint of its
    instruction at the generic operand tuple. -/
theorem annotations_cover :
    Cls.all.all (fun c =>
      match lookupRow Gen.RVAnnot.table c with
      | some row => exceptions.contains c || covers row c (genFor c)
      | none => false) = true := by decide +kernel

/-- the exceptions are real: their rows do not cover the footprint -/
theorem exceptions_not_covered :
    exceptions.all (fun c =>
      match lookupRow Gen.RVAnnot.table c with
      | some row => !covers row c (genFor c)
      | none => false) = true := by decide +kernel

theorem all_classes_listed (c : Cls) : c ∈ Cls.all := by cases c <;> decide

/-- the row of a class and its coverage, extracted from the table fact -/
theorem row_covers (c : Cls) (hc : c ∉ exceptions) :
    ∃ row, lookupRow Gen.RVAnnot.table c = some row ∧ covers row c (genFor c) = true := by
  have h := List.all_eq_true.mp annotations_cover c (all_classes_listed c)
  cases hrow : lookupRow Gen.RVAnnot.table c with
  | none => rw [hrow] at h; cases h
  | some row =>
    rw [hrow] at h
    simp only [Bool.or_eq_true, List.contains_iff_mem] at h
    exact ⟨row, rfl, h.resolve_left hc⟩

/-- FRAME.  For every modelled class outside `exceptions`, every operand tuple (with `rs = rd` where the
    class prints both) and every machine state: executing the instruction changes no integer register
    other than those the class declares as written. -/
theorem riscv_frame_partial (c : Cls) (hc : c ∉ exceptions) (o : Ops) (hg : guard c o) :
    ∃ row, lookupRow Gen.RVAnnot.table c = some row ∧
      ∀ (s s' : State) (len : Nat), step s (meaning c o).instr len = some s' →
        ∀ r, r ∉ declWrites row o → s'.get r = s.get r := by
  obtain ⟨row, hrow, hcov⟩ := row_covers c hc
  refine ⟨row, hrow, fun s s' len hs r hr => ?_⟩
  have hw := (covers_lift row c o hg hcov).2
  by_cases h0 : r = 0
  · subst h0; rfl
  · apply step_frame s s' _ len hs
    intro hmem
    rcases hw r hmem with h | h
    · exact h0 h
    · exact hr h

/-- DEPENDENCY.  … and its effect on `pc`, memory, CSRs and on the written registers depends on no integer
    register other than those the class declares as read — apart from the stack pointer for the four
    compressed classes where the ISA documents it as an implicit operand. -/
theorem riscv_dependency_partial (c : Cls) (hc : c ∉ exceptions) (o : Ops) (hg : guard c o) :
    ∃ row, lookupRow Gen.RVAnnot.table c = some row ∧
      ∀ (s₁ s₂ : State) (len : Nat), s₁.pc = s₂.pc → s₁.mem = s₂.mem → s₁.csr = s₂.csr →
        (∀ r ∈ declReads row o, s₁.get r = s₂.get r) →
        (implicitSp c = true → s₁.get sp = s₂.get sp) →
        Agree (meaning c o).instr (step s₁ (meaning c o).instr len) (step s₂ (meaning c o).instr len) := by
  obtain ⟨row, hrow, hcov⟩ := row_covers c hc
  refine ⟨row, hrow, fun s₁ s₂ len hpc hm hcs hreg hsp => ?_⟩
  have hr := (covers_lift row c o hg hcov).1
  apply step_dep s₁ s₂ _ len hpc hm hcs
  intro r hmem
  rcases hr r hmem with h | ⟨hi, h⟩ | h
  · subst h; rfl
  · subst h; exact hsp hi
  · exact hreg r h

/-- the full statement (no exceptions) — NOT true of the code -/
def riscv_frame_full : Prop :=
  ∀ (c : Cls) (o : Ops), guard c o → ∃ row, lookupRow Gen.RVAnnot.table c = some row ∧
    ∀ (s s' : State) (len : Nat), step s (meaning c o).instr len = some s' →
      ∀ r, r ∉ declWrites row o → s'.get r = s.get r

def zeroState : State := ⟨fun _ => 0, 0x100, fun _ => 0, fun _ => 0⟩

/-- Lean-proved negation: `c.jalr x5` (class `CJalr`, which declares only a read of `rs1`) changes `x1` -/
theorem riscv_frame_full_false : ¬ riscv_frame_full := by
  intro h
  obtain ⟨row, hrow, hf⟩ := h .CJalr ⟨5, 0, 0, 0⟩ (by intro ht; cases ht)
  have hrow' : lookupRow Gen.RVAnnot.table .CJalr = some [("rs1", "r", 0, true, false)] := by decide +kernel
  rw [hrow'] at hrow
  cases hrow
  have := hf zeroState _ 2 rfl 1 (by decide)
  revert this
  decide

/-! witnesses / non-vacuity -/
example : (step zeroState (meaning .CJalr ⟨5, 0, 0, 0⟩).instr 2).map (·.get 1) = some 0x102 := by decide
example : (step zeroState (meaning .CAddi16sp ⟨0, 0, 0, -32⟩).instr 2).map (·.get 2) = some 0xffffffe0 := by decide
example : guard .Addr ⟨5, 6, 7, 0⟩ ∧ Cls.Addr ∉ exceptions := by
  refine ⟨fun h => ?_, by decide⟩
  simp [tied] at h
example : (step zeroState (meaning .Addi ⟨5, 6, 0, -1⟩).instr 4).map (·.get 5) = some 0xffffffff := by decide

end Props.C07
