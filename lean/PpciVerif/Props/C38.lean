import PpciVerif.Model.ConstFold
import PpciVerif.Spec.IRArith
import PpciVerif.Spec.ConstExpr
import PpciVerif.Gen.ConstFold
import PpciVerif.Proofs.IRArith
import PpciVerif.Proofs.ConstFold
import PpciVerif.Proofs.T1_constantfolding
/-!
# C38 — constant folding agrees with run-time arithmetic

Property theorems only.  Model: `Model.ConstFold` (hand model of
`ppci/opt/constantfolding.py` after the `fix:` commit, tied by the table dump
`Gen.ConstFold` and by correspondence).  Spec: `Spec.IRArith` (run-time integer
arithmetic of the IR), `Spec.ConstExpr` (its lifting to constant expression trees).
`tyOf`, `embed`, `Foldable`, `AllFoldable` are defined in `Proofs.ConstFold`.

All theorems quantify over all eight integer types, all operators of the folder's
table and all operand values (unbounded `Int`, restricted only by `InRange`).
-/
namespace Props.C38
open Model.ConstFold Spec.IRArith Spec.ConstExpr Proofs.IRArith Proofs.ConstFold

/-! ### the model's tables are the tables of the checked source tree (translation) -/

/-- `ConstantFolder().ops` of the live object: same keys, same order, same wrapped Python function. -/
theorem ops_table_matches_source :
    ops.map (fun (k, f) => (k, f.pyName)) = Gen.ConstFold.ops := by decide

/-- the integer types of `ppci.ir.value_types`: same names, widths and signedness. -/
theorem int_types_match_source :
    intTypes.map (fun t => (t.name, t.bits, t.signed)) = Gen.ConstFold.intTypes := by decide

/-- the model's types are exactly the specification's types. -/
theorem int_types_are_spec_types :
    intTypes = [Ty.i64, .i32, .i16, .i8, .u64, .u32, .u16, .u8].map tyOf ∧
    ∀ ty : Ty, (tyOf ty).name = ty.name ∧ (tyOf ty).bits = ty.bits ∧ (tyOf ty).signed = ty.signed :=
  ⟨by decide, fun ty => by cases ty <;> decide⟩

/-- every key of the folder's table is an `ir.Binop` operator and an operator of the specification. -/
theorem ops_keys_are_binops :
    ∀ k ∈ ops.map Prod.fst, k ∈ Gen.ConstFold.binopOps ∧ k ∈ Op.all.map Op.symbol := by decide

/-- the foldable operators are exactly `+ - * % << >>`. -/
theorem foldable_iff (op : Op) :
    Foldable op ↔ op = .add ∨ op = .sub ∨ op = .mul ∨ op = .rem ∨ op = .shl ∨ op = .shr := by
  cases op <;> decide

/-! ### one `Binop` of two constants -/

/-- **Agreement.** For every type, every operator of the folder and all operand values of the
    type: if the operation is defined at run time with value `v`, the pass replaces the
    instruction by the constant `v` (in particular it does not raise). -/
theorem fold_agrees (ty : Ty) (op : Op) (a b v : Int) (hop : Foldable op)
    (ha : InRange ty a) (hb : InRange ty b) (h : binop ty op a b = some v) :
    onInstr (.binop (tyOf ty) op.symbol (.const (tyOf ty) a) (.const (tyOf ty) b))
      = .ok (.replace (tyOf ty) v) := by
  obtain ⟨f, hf⟩ := Option.isSome_iff_exists.mp hop
  have hv := enhance_agrees ty op f a b v hf ha hb h
  have he : evalConst (.binop (tyOf ty) op.symbol (.const (tyOf ty) a) (.const (tyOf ty) b)) = .ok (tyOf ty, v) := by
    simp [evalConst, hf, hv]
  simp [onInstr, isConst, hf, tryEvalConst_of_ok _ _ he]

/-- **Range.** Whatever the operand values (in range or not, operation defined or not): a constant
    created for a `Binop` has the instruction's type and lies in that type's range. -/
theorem fold_in_range (ty : Ty) (op : String) (a b : Expr) (t : Typ) (r : Int)
    (h : onInstr (.binop (tyOf ty) op a b) = .ok (.replace t r)) : t = tyOf ty ∧ InRange ty r := by
  simp only [onInstr] at h
  split at h
  · split at h
    · simp at h
    · simp at h
    · rename_i t' v' heq
      simp at h; obtain ⟨h1, h2⟩ := h; subst h1 h2
      exact evalConst_binop_inRange ty op a b _ _ (evalConst_of_tryEvalConst _ _ heq)
  · repeat' split at h
    all_goals try (simp at h; done)

/-- … and so does a constant created for a `Cast` of any constant expression. -/
theorem cast_in_range (ty : Ty) (src : Expr) (t : Typ) (r : Int)
    (h : onInstr (.cast (tyOf ty) src) = .ok (.replace t r)) : t = tyOf ty ∧ InRange ty r := by
  simp only [onInstr] at h
  split at h
  · split at h
    · simp at h
    · simp at h
    · rename_i t' v' heq
      simp at h; obtain ⟨h1, h2⟩ := h; subst h1 h2
      exact evalConst_cast_inRange ty src _ _ (evalConst_of_tryEvalConst _ _ heq)
  · simp at h

/-- operators outside the table (`/ & | ^`) are never folded. -/
theorem unfoldable_kept (ty : Ty) (op : Op) (a b : Int) (hop : ¬ Foldable op) :
    onInstr (.binop (tyOf ty) op.symbol (.const (tyOf ty) a) (.const (tyOf ty) b)) = .ok .keep := by
  cases op <;> first | exact absurd (by decide) hop | rfl

/-! ### casts -/

/-- every integer cast of a constant folds to the run-time value of the cast, for every source
    value; the new constant is a value of the target type. -/
theorem cast_agrees (src to : Ty) (v : Int) :
    onInstr (.cast (tyOf to) (.const (tyOf src) v)) = .ok (.replace (tyOf to) (Spec.IRArith.cast to v))
    ∧ InRange to (Spec.IRArith.cast to v) := by
  refine ⟨?_, cast_inRange to v⟩
  simp [onInstr, isConst, tryEvalConst, evalConst, Model.ConstFold.cast, correct_eq_wrap, Spec.IRArith.cast]

/-! ### nested constant expressions (`eval_const` recurses) -/

/-- For every well-formed constant expression tree over the folder's operators and casts whose
    run-time evaluation is defined with value `v`: `is_const` holds and `eval_const` yields the
    constant `v` of the tree's type, and `v` is a value of that type. -/
theorem tree_agrees (e : SExpr) (v : Int) (hwf : e.WF) (hf : AllFoldable e) (h : e.eval = some v) :
    isConst (embed e) = true ∧ evalConst (embed e) = .ok (tyOf e.ty, v) ∧ InRange e.ty v := by
  obtain ⟨h1, h2, h3⟩ := evalConst_embed e v hwf hf h
  exact ⟨h2, h1, h3⟩

/-- … hence the pass replaces every such non-`Const` instruction by the constant `v`. -/
theorem tree_replaced (e : SExpr) (v : Int) (hwf : e.WF) (hf : AllFoldable e) (h : e.eval = some v)
    (hnc : ∀ ty c, e ≠ .const ty c) : onInstr (embed e) = .ok (.replace (tyOf e.ty) v) := by
  obtain ⟨h1, h2, _⟩ := tree_agrees e v hwf hf h
  cases e with
  | const ty c => exact absurd rfl (hnc ty c)
  | cast ty s => simp only [embed] at h1 h2 ⊢; simp [onInstr, h1, tryEvalConst_of_ok _ _ h2]
  | binop ty op a b => simp only [embed] at h1 h2 ⊢; simp [onInstr, h1, tryEvalConst_of_ok _ _ h2]

/-! ### chain rewrites  (y ∘ c1) ∘ c2  ↦  y ∘ c3   for ∘ ∈ {+, -} -/

/-- Shared statement: for `op` = `+` or `-`, any non-constant `y` of the type and any two constant
    expressions with run-time values `v1`, `v2`, the pass re-links the instruction to `y op c3`
    where `c3` is a value of the type and, for every run-time value of `y`, the rewritten
    instruction computes what the original two instructions computed. -/
theorem chain_sound (ty : Ty) (op : Op) (hop : op = .add ∨ op = .sub) (y : Expr) (c1 c2 : SExpr) (v1 v2 : Int)
    (hy : isConst y = false) (hyt : y.ty = tyOf ty)
    (ht1 : c1.ty = ty) (ht2 : c2.ty = ty) (hw1 : c1.WF) (hw2 : c2.WF)
    (hf1 : AllFoldable c1) (hf2 : AllFoldable c2) (he1 : c1.eval = some v1) (he2 : c2.eval = some v2) :
    ∃ c3, onInstr (.binop (tyOf ty) op.symbol (.binop (tyOf ty) op.symbol y (embed c1)) (embed c2))
            = .ok (.rechain y (tyOf ty) c3)
      ∧ InRange ty c3
      ∧ ∀ yv, InRange ty yv →
          (binop ty op yv v1).bind (fun t => binop ty op t v2) = binop ty op yv c3 := by
  obtain ⟨a1, a2, _⟩ := evalConst_embed c1 v1 hw1 hf1 he1
  obtain ⟨b1, b2, _⟩ := evalConst_embed c2 v2 hw2 hf2 he2
  rw [ht1] at a1; rw [ht2] at b1
  have a1' := tryEvalConst_of_ok _ _ a1
  have b1' := tryEvalConst_of_ok _ _ b1
  refine ⟨wrap ty (v1 + v2), ?_, wrap_inRange ty _, ?_⟩
  · rcases hop with rfl | rfl <;>
      simp [onInstr, isConst, hy, a1', a2, b1', b2, Op.symbol, chainConst, Model.ConstFold.cast, correct_eq_wrap, hyt]
  · intro yv _
    rcases hop with rfl | rfl
    · simp only [binop, Option.bind_some, Option.some.injEq]
      rw [wrap_add_wrap_left, wrap_add_wrap_right, Int.add_assoc]
    · simp only [binop, Option.bind_some, Option.some.injEq]
      rw [wrap_sub_wrap_left, wrap_sub_wrap_right]; congr 1; omega

/-- `(y + c1) + c2 ↦ y + c3` -/
theorem chain_add (ty : Ty) (y : Expr) (c1 c2 : Int) (hy : isConst y = false) (hyt : y.ty = tyOf ty)
    (h1 : InRange ty c1) (h2 : InRange ty c2) :
    ∃ c3, onInstr (.binop (tyOf ty) "+" (.binop (tyOf ty) "+" y (.const (tyOf ty) c1)) (.const (tyOf ty) c2))
            = .ok (.rechain y (tyOf ty) c3)
      ∧ InRange ty c3
      ∧ ∀ yv, InRange ty yv → (binop ty .add yv c1).bind (fun t => binop ty .add t c2) = binop ty .add yv c3 :=
  chain_sound ty .add (Or.inl rfl) y (.const ty c1) (.const ty c2) c1 c2 hy hyt rfl rfl h1 h2 trivial trivial rfl rfl

/-- `(y - c1) - c2 ↦ y - c3` -/
theorem chain_sub (ty : Ty) (y : Expr) (c1 c2 : Int) (hy : isConst y = false) (hyt : y.ty = tyOf ty)
    (h1 : InRange ty c1) (h2 : InRange ty c2) :
    ∃ c3, onInstr (.binop (tyOf ty) "-" (.binop (tyOf ty) "-" y (.const (tyOf ty) c1)) (.const (tyOf ty) c2))
            = .ok (.rechain y (tyOf ty) c3)
      ∧ InRange ty c3
      ∧ ∀ yv, InRange ty yv → (binop ty .sub yv c1).bind (fun t => binop ty .sub t c2) = binop ty .sub yv c3 :=
  chain_sound ty .sub (Or.inr rfl) y (.const ty c1) (.const ty c2) c1 c2 hy hyt rfl rfl h1 h2 trivial trivial rfl rfl

/-- Whatever the constants evaluate to (even out-of-range operands): the constant created by a
    chain rewrite is a value of the instruction's type. -/
theorem chain_in_range (ty : Ty) (op : String) (y c1 c2 : Expr) (op1 : String) (y' : Expr) (t : Typ) (r : Int)
    (h : onInstr (.binop (tyOf ty) op (.binop (tyOf ty) op1 y c1) c2) = .ok (.rechain y' t r)) :
    t = tyOf ty ∧ InRange ty r := by
  simp only [onInstr] at h
  repeat' split at h
  all_goals try (simp at h; done)
  rename_i hta hty hyy
  simp at h hta hty
  obtain ⟨-, h2, h3⟩ := h
  subst h2
  refine ⟨hty.symm, ?_⟩
  rw [← h3, ← hty, chainConst, Model.ConstFold.cast, correct_eq_wrap]; exact wrap_inRange ty _

/-- The oracle used on the real pass: an in-range constant `c3` makes `y op c3` equal to
    `(y op c1) op c2` for every `y` **iff** `c3` is the wrapped sum — so comparing the real pass's
    constant with `Spec.binop ty + c1 c2` decides the chain property for all `y` at once. -/
theorem chain_unique (ty : Ty) (op : Op) (hop : op = .add ∨ op = .sub) (c1 c2 c3 : Int) (h3 : InRange ty c3) :
    (∀ yv, InRange ty yv → (binop ty op yv c1).bind (fun t => binop ty op t c2) = binop ty op yv c3)
      ↔ binop ty .add c1 c2 = some c3 := by
  have h0 : InRange ty 0 := by cases ty <;> decide
  constructor
  · intro h
    have := h 0 h0
    simp only [binop, Option.some.injEq]
    apply eq_of_emod_eq ty _ _ (wrap_inRange ty _) h3
    rw [wrap_emod]
    rcases hop with rfl | rfl <;> simp only [binop, Option.bind_some, Option.some.injEq, Int.zero_add] at this
    · rw [wrap_add_wrap_left] at this
      have e := congrArg (· % 2 ^ ty.bits) this
      simp only [wrap_emod] at e
      exact e
    · rw [wrap_sub_wrap_left] at this
      have e := congrArg (· % 2 ^ ty.bits) this
      simp only [wrap_emod] at e
      cases ty <;> simp [Ty.bits] at e ⊢ <;> omega
  · intro h yv _
    simp only [binop, Option.some.injEq] at h
    subst h
    rcases hop with rfl | rfl
    · simp only [binop, Option.bind_some, Option.some.injEq]
      rw [wrap_add_wrap_left, wrap_add_wrap_right, Int.add_assoc]
    · simp only [binop, Option.bind_some, Option.some.injEq]
      rw [wrap_sub_wrap_left, wrap_sub_wrap_right]; congr 1; omega

/-- mixed chains `(y + c1) - c2`, `(y - c1) + c2` are left alone. -/
theorem mixed_chain_kept (t : Typ) (y c1 c2 : Expr) (hy : isConst y = false) :
    onInstr (.binop t "-" (.binop t "+" y c1) c2) = .ok .keep ∧
    onInstr (.binop t "+" (.binop t "-" y c1) c2) = .ok .keep := by
  simp [onInstr, isConst, hy]

/-! ### the matcher of `on_block`, operand position by operand position, and its soundness

`evalE env e` (Proofs.ConstFold) is the run-time value of a model tree under `Spec.IRArith` with
parameter values `env`; `passTree` (Model.ConstFold) is `on_block` over a whole single-block
function seen from its returned value.  The harness compares `passTree` with the function the real
pass leaves behind, read back instruction by instruction — so a matcher that accepts more (or
fewer) operand positions than the model's is a model/implementation disagreement. -/

/-- **Exactly which shapes are rewritten.**  A chain rewrite happens only for
    `(y' op c1) op c2` with the SAME operator `op ∈ {+,-}` twice, the inner constant as the RIGHT
    operand of the inner instruction and the outer constant as the RIGHT operand of the outer one;
    the new instruction is `y' op cast(c1 + c2)`. -/
theorem chain_matcher_exact (ins y' : Expr) (t : Typ) (r : Int) (h : onInstr ins = .ok (.rechain y' t r)) :
    ∃ op t1 c1 c2 va vb, ins = .binop t op (.binop t1 op y' c1) c2 ∧ (op = "+" ∨ op = "-") ∧
      isConst c1 = true ∧ isConst c2 = true ∧ evalConst c1 = .ok (t, va) ∧ evalConst c2 = .ok (t, vb) ∧
      t = y'.ty ∧ r = chainConst t va vb :=
  onInstr_rechain_inv ins y' t r h

/-- **Unmatched operand positions are left alone**: inner constant on the LEFT (`(c - y) - d`,
    `(c + y) + d`, any operators), for every non-constant `y` — in particular the invalid
    `(c - y) - d ↦ y - (c+d)` is not performed. -/
theorem const_left_inner_kept (t t1 : Typ) (op1 op2 : String) (c y d : Expr) (hy : isConst y = false) :
    onInstr (.binop t op2 (.binop t1 op1 c y) d) = .ok .keep := by
  simp [onInstr, isConst, hy]

/-- … and outer constant on the LEFT (`d - (y - c)`, `d + (y + c)`): left alone. -/
theorem const_left_outer_kept (t t1 td : Typ) (op1 op2 : String) (dv : Int) (y c : Expr) (hy : isConst y = false) :
    onInstr (.binop t op2 (.const td dv) (.binop t1 op1 y c)) = .ok .keep := by
  simp [onInstr, isConst, hy]

/-- **Every rewrite the model's matcher accepts is sound** (all shapes, all actions, all parameter
    values): if the instruction with its operand tree has run-time value `v`, the instruction that
    `on_block` leaves behind has run-time value `v`. -/
theorem rewrite_sound (env : Nat → Int) (ins : Expr) (act : Action) (v : Int)
    (ho : onInstr ins = .ok act) (h : evalE env ins = some v) :
    evalE env (applyAction ins act) = some v :=
  onInstr_sound env ins act v ho h

/-- **The pass preserves the run-time value of every single-block function**, for all parameter
    values: nested folds, chains of any length, chains below casts, values used several times. -/
theorem pass_preserves_value (env : Nat → Int) (e e' : Expr) (v : Int)
    (hp : passTree e = .ok e') (h : evalE env e = some v) : evalE env e' = some v ∧ e'.ty = e.ty :=
  passTree_sound env e e' v hp h

/-! ### operations that are undefined for their constant operands are left for run time -/

/-- Whatever the instruction: the exceptions of an undefined operation (`x % 0`, negative shift
    count) never escape from `on_block`. -/
theorem undefined_never_escapes (ins : Expr) (x : Err) (h : onInstr ins = .error x) :
    x ≠ .ZeroDivisionError ∧ x ≠ .ValueError := by
  simp only [onInstr] at h
  split at h
  · simp at h
  · split at h
    · split at h
      · rename_i e he; simp at h; subst h; exact tryEvalConst_no_raise _ _ he
      · simp at h
      · simp at h
    · repeat' split at h
      all_goals try (simp at h; done)
      all_goals (rename_i e he; simp at h; subst h; first | exact tryEvalConst_no_raise _ _ he | skip)
      all_goals simp

/-- For every well-formed constant tree over the folder's operators — defined at run time or not —
    the pass raises nothing: it either replaces the instruction by an in-range constant of its type
    or leaves it alone. -/
theorem never_raises (e : SExpr) (hwf : e.WF) (hf : AllFoldable e) :
    onInstr (embed e) = .ok .skip ∨ onInstr (embed e) = .ok .keep ∨
      ∃ v, onInstr (embed e) = .ok (.replace (tyOf e.ty) v) ∧ InRange e.ty v := by
  cases e with
  | const ty c => exact Or.inl rfl
  | cast ty s =>
    rcases tryEvalConst_embed_total (.cast ty s) hwf hf with ⟨v, hv⟩ | h
    · have hi : isConst (embed (.cast ty s)) = true ∨ isConst (embed (.cast ty s)) = false := by
        cases isConst (embed (.cast ty s)) <;> simp
      rcases hi with hi | hi
      · have ho : onInstr (embed (.cast ty s)) = .ok (.replace (tyOf ty) v) := by
          simp only [embed] at hi hv ⊢; simp [onInstr, hi, hv, SExpr.ty]
        exact Or.inr (Or.inr ⟨v, ho, (cast_in_range ty _ _ _ (by simpa [embed] using ho)).2⟩)
      · exact Or.inr (Or.inl (by simp only [embed] at hi ⊢; simp [onInstr, hi]))
    · have hi : isConst (embed (.cast ty s)) = true ∨ isConst (embed (.cast ty s)) = false := by
        cases isConst (embed (.cast ty s)) <;> simp
      rcases hi with hi | hi
      · exact Or.inr (Or.inl (by simp only [embed] at hi h ⊢; simp [onInstr, hi, h]))
      · exact Or.inr (Or.inl (by simp only [embed] at hi ⊢; simp [onInstr, hi]))
  | binop ty op a b =>
    have hc : isConst (embed (.binop ty op a b)) = true := by
      have key : ∀ e : SExpr, AllFoldable e → isConst (embed e) = true := by
        intro e; induction e with
        | const _ _ => intro _; rfl
        | cast _ s ih => intro h; simpa [embed, isConst] using ih h
        | binop _ o x y ihx ihy =>
          intro h; obtain ⟨h1, h2, h3⟩ := h
          unfold Foldable at h1
          simp [embed, isConst, h1, ihx h2, ihy h3]
      exact key _ hf
    rcases tryEvalConst_embed_total (.binop ty op a b) hwf hf with ⟨v, hv⟩ | h
    · have ho : onInstr (embed (.binop ty op a b)) = .ok (.replace (tyOf ty) v) := by
        simp only [embed] at hc hv ⊢; simp [onInstr, hc, hv, SExpr.ty]
      exact Or.inr (Or.inr ⟨v, ho, (fold_in_range ty _ _ _ _ _ (by simpa [embed] using ho)).2⟩)
    · exact Or.inr (Or.inl (by simp only [embed] at hc h ⊢; simp [onInstr, hc, h]))

/-! ### non-vacuity / concrete instances (tests, labelled as such) -/

-- the two defects this property found (before the `fix:` commit), as kernel-checked facts:
-- 1. `operator.mod` (Python floor-mod, `PyOp.mod`) in the `%` slot disagrees with the run-time value
example : binop .i8 .rem (-7) 3 = some (-1) ∧ enhance .mod (tyOf .i8) (-7) 3 = .ok 2 := by decide +kernel
example : binop .i8 .rem 7 (-3) = some 1 ∧ enhance .mod (tyOf .i8) 7 (-3) = .ok (-2) := by decide +kernel
-- 2. the unwrapped chain constant `c1 + c2` is not a value of the type
example : InRange .i8 100 ∧ ¬ InRange .i8 (100 + 100) := by decide
-- after the fix
example : onInstr (.binop i8 "%" (.const i8 (-7)) (.const i8 3)) = .ok (.replace i8 (-1)) := by decide +kernel
example : onInstr (.binop i8 "+" (.binop i8 "+" (.other i8 0) (.const i8 100)) (.const i8 100))
    = .ok (.rechain (.other i8 0) i8 (-56)) := by decide +kernel
example : binop .i8 .add 100 100 = some (-56) ∧ binop .u8 .sub 0 1 = some 255 := by decide +kernel
example : binop .i8 .shr (-128) 7 = some (-1) ∧ binop .u8 .shr 255 7 = some 1 := by decide +kernel
example : binop .i8 .rem (-128) (-1) = none ∧ binop .i8 .rem 5 0 = none ∧ binop .i8 .shl 1 8 = none := by decide +kernel
example : binop .i64 .mul (2 ^ 62) 2 = some (-(2 ^ 63)) := by decide +kernel
-- hypotheses of `fold_agrees`, `tree_agrees`, `chain_sound` are satisfiable
example : Foldable .rem ∧ InRange .i8 (-7) ∧ InRange .i8 3 := by decide
example : (SExpr.binop .i8 .add (.cast .i8 (.const .u16 300)) (.const .i8 100)).WF
    ∧ AllFoldable (SExpr.binop .i8 .add (.cast .i8 (.const .u16 300)) (.const .i8 100))
    ∧ (SExpr.binop .i8 .add (.cast .i8 (.const .u16 300)) (.const .i8 100)).eval = some (-112) := by
  refine ⟨by simp [SExpr.WF, SExpr.ty]; decide, by simp [AllFoldable]; decide, by decide +kernel⟩
example : isConst (.other i8 0) = false ∧ (Expr.other i8 0).ty = tyOf .i8 := by decide
-- (c - y) - d is left alone; (y - c) - d is rewritten; u8 witness of why the former must not be: 2 ≠ 248
example : passTree (.binop u8 "-" (.binop u8 "-" (.const u8 5) (.other u8 0)) (.const u8 3))
    = .ok (.binop u8 "-" (.binop u8 "-" (.const u8 5) (.other u8 0)) (.const u8 3)) := by decide +kernel
example : passTree (.binop u8 "-" (.binop u8 "-" (.other u8 0) (.const u8 5)) (.const u8 3))
    = .ok (.binop u8 "-" (.other u8 0) (.const u8 8)) := by decide +kernel
example : evalE (fun _ => 0) (.binop u8 "-" (.binop u8 "-" (.const u8 5) (.other u8 0)) (.const u8 3)) = some 2
    ∧ evalE (fun _ => 0) (.binop u8 "-" (.other u8 0) (.const u8 8)) = some 248 := by decide +kernel
-- operations that are undefined for their constant operands are left for run time (no exception)
example : onInstr (.binop i8 "%" (.const i8 5) (.const i8 0)) = .ok .keep := by decide +kernel
example : onInstr (.binop i8 "<<" (.const i8 1) (.const i8 (-1))) = .ok .keep := by decide +kernel
example : evalConst (.binop i8 "%" (.const i8 5) (.const i8 0)) = .error .ZeroDivisionError := by decide +kernel

/-! ### T1 translation tie: `correct`, `cast`, `irem` REGENERATED from `ppci/opt/constantfolding.py`

`Gen.Py_constantfolding.*` is written by `translate/py2lean.py` from the source text of the checked
tree on every run; the `ty` object appears as the attributes the functions read (`ty.bits`,
`ty.signed`, `ty.is_integer`, the two `isinstance` tests), each an `Int`.  The regenerated helpers
ARE the hand model's, for every value and every type descriptor; then the two facts the folding
theorems rest on (`correct` = the specification's `wrap`, `irem` = truncating remainder) are
restated about the regenerated functions. -/
section T1
open Proofs.T1.ConstFold Model.PyRt

theorem gen_correct_eq_model (fuel : Nat) (value : Int) (ty : Typ) :
    Gen.Py_constantfolding.correct fuel value (ty.bits : Int) (Model.PyRt.ofBool ty.signed) = .ok (Model.ConstFold.correct value ty) :=
  Proofs.T1.ConstFold.gen_correct_eq_model fuel value ty

theorem gen_cast_eq_model (fuel : Nat) (value : Int) (ty : Typ) (isFloat : Int) :
    Gen.Py_constantfolding.cast fuel value 0 1 (ty.bits : Int) (Model.PyRt.ofBool ty.signed) isFloat
      = .ok (Model.ConstFold.cast value ty) :=
  Proofs.T1.ConstFold.gen_cast_eq_model fuel value ty isFloat

theorem gen_irem_eq_model (fuel : Nat) (a b : Int) :
    Gen.Py_constantfolding.irem fuel a b = liftI (Model.ConstFold.irem a b) :=
  Proofs.T1.ConstFold.gen_irem_eq_model fuel a b

/-- the regenerated `correct` is the specification's `wrap`, for each of the eight integer types -/
theorem gen_correct_eq_wrap (fuel : Nat) (ty : Ty) (x : Int) :
    Gen.Py_constantfolding.correct fuel x ((tyOf ty).bits : Int) (Model.PyRt.ofBool (tyOf ty).signed) = .ok (wrap ty x) := by
  rw [gen_correct_eq_model, correct_eq_wrap]

/-- the regenerated `cast` of an int to an integer type is the run-time cast, and in range -/
theorem gen_cast_agrees (fuel : Nat) (to : Ty) (v : Int) (isFloat : Int) :
    Gen.Py_constantfolding.cast fuel v 0 1 ((tyOf to).bits : Int) (Model.PyRt.ofBool (tyOf to).signed) isFloat
      = .ok (Spec.IRArith.cast to v) ∧ InRange to (Spec.IRArith.cast to v) := by
  refine ⟨?_, cast_inRange to v⟩
  rw [gen_cast_eq_model]
  simp [Model.ConstFold.cast, correct_eq_wrap, Spec.IRArith.cast]

/-- the regenerated `irem` is the remainder of the truncating division; it raises exactly for 0 -/
theorem gen_irem_eq_tmod (fuel : Nat) (a b : Int) :
    (b ≠ 0 → Gen.Py_constantfolding.irem fuel a b = .ok (Int.tmod a b)) ∧
    (b = 0 → Gen.Py_constantfolding.irem fuel a b = .error .ZeroDivisionError) := by
  rw [gen_irem_eq_model]
  constructor
  · intro hb; rw [irem_eq_tmod a b hb]; rfl
  · intro hb; subst hb; simp [Model.ConstFold.irem, pyMod, pyAbs, liftI, errOf]

example : Gen.Py_constantfolding.irem 0 (-7) 3 = .ok (-1) := by decide +kernel
example : Gen.Py_constantfolding.correct 0 200 8 1 = .ok (-56) := by decide +kernel

end T1

end Props.C38
