import PpciVerif.Model.ConstFold
import PpciVerif.Spec.IRArith
import PpciVerif.Gen.ConstFold
namespace Props.C38
open Model.ConstFold

theorem ops_table_matches_source :
    ops.map (fun (k, f) => (k, "operator." ++ f.pyName)) = Gen.ConstFold.ops := by decide

theorem int_types_match_source :
    intTypes.map (fun t => (t.name, t.bits, t.signed)) = Gen.ConstFold.intTypes := by decide

end Props.C38
