import PpciVerif.Model.IRFrag
/-! placeholder while the harness is brought up; replaced by the real theorems -/
namespace Props.C15
theorem placeholder : True := trivial
end Props.C15
