import PpciVerif.Proofs.IRText
import PpciVerif.Proofs.IRBehave
import PpciVerif.Proofs.IRLexP
/-!
# C15 — IR text format round-trips

Model: `Model.IRText` — the writer (`Writer` + the `__str__` methods of `ppci/ir.py`, as characters
`printModule` and as tokens `toksModule`), the tokenizer `lexAll`, the recursive-descent `Reader`
(`parseToks`, on tokens) over the construction layer `Model.IRBuild` — as the code is after the `fix:`
commits listed in notes/C15.md.  Float constants: `fmt : bits → text` stands for Python's `str(float)`,
`fparse : text → bits` for `float(text)` (CPython is the oracle; see ASSUMPTIONS in harness/c15.py).

`roundtrip_partial`, for EVERY module of the fragment `Model.IRFrag.fragText` (unambiguous names, the
constructor checks of `ir.py`, no inline asm, float constants whose text is one token, lexable identifiers):

* reading the printed token sequence succeeds and yields `normPhi m`: the module itself with the inputs of
  each phi in the order of the text (the writer sorts them; a phi's inputs are a dictionary in ppci);
* printing `normPhi m` gives the same text, character by character;
* `normPhi m` BEHAVES like `m`: `Spec.IR.exec` gives the same outcome for every configuration, entry point,
  arguments, external-call oracle and step budget (`same_behaviour`; lock-step simulation in
  `Proofs.IRBehave`, whose only non-trivial point is the phi evaluation `same_phi_values`).

The step from characters to tokens is PROVED for every module of the fragment (`lexical_step`:
`tokenize (printModule fmt m) = toksModule fmt m`; maximal munch token class by token class in `Proofs.IRLex`,
composed over the whole printer in `Proofs.IRLexP`), so `roundtrip_partial` is a statement about characters with
no lexical hypothesis.  The conversion float <-> text stays the explicit parameter pair `fmt` / `fparse`: the
fragment asks that `fmt b` is ASCII and is read as ONE token when followed by `;` (`floatTextOk`, a decidable
check on the text), the theorem asks that `fparse (fmt b) = b` for the float constants of the module.
The driver op `toks` still evaluates the same equation for every module of every run (a cross-check of the
model against itself, no longer an assumption of the theorem).

`roundtrip_full` (all well-formed modules) is NOT proved and is false: three counterexamples below, each
replayed on ppci by harness/c15.py (open findings irtext:*); two former counterexamples (non-finite floats, a
keyword-named first operand of rol/ror) were repaired in /repo and are now positive examples inside the fragment.
-/
namespace Props.C15
open Spec.IR Model.IRBuild Model.IRText Model.IRFrag Proofs.IRText

/-- the float constants of a module (binary64 bit patterns) -/
def floatsOf (m : Module) : List Nat :=
  (m.funcs.flatMap Func.instrs).filterMap (fun i => match i with | .const _ _ (.fbits b) => some b | _ => none)

theorem printable_of_fragText (fmt : Nat → List Char) (fparse : String → Option Nat) (m : Module)
    (h : fragText fmt m = true) (hfp : ∀ b ∈ floatsOf m, fparse (String.ofList (fmt b)) = some b) :
    ∀ f ∈ m.funcs, ∀ b ∈ f.blocks, ∀ i ∈ b.instrs, PrintOk fmt fparse i := by
  intro f hf b hb i hi
  have hcore : fragCore m = true := by
    simp only [fragText, Bool.and_eq_true] at h; exact h.1.1.1.1
  have htext : funcText fmt f = true := by
    simp only [fragText, Bool.and_eq_true, List.all_eq_true] at h; exact h.2 f hf
  have hfc : funcCore m.globalNames f = true := by
    simp only [fragCore, Bool.and_eq_true, List.all_eq_true] at hcore; exact hcore.2 f hf
  have F := Proofs.IRBuild.funcFacts_of_core hfc
  have hmem : i ∈ Proofs.IRBuild.instrsOf f.blocks := by
    simp only [Proofs.IRBuild.instrsOf, List.mem_flatMap]; exact ⟨b, hb, hi⟩
  have hty := F.typed i hmem
  have hit : instrText fmt i = true := by
    simp only [funcText, Bool.and_eq_true, List.all_eq_true] at htext
    exact ((htext.2 b hb).2 i hi).2
  refine ⟨?_, ?_, ?_⟩
  · intro tpl a b' c hc; rw [hc] at hty; simp [typedOk] at hty
  · intro d ty bits hc
    apply hfp
    simp only [floatsOf, List.mem_filterMap, List.mem_flatMap]
    exact ⟨i, ⟨f, hf, by simp only [Func.instrs, List.mem_flatMap]; exact ⟨b, hb, hi⟩⟩, by rw [hc]⟩
  · intro d data hc x hx
    rw [hc] at hty
    have := List.all_eq_true.1 (by simpa [typedOk] using hty) x hx
    simpa [isByte] using this

/-- token level: read (print m) = m up to the order of phi inputs, and the re-read module prints identically -/
theorem roundtrip_tokens_partial (fmt : Nat → List Char) (fparse : String → Option Nat) (m : Module)
    (h : fragText fmt m = true) (hfp : ∀ b ∈ floatsOf m, fparse (String.ofList (fmt b)) = some b) :
    parseToks fparse (toksModule fmt m) = .ok (normPhi m) ∧
    toksModule fmt (normPhi m) = toksModule fmt m ∧
    printModule fmt (normPhi m) = printModule fmt m := by
  have hcore : fragCore m = true := by
    simp only [fragText, Bool.and_eq_true] at h; exact h.1.1.1.1
  exact ⟨parseToks_toksModule fmt fparse m hcore (printable_of_fragText fmt fparse m h hfp),
    toksModule_normPhi fmt m, printModule_normPhi fmt m⟩

/-- the character-to-token step, for every module of the fragment: the tokenizer reads the printed characters
    back as exactly the token sequence the writer meant (maximal munch never merges or splits a token) -/
theorem lexical_step (fmt : Nat → List Char) (m : Module) (h : fragText fmt m = true) :
    tokenize (printModule fmt m) = .ok (toksModule fmt m) :=
  Proofs.IRLex.tokenize_printModule fmt m h

/-- character level: reading the printed characters gives `normPhi m`, which prints identically -/
theorem roundtrip_partial (fmt : Nat → List Char) (fparse : String → Option Nat) (m : Module)
    (h : fragText fmt m = true) (hfp : ∀ b ∈ floatsOf m, fparse (String.ofList (fmt b)) = some b) :
    readModule fparse (printModule fmt m) = .ok (normPhi m) ∧
    printModule fmt (normPhi m) = printModule fmt m := by
  obtain ⟨h1, _, h3⟩ := roundtrip_tokens_partial fmt fparse m h hfp
  refine ⟨?_, h3⟩
  simp only [readModule, lexical_step fmt m h, bind, Except.bind]
  exact h1

/-- m' ≃ m ⇒ same behaviour: the values of the phis on every edge agree (phi inputs are the only difference) -/
theorem same_phi_values (ctx : Ctx) (env : Env) (pred : String) (m : Module) (h : fragCore m = true)
    (f : Func) (hf : f ∈ m.funcs) (b : Block) (hb : b ∈ f.blocks) :
    phiValues ctx env pred (normPhiBlock b).instrs = phiValues ctx env pred b.instrs := by
  have hfc : funcCore m.globalNames f = true := by
    simp only [fragCore, Bool.and_eq_true, List.all_eq_true] at h; exact h.2 f hf
  have F := Proofs.IRBuild.funcFacts_of_core hfc
  apply phiValues_normPhi
  intro i hi
  exact F.phi i (by simp only [Proofs.IRBuild.instrsOf, List.mem_flatMap]; exact ⟨b, hb, hi⟩)

/-- "behaves identically": for every configuration, entry point, argument vector, oracle of the external calls
    and step budget, `Spec.IR.exec` gives the same outcome (return value, final globals, external-call trace, or
    the same UB / undefined-read / out-of-fuel verdict) for `normPhi m` as for `m` -/
theorem same_behaviour (m : Module) (h : fragCore m = true) (cfg : Config) (oracle : Oracle) (fname : String)
    (args : List Val) (fuel : Nat) :
    exec cfg (normPhi m) oracle fname args fuel = exec cfg m oracle fname args fuel := by
  apply Proofs.IRBehave.exec_normPhi
  intro f hf b hb i hi
  have hfc : funcCore m.globalNames f = true := by
    simp only [fragCore, Bool.and_eq_true, List.all_eq_true] at h; exact h.2 f hf
  exact (Proofs.IRBuild.funcFacts_of_core hfc).phi i
    (by simp only [Proofs.IRBuild.instrsOf, List.mem_flatMap]; exact ⟨b, hb, hi⟩)

/-- the property for the fragment, all three clauses, on characters: the printed text is read back, the result
    prints identically and behaves identically -/
theorem roundtrip_behaviour_partial (fmt : Nat → List Char) (fparse : String → Option Nat) (m : Module)
    (h : fragText fmt m = true) (hfp : ∀ b ∈ floatsOf m, fparse (String.ofList (fmt b)) = some b) :
    ∃ m', readModule fparse (printModule fmt m) = .ok m' ∧ printModule fmt m' = printModule fmt m ∧
      ∀ cfg oracle fname args fuel, exec cfg m' oracle fname args fuel = exec cfg m oracle fname args fuel := by
  obtain ⟨h1, h2⟩ := roundtrip_partial fmt fparse m h hfp
  have hcore : fragCore m = true := by
    simp only [fragText, Bool.and_eq_true] at h; exact h.1.1.1.1
  exact ⟨normPhi m, h1, h2, fun cfg oracle fname args fuel => same_behaviour m hcore cfg oracle fname args fuel⟩

/-- the full statement (every well-formed module).  Not proved; false (counterexamples below). -/
def roundtrip_full : Prop :=
  ∀ (fmt : Nat → List Char) (fparse : String → Option Nat) (m : Module), wfModule m = true →
    (∀ b, fparse (String.ofList (fmt b)) = some b) →
    ∃ m', readModule fparse (printModule fmt m) = .ok m' ∧ printModule fmt m' = printModule fmt m ∧
      ∀ cfg oracle fn args fuel, exec cfg m' oracle fn args fuel = exec cfg m oracle fn args fuel

/-! ### non-vacuity -/

def fmt0 (_ : Nat) : List Char := "1.5".toList
def fparse0 (s : String) : Option Nat := if s = "1.5" then some 4609434218613702656 else none

def demo : Module :=
  { name := "demo",
    externs := [{ name := "ext", kind := .func [.int .i32] (.int .i32) }],
    vars := [{ name := "g", isGlobal := true, size := 8, align := 8,
               init := some [.bytes [1, 2, 3, 255], .ref "f"] }],
    funcs := [
      { name := "f", isGlobal := true, ret := some (.int .i32), entry := "e", params := [("n", .int .i32)],
        blocks := [
          { name := "e", instrs := [.const "z" (.int .i32) (.int (-7)), .const "k" .f64 (.fbits 4609434218613702656),
                                    .jump "h"] },
          { name := "x", instrs := [.store (.int .i32) (.loc "s") (.glob "g") true,
                                    .fcall "r" (.int .i32) (.glob "later") [.loc "s", .loc "s"], .ret (.loc "r")] },
          { name := "h", instrs := [.phi "i" (.int .i32) [("h", .loc "s"), ("e", .loc "z")],
                                    .binop "s" (.int .i32) .rol (.loc "i") (.loc "n"),
                                    .cjump (.loc "s") .lt (.loc "n") "h" "x"] }] },
      { name := "later", isGlobal := false, ret := some (.int .i32), entry := "b",
        params := [("a", .int .i32), ("b", .int .i32)],
        blocks := [{ name := "b", instrs := [.unop "m" (.int .i32) .not (.loc "a"), .ret (.loc "m")] }] }] }

example : fragText fmt0 demo = true := by decide
example : ∀ b ∈ floatsOf demo, fparse0 (String.ofList (fmt0 b)) = some b := by decide
example : normPhi demo ≠ demo := by decide

/-! ### counterexamples outside the fragment (Lean-proved here, replayed on ppci by harness/c15.py) -/

def errOf (r : Except RErr Module) : Option RErr :=
  match r with
  | .ok _ => none
  | .error e => some e

def okAnd (r : Except RErr Module) (p : Module → Bool) : Bool :=
  match r with
  | .ok m => p m
  | .error _ => false

def oneFunc (name : String) (ret : Option Ty) (params : List (String × Ty)) (is : List Instr) : Module :=
  { name := name, externs := [], vars := [],
    funcs := [{ name := "f", isGlobal := true, ret := ret, entry := "entry", params := params,
                blocks := [{ name := "entry", instrs := is }] }] }

/-- irtext:inline-asm — `asm (nop)` is taken for an assignment with the unknown type `asm`: KeyError -/
def withAsm : Module := oneFunc "asm" none [("a", .int .i32)] [.asm "nop" [.loc "a"] [] [], .exit]
example : wfModule withAsm = true := by decide
example : errOf (readModule fparse0 (printModule fmt0 withAsm)) = some .KeyError := by decide

/-- non-finite float constants (fixed in /repo: written as `float 'inf'`): inside the fragment, read back exactly -/
def withFloat : Module := oneFunc "nonfinite" (some .f64) [] [.const "x" .f64 (.fbits 0x7ff0000000000000), .ret (.loc "x")]
def fmtInf (_ : Nat) : List Char := "-inf".toList
def fparseInf (s : String) : Option Nat := if s = "-inf" then some 0x7ff0000000000000 else none
example : fragText fmtInf withFloat = true := by decide
example : okAnd (readModule fparseInf (printModule fmtInf withFloat)) (fun m' => decide (m' = withFloat)) = true := by
  decide

/-- irtext:name-capture — the value `x` of `f` hides the module-level `x`; `ir.Load` gets an i32 address -/
def capture : Module :=
  { name := "capture", externs := [],
    vars := [{ name := "x", isGlobal := true, size := 4, align := 4, init := none }],
    funcs := [
      { name := "f", isGlobal := true, ret := some (.int .i32), entry := "entry", params := [("p", .int .i32)],
        blocks := [{ name := "entry", instrs := [
          .binop "x" (.int .i32) .add (.loc "p") (.loc "p"),
          .load "ld" (.int .i32) (.glob "x") false,
          .binop "s" (.int .i32) .add (.loc "x") (.loc "ld"),
          .ret (.loc "s")] }] }] }
example : wfModule capture = true := by decide
example : fragText fmt0 capture = false := by decide
example : errOf (parseToks fparse0 (toksModule fmt0 capture)) = some .AssertionError := by decide

/-- irtext:identifier — ppci accepts any string as a name; `a.b` is printed verbatim: lex fault -/
def dotted : Module :=
  oneFunc "ident" (some (.int .i32)) [("a", .int .i32)]
    [.binop "a.b" (.int .i32) .add (.loc "a") (.loc "a"), .ret (.loc "a.b")]
example : wfModule dotted = true := by decide
example : errOf (readModule fparse0 (printModule fmt0 dotted)) = some .IrParseException := by decide

/-- a VALUE named `load` as first operand of rol (fixed in /repo: one more token of look-ahead): inside the
    fragment, `u32 x = load rol a` is read back exactly -/
def rolKeyword : Module :=
  oneFunc "rolkw" (some (.int .u32)) [("a", .int .u32)]
    [.binop "load" (.int .u32) .add (.loc "a") (.loc "a"),
     .binop "x" (.int .u32) .rol (.loc "load") (.loc "a"), .ret (.loc "x")]
example : fragText fmt0 rolKeyword = true := by decide
example : okAnd (parseToks fparse0 (toksModule fmt0 rolKeyword)) (fun m' => decide (m' = rolKeyword)) = true := by
  decide

end Props.C15
