import PpciVerif.Spec.CInt
import PpciVerif.Model.CEval
import PpciVerif.Model.CEvalLegacy
import PpciVerif.Model.CSyntax
import PpciVerif.Gen.CEval
/-!
# C27 — C integer constant expressions are evaluated as C prescribes
(work in progress: table translation obligations)
-/
namespace Props.C27
open Model.CEval Model.CSyntax

/-- The model's operator tables, ranks, sizes, type sets, pack formats and type-name resolution are the
    ones of the checked source tree (`Gen.CEval` is re-dumped from the live objects on every run). -/
theorem tables_match_source :
    Gen.CEval.unaryOperators = unaryOperators.map (fun p => (p.1.str, p.2.pyName)) ∧
    Gen.CEval.binaryOperators = binaryOperators.map (fun p => (p.1.str, p.2.pyName)) ∧
    Gen.CEval.integerOperators = integerOperators.map (fun p => (p.1.str, p.2.pyName)) ∧
    Gen.CEval.basicRanks = Ty.all.map (fun τ => (τ.id, τ.rank)) ∧
    Gen.CEval.typeSizes = Ty.all.map (fun τ => (τ.id, τ.size)) ∧
    Gen.CEval.packFormats = Ty.all.map (fun τ => (τ.id, τ.fmt)) ∧
    (∀ τ ∈ Ty.all, (τ.id ∈ Gen.CEval.signedTypes) = (τ.isSigned = true)) ∧
    (∀ τ ∈ Ty.all, (τ.id ∈ Gen.CEval.promotableTypes) = (τ.isPromotable = true)) ∧
    Gen.CEval.integerTypes.length = Ty.all.length ∧ (∀ τ ∈ Ty.all, τ.id ∈ Gen.CEval.integerTypes) ∧
    (∀ τ ∈ Ty.all, τ.id ∉ Gen.CEval.floatTypes) ∧
    Gen.CEval.unsignedVariants = (Ty.all.filter Ty.isSigned).map (fun τ => (τ.id, τ.unsignedVariant.id)) ∧
    Gen.CEval.typeNames = Spec.CInt.Ty.all.map (fun τ => (τ.name, (ofSpecTy τ).id)) ∧
    Gen.CEval.sizeType = sizeT.id := by
  decide +kernel

end Props.C27
