import PpciVerif.Spec.CInt
import PpciVerif.Model.CEval
import PpciVerif.Model.CEvalLegacy
import PpciVerif.Model.CSyntax
import PpciVerif.Gen.CEval
import PpciVerif.Proofs.CEvalTop
/-!
# C27 — C integer constant expressions are evaluated as C prescribes

Property theorems only.  `Spec.CInt` is the specification (C11 on LP64, gcc's choices for
the implementation-defined parts, undefined behaviour = no value); `Model.CEval` is the hand
model of ppci's pipeline (semantic typing → `ConstantExpressionEvaluator` → `CContext.pack`)
after the `fix:` commits listed in findings/C27.json; `Model.CSyntax.render` says how a
specification tree is written in C and read back by ppci's parser.  Helper lemmas are in
`Proofs/CEval*.lean`.  The theorems quantify over ALL expression trees (no bound on size,
nesting or operand values) and all 11 destination types.
-/
namespace Props.C27
open Model.CEval Model.CSyntax
open Spec.CInt (Expr Base Suffix UnOp BinOp)

/-! ### translation: the model's tables are those of the checked source tree -/

/-- The model's operator tables, ranks, sizes, type sets, pack formats, type-name resolution and size
    type are the ones of the checked source tree (`Gen.CEval` is re-dumped from the live objects on
    every run). -/
theorem tables_match_source :
    Gen.CEval.unaryOperators = unaryOperators.map (fun p => (p.1.str, p.2.pyName)) ∧
    Gen.CEval.binaryOperators = binaryOperators.map (fun p => (p.1.str, p.2.pyName)) ∧
    Gen.CEval.integerOperators = integerOperators.map (fun p => (p.1.str, p.2.pyName)) ∧
    Gen.CEval.basicRanks = Ty.all.map (fun τ => (τ.id, τ.rank)) ∧
    Gen.CEval.typeSizes = Ty.all.map (fun τ => (τ.id, τ.size)) ∧
    Gen.CEval.packFormats = Ty.all.map (fun τ => (τ.id, τ.fmt)) ∧
    (∀ τ ∈ Ty.all, (τ.id ∈ Gen.CEval.signedTypes) = (τ.isSigned = true)) ∧
    (∀ τ ∈ Ty.all, (τ.id ∈ Gen.CEval.promotableTypes) = (τ.isPromotable = true)) ∧
    Gen.CEval.integerTypes.length = Ty.all.length ∧ (∀ τ ∈ Ty.all, τ.id ∈ Gen.CEval.integerTypes) ∧
    (∀ τ ∈ Ty.all, τ.id ∉ Gen.CEval.floatTypes) ∧
    Gen.CEval.unsignedVariants = (Ty.all.filter Ty.isSigned).map (fun τ => (τ.id, τ.unsignedVariant.id)) ∧
    Gen.CEval.typeNames = Spec.CInt.Ty.all.map (fun τ => (τ.name, (ofSpecTy τ).id)) ∧
    Gen.CEval.sizeType = sizeT.id ∧
    Gen.CEval.ptrFormat = ptrFmt ∧ Gen.CEval.ptrSize = ptrSize ∧ Gen.CEval.enumSize = PackTy.enum.size ∧
    ("ptr" ∈ Gen.CEval.signedTypes) = (PackTy.ptr.signedTid = true) := by
  decide +kernel

/-! ### typing and value of every expression -/

/-- ppci's semantics gives every expression that C types exactly C's type (integer promotions, usual
    arithmetic conversions, type of an integer constant, result type of shifts / comparisons / `?:`);
    in particular it never rejects such an expression. -/
theorem typing_agrees (e : Expr) (σ : Spec.CInt.Ty) (h : Spec.CInt.typeOf e = some σ) :
    ∃ t, elaborate (render e) = .ok t ∧ t.ty = ofSpecTy σ := by
  obtain ⟨t, ht⟩ := Proofs.CEval.elab_sound e σ h
  exact ⟨t, ht.elab_ok, ht.ty⟩

/-- Whenever C gives the expression a value (no undefined behaviour on an evaluated path), the evaluator
    returns exactly that value, and it lies in the range of the expression's C type. -/
theorem value_agrees (e : Expr) (v : Int) (h : Spec.CInt.eval e = some v) :
    ∃ σ t, Spec.CInt.typeOf e = some σ ∧ elaborate (render e) = .ok t ∧ t.ty = ofSpecTy σ ∧
      eval t = .ok v ∧ Spec.CInt.inRange σ v = true :=
  Proofs.CEval.elab_eval e v h

/-! ### the four places where a constant expression is used -/

/-- **Global initialiser.** `T x = e;` for every integer type `T`: the bytes ppci stores are the
    little-endian image of the C value of `e` converted to `T`. -/
theorem initializer_correct (τ : Spec.CInt.Ty) (e : Expr) (bs : List Nat)
    (h : Spec.CInt.initBytes τ e = some bs) : initializer (ofSpecTy τ) (render e) = .ok bs :=
  Proofs.CEval.initializer_spec τ e bs h

/-- **Case label.** `case e:` under a controlling expression of type `ctl`: the value converted to the
    promoted type of the controlling expression. -/
theorem case_label_correct (ctl : Spec.CInt.Ty) (e : Expr) (v : Int)
    (h : Spec.CInt.caseLabel ctl e = some v) : caseLabel (ofSpecTy ctl) (render e) = .ok v :=
  Proofs.CEval.caseLabel_spec ctl e v h

/-- **Enumerator.** `enum { A = e }` with a value representable as `int`. -/
theorem enumerator_correct (e : Expr) (v : Int) (h : Spec.CInt.enumerator e = some v) :
    enumerator (render e) = .ok v :=
  Proofs.CEval.enumerator_spec e v h

/-- **Enumerator list** (C11 6.7.2.2p3), for EVERY list: an enumerator with `= e` gets the value of `e` — also when
    that value is 0 —, one without continues from the previous enumerator plus 1 (the first from 0); ppci's
    `_calculate_enum_values` assigns exactly these values, in order. -/
theorem enum_values_correct (l : List (Option Expr)) (vs : List Int) (h : Spec.CInt.enumValues l = some vs) :
    enumValues (l.map (Option.map render)) = .ok vs :=
  Proofs.CEval.enumValues_spec l vs h

/-- **Array bound.** `T a[e];` with `0 < e ≤ PTRDIFF_MAX`. -/
theorem array_size_correct (e : Expr) (v : Int) (h : Spec.CInt.arrayBound e = some v) :
    arraySize (render e) = .ok v :=
  Proofs.CEval.arraySize_spec e v h

/-- A constant that does not fit its destination type is converted, not rejected: `CContext.pack` returns
    bytes for EVERY integer value and every integer type (no `struct.error`), and for a value of the
    type they are its little-endian two's-complement image. -/
theorem pack_converts (τ : Spec.CInt.Ty) (v : Int) :
    (∃ bs, pack (ofSpecTy τ) v = .ok bs) ∧
    pack (ofSpecTy τ) (Spec.CInt.convert τ v) = .ok (Spec.CInt.bytesLE τ (Spec.CInt.convert τ v)) :=
  ⟨Proofs.CEval.pack_total _ v, Proofs.CEval.pack_spec τ (Proofs.CEval.convert_inRange τ v)⟩

/-- `CContext.pack` on EVERY type it accepts besides floats — the integer basic types, enum types (packed as
    `int`) and pointer types (the unsigned pointer-sized format) — and every integer: never raises; an enum
    object gets the image of the value converted to `int`, a pointer the image of the value converted to the
    64-bit unsigned type. -/
theorem pack_converts_every_type (t : PackTy) (v : Int) :
    (∃ bs, packAny t v = .ok bs) ∧
    packAny .enum v = .ok (Spec.CInt.bytesLE .int (Spec.CInt.convert .int v)) ∧
    packAny .ptr v = .ok (Spec.CInt.bytesLE .ulong (Spec.CInt.convert .ulong v)) :=
  ⟨Proofs.CEval.packAny_total t v, Proofs.CEval.packAny_enum_spec v, Proofs.CEval.packAny_ptr_spec v⟩

/-- **Initialiser of an enum object / of a pointer.** `enum E x = e;` and `T *p = (T *)e;` -/
theorem enum_initializer_correct (e : Expr) (bs : List Nat) (h : Spec.CInt.initBytesEnum e = some bs) :
    initializerEnum (render e) = .ok bs :=
  Proofs.CEval.initializerEnum_spec e bs h

theorem pointer_initializer_correct (e : Expr) (bs : List Nat) (h : Spec.CInt.initBytesPtr e = some bs) :
    initializerPtr (render e) = .ok bs :=
  Proofs.CEval.initializerPtr_spec e bs h

/-! ### non-vacuity: concrete non-trivial instances of the hypotheses (tests, labelled as such) -/

section examples
private def lit (v : Nat) : Expr := .lit .dec .none v
private def neg (a : Expr) : Expr := .un .neg a

-- `int a = -7 / 2;`  → -3, `int a = -7 % 2;` → -1 (truncation), `unsigned char c = 300;` → 44
example : Spec.CInt.initBytes .int (.bin .div (neg (lit 7)) (lit 2)) = some [0xfd, 0xff, 0xff, 0xff] := by decide +kernel
example : initializer .int (render (.bin .div (neg (lit 7)) (lit 2))) = .ok [0xfd, 0xff, 0xff, 0xff] := by decide +kernel
example : Spec.CInt.initBytes .int (.bin .mod (neg (lit 7)) (lit 2)) = some [0xff, 0xff, 0xff, 0xff] := by decide +kernel
example : Spec.CInt.initBytes .uchar (lit 300) = some [44] := by decide +kernel
example : initializer .uchar (render (lit 300)) = .ok [44] := by decide +kernel
-- `(signed char)-1 < (unsigned char)1` is 1 (both promoted to int); `-1ll < 1ul` is 0 (unsigned long long)
example : Spec.CInt.eval (.bin .lt (.cast .schar (neg (lit 1))) (.cast .uchar (lit 1))) = some 1 := by decide +kernel
example : Spec.CInt.eval (.bin .lt (neg (.lit .dec .ll 1)) (.lit .dec .ul 1)) = some 0 := by decide +kernel
-- `-2147483648` is a `long` (the constant does not fit `int`)
example : Spec.CInt.typeOf (neg (lit 2147483648)) = some .long := by decide +kernel
example : Spec.CInt.caseLabel .uchar (.bin .add (neg (lit 1)) (lit 300)) = some 299 := by decide +kernel
example : Spec.CInt.arrayBound (.cond (lit 6) (.lit .hexoct .ull 11) (lit 6)) = some 11 := by decide +kernel
-- `enum status last = -1;` is ff ff ff ff; `char *p = (char *)-1;` is eight ff
example : Spec.CInt.initBytesEnum (neg (lit 1)) = some [0xff, 0xff, 0xff, 0xff] := by decide +kernel
example : initializerEnum (render (neg (lit 1))) = .ok [0xff, 0xff, 0xff, 0xff] := by decide +kernel
example : packAny .enum 4294967295 = .ok [0xff, 0xff, 0xff, 0xff] := by decide +kernel
example : packAny .ptr (-1) = .ok [0xff, 0xff, 0xff, 0xff, 0xff, 0xff, 0xff, 0xff] := by decide +kernel
-- `enum { RED = 3, GREEN, NONE = 0, FIRST }` is 3, 4, 0, 1: an explicit 0 is an explicit value
example : Spec.CInt.enumValues [some (lit 3), none, some (lit 0), none] = some [3, 4, 0, 1] := by decide +kernel
example : enumValues ([some (lit 3), none, some (.bin .sub (lit 4) (.bin .mul (lit 2) (lit 2))), none].map (Option.map render))
    = .ok [3, 4, 0, 1] := by decide +kernel
-- undefined behaviour has no value: INT_MAX + 1, 1 << 40, 1 / 0; but `0 && 1/0` is 0
example : Spec.CInt.eval (.bin .add (lit 2147483647) (lit 1)) = none := by decide +kernel
example : Spec.CInt.eval (.bin .shl (lit 1) (lit 40)) = none := by decide +kernel
example : Spec.CInt.eval (.bin .div (lit 1) (lit 0)) = none := by decide +kernel
example : Spec.CInt.eval (.bin .land (lit 0) (.bin .div (lit 1) (lit 0))) = some 0 := by decide +kernel
-- the model reports the undefined cases that would otherwise raise in Python as diagnostics
example : initializer .int (render (.bin .div (lit 1) (lit 0))) = .error .CompilerError := by decide +kernel
example : initializer .int (render (.bin .shl (lit 1) (neg (lit 1)))) = .error .CompilerError := by decide +kernel
end examples

/-! ### negation witnesses for the code BEFORE the fix commits (`Model.CEvalLegacy`)

Each pair shows that the corresponding full-strength theorem is false for the old code at a concrete
input (the same inputs are in the corpus of harness/c27.py and are replayed on the real code).  The old
typing of these trees equals the new one except where stated. -/

section legacy
private def lit' (v : Nat) : Expr := .lit .dec .none v
private def neg' (a : Expr) : Expr := .un .neg a
-- `int a = 7 % 3;` : KeyError ('%' missing from the operator table); C prescribes 1
example : Model.CEvalLegacy.initializer .int (render (.bin .mod (lit' 7) (lit' 3))) = .error .KeyError ∧
    Spec.CInt.initBytes .int (.bin .mod (lit' 7) (lit' 3)) = some [1, 0, 0, 0] := by decide +kernel
-- `int a = -7 / 2;` : floor division gives -4; C prescribes -3
example : Model.CEvalLegacy.initializer .int (render (.bin .div (neg' (lit' 7)) (lit' 2))) = .ok [0xfc, 0xff, 0xff, 0xff] ∧
    Spec.CInt.initBytes .int (.bin .div (neg' (lit' 7)) (lit' 2)) = some [0xfd, 0xff, 0xff, 0xff] := by decide +kernel
-- `unsigned char c = 300;` and `unsigned a = 0u - 1;` : struct.error; C prescribes 44 and 0xffffffff
example : Model.CEvalLegacy.initializer .uchar (render (lit' 300)) = .error .StructError ∧
    Spec.CInt.initBytes .uchar (lit' 300) = some [44] := by decide +kernel
example : Model.CEvalLegacy.initializer .uint (render (.bin .sub (.lit .dec .u 0) (lit' 1))) = .error .StructError ∧
    Spec.CInt.initBytes .uint (.bin .sub (.lit .dec .u 0) (lit' 1)) = some [0xff, 0xff, 0xff, 0xff] := by decide +kernel
-- comparison, `&&`, `!`, `?:` : KeyError / NotImplementedError
example : Model.CEvalLegacy.initializer .int (render (.bin .lt (lit' 1) (lit' 2))) = .error .KeyError := by decide +kernel
example : Model.CEvalLegacy.initializer .int (render (.bin .land (lit' 1) (lit' 2))) = .error .KeyError := by decide +kernel
example : Model.CEvalLegacy.initializer .int (render (.un .lnot (lit' 5))) = .error .NotImplementedError := by decide +kernel
example : Model.CEvalLegacy.initializer .int (render (.cond (lit' 1) (lit' 2) (lit' 3))) = .error .NotImplementedError := by decide +kernel
-- casts did not convert: `int a = (char)300;` gave 300; C prescribes 44
example : Model.CEvalLegacy.initializer .int (render (.cast .char (lit' 300))) = .ok [0x2c, 0x01, 0, 0] ∧
    Spec.CInt.initBytes .int (.cast .char (lit' 300)) = some [0x2c, 0, 0, 0] := by decide +kernel
-- old typing ≠ C typing (negations of `typing_agrees` for the old `elaborate`)
example : (Model.CEvalLegacy.elaborate (render (neg' (.cast .uchar (lit' 1))))).map TExpr.ty = .ok .uchar ∧
    Spec.CInt.typeOf (neg' (.cast .uchar (lit' 1))) = some .int := by decide +kernel
example : (Model.CEvalLegacy.elaborate (render (.bin .add (neg' (.lit .dec .ll 1)) (.lit .dec .ul 1)))).map TExpr.ty = .ok .llong ∧
    Spec.CInt.typeOf (.bin .add (neg' (.lit .dec .ll 1)) (.lit .dec .ul 1)) = some .ullong := by decide +kernel
example : (Model.CEvalLegacy.elaborate (render (.bin .shl (.lit .dec .u 1) (.lit .dec .l 1)))).map TExpr.ty = .ok .long ∧
    Spec.CInt.typeOf (.bin .shl (.lit .dec .u 1) (.lit .dec .l 1)) = some .uint := by decide +kernel
example : (Model.CEvalLegacy.elaborate (render (lit' 2147483648))).map TExpr.ty = .ok .uint ∧
    Spec.CInt.typeOf (lit' 2147483648) = some .long := by decide +kernel
example : (Model.CEvalLegacy.elaborate (render (.lit .dec .u 4294967296))).map TExpr.ty = .error .CompilerError ∧
    Spec.CInt.typeOf (.lit .dec .u 4294967296) = some .ulong := by decide +kernel
example : (Model.CEvalLegacy.elaborate (render (.chr 255))).map TExpr.ty = .ok .char ∧
    Spec.CInt.eval (.chr 255) = some (-1) := by decide +kernel
end legacy

end Props.C27
