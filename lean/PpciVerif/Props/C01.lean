import PpciVerif.Proofs.CLower
import PpciVerif.Gen.CTypes
/-!
# C01 — the C front-end preserves the meaning of defined-behaviour C programs
(partial claim: integer expressions and object layout)

Property theorems only.  Specifications: `Spec.CExpr` (= `Spec.CInt`, C11 on LP64 as gcc implements
the implementation-defined parts, extended by variables and `sizeof`; undefined behaviour = no value),
`Spec.IRExpr`/`Spec.IR` (value of the emitted IR instructions), `Spec.CLayout` (System V x86-64).
Models of the code: `Model.CType` (semantics.py: typing, inserted conversions), `Model.CLower`
(codegenerator.py: IR operator and IR type per node), `Model.CLayout` (context.py).
`Model.CBridge.toSrc` says how a specification tree is written in C and read back by ppci's parser.
Helper lemmas: `Proofs/CExpr.lean`, `Proofs/CLowerArith.lean`, `Proofs/CLower.lean`, `Proofs/CLayout.lean`.
-/
namespace Props.C01
open Model.CType (TExpr elaborate coerce)
open Model.CLower Model.CBridge Spec.IRExpr
open Spec.CInt (UnOp BinOp promote uac inRange)
open Spec.CExpr (Expr typeOf eval)
open Proofs.CLower (STy MTy)

/-! ### translation: the model's tables are those of the checked source tree -/

/-- ranks, signed / promotable type sets, "unsigned" variants, and — for x86_64 — sizes, alignments, the IR
    type of every integer type, `size_t_type` and the type given to `sizeof`, as dumped from the live objects
    (`Gen.CTypes` is regenerated on every run) -/
theorem tables_match_source :
    Gen.CTypes.basicRanks = Model.CType.Ty.all.map (fun τ => (τ.id, τ.rank)) ∧
    (∀ τ ∈ Model.CType.Ty.all, (τ.id ∈ Gen.CTypes.signedTypes) = (τ.isSigned = true)) ∧
    (∀ τ ∈ Model.CType.Ty.all, (τ.id ∈ Gen.CTypes.promotableTypes) = (τ.isPromotable = true)) ∧
    Gen.CTypes.integerTypes.length = Model.CType.Ty.all.length ∧
    (∀ τ ∈ Model.CType.Ty.all, τ.id ∈ Gen.CTypes.integerTypes) ∧
    Gen.CTypes.unsignedVariants =
      (Model.CType.Ty.all.filter Model.CType.Ty.isSigned).map (fun τ => (τ.id, τ.unsignedVariant.id)) ∧
    Gen.CTypes.archs.filter (fun r => r.name == "x86_64") =
      [⟨"x86_64", "ok",
        Model.CType.Ty.all.map (fun τ => ⟨τ.id, τ.size, τ.align, (irTy τ).name⟩) ++
          [⟨"float", 4, 4, "f32"⟩, ⟨"double", 8, 8, "f64"⟩],
        8, 8, Model.CType.sizeofType.id, Model.CType.sizeTType.id⟩] := by
  decide +kernel

/-- **The IR type of an integer C type has its width and its signedness, on every target** whose C front-end can
    be built (`CCodeGenerator.ir_type_map` against `CContext.type_size_map` and `BasicType.SIGNED_INTEGER_TYPES`). -/
theorem ir_types_consistent :
    ∀ r ∈ Gen.CTypes.archs, ∀ t ∈ r.types, t.tid ∈ Gen.CTypes.integerTypes →
      irInfo t.irTy = some (8 * t.size, decide (t.tid ∈ Gen.CTypes.signedTypes)) := by
  decide +kernel

/-- **`sizeof` has an unsigned type of the width of `size_t_type`, on every target** (6.5.3.4p5) -/
theorem sizeof_type_unsigned :
    ∀ r ∈ Gen.CTypes.archs, r.status = "ok" →
      r.sizeofTy ∈ Gen.CTypes.integerTypes ∧ r.sizeofTy ∉ Gen.CTypes.signedTypes ∧
      (r.types.filter (fun t => t.tid == r.sizeofTy)).map (·.size) = (r.types.filter (fun t => t.tid == r.sizeT)).map (·.size) := by
  decide +kernel

/-! ### typing -/

/-- **Typing of every operator on every pair of integer types** (finite: 18 operators × 10 × 10 `BasicType`s).
    The node `on_binop` builds for `a op b` is exactly: operands first converted to their promoted types
    (6.3.1.1p2), then — arithmetic, bitwise, comparison operators — to the common type of the usual arithmetic
    conversions (6.3.1.8), the result having that type (`int` for comparisons); for `<< >>` the result and the
    left operand have the promoted left type (6.5.7p3) and the count, after its own promotion, is converted to
    that type as well (value-preserving for every count C accepts: `Proofs.CLower.count_convert`); `&& ||`
    leave the operands alone and give `int`.  A conversion to the type an operand already has is no node. -/
theorem typing_binop_table :
    ∀ op ∈ BinOp.all', ∀ a ∈ Model.CType.Ty.all, ∀ b ∈ Model.CType.Ty.all,
      Model.CType.onBinop (binSym op) (.var a 0) (.var b 1) = expectedBin op a b := by
  decide +kernel

/-- the same for unary `- ~ + !` on every integer type -/
theorem typing_unop_table :
    ∀ op ∈ [UnOp.neg, .bnot, .plus, .lnot], ∀ a ∈ Model.CType.Ty.all,
      Model.CType.onUnop (unSym op) (.var a 0) = expectedUn op a := by
  decide +kernel

/-- and for `c ? a : b` (result and both branches: usual arithmetic conversions; the condition is tested as it is) -/
theorem typing_cond_table :
    ∀ c ∈ Model.CType.Ty.all, ∀ a ∈ Model.CType.Ty.all, ∀ b ∈ Model.CType.Ty.all,
      Model.CType.onTernop (.var c 2) (.var a 0) (.var b 1) =
        .tern (M (uac (S a) (S b))) (.var c 2) (conv2 (.var a 0) (M (promote (S a))) (M (uac (S a) (S b))))
          (conv2 (.var b 1) (M (promote (S b))) (M (uac (S a) (S b)))) := by
  decide +kernel

/-- **Typing of every expression**: whatever C types, ppci's semantics elaborates (it never rejects it) and
    gives it C's type — integer promotions, usual arithmetic conversions, types of integer and character
    constants, result types of shifts / comparisons / `?:`, for arbitrarily nested expressions over variables of
    the 11 integer types.  (`sizeof`: see `sizeof_type_partial`.) -/
theorem typing_agrees_partial (e : Expr) (σ : STy) (hn : Proofs.CLower.NoSizeof e) (h : typeOf e = some σ) :
    ∃ t, elaborate (toSrc e) = some t ∧ t.ty = M σ := by
  obtain ⟨t, ht⟩ := Proofs.CLower.sound_partial e σ hn h
  exact ⟨t, ht.elab_ok, ht.ty⟩

/-! ### values -/

/-- **The emitted IR computes C's value.**  For every expression C types, every assignment of values to its
    variables and every value `v` that C defines for it (no undefined behaviour on an evaluated path), the code
    `gen_expr` emits for the elaborated tree evaluates to `v` under the instruction semantics of `Spec.IR`
    (`Spec.IRExpr.ieval`), and the code `gen_condition` emits takes its `yes` exit exactly when `v ≠ 0`.
    Covers signed/unsigned comparison, truncating `/ %`, `<< >>` (arithmetic for signed), `& | ^ ~`, unary `-`,
    every cast between the 11 types, `&& || ! ?:` with their short-circuit evaluation. -/
theorem values_agree_partial (e : Expr) (σ : STy) (hn : Proofs.CLower.NoSizeof e) (h : typeOf e = some σ) :
    ∃ t, elaborate (toSrc e) = some t ∧ t.ty = M σ ∧
      ∀ (ρ : Nat → Int) (v : Int), eval ρ e = some v →
        ieval ρ (lower t) = some v ∧ ceval ρ (lowerCond t) = some (decide (v ≠ 0)) ∧ inRange σ v = true := by
  obtain ⟨t, ht⟩ := Proofs.CLower.sound_partial e σ hn h
  exact ⟨t, ht.elab_ok, ht.ty, fun ρ v hv => ⟨ht.value ρ v hv, ht.cond ρ v hv, ht.inRange h hv⟩⟩

/-- the specification used here is `Spec.CInt` (validated against gcc by C27) on closed expressions -/
theorem spec_extends_CInt (e : Spec.CInt.Expr) (ρ : Nat → Int) :
    typeOf (Spec.CExpr.ofConst e) = Spec.CInt.typeOf e ∧ eval ρ (Spec.CExpr.ofConst e) = Spec.CInt.eval e :=
  ⟨Proofs.CExpr.typeOf_ofConst e, Proofs.CExpr.eval_ofConst ρ e⟩

end Props.C01
