import PpciVerif.Proofs.CLower
import PpciVerif.Proofs.CLayout
import PpciVerif.Proofs.CAssign
import PpciVerif.Proofs.CSwitch
import PpciVerif.Gen.CTypes
/-!
# C01 — the C front-end preserves the meaning of defined-behaviour C programs
(partial claim: integer expressions and object layout)

Property theorems only.  Specifications: `Spec.CExpr` (= `Spec.CInt`, C11 on LP64 as gcc implements
the implementation-defined parts, extended by variables and `sizeof`; undefined behaviour = no value),
`Spec.IRExpr`/`Spec.IR` (value of the emitted IR instructions), `Spec.CLayout` (System V x86-64).
Models of the code: `Model.CType` (semantics.py: typing, inserted conversions), `Model.CLower`
(codegenerator.py: IR operator and IR type per node), `Model.CLayout` (context.py).
`Model.CBridge.toSrc` says how a specification tree is written in C and read back by ppci's parser.
Helper lemmas: `Proofs/CExpr.lean`, `Proofs/CLowerArith.lean`, `Proofs/CLower.lean`, `Proofs/CLayout.lean`.
-/
namespace Props.C01
open Model.CType (TExpr elaborate coerce)
open Model.CLower Model.CBridge Spec.IRExpr
open Spec.CInt (UnOp BinOp promote uac inRange)
open Spec.CExpr (Expr typeOf eval)
open Proofs.CLower (STy MTy)

/-! ### translation: the model's tables are those of the checked source tree -/

/-- ranks, signed / promotable type sets, "unsigned" variants, and — for x86_64 — sizes, alignments, the IR
    type of every integer type, `size_t_type` and the type given to `sizeof`, as dumped from the live objects
    (`Gen.CTypes` is regenerated on every run) -/
theorem tables_match_source :
    Gen.CTypes.basicRanks = Model.CType.Ty.all.map (fun τ => (τ.id, τ.rank)) ∧
    (∀ τ ∈ Model.CType.Ty.all, (τ.id ∈ Gen.CTypes.signedTypes) = (τ.isSigned = true)) ∧
    (∀ τ ∈ Model.CType.Ty.all, (τ.id ∈ Gen.CTypes.promotableTypes) = (τ.isPromotable = true)) ∧
    Gen.CTypes.integerTypes.length = Model.CType.Ty.all.length ∧
    (∀ τ ∈ Model.CType.Ty.all, τ.id ∈ Gen.CTypes.integerTypes) ∧
    Gen.CTypes.unsignedVariants =
      (Model.CType.Ty.all.filter Model.CType.Ty.isSigned).map (fun τ => (τ.id, τ.unsignedVariant.id)) ∧
    Gen.CTypes.archs.filter (fun r => r.name == "x86_64") =
      [⟨"x86_64", "ok",
        Model.CType.Ty.all.map (fun τ => ⟨τ.id, τ.size, τ.align, (irTy τ).name⟩) ++
          [⟨"float", 4, 4, "f32"⟩, ⟨"double", 8, 8, "f64"⟩],
        8, 8, Model.CType.sizeofType.id, Model.CType.sizeTType.id⟩] ∧
    (∀ p ∈ Model.CLayout.Prim.all, p ≠ .ptr →
      ∃ r ∈ Gen.CTypes.archs, r.name = "x86_64" ∧ ∃ t ∈ r.types, t.tid = p.id ∧ t.size = p.size ∧ t.align = p.align) ∧
    (∃ r ∈ Gen.CTypes.archs, r.name = "x86_64" ∧ r.ptrSize = Model.CLayout.Prim.ptr.size ∧
      r.ptrAlign = Model.CLayout.Prim.ptr.align) := by
  decide +kernel

/-- full statement: the IR type of an integer C type has its width and its signedness, on every target whose C
    front-end can be built (`CCodeGenerator.ir_type_map` against `CContext.type_size_map` and
    `BasicType.SIGNED_INTEGER_TYPES`).  NOT shown: false for `unsigned int` on msp430 (known finding
    `cirtype:msp430:unsigned int`: `uint_types = {2: ir.i16, …}` maps it to the SIGNED i16). -/
def ir_types_consistent_full : Prop :=
  ∀ r ∈ Gen.CTypes.archs, ∀ t ∈ r.types, t.tid ∈ Gen.CTypes.integerTypes →
    irInfo t.irTy = some (8 * t.size, decide (t.tid ∈ Gen.CTypes.signedTypes))

/-- the full statement for every (target, type) except the one of the open finding -/
theorem ir_types_consistent_partial :
    ∀ r ∈ Gen.CTypes.archs, ∀ t ∈ r.types, t.tid ∈ Gen.CTypes.integerTypes →
      ¬ (r.name = "msp430" ∧ t.tid = "unsigned int") →
      irInfo t.irTy = some (8 * t.size, decide (t.tid ∈ Gen.CTypes.signedTypes)) := by
  decide +kernel

/-- witness of the open finding: the dumped msp430 row says `unsigned int` ↦ `i16` -/
example : ∃ r ∈ Gen.CTypes.archs, r.name = "msp430" ∧ ∃ t ∈ r.types, t.tid = "unsigned int" ∧ t.irTy = "i16" ∧
    irInfo t.irTy ≠ some (8 * t.size, decide (t.tid ∈ Gen.CTypes.signedTypes)) := by
  decide +kernel
example : ¬ ir_types_consistent_full := by unfold ir_types_consistent_full; decide +kernel

/-- full statement: `sizeof` has an unsigned type of the width of `size_t_type` (6.5.3.4p5), on every target.
    NOT shown: false on EVERY target (known finding `ctype:sizeof:signed`: `on_sizeof` gives the expression
    `size_t_type`, which is `int` or `long`). -/
def sizeof_type_unsigned_full : Prop :=
  ∀ r ∈ Gen.CTypes.archs, r.status = "ok" →
    r.sizeofTy ∈ Gen.CTypes.integerTypes ∧ r.sizeofTy ∉ Gen.CTypes.signedTypes ∧
    (r.types.filter (fun t => t.tid == r.sizeofTy)).map (·.size) = (r.types.filter (fun t => t.tid == r.sizeT)).map (·.size)

/-- what does hold: `sizeof` has an integer type as wide as `size_t_type` on every target -/
theorem sizeof_type_width_partial :
    ∀ r ∈ Gen.CTypes.archs, r.status = "ok" →
      r.sizeofTy ∈ Gen.CTypes.integerTypes ∧
      (r.types.filter (fun t => t.tid == r.sizeofTy)).map (·.size) = (r.types.filter (fun t => t.tid == r.sizeT)).map (·.size) := by
  decide +kernel

/-- witnesses of the open finding: the type is signed on every buildable target; on x86_64 the model (tied to the dump
    by `tables_match_source`) types `sizeof` as `long` where C says `unsigned long`, and `(sizeof(int) - 5) > 0` —
    1 in C — is compiled to code that yields 0 -/
example : ∀ r ∈ Gen.CTypes.archs, r.status = "ok" → r.sizeofTy ∈ Gen.CTypes.signedTypes := by decide +kernel
example : (Model.CType.onSizeof 4).ty = .long ∧ typeOf (.szof 4) = some .ulong := by decide
example : eval (fun _ => 0) (.bin .gt (.bin .sub (.szof 4) (.lit .dec .none 5)) (.lit .dec .none 0)) = some 1 ∧
    (compile (toSrc (.bin .gt (.bin .sub (.szof 4) (.lit .dec .none 5)) (.lit .dec .none 0)))).map
      (ieval (fun _ => 0)) = some (some 0) := by decide +kernel

/-! ### typing -/

/-- **Typing of every operator on every pair of integer types** (finite: 18 operators × 10 × 10 `BasicType`s).
    The node `on_binop` builds for `a op b` is exactly: operands first converted to their promoted types
    (6.3.1.1p2), then — arithmetic, bitwise, comparison operators — to the common type of the usual arithmetic
    conversions (6.3.1.8), the result having that type (`int` for comparisons); for `<< >>` the result and the
    left operand have the promoted left type (6.5.7p3) and the count, after its own promotion, is converted to
    that type as well (value-preserving for every count C accepts: `Proofs.CLower.count_convert`); `&& ||`
    leave the operands alone and give `int`.  A conversion to the type an operand already has is no node. -/
theorem typing_binop_table :
    ∀ op ∈ BinOp.all', ∀ a ∈ Model.CType.Ty.all, ∀ b ∈ Model.CType.Ty.all,
      Model.CType.onBinop (binSym op) (.var a 0) (.var b 1) = expectedBin op a b := by
  decide +kernel

/-- the same for unary `- ~ + !` on every integer type -/
theorem typing_unop_table :
    ∀ op ∈ [UnOp.neg, .bnot, .plus, .lnot], ∀ a ∈ Model.CType.Ty.all,
      Model.CType.onUnop (unSym op) (.var a 0) = expectedUn op a := by
  decide +kernel

/-- and for `c ? a : b` (result and both branches: usual arithmetic conversions; the condition is tested as it is) -/
theorem typing_cond_table :
    ∀ c ∈ Model.CType.Ty.all, ∀ a ∈ Model.CType.Ty.all, ∀ b ∈ Model.CType.Ty.all,
      Model.CType.onTernop (.var c 2) (.var a 0) (.var b 1) =
        .tern (M (uac (S a) (S b))) (.var c 2) (conv2 (.var a 0) (M (promote (S a))) (M (uac (S a) (S b))))
          (conv2 (.var b 1) (M (promote (S b))) (M (uac (S a) (S b)))) := by
  decide +kernel

/-- **Typing of every expression**: whatever C types, ppci's semantics elaborates (it never rejects it) and
    gives it C's type — integer promotions, usual arithmetic conversions, types of integer and character
    constants, result types of shifts / comparisons / `?:`, for arbitrarily nested expressions over variables of
    the 11 integer types.  (`sizeof` is excluded: open finding, see `sizeof_type_unsigned_full`.) -/
theorem typing_agrees_partial (e : Expr) (σ : STy) (hn : Proofs.CLower.NoSizeof e) (h : typeOf e = some σ) :
    ∃ t, elaborate (toSrc e) = some t ∧ t.ty = M σ := by
  obtain ⟨t, ht⟩ := Proofs.CLower.sound_partial e σ hn h
  exact ⟨t, ht.elab_ok, ht.ty⟩

/-! ### values -/

/-- **The emitted IR computes C's value.**  For every expression C types, every assignment of values to its
    variables and every value `v` that C defines for it (no undefined behaviour on an evaluated path), the code
    `gen_expr` emits for the elaborated tree evaluates to `v` under the instruction semantics of `Spec.IR`
    (`Spec.IRExpr.ieval`), and the code `gen_condition` emits takes its `yes` exit exactly when `v ≠ 0`.
    Covers signed/unsigned comparison, truncating `/ %`, `<< >>` (arithmetic for signed), `& | ^ ~`, unary `-`,
    every cast between the 11 types, `&& || ! ?:` with their short-circuit evaluation. -/
theorem values_agree_partial (e : Expr) (σ : STy) (hn : Proofs.CLower.NoSizeof e) (h : typeOf e = some σ) :
    ∃ t, elaborate (toSrc e) = some t ∧ t.ty = M σ ∧
      ∀ (ρ : Nat → Int) (v : Int), eval ρ e = some v →
        ieval ρ (lower t) = some v ∧ ceval ρ (lowerCond t) = some (decide (v ≠ 0)) ∧ inRange σ v = true := by
  obtain ⟨t, ht⟩ := Proofs.CLower.sound_partial e σ hn h
  exact ⟨t, ht.elab_ok, ht.ty, fun ρ v hv => ⟨ht.value ρ v hv, ht.cond ρ v hv, ht.inRange h hv⟩⟩

/-- the specification used here is `Spec.CInt` (validated against gcc by C27) on closed expressions -/
theorem spec_extends_CInt (e : Spec.CInt.Expr) (ρ : Nat → Int) :
    typeOf (Spec.CExpr.ofConst e) = Spec.CInt.typeOf e ∧ eval ρ (Spec.CExpr.ofConst e) = Spec.CInt.eval e :=
  ⟨Proofs.CExpr.typeOf_ofConst e, Proofs.CExpr.eval_ofConst ρ e⟩


/-- full statements (every expression, `sizeof` included).  NOT shown — false: `sizeof` is typed `long` by ppci
    (open finding `ctype:sizeof:signed`); the `_partial` theorems above exclude exactly the expressions that contain a
    `sizeof` (slightly more than the failing region: e.g. `(int)sizeof(int)` is compiled correctly all the same). -/
def typing_agrees_full : Prop :=
  ∀ (e : Expr) (σ : STy), typeOf e = some σ → ∃ t, elaborate (toSrc e) = some t ∧ t.ty = M σ

def values_agree_full : Prop :=
  ∀ (e : Expr) (σ : STy), typeOf e = some σ → ∃ t, elaborate (toSrc e) = some t ∧ t.ty = M σ ∧
    ∀ (ρ : Nat → Int) (v : Int), eval ρ e = some v → ieval ρ (lower t) = some v

example : ¬ typing_agrees_full := by
  intro h
  obtain ⟨t, h1, h2⟩ := h (.szof 4) .ulong (by decide)
  simp only [toSrc, elaborate, Option.some.injEq] at h1
  subst h1
  revert h2; decide

/-! ### non-vacuity and the defects repaired by 21f7d05 -/

/-- the hypotheses of the value theorem are satisfiable by a non-trivial input:
    `(signed char)-1 < (unsigned char)1` is typed `int`, defined, and has the value 1 -/
example : Proofs.CLower.NoSizeof (.bin .lt (.var .schar 0) (.var .uchar 1)) ∧
    typeOf (.bin .lt (.var .schar 0) (.var .uchar 1)) = some .int ∧
    eval (fun i => if i = 0 then -1 else 1) (.bin .lt (.var .schar 0) (.var .uchar 1)) = some 1 := by
  refine ⟨⟨trivial, trivial⟩, by decide, by decide⟩

/-- before 21f7d05 the comparison operands were not promoted: the node differs from what C prescribes, and its code
    computes 0 for `(signed char)-1 < (unsigned char)1` (both operands converted to `unsigned char`) -/
example : Model.CType.Legacy.onBinop .lt (.var .char 0) (.var .uchar 1) ≠ expectedBin .lt .char .uchar ∧
    ieval (fun i => if i = 0 then -1 else 1) (lower (Model.CType.Legacy.onBinop .lt (.var .char 0) (.var .uchar 1))) = some 0 := by
  decide +kernel

/-- before 21f7d05 a shift had the common type of both operands: `(int)-8 >> (unsigned)1` was an unsigned shift -/
example : Model.CType.Legacy.onBinop .shr (.var .int 0) (.var .uint 1) ≠ expectedBin .shr .int .uint ∧
    ieval (fun i => if i = 0 then -8 else 1) (lower (Model.CType.Legacy.onBinop .shr (.var .int 0) (.var .uint 1))) = some 2147483644 ∧
    eval (fun i => if i = 0 then -8 else 1) (.bin .shr (.var .int 0) (.var .uint 1)) = some (-4) := by
  decide +kernel

/-- before 21f7d05 `long long` vs `unsigned long` took the higher rank: `(long long)-1 < (unsigned long)1` gave 1 -/
example : Model.CType.Legacy.onBinop .lt (.var .llong 0) (.var .ulong 1) ≠ expectedBin .lt .llong .ulong ∧
    ieval (fun i => if i = 0 then -1 else 1) (lower (Model.CType.Legacy.onBinop .lt (.var .llong 0) (.var .ulong 1))) = some 1 ∧
    eval (fun i => if i = 0 then -1 else 1) (.bin .lt (.var .llong 0) (.var .ulong 1)) = some 0 := by
  decide +kernel

/-- before 21f7d05 unary `-` and `~` kept the operand type: `-c` with `unsigned char c = 1` was an 8-bit negation
    (255 instead of -1; the x86-64 back-end has no such instruction: "NEGU8 not covered") -/
example : Model.CType.Legacy.onUnop .minus (.var .uchar 0) ≠ expectedUn .neg .uchar ∧
    ieval (fun _ => 1) (lower (Model.CType.Legacy.onUnop .minus (.var .uchar 0))) = some 255 ∧
    eval (fun _ => 1) (.un .neg (.var .uchar 0)) = some (-1) := by
  decide +kernel

/-- before 21f7d05 the condition of `?:` was truncated to `int`: `0x100000000L ? 1 : 2` gave 2 -/
example : ieval (fun _ => 4294967296)
      (lower (Model.CType.Legacy.onTernop (.var .long 0) (.num .int 1) (.num .int 2))) = some 2 ∧
    eval (fun _ => 4294967296) (.cond (.var .long 0) (.lit .dec .none 1) (.lit .dec .none 2)) = some 1 := by
  decide +kernel

/-! ### layout -/

/-- **Object layout = System V.**  For every struct / union / array type over the basic types and pointers (no
    bit-fields, no anonymous members), of any nesting: `CContext.sizeof`, `CContext.alignment` and every
    `CContext.offsetof` — computed by the bit-counting loop of `layout_struct` with `required_padding` — are the
    psABI values: members at the lowest offset aligned for them, alignment of the most strictly aligned member, and
    size rounded up to a multiple of the alignment (holds since `fix:` 755c1e7). -/
theorem layout_agrees (t : Model.CLayout.LTy) :
    Model.CLayout.sizeof t = Spec.CLayout.sizeOf (ltyS t) ∧
    Model.CLayout.alignment t = Spec.CLayout.alignOf (ltyS t) ∧
    Model.CLayout.offsets t = Spec.CLayout.offsetsOf (ltyS t) :=
  ⟨(Proofs.CLayout.ty_ok t).size, (Proofs.CLayout.ty_ok t).align, Proofs.CLayout.offsets_ok t⟩

/-- consequence: every size is a multiple of the alignment (array elements stay aligned) -/
theorem size_multiple_of_alignment (fs : Model.CLayout.Fields) :
    Model.CLayout.sizeof (.struct fs) % Model.CLayout.alignment (.struct fs) = 0 := by
  rw [(Proofs.CLayout.ty_ok (.struct fs)).size, (Proofs.CLayout.ty_ok (.struct fs)).align]
  simp only [ltyS, Spec.CLayout.sizeOf, Spec.CLayout.alignOf, Spec.CLayout.roundUp]
  exact Nat.mul_mod_left _ _

/-- non-trivial instance: `struct { char x; struct { int a; char b; } s; char y; }` is 16 bytes, aligned 4, members at 0, 4, 12 -/
example : Model.CLayout.sizeof (.struct (.cons (.prim .char) (.cons (.struct (.cons (.prim .int) (.cons (.prim .char) .nil)))
      (.cons (.prim .char) .nil)))) = 16 ∧
    Model.CLayout.offsets (.struct (.cons (.prim .char) (.cons (.struct (.cons (.prim .int) (.cons (.prim .char) .nil)))
      (.cons (.prim .char) .nil)))) = [0, 4, 12] := by decide

/-- before 755c1e7 the final padding went to the next byte only: `sizeof(struct { int a; char b; })` was 5 (System V: 8),
    `sizeof(union { char c[5]; int i; })` was 5 (System V: 8) -/
example : Model.CLayout.Legacy.structSize (.cons (.prim .int) (.cons (.prim .char) .nil)) = 5 ∧
    Spec.CLayout.sizeOf (.struct (.cons (.prim .int) (.cons (.prim .char) .nil))) = 8 ∧
    Model.CLayout.Legacy.unionSize (.cons (.arr (.prim .char) 5) (.cons (.prim .int) .nil)) = 5 ∧
    Spec.CLayout.sizeOf (.union (.cons (.arr (.prim .char) 5) (.cons (.prim .int) .nil))) = 8 := by decide

/-! ### assignments: every side effect of the designation is emitted once -/

/-- **Each call written in an assignment expression is emitted exactly once**, whatever the nesting of `= op= ++ --`,
    array index / `*` / `->` designations, calls and commas (`Model.CAssign.events` is the sequence of loads, stores and
    calls `gen_binop` / `gen_inplace_mutation` emit; it is compared verbatim with the real emitted function for every
    assignment operator on every lvalue form on every run).  In particular the designation of the left operand of a
    compound assignment is evaluated once: `a[ext(k)] *= 3` calls `ext` once. -/
theorem assignment_calls_once (f : Nat) (e : Model.CAssign.RExp) :
    (Model.CAssign.events e).count (Model.CAssign.Ev.call f) = Model.CAssign.callsIn f e :=
  Proofs.CAssign.calls_once f e

/-- **Each assignment, `++` and `--` written in the source stores exactly once** (so `a[i++] += k` increments `i` once) -/
theorem assignment_stores_once (e : Model.CAssign.RExp) :
    (Model.CAssign.events e).countP Model.CAssign.Ev.isStore = Model.CAssign.writesIn e :=
  Proofs.CAssign.stores_once e

/-- non-vacuity: `a[ext(k)] *= 3` — one call, one store, in the order  load k, call, load element, store element -/
example : Model.CAssign.events (.compound (.index (.bin (.call 0 (.lval (.var 0))) .const)) .const) =
    [.loadVar 0, .call 0, .loadMem, .storeMem] := by decide

/-- the variant that generates the left operand a second time to read the old value (the seeded change the statement
    search first missed) calls twice and increments twice: it violates both statements -/
example : (Model.CAssign.eventsTwice (.compound (.index (.bin (.call 0 (.lval (.var 0))) .const)) .const)).count (.call 0) = 2 ∧
    (Model.CAssign.eventsTwice (.compound (.index (.bin (.incdec (.var 3)) .const)) .const)).countP Model.CAssign.Ev.isStore = 3 := by
  decide

/-! ### switch: the label dictionary is saved and restored around nested switches -/

/-- **Every switch dispatches on exactly the case / default labels that lexically belong to it**, in source order,
    whatever the nesting of switches, blocks, `if`s and loops; and lowering any nested statement leaves the enclosing
    switch's dictionary unchanged except for the labels that statement itself contributes (a nested switch contributes
    none: `gen_switch` saves `switch_options` on entry and restores it on exit).  `Model.CSwitch.gen` is compared with
    the dispatch chains of the real emitted function for every generated program on every run. -/
theorem switch_labels_lexical (l : Model.CSwitch.Sts) (o : Model.CSwitch.Opts) :
    Model.CSwitch.genL l o = (o ++ Model.CSwitch.ownL l, Model.CSwitch.recsL l) :=
  Proofs.CSwitch.genL_eq l o

/-- in particular a nested switch does not touch the enclosing switch's labels -/
theorem nested_switch_restores (b : Model.CSwitch.Sts) (o : Model.CSwitch.Opts) :
    (Model.CSwitch.gen (.switch b) o).1 = o := by
  rw [Proofs.CSwitch.gen_eq]; simp [Model.CSwitch.own]

/-- non-vacuity and the seeded variant: `switch (a) { default: …; case 0: switch (b) { case 1: … } }` — the real bookkeeping
    gives the outer switch its default; a default block kept in a field that is reset on entry of the inner switch but not
    restored on exit loses it (and an inner default would leak to the outer switch) -/
example :
    (Model.CSwitch.genL (.cons (.switch (.cons .default (.cons (.case 0) (.cons (.switch (.cons (.case 1) .nil)) .nil)))) .nil) []).2
      = [⟨[0], true⟩, ⟨[1], false⟩] ∧
    (Model.CSwitch.genBadL (.cons (.switch (.cons .default (.cons (.case 0) (.cons (.switch (.cons (.case 1) .nil)) .nil)))) .nil)
      ⟨[], false⟩).2 = [⟨[0], false⟩, ⟨[1], false⟩] ∧
    (Model.CSwitch.genBadL (.cons (.switch (.cons (.case 0) (.cons (.switch (.cons (.case 1) (.cons .default .nil))) .nil))) .nil)
      ⟨[], false⟩).2 = [⟨[0], true⟩, ⟨[1], true⟩] := by decide

end Props.C01
