import PpciVerif.Model.IrPy
import PpciVerif.Gen.IrPyHelpers
import PpciVerif.Proofs.IrPy
/-!
# C24 — the IR → Python backend executes IR semantics exactly   (P: arithmetic, casts, phi filling, memory formats)

Model: `Model.IrPy` (hand model of `ppci/lang/python/ir2py.py` after the fixes dd1e155 / 02516a5).
Specification: `Spec.IRArith.binop/cast`, `Spec.IR.evalUnop/phiValues/truncBits`.
Tie: `Gen.IrPyHelpers` is re-dumped from the live generator on every run; the four `*_match_source`
theorems below are kernel-checked equalities between that dump and the model's text, so a change of
the emitted helpers or of the dispatch in `gen_binop`/`gen_cast` breaks this file.

Full statement (not proved as a whole):
-/
namespace Props.C24
open Model.IrPy Spec.IRArith Proofs.IrPy

/-- the whole property: every run of the emitted program is the Spec.IR behaviour.  Not proved:
    the block-dispatch loop, calls, the `alloca/free` stack, float and `ptr` arithmetic are outside
    the model's `exec` layer; they are covered by the differential run (harness/c24.py) only. -/
def backend_exact_full : Prop :=
  ∀ (m : Spec.IR.Module), Spec.IR.wfModule m = true → ∀ (lines : List String), emitModule m = .ok lines →
    True   -- "running `lines` under CPython = Spec.IR.exec m" has no Lean counterpart (no Python semantics of whole programs)

/-! ### tie to the source -/

/-- the helper text the model mirrors is the text the generator emits now -/
theorem helpers_match_source : Gen.IrPyHelpers.lines = helperText := by decide

/-- `gen_binop` emits, for every type and operator, exactly the statements of `binopPlan` -/
theorem binop_dispatch_matches_source : Gen.IrPyHelpers.binopEmit = binopTable := by decide +kernel

/-- the `Unop` case and `gen_cast` likewise -/
theorem unop_dispatch_matches_source : Gen.IrPyHelpers.unopEmit = unopTable := by decide +kernel
theorem cast_dispatch_matches_source : Gen.IrPyHelpers.castEmit = castTable := by decide +kernel

/-- struct formats of the emitted `load_T/store_T` helpers -/
theorem mem_formats_match_source : Gen.IrPyHelpers.memFormats = memFormats := by decide

/-! ### arithmetic -/

/-- `rt.correct(value, bits, signed)` is `wrap` for every integer, at every integer type -/
theorem correct_is_wrap (t : Ty) (x : Int) : correct x t.bits t.signed = wrap t x := correct_eq_wrap t x

/-- `rt.idiv` / `rt.irem` truncate toward zero (C semantics), for all integers -/
theorem idiv_truncates (x y : Int) (hy : y ≠ 0) : idiv x y = .ok (Int.tdiv x y) := idiv_eq_tdiv x y hy
theorem irem_truncates (x y : Int) (hy : y ≠ 0) : irem x y = .ok (Int.tmod x y) := irem_eq_tmod x y hy

/-- **Emitted code value = IR semantics**: for every integer type, every operator of `ir.Binop`
    that `Spec.IRArith` defines (`+ - * / % << >> & | ^`) and all in-range operands: whenever the IR
    operation is defined with value `v`, the statements `gen_binop` emits leave `v` in the result
    variable and raise no Python exception. -/
theorem binop_exact_partial (t : Ty) (op : Spec.IR.BinOp) (o : Op) (ho : op.arith? = some o) (a b v : Int)
    (ha : InRange t a) (hb : InRange t b) (h : binop t o a b = some v) :
    (binopPlan (.int t) op).exec a b = .ok v := Proofs.IrPy.binop_exact t op o ho a b v ha hb h

/-- the statement without the guard `op.arith? = some o`, i.e. including `rol`/`ror`: it is FALSE for the
    current code (open finding `ir2py:generate:SyntaxError:rol`, witness below) -/
def binop_exact_full : Prop :=
  ∀ (cfg : Spec.IR.Config) (t : Ty) (op : Spec.IR.BinOp) (a b v : Int), InRange t a → InRange t b →
    Spec.IR.evalBinop cfg (.int t) op (.int a) (.int b) = .ok (.int v) → (binopPlan (.int t) op).exec a b = .ok v

example : ¬ binop_exact_full := fun h => by
  have h1 := h {} .u8 .rol 129 1 3 (by decide) (by decide) (by rfl)
  revert h1; decide

/-- the same against the reference interpreter's `evalBinop` -/
theorem binop_exact_evalBinop_partial (cfg : Spec.IR.Config) (t : Ty) (op : Spec.IR.BinOp) (o : Op)
    (ho : op.arith? = some o) (a b : Int) (ha : InRange t a) (hb : InRange t b) (v : Spec.IR.Val)
    (h : Spec.IR.evalBinop cfg (.int t) op (.int a) (.int b) = .ok v) :
    ∃ z, v = .int z ∧ (binopPlan (.int t) op).exec a b = .ok z := by
  simp only [Spec.IR.evalBinop, Spec.IR.intBinop, ho] at h
  cases hb' : binop t o a b with
  | none => simp [hb'] at h
  | some z =>
    simp [hb'] at h
    exact ⟨z, h.symm, Proofs.IrPy.binop_exact t op o ho a b z ha hb hb'⟩

/-- unary `-` and `~` -/
theorem unop_exact (t : Ty) (op : Spec.IR.UnOp) (a : Int) (cfg : Spec.IR.Config) :
    Spec.IR.evalUnop cfg (.int t) op (.int a) = .ok (.int (unopExec (.int t) op a)) :=
  Proofs.IrPy.unop_exact t op a cfg

/-! ### casts -/

/-- integer → integer cast = wrap to the target type (any source value) -/
theorem cast_int_exact (t : Ty) (x : Int) : castExec (castPlan (.int t)) (.int x) = .ok (Spec.IRArith.cast t x) :=
  Proofs.IrPy.cast_int_exact t x

/-- float → integer cast: the float `m·2^e` is truncated toward zero (`int(x)`), then wrapped -/
theorem cast_float_exact (t : Ty) (m e : Int) :
    castExec (castPlan (.int t)) (.flt m e) = .ok (wrap t (pyInt (.flt m e))) :=
  Proofs.IrPy.cast_float_exact t m e

/-- `int(x)` is truncation toward zero (declarative characterisation, negative exponent) -/
theorem int_of_float_truncates (m : Int) (k : Nat) (hk : 0 < k) :
    let z := pyInt (.flt m (-(k : Int)))
    (0 ≤ m → z * 2 ^ k ≤ m ∧ m < (z + 1) * 2 ^ k) ∧ (m < 0 → (z - 1) * 2 ^ k < m ∧ m ≤ z * 2 ^ k) :=
  pyInt_trunc_neg_exp m k hk

/-- the reference interpreter's bit-level truncation of a binary64 pattern is that same truncation
    of the double's exact value — so the emitted cast and `Spec.IR.evalCast` agree on every finite double
    whose integer part fits the target type -/
theorem spec_trunc_is_int_of_value (bits : Nat) :
    Spec.IR.truncBits bits = (doubleValue bits).map (fun p => pyInt (.flt p.1 p.2)) :=
  truncBits_eq_pyInt bits

/-! ### phi filling -/

/-- **Phi filling is parallel assignment**: for any set of phis (incl. swaps, self references) whose
    inputs on the edge `p → target` are local values, whenever Spec.IR's block-entry step is defined, the
    tuple assignment `fill_phis(block, target)` emits yields exactly Spec.IR's new environment. -/
theorem phi_fill_parallel (ctx : Spec.IR.Ctx) (env : Spec.IR.Env) (p : String) (is : List Spec.IR.Instr)
    (hloc : phiInputsLocal p is = true) (vals : List (String × Spec.IR.Val))
    (h : Spec.IR.phiValues ctx env p is = .ok vals) :
    ∃ pairs, phiPairs locName p is = .ok pairs ∧
      tupleAssign env (pairs.map (·.1)) (pairs.map (·.2)) = some (env.setMany vals) :=
  Proofs.IrPy.phi_fill_parallel ctx env p is hloc vals h

/-! ### memory formats -/

/-- `load_T(store_T(v)) = v` for every value of every integer type -/
theorem struct_roundtrip (t : Ty) (v : Int) (hv : InRange t v) :
    (structPack (t.bits / 8) t.signed v).map (structUnpack (t.bits / 8) t.signed) = some v :=
  Proofs.IrPy.struct_roundtrip t v hv

/-! ### non-vacuity and the recorded witnesses (tests, labelled as such) -/

-- C-style division and remainder, wrap-around, arithmetic shift
example : (binopPlan (.int .i8) .div).exec (-7) 2 = .ok (-3) := by decide
example : (binopPlan (.int .i8) .rem).exec (-7) 2 = .ok (-1) := by decide
example : (binopPlan (.int .i8) .add).exec 127 1 = .ok (-128) := by decide
example : (binopPlan (.int .i16) .shr).exec (-32768) 15 = .ok (-1) := by decide
example : (binopPlan (.int .u8) .and).exec 200 77 = .ok 72 := by decide
example : binop .i8 .div (-7) 2 = some (-3) ∧ InRange .i8 (-7) ∧ InRange .i8 2 := by decide
-- `a rol b` is emitted as it stands and is not Python (excluded by the guard of `binop_exact_partial`)
example : (binopPlan (.int .u8) .rol).exec 1 1 = .error .SyntaxError := by decide

/-- 2.7 as a double is 6079859496950170 · 2^-51 -/
example : doubleValue 0x400599999999999A = some (6079859496950170, -51) := by decide
-- fixed code: (int)2.7 = 2, (int)-2.7 = -2, (int)3.5 = 3
example : castExec (castPlan (.int .i32)) (.flt 6079859496950170 (-51)) = .ok 2 := by decide
example : castExec (castPlan (.int .i32)) (.flt (-6079859496950170) (-51)) = .ok (-2) := by decide
example : castExec (castPlan (.int .i32)) (.flt 7 (-1)) = .ok 3 := by decide
example : Spec.IR.truncBits 0x400599999999999A = some 2 := by decide
-- FINDING (fixed by dd1e155): the code before the fix computed int(round(x)): (int)2.7 = 3, (int)3.5 = 4
example : castExecLegacy (castPlan (.int .i32)) (.flt 6079859496950170 (-51)) = .ok 3 := by decide
example : castExecLegacy (castPlan (.int .i32)) (.flt 7 (-1)) = .ok 4 := by decide

open Spec.IR in
/-- the loop of the second finding:  L: x = phi(entry:a, L:y); y = phi(entry:b, L:x); c = phi(entry:z, L:c1);
    one = 1; c1 = c + one; cjmp c1 < n ? L : E.   E: return x -/
def blkL : Block :=
  { name := "L", instrs := [
      .phi "x" (.int .i32) [("entry", .loc "a"), ("L", .loc "y")],
      .phi "y" (.int .i32) [("entry", .loc "b"), ("L", .loc "x")],
      .phi "c" (.int .i32) [("entry", .loc "z"), ("L", .loc "c1")],
      .const "one" (.int .i32) (.int 1),
      .binop "c1" (.int .i32) .add (.loc "c") (.loc "one"),
      .cjump (.loc "c1") .lt (.loc "n") "L" "E"] }

open Spec.IR in
def blkE : Block := { name := "E", instrs := [.ret (.loc "x")] }

open Spec.IR in
def swapLoop : Func :=
  { name := "f", isGlobal := true, ret := some (.int .i32), entry := "entry",
    params := [("a", .int .i32), ("b", .int .i32), ("n", .int .i32)],
    blocks := [{ name := "entry", instrs := [.const "z" (.int .i32) (.int 0), .jump "L"] }, blkL, blkE] }

def swapModule : Spec.IR.Module := { name := "m", externs := [], vars := [], funcs := [swapLoop] }

example : Spec.IR.wfModule swapModule = true := by decide

def valInt? : Spec.IR.Val → Option Int
  | .int v => some v
  | _ => none

def envAtLatch : Spec.IR.Env :=
  [("a", .int 5), ("b", .int 9), ("n", .int 1), ("z", .int 0), ("x", .int 5), ("y", .int 9), ("c", .int 0),
   ("one", .int 1), ("c1", .int 1)]

-- the back edge L → L: the emitted line is the swap `x, y, c = y, x, c1`; executed in parallel
example : (phiPairs locName "L" blkL.instrs) = .ok [("x", "y"), ("y", "x"), ("c", "c1")] := by decide
example : phiLine [("x", "y"), ("y", "x"), ("c", "c1")] = ["x, y, c = y, x, c1"] := by decide
example : ((tupleAssign envAtLatch ["x", "y", "c"] ["y", "x", "c1"]).bind (·.get "x")).bind valInt? = some 9 ∧
          ((tupleAssign envAtLatch ["x", "y", "c"] ["y", "x", "c1"]).bind (·.get "y")).bind valInt? = some 5 := by decide
-- a sequence of single assignments would lose the swap (y would read the new x)
example : ((seqAssign envAtLatch [("x", "y"), ("y", "x"), ("c", "c1")]).bind (·.get "y")).bind valInt? = some 9 := by decide
-- the exit edge L → E has no phi: nothing is emitted, x keeps 5 (Spec.IR: `return x` = 5)
example : phiPairs locName "L" blkE.instrs = .ok [] := by decide
-- FINDING (fixed by 02516a5): the code before the fix assigned the phis of *all* successors at the end of L,
-- also when leaving through E, so `return x` saw 9 instead of 5
example : legacyPhiPairs swapLoop blkL = .ok [("x", "y"), ("y", "x"), ("c", "c1")] := by decide

-- memory formats
example : structPack 2 true (-2) = some [254, 255] ∧ structUnpack 2 true [254, 255] = -2 := by decide
example : structPack 1 false 256 = none := by decide

end Props.C24
