import PpciVerif.Model.WasmRt
import PpciVerif.Spec.WasmInt
import PpciVerif.Proofs.WasmInt
/-!
# C22 — WebAssembly execution follows the specification: PARTIAL (integer runtime helpers)

What is proved: every *integer* helper of `ppci/wasm/execution/runtime.py`
(`i32/i64_rotl`, `rotr`, `clz`, `ctz`, `popcnt`, `i32_extend8_s/16_s`,
`i64_extend8_s/16_s/32_s`; model `Model.WasmRt`, a composition of the C39 model
`Model.Bitfun`) returns, for **every** host integer argument, the value of the
corresponding operator of the WebAssembly specification (`Spec.WasmInt`, on
`BitVec 32/64` with Lean core's bit-vector library as reference) applied to the
`iN` values the arguments denote, read back as a signed integer (rotations,
extensions) or as a count.

What is NOT proved (and not claimed): see `execution_conforms_full`.
-/
namespace Props.C22
open Spec.Bits Spec.WasmInt Model.WasmRt Model.Bitfun Proofs.Bits Proofs.Bitfun Proofs.WasmInt

/-- The full statement of C22, kept visible.  `ref` is a reference engine, `py`/`native`
    ppci's two execution targets, all as functions from (module, export, arguments) to the
    observable outcome (results, memory, globals, trap).  NOT proved: it needs a semantics of
    wasm modules, of the wasm→IR translation, of IR, of the Python and native back-ends, of
    floats, traps and memory; no reference engine exists in the sandbox.  Only the integer
    runtime helpers below are covered. -/
def execution_conforms_full (Module Outcome : Type) (valid : Module → Prop)
    (ref py native : Module → String → List Int → Outcome) : Prop :=
  ∀ m, valid m → ∀ (f : String) (args : List Int), py m f args = ref m f args ∧ native m f args = ref m f args

theorem bmod_eq_wrapS {n : Nat} (hn : 1 ≤ n) (x : Int) : x.bmod (2 ^ n) = wrapS n x := by
  rw [Int.bmod_def]
  unfold wrapS
  have h2 := pow_pred n hn
  have hp := pow_pos (n - 1)
  rw [natCast_pow]
  have : ((2 : Int) ^ n + 1) / 2 = 2 ^ (n - 1) := by omega
  rw [this]

/-! ### rotations -/

theorem rotlN_eq {bits : Nat} (hb : 1 ≤ bits) (v cnt : Int) :
    rotlN bits v cnt = .ok (wrapS bits (Spec.Bits.rotl bits v cnt : Int)) := by
  unfold rotlN
  rw [toUnsigned_eq, rotl_eq hb (fitsU_wrapU bits v) cnt, rotl_wrapU hb]
  simp only [Except.map]
  rw [toSigned_eq hb]

theorem rotrN_eq {bits : Nat} (hb : 1 ≤ bits) (v cnt : Int) :
    rotrN bits v cnt = .ok (wrapS bits (Spec.Bits.rotr bits v cnt : Int)) := by
  unfold rotrN
  rw [toUnsigned_eq, rotr_eq hb (fitsU_wrapU bits v) cnt, rotr_wrapU hb]
  simp only [Except.map]
  rw [toSigned_eq hb]

/-- `i32_rotl(v, cnt)` = signed reading of `irotl_32` of the denoted values, for all integers -/
theorem i32_rotl_partial (v cnt : Int) :
    i32_rotl v cnt = .ok (irotl (ofSigned 32 v) (ofSigned 32 cnt)).toInt := by
  rw [toInt_eq_wrapS (by decide), ofSigned, ofSigned, toNat_irotl32]
  exact rotlN_eq (by decide) v cnt

theorem i64_rotl_partial (v cnt : Int) :
    i64_rotl v cnt = .ok (irotl (ofSigned 64 v) (ofSigned 64 cnt)).toInt := by
  rw [toInt_eq_wrapS (by decide), ofSigned, ofSigned, toNat_irotl64]
  exact rotlN_eq (by decide) v cnt

theorem i32_rotr_partial (v cnt : Int) :
    i32_rotr v cnt = .ok (irotr (ofSigned 32 v) (ofSigned 32 cnt)).toInt := by
  rw [toInt_eq_wrapS (by decide), ofSigned, ofSigned, toNat_irotr32]
  exact rotrN_eq (by decide) v cnt

theorem i64_rotr_partial (v cnt : Int) :
    i64_rotr v cnt = .ok (irotr (ofSigned 64 v) (ofSigned 64 cnt)).toInt := by
  rw [toInt_eq_wrapS (by decide), ofSigned, ofSigned, toNat_irotr64]
  exact rotrN_eq (by decide) v cnt

/-! ### clz / ctz / popcnt (results are counts `0 … N`) -/

theorem clzN_eq {bits : Nat} (hb : 1 ≤ bits) (v : Int) :
    Model.Bitfun.clz v bits = .ok (iclz (ofSigned bits v)).toNat := by
  unfold iclz ofSigned
  rw [toNat_clz hb, toNat_ofInt, clz_wrapU, clz_eq hb]

theorem ctzN_eq {bits : Nat} (hb : 1 ≤ bits) (v : Int) :
    Model.Bitfun.ctz v bits = (ictz (ofSigned bits v)).toNat := by
  unfold ictz ofSigned
  rw [toNat_ctz hb, toNat_ofInt, ctz_wrapU, ctz_eq]

theorem popcntN_eq (bits : Nat) (v : Int) :
    Model.Bitfun.popcnt v bits = (ipopcnt (ofSigned bits v)).toNat := by
  unfold ipopcnt ofSigned
  rw [toNat_cpop, toNat_ofInt, popcount_wrapU, popcnt_eq]

theorem i32_clz_partial (v : Int) : i32_clz v = .ok (iclz (ofSigned 32 v)).toNat := clzN_eq (by decide) v
theorem i64_clz_partial (v : Int) : i64_clz v = .ok (iclz (ofSigned 64 v)).toNat := clzN_eq (by decide) v
theorem i32_ctz_partial (v : Int) : i32_ctz v = (ictz (ofSigned 32 v)).toNat := ctzN_eq (by decide) v
theorem i64_ctz_partial (v : Int) : i64_ctz v = (ictz (ofSigned 64 v)).toNat := ctzN_eq (by decide) v
theorem i32_popcnt_partial (v : Int) : i32_popcnt v = (ipopcnt (ofSigned 32 v)).toNat := popcntN_eq 32 v
theorem i64_popcnt_partial (v : Int) : i64_popcnt v = (ipopcnt (ofSigned 64 v)).toNat := popcntN_eq 64 v

/-! ### sign extension operators -/

theorem extendN_eq {m n : Nat} (hm : 1 ≤ m) (hmn : m ≤ n) (x : Int) :
    signExtend x m = .ok (iextend_s m (ofSigned n x)).toInt := by
  unfold iextend_s ofSigned
  rw [BitVec.toInt_signExtend, BitVec.toInt_setWidth, toNat_ofInt, Nat.min_eq_right hmn,
    bmod_eq_wrapS hm, bmod_eq_wrapS hm, wrapS_idem,
    wrapS_eq_of_wrapU_eq (wrapU_wrapU_of_le hmn x), signExtend_eq hm]

theorem i32_extend8_s_partial (x : Int) : i32_extend8_s x = .ok (iextend_s 8 (ofSigned 32 x)).toInt :=
  extendN_eq (by decide) (by decide) x
theorem i32_extend16_s_partial (x : Int) : i32_extend16_s x = .ok (iextend_s 16 (ofSigned 32 x)).toInt :=
  extendN_eq (by decide) (by decide) x
theorem i64_extend8_s_partial (x : Int) : i64_extend8_s x = .ok (iextend_s 8 (ofSigned 64 x)).toInt :=
  extendN_eq (by decide) (by decide) x
theorem i64_extend16_s_partial (x : Int) : i64_extend16_s x = .ok (iextend_s 16 (ofSigned 64 x)).toInt :=
  extendN_eq (by decide) (by decide) x
theorem i64_extend32_s_partial (x : Int) : i64_extend32_s x = .ok (iextend_s 32 (ofSigned 64 x)).toInt :=
  extendN_eq (by decide) (by decide) x

/-- results of the rotation / extension helpers are valid signed `iN` host values -/
theorem results_in_range_partial (v cnt : Int) :
    (∀ r, i32_rotl v cnt = .ok r → fitsS 32 r) ∧ (∀ r, i64_rotr v cnt = .ok r → fitsS 64 r) ∧
    (∀ r, i64_extend32_s v = .ok r → fitsS 32 r) := by
  refine ⟨fun r h => ?_, fun r h => ?_, fun r h => ?_⟩
  · have := rotlN_eq (bits := 32) (by decide) v cnt
    rw [show i32_rotl v cnt = rotlN 32 v cnt from rfl, this] at h
    injection h with h; rw [← h]; exact fitsS_wrapS (by decide) _
  · have := rotrN_eq (bits := 64) (by decide) v cnt
    rw [show i64_rotr v cnt = rotrN 64 v cnt from rfl, this] at h
    injection h with h; rw [← h]; exact fitsS_wrapS (by decide) _
  · rw [show i64_extend32_s v = signExtend v 32 from rfl, signExtend_eq (by decide)] at h
    injection h with h; rw [← h]; exact fitsS_wrapS (by decide) _

/-! ### concrete instances (non-vacuity; labelled tests) -/
example : i32_rotl (-2147483648) 1 = .ok 1 ∧ (irotl (ofSigned 32 (-2147483648)) (ofSigned 32 1)).toInt = 1 := by decide
example : i32_rotr 1 (-31) = .ok (-2147483648) := by decide
example : i64_clz (-1) = .ok 0 ∧ i32_clz 0 = .ok 32 ∧ i64_ctz 0 = 64 ∧ i32_popcnt (-1) = 32 := by decide
example : i32_extend8_s 0x1280 = .ok (-128) ∧ (iextend_s 8 (ofSigned 32 0x1280)).toInt = -128 := by decide

end Props.C22
