import PpciVerif.Model.WasmRt
import PpciVerif.Spec.WasmInt
import PpciVerif.Proofs.WasmInt
import PpciVerif.Spec.Wasm
import PpciVerif.Proofs.Wasm
/-!
# C22 — WebAssembly execution follows the specification: PARTIAL
(integer runtime helpers + meta-properties of the reference interpreter)

What is proved: every *integer* helper of `ppci/wasm/execution/runtime.py`
(`i32/i64_rotl`, `rotr`, `clz`, `ctz`, `popcnt`, `i32_extend8_s/16_s`,
`i64_extend8_s/16_s/32_s`; model `Model.WasmRt`, a composition of the C39 model
`Model.Bitfun`) returns, for **every** host integer argument, the value of the
corresponding operator of the WebAssembly specification (`Spec.WasmInt`, on
`BitVec 32/64` with Lean core's bit-vector library as reference) applied to the
`iN` values the arguments denote, read back as a signed integer (rotations,
extensions) or as a count.

Second part (section "reference interpreter"): facts about `Spec.Wasm`, the executable reading
of the specification against which whole modules are compared on every run — the outcome of a
terminating execution does not depend on the fuel, `i32.eqz` of an integer comparison is the
opposite comparison (the law a translator may use), the same law is FALSE for the ordered float
comparisons as soon as an operand is NaN (proved for all operands, with concrete witnesses),
trapping rules of the division operators, count masking of the shifts.

What is NOT proved (and not claimed): see `execution_conforms_full`.  Conformance of ppci's two
execution targets on whole modules is established only by the sampled correspondence of
harness/c22.py (operator matrix, patterns, random programs against `Spec.Wasm`).
-/
namespace Props.C22
open Spec.Bits Spec.WasmInt Model.WasmRt Model.Bitfun Proofs.Bits Proofs.Bitfun Proofs.WasmInt

/-- The full statement of C22, kept visible.  `ref` is a reference engine, `py`/`native`
    ppci's two execution targets, all as functions from (module, export, arguments) to the
    observable outcome (results, memory, globals, trap).  NOT proved: it needs a semantics of
    wasm modules, of the wasm→IR translation, of IR, of the Python and native back-ends, of
    floats, traps and memory; no reference engine exists in the sandbox.  Only the integer
    runtime helpers below are covered. -/
def execution_conforms_full (Module Outcome : Type) (valid : Module → Prop)
    (ref py native : Module → String → List Int → Outcome) : Prop :=
  ∀ m, valid m → ∀ (f : String) (args : List Int), py m f args = ref m f args ∧ native m f args = ref m f args

theorem bmod_eq_wrapS {n : Nat} (hn : 1 ≤ n) (x : Int) : x.bmod (2 ^ n) = wrapS n x := by
  rw [Int.bmod_def]
  unfold wrapS
  have h2 := pow_pred n hn
  have hp := pow_pos (n - 1)
  rw [natCast_pow]
  have : ((2 : Int) ^ n + 1) / 2 = 2 ^ (n - 1) := by omega
  rw [this]

/-! ### rotations -/

theorem rotlN_eq {bits : Nat} (hb : 1 ≤ bits) (v cnt : Int) :
    rotlN bits v cnt = .ok (wrapS bits (Spec.Bits.rotl bits v cnt : Int)) := by
  unfold rotlN
  rw [toUnsigned_eq, rotl_eq hb (fitsU_wrapU bits v) cnt, rotl_wrapU hb]
  simp only [Except.map]
  rw [toSigned_eq hb]

theorem rotrN_eq {bits : Nat} (hb : 1 ≤ bits) (v cnt : Int) :
    rotrN bits v cnt = .ok (wrapS bits (Spec.Bits.rotr bits v cnt : Int)) := by
  unfold rotrN
  rw [toUnsigned_eq, rotr_eq hb (fitsU_wrapU bits v) cnt, rotr_wrapU hb]
  simp only [Except.map]
  rw [toSigned_eq hb]

/-- `i32_rotl(v, cnt)` = signed reading of `irotl_32` of the denoted values, for all integers -/
theorem i32_rotl_partial (v cnt : Int) :
    i32_rotl v cnt = .ok (irotl (ofSigned 32 v) (ofSigned 32 cnt)).toInt := by
  rw [toInt_eq_wrapS (by decide), ofSigned, ofSigned, toNat_irotl32]
  exact rotlN_eq (by decide) v cnt

theorem i64_rotl_partial (v cnt : Int) :
    i64_rotl v cnt = .ok (irotl (ofSigned 64 v) (ofSigned 64 cnt)).toInt := by
  rw [toInt_eq_wrapS (by decide), ofSigned, ofSigned, toNat_irotl64]
  exact rotlN_eq (by decide) v cnt

theorem i32_rotr_partial (v cnt : Int) :
    i32_rotr v cnt = .ok (irotr (ofSigned 32 v) (ofSigned 32 cnt)).toInt := by
  rw [toInt_eq_wrapS (by decide), ofSigned, ofSigned, toNat_irotr32]
  exact rotrN_eq (by decide) v cnt

theorem i64_rotr_partial (v cnt : Int) :
    i64_rotr v cnt = .ok (irotr (ofSigned 64 v) (ofSigned 64 cnt)).toInt := by
  rw [toInt_eq_wrapS (by decide), ofSigned, ofSigned, toNat_irotr64]
  exact rotrN_eq (by decide) v cnt

/-! ### clz / ctz / popcnt (results are counts `0 … N`) -/

theorem clzN_eq {bits : Nat} (hb : 1 ≤ bits) (v : Int) :
    Model.Bitfun.clz v bits = .ok (iclz (ofSigned bits v)).toNat := by
  unfold iclz ofSigned
  rw [toNat_clz hb, toNat_ofInt, clz_wrapU, clz_eq hb]

theorem ctzN_eq {bits : Nat} (hb : 1 ≤ bits) (v : Int) :
    Model.Bitfun.ctz v bits = (ictz (ofSigned bits v)).toNat := by
  unfold ictz ofSigned
  rw [toNat_ctz hb, toNat_ofInt, ctz_wrapU, ctz_eq]

theorem popcntN_eq (bits : Nat) (v : Int) :
    Model.Bitfun.popcnt v bits = (ipopcnt (ofSigned bits v)).toNat := by
  unfold ipopcnt ofSigned
  rw [toNat_cpop, toNat_ofInt, popcount_wrapU, popcnt_eq]

theorem i32_clz_partial (v : Int) : i32_clz v = .ok (iclz (ofSigned 32 v)).toNat := clzN_eq (by decide) v
theorem i64_clz_partial (v : Int) : i64_clz v = .ok (iclz (ofSigned 64 v)).toNat := clzN_eq (by decide) v
theorem i32_ctz_partial (v : Int) : i32_ctz v = (ictz (ofSigned 32 v)).toNat := ctzN_eq (by decide) v
theorem i64_ctz_partial (v : Int) : i64_ctz v = (ictz (ofSigned 64 v)).toNat := ctzN_eq (by decide) v
theorem i32_popcnt_partial (v : Int) : i32_popcnt v = (ipopcnt (ofSigned 32 v)).toNat := popcntN_eq 32 v
theorem i64_popcnt_partial (v : Int) : i64_popcnt v = (ipopcnt (ofSigned 64 v)).toNat := popcntN_eq 64 v

/-! ### sign extension operators -/

theorem extendN_eq {m n : Nat} (hm : 1 ≤ m) (hmn : m ≤ n) (x : Int) :
    signExtend x m = .ok (iextend_s m (ofSigned n x)).toInt := by
  unfold iextend_s ofSigned
  rw [BitVec.toInt_signExtend, BitVec.toInt_setWidth, toNat_ofInt, Nat.min_eq_right hmn,
    bmod_eq_wrapS hm, bmod_eq_wrapS hm, wrapS_idem,
    wrapS_eq_of_wrapU_eq (wrapU_wrapU_of_le hmn x), signExtend_eq hm]

theorem i32_extend8_s_partial (x : Int) : i32_extend8_s x = .ok (iextend_s 8 (ofSigned 32 x)).toInt :=
  extendN_eq (by decide) (by decide) x
theorem i32_extend16_s_partial (x : Int) : i32_extend16_s x = .ok (iextend_s 16 (ofSigned 32 x)).toInt :=
  extendN_eq (by decide) (by decide) x
theorem i64_extend8_s_partial (x : Int) : i64_extend8_s x = .ok (iextend_s 8 (ofSigned 64 x)).toInt :=
  extendN_eq (by decide) (by decide) x
theorem i64_extend16_s_partial (x : Int) : i64_extend16_s x = .ok (iextend_s 16 (ofSigned 64 x)).toInt :=
  extendN_eq (by decide) (by decide) x
theorem i64_extend32_s_partial (x : Int) : i64_extend32_s x = .ok (iextend_s 32 (ofSigned 64 x)).toInt :=
  extendN_eq (by decide) (by decide) x

/-- results of the rotation / extension helpers are valid signed `iN` host values -/
theorem results_in_range_partial (v cnt : Int) :
    (∀ r, i32_rotl v cnt = .ok r → fitsS 32 r) ∧ (∀ r, i64_rotr v cnt = .ok r → fitsS 64 r) ∧
    (∀ r, i64_extend32_s v = .ok r → fitsS 32 r) := by
  refine ⟨fun r h => ?_, fun r h => ?_, fun r h => ?_⟩
  · have := rotlN_eq (bits := 32) (by decide) v cnt
    rw [show i32_rotl v cnt = rotlN 32 v cnt from rfl, this] at h
    injection h with h; rw [← h]; exact fitsS_wrapS (by decide) _
  · have := rotrN_eq (bits := 64) (by decide) v cnt
    rw [show i64_rotr v cnt = rotrN 64 v cnt from rfl, this] at h
    injection h with h; rw [← h]; exact fitsS_wrapS (by decide) _
  · rw [show i64_extend32_s v = signExtend v 32 from rfl, signExtend_eq (by decide)] at h
    injection h with h; rw [← h]; exact fitsS_wrapS (by decide) _

/-! ### concrete instances (non-vacuity; labelled tests) -/
example : i32_rotl (-2147483648) 1 = .ok 1 ∧ (irotl (ofSigned 32 (-2147483648)) (ofSigned 32 1)).toInt = 1 := by decide
example : i32_rotr 1 (-31) = .ok (-2147483648) := by decide
example : i64_clz (-1) = .ok 0 ∧ i32_clz 0 = .ok 32 ∧ i64_ctz 0 = 64 ∧ i32_popcnt (-1) = 32 := by decide
example : i32_extend8_s 0x1280 = .ok (-128) ∧ (iextend_s 8 (ofSigned 32 0x1280)).toInt = -128 := by decide

/-! ## reference interpreter `Spec.Wasm`: meta-properties and operator laws -/

section Interp
open Spec.Wasm Proofs.Wasm

/-- more fuel never changes a terminated outcome -/
theorem interp_fuel_monotone (m : Module) (n k : Nat) (c : Config) (r : Outcome)
    (h : run m n c = r) (hr : r ≠ .outOfFuel) : run m (n + k) c = r := run_mono m n k c r h hr

/-- two terminating runs of the same configuration agree, whatever their fuel (determinism of the big-step outcome) -/
theorem interp_outcome_unique (m : Module) (n k : Nat) (c : Config) (r₁ r₂ : Outcome)
    (h₁ : run m n c = r₁) (h₂ : run m k c = r₂) (hr₁ : r₁ ≠ .outOfFuel) (hr₂ : r₂ ≠ .outOfFuel) : r₁ = r₂ :=
  run_fuel_irrelevant m n k c r₁ r₂ h₁ h₂ hr₁ hr₂

/-- the same for the invocation of an exported function -/
theorem invoke_fuel_monotone (m : Module) (s : Store) (fi : Nat) (args : List Value) (n k : Nat) (r : Outcome)
    (h : invoke m s fi args n = r) (hr : r ≠ .outOfFuel) : invoke m s fi args (n + k) = r :=
  invoke_mono m s fi args n k r h hr

/-- `i32.eqz` of an integer comparison is the opposite comparison, for every width and all operands -/
theorem int_eqz_of_comparison {n : Nat} (a b : BitVec n) :
    ieqz (ilt_s a b) = ige_s a b ∧ ieqz (ilt_u a b) = ige_u a b ∧ ieqz (igt_s a b) = ile_s a b ∧ ieqz (igt_u a b) = ile_u a b ∧
    ieqz (ile_s a b) = igt_s a b ∧ ieqz (ile_u a b) = igt_u a b ∧ ieqz (ige_s a b) = ilt_s a b ∧ ieqz (ige_u a b) = ilt_u a b ∧
    ieqz (ieq a b) = ine a b ∧ ieqz (ine a b) = ieq a b :=
  ⟨ieqz_ilt_s a b, ieqz_ilt_u a b, ieqz_igt_s a b, ieqz_igt_u a b, ieqz_ile_s a b, ieqz_ile_u a b, ieqz_ige_s a b, ieqz_ige_u a b,
   ieqz_ieq a b, ieqz_ine a b⟩

/-- every ordered float comparison with a NaN operand is 0, `eq` is 0, `ne` is 1 (f32: `mb = 23`, f64: `mb = 52`) -/
theorem float_comparison_nan {n : Nat} (mb : Nat) (a b : BitVec n) (h : fIsNaN mb a = true ∨ fIsNaN mb b = true) :
    feq mb a b = 0 ∧ fne mb a b = 1 ∧ flt mb a b = 0 ∧ fgt mb a b = 0 ∧ fle mb a b = 0 ∧ fge mb a b = 0 :=
  h.elim (fcmp_nan_left mb a b) (fcmp_nan_right mb a b)

/-- … therefore a translation may NOT replace `eqz (a < b)` by `a >= b` for floats: with a NaN operand they differ -/
theorem float_eqz_of_ordered_comparison_differs {n : Nat} (mb : Nat) (a b : BitVec n)
    (h : fIsNaN mb a = true ∨ fIsNaN mb b = true) :
    ieqz (flt mb a b) ≠ fge mb a b ∧ ieqz (fgt mb a b) ≠ fle mb a b ∧ ieqz (fle mb a b) ≠ fgt mb a b ∧ ieqz (fge mb a b) ≠ flt mb a b :=
  feqz_ordered_ne_negated mb a b h

/-- `eq`/`ne` can be folded for floats too -/
theorem float_eqz_of_eq {n : Nat} (mb : Nat) (a b : BitVec n) : ieqz (feq mb a b) = fne mb a b := ieqz_feq mb a b

/-- division and remainder trap exactly for a zero divisor (and `div_s` for the overflow) -/
theorem division_traps {n : Nat} (a b : BitVec n) :
    idiv_u a 0 = none ∧ idiv_s a 0 = none ∧ irem_u a 0 = none ∧ irem_s a 0 = none ∧
    (b ≠ 0 → idiv_u a b = some (a / b) ∧ irem_u a b = some (a % b) ∧ irem_s a b = some (a.srem b)) :=
  ⟨idiv_u_zero a, idiv_s_zero a, irem_u_zero a, irem_s_zero a,
   fun h => ⟨idiv_u_defined a b h, irem_u_defined a b h, irem_s_defined a b h⟩⟩

/-- shifts only look at the count modulo the width -/
theorem shift_count_masked {n : Nat} (a b c : BitVec n) (h : b.toNat % n = c.toNat % n) :
    ishl a b = ishl a c ∧ ishr_u a b = ishr_u a c ∧ ishr_s a b = ishr_s a c :=
  ⟨ishl_count a b c h, ishr_u_count a b c h, ishr_s_count a b c h⟩

/-! ### witnesses (non-vacuity, and the negation for floats on concrete operands) -/

/-- f64: NaN `0x7ff8000000000000`, one `0x3ff0000000000000` -/
example : ieqz (flt 52 0x7ff8000000000000#64 0x3ff0000000000000#64) = 1 ∧ fge 52 0x7ff8000000000000#64 0x3ff0000000000000#64 = 0 := by decide
example : ieqz (fgt 23 0x3f800000#32 0x7fc00000#32) = 1 ∧ fle 23 0x3f800000#32 0x7fc00000#32 = 0 := by decide
example : fIsNaN 52 0x7ff8000000000000#64 = true ∧ fIsNaN 52 0x7ff0000000000000#64 = false ∧ fIsNaN 23 0xffc00001#32 = true := by decide
/-- non-NaN operands: -0 = +0, -1 < 0.5 -/
example : feq 52 0x8000000000000000#64 0#64 = 1 ∧ flt 52 0xbff0000000000000#64 0x3fe0000000000000#64 = 1 ∧
    ieqz (flt 52 0xbff0000000000000#64 0x3fe0000000000000#64) = fge 52 0xbff0000000000000#64 0x3fe0000000000000#64 := by decide
/-- signed zeros of min/max, NaN propagation -/
example : fmin 52 0#64 0x8000000000000000#64 = 0x8000000000000000#64 ∧ fmax 52 0x8000000000000000#64 0#64 = 0#64 ∧
    fmin 23 0x7fc00000#32 0x3f800000#32 = 0x7fc00000#32 := by decide
/-- INT_MIN / -1 traps, INT_MIN rem -1 = 0, 7 / 0 traps, -7 / 2 = -3, -7 rem 2 = -1 -/
example : idiv_s (0x80000000#32) (0xffffffff#32) = none ∧ irem_s (0x80000000#32) (0xffffffff#32) = some 0 ∧
    idiv_s (7#32) 0 = none ∧ idiv_s (0xfffffff9#32) 2 = some 0xfffffffd#32 ∧ irem_s (0xfffffff9#32) 2 = some 0xffffffff#32 := by decide
example : idiv_s (0x8000000000000000#64) (0xffffffffffffffff#64) = none ∧ irem_s (0x8000000000000000#64) (0xffffffffffffffff#64) = some 0 := by decide
/-- shift by 33 = shift by 1 -/
example : ishl (1#32) (33#32) = 2#32 ∧ ishr_s (0x80000000#32) (33#32) = 0xc0000000#32 ∧ ishr_u (0x80000000#32) (0xffffffff#32) = 1#32 := by decide
example : ilt_s (0x80000000#32) (1#32) = 1 ∧ ilt_u (0x80000000#32) (1#32) = 0 ∧ ieqz (ilt_s (0x80000000#32) (1#32)) = ige_s (0x80000000#32) (1#32) := by decide

/-- a whole (tiny) execution by kernel evaluation: `(i32.const 7) (i32.const 0) i32.div_u` traps,
    `block (result i32) (i32.const 1) (i32.const 5) (br 0) end` leaves 5 -/
example : (match run {} 10 { store := {}, locals := #[], stack := [], code := [.const (.i32 7), .const (.i32 0), .ibin .w32 .div_u],
                               labels := [], arity := 1, frames := [] } with | .trap _ _ => true | _ => false) = true := by decide
example : (match run {} 10 { store := {}, locals := #[], stack := [], code := [.block 0 1 [.const (.i32 1), .const (.i32 5), .br 0]],
                               labels := [], arity := 1, frames := [] } with | .values [.i32 5] _ => true | _ => false) = true := by decide

end Interp

end Props.C22
