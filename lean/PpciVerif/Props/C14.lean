import PpciVerif.Model.ObjSer
import PpciVerif.Spec.ObjSer
import PpciVerif.Proofs.ObjSer
import PpciVerif.Proofs.ObjSerDebug
import PpciVerif.Proofs.ObjSerRound
/-!
# C14 — object files and archives survive save and load

Property theorems only.  Model: `Model.ObjSer` (hand model of
`ppci/binutils/objectfile.py`, `debuginfo.py`, `archive.py`,
`ppci/utils/binary_txt.py`, `common.make_num`; tied by correspondence).
Domain: `Spec.ObjSer.WF`.  JSON text ↔ tree (Python's `json`) is trusted.

Equality of the `Obj` records is equality of every field (arch, entry symbol,
sections with name/address/alignment/data, symbols, relocations, images with
their sections, debug locations/types/variables/functions); the projections are
spelled out in `object_roundtrip_fields`.

One open finding keeps the object-level statement partial: the loader's
`get_type` raises `KeyError` when a cycle of debug types is entered through a
pointer or array (`loadable d = false`); see the negation witness below.
-/
namespace Props.C14
open Model.ObjSer Spec.ObjSer Proofs.ObjSer

/-! ### codecs (full) -/

/-- `make_num(hex(x)) == x` for every integer, negative ones included. -/
theorem make_num_hex (x : Int) : makeNum (pyHex x) = .ok x := makeNum_pyHex x

/-- `asc2bin(bin2asc(b)) == b` for every byte string, on both sides of the 30-byte chunk rule. -/
theorem asc2bin_bin2asc (b : List Nat) (h : ∀ x ∈ b, x < 256) : asc2bin (bin2asc b) = .ok b :=
  Proofs.ObjSer.asc2bin_bin2asc b h

/-! ### objects -/

/-- Full statement of the property at the tree level (what C14 asks for). -/
def object_roundtrip_full : Prop := ∀ o : Obj, WF o → deserialize (serialize o) = .ok o

/-- Objects without debug info: the full statement. -/
theorem object_roundtrip_nodebug (o : Obj) (wf : WF o) (h : o.debug = none) :
    deserialize (serialize o) = .ok o :=
  deserialize_serialize o wf (fun d hd => by rw [h] at hd; cases hd)

/-- Every well-formed object whose debug-type table the loader accepts is rebuilt exactly.
    Missing for the full statement: debug infos with `loadable d = false` (open finding). -/
theorem object_roundtrip_partial (o : Obj) (wf : WF o)
    (hload : ∀ d, o.debug = some d → loadable d = true) : deserialize (serialize o) = .ok o :=
  deserialize_serialize o wf hload

/-- The same, field by field. -/
theorem object_roundtrip_fields (o : Obj) (wf : WF o)
    (hload : ∀ d, o.debug = some d → loadable d = true) :
    ∃ o', deserialize (serialize o) = .ok o' ∧ o'.arch = o.arch ∧ o'.entry = o.entry ∧
      o'.sections = o.sections ∧ o'.symbols = o.symbols ∧ o'.relocations = o.relocations ∧
      o'.images = o.images ∧ o'.debug = o.debug :=
  ⟨o, deserialize_serialize o wf hload, rfl, rfl, rfl, rfl, rfl, rfl, rfl⟩

/-- Debug info alone. -/
theorem debug_roundtrip_partial (d : DebugInfo) (hreg : TypesRegistered d) (hl : loadable d = true) :
    deDebug (serDebug d) = .ok d := deDebug_serDebug d hreg hl

/-- Archives: every member is rebuilt, in order. -/
theorem archive_roundtrip_partial (a : Archive)
    (h : ∀ o ∈ a.objs, WF o ∧ ∀ d, o.debug = some d → loadable d = true) :
    archiveLoad (archiveSave a) = .ok a := archiveLoad_save a h

/-! ### negation witness for the full statement (open finding `load:debug-type-cycle-through-pointer`) -/

/-- `types = [P, S]` with `P = pointer to S`, `S = struct { next : P }` -/
def cyc : DebugInfo := ⟨[], [.pointer 1, .struct [⟨.str ['n'], 0, .num 0⟩]], [], []⟩
def cycObj : Obj := ⟨['a', 'r', 'm'], none, [], [], [], [], some cyc⟩

def isKeyError {α : Type} : Except Err α → Bool
  | .error .KeyError => true
  | _ => false

example : wfB cycObj = true := by decide +kernel
example : loadable cyc = false := by decide +kernel
example : isKeyError (deserialize (serialize cycObj)) = true := by decide +kernel
example : ¬ object_roundtrip_full := by
  intro h
  have h1 := h cycObj ((wfB_iff cycObj).mp (by decide +kernel))
  have h2 : isKeyError (deserialize (serialize cycObj)) = true := by decide +kernel
  rw [h1] at h2
  exact absurd h2 (by decide)
/-- the same two types registered struct-first load fine -/
example : loadable ⟨[], [.struct [⟨.str ['n'], 1, .num 0⟩], .pointer 0], [], []⟩ = true := by decide +kernel

/-! ### non-vacuity: the hypotheses are satisfiable by non-trivial inputs -/

def demo : Obj :=
  ⟨['a', 'r', 'm'], some 7,
   [⟨['c'], -16, 4, List.replicate 31 255⟩, ⟨['d'], 0x1000, 8, []⟩],
   [⟨7, ['f'], kGlobal, some 4, some ['c'], .str ['f', 'u', 'n', 'c'], .num 0⟩,
    ⟨8, ['u'], kGlobal, none, none, .null, .null⟩,
    ⟨9, ['f'], ['l', 'o', 'c', 'a', 'l'], some (-3), none, .null, .num 2⟩],
   [⟨.str ['a', 'b', 's'], 8, ['c'], 12, -4⟩],
   [⟨['i', 'm', 'g'], 0x1000, [⟨['d'], 0x1000, 8, []⟩]⟩],
   some ⟨[⟨⟨.null, .num 1, .num 2, .num 3⟩, .fixed 7⟩],
         [.struct [⟨.str ['n'], 1, .num 0⟩], .pointer 0, .base (.str ['i']) (.num 4) (.num 7), .array 2 5],
         [⟨.str ['v'], 3, ⟨.str [], .num 4, .num 9, .num 1⟩, .fprel (.num (-8)) (.num 4)⟩],
         [⟨.str ['f'], ⟨.null, .num 1, .num 1, .num 1⟩, 2, [⟨.str ['a'], 2⟩], .fixed 7, .unknown, []⟩]⟩⟩

example : wfB demo = true := by decide +kernel
example : (match demo.debug with | some d => loadable d | none => true) = true := by decide +kernel
example : (match makeNum (pyHex (-4096)) with | .ok v => v == -4096 | .error _ => false) = true := by
  decide +kernel
/-- 31 bytes are written as two chunks (30 + 1) and read back -/
example : (match bin2asc (List.replicate 31 7) with | .arr xs => xs.length == 2 | _ => false) = true := by
  decide +kernel
example : (match asc2bin (bin2asc (List.replicate 31 7)) with
    | .ok b => b == List.replicate 31 7 | .error _ => false) = true := by decide +kernel
/-- the conditions of `WF` are needed: two sections of one name collapse in `section_map` -/
example : wfB ⟨[], none, [⟨['c'], 0, 4, [1]⟩, ⟨['c'], 8, 4, [2]⟩], [], [], [⟨['i'], 0, [⟨['c'], 0, 4, [1]⟩]⟩], none⟩ = false := by
  decide +kernel

end Props.C14
