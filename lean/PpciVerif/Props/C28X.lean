import PpciVerif.Props.C15
import PpciVerif.Props.C37
/-!
# C28 (extension) — the IR-text and C3 front-ends: what other properties' theorems give for C28

Corollaries only; nothing new is proved here.  They restate, as "the outcome is not an error", results
that exist for the *modelled kernels* of the two other front-ends the property names:

* IR text (C15): the model of `ppci.irutils.reader` (`Model.IRText.parseToks` / `readModule` over the
  construction layer `Model.IRBuild`) on the text the writer prints for a module of the fragment
  `Model.IRFrag.fragText` (unambiguous names, no inline asm, lexable identifiers, no keyword as first
  operand of rol/ror — exactly the guard of `Props.C15.roundtrip_partial`);
* C3 (C37): the table lookups of the operator lowering (`gen_binop`, shorthand assignment, comparisons)
  resolve for every operator and every integer type of both modelled targets.

NOT shown for these front-ends: anything outside those kernels (the C3 parser, type checker, constant
evaluator `eval_const`, statement lowering; IR text that is not the print of a fragment module).  Those
are only searched by harness/c28.py; the open findings of notes/C15.md and notes/C37.md are listed in
findings/C28.json.
-/
namespace Props.C28X
open Spec.IR Model.IRBuild Model.IRText Model.IRFrag

/-- **IR text reader, token level.**  Reading the token sequence the writer produces for ANY module of the
    text fragment ends in a module, not in an error (no KeyError / AssertionError / TypeError of the
    construction layer, no parse error). -/
theorem irtext_reader_no_error_on_printed_fragment (fmt : Nat → List Char) (fparse : String → Option Nat)
    (m : Module) (h : fragText fmt m = true)
    (hfp : ∀ b ∈ Props.C15.floatsOf m, fparse (String.ofList (fmt b)) = some b) :
    ∃ m', parseToks fparse (toksModule fmt m) = .ok m' :=
  ⟨_, (Props.C15.roundtrip_tokens_partial fmt fparse m h hfp).1⟩

/-- **IR text reader, character level** (tokenizer included; C15 proves the lexical step for the fragment). -/
theorem irtext_read_no_error_on_printed_fragment (fmt : Nat → List Char) (fparse : String → Option Nat)
    (m : Module) (h : fragText fmt m = true)
    (hfp : ∀ b ∈ Props.C15.floatsOf m, fparse (String.ofList (fmt b)) = some b) :
    ∃ m', readModule fparse (printModule fmt m) = .ok m' :=
  ⟨_, (Props.C15.roundtrip_partial fmt fparse m h hfp).1⟩

/-- **C3 `gen_binop`**: for every operator and every integer type of both targets the operator string and the
    type name handed to `ir.Binop` resolve (no failed lookup). -/
theorem c3_binop_lowering_lookups_resolve :
    ∀ n ∈ Proofs.C3.intSizes, ∀ ct ∈ Model.C3.intTypes n, ∀ op ∈ Spec.C3.Op.all,
      (Proofs.C3.irBinOpBySymbol (Model.C3.lowerBinop op.symbol ct).1).bind Spec.IR.BinOp.arith? ≠ none
      ∧ Proofs.C3.irTyByName (Model.C3.lowerBinop op.symbol ct).2 ≠ none := by
  intro n hn ct hct op hop
  obtain ⟨h1, h2⟩ := Props.C37.binop_lowering_resolves n hn ct hct op hop
  exact ⟨by rw [h1]; simp, by rw [h2]; simp⟩

/-- **C3 comparisons**: the condition string is passed unchanged and the operand type resolves. -/
theorem c3_compare_lowering_lookups_resolve :
    ∀ n ∈ Proofs.C3.intSizes, ∀ ct ∈ Model.C3.intTypes n, ∀ c ∈ Spec.C3.Cmp.all,
      Proofs.C3.irTyByName (Model.C3.lowerCmp c.symbol ct).2 ≠ none := by
  intro n hn ct hct c hc
  obtain ⟨_, h2⟩ := Props.C37.compare_lowering_resolves n hn ct hct c hc
  rw [h2]; simp

end Props.C28X
