import PpciVerif.Proofs.Peephole
import PpciVerif.Proofs.FrameAlloc
import PpciVerif.Proofs.RVLi
import PpciVerif.Proofs.ArgLoc
import PpciVerif.Proofs.RVFrame
import PpciVerif.Spec.RVABI
import PpciVerif.Gen.RVABI
import PpciVerif.Gen.ARMABI
/-!
# C05 — cross-target machine code preserves IR behaviour: the slivers that are theorems

**Partial.**  No machine semantics of ARM, Thumb, m68k, MIPS or x86-64 exists here and no
semantics of whole compiled functions is proved for any target; the end-to-end statement
(`c05_full`) is NOT shown.  Proved in this file, for all inputs:

* `frame_alloc_top_sound`, `frame_alloc_bottom_sound` — `Frame.alloc` (both frame-pointer
  conventions): slots of every allocation history are pairwise disjoint, aligned, inside the frame;
* `riscv_li_split`, `riscv_li_value` — `Li` (every `CONST*` pattern of the riscv base ISA):
  `(hi << 12) + signext12(lo) ≡ v (mod 2^32)` for every integer `v`, and executing the emitted
  `addi` / `lui; addi` with `Spec.RV32.step` leaves `v mod 2^32` in `rd` and nothing else changed;
  `rvc_cli_value`, `rvc_clui_value`, `rvc_clui_condition_exact` — the same for the two rvc patterns
  (`c.li`; `c.lui; addi` under the pattern's condition, which is exactly "the upper part fits");
* `arm_arg_locations_distinct`, `riscv_arg_locations_distinct` — `determine_arg_locations` never
  gives two arguments of any signature the same register or overlapping stack bytes;
* `riscv_frame_discipline` — prologue ∘ body ∘ epilogue of the riscv back-end (modelled instruction lists, run on a
  word-granular stack machine) restore `sp`, `ra`, `fp` and every saved callee-saved register for every list of saved
  registers, every frame size, every outgoing-argument area and every body that keeps `sp` and the save area;
* `riscv_convention_*`, `arm_convention_*` — about the tables regenerated from the live architecture objects on every
  run (`Gen.RVABI`, `Gen.ARMABI`): every allocatable register is destroyed-by-calls or saved by the callee (riscv) /
  or is the frame pointer (arm); riscv `callee_save` is exactly the psABI set s0–s11 within the allocatable registers;
  argument and return registers are among the call clobbers and are a0–a7;
* `peephole_identity_without_jump_effects` — on targets whose instructions have no `effect()`
  (all but x86-64) the peephole stream hands every stream through unchanged.

Cited, proved elsewhere: register allocation validated per frame on every target (C06), encodings
and relocations of riscv/arm/thumb (C08, C10, C11), linker layout (C12).  Instruction selection and
the behaviour of compiled functions are covered only by the always-on failing-input search of
`harness/c05.py` (riscv: compiled functions run in `Spec.RV32` against `Spec.IR`; other targets:
nothing executable exists here — not covered).
-/
namespace Props.C05
open Spec.ItemTrace Spec.StackSlots Spec.RV32 Model.Peephole Model.FrameAlloc Model.RVLi Model.ArgLoc

/-- The full statement needs a machine semantics per target and a proof about instruction
    selection; neither exists here.  Kept as a marker that it is not claimed. -/
def c05_full : Prop := False

/-! ### Frame.alloc -/

theorem frame_alloc_top_sound (h : List (Int × Int)) (hpos : ∀ p ∈ h, 0 < p.1 ∧ 0 < p.2) :
    let r := run alloc (Frame.new .top) h
    Proofs.FrameAlloc.AllOk r.2 h ∧
    (slots r.2).length = h.length ∧
    List.Pairwise (fun a b : Slot => Disjoint a.offset a.size b.offset b.size) (slots r.2) ∧
    (∀ s ∈ slots r.2, -r.1.stacksize ≤ s.offset ∧ s.offset + s.size ≤ 0) ∧
    (∀ p ∈ h, p.2 ≤ r.1.alignment) := by
  intro r
  have H := Proofs.FrameAlloc.run_top h (Frame.new .top) rfl hpos
  simp only at H
  obtain ⟨_, _, h3, h4, h5⟩ := H
  refine ⟨h3, Proofs.FrameAlloc.slots_length _ _ h3, ?_, ?_, ?_⟩
  · exact h5.imp (fun hab => Or.inr hab)
  · intro s hs
    have := h4 s hs
    exact ⟨this.1, by simpa [Frame.new] using this.2.1⟩
  · intro p hp
    exact Proofs.FrameAlloc.run_alignment h _ p hp

/-- frame pointer at the bottom (avr, msp430, microblaze, wasm): slots grow upwards from 0 -/
theorem frame_alloc_bottom_sound (h : List (Int × Int)) (hpos : ∀ p ∈ h, 0 < p.1 ∧ 0 < p.2) :
    let r := run alloc (Frame.new .bottom) h
    Proofs.FrameAlloc.AllOk r.2 h ∧
    (slots r.2).length = h.length ∧
    List.Pairwise (fun a b : Slot => Disjoint a.offset a.size b.offset b.size) (slots r.2) ∧
    (∀ s ∈ slots r.2, 0 ≤ s.offset ∧ s.offset + s.size ≤ r.1.stacksize) ∧
    (∀ p ∈ h, p.2 ≤ r.1.alignment) := by
  intro r
  have H := Proofs.FrameAlloc.run_bottom h (Frame.new .bottom) rfl hpos
  simp only at H
  obtain ⟨_, _, h3, h4, h5⟩ := H
  refine ⟨h3, Proofs.FrameAlloc.slots_length _ _ h3, ?_, ?_, ?_⟩
  · exact h5.imp (fun hab => Or.inl hab)
  · intro s hs
    have := h4 s hs
    exact ⟨by simpa [Frame.new] using this.1, this.2.1⟩
  · intro p hp
    exact Proofs.FrameAlloc.run_alignment h _ p hp

/-! ### riscv constant materialisation -/

/-- the arithmetic core, for EVERY integer: upper field · 4096 + sign-extended lower field ≡ v (mod 2^32) -/
theorem riscv_li_split (v : Int) :
    ((hi20 (adjust v) : Int) * 4096 + sext 12 (lo12 (adjust v))) % 4294967296 = v % 4294967296 :=
  Proofs.RVLi.li_split v

/-- executing what `Li(rd, v)` renders to, from any state: `rd` holds `v mod 2^32`, every other
    register and the memory are unchanged, the pc has advanced over the emitted instructions -/
theorem riscv_li_value (s : State) (rd : Nat) (v : Int) (hrd : rd ≠ 0) :
    ∃ s', runM s (li rd v) = some s' ∧ s'.get rd = ofInt v ∧
      Proofs.RVLi.OnlyWrote s s' rd (4 * (li rd v).length) := by
  unfold li
  by_cases hr : inrange12 v = true
  · have hv : -2048 ≤ v ∧ v < 2048 := by simpa [inrange12] using hr
    have f := Proofs.RVLi.addi_zero_facts s rd (sext 12 (lo12 v)) 4 hrd
    simp only at f
    rw [if_pos hr]
    refine ⟨Proofs.RVLi.afterAddi s rd 0 (sext 12 (lo12 v)) 4, ?_, ?_, ?_⟩
    · simp only [runM, stepM, addiF, Proofs.RVLi.step_addi, Option.bind]
    · rw [f.1, Proofs.RVLi.sext12_small v hv]
    · simpa using f.2
  · have f := Proofs.RVLi.lui_addi_facts s rd (hi20 (adjust v)) (lo12 (adjust v)) 4 hrd
    simp only at f
    rw [if_neg hr]
    refine ⟨Proofs.RVLi.afterAddi (Proofs.RVLi.afterLui s rd (hi20 (adjust v)) 4) rd rd (sext 12 (lo12 (adjust v))), ?_, ?_, ?_⟩
    · simp only [runM, stepM, addiF, Proofs.RVLi.step_addi, Proofs.RVLi.step_lui, Option.bind]
    · rw [f.1]
      unfold ofInt
      have := riscv_li_split v
      congr 1
    · simpa using f.2

/-- `c.li rd, v` for `-32 ≤ v < 32` -/
theorem rvc_cli_value (s : State) (rd : Nat) (v : Int) (hrd : rd ≠ 0) :
    ∃ s', runM s (cli rd v) = some s' ∧ s'.get rd = ofInt v ∧ Proofs.RVLi.OnlyWrote s s' rd 2 := by
  have f := Proofs.RVLi.addi_zero_facts s rd v 2 hrd
  simp only at f
  exact ⟨Proofs.RVLi.afterAddi s rd 0 v 2,
    by simp only [cli, runM, stepM, stepC, CInstr.expand, Proofs.RVLi.step_addi, Option.bind], f.1, f.2⟩

/-- the condition of the `c.lui` pattern holds exactly when the upper part of the (adjusted)
    constant fits the signed, non-zero 6-bit immediate of `c.lui` -/
theorem rvc_clui_condition_exact (v : Int) :
    cluiCond v = true ↔ (-32 ≤ adjust v / 4096 ∧ adjust v / 4096 < 32 ∧ adjust v / 4096 ≠ 0) :=
  Proofs.RVLi.cluiCond_iff v

/-- `c.lui rd, hi ; addi rd, rd, lo` under the pattern condition -/
theorem rvc_clui_value (s : State) (rd : Nat) (v : Int) (hrd : rd ≠ 0) (hc : cluiCond v = true) :
    ∃ s', runM s (cluiAddi rd v) = some s' ∧ s'.get rd = ofInt v ∧ Proofs.RVLi.OnlyWrote s s' rd 6 := by
  have f := Proofs.RVLi.lui_addi_facts s rd (hi20 (adjust v)) (lo12 (adjust v)) 2 hrd
  simp only at f
  refine ⟨Proofs.RVLi.afterAddi (Proofs.RVLi.afterLui s rd (hi20 (adjust v)) 2) rd rd (sext 12 (lo12 (adjust v))), ?_, ?_, ?_⟩
  · simp only [cluiAddi, runM, stepM, stepC, CInstr.expand, addiF, Proofs.RVLi.step_addi,
      Proofs.RVLi.step_lui, Option.bind, Proofs.RVLi.clui_field v hc]
  · rw [f.1]
    unfold ofInt
    have := riscv_li_split v
    congr 1
  · simpa using f.2

/-! ### argument locations -/

/-- ARM / Thumb: no two arguments of any signature share a register or a stack byte -/
theorem arm_arg_locations_distinct (tys : List ATy) : List.Pairwise Loc.Distinct (armArgs tys) :=
  (Proofs.ArgLoc.armGo_sound tys [1, 2, 3, 4] 8 (by decide)).2

/-- RISC-V, with and without hardware floats -/
theorem riscv_arg_locations_distinct (rvf : Bool) (tys : List ATy) : List.Pairwise Loc.Distinct (riscvArgs rvf tys) :=
  (Proofs.ArgLoc.riscvGo_sound rvf tys _ _ 0 (by decide) (by decide)).2

theorem arg_locations_length (rvf : Bool) (tys : List ATy) :
    (armArgs tys).length = tys.length ∧ (riscvArgs rvf tys).length = tys.length := by
  have ha : ∀ (tys : List ATy) (regs : List Nat) (off : Int), (armGo tys regs off).length = tys.length := by
    intro tys
    induction tys with
    | nil => intro regs off; rfl
    | cons t rest ih =>
      intro regs off
      unfold armGo
      cases t.kind <;> cases regs <;> simp [ih]
  have hr : ∀ (tys : List ATy) (regs fregs : List Nat) (off : Int),
      (riscvGo rvf tys regs fregs off).length = tys.length := by
    intro tys
    induction tys with
    | nil => intro regs fregs off; rfl
    | cons t rest ih =>
      intro regs fregs off
      unfold riscvGo
      cases t.kind <;> cases rvf <;> cases regs <;> cases fregs <;> simp [ih]
  exact ⟨ha tys _ _, hr tys _ _ _⟩

/-! ### riscv prologue / epilogue -/

open Model.RVFrame in
/-- **Stack discipline of the riscv frame.**  For EVERY frame (`stacksize`), every outgoing-argument area (`extras`), every
    duplicate-free list `saved` of callee-saved registers (none of them `ra`, `sp`, `fp`), every entry state and every body
    that (a) leaves `sp` where the prologue put it and (b) does not write the save area
    `[sp₀ - ssize - rsize, sp₀ - ssize + 8)` (the saved registers and the `fp`/`ra` slots) — the body may clobber every
    other register including `ra`, `fp` and the saved ones, and all other memory —:
    after `epilogue ∘ body ∘ prologue` the stack pointer, `ra`, `fp` and every saved register hold their entry values.
    Machine: `Model.RVFrame.exec` (registers and word-addressed memory over `Int`); the instruction lists are tied to the
    real `gen_prologue`/`gen_epilogue` by decoding the real bytes, and the real bytes are executed by `Spec.RV32` around an
    adversarial body on every run (harness, `rvframerun`). -/
theorem riscv_frame_discipline (stacksize extras : Int) (saved : List Nat) (hnd : saved.Nodup)
    (hsv : ∀ r ∈ saved, r ≠ 1 ∧ r ≠ 2 ∧ r ≠ 8) (s : FState) (body : FState → FState)
    (hsp : ∀ t, (body t).regs 2 = t.regs 2)
    (hmem : ∀ t a, s.regs 2 - ssize stacksize - rsize saved ≤ a → a < s.regs 2 - ssize stacksize + 8 →
      (body t).mem a = t.mem a) :
    let f := run (epilogue stacksize extras saved) (body (run (prologue stacksize extras saved) s))
    f.regs 2 = s.regs 2 ∧ f.regs 1 = s.regs 1 ∧ f.regs 8 = s.regs 8 ∧ ∀ r ∈ saved, f.regs r = s.regs r :=
  Proofs.RVFrame.frame_discipline stacksize extras saved hnd hsv s body hsp hmem

/-! ### register conventions (tables regenerated from the live architecture objects, `decide`) -/

section conventions
open Gen.RVABI Gen.ARMABI

/-- what the three conventions must satisfy: (1) no allocatable register is assumed to survive a call (= not in the call's
    clobbers) without the callee saving it; (2) `callee_save` is exactly the psABI-preserved set s0–s11 inside the allocatable
    registers; (3) nothing the callee must preserve is declared clobbered; (4) argument and return registers are a0–a7 and
    are declared clobbered by the call. -/
def RiscvConventionOk (allocatable calleeSave clobbers argRegs : List Nat) (retReg : Nat) : Prop :=
  (∀ r ∈ allocatable, r ∈ clobbers ∨ r ∈ calleeSave) ∧
  (∀ r, r ∈ calleeSave ↔ (r ∈ Spec.RVABI.calleeSaved ∧ r ∈ allocatable)) ∧
  (∀ r ∈ clobbers, r ∉ Spec.RVABI.calleeSaved ∧ r ∈ Spec.RVABI.callerSaved) ∧
  (∀ r ∈ retReg :: argRegs, r ∈ clobbers ∧ r ∈ Spec.RVABI.argRegs) ∧ argRegs.Nodup ∧ calleeSave.Nodup

instance (a b c d : List Nat) (e : Nat) : Decidable (RiscvConventionOk a b c d e) := by
  unfold RiscvConventionOk
  have : Decidable (∀ r, r ∈ b ↔ (r ∈ Spec.RVABI.calleeSaved ∧ r ∈ a)) :=
    decidable_of_iff ((∀ r ∈ b, r ∈ Spec.RVABI.calleeSaved ∧ r ∈ a) ∧ (∀ r ∈ Spec.RVABI.calleeSaved, r ∈ a → r ∈ b))
      ⟨fun h r => ⟨h.1 r, fun hr => h.2 r hr.1 hr.2⟩, fun h => ⟨fun r hr => (h r).mp hr, fun r h1 h2 => (h r).mpr ⟨h1, h2⟩⟩⟩
  exact inferInstance

theorem riscv_convention_ok :
    RiscvConventionOk riscv_allocatable riscv_calleeSave riscv_callClobbers riscv_argRegs riscv_retReg := by decide
theorem riscv_rvc_convention_ok :
    RiscvConventionOk riscv_rvc_allocatable riscv_rvc_calleeSave riscv_rvc_callClobbers riscv_rvc_argRegs riscv_rvc_retReg := by
  decide
theorem riscv_rvf_convention_ok :
    RiscvConventionOk riscv_rvf_allocatable riscv_rvf_calleeSave riscv_rvf_callClobbers riscv_rvf_argRegs riscv_rvf_retReg := by
  decide

/-- ARM / Thumb use ppci's own convention (arguments R1–R4, result R0), so only the internal consistency is stated: every
    allocatable register is destroyed by calls, saved by the callee, or the frame pointer (saved by the prologue);
    argument and return registers are declared clobbered; nothing is both clobbered and callee-saved. -/
def ArmConventionOk (allocatable calleeSave clobbers argRegs : List Nat) (retReg fp : Nat) : Prop :=
  (∀ r ∈ allocatable, r ∈ clobbers ∨ r ∈ calleeSave ∨ r = fp) ∧
  (∀ r ∈ retReg :: argRegs, r ∈ clobbers) ∧ (∀ r ∈ calleeSave, r ∉ clobbers ∧ r ∈ allocatable) ∧ argRegs.Nodup ∧ calleeSave.Nodup

instance (a b c d : List Nat) (e f : Nat) : Decidable (ArmConventionOk a b c d e f) := by
  unfold ArmConventionOk; exact inferInstance

theorem arm_convention_ok :
    ArmConventionOk arm_allocatable arm_calleeSave arm_callClobbers arm_argRegs arm_retReg arm_fp := by decide
theorem arm_thumb_convention_ok :
    ArmConventionOk arm_thumb_allocatable arm_thumb_calleeSave arm_thumb_callClobbers arm_thumb_argRegs arm_thumb_retReg arm_thumb_fp := by
  decide

/-- the seeded defect: `x27` missing from `callee_save` while the call does not clobber it -/
example : ¬ RiscvConventionOk riscv_allocatable [9, 18, 19, 20, 21, 22, 23, 24, 25, 26] riscv_callClobbers riscv_argRegs riscv_retReg := by
  decide

end conventions

/-! ### peephole on targets without `effect()` -/

theorem peephole_identity_without_jump_effects (p : List Item) (h : ∀ x ∈ p, ∀ t, x ≠ .jump t) :
    runStream p = p := by
  rw [Proofs.Peephole.runStream_eq_peep]
  exact Proofs.Peephole.peep_id_of_no_jump p h

/-! ### non-vacuity, concrete instances and negation witnesses for the repaired defects -/

example : slots (run alloc (Frame.new .bottom) [(3, 1), (1, 4), (2, 4)]).2 = [⟨0, 3⟩, ⟨4, 1⟩, ⟨8, 2⟩] := by decide

/-- before the repair (`stacksize += size - misalign`) the second slot lay inside the first one -/
example : slots (run allocOld (Frame.new .bottom) [(3, 1), (1, 4), (2, 4)]).2 = [⟨0, 3⟩, ⟨1, 1⟩, ⟨2, 2⟩] := by decide
example : ¬ Disjoint 0 3 1 1 := by decide

example : li 10 129280 = [.b (.lui 10 32), .b (.alui .addi 10 10 (-1792))] := by decide
example : li 10 (-5) = [.b (.alui .addi 10 0 (-5))] := by decide
example : (hi20 (adjust 0x7FFFF800) : Int) * 4096 + sext 12 (lo12 (adjust 0x7FFFF800)) = 0x7FFFF800 + 4294967296 - 4294967296 := by
  decide
example : cluiCond 100000 = true ∧ cluiAddi 10 100000 = [.c (.lui 10 24), .b (.alui .addi 10 10 1696)] := by decide

/-- before the repair the rvc pattern accepted 0x1F900 (`cluiCondOld`), and what it emits loads 0xFFFDF900 -/
example : cluiCondOld 0x1F900 = true ∧ cluiCond 0x1F900 = false := by decide
example : cluiAddi 10 0x1F900 = [.c (.lui 10 (-32)), .b (.alui .addi 10 10 (-1792))] := by decide
example : ofInt ((((-32 : Int) % 2 ^ 20).toNat : Int) * 4096 + (-1792)) = 0xFFFDF900 := by decide

example : armArgs [⟨.int, 4, 4⟩, ⟨.int, 4, 4⟩, ⟨.blob, 12, 12⟩, ⟨.int, 4, 4⟩, ⟨.int, 4, 4⟩, ⟨.int, 1, 1⟩, ⟨.int, 4, 4⟩]
    = [.reg 1, .reg 2, .stack 8 12, .reg 3, .reg 4, .stack 20 1, .stack 21 4] := by decide
example : riscvArgs true ((List.replicate 8 ⟨.flt, 8, 4⟩) ++ [⟨.int, 4, 4⟩])
    = [.freg 12, .freg 13, .freg 14, .freg 15, .freg 16, .freg 17, .stack 0 4, .stack 4 4, .reg 12] := by decide
/-- before the repair the 7th and 8th `f64` were `Stack[8 bytes at 0]` and `Stack[8 bytes at 4]` -/
example : ¬ Loc.Distinct (.stack 0 8) (.stack 4 8) := by decide

open Model.RVFrame in
example : (prologue 0 4 [9]).map toRV =
    [.alui .addi 2 2 (-16), .store .sw 1 2 4, .store .sw 8 2 0, .alui .addi 8 2 8, .alui .addi 2 2 (-16), .store .sw 9 2 12,
     .alui .addi 2 2 (-16)] := by decide
open Model.RVFrame in
example : (epilogue 0 4 [9]).map toRV =
    [.alui .addi 2 2 16, .load .lw 9 2 12, .alui .addi 2 2 16, .load .lw 1 2 4, .load .lw 8 2 0, .alui .addi 2 2 16, .jalr 0 1 0] := by
  decide
/-- freeing the outgoing-argument area AFTER the restores (one merged `addi sp`) reloads `x9` from the wrong slot:
    entry `x9 = 77`, a body that clobbers `x9` → 0 comes back instead of 77 -/
example :
    let s : Model.RVFrame.FState := { regs := fun r => if r = 2 then 1000 else if r = 9 then 77 else 5, mem := fun _ => 0 }
    let body := fun t : Model.RVFrame.FState => { t with regs := Model.RVFrame.setReg t.regs 9 (-1) }
    let merged : List Model.RVFrame.FI := [.lw 9 2 12, .addi 2 2 32, .lw 1 2 4, .lw 8 2 0, .addi 2 2 16, .ret]
    (Model.RVFrame.run merged (body (Model.RVFrame.run (Model.RVFrame.prologue 0 4 [9]) s))).regs 9 = 0 ∧
    (Model.RVFrame.run (Model.RVFrame.epilogue 0 4 [9]) (body (Model.RVFrame.run (Model.RVFrame.prologue 0 4 [9]) s))).regs 9 = 77 := by
  decide

example : runStream [.label 1, .other default, .label 2, .other default] = [.label 1, .other default, .label 2, .other default] :=
  peephole_identity_without_jump_effects _ (by intro x hx t; simp at hx; rcases hx with rfl | rfl | rfl | rfl <;> simp)

end Props.C05
