import PpciVerif.Proofs.Peephole
import PpciVerif.Proofs.FrameAlloc
import PpciVerif.Proofs.RVLi
import PpciVerif.Proofs.ArgLoc
/-!
# C05 — cross-target machine code preserves IR behaviour: the slivers that are theorems

**Partial.**  No machine semantics of ARM, Thumb, m68k, MIPS or x86-64 exists here and no
semantics of whole compiled functions is proved for any target; the end-to-end statement
(`c05_full`) is NOT shown.  Proved in this file, for all inputs:

* `frame_alloc_top_sound`, `frame_alloc_bottom_sound` — `Frame.alloc` (both frame-pointer
  conventions): slots of every allocation history are pairwise disjoint, aligned, inside the frame;
* `riscv_li_split`, `riscv_li_value` — `Li` (every `CONST*` pattern of the riscv base ISA):
  `(hi << 12) + signext12(lo) ≡ v (mod 2^32)` for every integer `v`, and executing the emitted
  `addi` / `lui; addi` with `Spec.RV32.step` leaves `v mod 2^32` in `rd` and nothing else changed;
  `rvc_cli_value`, `rvc_clui_value`, `rvc_clui_condition_exact` — the same for the two rvc patterns
  (`c.li`; `c.lui; addi` under the pattern's condition, which is exactly "the upper part fits");
* `arm_arg_locations_distinct`, `riscv_arg_locations_distinct` — `determine_arg_locations` never
  gives two arguments of any signature the same register or overlapping stack bytes;
* `peephole_identity_without_jump_effects` — on targets whose instructions have no `effect()`
  (all but x86-64) the peephole stream hands every stream through unchanged.

Cited, proved elsewhere: register allocation validated per frame on every target (C06), encodings
and relocations of riscv/arm/thumb (C08, C10, C11), linker layout (C12).  Instruction selection and
the behaviour of compiled functions are covered only by the always-on failing-input search of
`harness/c05.py` (riscv: compiled functions run in `Spec.RV32` against `Spec.IR`; other targets:
nothing executable exists here — not covered).
-/
namespace Props.C05
open Spec.ItemTrace Spec.StackSlots Spec.RV32 Model.Peephole Model.FrameAlloc Model.RVLi Model.ArgLoc

/-- The full statement needs a machine semantics per target and a proof about instruction
    selection; neither exists here.  Kept as a marker that it is not claimed. -/
def c05_full : Prop := False

/-! ### Frame.alloc -/

theorem frame_alloc_top_sound (h : List (Int × Int)) (hpos : ∀ p ∈ h, 0 < p.1 ∧ 0 < p.2) :
    let r := run alloc (Frame.new .top) h
    Proofs.FrameAlloc.AllOk r.2 h ∧
    (slots r.2).length = h.length ∧
    List.Pairwise (fun a b : Slot => Disjoint a.offset a.size b.offset b.size) (slots r.2) ∧
    (∀ s ∈ slots r.2, -r.1.stacksize ≤ s.offset ∧ s.offset + s.size ≤ 0) ∧
    (∀ p ∈ h, p.2 ≤ r.1.alignment) := by
  intro r
  have H := Proofs.FrameAlloc.run_top h (Frame.new .top) rfl hpos
  simp only at H
  obtain ⟨_, _, h3, h4, h5⟩ := H
  refine ⟨h3, Proofs.FrameAlloc.slots_length _ _ h3, ?_, ?_, ?_⟩
  · exact h5.imp (fun hab => Or.inr hab)
  · intro s hs
    have := h4 s hs
    exact ⟨this.1, by simpa [Frame.new] using this.2.1⟩
  · intro p hp
    exact Proofs.FrameAlloc.run_alignment h _ p hp

/-- frame pointer at the bottom (avr, msp430, microblaze, wasm): slots grow upwards from 0 -/
theorem frame_alloc_bottom_sound (h : List (Int × Int)) (hpos : ∀ p ∈ h, 0 < p.1 ∧ 0 < p.2) :
    let r := run alloc (Frame.new .bottom) h
    Proofs.FrameAlloc.AllOk r.2 h ∧
    (slots r.2).length = h.length ∧
    List.Pairwise (fun a b : Slot => Disjoint a.offset a.size b.offset b.size) (slots r.2) ∧
    (∀ s ∈ slots r.2, 0 ≤ s.offset ∧ s.offset + s.size ≤ r.1.stacksize) ∧
    (∀ p ∈ h, p.2 ≤ r.1.alignment) := by
  intro r
  have H := Proofs.FrameAlloc.run_bottom h (Frame.new .bottom) rfl hpos
  simp only at H
  obtain ⟨_, _, h3, h4, h5⟩ := H
  refine ⟨h3, Proofs.FrameAlloc.slots_length _ _ h3, ?_, ?_, ?_⟩
  · exact h5.imp (fun hab => Or.inl hab)
  · intro s hs
    have := h4 s hs
    exact ⟨by simpa [Frame.new] using this.1, this.2.1⟩
  · intro p hp
    exact Proofs.FrameAlloc.run_alignment h _ p hp

/-! ### riscv constant materialisation -/

/-- the arithmetic core, for EVERY integer: upper field · 4096 + sign-extended lower field ≡ v (mod 2^32) -/
theorem riscv_li_split (v : Int) :
    ((hi20 (adjust v) : Int) * 4096 + sext 12 (lo12 (adjust v))) % 4294967296 = v % 4294967296 :=
  Proofs.RVLi.li_split v

/-- executing what `Li(rd, v)` renders to, from any state: `rd` holds `v mod 2^32`, every other
    register and the memory are unchanged, the pc has advanced over the emitted instructions -/
theorem riscv_li_value (s : State) (rd : Nat) (v : Int) (hrd : rd ≠ 0) :
    ∃ s', runM s (li rd v) = some s' ∧ s'.get rd = ofInt v ∧
      Proofs.RVLi.OnlyWrote s s' rd (4 * (li rd v).length) := by
  unfold li
  by_cases hr : inrange12 v = true
  · have hv : -2048 ≤ v ∧ v < 2048 := by simpa [inrange12] using hr
    have f := Proofs.RVLi.addi_zero_facts s rd (sext 12 (lo12 v)) 4 hrd
    simp only at f
    rw [if_pos hr]
    refine ⟨Proofs.RVLi.afterAddi s rd 0 (sext 12 (lo12 v)) 4, ?_, ?_, ?_⟩
    · simp only [runM, stepM, addiF, Proofs.RVLi.step_addi, Option.bind]
    · rw [f.1, Proofs.RVLi.sext12_small v hv]
    · simpa using f.2
  · have f := Proofs.RVLi.lui_addi_facts s rd (hi20 (adjust v)) (lo12 (adjust v)) 4 hrd
    simp only at f
    rw [if_neg hr]
    refine ⟨Proofs.RVLi.afterAddi (Proofs.RVLi.afterLui s rd (hi20 (adjust v)) 4) rd rd (sext 12 (lo12 (adjust v))), ?_, ?_, ?_⟩
    · simp only [runM, stepM, addiF, Proofs.RVLi.step_addi, Proofs.RVLi.step_lui, Option.bind]
    · rw [f.1]
      unfold ofInt
      have := riscv_li_split v
      congr 1
    · simpa using f.2

/-- `c.li rd, v` for `-32 ≤ v < 32` -/
theorem rvc_cli_value (s : State) (rd : Nat) (v : Int) (hrd : rd ≠ 0) :
    ∃ s', runM s (cli rd v) = some s' ∧ s'.get rd = ofInt v ∧ Proofs.RVLi.OnlyWrote s s' rd 2 := by
  have f := Proofs.RVLi.addi_zero_facts s rd v 2 hrd
  simp only at f
  exact ⟨Proofs.RVLi.afterAddi s rd 0 v 2,
    by simp only [cli, runM, stepM, stepC, CInstr.expand, Proofs.RVLi.step_addi, Option.bind], f.1, f.2⟩

/-- the condition of the `c.lui` pattern holds exactly when the upper part of the (adjusted)
    constant fits the signed, non-zero 6-bit immediate of `c.lui` -/
theorem rvc_clui_condition_exact (v : Int) :
    cluiCond v = true ↔ (-32 ≤ adjust v / 4096 ∧ adjust v / 4096 < 32 ∧ adjust v / 4096 ≠ 0) :=
  Proofs.RVLi.cluiCond_iff v

/-- `c.lui rd, hi ; addi rd, rd, lo` under the pattern condition -/
theorem rvc_clui_value (s : State) (rd : Nat) (v : Int) (hrd : rd ≠ 0) (hc : cluiCond v = true) :
    ∃ s', runM s (cluiAddi rd v) = some s' ∧ s'.get rd = ofInt v ∧ Proofs.RVLi.OnlyWrote s s' rd 6 := by
  have f := Proofs.RVLi.lui_addi_facts s rd (hi20 (adjust v)) (lo12 (adjust v)) 2 hrd
  simp only at f
  refine ⟨Proofs.RVLi.afterAddi (Proofs.RVLi.afterLui s rd (hi20 (adjust v)) 2) rd rd (sext 12 (lo12 (adjust v))), ?_, ?_, ?_⟩
  · simp only [cluiAddi, runM, stepM, stepC, CInstr.expand, addiF, Proofs.RVLi.step_addi,
      Proofs.RVLi.step_lui, Option.bind, Proofs.RVLi.clui_field v hc]
  · rw [f.1]
    unfold ofInt
    have := riscv_li_split v
    congr 1
  · simpa using f.2

/-! ### argument locations -/

/-- ARM / Thumb: no two arguments of any signature share a register or a stack byte -/
theorem arm_arg_locations_distinct (tys : List ATy) : List.Pairwise Loc.Distinct (armArgs tys) :=
  (Proofs.ArgLoc.armGo_sound tys [1, 2, 3, 4] 8 (by decide)).2

/-- RISC-V, with and without hardware floats -/
theorem riscv_arg_locations_distinct (rvf : Bool) (tys : List ATy) : List.Pairwise Loc.Distinct (riscvArgs rvf tys) :=
  (Proofs.ArgLoc.riscvGo_sound rvf tys _ _ 0 (by decide) (by decide)).2

theorem arg_locations_length (rvf : Bool) (tys : List ATy) :
    (armArgs tys).length = tys.length ∧ (riscvArgs rvf tys).length = tys.length := by
  have ha : ∀ (tys : List ATy) (regs : List Nat) (off : Int), (armGo tys regs off).length = tys.length := by
    intro tys
    induction tys with
    | nil => intro regs off; rfl
    | cons t rest ih =>
      intro regs off
      unfold armGo
      cases t.kind <;> cases regs <;> simp [ih]
  have hr : ∀ (tys : List ATy) (regs fregs : List Nat) (off : Int),
      (riscvGo rvf tys regs fregs off).length = tys.length := by
    intro tys
    induction tys with
    | nil => intro regs fregs off; rfl
    | cons t rest ih =>
      intro regs fregs off
      unfold riscvGo
      cases t.kind <;> cases rvf <;> cases regs <;> cases fregs <;> simp [ih]
  exact ⟨ha tys _ _, hr tys _ _ _⟩

/-! ### peephole on targets without `effect()` -/

theorem peephole_identity_without_jump_effects (p : List Item) (h : ∀ x ∈ p, ∀ t, x ≠ .jump t) :
    runStream p = p := by
  rw [Proofs.Peephole.runStream_eq_peep]
  exact Proofs.Peephole.peep_id_of_no_jump p h

/-! ### non-vacuity, concrete instances and negation witnesses for the repaired defects -/

example : slots (run alloc (Frame.new .bottom) [(3, 1), (1, 4), (2, 4)]).2 = [⟨0, 3⟩, ⟨4, 1⟩, ⟨8, 2⟩] := by decide

/-- before the repair (`stacksize += size - misalign`) the second slot lay inside the first one -/
example : slots (run allocOld (Frame.new .bottom) [(3, 1), (1, 4), (2, 4)]).2 = [⟨0, 3⟩, ⟨1, 1⟩, ⟨2, 2⟩] := by decide
example : ¬ Disjoint 0 3 1 1 := by decide

example : li 10 129280 = [.b (.lui 10 32), .b (.alui .addi 10 10 (-1792))] := by decide
example : li 10 (-5) = [.b (.alui .addi 10 0 (-5))] := by decide
example : (hi20 (adjust 0x7FFFF800) : Int) * 4096 + sext 12 (lo12 (adjust 0x7FFFF800)) = 0x7FFFF800 + 4294967296 - 4294967296 := by
  decide
example : cluiCond 100000 = true ∧ cluiAddi 10 100000 = [.c (.lui 10 24), .b (.alui .addi 10 10 1696)] := by decide

/-- before the repair the rvc pattern accepted 0x1F900 (`cluiCondOld`), and what it emits loads 0xFFFDF900 -/
example : cluiCondOld 0x1F900 = true ∧ cluiCond 0x1F900 = false := by decide
example : cluiAddi 10 0x1F900 = [.c (.lui 10 (-32)), .b (.alui .addi 10 10 (-1792))] := by decide
example : ofInt ((((-32 : Int) % 2 ^ 20).toNat : Int) * 4096 + (-1792)) = 0xFFFDF900 := by decide

example : armArgs [⟨.int, 4, 4⟩, ⟨.int, 4, 4⟩, ⟨.blob, 12, 12⟩, ⟨.int, 4, 4⟩, ⟨.int, 4, 4⟩, ⟨.int, 1, 1⟩, ⟨.int, 4, 4⟩]
    = [.reg 1, .reg 2, .stack 8 12, .reg 3, .reg 4, .stack 20 1, .stack 21 4] := by decide
example : riscvArgs true ((List.replicate 8 ⟨.flt, 8, 4⟩) ++ [⟨.int, 4, 4⟩])
    = [.freg 12, .freg 13, .freg 14, .freg 15, .freg 16, .freg 17, .stack 0 4, .stack 4 4, .reg 12] := by decide
/-- before the repair the 7th and 8th `f64` were `Stack[8 bytes at 0]` and `Stack[8 bytes at 4]` -/
example : ¬ Loc.Distinct (.stack 0 8) (.stack 4 8) := by decide

example : runStream [.label 1, .other default, .label 2, .other default] = [.label 1, .other default, .label 2, .other default] :=
  peephole_identity_without_jump_effects _ (by intro x hx t; simp at hx; rcases hx with rfl | rfl | rfl | rfl <;> simp)

end Props.C05
