import PpciVerif.Model.Py2Ir
import PpciVerif.Model.Py2IrSem
import PpciVerif.Spec.Py
import PpciVerif.Spec.IR
import PpciVerif.Gen.Py2Ir
import PpciVerif.Proofs.Py2Ir
import PpciVerif.Proofs.Py2IrCFG
import PpciVerif.Proofs.Py2IrCond
/-!
# C36 — the Python front-end computes what CPython computes

Property theorems only.  Model: `Model.Py2Ir` (hand model of `ppci/lang/python/python2ir.py`
after the `fix:` commits; tied to the source by the table dump `Gen.Py2Ir` and by a structural
comparison with the real front-end's output on every run).  Specifications: `Spec.Py` (CPython
integer semantics), `Spec.IRArith` / `Spec.IR` (IR run-time semantics).

* tables: the model's operator / comparison / type tables are those of the checked source tree;
* operators: for ALL operand values, the code emitted for `+ - * //` computes CPython's value
  whenever it fits 64 bits; `%` is rejected; `/` on ints is PARTIAL (open finding);
* comparisons: each comparison class is lowered to the condition with CPython's truth value;
* expressions: for ALL expression trees (induction) the emitted code computes CPython's value;
* boolean conditions: for ALL trees of comparisons joined by `and` / `or` the emitted blocks branch
  to `yes_block` exactly when CPython's short-circuit evaluation is true, to `no_block` when false;
* block structure, for ALL statement trees: jump targets exist; a for-loop's test block is entered
  only from the block in front of the loop and from the loop's increment block, and these are the
  phi's inputs; `continue` jumps to the innermost loop's continue target, which for a for-loop is
  the increment block.
-/
namespace Props.C36
open Model.Py2Ir Proofs.Py2Ir Proofs.Py2IrCFG Proofs.Py2IrCond
open Spec.Py (In64 BinOp CmpOp)

/-! ### the model's tables are the tables of the checked source tree (translation) -/

/-- `PythonToIrCompiler.binop_map` (in particular: `FloorDiv` is no longer mapped to "/"). -/
theorem binop_table_matches_source : binopMap = Gen.Py2Ir.binopMap := by decide

/-- the comparison table in the source of `gen_compare`. -/
theorem compare_table_matches_source : cmpMap = Gen.Py2Ir.cmpMap := by decide

/-- `type_mapping`: `int ↦ i64`, `float ↦ f64`, `str ↦ ptr`. -/
theorem type_mapping_matches_source :
    typeMapping.map (fun (k, t) => (k, t.name)) = Gen.Py2Ir.typeMapping := by decide

/-- every IR operator the model emits (table entries and the floor-division sequence) is an
    `ir.Binop` operator of the source tree and an operator of `Spec.IRArith`; every condition is
    an `ir.CJump` condition and a condition of `Spec.IR`. -/
theorem emitted_operators_exist :
    (∀ s ∈ binopMap.map Prod.snd ++ ["/", "%", "^", ">>", "-", "|", "&", "+"],
        s ∈ Gen.Py2Ir.irBinops ∧ (irOp? s).isSome = true) ∧
    (∀ s ∈ cmpMap.map Prod.snd ++ ["<"],
        s ∈ Gen.Py2Ir.irConds ∧ (Spec.IR.Cond.all.find? (fun c => c.symbol = s)).isSome = true) := by
  decide

/-! ### operators -/

/-- registers holding the two operands as parameters 0 and 1 -/
def args (a b : Int) : Regs := ⟨[a, b], fun _ => none⟩

/-- **Operator agreement.**  For every Python operator class, all operand values within 64 bits:
    whatever code `gen_arithmetic` emits for the operator at type i64 — if CPython's result is an
    int `v` within 64 bits, that code runs without undefined behaviour and produces `v`. -/
theorem binop_agrees (op : BinOp) (a b v : Int) (code : List Instr) (vr : Val) (n' : Nat)
    (hg : genArith op.astName .i64 (.param 0) (.param 1) 0 = .ok (code, vr, n'))
    (ha : In64 a) (hb : In64 b) (hv : (Spec.Py.binop op a b).int? = some v) (hv64 : In64 v) :
    ∃ r', exec (fun _ => none) code (args a b) = some r' ∧ r'.get vr = some v := by
  obtain ⟨r', h1, h2, _⟩ := genArith_exec op (fun _ => none) (args a b) (.param 0) (.param 1) 0 a b v code vr n' hg
    rfl rfl trivial trivial ((in64_iff a).1 ha) ((in64_iff b).1 hb) hv ((in64_iff v).1 hv64)
  exact ⟨r', h1, h2⟩

/-- … and `+ - * //` are compiled (so the statement above is not vacuous for them), e.g. `//` is
    the eleven-instruction floor-division sequence. -/
theorem arithmetic_operators_compile (op : BinOp) (h : op = .add ∨ op = .sub ∨ op = .mult ∨ op = .floordiv) :
    ∃ r, genArith op.astName .i64 (.param 0) (.param 1) 0 = .ok r := by
  rcases h with rfl | rfl | rfl | rfl <;> exact ⟨_, rfl⟩

/-- the same as one equation about the executable `runArith` (used by the driver): for
    `+ - * //` the emitted code evaluates to CPython's value. -/
theorem runArith_agrees (op : BinOp) (a b v : Int) (h : op = .add ∨ op = .sub ∨ op = .mult ∨ op = .floordiv)
    (ha : In64 a) (hb : In64 b) (hv : (Spec.Py.binop op a b).int? = some v) (hv64 : In64 v) :
    runArith op.astName a b = .ok (some v) := by
  obtain ⟨⟨code, vr, n'⟩, hg⟩ := arithmetic_operators_compile op h
  obtain ⟨r', h1, h2⟩ := binop_agrees op a b v code vr n' hg ha hb hv hv64
  have h1' : exec (fun _ => none) code ⟨[a, b], fun _ => none⟩ = some r' := h1
  simp [runArith, hg, h1', h2]

/-- `%` (and every operator outside the table) is rejected with a diagnostic: no code, no wrong value. -/
theorem mod_rejected (ty : Ty) (a b : Val) (n : Nat) : genArith "Mod" ty a b n = .error .compilerError := by
  cases ty <;> rfl

/-- `//` on floats is rejected with a diagnostic (it used to become a true division). -/
theorem float_floordiv_rejected (a b : Val) (n : Nat) : genArith "FloorDiv" .f64 a b n = .error .compilerError := rfl

/-- the full statement for `/` on two ints — FALSE for the code as it is (open finding
    `binop:Div:int-operands-truncating-division`): the front-end emits the truncating IR division,
    CPython computes a float. -/
def div_agrees_full : Prop :=
  ∀ a b : Int, In64 a → In64 b → b ≠ 0 →
    ∃ w, runArith "Div" a b = .ok (some w) ∧ (Spec.Py.binop .div a b).isInt w

/-- negation witness: `7 / 2` is 3.5 in CPython, the emitted code computes 3. -/
example : runArith "Div" 7 2 = .ok (some 3) ∧ ¬ (Spec.Py.binop .div 7 2).isInt 3 := ⟨rfl, by decide⟩

example : ¬ div_agrees_full := by
  intro h
  obtain ⟨w, h1, h2⟩ := h 7 2 (by decide) (by decide) (by decide)
  have : w = 3 := by
    have h3 : runArith "Div" 7 2 = .ok (some 3) := rfl
    rw [h3] at h1
    injection h1 with h1; injection h1 with h1; exact h1.symm
  subst this
  exact absurd h2 (by decide)

/-- **`/` on ints, partial**: outside the failing region — the divisor divides the dividend and the
    quotient is exactly representable as a float — the emitted truncating division yields the
    integer CPython's float result is equal to. -/
theorem div_agrees_partial (a b : Int) (ha : In64 a) (hb : In64 b) (hb0 : b ≠ 0) (hd : b ∣ a)
    (hq : -(2 ^ 53) ≤ a / b ∧ a / b ≤ 2 ^ 53) :
    ∃ w, runArith "Div" a b = .ok (some w) ∧ (Spec.Py.binop .div a b).isInt w := by
  have ha' := (inRange64 a).1 ((in64_iff a).1 ha)
  have hnd : ¬ Spec.IRArith.divUndefined .i64 a b := by
    intro h
    rcases h with h | ⟨_, h1, h2⟩
    · exact hb0 h
    · subst h2
      have h1' : a = -9223372036854775808 := by
        simpa [Spec.IRArith.Ty.minVal, Spec.IRArith.Ty.signed, Spec.IRArith.Ty.bits] using h1
      subst h1'
      omega
  refine ⟨Int.tdiv a b, ?_, ?_⟩
  · simp [runArith, genArith, lookup, binopMap, exec, execInstr, Regs.get, Regs.set, irOp_div,
      Spec.IRArith.binop, hnd]
  · have ht : Int.tdiv a b = a / b := Int.tdiv_eq_ediv_of_dvd hd
    simp only [Spec.Py.binop, hb0, if_false, Spec.Py.Res.isInt]
    rw [ht]
    exact ⟨Int.ediv_mul_cancel hd, hq.1, hq.2⟩

example : ∃ w, runArith "Div" (-6) 3 = .ok (some w) ∧ (Spec.Py.binop .div (-6) 3).isInt w :=
  div_agrees_partial (-6) 3 (by decide) (by decide) (by decide) ⟨-2, by decide⟩ (by decide)

/-- non-vacuity / regression: the operand pair of the repaired defect (`-7 // 2` was -3). -/
example : runArith "FloorDiv" (-7) 2 = .ok (some (-4)) :=
  runArith_agrees .floordiv (-7) 2 (-4) (by simp) (by decide) (by decide) (by decide) (by decide)

/-! ### comparisons -/

/-- **Comparison agreement.**  Each of the six comparison classes is in the table, its entry is a
    `CJump` condition of the IR, and for all ints the IR condition has CPython's truth value. -/
theorem compare_agrees (op : CmpOp) :
    ∃ sym c, lookup op.astName cmpMap = some sym ∧ Spec.IR.Cond.symbol c = sym ∧
      ∀ a b : Int, Spec.IR.evalCond c (.int a) (.int b) = .ok (op.holds a b) := by
  cases op
  · exact ⟨">", .gt, rfl, rfl, fun a b => by simp [Spec.IR.evalCond, CmpOp.holds]⟩
  · exact ⟨">=", .ge, rfl, rfl, fun a b => by simp [Spec.IR.evalCond, CmpOp.holds]⟩
  · exact ⟨"<", .lt, rfl, rfl, fun a b => by simp [Spec.IR.evalCond, CmpOp.holds]⟩
  · exact ⟨"<=", .le, rfl, rfl, fun a b => by simp [Spec.IR.evalCond, CmpOp.holds]⟩
  · exact ⟨"==", .eq, rfl, rfl, fun a b => by
      simp only [Spec.IR.evalCond, CmpOp.holds]; by_cases h : a = b <;> simp [h]⟩
  · exact ⟨"!=", .ne, rfl, rfl, fun a b => by
      simp only [Spec.IR.evalCond, CmpOp.holds]; by_cases h : a = b <;> simp [h]⟩

/-! ### expressions -/

/-- **Expression agreement** (induction over the tree).  For every integer expression over literals,
    local variables and binary operators, every environment of locals held in memory: if `gen_expr`
    produces code and CPython evaluates the expression to `x` with every value that arises within 64
    bits, then the code is of type i64, runs without undefined behaviour and leaves `x` in its
    result value. -/
theorem expr_agrees (locals : List (String × Var)) (σ : Spec.Py.Env) (μ : Val → Option Int)
    (hl : LocalsOk locals σ μ) (e : Spec.Py.Expr) (n : Nat) (r : Regs) (x : Int)
    (code : List Instr) (vr : Val) (t : Ty) (n' : Nat)
    (hg : genExpr locals (embed e) n = .ok (code, vr, t, n')) (he : Spec.Py.eval64 σ e = some x) :
    ∃ r', exec μ code r = some r' ∧ r'.get vr = some x ∧ t = .i64 := by
  obtain ⟨r', h1, h2, h3, _⟩ := genExpr_exec locals σ μ hl e n r x code vr t n' hg he
  exact ⟨r', h1, h2, h3⟩

/-- the expression `(a - 7) // (b * 2)`, its environment a = -6, b = 3, and the locals in memory -/
def exE : Spec.Py.Expr := .binop .floordiv (.binop .sub (.name "a") (.num 7)) (.binop .mult (.name "b") (.num 2))
def exσ : Spec.Py.Env := fun x => if x = "a" then some (-6) else if x = "b" then some 3 else none
def exLocals : List (String × Var) := [("a", ⟨.tmp 1, true, .i64⟩), ("b", ⟨.tmp 3, true, .i64⟩)]

/-- non-vacuity: `-13 // 6 = -3` in CPython (the truncating division would give -2); the model
    compiles the expression, so the theorem applies. -/
example : Spec.Py.eval64 exσ exE = some (-3) ∧ (genExpr exLocals (embed exE) 4).toOption.isSome = true := by
  decide

/-! ### boolean conditions -/

/-- **Condition agreement** (induction over the condition tree).  For every condition built from
    comparisons of integer expressions with `and` / `or`, generated by `gen_cond(c, yes, no)` in a
    builder state whose blocks exist (`yes`, `no`, the current block) and whose locals are held in
    memory: if CPython's short-circuit evaluation, with every value within 64 bits, yields `tv`,
    then running the instructions appended to the current block and following the conditional jumps
    through the event log, control enters `yes` if `tv` is true and `no` if it is false, without
    undefined behaviour; all blocks entered on the way were created for this condition
    (in particular operands that CPython does not evaluate are not executed). -/
theorem cond_agrees (σ : Spec.Py.Env) (μ : Val → Option Int) (c : Spec.Py.Cond) (yes no : Nat) (st st' : St)
    (tv : Bool) (seg : List Event) (hg : genCond (embedCond c) yes no st = .ok st')
    (he : Spec.Py.evalCond64 σ c = some tv) (hl : LocalsOk st.locals σ μ)
    (hy : yes < st.nblocks) (hn : no < st.nblocks) (hc : st.cur < st.nblocks) (hw : LogWF st)
    (hseg : st'.log = st.log ++ seg) (r : Regs) :
    ∃ r', Arrives μ st'.log (fun u => st.nblocks ≤ u ∧ u < st'.nblocks) (blockInstrs seg st.cur) r
      (if tv then yes else no) r' :=
  genCond_sem σ μ c yes no st st' tv seg hg he hl hy hn hc hw hseg r

/-- a builder state with blocks 0 (current), 1, 2 and the locals of `exLocals` -/
def exSt : St := { nblocks := 3, cur := 0, nvals := 4, locals := exLocals, loops := [], log := [] }

/-- `a < 0 and b // a == 5 or b > 2` at a = -6, b = 3: CPython evaluates `a < 0` (true),
    `b // a == 5` (`3 // -6 = -1`, false), then `b > 2` (true) -/
def exC : Spec.Py.Cond :=
  .or (.and (.cmp .lt (.name "a") (.num 0)) (.cmp .eq (.binop .floordiv (.name "b") (.name "a")) (.num 5)))
      (.cmp .gt (.name "b") (.num 2))

/-- non-vacuity: the condition is generated from `exSt` and CPython's value is `True`. -/
example : Spec.Py.evalCond64 exσ exC = some true ∧ (genCond (embedCond exC) 1 2 exSt).toOption.isSome = true := by
  decide

/-! ### block structure -/

/-- **Structure of a generated function**, for every parameter list, return annotation and statement
    tree (if / while / for / break / continue / return / assignments, arbitrarily nested) for which
    the front-end produces a function:
    (1) every jump targets a block that exists and is not the entry block;
    (2) every phi (one per for-loop, in the loop's test block `b`) has exactly two inputs, and they
        come from exactly the blocks that jump to `b`, in the same order: a block `e` in front of the
        loop and block `b + 2`, the loop's increment block.  In particular no `continue` (or any
        other jump) enters the test block directly, and the back-edge predecessor recorded in the
        phi is the block that really jumps back. -/
theorem function_structure (params : List (String × Ty)) (ret : Option Ty) (body : PStmt) (st : St)
    (h : genFunctionSt params ret body = .ok st) :
    (∀ b i, Event.emit b i ∈ st.log → ∀ t ∈ i.targets, 1 ≤ t ∧ t < st.nblocks) ∧
    (∀ b d ty, Event.emit b (.phi d ty) ∈ st.log →
        1 ≤ b ∧ b < st.nblocks ∧ ∃ e, srcs st.log b = [e, b + 2] ∧ phiIns st.log d = [e, b + 2]) := by
  have hs := genFunctionSt_step params ret body st h
  refine ⟨fun b i he t ht => ?_, fun b d ty he => ?_⟩
  · rcases hs.tg b i he t ht with h1 | h1
    · exact h1
    · simp at h1
  · obtain ⟨h1, h2, _, _, h5⟩ := hs.ph b d ty he
    exact ⟨h1, h2, h5⟩

/-- the same for any statement generated in any builder state: targets are new blocks or the
    break/continue targets of the enclosing loops, phis as above, and the loop stack is restored. -/
theorem statement_structure (isProc : Bool) (s : PStmt) (st st' : St)
    (hA : ∀ t ∈ loopTargets st.loops, t < st.nblocks) (h : genStmt isProc s st = .ok st') :
    st'.loops = st.loops ∧
    ∃ seg, st'.log = st.log ++ seg ∧ SegP (loopTargets st.loops) st.nblocks st.nvals st'.nblocks st'.nvals seg :=
  let hs := genStmt_step isProc s st st' hA h
  ⟨hs.2, hs.1⟩

/-- **`continue` jumps to the continue target of the innermost loop** … -/
theorem continue_jumps_to_loop_target (isProc : Bool) (st st' : St) (c b : Nat) (rest : List (Nat × Nat))
    (hl : st.loops = (c, b) :: rest) (h : genStmt isProc .cont st = .ok st') :
    st'.log = st.log ++ [.emit st.cur (.jump c)] := by
  simp only [genStmt, hl, St.newBlock, Except.ok.injEq] at h
  subst h
  simp [St.setBlock, St.emit]

/-- … **which, while the body of a for-loop is generated, is the loop's increment block**
    (`test = nb`, `body = nb+1`, `increment = nb+2`, `final = nb+3`; `break` goes to `final`) … -/
theorem for_body_loop_targets (st3 : St) (iInit n2 : Val) (lv : Var) :
    (forEnter st3 iInit n2 lv).loops = (st3.nblocks + 2, st3.nblocks + 3) :: st3.loops ∧
    (forEnter st3 iInit n2 lv).cur = st3.nblocks + 1 := by
  simp [forEnter, St.emit, St.newBlock, St.setBlock]

/-- … **and the increment block receives exactly `one = 1; next = phi + one; jump test`, `next`
    being the phi's input from the increment block.**  (The body's last block jumps to it.) -/
theorem for_increment_block (st3 st14 : St) :
    (forLeave st3 st14).log = st14.log ++
      [Event.emit st14.cur (.jump (st3.nblocks + 2)),
       .emit (st3.nblocks + 2) (.const st14.nvals .i64 1),
       .emit (st3.nblocks + 2) (.binop (st14.nvals + 1) .i64 "+" (.tmp st3.nvals) (.tmp st14.nvals)),
       .incoming st3.nvals (st3.nblocks + 2) (.tmp (st14.nvals + 1)),
       .emit (st3.nblocks + 2) (.jump st3.nblocks)] :=
  forLeave_log st3 st14

/-- the for-statement is generated as: range arguments, loop variable, `forEnter`, body, `forLeave`. -/
theorem for_statement_shape (isProc : Bool) (x : String) (lo : Option PExpr) (hi : PExpr) (body : PStmt)
    (st st' : St) (h : genStmt isProc (.fors x lo hi body) st = .ok st') :
    ∃ iInit st1 n2 t2 st2 lv st3 st14,
      forPre st lo = .ok (iInit, st1) ∧ st1.expr hi = .ok (n2, t2, st2) ∧
      getVariable st2 x (some .i64) = .ok (lv, st3) ∧
      genStmt isProc body (forEnter st3 iInit n2 lv) = .ok st14 ∧ st' = forLeave st3 st14 := by
  simp only [genStmt] at h
  cases h1 : forPre st lo with
  | error er => simp [h1] at h
  | ok r1 =>
    obtain ⟨iInit, st1⟩ := r1
    simp only [h1] at h
    cases h2 : st1.expr hi with
    | error er => simp [h2] at h
    | ok r2 =>
      obtain ⟨n2, t2, st2⟩ := r2
      simp only [h2] at h
      cases h3 : getVariable st2 x (some .i64) with
      | error er => simp [h3] at h
      | ok r3 =>
        obtain ⟨lv, st3⟩ := r3
        simp only [h3] at h
        cases h4 : genStmt isProc body (forEnter st3 iInit n2 lv) with
        | error er => simp [h4] at h
        | ok st14 =>
          simp only [h4, Except.ok.injEq] at h
          exact ⟨iInit, st1, n2, t2, st2, lv, st3, st14, rfl, h2, h3, h4, h.symm⟩

/-- **The end expression of `range()` is evaluated once, in the block in front of the loop.**
    For every for-statement generated in a state whose current block exists: the code of the end
    expression `hi` is appended to the block that is current *before* the loop (`st.cur`; no block has
    been created yet), and the loop's test block (`st.nblocks`, created afterwards) receives from
    `gen_for` exactly the phi and the conditional jump that compares the phi with the *value* `n2`
    computed there — so assignments in the body to variables of `hi` cannot change the trip count.
    (Tied to the real front-end by the instruction-by-instruction comparison of every generated
    function: code for the end expression inside the test block is a model/implementation
    disagreement.) -/
theorem for_range_end_evaluated_before_loop (isProc : Bool) (x : String) (lo : Option PExpr) (hi : PExpr)
    (body : PStmt) (st st' : St) (hc : st.cur < st.nblocks)
    (h : genStmt isProc (.fors x lo hi body) st = .ok st') :
    ∃ iInit st1 n2 t2 code n lv st3 st14 seg,
      forPre st lo = .ok (iInit, st1) ∧ st1.cur = st.cur ∧ st1.nblocks = st.nblocks ∧
      genExpr st1.locals hi st1.nvals = .ok (code, n2, t2, n) ∧
      getVariable { st1 with log := st1.log ++ code.map (Event.emit st.cur), nvals := n } x (some .i64) = .ok (lv, st3) ∧
      st3.cur = st.cur ∧ st3.nblocks = st.nblocks ∧
      (forEnter st3 iInit n2 lv).log = st3.log ++ seg ∧
      blockInstrs seg st.nblocks =
        [.phi st3.nvals .i64, .cjump (.tmp st3.nvals) "<" n2 (st.nblocks + 1) (st.nblocks + 3)] ∧
      genStmt isProc body (forEnter st3 iInit n2 lv) = .ok st14 ∧ st' = forLeave st3 st14 := by
  obtain ⟨iInit, st1, n2, t2, st2, lv, st3, st14, h1, h2, h3, h4, h5⟩ := for_statement_shape isProc x lo hi body st st' h
  have hpre : st1.cur = st.cur ∧ st1.nblocks = st.nblocks := by
    cases lo with
    | none =>
      simp only [forPre, Except.ok.injEq, Prod.mk.injEq] at h1
      obtain ⟨_, rfl⟩ := h1
      exact ⟨rfl, rfl⟩
    | some e =>
      simp only [forPre] at h1
      cases he : st.expr e with
      | error er => simp [he] at h1
      | ok r =>
        obtain ⟨v', t', s'⟩ := r
        simp only [he, Except.ok.injEq, Prod.mk.injEq] at h1
        obtain ⟨_, rfl⟩ := h1
        obtain ⟨c', n', _, rfl⟩ := expr_spec st e v' t' s' he
        exact ⟨rfl, rfl⟩
  obtain ⟨code, n, hg, rfl⟩ := expr_spec st1 hi n2 t2 st2 h2
  have hvar : st3.cur = st1.cur ∧ st3.nblocks = st1.nblocks := by
    simp only [getVariable] at h3
    split at h3
    · simp only [Except.ok.injEq, Prod.mk.injEq] at h3
      obtain ⟨_, rfl⟩ := h3
      exact ⟨rfl, rfl⟩
    · simp only [Except.ok.injEq, Prod.mk.injEq] at h3
      obtain ⟨_, rfl⟩ := h3
      exact ⟨rfl, rfl⟩
  have hcur3 : st3.cur = st.cur := by rw [hvar.1, hpre.1]
  have hnb3 : st3.nblocks = st.nblocks := by rw [hvar.2, hpre.2]
  refine ⟨iInit, st1, n2, t2, code, n, lv, st3, st14, _, h1, hpre.1, hpre.2, hg, by rw [← hpre.1]; exact h3,
    hcur3, hnb3, forEnter_log st3 iInit n2 lv, ?_, h4, h5⟩
  have hne : st.cur ≠ st.nblocks := by omega
  simp [blockInstrs, hcur3, hnb3, hne]

/-- `for i in range(n): (if i > 2: continue); s += i` followed by `return s` — the shape of the
    repaired defect -/
def exLoop : PStmt := .seq (.assign "s" (.num 0)) (.seq
  (.fors "i" none (.name "n") (.seq (.ifs (.cmp "Gt" (.name "i") (.num 2)) .cont .pass)
    (.aug "s" "Add" (.name "i")))) (.ret (some (.name "s"))))

/-- non-vacuity: the function is generated; its phi (value 9, block 1) has the inputs
    [block 0, block 3], and block 3 is the increment block the `continue` (in block 5) jumps to. -/
example :
    (match genFunctionSt [("n", .i64)] (some .i64) exLoop with
     | .ok st => decide (srcs st.log 1 = [0, 3] ∧ phiIns st.log 9 = [0, 3] ∧ Event.emit 5 (.jump 3) ∈ st.log
                  ∧ Event.emit 1 (.phi 9 .i64) ∈ st.log)
     | .error _ => false) = true := by
  decide

end Props.C36
