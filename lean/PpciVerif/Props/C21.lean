import PpciVerif.Model.WasmBin
import PpciVerif.Gen.WasmOpcodes
import PpciVerif.Spec.Leb
import PpciVerif.Proofs.WasmBinModule
import PpciVerif.Proofs.WasmBinCanon3
import PpciVerif.Model.WatIds
/-!
# C21 — WebAssembly modules round-trip through the binary form

Property theorems only.  Model: `Model.WasmBin` (hand model of
`ppci/wasm/binary/writer.py` and `reader.py`, tied by correspondence), its
dictionaries are `Gen.WasmOpcodes.tables` (regenerated from the live ppci
objects on every run).  Every theorem about the model is stated for an
arbitrary table record `T` with `T.Sane`; `tables_sane` discharges that
hypothesis for the regenerated tables by kernel evaluation.

The property is claimed at level P: the clauses about the text format and about acceptance by a
reference engine are not formalised here at all (no text-layer model; no reference engine in the
sandbox), so no `_full` statement for them exists in this file.  The binary clause is proved in
both directions (`read_write`, `canonical_input_reproduced`), except for what `Valid` / `Canon`
exclude because of the open finding on f32 signalling-NaN constants (negation witness below).
-/
namespace Props.C21
open Model.WasmBin Proofs.WasmBin
open Model.Leb128 (uencLoop sencLoop)

/-- the regenerated tables -/
abbrev G : Tables := Gen.WasmOpcodes.tables

/-! ### the opcode / value-type tables of the checked tree -/

/-- Table sanity, by kernel evaluation over the regenerated dictionaries: every mnemonic's
    `OPCODES` entry is a byte other than 0xFC/0xFD or a pair (0xFC|0xFD, s) that `REVERZ` maps
    back to the same mnemonic (so no two mnemonics share an encoding), `REVERZ` has no other
    entries (except 0x1B for `select`), `result_types` only occurs as the sole operand of 0x1C,
    every value type is one byte that `LANG_TYPES_REVERSE` maps back, `end` is 0x0B without operands. -/
theorem tables_sane : G.Sane = true := by decide +kernel

/-- opcodes are unique: two mnemonics with the same `OPCODES` entry are the same mnemonic -/
theorem opcodes_unique (T : Tables) (hT : T.Sane = true) (i j : Nat) (k : Nat × Option Nat)
    (hi : T.opcodeOf i = some k) (hj : T.opcodeOf j = some k) : i = j := by
  have lt : ∀ n, T.opcodeOf n = some k → n < T.count ∧ T.opcodeKey n = some k := by
    intro n h
    simp only [Tables.opcodeOf] at h
    split at h
    · exact ⟨by assumption, h⟩
    · simp at h
  obtain ⟨hil, hik⟩ := lt i hi
  obtain ⟨hjl, hjk⟩ := lt j hj
  obtain ⟨b, sub⟩ := k
  cases sub with
  | none =>
    have a := row_single hT i b hil hik
    have c := row_single hT j b hjl hjk
    rw [a] at c; exact Option.some.inj c
  | some s =>
    have a := row_pair hT i b s hil hik
    have c := row_pair hT j b s hjl hjk
    rw [a] at c; exact Option.some.inj c

/-- every instruction of the checked tree that passes `instrOk` is read back from its encoding
    (generic over the whole opcode table: control, variable, memory, numeric, conversion,
    saturating, vector instructions alike) -/
theorem instruction_roundtrip (strict : Bool) (i : Instr) (rest : Bytes) (h : instrOk G i = true) :
    rInstr G strict (encInstr G i ++ rest) = .ok (i, rest) :=
  rInstr_enc tables_sane strict i rest h

/-! ### LEB128 immediates (C20) -/

/-- every unsigned LEB128 number the writer emits (sizes, counts, indices, `u32` immediates,
    sub-opcodes) is the canonical C20 encoding, and the reader gets the number back -/
theorem unsigned_immediate (strict : Bool) (n : Nat) (rest : Bytes) :
    Spec.Leb.UCanonical (encU n) n ∧ rU strict (encU n ++ rest) = .ok (n, rest) :=
  ⟨(Props.C20.unsigned_encode_canonical n).2, rU_enc strict n rest⟩

/-- the same for the signed immediates (`i32.const` / `i64.const`, any integer) -/
theorem signed_immediate (strict : Bool) (z : Int) (rest : Bytes) :
    Spec.Leb.SCanonical (encS z) z ∧ rS strict (encS z ++ rest) = .ok (z, rest) :=
  ⟨Props.C20.signed_encode_canonical z, rS_enc strict z rest⟩

/-! ### framing and value layer -/

/-- section framing: `id, size, payload` followed by anything is split into exactly that -/
theorem section_framing (strict : Bool) (id : Nat) (hid : id < 128) (payload rest : Bytes) :
    rFrame strict (encSection id payload ++ rest) = .ok ((id, payload), rest) :=
  rFrame_enc strict id hid payload rest

/-- vectors: a count followed by the items -/
theorem vector_roundtrip {α} (strict : Bool) (p : P α) (enc : α → Bytes) (xs : List α) (rest : Bytes)
    (h : ∀ x ∈ xs, ∀ rest, p (enc x ++ rest) = .ok (x, rest)) :
    rVec strict p (encVec enc xs ++ rest) = .ok (xs, rest) :=
  rVec_enc strict p enc xs rest h

/-- names: length-prefixed UTF-8 -/
theorem name_roundtrip (strict : Bool) (s rest : Bytes) (h : utf8Valid s = true) :
    rName strict (encName s ++ rest) = .ok (s, rest) :=
  rName_enc strict s rest h

theorem limits_roundtrip (strict : Bool) (l : Limits) (rest : Bytes) :
    rLimits strict (encLimits l ++ rest) = .ok (l, rest) :=
  rLimits_enc strict l rest

theorem valtype_roundtrip (t : Nat) (rest : Bytes) (h : typeOk G t = true) :
    rType G (encType G t ++ rest) = .ok (t, rest) :=
  rType_enc tables_sane t rest h

theorem functype_roundtrip (strict : Bool) (t : FuncType) (rest : Bytes)
    (h : (t.params.all (typeOk G) && t.results.all (typeOk G)) = true) :
    rFuncType G strict (encFuncType G t ++ rest) = .ok (t, rest) :=
  rFuncType_enc tables_sane strict t rest h

/-- import descriptors (func / table / memory / global) -/
theorem import_roundtrip (strict : Bool) (i : Import) (rest : Bytes) (h : importOk G i = true) :
    rImport G strict (encImport G i ++ rest) = .ok (i, rest) :=
  rImport_enc tables_sane strict i rest h

theorem export_roundtrip (strict : Bool) (e : Export) (rest : Bytes)
    (h : (utf8Valid e.name && decide (e.kind < 4)) = true) :
    rExport strict (encExport e ++ rest) = .ok (e, rest) :=
  rExport_enc strict e rest h

/-- expressions / function bodies: any well-nested list of valid instructions -/
theorem expression_roundtrip (strict : Bool) (is : List Instr) (rest : Bytes) (h : exprOk G is = true) :
    rExpr G strict (encExpr G is ++ rest) = .ok (is, rest) :=
  rExpr_enc tables_sane strict is rest h

/-! ### whole modules -/

/-- **read ∘ write = id.**  For every module in the modelled feature set (`Valid`), the reader
    applied to the bytes the writer produces returns the module (definitions in section order,
    which is how the writer emitted them).  `strict = false` is the Python reader. -/
theorem read_write (m : List Def) (h : Valid G m = true) :
    readModule G false (encModule G m) = .ok (normalize m) :=
  readModule_enc tables_sane false m h

/-- the same for an arbitrary table record that passes the sanity check -/
theorem read_write_generic (T : Tables) (hT : T.Sane = true) (strict : Bool) (m : List Def) (h : Valid T m = true) :
    readModule T strict (encModule T m) = .ok (normalize m) :=
  readModule_enc hT strict m h

/-- **the writer's output is canonically encoded** (accepted by the strict reader `Canon`):
    all LEB128 numbers minimal, sections in order and non-empty, maximal local runs, … -/
theorem write_is_canonical (m : List Def) (h : Valid G m = true) : Canon G (encModule G m) = true := by
  simp [Canon, readModule_enc tables_sane true m h]

/-- **write ∘ read ∘ write = write**: re-reading and re-writing a binary produced by the writer
    reproduces it byte for byte -/
theorem write_read_write (m : List Def) (h : Valid G m = true) :
    (readModule G false (encModule G m)).map (encModule G) = .ok (encModule G m) := by
  rw [read_write m h]
  simp [Except.map, encModule_normalize]

/-- the module read back is again in the feature set, and reading is idempotent on it -/
theorem read_write_stable (m : List Def) (h : Valid G m = true) :
    Valid G (normalize m) = true ∧ normalize (normalize m) = normalize m :=
  ⟨valid_normalize G m h, normalize_idem m⟩

/-- **write ∘ read = id on canonical input** (the first clause of C21, on the model): if the strict
    reader accepts `bs` (i.e. `bs` is canonically encoded) then the module `m` it returns is in the
    feature set, is already in section order, and the writer's bytes for `m` are exactly `bs`. -/
theorem canonical_reread (bs : Bytes) (m : List Def) (h : readModule G true bs = .ok m) :
    encModule G m = bs ∧ Valid G m = true ∧ normalize m = m :=
  readModule_ok tables_sane h

/-- the strict reader only adds checks: on canonical input the Python-mirroring reader returns the
    same module -/
theorem strict_reader_agrees (bs : Bytes) (m : List Def) (h : readModule G true bs = .ok m) :
    readModule G false bs = .ok m := by
  obtain ⟨he, hv, hn⟩ := canonical_reread bs m h
  have := read_write m hv
  rw [he, hn] at this
  exact this

/-- **bytes → read → write reproduces the bytes for every canonically encoded input**, stated with
    the Python-mirroring reader and the writer-with-exceptions: the reader succeeds, and if the
    writer does not raise (it raises e.g. for an `i32.const` immediate of more than 5 LEB bytes,
    which no valid module contains) it returns exactly the input. -/
theorem canonical_input_reproduced (bs : Bytes) (hc : Canon G bs = true) :
    ∃ m, readModule G false bs = .ok m ∧ Valid G m = true ∧ encModule G m = bs ∧
      ∀ bs', writeModule G m = .ok bs' → bs' = bs := by
  simp only [Canon] at hc
  split at hc
  · rename_i m hm
    obtain ⟨he, hv, _⟩ := canonical_reread bs m hm
    refine ⟨m, strict_reader_agrees bs m hm, hv, he, ?_⟩
    intro bs' hw
    simp only [writeModule] at hw
    split at hw
    · simp at hw
    · simp only [Except.ok.injEq] at hw; rw [← hw, he]
  · simp at hc

/-- `Canon` is exactly the image of the writer on the feature set -/
theorem canon_iff_written (bs : Bytes) : Canon G bs = true ↔ ∃ m, Valid G m = true ∧ encModule G m = bs := by
  constructor
  · intro hc
    obtain ⟨m, _, hv, he, _⟩ := canonical_input_reproduced bs hc
    exact ⟨m, hv, he⟩
  · rintro ⟨m, hv, rfl⟩
    exact write_is_canonical m hv

/-! ### non-vacuity and negation witnesses -/

/-- a module with a nested block / loop / br_table body, a memory load with memarg, a memory,
    an active data segment and an export is `Valid` (ids: 2 block, 3 loop, 18 local.get, 9 br_table,
    6 end, 31 i32.load, 60 i32.const; types: 0 i32, 3 f64, 8 emptyblock) -/
example : Valid G
    [.type ⟨[0], [0]⟩, .memory ⟨1, none⟩, .export ⟨[0x66], 0, 0⟩,
     .func ⟨0, [0, 0, 3], [⟨2, [.ty 8]⟩, ⟨3, [.ty 8]⟩, ⟨18, [.idx 0]⟩, ⟨9, [.labels [1, 0]]⟩, ⟨6, []⟩, ⟨6, []⟩,
                            ⟨18, [.idx 0]⟩, ⟨31, [.u32 2, .u32 64]⟩]⟩,
     .data ⟨some (0, [⟨60, [.int 8]⟩]), [1, 2, 3]⟩] = true := by decide +kernel

/-- open finding (f32 signalling NaN): the reader does not return the constant it was given -/
example : rArg G false 0x43 .f32 [0x00, 0x00, 0xA0, 0x7F] = .ok (.raw [0x00, 0x00, 0xE0, 0x7F], []) := by
  decide +kernel

/-- … which is why `Valid` excludes exactly those constants -/
example : argOk G .f32 (.raw [0x00, 0x00, 0xA0, 0x7F]) = false := by decide +kernel
example : argOk G .f32 (.raw [0x00, 0x00, 0xC0, 0x7F]) = true := by decide +kernel

/-- non-canonical inputs are rejected by `Canon` but read by the Python-mirroring reader:
    a padded section size (`81 00` for 1) -/
example : Canon G (header ++ [1, 0x81, 0x00, 0x00]) = false ∧
    readModule G false (header ++ [1, 0x81, 0x00, 0x00]) = .ok [] := by decide +kernel

/-! ### text form: the id-assignment rule of the WAT parser (the only part of the text layer that is modelled) -/

section WatIds
open Model.WatIds

/-- a generated id `$n` is the index of its definition -/
theorem wat_auto_id_is_index : ∀ (names : List (Option Id)) (c i : Nat),
    names[i]? = some none → (assign c names)[i]? = some (.num (c + i))
  | [], _, i, h => by simp at h
  | none :: r, c, 0, _ => by simp [assign]
  | some x :: r, c, 0, h => by simp at h
  | none :: r, c, i + 1, h => by
    have := wat_auto_id_is_index r (c + 1) i (by simpa using h)
    simpa [assign, Nat.add_assoc, Nat.add_comm 1 i] using this
  | some x :: r, c, i + 1, h => by
    have := wat_auto_id_is_index r (c + 1) i (by simpa using h)
    simpa [assign, Nat.add_assoc, Nat.add_comm 1 i] using this

theorem wat_assign_getElem : ∀ (names : List (Option Id)) (c i : Nat) (x : Id),
    (assign c names)[i]? = some x → names[i]? = some (some x) ∨ (names[i]? = some none ∧ x = .num (c + i))
  | [], _, i, x, h => by simp [assign] at h
  | none :: r, c, 0, x, h => by simp [assign] at h; simp [h]
  | some y :: r, c, 0, x, h => by simp [assign] at h; simp [h]
  | none :: r, c, i + 1, x, h => by
    have := wat_assign_getElem r (c + 1) i x (by simpa [assign] using h)
    simpa [Nat.add_assoc, Nat.add_comm 1 i] using this
  | some y :: r, c, i + 1, x, h => by
    have := wat_assign_getElem r (c + 1) i x (by simpa [assign] using h)
    simpa [Nat.add_assoc, Nat.add_comm 1 i] using this

/-- when the parser accepts the definitions, a reference by id resolves to the definition's index -/
theorem wat_resolve_index (names : List (Option Id)) (ids : List Id) (h : parse names = some ids)
    (i : Nat) (hi : i < ids.length) : resolve ids ids[i] = some i := by
  simp only [parse] at h
  split at h
  · rename_i hn
    simp only [Option.some.injEq] at h
    subst h
    simp [resolve, List.Nodup.idxOf_getElem hn]
  · simp at h

/-- the `$0` convention is sound: if no user-written id has the form `$<decimal>`, a definition whose
    id "is zero" (so that the text writer omits `(table …)` / `(memory …)`) has index 0 -/
theorem wat_is_zero_sound (names : List (Option Id)) (hu : ∀ n, some (Id.num n) ∉ names)
    (i : Nat) (x : Id) (hx : (assign 0 names)[i]? = some x) (hz : isZero x = true) : i = 0 := by
  rcases wat_assign_getElem names 0 i x hx with h | ⟨_, h⟩
  · cases x with
    | user k => simp [isZero] at hz
    | num n => exact absurd (List.mem_of_getElem? h) (hu n)
  · subst h
    cases i with
    | zero => rfl
    | succ j => simp [isZero] at hz

/-- negation witness for the lazily advancing counter (round-3 seeded change): a named definition
    followed by an anonymous one gives the anonymous one the id `$0` at index 1 -/
example : (assignLazy 0 [some (.user 7), none])[1]? = some (.num 0) ∧ isZero (.num 0) = true := by decide
example : (assign 0 [some (.user 7), none])[1]? = some (.num 1) := by decide

end WatIds

end Props.C21
