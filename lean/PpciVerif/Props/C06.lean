import PpciVerif.Model.MCode
import PpciVerif.Model.RA
import PpciVerif.Proofs.RA
import PpciVerif.Proofs.RASpill
/-!
# C06 — register allocation never clobbers a live value (verified validator)

Property theorems only.  Machine model: `Model.MCode` (S5).  Validator:
`Model.RA.check` / `Model.RA.checkSpillStep`.  Helper lemmas: `Proofs.RA`.

Reading guide.  `p` is the instruction list the allocator coloured; `A` carries the
colouring, the alias table, the list of fixed (precoloured) register names, the set of
deleted (coalesced) moves and a claimed liveness annotation.  `vrun` runs `p` on virtual
registers (independent variables; fixed registers already behave like the physical
registers they are); `prun` runs it on physical registers through the colouring, where
every register write leaves arbitrary junk (`Js`) in all overlapping registers and every
clobber does the same.  `S : Sem Val σ` is an arbitrary interpretation of the opaque
instructions as functions of their declared uses and of the memory state; all theorems
quantify over it, over `Js`, over the initial state and over the number of steps.
-/
namespace Props.C06
open Model.MCode Model.RA Proofs.RA Proofs.RASpill

/-- **Soundness of the validator.**  If `check` accepts, then from any pair of related
    states — same program point, same memory, every live value present in its register —
    the coloured program and the virtual-register program stay related for any number of
    steps, whatever the instructions compute, whatever junk aliased writes leave behind,
    and whichever branches are taken. -/
theorem alloc_sound (p : Program) (A : Alloc) (h : check p A = true)
    {Val σ : Type} (S : Sem Val σ) (Js : Nat → PReg → Val) (n : Nat)
    (s : VState Val σ) (t : PState Val σ)
    (hpc : s.pc = t.pc) (hst : s.st = t.st)
    (hregs : ∀ v ∈ A.live s.pc, t.regs (A.colour v) = s.regs v) :
    let s' := vrun S A.model Js p n s
    let t' := prun S A.model A.removed Js p n t
    s'.pc = t'.pc ∧ s'.st = t'.st ∧ ∀ v ∈ A.live s'.pc, t'.regs (A.colour v) = s'.regs v :=
  run_rel S A Js p (check_sound p A h) n s t ⟨hpc, hst, hregs⟩

/-- The hypothesis of `alloc_sound` is satisfiable at function entry for EVERY initial
    virtual state when `entryOkB` holds too (no two values that are live-in at entry — read
    before any definition — share a register): there is a physical register file holding
    all entry-live values. -/
theorem entry_state_exists (p : Program) (A : Alloc) (h : check p A = true) (he : entryOkB A = true)
    {Val σ : Type} (R : VReg → Val) (st : σ) :
    ∃ P : PReg → Val, ∀ v ∈ A.live 0, P (A.colour v) = R v :=
  ⟨entryRegs A R, (entry_rel (σ := σ) A p (check_sound p A h) (entryOkB_sound A he) R st).2.2⟩

/-- **Sentence 1 of C06.**  In every execution from the function entry, at every step,
    the operands the coloured instruction reads from physical registers are exactly the
    values of the virtual registers it names — i.e. the most recent definitions along the
    path taken. -/
theorem reads_agree (p : Program) (A : Alloc) (h : check p A = true)
    {Val σ : Type} (S : Sem Val σ) (Js : Nat → PReg → Val) (R : VReg → Val) (P : PReg → Val) (st : σ)
    (hentry : ∀ v ∈ A.live 0, P (A.colour v) = R v) (n : Nat) :
    let s := vrun S A.model Js p n ⟨0, R, st⟩
    let t := prun S A.model A.removed Js p n ⟨0, P, st⟩
    t.pc = s.pc ∧ t.st = s.st ∧
    ∀ ins, p[s.pc]? = some ins → ins.uses.map (fun v => t.regs (A.colour v)) = ins.uses.map s.regs := by
  have hc := check_sound p A h
  have hr := run_rel S A Js p hc n (⟨0, R, st⟩ : VState Val σ) ⟨0, P, st⟩ ⟨rfl, rfl, hentry⟩
  refine ⟨hr.1.symm, hr.2.1.symm, fun ins hi => ?_⟩
  exact args_agree A p _ _ ins (hc.instr _ ins hi) hr

/-- **Sentence 2 of C06.**  In every execution from the function entry, two values that
    are live at the same program point — not both of them fixed physical registers of the
    input program — occupy overlapping physical registers only if it is the identical
    register and the two values are equal (copies of each other). -/
theorem shared_register_means_copies (p : Program) (A : Alloc) (h : check p A = true) (he : entryOkB A = true)
    {Val σ : Type} (S : Sem Val σ) (Js : Nat → PReg → Val) (R : VReg → Val) (st : σ) (n : Nat) :
    let s := vrun S A.model Js p n ⟨0, R, st⟩
    ∀ v ∈ A.live s.pc, ∀ w ∈ A.live s.pc, ¬ (A.isFixed v = true ∧ A.isFixed w = true) →
      ov A.alias (A.colour v) (A.colour w) = true →
      A.colour v = A.colour w ∧ s.regs v = s.regs w := by
  intro s v hv w hw hnf ho
  have hc := check_sound p A h
  have hcol := live_share_static p A hc (entryOkB_sound A he) s.pc (vrun_reach S A.model p R st n Js) v hv w hw hnf ho
  refine ⟨hcol, ?_⟩
  have hr := run_rel S A Js p hc n (⟨0, R, st⟩ : VState Val σ) ⟨0, entryRegs A R, st⟩
    (entry_rel A p hc (entryOkB_sound A he) R st)
  have h1 := hr.2.2 v hv
  have h2 := hr.2.2 w hw
  rw [← h1, ← h2, hcol]

/-- **Soundness of the spill-step validator.**  `pre` is the instruction list before one
    call of `rewrite_program`, `post` the list after it with the load/store code abstracted
    to `load f`/`store f` of the one new stack slot.  If `checkSpillStep` accepts, then from
    matched states — `post` at the start of the code for the instruction `pre` is at, same
    memory, equal values in every live register that is neither spilled nor fresh, the slot
    holding the value of every live temp of the spilled node — for any number `n` of steps
    of `pre` there is a number `m` of steps of `post` after which the states are matched
    again, for every instruction semantics, every junk `Jp` left by the ordinary
    instructions in overlapping fixed registers (the same for both lists) and every junk
    `Js` left in the scratch registers of the spill code. -/
theorem spillStep_sound (pre : Program) (post : List SInstr) (C : SpillCtx) (live : Nat → List VReg)
    (plan : Nat → Plan) (h : checkSpillStep pre post C live plan = true)
    {Val σ : Type} (S : Sem Val σ) (Jp Js : Nat → PReg → Val) (n : Nat)
    (s : VState Val σ) (t : SState Val σ)
    (hpc : t.pc = offset plan pre s.pc) (hst : t.st = s.st)
    (hregs : ∀ r ∈ live s.pc, r ∉ C.temps → r ∉ C.fresh → t.regs r = s.regs r)
    (hslot : ∀ r ∈ live s.pc, r ∈ C.temps → t.slot = s.regs r) :
    ∃ m,
      let s' := vrunF S C.model Jp pre n t.k s
      let t' := srun S C.model Jp Js post m t
      t'.pc = offset plan pre s'.pc ∧ t'.st = s'.st ∧
      (∀ r ∈ live s'.pc, r ∉ C.temps → r ∉ C.fresh → t'.regs r = s'.regs r) ∧
      (∀ r ∈ live s'.pc, r ∈ C.temps → t'.slot = s'.regs r) :=
  spill_run pre post C live plan (checkSpillStep_sound pre post C live plan h) S Jp Js n s t ⟨hpc, hst, hregs, hslot⟩

/-- At function entry the matched state exists whenever no temp of the spilled node is
    live-in at entry: same registers, any slot content. -/
theorem spillStep_sound_from_entry (pre : Program) (post : List SInstr) (C : SpillCtx) (live : Nat → List VReg)
    (plan : Nat → Plan) (h : checkSpillStep pre post C live plan = true)
    (hentry : ∀ r ∈ live 0, r ∉ C.temps)
    {Val σ : Type} (S : Sem Val σ) (Jp Js : Nat → PReg → Val) (n : Nat) (R : VReg → Val) (st : σ) (sl : Val) :
    ∃ m,
      let s' := vrunF S C.model Jp pre n 0 ⟨0, R, st⟩
      let t' := srun S C.model Jp Js post m ⟨0, R, st, sl, 0⟩
      t'.pc = offset plan pre s'.pc ∧ t'.st = s'.st ∧
      (∀ r ∈ live s'.pc, r ∉ C.temps → r ∉ C.fresh → t'.regs r = s'.regs r) :=
  let ⟨m, hm⟩ := spill_run pre post C live plan (checkSpillStep_sound pre post C live plan h) S Jp Js n
    (⟨0, R, st⟩ : VState Val σ) ⟨0, R, st, sl, 0⟩
    ⟨by simp [offset, expandAll], rfl, fun _ _ _ _ => rfl, fun r hr ht => absurd ht (hentry r hr)⟩
  ⟨m, hm.1, hm.2.1, hm.2.2.1⟩

/-! ### non-vacuity and negative witnesses (tests, labelled as such)

Physical registers: 0 = rax, 1 = eax (overlaps rax), 2 = rbx, 3 = rcx.
Virtual registers: 0 = a, 1 = b, 2 = t.

    0:        a := …
    1:        b := …
    2:        t := a          (move; coalesced with a and deleted)
    3: L7:    call            (clobbers rax)
    4:        t := t + b
    5:        if t goto L7 else L8
    6: L8:    use t
-/
def exProg : Program := [
  { uses := [], defs := [0], clobbers := [], isMove := false, jumps := [], label := none, sem := 0 },
  { uses := [], defs := [1], clobbers := [], isMove := false, jumps := [], label := none, sem := 1 },
  { uses := [0], defs := [2], clobbers := [], isMove := true, jumps := [], label := none, sem := 2 },
  { uses := [], defs := [], clobbers := [0], isMove := false, jumps := [], label := some 7, sem := 3 },
  { uses := [2, 1], defs := [2], clobbers := [], isMove := false, jumps := [], label := none, sem := 4 },
  { uses := [2], defs := [], clobbers := [], isMove := false, jumps := [7, 8], label := none, sem := 5 },
  { uses := [2], defs := [], clobbers := [], isMove := false, jumps := [], label := some 8, sem := 6 }]

def exLive : Nat → List VReg := fun i => [[], [0], [0, 1], [2, 1], [2, 1], [2, 1], [2]].getD i []
def exAlias : PReg → PReg → Bool := fun p q => p == 0 && q == 1

/-- a = rbx, b = rcx, t = rbx; the move at 2 is deleted -/
def exGood : Alloc := { colour := fun v => [2, 3, 2].getD v 0, alias := exAlias, fixed := [], removed := (· == 2), live := exLive }
/-- b = eax: the call's clobber of rax destroys it -/
def exBad : Alloc := { exGood with colour := fun v => [2, 1, 2].getD v 0 }
/-- liveness that forgets that b is live across the call is not accepted -/
def exBadLive : Alloc := { exGood with live := fun i => [[], [0], [0, 1], [2], [2, 1], [2, 1], [2]].getD i [] }

example : check exProg exGood = true ∧ entryOkB exGood = true := by decide +kernel
example : check exProg exBad = false := by decide +kernel
example : check exProg exBadLive = false := by decide +kernel

/-- The rejected colouring really computes a wrong value: with `+` for instruction 4 and
    junk 99 after clobbers, the virtual program reaches instruction 6 with t = 12,
    the badly coloured one with t = 104 -/
def exSem : Sem Nat Unit := {
  out := fun s args _ _ => match s with
    | 0 => 5 | 1 => 7 | 4 => args.foldl (· + ·) 0 | _ => 0
  st := fun _ _ u => u
  br := fun _ _ _ => 1 }

example : (vrun exSem exGood.model (fun _ _ => 99) exProg 6 ⟨0, fun _ => 0, ()⟩).regs 2 = 12 := by decide +kernel
example : (prun exSem exBad.model exBad.removed (fun _ _ => 99) exProg 6 ⟨0, fun _ => 0, ()⟩).regs 2 = 104 := by
  decide +kernel
example : (prun exSem exGood.model exGood.removed (fun _ _ => 99) exProg 6 ⟨0, fun _ => 0, ()⟩).regs 2 = 12 := by
  decide +kernel

/-! Fixed registers (AVR-like): names 3 = `r1`, 4 = `r1:r0` are physical registers 5 and 6
    that overlap; the input program defines `r1:r0` while `r1` stays live.  That conflict
    belongs to the input, the validator accepts it (both machines havoc `r1` alike) … -/
def fxProg : Program := [
  { uses := [3], defs := [4], clobbers := [], isMove := false, jumps := [], label := none, sem := 0 },
  { uses := [4], defs := [0], clobbers := [], isMove := false, jumps := [], label := none, sem := 1 },
  { uses := [0, 3], defs := [], clobbers := [], isMove := false, jumps := [], label := none, sem := 2 }]
def fxAlloc (c0 : PReg) : Alloc := {
  colour := fun v => [c0, 0, 0, 5, 6].getD v 0, alias := fun p q => p == 5 && q == 6, fixed := [3, 4],
  removed := fun _ => false, live := fun i => [[3], [3, 4], [0, 3]].getD i [] }
example : check fxProg (fxAlloc 2) = true := by decide +kernel
/-- … but a virtual register must not be put where it overlaps the live fixed `r1` -/
example : check fxProg (fxAlloc 6) = false := by decide +kernel

/-! Fall-through into a jump target (finding fixed in ppci 8a3b4f9): instruction 3 is not
    reachable by a jump but control falls from it into label 9.  A flow graph without that
    edge thinks nothing is live after 3 and lets `t` reuse `a`'s register: rejected.

    0: a := …   1: b := …   2: goto L9   3: t := …   4: L9: use a, b                      -/
def ftProg : Program := [
  { uses := [], defs := [0], clobbers := [], isMove := false, jumps := [], label := none, sem := 0 },
  { uses := [], defs := [1], clobbers := [], isMove := false, jumps := [], label := none, sem := 1 },
  { uses := [], defs := [], clobbers := [], isMove := false, jumps := [9], label := none, sem := 2 },
  { uses := [], defs := [2], clobbers := [], isMove := false, jumps := [], label := none, sem := 3 },
  { uses := [0, 1], defs := [], clobbers := [], isMove := false, jumps := [], label := some 9, sem := 4 }]
def ftAlloc (ct : PReg) : Alloc := {
  colour := fun v => [0, 1, ct].getD v 0, alias := fun _ _ => false, fixed := [],
  removed := fun _ => false, live := fun i => [[], [0], [0, 1], [0, 1], [0, 1]].getD i [] }
example : check ftProg (ftAlloc 0) = false := by decide +kernel
example : check ftProg (ftAlloc 2) = true := by decide +kernel
/-- liveness that forgets the fall-through edge is not a post-fixpoint and is not accepted either -/
example : check ftProg { ftAlloc 0 with live := fun i => [[], [0], [0, 1], [], [0, 1]].getD i [] } = false := by
  decide +kernel

/-! Spill step: temp 1 is spilled; its def gets fresh 5 and a store, its use fresh 6 and a load.

    pre:   0: 1 := f(0)      post:  0: 5 := f(0)
           1: use 1, 0              1: store 5
                                    2: load 6
                                    3: use 6, 0                                   -/
def spPre : Program := [
  { uses := [0], defs := [1], clobbers := [], isMove := false, jumps := [], label := none, sem := 0 },
  { uses := [1, 0], defs := [], clobbers := [], isMove := false, jumps := [], label := none, sem := 1 }]
def spPlan : Nat → Plan := fun i =>
  [{ ren := [(1, 5)], lclob := [], sclob := [] }, { ren := [(1, 6)], lclob := [], sclob := [] }].getD i
    { ren := [], lclob := [], sclob := [] }
def spCtx : SpillCtx := { temps := [1], fresh := [5, 6], model := { alias := fun _ _ => false, colour := id, fixed := fun _ => false } }
def spLive : Nat → List VReg := fun i => [[0], [1, 0]].getD i []
def spPost : List SInstr := [
  .ins { uses := [0], defs := [5], clobbers := [], isMove := false, jumps := [], label := none, sem := 0 },
  .store 5 [], .load 6 [],
  .ins { uses := [6, 0], defs := [], clobbers := [], isMove := false, jumps := [], label := none, sem := 1 }]
/-- the reload placed one instruction too early (before the store) is rejected -/
def spPostBad : List SInstr := [
  .ins { uses := [0], defs := [5], clobbers := [], isMove := false, jumps := [], label := none, sem := 0 },
  .load 6 [], .store 5 [],
  .ins { uses := [6, 0], defs := [], clobbers := [], isMove := false, jumps := [], label := none, sem := 1 }]

example : checkSpillStep spPre spPost spCtx spLive spPlan = true := by decide +kernel
example : checkSpillStep spPre spPostBad spCtx spLive spPlan = false := by decide +kernel

end Props.C06
