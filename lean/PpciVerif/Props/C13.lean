import PpciVerif.Proofs.Relax
import PpciVerif.Proofs.RelaxInsn
import PpciVerif.Model.RelaxLink
import PpciVerif.Gen.RelaxTab
/-!
C13 — linker relaxation preserves program behaviour.

Model: `Model.Relax` (`do_relaxations`, `_apply_relaxation_holes`, `can_shrink`/`do_shrink` of
cb_imm11/cbl_imm11) and `Model.RelaxLink` (`do_relocations` on the C10/C11 relocation models).
Specification vocabulary: `Spec.Relax` (`phi`, holes), `Spec.RV32` (independent RV32I/RV32C decoders).

`m : HoleMap` is the list of registered holes `(section, (offset, size))`; `holesOf m n` is the sorted hole
list of section `n` (`hole_map[n]`).  `HolesOK m` = every such list is ascending and disjoint; it follows
from `SitesSeparated` (the shrinkable relocation sites of one section do not overlap) by
`holes_ok_of_separated_sites`.
-/
namespace Props.C13
open Spec.Relax Model.Linker Proofs.Linker Proofs.Relax Proofs.Reloc
open Model.Relax hiding Hole
open Model.RelaxLink

/-! ## tie to the live ISA -/

/-- the hand-written relocation table of the model is the table regenerated from `riscv:rvc` -/
theorem table_matches :
    Gen.RelaxTab.table = rvcTable.map (fun p =>
      (p.1, p.2.size, (match p.2.shrink with | none => 0 | some k => k.funct3),
       (match p.2.shrink with | none => "-" | some _ => shrunkType))) := by decide +kernel

/-! ## φ -/

/-- `φ` is monotone: an offset never overtakes a later one (the later one not strictly inside a hole) -/
theorem phi_monotone (hs : List Hole) (o₁ o₂ : Nat) (hf : HolesFrom 0 hs)
    (hin : strictlyInside hs o₂ = false) (h : o₁ ≤ o₂) : phi hs o₁ ≤ phi hs o₂ :=
  phi_mono hf hin h

/-- and never increases a distance (no hypothesis at all) -/
theorem phi_distance (hs : List Hole) (o₁ o₂ : Nat) (h : o₁ ≤ o₂) : phi hs o₂ - phi hs o₁ ≤ o₂ - o₁ :=
  phi_nonexpanding hs h

/-- non-vacuity, and the guard is needed: strictly inside a hole `φ` steps back -/
example : HolesFrom 0 [(2, 2), (10, 2)] ∧ phi [(2, 2), (10, 2)] 4 = 2 ∧ phi [(2, 2), (10, 2)] 12 = 8 := by decide
example : phi [(2, 2)] 2 = 2 ∧ phi [(2, 2)] 3 = 1 ∧ strictlyInside [(2, 2)] 3 = true := by decide

/-- `count_holes` with its early `break` computes `Σ{size h | h.offset < o}` on every sorted hole list -/
theorem count_holes_is_sum (hs : List Hole) (o : Nat) (hf : HolesFrom 0 hs) :
    countHoles o hs = removedBefore hs o := countHoles_eq hs 0 o hf

/-- … and the `break` is wrong on an unsorted list (why `do_relaxations` sorts) -/
example : countHoles 20 [(10, 2), (30, 2), (4, 2)] = 2 ∧ removedBefore [(10, 2), (30, 2), (4, 2)] 20 = 4 := by decide

/-! ## `_apply_relaxation_holes` -/

/-- new data = old data with the hole bytes removed: literally (`removeBytes` drops the bytes whose index
    lies in a hole), by length, and index by index through `φ` -/
def DataRemoved (hs : List Hole) (old new : List Nat) : Prop :=
  new = removeBytes hs old ∧
  new.length + totalSize hs = old.length ∧
  ∀ o, o < old.length → inHole hs o = false → new[phi hs o]? = old[o]?

/-- every section keeps name and alignment; its data is the old data without the hole bytes:
    `new[φ o] = old[o]` for every surviving offset `o`, and the length shrinks by the hole sizes -/
theorem section_data_removed (m : HoleMap) (o o' : Obj) (hok : HolesOK m) (h : applyHoles m o = .ok o') :
    All2 (fun s s' => s'.name = s.name ∧ s'.alignment = s.alignment ∧
      holesWithin (holesOf m s.name) s.data.length ∧
      DataRemoved (holesOf m s.name) s.data s'.data) o.sections o'.sections := by
  obtain ⟨_, _, _, _, hd, _⟩ := applyHoles_spec hok h
  refine hd.imp ?_
  intro s s' ⟨h1, h2, h3⟩
  exact ⟨h1, h2, punch_within _ 0 _ _ (hok s.name) h3, punch_eq_removeBytes _ 0 _ _ (hok s.name) h3,
    punch_length _ _ _ h3, punch_index _ 0 _ _ (hok s.name) h3⟩

example : removeBytes [(2, 2), (6, 2)] [10, 11, 12, 13, 14, 15, 16, 17, 18] = [10, 11, 14, 15, 18] ∧
    punch [10, 11, 12, 13, 14, 15, 16, 17, 18] [(2, 2), (6, 2)] = .ok [10, 11, 14, 15, 18] := by decide

/-- every symbol that lives in a section has its offset mapped by `φ` of that section (exactly, without
    underflow); every other field and every section-less symbol is unchanged -/
theorem symbols_mapped (m : HoleMap) (o o' : Obj) (hok : HolesOK m) (h : applyHoles m o = .ok o') :
    All2 (fun s s' => match s.sect with
      | none => s' = s
      | some n => ∃ v, s.value = some v ∧ removedBefore (holesOf m n) v ≤ v ∧
          s' = { s with value := some (phi (holesOf m n) v) }) o.symbols o'.symbols :=
  (applyHoles_spec hok h).1

/-- every relocation entry has its offset mapped by `φ` of its section; nothing else changes -/
theorem relocations_mapped (m : HoleMap) (o o' : Obj) (hok : HolesOK m) (h : applyHoles m o = .ok o') :
    All2 (fun r r' => removedBefore (holesOf m r.sect) r.offset ≤ r.offset ∧
      r' = { r with offset := phi (holesOf m r.sect) r.offset }) o.relocs o'.relocs :=
  (applyHoles_spec hok h).2.1

/-- the sections of an image: each address is the old one minus the bytes removed from the sections
    in front of it in the image (`shiftRes`), each section is shorter by its own holes; hence
    consecutive sections that did not overlap before do not overlap afterwards.
    Hypothesis: no section is listed twice in the images. -/
theorem image_sections_do_not_overlap (m : HoleMap) (o o' : Obj) (hok : HolesOK m) (h : applyHoles m o = .ok o')
    (hnd : (o.images.flatMap (·.sections)).Nodup) :
    o'.images = o.images ∧
    ∀ img ∈ o.images, ∃ news,
      All2 (fun so sn => sn.name = so.name ∧ sn.address = so.address ∧
        sn.data.length + change m so.name = so.data.length) (imageSections o.sections img) news ∧
      imageSections o'.sections img = shiftRes m 0 news ∧
      (Chain img.address (imageSections o.sections img) → Chain img.address (imageSections o'.sections img)) :=
  ⟨(applyHoles_spec hok h).2.2.1, applyHoles_images hok h hnd⟩

/-- a section that is in no image keeps its address -/
theorem unplaced_section_keeps_address (m : HoleMap) (o o' : Obj) (hok : HolesOK m) (h : applyHoles m o = .ok o')
    (hnd : (o.images.flatMap (·.sections)).Nodup) (n : String) (hn : n ∉ o.images.flatMap (·.sections))
    (so : Section) (hs : getSec o.sections n = some so) :
    ∃ sn, getSec o'.sections n = some sn ∧ sn.address = so.address := by
  obtain ⟨_, _, _, _, _, secsP, hp, h4⟩ := applyHoles_spec hok h
  obtain ⟨b1, _⟩ := shiftImages_spec m o.images secsP o'.sections hnd h4
  rcases getSec_forall₂ (R := SecPunch m) (fun s s' h => h.1) hp n with ⟨a, _⟩ | ⟨so', sn, a, b, r⟩
  · rw [hs] at a; cases a
  · rw [hs] at a; cases a
    exact ⟨sn, by rw [b1 n hn, b], r.2.1⟩

/-- a symbol's address after relaxation is its section's new address plus `φ` of its old offset:
    the image under the address map of its address before (a section-less symbol keeps its value) -/
theorem symbol_address_mapped (m : HoleMap) (o o' : Obj) (hok : HolesOK m) (h : applyHoles m o = .ok o')
    (id : Nat) (s : Symbol) (hf : o.symbols.find? (fun s => s.id == id) = some s) (v : Nat) (hv : s.value = some v) :
    match s.sect with
    | none => getSymbolIdValue o id = .ok v ∧ getSymbolIdValue o' id = .ok v
    | some n => ∀ so, getSec o.sections n = some so → ∃ sn, getSec o'.sections n = some sn ∧
        getSymbolIdValue o id = .ok (v + so.address) ∧
        getSymbolIdValue o' id = .ok (phi (holesOf m n) v + sn.address) := by
  obtain ⟨hsy, _, _, _, hd, _⟩ := applyHoles_spec hok h
  obtain ⟨s', hf', hr⟩ := find_all2 (p := fun s => s.id == id) (p' := fun s => s.id == id) hsy
    (fun a b hab => by
      unfold SymShift at hab
      cases ha : a.sect with
      | none => rw [ha] at hab; rw [hab]
      | some n => rw [ha] at hab; obtain ⟨_, _, _, e⟩ := hab; rw [e]) hf
  unfold SymShift at hr
  cases hs : s.sect with
  | none =>
    rw [hs] at hr
    subst hr
    simp only
    unfold getSymbolIdValue
    rw [hf, hf']
    simp [hv, hs]
  | some n =>
    rw [hs] at hr
    obtain ⟨v', hv', _, e⟩ := hr
    rw [hv] at hv'; cases hv'
    simp only
    intro so hso
    rcases getSec_forall₂ (R := SecData m) (fun s s' h => h.1) hd n with ⟨a, _⟩ | ⟨so', sn, a, b, _⟩
    · rw [hso] at a; cases a
    · refine ⟨sn, b, ?_, ?_⟩
      · unfold getSymbolIdValue
        rw [hf]; simp [hv, hs, hso]
      · unfold getSymbolIdValue
        rw [hf', e]; simp [b]

/-! ## the shrunk instruction -/

/-- Let `data` be the four bytes of a `jal rd, _` (opcode 0x6f).  Unrelaxed, with the cb_imm11/cbl_imm11
    relocation applied for symbol address `S` at address `P`, the independent RV32I decoder reads
    `jal rd` to `S`.  Relaxed — `do_shrink` of kind `k`, then the bc_imm11 relocation for the new
    addresses `S'`, `P'` — the independent RV32C decoder reads `c.j` (`k = cj`) / `c.jal` (`k = cjal`)
    to `S'`, whose expansion is `jal x0` / `jal ra`: the same instruction to the same symbol exactly when
    `rd` is the link register of the compressed form (what `CBl.relocations` guarantees since the fix). -/
theorem shrunk_instruction_same_target (k : Shrink) (data outU outR : List Nat) (S P S' P' : Int)
    (hlen : data.length = 4) (hb : Bytes data) (hop : Model.Reloc.fromLE data % 128 = 0x6f)
    (hU : Model.Reloc.Rvc.cbImm11 S data P = .ok outU) (hfitU : Spec.Bits.fitsS 21 (S - P))
    (hR : Model.Reloc.Rvc.bcImm11 S' (patch k data) P' = .ok outR) (hfitR : Spec.Bits.fitsS 12 (S' - P')) :
    ∃ offU offR,
      Spec.RV32.decode (Spec.RelocSem.wordLE outU) = some (.jal (Model.Reloc.fromLE data / 128 % 32) offU) ∧ P + offU = S ∧
      outR.length = 2 ∧
      Spec.RV32.decodeC (Spec.RelocSem.wordLE outR) = some (cinstr k offR) ∧ P' + offR = S' ∧
      (cinstr k offR).expand = .jal (linkReg k) offR := by
  obtain ⟨offU, d1, t1⟩ := unrelaxed_decodes hlen hb hop hU hfitU
  obtain ⟨l2, offR, d2, t2⟩ := shrunk_decodes k hlen hb hR hfitR
  exact ⟨offU, offR, d1, t1, l2, d2, t2, cinstr_expand k offR⟩

/-- the same inside the linker: one step of `do_relocations` (`_do_relocation`) for a `bc_imm11` entry whose
    site holds the two bytes `do_shrink` kept of a `jal` leaves, at that site of the section, `c.j` / `c.jal`
    to the address `get_symbol_id_value` reports for the entry's symbol (reference in reach of C.J) -/
theorem relocated_shrunk_site (o o2 : Obj) (r : Reloc) (sec : Section) (k : Shrink) (data : List Nat) (S : Nat)
    (h : doRelocation o r = .ok o2) (hty : r.typ = "bc_imm11")
    (hsec : getSec o.sections r.sect = some sec) (hS : getSymbolIdValue o r.symbolId = .ok S)
    (hlen : data.length = 4) (hb : Bytes data) (hsite : (sec.data.drop r.offset).take 2 = patch k data)
    (hfit : Spec.Bits.fitsS 12 ((S : Int) - ((sec.address + r.offset : Nat) : Int))) :
    ∃ sec2 off, getSec o2.sections r.sect = some sec2 ∧ sec2.address = sec.address ∧
      Spec.RV32.decodeC (Spec.RelocSem.wordLE ((sec2.data.drop r.offset).take 2)) = some (cinstr k off) ∧
      ((sec.address + r.offset : Nat) : Int) + off = S :=
  doRelocation_shrunk_site h hty hsec hS hlen hb hsite hfit

/-- non-vacuity: `jal ra` (ef 00 00 00) at 0x1004 to 0x100c, relaxed at 0x1002 to 0x1008 -/
example : Model.Reloc.Rvc.cbImm11 0x100c [0xef, 0, 0, 0] 0x1004 = .ok [0xef, 0, 0x80, 0] ∧
    Model.Reloc.Rvc.bcImm11 0x1008 (patch .cjal [0xef, 0, 0, 0]) 0x1002 = .ok [0x19, 0x20] ∧
    Spec.RV32.decodeC (Spec.RelocSem.wordLE [0x19, 0x20]) = some (.jal 6) := by decide +kernel

/-- the linker itself does not look at `rd`: a cbl_imm11 entry on a `jal x5` (ef 02 00 00) would be turned
    into `c.jal`, which links `ra` — producers must only announce cbl_imm11 for `rd = ra` (fixed in
    `CBl.relocations`, commit f0b404d) -/
example : Model.Reloc.fromLE [0xef, 2, 0, 0] / 128 % 32 = 5 ∧
    (Spec.RV32.decodeC (Spec.RelocSem.wordLE (patch .cjal [0xef, 2, 0, 0]))).map
      (fun c => match c.expand with | .jal rd _ => rd | _ => 99) = some 1 := by
  decide +kernel

/-! ## range: shrunk jumps stay in reach -/

/-- Site and target in the same section: the distance does not grow and keeps its sign, so a jump that
    `can_shrink` accepted (unrelaxed distance in [-2048, 2047]) is in reach of C.J after the shift.
    (`a`, `a'` are the section address before/after; offsets not strictly inside a hole.) -/
theorem same_section_stays_in_range_partial (hs : List Hole) (a a' p t : Nat) (hf : HolesFrom 0 hs)
    (hp : strictlyInside hs p = false) (ht : strictlyInside hs t = false)
    (h : fits12 (((a + t : Nat) : Int) - ((a + p : Nat) : Int))) :
    fits12 (((a' + phi hs t : Nat) : Int) - ((a' + phi hs p : Nat) : Int)) := by
  unfold fits12 at h ⊢
  rcases Nat.le_total p t with c | c
  · have m1 := phi_mono hf ht c
    have m2 := phi_nonexpanding hs c
    omega
  · have m1 := phi_mono hf hp c
    have m2 := phi_nonexpanding hs c
    omega

/-- Site and target in two different sections of ONE image (`olds` = the image's sections before, an
    ascending non-overlapping chain; `news` = after hole punching; `sn₁`, `sn₂` = sections `i < j` after the
    address shift, as delivered by `image_sections_do_not_overlap`): in both directions a reference that was
    in reach of C.J stays in reach. -/
theorem same_image_stays_in_range_partial (m : HoleMap) (hok : HolesOK m) {olds news : List Section} {cur : Nat}
    (hrel : All2 (fun so sn => sn.name = so.name ∧ sn.address = so.address ∧
      sn.data.length + change m so.name = so.data.length) olds news) (hc : Chain cur olds)
    {i j : Nat} (hij : i < j) {so₁ so₂ sn₁ sn₂ : Section}
    (ho₁ : olds[i]? = some so₁) (ho₂ : olds[j]? = some so₂)
    (hn₁ : (shiftRes m 0 news)[i]? = some sn₁) (hn₂ : (shiftRes m 0 news)[j]? = some sn₂)
    (hw₁ : holesWithin (holesOf m so₁.name) so₁.data.length)
    {p t : Nat} (hp : p ≤ so₁.data.length)
    (hsp : strictlyInside (holesOf m so₁.name) p = false) (hst : strictlyInside (holesOf m so₂.name) t = false) :
    (fits12 (((so₂.address + t : Nat) : Int) - ((so₁.address + p : Nat) : Int)) →
      fits12 (((sn₂.address + phi (holesOf m so₂.name) t : Nat) : Int) - ((sn₁.address + phi (holesOf m so₁.name) p : Nat) : Int))) ∧
    (fits12 (((so₁.address + p : Nat) : Int) - ((so₂.address + t : Nat) : Int)) →
      fits12 (((sn₁.address + phi (holesOf m so₁.name) p : Nat) : Int) - ((sn₂.address + phi (holesOf m so₂.name) t : Nat) : Int))) := by
  obtain ⟨a, b, c⟩ := two_sections_distance m hok hrel hc hij ho₁ ho₂ hn₁ hn₂ hw₁ hp hsp hst
  unfold fits12
  constructor <;> intro h <;> omega

/-- the full statement (any two sections, any placement) — NOT a theorem of the code: -/
def stays_in_range_full : Prop :=
  ∀ (m : HoleMap) (o o' : Obj), HolesOK m → applyHoles m o = .ok o' →
    ∀ (n₁ n₂ : String) (s₁ s₂ s₁' s₂' : Section) (p t : Nat),
      getSec o.sections n₁ = some s₁ → getSec o.sections n₂ = some s₂ →
      getSec o'.sections n₁ = some s₁' → getSec o'.sections n₂ = some s₂' →
      p ≤ s₁.data.length → t ≤ s₂.data.length →
      strictlyInside (holesOf m n₁) p = false → strictlyInside (holesOf m n₂) t = false →
      fits12 (((s₂.address + t : Nat) : Int) - ((s₁.address + p : Nat) : Int)) →
      fits12 (((s₂'.address + phi (holesOf m n₂) t : Nat) : Int) - ((s₁'.address + phi (holesOf m n₁) p : Nat) : Int))

/-- a two-image object: `code` (image m1 at 0x1000) holds `j n; n: j t`, `t` is at offset 2 of `code2`
    (image m2 at 0x1800): unrelaxed distance of the second jump 0x1802 - 0x1004 = 2046 -/
def exCross : Obj := {
  sections := [{ name := "code", address := 0x1000, alignment := 4, data := [0x6f, 0, 0, 0, 0x6f, 0, 0, 0] },
               { name := "code2", address := 0x1800, alignment := 4, data := [1, 0, 0x73, 0, 0x10, 0] }],
  symbols := [{ id := 0, name := "n", binding := .loc, value := some 4, sect := some "code", typ := "object", size := 0 },
              { id := 1, name := "t", binding := .loc, value := some 2, sect := some "code2", typ := "object", size := 0 }],
  relocs := [{ typ := "cb_imm11", symbolId := 0, sect := "code", offset := 0, addend := 0 },
             { typ := "cb_imm11", symbolId := 1, sect := "code", offset := 4, addend := 0 }],
  images := [{ name := "m1", address := 0x1000, sections := ["code"] }, { name := "m2", address := 0x1800, sections := ["code2"] }] }

/-- both jumps are shrunk (holes at 2 and 6 of `code`); `code2` is in another image and does not move -/
example : (match doRelaxations exCross with
    | .ok (o, m) => (m, o.sections.map (fun s => (s.address, s.data.length)), o.symbols.map (·.value), o.relocs.map (fun r => (r.typ, r.offset)))
    | .error _ => ([], [], [], [])) =
    ([("code", (2, 2)), ("code", (6, 2))], [(0x1000, 4), (0x1800, 6)], [some 2, some 2], [("bc_imm11", 0), ("bc_imm11", 2)]) := by
  decide +kernel

/-- the object after the candidate loop of `exCross` with only the first hole, and what
    `_apply_relaxation_holes` makes of it -/
def exB : Obj := { exCross with relocs := [] }
def exB' : Obj := { exB with
  sections := [{ name := "code", address := 0x1000, alignment := 4, data := [0x6f, 0, 0x6f, 0, 0, 0] },
               { name := "code2", address := 0x1800, alignment := 4, data := [1, 0, 0x73, 0, 0x10, 0] }],
  symbols := [{ id := 0, name := "n", binding := .loc, value := some 2, sect := some "code", typ := "object", size := 0 },
              { id := 1, name := "t", binding := .loc, value := some 2, sect := some "code2", typ := "object", size := 0 }] }

/-- NEGATION WITNESS for `stays_in_range_full`: a jump at offset 4 of `code` to offset 2 of `code2` in the
    next image: distance 0x1802 - 0x1004 = 2046 before, 0x1802 - 0x1002 = 2048 afterwards -/
theorem stays_in_range_full_fails : ¬ stays_in_range_full := by
  intro h
  have hm : HolesOK [("code", ((2, 2) : Hole))] := holesOK_of_names (by decide +kernel)
  have := h [("code", (2, 2))] exB exB' hm (by decide +kernel) "code" "code2"
    { name := "code", address := 0x1000, alignment := 4, data := [0x6f, 0, 0, 0, 0x6f, 0, 0, 0] }
    { name := "code2", address := 0x1800, alignment := 4, data := [1, 0, 0x73, 0, 0x10, 0] }
    { name := "code", address := 0x1000, alignment := 4, data := [0x6f, 0, 0x6f, 0, 0, 0] }
    { name := "code2", address := 0x1800, alignment := 4, data := [1, 0, 0x73, 0, 0x10, 0] }
    4 2 (by decide +kernel) (by decide +kernel) (by decide +kernel) (by decide +kernel)
    (by decide) (by decide) (by decide +kernel) (by decide +kernel) (by decide +kernel)
  revert this
  decide +kernel

/-- … and what the real pipeline then does with it: relaxation + relocation of `exCross` succeeds (the
    `bc_imm11` range check lets `(S-P)/2 = 1024` through) and the second jump, now at 0x1002, is a
    `c.j` with offset -2048: it goes to 0x802 instead of 0x1802.  Known finding
    `relax:wrong-target:bc_imm11:cross-image`. -/
example : (match finish exCross with
    | .ok (o, _) => (o.sections.map (·.data)).head?.map (fun d => (Spec.RV32.decodeC (Spec.RelocSem.wordLE (d.drop 2 |>.take 2))))
    | .error _ => none) = some (some (.j (-2048))) := by decide +kernel

/-! ## alignment -/

/-- the full statement "a section that was aligned stays aligned" — NOT a theorem of the code
    (`section.address -= delta` ignores `section.alignment`; the source says so in a TODO): -/
def alignment_preserved_full : Prop :=
  ∀ (m : HoleMap) (o o' : Obj), HolesOK m → applyHoles m o = .ok o' → (o.images.flatMap (·.sections)).Nodup →
    ∀ (n : String) (so sn : Section), getSec o.sections n = some so → getSec o'.sections n = some sn →
      so.address % so.alignment = 0 → sn.address % sn.alignment = 0

def exAlign : Obj := {
  sections := [{ name := "code", address := 0x1000, alignment := 4, data := [0x6f, 0, 0, 0, 0x73, 0, 0x10, 0] },
               { name := "data", address := 0x1008, alignment := 4, data := [5, 0, 0, 0] }],
  images := [{ name := "flash", address := 0x1000, sections := ["code", "data"] }] }

/-- NEGATION WITNESS: one shrunk jump in `code` moves the 4-aligned `data` from 0x1008 to 0x1006.
    Known findings `relax:section-misaligned` (and, when a word there carries an absaddr32 relocation,
    `relaxed-link-fails:AssertionError:absaddr32`). -/
theorem alignment_preserved_full_fails : ¬ alignment_preserved_full := by
  intro h
  have hm : HolesOK [("code", ((2, 2) : Hole))] := holesOK_of_names (by decide +kernel)
  have := h [("code", (2, 2))] exAlign
    { exAlign with sections := [{ name := "code", address := 0x1000, alignment := 4, data := [0x6f, 0, 0x73, 0, 0x10, 0] },
                                { name := "data", address := 0x1006, alignment := 4, data := [5, 0, 0, 0] }] }
    hm (by decide +kernel) (by decide +kernel) "data"
    { name := "data", address := 0x1008, alignment := 4, data := [5, 0, 0, 0] }
    { name := "data", address := 0x1006, alignment := 4, data := [5, 0, 0, 0] }
    (by decide +kernel) (by decide +kernel) (by decide)
  revert this
  decide

/-- the number of bytes removed in front of each section of an image is a multiple of its alignment -/
def AlignSafe (m : HoleMap) : Nat → List Section → Prop
  | _, [] => True
  | d, s :: r => d % s.alignment = 0 ∧ AlignSafe m (d + change m s.name) r

/-- what does hold: the sections of an image stay aligned when the bytes removed in front of each one are
    a multiple of its alignment (in particular the first section of every image) -/
theorem alignment_preserved_partial (m : HoleMap) : ∀ (news : List Section) (d : Nat), AlignSafe m d news →
    ShiftFits m d news → (∀ s ∈ news, s.address % s.alignment = 0) →
    ∀ s' ∈ shiftRes m d news, s'.address % s'.alignment = 0
  | [], _, _, _, _ => by intro s' hs'; cases hs'
  | s :: r, d, hsafe, hfit, hal => by
    intro s' hs'
    simp only [shiftRes, List.mem_cons] at hs'
    rcases hs' with rfl | hs'
    · simp only [setAddress]
      apply Nat.sub_mod_eq_zero_of_mod_eq
      rw [hal s (by simp), hsafe.1]
    · exact alignment_preserved_partial m r _ hsafe.2 hfit.2 (fun x hx => hal x (by simp [hx])) s' hs'

/-! ## `do_relaxations` as a whole -/

/-- `do_relaxations` either finds nothing (no hole, only section data could have been touched — and is
    not) or is `_apply_relaxation_holes` on the object with patched section data and replaced relocation
    entries; the registered holes are ascending and disjoint per section as soon as the shrinkable
    relocation sites of a section do not overlap.  All theorems above then apply to `o₁`. -/
theorem relaxation_is_hole_punching (o o' : Obj) (m : HoleMap) (h : doRelaxations o = .ok (o', m))
    (hsep : SitesSeparated o.relocs) :
    HolesOK m ∧
    ((m = [] ∧ o'.symbols = o.symbols ∧ o'.relocs = o.relocs ∧ o'.images = o.images ∧
        All2 (fun s s' => s'.name = s.name ∧ s'.address = s.address ∧ s'.alignment = s.alignment) o.sections o'.sections) ∨
     (∃ o₁ : Obj, applyHoles m o₁ = .ok o' ∧ o₁.symbols = o.symbols ∧ o₁.images = o.images ∧ o₁.entry = o.entry ∧
        All2 (fun s s' => s'.name = s.name ∧ s'.address = s.address ∧ s'.alignment = s.alignment) o.sections o₁.sections ∧
        (o₁.relocs.map relKey).Perm (o.relocs.map relKey) ∧
        ∀ p ∈ m, ∃ r ∈ o.relocs, isShrinkable r.typ = true ∧ p = (r.sect, (r.offset + 2, 2)))) := by
  refine ⟨doRelaxations_holesOK h hsep, ?_⟩
  obtain ⟨secs, cs, h1, hm, hcase⟩ := doRelaxations_inv h
  obtain ⟨hshape, hsub, hc⟩ := scan_spec h1
  rcases hcase with ⟨hcs, ho⟩ | ⟨hne, rels, hr, happ⟩
  · left
    subst hcs
    subst ho
    exact ⟨by simpa using hm, rfl, rfl, rfl, hshape⟩
  · right
    refine ⟨{ o with sections := secs, relocs := rels }, happ, rfl, rfl, rfl, hshape, replaceRelocs_keys hr, ?_⟩
    intro p hp
    rw [hm] at hp
    have hne' : cs.isEmpty = false := by cases cs with | nil => exact absurd rfl hne | cons _ _ => rfl
    rw [hne'] at hp
    simp only [Bool.false_eq_true, if_false, List.mem_map] at hp
    obtain ⟨c, hcm, rfl⟩ := hp
    obtain ⟨e1, e2⟩ := hc c hcm
    exact ⟨c.reloc, hsub.subset (List.mem_map.2 ⟨c, hcm, rfl⟩), e2, by rw [e1]⟩

/-- the candidate loop in front of the hole punching: with pairwise different section names it leaves every
    section at its length and changes nothing but the two bytes in front of each registered hole (the
    bytes `do_shrink` keeps); `secs` is the section list `_apply_relaxation_holes` then works on -/
theorem candidate_loop_data (o o' : Obj) (m : HoleMap) (h : doRelaxations o = .ok (o', m))
    (hnd : (o.sections.map (·.name)).Nodup) :
    ∃ secs, (m = [] → o'.sections = secs) ∧
      (m ≠ [] → ∃ rels, applyHoles m { o with sections := secs, relocs := rels } = .ok o') ∧
      All2 (fun s s' => s'.name = s.name ∧ s'.address = s.address ∧ s'.alignment = s.alignment ∧
        s'.data.length = s.data.length ∧
        ∀ i, (∀ p ∈ m, p.1 = s.name → i + 2 < p.2.1 ∨ p.2.1 ≤ i) → s'.data[i]? = s.data[i]?) o.sections secs := by
  obtain ⟨secs, cs, h1, hm, hcase⟩ := doRelaxations_inv h
  obtain ⟨_, _, hc⟩ := scan_spec h1
  have hd := scan_data hnd h1
  refine ⟨secs, ?_, ?_, ?_⟩
  · intro hm0
    rcases hcase with ⟨_, ho⟩ | ⟨hne, _⟩
    · rw [ho]
    · exfalso
      cases cs with
      | nil => exact hne rfl
      | cons c r => rw [hm] at hm0; simp at hm0
  · intro hm0
    rcases hcase with ⟨hcs, _⟩ | ⟨_, rels, _, happ⟩
    · exfalso; rw [hcs] at hm; exact hm0 (by simpa using hm)
    · exact ⟨rels, happ⟩
  · refine hd.imp ?_
    intro s s' ⟨⟨n1, n2, n3⟩, l, d⟩
    refine ⟨n1, n2, n3, l, ?_⟩
    intro i hi
    apply d
    intro c hcm hsec
    have hne : cs.isEmpty = false := by cases cs with | nil => cases hcm | cons _ _ => rfl
    have hp : (c.reloc.sect, c.hole) ∈ m := by
      rw [hm, hne]
      simp only [Bool.false_eq_true, if_false]
      exact List.mem_map.2 ⟨c, hcm, rfl⟩
    have := hi _ hp hsec
    rw [(hc c hcm).1] at this
    simp only at this
    omega

/-- non-vacuity on `exCross`: the sites are separated, both jumps are taken -/
example : SitesSeparated exCross.relocs := by unfold SitesSeparated; decide +kernel

end Props.C13
