import PpciVerif.Model.IntSet
import PpciVerif.Spec.IntSet
import PpciVerif.Proofs.IntSet
import PpciVerif.Proofs.IntSetCard
/-!
# C33 — integer range sets behave as mathematical sets and are kept canonical

Property theorems only.  Model: `Model.IntSet` (hand model of
`ppci/utils/integer_set.py`, tied by correspondence, harness/c33.py).
Spec: `Spec.IntSet` (`Mem rs v` : `v` lies in one of the ranges; `Canon`).

An `IntegerSet` object is its `ranges` list.  Every `IntegerSet` is produced by
the constructor `mk` (all operations end in it), so `Canon` is a class invariant
(`constructor_canonical`); the theorems about operations that walk the ranges
take `Canon` of their operands as hypothesis.  All statements are for all
integers and all lists (no bound).
-/
namespace Props.C33
open Model.IntSet Spec.IntSet Proofs.IntSet

/-! ### constructor -/

/-- `IntegerSet(*values).ranges` is canonical, for arbitrary (empty, overlapping, adjacent,
    nested, unsorted, duplicated) input ranges. -/
theorem constructor_canonical (xs : List (Int × Int)) : Canon (mk xs) := (mk_spec xs).1

/-- … and denotes exactly the union of the input ranges. -/
theorem constructor_denotes (xs : List (Int × Int)) (v : Int) : Mem (mk xs) v ↔ Mem xs v :=
  (mk_spec xs).2 v

/-- The constructor changes nothing on an already canonical list. -/
theorem constructor_idempotent (a : List (Int × Int)) (h : Canon a) : mk a = a := mk_canon_id a h

/-! ### union, intersection, difference, symmetric difference -/

theorem union_canonical (a b : List (Int × Int)) : Canon (union a b) := (mk_spec _).1

theorem union_denotes (a b : List (Int × Int)) (v : Int) :
    Mem (union a b) v ↔ Mem a v ∨ Mem b v := by
  rw [union, (mk_spec _).2 v, mem_append]

theorem intersection_canonical (a b : List (Int × Int)) : Canon (inter a b) := (mk_spec _).1

theorem intersection_denotes (a b : List (Int × Int)) (ha : Canon a) (hb : Canon b) (v : Int) :
    Mem (inter a b) v ↔ Mem a v ∧ Mem b v := by
  rw [inter, (mk_spec _).2 v, interLoop_spec a b ha hb v]

theorem difference_canonical (a b : List (Int × Int)) : Canon (diff a b) := (mk_spec _).1

theorem difference_denotes (a b : List (Int × Int)) (ha : Canon a) (hb : Canon b) (v : Int) :
    Mem (diff a b) v ↔ Mem a v ∧ ¬ Mem b v := by
  rw [diff, (mk_spec _).2 v, diffLoop_spec a b ha hb v]

theorem symmetric_difference_canonical (a b : List (Int × Int)) : Canon (symDiff a b) := (mk_spec _).1

theorem symmetric_difference_denotes (a b : List (Int × Int)) (ha : Canon a) (hb : Canon b) (v : Int) :
    Mem (symDiff a b) v ↔ (Mem a v ∧ ¬ Mem b v) ∨ (Mem b v ∧ ¬ Mem a v) := by
  rw [symDiff, union_denotes, difference_denotes a b ha hb, difference_denotes b a hb ha]

/-! ### membership, iteration, cardinality, emptiness -/

/-- `contains` (bisect + two comparisons) decides membership. -/
theorem contains_iff_member (s : List (Int × Int)) (h : Canon s) (v : Int) :
    contains s v = true ↔ Mem s v := contains_iff s h v

/-- `__iter__` yields the members, each once, in strictly ascending order … -/
theorem iteration_ascending_enumeration (s : List (Int × Int)) (h : Canon s) :
    List.Pairwise (· < ·) (iter s) ∧ ∀ v, v ∈ iter s ↔ Mem s v :=
  ⟨iter_sorted s h, mem_iter s⟩

/-- … and is the only list with that property. -/
theorem iteration_unique (s : List (Int × Int)) (h : Canon s) (l : List Int)
    (hl : List.Pairwise (· < ·) l) (hm : ∀ v, v ∈ l ↔ Mem s v) : l = iter s :=
  sorted_ext l (iter s) hl (iter_sorted s h) (fun v => by rw [hm v, mem_iter s v])

/-- `cardinality()` is the number of members: the length of the duplicate-free enumeration,
    and `Set.ncard` of the denoted set. -/
theorem cardinality_counts_members (s : List (Int × Int)) (h : Canon s) :
    cardinality s = ((iter s).length : Int) ∧
    cardinality s = ((({v | Mem s v} : Set Int).ncard : Nat) : Int) :=
  ⟨cardinality_eq_length s h, cardinality_eq_ncard s h⟩

/-- `empty()` / `not bool(s)` ⇔ the denoted set is empty. -/
theorem empty_iff_no_member (s : List (Int × Int)) (h : Canon s) :
    empty s = true ↔ ∀ v, ¬ Mem s v := by
  cases s with
  | nil => simp [empty, mem_nil]
  | cons r t =>
    simp only [empty, List.isEmpty_cons, Bool.false_eq_true, false_iff, not_forall, not_not]
    exact ⟨r.1, (mem_cons r t _).2 (Or.inl ⟨Int.le_refl _, canon_head h⟩)⟩

/-! ### canonical form is unique: equal sets compare equal -/

theorem canonical_unique (a b : List (Int × Int)) (ha : Canon a) (hb : Canon b)
    (h : ∀ v, Mem a v ↔ Mem b v) : a = b := canon_unique a b ha hb h

/-- `__eq__` (tuple equality of `ranges`) is equality of the denoted sets. -/
theorem eq_iff_same_set (a b : List (Int × Int)) (ha : Canon a) (hb : Canon b) :
    eq a b = true ↔ ∀ v, Mem a v ↔ Mem b v := by
  simp only [eq, decide_eq_true_eq]
  exact ⟨fun e v => by rw [e], canon_unique a b ha hb⟩

/-- Consequence for results: whatever expression produced two sets, if they denote the same
    integers the objects are equal (e.g. `(a - b) | (b - a)` and `(a | b) - (a & b)`). -/
theorem results_with_same_members_equal (xs ys : List (Int × Int))
    (h : ∀ v, Mem (mk xs) v ↔ Mem (mk ys) v) : mk xs = mk ys :=
  canon_unique _ _ (mk_spec xs).1 (mk_spec ys).1 h

/-! ### closure: every object reachable through the API (no hypotheses at all)

`SetExpr` = constructor calls on arbitrary range lists combined with `| & - ^`;
`eval` is what the code computes, `sem` the set-theoretic meaning. -/

theorem reachable_canonical_and_denotes (e : SetExpr) :
    Canon e.eval ∧ ∀ v, Mem e.eval v ↔ e.sem v := setExpr_spec e

theorem reachable_contains (e : SetExpr) (v : Int) : contains e.eval v = true ↔ e.sem v := by
  rw [contains_iff _ (setExpr_spec e).1 v, (setExpr_spec e).2 v]

theorem reachable_iteration (e : SetExpr) :
    List.Pairwise (· < ·) (iter e.eval) ∧ (∀ v, v ∈ iter e.eval ↔ e.sem v) ∧
    cardinality e.eval = ((iter e.eval).length : Int) :=
  ⟨iter_sorted _ (setExpr_spec e).1, fun v => by rw [mem_iter, (setExpr_spec e).2 v],
   cardinality_eq_length _ (setExpr_spec e).1⟩

/-- equal sets compare equal, however they were computed -/
theorem reachable_eq (e₁ e₂ : SetExpr) : eq e₁.eval e₂.eval = true ↔ ∀ v, e₁.sem v ↔ e₂.sem v := by
  simp only [eq, decide_eq_true_eq]
  constructor
  · intro h v; rw [← (setExpr_spec e₁).2 v, ← (setExpr_spec e₂).2 v, h]
  · intro h
    exact canon_unique _ _ (setExpr_spec e₁).1 (setExpr_spec e₂).1
      (fun v => by rw [(setExpr_spec e₁).2 v, (setExpr_spec e₂).2 v, h v])

/-! ### the executable specification used by the driver is the specification -/

theorem spec_memB (rs : List (Int × Int)) (v : Int) : memB rs v = true ↔ Mem rs v := memB_iff rs v
theorem spec_canonB (rs : List (Int × Int)) : canonB rs = true ↔ Canon rs := canonB_iff rs

/-! ### non-vacuity / concrete instances (tests, labelled as such) -/

-- unsorted, empty (9,8), nested (4,4), adjacent (1,3)+(4,4)+(5,7) and overlapping (6,10) inputs
example : mk [(5, 7), (1, 3), (4, 4), (9, 8), (6, 10), (13, 13)] = [(1, 10), (13, 13)] := by decide +kernel
example : Canon [(1, 10), (13, 13)] := (canonB_iff _).1 (by decide +kernel)
-- adjacent ranges are NOT canonical, ranges separated by one missing integer are
example : ¬ Canon [(1, 2), (3, 4)] := fun h => by have := (canonB_iff _).2 h; revert this; decide +kernel
example : Canon [(1, 2), (4, 4)] := (canonB_iff _).1 (by decide +kernel)
example : union [(1, 2)] [(3, 5)] = [(1, 5)] := by decide +kernel
example : inter [(1, 5), (8, 12)] [(3, 9)] = [(3, 5), (8, 9)] := by decide +kernel
example : diff [(1, 10)] [(3, 4), (7, 20)] = [(1, 2), (5, 6)] := by decide +kernel
example : symDiff [(1, 5)] [(3, 8)] = [(1, 2), (6, 8)] := by decide +kernel
example : contains [(1, 3), (7, 9)] 7 = true ∧ contains [(1, 3), (7, 9)] 3 = true
    ∧ contains [(1, 3), (7, 9)] 4 = false ∧ contains [(1, 3), (7, 9)] 10 = false := by decide +kernel
example : iter [(-7, -7), (1, 3)] = [-7, 1, 2, 3] ∧ cardinality [(-7, -7), (1, 3)] = 4 := by decide +kernel
-- the Canon hypothesis of the operation theorems matters: on an unsorted operand the loop misses {1,2}
example : interLoop [(5, 6), (1, 2)] [(1, 2)] = [] := by decide +kernel
-- (a - b) | (b - a) and (a | b) - (a & b) give the same object
example : (SetExpr.sym (.lit [(1, 5), (9, 9)]) (.lit [(3, 8)])).eval
    = (SetExpr.diff (.union (.lit [(1, 5), (9, 9)]) (.lit [(3, 8)])) (.inter (.lit [(1, 5), (9, 9)]) (.lit [(3, 8)]))).eval := by
  decide +kernel

end Props.C33
