import PpciVerif.Model.OrderedSet
import PpciVerif.Spec.OrderedSet
import PpciVerif.Proofs.OrderedSet
import PpciVerif.Proofs.OrderedSetSpec
import PpciVerif.Proofs.OrderedSetRefine
/-!
# C30 — compilation is deterministic: the OrderedSet sliver ONLY

What is proved here: `ppci.utils.collections.OrderedSet` (hand model
`Model.OrderedSet`: doubly linked list of cells + dict, with the inherited
`MutableSet` mixins) refines the duplicate-free insertion-ordered list of
`Spec.OrderedSet` for EVERY history of operations.  The model never enumerates
the dict, so the iteration order is a function of the history alone.

What is NOT proved (and cannot be carried by a model of one class): that the
compiler as a process produces byte-identical output under different
`PYTHONHASHSEED`s, in different processes, after other compilations.  That
statement is kept visible as `compilation_deterministic_full`; `harness/c30.py`
only SEARCHES for counterexamples to it.
-/
namespace Props.C30
open Model.OrderedSet Proofs.OrderedSet

/-- Full statement of C30 for a compiler seen as a function of everything the property says
    must not matter (hash seed, what was compiled earlier in the process) and of what may
    matter (source, configuration).  Not proved. -/
def compilation_deterministic_full {Source Config Bytes : Type}
    (compile : (hashSeed : Nat) → (earlier : List Source) → Source → Config → Bytes) : Prop :=
  ∀ h₁ h₂ e₁ e₂ src cfg, compile h₁ e₁ src cfg = compile h₂ e₂ src cfg

/-- For every history: `__iter__` terminates (the fuel bound is never hit) and yields exactly the
    specification's list. -/
theorem orderedset_iteration_refines_list_partial (ops : List Op) :
    iter (run ops) = .ok (Spec.OrderedSet.run (ops.map toSpec)) :=
  rep_iter (rep_run ops)

/-- … which has no duplicates, has `len(s)` elements, and contains exactly the members. -/
theorem orderedset_set_view_partial (ops : List Op) :
    (Spec.OrderedSet.run (ops.map toSpec)).Nodup ∧
    len (run ops) = (Spec.OrderedSet.run (ops.map toSpec)).length ∧
    ∀ v, contains (run ops) v = true ↔ v ∈ Spec.OrderedSet.run (ops.map toSpec) :=
  ⟨rep_nodup (rep_run ops), rep_len (rep_run ops), rep_contains (rep_run ops)⟩

/-- `remove`/`pop` raise `KeyError` exactly when the specification says so, after every history. -/
theorem orderedset_keyerror_partial (ops : List Op) (op : Op) :
    ((apply (run ops) op).2 = some .KeyError ↔
      (Spec.OrderedSet.apply (Spec.OrderedSet.run (ops.map toSpec)) (toSpec op)).2 = true) ∧
    ((apply (run ops) op).2 = none ↔
      (Spec.OrderedSet.apply (Spec.OrderedSet.run (ops.map toSpec)) (toSpec op)).2 = false) :=
  (rep_apply (rep_run ops) op).2

/-- Insertion order: `OrderedSet(iterable)` / a sequence of `add`s iterates in order of FIRST occurrence. -/
theorem orderedset_first_insertion_order_partial (vs : List Int) :
    iter (ofList vs) = .ok (Spec.OrderedSet.firstOccurrences vs) := by
  rw [← SpecL.ofList_firstOcc]; exact rep_iter (rep_ofList vs)

/-- A discarded element that is added again goes to the END (order of the surviving insertions). -/
theorem orderedset_reinsert_at_end_partial (ops : List Op) (v : Int) :
    iter (run (ops ++ [.discard v, .add v])) =
      .ok ((Spec.OrderedSet.run (ops.map toSpec)).filter (· ≠ v) ++ [v]) := by
  have h := orderedset_iteration_refines_list_partial (ops ++ [.discard v, .add v])
  rw [h]
  simp only [List.map_append, List.map_cons, List.map_nil, toSpec, Spec.OrderedSet.run, List.foldl_append,
    List.foldl_cons, List.foldl_nil, Spec.OrderedSet.apply, Spec.OrderedSet.discard, Spec.OrderedSet.add]
  simp

/-! ### non-vacuity / concrete instances -/
example : toList (run [.add 3, .add 1, .add 3, .add 2, .discard 1, .add 1]) = [3, 2, 1] := by decide +kernel
example : toList (run [.init [5, 6, 7, 5], .pop, .ixor [7, 9], .iand [9, 6, 1]]) = [6, 9] := by decide +kernel
example : (apply (run [.add 1, .pop]) .pop).2 = some .KeyError := by decide +kernel
example : (apply (run [.add 1]) (.remove 2)).2 = some .KeyError := by decide +kernel
/-- `__reversed__` as written in the source yields only the first element -/
example : reversed (run [.add 1, .add 2, .add 3]) = [1] := by decide +kernel
example : Spec.OrderedSet.firstOccurrences [2, 1, 2, 3, 1] = [2, 1, 3] := by decide +kernel

end Props.C30
