import PpciVerif.Model.X64CC
import PpciVerif.Spec.SysV
import PpciVerif.Gen.X64ABI
import PpciVerif.Proofs.X64CC
/-!
# C40 — x86-64 code follows the System V ABI (PARTIAL)

Property theorems only.  Model: `Model.X64CC` (hand model of `X86_64Arch`, Sys V branch, tied by
correspondence), tables: `Gen.X64ABI` (dump of the live register lists, re-checked here by `decide`),
specification: `Spec.SysV` (psABI 3.2, scalar parameters).

What a model can carry is the classification / location logic and the stack discipline of the
generated prologue, epilogue and call sequences.  Not shown (never claimed): that the machine
instructions do what the abstract stack machine says, register allocation (C06), object files and
relocations, aggregates, varargs, `wincc`.
-/
namespace Props.C40
open Model.X64CC Proofs.X64CC
open Spec.SysV (Ty GPR)

/-- The full statement the property asks for, as far as the model can express it: every signature
    can be called and received, every argument travels through its psABI location, and the frame
    discipline holds.  NOT proved: the first two conjuncts are false for the current code
    (`sysv_interop_full_fails` below); the theorems of this file prove the rest, and the first two
    under the guard `StackArgsWordSized`. -/
def sysv_interop_full : Prop :=
  (∀ sig rv ind, ∃ c, genCall sig rv ind = .ok c) ∧
  (∀ sig, ∃ is, genFunctionEnter sig = .ok is) ∧
  (∀ sig, (determineArgLocations sig).map Loc.toSpec = (Spec.SysV.argLocs sig).map some)

/-! ## 1. argument and return-value locations: ∀ signatures -/

/-- **Every argument of every signature is where the psABI puts it.**  (After the fix of the 4-byte
    f32 stack slots this holds without exception.) -/
theorem arg_locations_eq_spec (sig : List Ty) :
    (determineArgLocations sig).map Loc.toSpec = (Spec.SysV.argLocs sig).map some := by
  have := (argLoop_spec sig []).1
  rw [stAfter_nil, specFrom_nil] at this
  exact this

/-- pointwise form: argument `i` -/
theorem arg_location_eq_spec (sig : List Ty) (i : Nat) (h : i < sig.length) :
    ((determineArgLocations sig)[i]?).bind Loc.toSpec = some (Spec.SysV.argLoc sig i) := by
  have := congrArg (fun l => l[i]?) (arg_locations_eq_spec sig)
  simp only [List.getElem?_map] at this
  rw [show (Spec.SysV.argLocs sig)[i]? = some (Spec.SysV.argLoc sig i) by
    simp [Spec.SysV.argLocs, List.getElem?_map, List.getElem?_range h]] at this
  cases hl : (determineArgLocations sig)[i]? with
  | none => simp [hl] at this
  | some l => simpa [hl] using this

/-- one location per argument -/
theorem arg_locations_length (sig : List Ty) : (determineArgLocations sig).length = sig.length := by
  have := congrArg List.length (arg_locations_eq_spec sig)
  simpa [Spec.SysV.argLocs] using this

/-- every stack argument occupies exactly one eightbyte -/
theorem stack_slots_are_eightbytes (sig : List Ty) (o s : Nat)
    (h : Loc.stack o s ∈ determineArgLocations sig) : s = 8 := by
  have := (argLoop_spec sig []).2
  rw [stAfter_nil] at this
  exact this o s h

/-- the return value is in `rax` / `xmm0` (read through the sub-register of the type's width) -/
theorem rv_location_eq_spec (t : Ty) :
    (determineRvLocation t).toSpec = some (Spec.SysV.retLoc t) := by
  cases t <;> decide

/-! ## 2. the live register tables (regenerated on every run) -/

/-- reading a dumped `(kind, num, bitsize)` row as a register of the model -/
def ofRow : Nat × Nat × Nat → Option Reg
  | (0, n, 64) => some (.r64 n)
  | (0, n, 32) => some (.r32 n)
  | (0, n, 16) => some (.r16 n)
  | (0, n, 8) => some (.r8 n)
  | (1, n, 64) => some (.xmmD n)
  | (1, n, 32) => some (.xmmS n)
  | _ => none

/-- hardware identity of a dumped row (1000 = not a register the model knows) -/
def rowId (r : Nat × Nat × Nat) : Nat :=
  match ofRow r with
  | some x => x.parent
  | none => 1000

def tyOfCode : Nat → Option Ty
  | 98 => some .i8 | 66 => some .u8 | 115 => some .i16 | 83 => some .u16 | 105 => some .i32 | 73 => some .u32
  | 108 => some .i64 | 76 => some .u64 | 112 => some .ptr | 102 => some .f32 | 100 => some .f64 | _ => none

/-- the registers the real `determine_arg_locations` hands out are the model's lists … -/
theorem gen_arg_regs_are_model :
    Gen.X64ABI.intArgRegs64.map ofRow = intRegs.map (fun p => some p.1) ∧
    Gen.X64ABI.intArgRegs32.map ofRow = intRegs.map (fun p => some p.2) ∧
    Gen.X64ABI.intArgRegs16 = Gen.X64ABI.intArgRegs64 ∧
    Gen.X64ABI.intArgRegs8 = Gen.X64ABI.intArgRegs64 ∧
    Gen.X64ABI.ptrArgRegs = Gen.X64ABI.intArgRegs64 ∧
    Gen.X64ABI.floatArgRegs64.map ofRow = floatRegs.map (fun p => some p.2) ∧
    Gen.X64ABI.floatArgRegs32.map ofRow = floatRegs.map (fun p => some p.1) := by decide

/-- … and they are the psABI sequences `rdi rsi rdx rcx r8 r9` and `xmm0 … xmm7` -/
theorem gen_arg_regs_are_sysv :
    Gen.X64ABI.intArgRegs64.map (fun r => (ofRow r).bind Reg.toSpec) = Spec.SysV.intArgRegs.map (fun g => some (.gpr g)) ∧
    Gen.X64ABI.intArgRegs32.map (fun r => (ofRow r).bind Reg.toSpec) = Spec.SysV.intArgRegs.map (fun g => some (.gpr g)) ∧
    Gen.X64ABI.floatArgRegs64.map (fun r => (ofRow r).bind Reg.toSpec) = Spec.SysV.sseArgRegs.map (fun n => some (.xmm n)) ∧
    Gen.X64ABI.floatArgRegs32.map (fun r => (ofRow r).bind Reg.toSpec) = Spec.SysV.sseArgRegs.map (fun n => some (.xmm n)) := by
  decide

/-- the real `determine_rv_location` table is the model's, hence `rax`/`xmm0` -/
theorem gen_rv_regs_are_model :
    Gen.X64ABI.rvRegs.map (fun (c, r) => (tyOfCode c, ofRow r))
      = [Ty.i8, .u8, .i16, .u16, .i32, .u32, .i64, .u64, .ptr, .f32, .f64].map
          (fun t => (some t, some (determineRvLocation t))) := by decide

theorem gen_callee_save_is_model : Gen.X64ABI.calleeSave.map ofRow = calleeSave.map some := by decide

/-- `arch.info.alias[c]` of every callee-save register = the registers with the same hardware
    parent: `Frame.is_used` is `Model.X64CC.isUsed` -/
theorem gen_alias_is_parent :
    Gen.X64ABI.calleeSaveAlias.map (·.1) = Gen.X64ABI.calleeSave ∧
    Gen.X64ABI.calleeSaveAlias.all (fun (c, al) =>
      Gen.X64ABI.aliasUniverse.all (fun r => decide (r ∈ al) == (rowId r == rowId c))) = true := by
  decide +kernel

/-- callee side: every allocatable register that is (part of) a psABI callee-saved register is
    covered by the callee-save list, and `rsp rbp r12 r13` are never handed out -/
theorem gen_allocatable_callee_saved_are_saved :
    Gen.X64ABI.allocatable.all (fun r =>
      rowId r != 1000 && !([4, 5, 12, 13].contains (rowId r)) &&
      (!((Spec.SysV.calleeSaved.map GPR.num).contains (rowId r)) || (Gen.X64ABI.calleeSave.map rowId).contains (rowId r))) = true := by
  decide +kernel

/-- caller side: every allocatable register that ppci assumes to survive a call (not in the clobber
    list `_caller_save`) is callee-saved in the psABI -/
theorem gen_preserved_across_calls_are_sysv_callee_saved :
    Gen.X64ABI.allocatable.all (fun r =>
      (Gen.X64ABI.callerSave.map rowId).contains (rowId r) || (Spec.SysV.calleeSaved.map GPR.num).contains (rowId r)) = true := by
  decide +kernel

/-! ## 3. prologue / epilogue: ∀ used-register sets, ∀ frame sizes -/

/-- hardware numbers of the registers the prologue saves -/
def savedIds (used : List Reg) : List Nat := (getCalleeSaved used).map Reg.parent

theorem savedIds_mem (used : List Reg) (r : Nat) (h : r ∈ savedIds used) : r = 3 ∨ r = 14 ∨ r = 15 := by
  simp only [savedIds, getCalleeSaved, calleeSave, List.mem_map, List.mem_filter] at h
  obtain ⟨c, ⟨hc, _⟩, rfl⟩ := h
  simp at hc
  rcases hc with rfl | rfl | rfl <;> simp [Reg.parent]

theorem savedSize_eq (used : List Reg) : savedSize (getCalleeSaved used) = 8 * (savedIds used).length := by
  have key : ∀ l : List Reg, (∀ r ∈ l, r.bitsize = 64) → savedSize l = 8 * l.length := by
    intro l
    induction l with
    | nil => intro _; rfl
    | cons a t ih =>
      intro h
      have ha := h a (by simp)
      have := ih (fun r hr => h r (by simp [hr]))
      simp only [savedSize, List.map_cons, List.sum_cons, List.length_cons] at this ⊢
      rw [this, ha]; omega
  rw [savedIds, List.length_map]
  apply key
  intro r hr
  simp only [getCalleeSaved, calleeSave, List.mem_filter] at hr
  obtain ⟨hc, _⟩ := hr
  simp at hc
  rcases hc with rfl | rfl | rfl <;> rfl

theorem genPrologue_eq (used : List Reg) (n : Nat) :
    genPrologue used n = proOf (savedIds used) (frameAdjust n (getCalleeSaved used)) := by
  simp [genPrologue, proOf, savedIds, List.map_map, RBP, RSP, Function.comp_def]

theorem genEpilogue_eq (used : List Reg) (n : Nat) :
    genEpilogue used n = epiOf (savedIds used) (frameAdjust n (getCalleeSaved used)) := by
  simp [genEpilogue, epiOf, savedIds, List.map_map, List.map_reverse, RBP, Function.comp_def]

theorem four_not_saved (used : List Reg) : 4 ∉ savedIds used := fun h => by
  rcases savedIds_mem used 4 h with h | h | h <;> omega
theorem five_not_saved (used : List Reg) : 5 ∉ savedIds used := fun h => by
  rcases savedIds_mem used 5 h with h | h | h <;> omega

/-- total `sub rsp` amount of the frame -/
def adjustSum (used : List Reg) (n : Nat) : Nat := (frameAdjust n (getCalleeSaved used)).sum

/-- **Frame discipline.**  For every set of used registers and every frame size, for every state `s0`
    at function entry and every state `s2` in which the body hands over to the epilogue:

    ASSUMPTIONS about the body `s1 ⟶ s2` (explicit):
    * `hrsp`   it leaves `rsp` where the prologue put it;
    * `hregs`  it writes a psABI callee-saved register other than `rbp` only if an alias of that
               register is in `used_regs` (it may write `rbp`, every caller-saved register and every
               member of `used_regs`);
    * `hsave`  it does not write the register save area `[rsp, rsp + 8·#saved)` …
    * `hslot`  … nor the slot holding the caller's `rbp`;
    * `hused`  `used_regs` holds only allocatable registers: no part of `r12`, `r13`
               (table fact `gen_allocatable_callee_saved_are_saved`).

    Then after the epilogue (just before `ret`) `rsp` points at the return address again and `rbp`
    and every psABI callee-saved register hold their entry values. -/
theorem frame_discipline (used : List Reg) (stacksize : Nat) (s0 s2 : MState)
    (hrsp : s2.reg 4 = (run (genPrologue used stacksize) s0).reg 4)
    (hregs : ∀ r ∈ Spec.SysV.calleeSaved, r ≠ .rbp → (∀ u ∈ used, u.parent ≠ r.num) →
        s2.reg r.num = (run (genPrologue used stacksize) s0).reg r.num)
    (hsave : ∀ a, (run (genPrologue used stacksize) s0).reg 4 ≤ a →
        a < (run (genPrologue used stacksize) s0).reg 4 + 8 * (savedIds used).length →
        s2.mem a = (run (genPrologue used stacksize) s0).mem a)
    (hslot : s2.mem (s0.reg 4 - 8) = (run (genPrologue used stacksize) s0).mem (s0.reg 4 - 8))
    (hused : ∀ u ∈ used, u.parent ≠ 12 ∧ u.parent ≠ 13) :
    (run (genEpilogue used stacksize) s2).reg 4 = s0.reg 4 ∧
    (run (genEpilogue used stacksize) s2).reg 5 = s0.reg 5 ∧
    ∀ r ∈ Spec.SysV.calleeSaved, (run (genEpilogue used stacksize) s2).reg r.num = s0.reg r.num := by
  rw [genPrologue_eq] at hrsp hregs hsave hslot
  rw [genEpilogue_eq]
  obtain ⟨f1, f2, f3, f4⟩ := frame_core (savedIds used) _ (four_not_saved used) (five_not_saved used) s0 s2 hrsp hsave hslot
  obtain ⟨_, _, g3, _⟩ := pro_spec (savedIds used) (frameAdjust stacksize (getCalleeSaved used)) (four_not_saved used) s0
  refine ⟨f1, f2, ?_⟩
  intro r hr
  by_cases hin : r.num ∈ savedIds used
  · exact f3 _ hin
  · by_cases h5 : r = .rbp
    · subst h5; exact f2
    · have hr4 : r.num ≠ 4 := by
        simp [Spec.SysV.calleeSaved] at hr; rcases hr with rfl | rfl | rfl | rfl | rfl | rfl <;> decide
      have hr5 : r.num ≠ 5 := by
        simp [Spec.SysV.calleeSaved] at hr; rcases hr with rfl | rfl | rfl | rfl | rfl | rfl <;> first | decide | exact absurd rfl h5
      rw [f4 _ hin hr4 hr5, hregs r hr h5 ?_, g3 _ hr4 hr5]
      -- no alias of r is in used_regs: r ∈ {rbx, r14, r15} and not saved, or r ∈ {r12, r13}
      intro u hu hpar
      have hnot := hused u hu
      simp [Spec.SysV.calleeSaved] at hr
      rcases hr with rfl | rfl | rfl | rfl | rfl | rfl
      · apply hin
        simp only [savedIds, getCalleeSaved, calleeSave, List.mem_map, List.mem_filter]
        exact ⟨.r64 3, ⟨by simp, by simp only [isUsed, List.any_eq_true]; exact ⟨u, hu, by simpa [Reg.parent, GPR.num] using hpar⟩⟩, rfl⟩
      · exact h5 rfl
      · exact hnot.1 hpar
      · exact hnot.2 hpar
      · apply hin
        simp only [savedIds, getCalleeSaved, calleeSave, List.mem_map, List.mem_filter]
        exact ⟨.r64 14, ⟨by simp, by simp only [isUsed, List.any_eq_true]; exact ⟨u, hu, by simpa [Reg.parent, GPR.num] using hpar⟩⟩, rfl⟩
      · apply hin
        simp only [savedIds, getCalleeSaved, calleeSave, List.mem_map, List.mem_filter]
        exact ⟨.r64 15, ⟨by simp, by simp only [isUsed, List.any_eq_true]; exact ⟨u, hu, by simpa [Reg.parent, GPR.num] using hpar⟩⟩, rfl⟩

/-- the frame the prologue builds: `rbp` = entry `rsp` − 8 (figure 3.3, so parameters are at
    `rbp+16…`), the locals `[rbp − stacksize, rbp)` lie above the register save area
    `[rsp, rsp + 8·#saved)`, and the prologue writes nothing at or above the return address -/
theorem frame_layout (used : List Reg) (stacksize : Nat) (s0 : MState) :
    (run (genPrologue used stacksize) s0).reg 5 = s0.reg 4 - 8 ∧
    (run (genPrologue used stacksize) s0).reg 4 + 8 * (savedIds used).length + stacksize
      ≤ (run (genPrologue used stacksize) s0).reg 5 ∧
    (∀ a, s0.reg 4 ≤ a → (run (genPrologue used stacksize) s0).mem a = s0.mem a) := by
  rw [genPrologue_eq]
  obtain ⟨g1, g2, _, g4⟩ := pro_spec (savedIds used) (frameAdjust stacksize (getCalleeSaved used)) (four_not_saved used) s0
  refine ⟨g2, ?_, g4⟩
  rw [g1, g2]
  have : stacksize ≤ (frameAdjust stacksize (getCalleeSaved used)).sum := by
    unfold frameAdjust roundUp16
    split
    · simp
    · omega
  omega

/-- **Alignment.**  `rsp ≡ 8 (mod 16)` at entry (psABI 3.2.2) ⟹ `rsp ≡ 0 (mod 16)` in the body,
    for every used-register set and every frame size. -/
theorem body_rsp_aligned (used : List Reg) (stacksize : Nat) (s0 : MState)
    (hentry : Spec.SysV.alignedAtEntry (s0.reg 4)) :
    Spec.SysV.alignedAtCall ((run (genPrologue used stacksize) s0).reg 4) := by
  rw [genPrologue_eq]
  obtain ⟨g1, _, _, _⟩ := pro_spec (savedIds used) (frameAdjust stacksize (getCalleeSaved used)) (four_not_saved used) s0
  unfold Spec.SysV.alignedAtCall Spec.SysV.alignedAtEntry at *
  rw [g1]
  have hs := savedSize_eq used
  generalize (savedIds used).length = n at *
  unfold frameAdjust roundUp16
  rw [hs]
  split
  · simp only [List.sum_cons, List.sum_nil]; omega
  · split
    · simp only [List.sum_cons, List.sum_nil]; omega
    · simp only [List.sum_nil]; omega

/-! ## 4. call sites: ∀ signatures whose stack arguments are word sized -/

/-- the guard of the `_partial` theorems: every argument that has to travel on the stack is a
    32/64-bit integer or pointer — the only cases `gen_call` implements.  Excluded (open findings):
    float/double and 8/16-bit integer arguments on the stack raise `NotImplementedError`. -/
def StackArgsWordSized (sig : List Ty) : Prop :=
  ∀ it ∈ memArgs sig, vregClass it.2 = .r64 0 ∨ vregClass it.2 = .r32 0

theorem pushArgs_ok_iff (l : List (Nat × Ty)) :
    (∃ p, pushArgs l = .ok p) ↔ ∀ it ∈ l, vregClass it.2 = .r64 0 ∨ vregClass it.2 = .r32 0 := by
  induction l with
  | nil => simp [pushArgs]
  | cons a rest ih =>
    obtain ⟨i, t⟩ := a
    have h1 : (∃ q, pushArg i t = .ok q) ↔ (vregClass t = .r64 0 ∨ vregClass t = .r32 0) := by
      cases t <;> simp [pushArg, vregClass]
    simp only [pushArgs, List.mem_cons, forall_eq_or_imp]
    rw [← ih, ← h1]
    constructor
    · rintro ⟨p, hp⟩
      split at hp <;> simp_all
    · rintro ⟨⟨q, hq⟩, ⟨p, hp⟩⟩
      exact ⟨q ++ p, by rw [hq, hp]⟩

/-- `gen_call` produces code exactly for the guarded signatures (otherwise NotImplementedError) -/
theorem gen_call_defined_iff (sig : List Ty) (rv : Option Ty) (ind : Bool) :
    (∃ c, genCall sig rv ind = .ok c) ↔ StackArgsWordSized sig := by
  unfold StackArgsWordSized
  rw [show (∀ it ∈ memArgs sig, vregClass it.2 = .r64 0 ∨ vregClass it.2 = .r32 0)
        ↔ (∀ it ∈ (memArgs sig).reverse, vregClass it.2 = .r64 0 ∨ vregClass it.2 = .r32 0) by simp]
  rw [← pushArgs_ok_iff]
  simp only [genCall]
  constructor
  · rintro ⟨c, hc⟩
    split at hc
    · simp at hc
    · rename_i p hp; exact ⟨p, hp⟩
  · rintro ⟨p, hp⟩
    simp only [hp]
    exact ⟨_, rfl⟩

/-- identity of a psABI register location on the abstract machine -/
def specId : Spec.SysV.Loc → Nat
  | .gpr r => r.num
  | .xmm n => 16 + n
  | .mem _ => 1000

theorem callPost_rsp (rv : Option Ty) (total : Nat) (s2 : MState) :
    (run (callPost rv total) s2).reg 4 = s2.reg 4 + total := by
  unfold callPost
  cases rv <;> by_cases h : total = 0 <;> simp [h, step, upd, rvVreg]

/-- **Call sites (partial: guarded by `gen_call` being defined, i.e. `StackArgsWordSized`).**
    For every such signature and every machine state `s` before the sequence:
    1. the argument area is a multiple of 16 bytes, so `rsp` at the `call` instruction is congruent
       to `rsp` in the body (≡ 0 mod 16 by `body_rsp_aligned`);
    2. every argument the psABI passes in memory at `off(%rbp)` (callee view: `rbp` = `rsp` at the
       call − 16) holds the value of that argument's virtual register;
    3. after the call the post sequence brings `rsp` back;
    4. the result is fetched from the psABI return register. -/
theorem call_site_partial (sig : List Ty) (rv : Option Ty) (ind : Bool) (c : CallSeq) (h : genCall sig rv ind = .ok c) (s : MState) :
    c.stackSize % 16 = 0 ∧
    (run c.pre s).reg 4 = s.reg 4 - c.stackSize ∧
    (∀ i off, Spec.SysV.argLoc sig i = .mem off → i < sig.length →
        (run c.pre s).mem ((run c.pre s).reg 4 - 16 + off) = s.reg (vreg i)) ∧
    (∀ s2 : MState, s2.reg 4 = (run c.pre s).reg 4 → (run c.post s2).reg 4 = s.reg 4) ∧
    (∀ t (s2 : MState), rv = some t → (run c.post s2).reg rvVreg = s2.reg (specId (Spec.SysV.retLoc t))) := by
  simp only [genCall] at h
  split at h
  · simp at h
  rename_i pushes hp
  simp only [Except.ok.injEq] at h
  subst h
  simp only
  generalize hn : (memArgs sig).length = n
  -- the three phases
  have hpadrun : ∀ s : MState, (run (if callPad n ≠ 0 then [Instr.sub (callPad n)] else []) s).reg 4 = s.reg 4 - callPad n ∧
      (∀ r, r ≠ 4 → (run (if callPad n ≠ 0 then [Instr.sub (callPad n)] else []) s).reg r = s.reg r) ∧
      (run (if callPad n ≠ 0 then [Instr.sub (callPad n)] else []) s).mem = s.mem := by
    intro s
    split
    · refine ⟨by simp [step], fun r hr => by simp [step, upd_other _ _ _ _ hr], by simp [step]⟩
    · rename_i h0
      have : callPad n = 0 := by simpa using h0
      simp [this]
  obtain ⟨a1, a2, a3⟩ := hpadrun s
  generalize hsa : run (if callPad n ≠ 0 then [Instr.sub (callPad n)] else []) s = sa at a1 a2 a3
  obtain ⟨b1, b2, b3, b4⟩ := pushArgs_spec _ pushes sa hp
  generalize hsb : run pushes sa = sb at b1 b2 b3 b4
  obtain ⟨m1, m2⟩ := callMoves_preserve sig sb
  have hpre : run ((if callPad n ≠ 0 then [Instr.sub (callPad n)] else []) ++ pushes ++
      (regArgs sig).flatMap (fun (i, t, l) => moveArg i t l)) s
      = run ((regArgs sig).flatMap (fun (i, t, l) => moveArg i t l)) sb := by
    rw [run_append, run_append, hsa, hsb]
  rw [hpre]
  have e4 : (run ((regArgs sig).flatMap (fun (i, t, l) => moveArg i t l)) sb).reg 4 = s.reg 4 - callStackSize n := by
    rw [m2 4 (by decide) (by decide), b1, a1, List.length_reverse, hn]; unfold callStackSize; push_cast; omega
  refine ⟨?_, e4, ?_, ?_, ?_⟩
  · unfold callStackSize callPad; omega
  · intro i off hloc hi
    -- the model's location of argument i is the stack slot `off`
    have hl := arg_location_eq_spec sig i hi
    rw [hloc] at hl
    cases hli : (determineArgLocations sig)[i]? with
    | none => simp [hli] at hl
    | some l =>
      rw [hli] at hl
      cases l with
      | reg r => cases r <;> simp [Loc.toSpec, Reg.toSpec] at hl <;> (try split at hl) <;> simp_all
      | stack o sz =>
        simp [Loc.toSpec] at hl
        subst hl
        obtain ⟨k, t, hk, ho⟩ := memArgs_offsets sig initState 0 i o sz hli
        simp only [Nat.zero_add] at hk
        have hk' : (memArgs sig)[k]? = some (i, t) := hk
        have hkn : k < n := by
          rw [← hn]; exact (List.getElem?_eq_some_iff.1 hk').1
        have hrev : (memArgs sig).reverse[n - 1 - k]? = some (i, t) := by
          rw [List.getElem?_reverse (by rw [hn]; omega), hn]
          rw [show n - 1 - (n - 1 - k) = k by omega]; exact hk'
        have := b4 (n - 1 - k) i t hrev
        rw [m1, e4]
        have eo : o = 16 + 8 * k := by rw [ho]; rfl
        have eaddr : s.reg 4 - (callStackSize n : Int) - 16 + (o : Int) = sa.reg 4 - 8 * (((n - 1 - k : Nat) : Int) + 1) := by
          rw [a1, eo]; unfold callStackSize; push_cast; omega
        rw [eaddr, this, a2 _ (by simp [vreg]; omega)]
  · intro s2 h2
    rw [e4] at h2
    rw [callPost_rsp, h2]; omega
  · intro t s2 hrv
    subst hrv
    unfold callPost
    rw [run_append]
    have hmv : (run [Instr.mov rvVreg (determineRvLocation t).parent] s2).reg rvVreg = s2.reg (specId (Spec.SysV.retLoc t)) := by
      cases t <;> simp [step, determineRvLocation, Reg.parent, specId, Spec.SysV.retLoc, Spec.SysV.classify, GPR.num]
    split
    · simp only [run_cons, run_nil] at hmv ⊢
      simp only [step]; rw [upd_other _ _ _ _ (by decide)]; exact hmv
    · simpa using hmv

theorem ofNum?_num (n : Nat) (g : GPR) (h : GPR.ofNum? n = some g) : g.num = n := by
  unfold GPR.ofNum? at h
  split at h <;> simp at h <;> subst h <;> rfl

theorem toSpec_parent (r : Reg) (loc : Spec.SysV.Loc) (h : r.toSpec = some loc) : r.parent = specId loc := by
  cases r with
  | r64 n | r32 n | r16 n =>
    simp only [Reg.toSpec, Option.map_eq_some_iff] at h
    obtain ⟨g, hg, rfl⟩ := h
    simp [Reg.parent, specId, ofNum?_num n g hg]
  | r8 n =>
    simp only [Reg.toSpec] at h
    split at h
    · rename_i hn
      simp only [Option.map_eq_some_iff] at h
      obtain ⟨g, hg, rfl⟩ := h
      simp [Reg.parent, specId, ofNum?_num n g hg, hn]
    · simp at h
  | xmmD n | xmmS n => simp [Reg.toSpec] at h; subst h; rfl

/-- **Call sites, register arguments (partial, same guard).**  At the `call` instruction every
    argument that the psABI passes in a register is in that register (`rdi rsi rdx rcx r8 r9`,
    `xmm0…7` – the 8/16-bit ones sign-extended through `rax`). -/
theorem call_site_register_args_partial (sig : List Ty) (rv : Option Ty) (ind : Bool) (c : CallSeq)
    (h : genCall sig rv ind = .ok c) (s : MState) (i : Nat) (hi : i < sig.length)
    (hreg : ∀ off, Spec.SysV.argLoc sig i ≠ .mem off) :
    (run c.pre s).reg (specId (Spec.SysV.argLoc sig i)) = s.reg (vreg i) := by
  simp only [genCall] at h
  split at h
  · simp at h
  rename_i pushes hp
  simp only [Except.ok.injEq] at h
  subst h
  simp only
  rw [run_append, run_append]
  generalize hsa : run (if callPad (memArgs sig).length ≠ 0 then [Instr.sub (callPad (memArgs sig).length)] else []) s = sa
  have a2 : ∀ r, r ≠ 4 → sa.reg r = s.reg r := by
    intro r hr; rw [← hsa]; split
    · simp [step, upd_other _ _ _ _ hr]
    · simp
  obtain ⟨_, b2, _, _⟩ := pushArgs_spec _ pushes sa hp
  generalize hsb : run pushes sa = sb at b2
  -- the model's location of argument i is a register r with r.toSpec = argLoc sig i
  have hl := arg_location_eq_spec sig i hi
  cases hli : (determineArgLocations sig)[i]? with
  | none => simp [hli] at hl
  | some l =>
    rw [hli] at hl
    cases l with
    | stack o sz => simp [Loc.toSpec] at hl; exact absurd hl.symm (hreg o)
    | reg r =>
      simp only [Option.bind_some, Loc.toSpec] at hl
      obtain ⟨_, hpw, hmemb⟩ := regArgs_spec sig initState 0 init_distinct
      obtain ⟨t, ht⟩ := hmemb i r hli
      rw [Nat.zero_add] at ht
      have hmv := moves_spec (regArgs sig)
        (fun x hx => argLoop_regs sig initState init_good.1 init_good.2 x.2.2 (regArgsFrom_mem sig _ 0 x.1 x.2.1 x.2.2 hx))
        hpw sb (i, t, r) ht
      simp only at hmv
      rw [← toSpec_parent r _ hl, hmv, b2 _ (by simp [vreg]; omega) (by simp [vreg]), a2 _ (by simp [vreg]; omega)]

/-- machine ids of everything a psABI callee may destroy: the caller-saved GPRs and all of xmm0–15 -/
def sysvDestroyedIds : List Nat :=
  Spec.SysV.callerSaved.map GPR.num ++ Spec.SysV.callerSavedXmm.map (16 + ·)

/-- a psABI-conforming callee as the caller sees it: on return `rsp` and the callee-saved
    registers are as they were at the call instruction; everything else may have changed -/
def ConformingCallee (s1 s2 : MState) : Prop :=
  s2.reg 4 = s1.reg 4 ∧ ∀ g ∈ Spec.SysV.calleeSaved, s2.reg g.num = s1.reg g.num

/-- **The clobber set of the call instruction (direct AND indirect form).**  The `clobbers=` list
    the emitted `Call` / `CallReg` carries (what the register allocator will not keep a value in
    across the call) contains every register a psABI callee may destroy; hence every hardware
    register (ids 0‥31) outside the clobber set keeps its value across a call to ANY conforming
    callee – whatever the caller parks there survives.  Guard: `gen_call` defined. -/
theorem call_unclobbered_survive_partial (sig : List Ty) (rv : Option Ty) (ind : Bool) (c : CallSeq)
    (h : genCall sig rv ind = .ok c) :
    c.indirect = ind ∧
    (∀ r ∈ sysvDestroyedIds, r ∈ c.clobbers) ∧
    (∀ s1 s2 : MState, ConformingCallee s1 s2 → ∀ r, r < 32 → r ∉ c.clobbers → s2.reg r = s1.reg r) := by
  simp only [genCall] at h
  split at h
  · simp at h
  simp only [Except.ok.injEq] at h
  subst h
  simp only [ite_self]
  refine ⟨trivial, by decide, ?_⟩
  intro s1 s2 hc r hr hn
  have key : ∀ r, r < 32 → r ∉ callerSave.map Reg.parent → r = 4 ∨ r ∈ Spec.SysV.calleeSaved.map GPR.num := by decide
  rcases key r hr hn with h4 | hcs
  · subst h4; exact hc.1
  · obtain ⟨g, hg, rfl⟩ := List.mem_map.1 hcs
    exact hc.2 g hg

/-- the `clobbers` of the REAL call instructions (`Call` from `gen_call` with a label callee,
    `CallReg` from `gen_call` with a register callee; regenerated on every run) are the model's list … -/
theorem gen_call_clobbers_are_model :
    Gen.X64ABI.callClobbersDirect.map ofRow = callerSave.map some ∧
    Gen.X64ABI.callClobbersIndirect.map ofRow = callerSave.map some := by decide +kernel

/-- … and cover the psABI caller-saved set: every register a callee may destroy, and every
    allocatable register that is not psABI callee-saved, is in the clobbers of both call forms -/
theorem gen_call_clobbers_cover_sysv :
    sysvDestroyedIds.all (fun r => (Gen.X64ABI.callClobbersDirect.map rowId).contains r &&
                                   (Gen.X64ABI.callClobbersIndirect.map rowId).contains r) = true ∧
    Gen.X64ABI.allocatable.all (fun r =>
      (Spec.SysV.calleeSaved.map GPR.num).contains (rowId r) ||
      ((Gen.X64ABI.callClobbersDirect.map rowId).contains (rowId r) &&
       (Gen.X64ABI.callClobbersIndirect.map rowId).contains (rowId r))) = true := by
  decide +kernel

/-! ## 5. function entry: every parameter is read from its psABI location -/

/-- the value at a psABI location in the state right after `push rbp; mov rbp, rsp` -/
def valueAt (s : MState) : Spec.SysV.Loc → Int
  | .gpr r => s.reg r.num
  | .xmm n => s.reg (16 + n)
  | .mem off => s.mem (s.reg 5 + (off : Int))

theorem toSpec_locVal (s : MState) (l : Loc) (sl : Spec.SysV.Loc) (h : l.toSpec = some sl) :
    locVal s l = valueAt s sl := by
  cases l with
  | stack o sz => simp [Loc.toSpec] at h; subst h; rfl
  | reg r =>
    cases r with
    | r64 n | r32 n | r16 n =>
      simp only [Loc.toSpec, Reg.toSpec, Option.map_eq_some_iff] at h
      obtain ⟨g, hg, rfl⟩ := h
      simp [locVal, valueAt, Reg.parent, ofNum?_num n g hg]
    | r8 n =>
      simp only [Loc.toSpec, Reg.toSpec] at h
      split at h
      · rename_i hn
        simp only [Option.map_eq_some_iff] at h
        obtain ⟨g, hg, rfl⟩ := h
        simp [locVal, valueAt, Reg.parent, ofNum?_num n g hg, hn]
      · simp at h
    | xmmD n | xmmS n =>
      simp [Loc.toSpec, Reg.toSpec] at h; subst h; rfl

/-- **Function entry (partial: guarded by `gen_function_enter` being defined — it raises
    NotImplementedError for an 8/16-bit parameter received on the stack, open finding).**
    For every signature for which code is produced and every state `s` right after
    `push rbp; mov rbp, rsp`: the virtual register of parameter `i` receives the value found at the
    psABI location of argument `i`; memory, `rsp`, `rbp` are untouched. -/
theorem function_enter_partial (sig : List Ty) (is : List Instr) (h : genFunctionEnter sig = .ok is)
    (s : MState) :
    (∀ i, i < sig.length → (run is s).reg (vreg i) = valueAt s (Spec.SysV.argLoc sig i)) ∧
    (run is s).mem = s.mem ∧ (run is s).reg 4 = s.reg 4 ∧ (run is s).reg 5 = s.reg 5 := by
  unfold genFunctionEnter determineArgLocations at h
  obtain ⟨e1, e2, _, e4⟩ := enterLoop_spec sig initState 0 0 is s init_good.1 init_good.2 rfl h
  refine ⟨?_, e1, e2 4 (by decide) (by decide), e2 5 (by decide) (by decide)⟩
  intro i hi
  have hl := arg_location_eq_spec sig i hi
  cases hli : (determineArgLocations sig)[i]? with
  | none => simp [hli] at hl
  | some l =>
    rw [hli] at hl
    have := e4 i l hli
    rw [Nat.zero_add] at this
    rw [this]
    exact toSpec_locVal s l _ hl

/-! ## 6. non-vacuity and negation witnesses (concrete instances, labelled as such) -/

-- the signature that exposed the (fixed) 4-byte f32 slots: 11 floats → stack offsets 16, 24, 32
example : determineArgLocations (List.replicate 11 .f32) =
    [.reg (.xmmS 0), .reg (.xmmS 1), .reg (.xmmS 2), .reg (.xmmS 3), .reg (.xmmS 4), .reg (.xmmS 5), .reg (.xmmS 6),
     .reg (.xmmS 7), .stack 16 8, .stack 24 8, .stack 32 8] := by decide
example : Spec.SysV.argLocs [.i64, .f64, .i32, .i64, .i64, .i64, .i64, .i8, .f32] =
    [.gpr .rdi, .xmm 0, .gpr .rsi, .gpr .rdx, .gpr .rcx, .gpr .r8, .gpr .r9, .mem 16, .xmm 1] := by decide
-- hypotheses of `call_site_partial` are satisfiable with stack arguments present
example : (genCall [.i64, .i64, .i64, .i64, .i64, .i64, .i64, .i32, .ptr] (some .i32) true).toOption.map (·.stackSize) = some 32 := rfl
example : (genFunctionEnter [.i64, .i64, .i64, .i64, .i64, .i64, .i64, .f32, .i32]).toOption.isSome = true := rfl
-- a frame that saves rbx (used through its alias bl) and r15, 24 bytes of locals
example : genPrologue [.r8 3, .r32 15, .r64 0] 24 = [.push 5, .mov 5 4, .sub 32, .push 3, .push 15] := by decide
example : genEpilogue [.r8 3, .r32 15, .r64 0] 24 = [.pop 15, .pop 3, .add 32, .pop 5] := by decide

-- the hypotheses of `frame_discipline` are satisfiable (here: the body that does nothing)
example (s0 : MState) :
    (run (genEpilogue [.r8 3, .r32 15] 24) (run (genPrologue [.r8 3, .r32 15] 24) s0)).reg 3 = s0.reg 3 :=
  (frame_discipline [.r8 3, .r32 15] 24 s0 (run (genPrologue [.r8 3, .r32 15] 24) s0) rfl (fun _ _ _ _ => rfl)
    (fun _ _ _ => rfl) rfl (by decide)).2.2 .rbx (by decide)

/-- **Negation witnesses for the full statement** (open findings, replayed on the real code on
    every run): a 9th double cannot be passed, a 7th integer argument of type char can neither be
    passed nor received. -/
theorem sysv_interop_full_fails : ¬ sysv_interop_full := by
  intro h
  obtain ⟨c, hc⟩ := h.1 (List.replicate 9 .f64) none false
  have e : genCall (List.replicate 9 .f64) none false = .error .NotImplementedError := rfl
  rw [e] at hc; cases hc

example : genCall (List.replicate 9 .f64) none false = .error .NotImplementedError := rfl
example : genCall [.i64, .i64, .i64, .i64, .i64, .i64, .i8] none true = .error .NotImplementedError := rfl
example : genFunctionEnter [.i64, .i64, .i64, .i64, .i64, .i64, .i8] = .error .NotImplementedError := rfl
example : ¬ StackArgsWordSized (List.replicate 9 .f64) := by
  rw [← gen_call_defined_iff _ none false]; rintro ⟨c, hc⟩
  have e : genCall (List.replicate 9 .f64) none false = .error .NotImplementedError := rfl
  rw [e] at hc; cases hc

end Props.C40
