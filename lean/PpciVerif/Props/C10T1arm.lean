import PpciVerif.Props.C10T1
import PpciVerif.Proofs.T1_arm_x86_reloc
/-!
# C10 — T1 translation tie for relocation bodies (arm, thumb, x86_64)

Same construction as `Props/C10T1.lean` for `ppci/arch/arm/arm_relocations.py` (`Rel8Relocation.calc`,
`Imm24Relocation.calc`), `ppci/arch/arm/thumb_relocations.py` (`apply` of `lit8`, `wrap_new11`, `rel8`, `bl_imm11`)
and the four relocation `calc` methods of `ppci/arch/x86_64/instructions.py`.  `align(v, m)` is the TRANSLATED loop
of bitfun.py, hence the fuel bounds 3 (`m = 2`) and 5 (`m = 4`).  Not translated: arm `ldr_imm12`, `adr_imm12`,
thumb `b_imm11_imm6` (byte-wise `|=` with `encode_imm32`; hand models tied by correspondence only).
-/
namespace Props.C10T1arm
open Model.Reloc Spec.RelocSem Proofs.Reloc Proofs.T1.Reloc Props.C10T1

theorem gen_arm_rel8_calc_eq_model (fuel : Nat) (S P : Int) (hf : 3 ≤ fuel) :
    Gen.Py_arm_relocations.Rel8Relocation_calc fuel S P = liftI (Arm.rel8Calc S P) :=
  Proofs.T1.ArmX86Reloc.gen_arm_rel8_calc fuel S P hf
theorem gen_arm_imm24_calc_eq_model (fuel : Nat) (S P : Int) :
    Gen.Py_arm_relocations.Imm24Relocation_calc fuel S P = liftI (Arm.imm24Calc S P) :=
  Proofs.T1.ArmX86Reloc.gen_arm_imm24_calc fuel S P
theorem gen_thumb_lit8_apply_eq_model (fuel : Nat) (S : Int) (d : List Nat) (P : Int) (hf : 5 ≤ fuel) :
    Gen.Py_thumb_relocations.Lit8Relocation_apply fuel S (ints d) P = liftL (Thumb.lit8 S d P) :=
  Proofs.T1.ArmX86Reloc.gen_thumb_lit8_apply fuel S d P hf
theorem gen_thumb_wrap_new11_apply_eq_model (fuel : Nat) (S : Int) (d : List Nat) (P : Int) (hf : 3 ≤ fuel) :
    Gen.Py_thumb_relocations.WrapNew11Relocation_apply fuel S (ints d) P = liftL (Thumb.wrapNew11 S d P) :=
  Proofs.T1.ArmX86Reloc.gen_thumb_wrap_new11_apply fuel S d P hf
theorem gen_thumb_rel8_apply_eq_model (fuel : Nat) (S : Int) (d : List Nat) (P : Int) (hf : 3 ≤ fuel) :
    Gen.Py_thumb_relocations.Rel8Relocation_apply fuel S (ints d) P = liftL (Thumb.rel8 S d P) :=
  Proofs.T1.ArmX86Reloc.gen_thumb_rel8_apply fuel S d P hf
theorem gen_thumb_bl_imm11_apply_eq_model (fuel : Nat) (S : Int) (d : List Nat) (P : Int) (hf : 3 ≤ fuel) :
    Gen.Py_thumb_relocations.BlImm11Relocation_apply fuel S (ints d) P = liftL (Thumb.blImm11 S d P) :=
  Proofs.T1.ArmX86Reloc.gen_thumb_bl_imm11_apply fuel S d P hf
/-- x86_64: the values the four `calc` methods hand to the default `apply` (what `Model.Reloc.X86.*` store) -/
theorem gen_x86_calcs_eq_model (fuel : Nat) (addend S P : Int) :
    Gen.Py_x86_64_relocations.Rel32JmpRelocation_calc fuel addend S P = .ok (S - P + addend) ∧
    Gen.Py_x86_64_relocations.Abs32Relocation_calc fuel S P = .ok S ∧
    Gen.Py_x86_64_relocations.Jmp8Relocation_calc fuel S P = .ok (S - (P + 1)) ∧
    Gen.Py_x86_64_relocations.Abs64Relocation_calc fuel S P = liftI (Model.Reloc.wrapNegative S 64) :=
  Proofs.T1.ArmX86Reloc.gen_x86_calcs fuel addend S P

/-! ### range theorems about the regenerated thumb bodies (full: the checks are exact) -/

theorem gen_thumb_wrap_new11 {S P : Int} {data : List Nat} {out' : List Int} (fuel : Nat) (hf : 3 ≤ fuel)
    (hlen : data.length = 2) (hb : ∀ b ∈ data, b < 256) (hP : P % 2 = 0)
    (h : Gen.Py_thumb_relocations.WrapNew11Relocation_apply fuel S (ints data) P = .ok out') :
    ∃ out, out' = ints out ∧ thumbBTarget (wordLE out) P = S := by
  rw [gen_thumb_wrap_new11_apply_eq_model fuel S data P hf] at h
  obtain ⟨out, hm, rfl⟩ := ok_of_liftL h
  exact ⟨out, rfl, Props.C10.thumb_wrap_new11 hlen hb hP hm⟩

theorem gen_thumb_rel8 {S P : Int} {data : List Nat} {out' : List Int} (fuel : Nat) (hf : 3 ≤ fuel)
    (hlen : data.length = 2) (hb : ∀ b ∈ data, b < 256) (hP : P % 2 = 0)
    (h : Gen.Py_thumb_relocations.Rel8Relocation_apply fuel S (ints data) P = .ok out') :
    ∃ out, out' = ints out ∧ thumbBcTarget (wordLE out) P = S := by
  rw [gen_thumb_rel8_apply_eq_model fuel S data P hf] at h
  obtain ⟨out, hm, rfl⟩ := ok_of_liftL h
  exact ⟨out, rfl, Props.C10.thumb_rel8 hlen hb hP hm⟩

theorem gen_thumb_lit8 {S P : Int} {data : List Nat} {out' : List Int} (fuel : Nat) (hf : 5 ≤ fuel)
    (hlen : data.length = 2) (hb : ∀ b ∈ data, b < 256) (hP : P % 2 = 0)
    (h : Gen.Py_thumb_relocations.Lit8Relocation_apply fuel S (ints data) P = .ok out') :
    ∃ out, out' = ints out ∧ thumbLdrLitAddr (wordLE out) P = S := by
  rw [gen_thumb_lit8_apply_eq_model fuel S data P hf] at h
  obtain ⟨out, hm, rfl⟩ := ok_of_liftL h
  exact ⟨out, rfl, Props.C10.thumb_lit8 hlen hb hP hm⟩

theorem gen_thumb_bl_imm11_partial {S P : Int} {data : List Nat} {out' : List Int} (fuel : Nat) (hf : 3 ≤ fuel)
    (hlen : data.length = 4) (hb : ∀ b ∈ data, b < 256) (hP : P % 2 = 0)
    (hj1 : bits (wordLE data) 29 1 = 1) (hj2 : bits (wordLE data) 27 1 = 1)
    (h : Gen.Py_thumb_relocations.BlImm11Relocation_apply fuel S (ints data) P = .ok out')
    (hfit : Spec.Bits.fitsS 23 (S - P - 4)) : ∃ out, out' = ints out ∧ thumbBlTarget (wordLE out) P = S := by
  rw [gen_thumb_bl_imm11_apply_eq_model fuel S data P hf] at h
  obtain ⟨out, hm, rfl⟩ := ok_of_liftL h
  exact ⟨out, rfl, Props.C10.thumb_bl_imm11_partial hlen hb hP hj1 hj2 hm hfit⟩

example : Gen.Py_thumb_relocations.WrapNew11Relocation_apply 3 100 [0, 0xe0] 0 = .ok [48, 224] := by decide +kernel
example : Gen.Py_thumb_relocations.WrapNew11Relocation_apply 1 100 [0, 0xe0] 1 = .error .FuelExhausted := by decide +kernel  -- below the bound
example : Gen.Py_arm_relocations.Imm24Relocation_calc 0 (33554432 + 8) 0 = .ok 8388608 := by decide +kernel

end Props.C10T1arm
