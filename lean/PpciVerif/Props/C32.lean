import PpciVerif.Spec.CFG
import PpciVerif.Model.LR
import PpciVerif.Proofs.LR
/-!
# C32 — generated LR parsers accept exactly their grammar's language

Shape: **V** (verified validator) for soundness, **P** for the builder.

* Model: `Model.LR.parseLoop` (hand model of `LrParser.parse`, after the fix that
  an `Accept` met deeper in the stack is an ordinary reduce), `Model.LR.firstSets`
  (hand model of `calculate_first_sets`, after the fix for nullable symbols),
  `Model.LR.tableSafe` (the validator; not ppci code).
* Spec: `Spec.CFG` — `Derives` (the language), `Steps`/`FirstSpec`/`NullableSpec`
  (textbook FIRST), `TreeOK`/`Tree.yield`/`Tree.fold` (derivation trees and the
  value of the semantic actions), `recognise` (chart oracle).

What is proved (every statement for ALL grammars, tables, token strings, fuel):
1. `tableSafe_sound` … `never_accepts_outside_language` — if the tables pass the
   validator, whatever the driver returns is the action-fold of a derivation tree
   of exactly the input; so nothing outside the language is accepted.  The harness
   runs `tableSafe` on every table the real builder emits (conflict-resolved ones
   included): that is a proof per table.
2. `firstSets_correct` — the first-set fixpoint is textbook FIRST/nullable, ε included.
3. `recognise_correct`, `treeOk_iff`, `derivation_has_tree` — the oracles the
   harness uses to evaluate the property on the real parser are exact.

What is NOT proved: completeness of the builder ("every derivable string is
accepted when no conflict is reported") — `complete_full` below states it; it is
validated by bounded-exhaustive comparison with `recognise` only.
-/
namespace Props.C32
open Spec.CFG Model.LR Proofs.LR

/-- no token of type EOF inside the input (the lexer contract) -/
def NoEof (w : List Tok) : Prop := ∀ tk ∈ w, tk.typ ≠ eof

/-! ### (V) the table validator -/

/-- Main theorem, stated for any stack knowledge `K` that passes the check. -/
theorem checkWith_sound (G : Grammar) (T : Tables) (K : Known) (fuel : Nat) (w : List Tok) (t : Tree)
    (hc : checkWith G T K = true) (hw : NoEof w) (hp : parse G T fuel w = .ok t) :
    TreeOK G t G.start ∧ t.yield = w := by
  have hC := checked_of_checkWith hc
  have := parseLoop_sound hC fuel [] w t hp (StackOK.nil hC.k0) (fun f hf => by simp at hf) hw
  simpa [yieldL] using this

/-- If the tables pass `tableSafe`, a value returned by the tree-building parser is a
derivation tree of the start symbol whose frontier is exactly the input. -/
theorem tableSafe_sound (G : Grammar) (T : Tables) (fuel : Nat) (w : List Tok) (t : Tree)
    (hs : tableSafe G T = true) (hw : NoEof w) (hp : parse G T fuel w = .ok t) :
    TreeOK G t G.start ∧ t.yield = w :=
  checkWith_sound G T (inferKnown G T) fuel w t hs hw hp

/-- The driver is parametric in the semantic actions: with actions `act`/`tokv` it returns
the fold of those actions over the tree the tree-building instance returns. -/
theorem parse_value_is_action_fold {V : Type} (G : Grammar) (T : Tables)
    (act : Nat → List V → V) (tokv : Tok → V) (fuel : Nat) (w : List Tok) :
    parseV G T act tokv fuel w = (parse G T fuel w).map (Tree.fold act tokv) := by
  have := parseLoop_fold G T act tokv fuel [] w
  simpa [parseV, parse] using this

/-- The property's soundness half for arbitrary semantic actions: an accepted input is in
the language and the value is the one the actions compute along a derivation of it. -/
theorem accepted_value_is_derivation_value {V : Type} (G : Grammar) (T : Tables)
    (act : Nat → List V → V) (tokv : Tok → V) (fuel : Nat) (w : List Tok) (v : V)
    (hs : tableSafe G T = true) (hw : NoEof w) (hp : parseV G T act tokv fuel w = .ok v) :
    ∃ t, TreeOK G t G.start ∧ t.yield = w ∧ v = t.fold act tokv ∧
      InLanguage G (w.map (·.typ)) := by
  rw [parse_value_is_action_fold] at hp
  cases ht : parse G T fuel w with
  | error e => rw [ht] at hp; simp [Except.map] at hp
  | ok t =>
    rw [ht] at hp
    simp only [Except.map, Except.ok.injEq] at hp
    obtain ⟨h1, h2⟩ := tableSafe_sound G T fuel w t hs hw ht
    refine ⟨t, h1, h2, hp.symm, ?_⟩
    have := TreeOK.derives h1
    rw [h2] at this
    exact this

/-- "…the parser still never accepts a sequence outside the grammar's language." -/
theorem never_accepts_outside_language {V : Type} (G : Grammar) (T : Tables)
    (act : Nat → List V → V) (tokv : Tok → V) (fuel : Nat) (w : List Tok)
    (hs : tableSafe G T = true) (hw : NoEof w) (hn : ¬ InLanguage G (w.map (·.typ))) :
    ∀ v, parseV G T act tokv fuel w ≠ .ok v := by
  intro v hp
  obtain ⟨_, _, _, _, h⟩ := accepted_value_is_derivation_value G T act tokv fuel w v hs hw hp
  exact hn h

/-! ### (P) first sets -/

/-- `calculate_first_sets` (model) = textbook FIRST and nullability, for every grammar that
satisfies ppci's own well-formedness checks; ε-productions included. -/
theorem firstSets_correct (G : Grammar) (fuel : Nat) (tab : FirstTab)
    (hwf : G.wf eps = true) (h : firstSets G fuel = some tab)
    (X : Nat) (hX : G.isTerm X = true ∨ G.isNonterm X = true) :
    (eps ∈ tab.get X ↔ NullableSpec G X) ∧
    ∀ a, a ≠ eps → (a ∈ tab.get X ↔ FirstSpec G X a) := by
  obtain ⟨h1, h2⟩ := firstSets_inductive (wf_of_wf hwf) h X hX
  exact ⟨h1.trans (nullable_iff X), fun a ha => (h2 a ha).trans (first_iff X a)⟩

/-! ### the oracles used to evaluate the property on the real parser -/

/-- the chart recogniser decides membership exactly (whenever it answers) -/
theorem recognise_correct (G : Grammar) (fuel : Nat) (w : List Nat) (b : Bool)
    (h : recognise G fuel w = some b) : b = true ↔ InLanguage G w := by
  unfold recognise at h
  cases hc : chartLoop G w fuel [] with
  | none => simp [hc] at h
  | some chart =>
    simp only [hc, Option.map_some, Option.some.injEq] at h
    obtain ⟨hs, hcl⟩ := chartLoop_spec fuel [] chart (fun X i j hm => by simp at hm) hc
    subst h
    constructor
    · intro hm
      have := (matchRhs_sound hs _ _ _ hm).2
      rwa [slice_all] at this
    · intro hd
      have := matchRhs_complete hcl hd [] [] (by simp)
      simpa using this

/-- the executable tree check is the declarative one -/
theorem treeOk_iff (G : Grammar) (t : Tree) (X : Nat) : treeOk G t X = true ↔ TreeOK G t X :=
  ⟨treeOk_sound t X, treeOk_complete⟩

/-- derivation trees and derivations are the same thing -/
theorem tree_derives (G : Grammar) (t : Tree) (X : Nat) (h : TreeOK G t X) :
    Derives G [X] (t.yield.map (·.typ)) := TreeOK.derives h

theorem derivation_has_tree (G : Grammar) (w : List Nat) (h : InLanguage G w) :
    ∃ t, TreeOK G t G.start ∧ t.yield.map (·.typ) = w := by
  obtain ⟨ts, h1, h2⟩ := forest_of_derives h
  cases h1 with
  | cons ht hr =>
    cases hr
    rename_i t
    exact ⟨t, ht, by simpa [yieldL] using h2⟩

/-! ### what is not proved (kept visible) -/

/-- Completeness of a table: every sentence of the language is accepted (with enough fuel).
`Model.LR.tableSafe` does not imply this, and no theorem about the table *builder*
(closure / look-ahead / conflict resolution in `LrParserBuilder`) is proved: for tables built
without a reported conflict this is validated by running every token string up to a bounded
length through the real parser and `recognise` — testing, not proof. -/
def complete_full (G : Grammar) (T : Tables) : Prop :=
  ∀ w : List Tok, NoEof w → InLanguage G (w.map (·.typ)) → ∃ fuel t, parse G T fuel w = .ok t

/-! ### non-vacuity, concrete instances, refutation of the code before the fixes -/

/-- `goal → list; list → list pair | pair; pair → ( pair ) | ( )` (test_yacc.py), the
tables are what the real builder emits (symbols: `(`=2 `)`=3 goal=4 list=5 pair=6). -/
def G_pairs : Grammar := ⟨[2, 3], [⟨4, [5]⟩, ⟨5, [5, 6]⟩, ⟨5, [6]⟩, ⟨6, [2, 6, 3]⟩, ⟨6, [2, 3]⟩], 4⟩
def T_pairs : Tables :=
  ⟨[(0, 2, .shift 2), (1, 0, .accept 0), (1, 2, .shift 2), (2, 2, .shift 5), (2, 3, .shift 6), (3, 0, .reduce 2), (3, 2, .reduce 2), (4, 0, .reduce 1), (4, 2, .reduce 1), (5, 2, .shift 5), (5, 3, .shift 8), (6, 0, .reduce 4), (6, 2, .reduce 4), (7, 3, .shift 10), (8, 3, .reduce 4), (9, 3, .shift 11), (10, 0, .reduce 3), (10, 2, .reduce 3), (11, 3, .reduce 3)],
   [(0, 5, 1), (0, 6, 3), (1, 6, 4), (2, 6, 7), (5, 6, 9)]⟩

def toks (ts : List Nat) : List Tok := (ts.zipIdx).map (fun (t, i) => ⟨t, i⟩)

example : tableSafe G_pairs T_pairs = true := by decide +kernel
-- "(())()" is accepted with the expected tree, "(()" is a syntax error
example : parse G_pairs T_pairs 100 (toks [2, 2, 3, 3, 2, 3]) =
    .ok (.node 0 [.node 1 [.node 2 [.node 3 [.leaf ⟨2, 0⟩, .node 4 [.leaf ⟨2, 1⟩, .leaf ⟨3, 2⟩], .leaf ⟨3, 3⟩]],
                            .node 4 [.leaf ⟨2, 4⟩, .leaf ⟨3, 5⟩]]]) := by rfl
example : parse G_pairs T_pairs 100 (toks [2, 2, 3]) = .error .ParserException := by rfl
example : recognise G_pairs 200 [2, 2, 3, 3, 2, 3] = some true := by decide +kernel
example : recognise G_pairs 200 [2, 2, 3] = some false := by decide +kernel
-- a damaged table (goto of `pair` in state 2 points to state 4) is rejected by the validator
example : tableSafe G_pairs ⟨T_pairs.action, [(0, 5, 1), (0, 6, 3), (1, 6, 4), (2, 6, 4), (5, 6, 9)]⟩ = false := by
  decide +kernel

-- a table with a look-ahead symbol that is not a symbol of the grammar is rejected as well
example : tableSafe G_pairs ⟨(3, 9, .reduce 2) :: T_pairs.action, T_pairs.goto⟩ = false := by decide +kernel

/-- dangling else `S → i t S | i t S e S | e`: the builder resolves one shift/reduce conflict
automatically; the resulting table still passes the validator. -/
def G_else : Grammar := ⟨[2, 3, 4], [⟨5, [2, 3, 5]⟩, ⟨5, [2, 3, 5, 4, 5]⟩, ⟨5, [4]⟩], 5⟩
def T_else : Tables :=
  ⟨[(0, 2, .shift 2), (0, 4, .shift 1), (1, 0, .accept 2), (2, 3, .shift 3), (3, 2, .shift 6), (3, 4, .shift 4), (4, 0, .accept 2), (4, 4, .reduce 2), (5, 0, .accept 0), (5, 4, .shift 7), (6, 3, .shift 8), (7, 2, .shift 2), (7, 4, .shift 1), (8, 2, .shift 6), (8, 4, .shift 4), (9, 0, .accept 1), (10, 0, .accept 0), (10, 4, .shift 11), (11, 2, .shift 6), (11, 4, .shift 4), (12, 0, .accept 1), (12, 4, .reduce 1)],
   [(3, 5, 5), (7, 5, 9), (8, 5, 10), (11, 5, 12)]⟩
example : tableSafe G_else T_else = true := by decide +kernel

/-- `S → X A c; X → x; A → B; B → b | ε` (x=2 b=3 c=4 S=5 X=6 A=7 B=8): the witness of the
first-set defect. -/
def G_chain : Grammar := ⟨[2, 3, 4], [⟨5, [6, 7, 4]⟩, ⟨6, [2]⟩, ⟨7, [8]⟩, ⟨8, [3]⟩, ⟨8, []⟩], 5⟩
example : G_chain.wf eps = true := by decide +kernel
-- fixed code: FIRST(A) = {b, EPS}, FIRST(S) = {x}
example : (firstSets G_chain 20).map (fun t => (t.get 7, t.get 8, t.get 5)) = some ([3, 1], [3, 1], [2]) := by
  decide +kernel
-- code before the fix: FIRST(A) = {} …
example : (Legacy.firstSets G_chain 20).map (fun t => t.get 7) = some [] := by decide +kernel
-- … although `b` is in FIRST(A) by the textbook definition
example : FirstSpec G_chain 7 3 := by
  have h : firstSets G_chain 20 = some
      [(5, [2]), (6, [2]), (7, [3, 1]), (8, [3, 1]), (2, [2]), (3, [3]), (4, [4]), (0, [0]), (1, [1])] := by
    decide +kernel
  exact ((firstSets_correct G_chain 20 _ (by decide +kernel) h 7 (by decide +kernel)).2 3 (by decide)).mp
    (by decide +kernel)

/-- `S → a S | b` (a=2 b=3 S=4): the witness of the early-accept defect; same tables before and
after the fix. -/
def G_rr : Grammar := ⟨[2, 3], [⟨4, [2, 4]⟩, ⟨4, [3]⟩], 4⟩
def T_rr : Tables :=
  ⟨[(0, 2, .shift 1), (0, 3, .shift 2), (1, 2, .shift 1), (1, 3, .shift 2), (2, 0, .accept 1), (3, 0, .accept 0)],
   [(1, 4, 3)]⟩
example : tableSafe G_rr T_rr = true := by decide +kernel
-- fixed driver: the value of the whole derivation
example : parse G_rr T_rr 100 (toks [2, 3]) = .ok (.node 0 [.leaf ⟨2, 0⟩, .node 1 [.leaf ⟨3, 1⟩]]) := by
  rfl
-- driver before the fix: returns the value of the innermost `S → b` only; its frontier is not the input
example : Legacy.parse G_rr T_rr 100 (toks [2, 3]) = .ok (.node 1 [.leaf ⟨3, 1⟩]) := by rfl
example : (Tree.node 1 [.leaf ⟨3, 1⟩]).yield ≠ toks [2, 3] := by decide +kernel

end Props.C32
