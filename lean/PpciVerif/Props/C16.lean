import PpciVerif.Proofs.IRJson
/-!
# C16 — IR JSON serialisation round-trips

Model: `Model.IRJson` (`DictWriter` / `DictReader` of `ppci/irutils/io.py` after the `fix:` commits of
notes/C16.md, at the level of the JSON tree) over the construction layer `Model.IRBuild`.

`roundtrip_partial`: for EVERY module of the fragment `Model.IRFrag.fragCore` the writer is defined and
the reader rebuilds exactly the module that was written: externals, variables with their initial value,
functions, parameters, blocks in order, every instruction with its operands resolved to the same values
(including operands that the JSON mentions before their definition: later blocks, later functions),
types, constants, volatility.  The fragment is decidable and delimits exactly: unambiguous names (in
particular no function-level value named like a module-level value), the constructor checks of `ir.py`,
no inline assembly.

`roundtrip_full` (the statement of the property for all well-formed modules) is NOT proved and is false:
see the two counterexamples below (open findings irjson:name-capture, irjson:inline-asm).
-/
namespace Props.C16
open Spec.IR Model.IRBuild Model.IRJson Model.IRFrag

/-- reading back what was written gives the module itself -/
theorem roundtrip_partial (m : Module) (h : fragCore m = true) :
    ∃ j, writeModule m = some j ∧ readModule j = .ok m :=
  Proofs.IRJson.readModule_writeModule m h

/-- the full statement: every well-formed module (Spec.IR.wfModule) round-trips.  Not proved; false. -/
def roundtrip_full : Prop :=
  ∀ m : Module, wfModule m = true → ∃ j, writeModule m = some j ∧ readModule j = .ok m

/-- the pieces the statement lists, spelled out: a volatile load, an initialised global -/
theorem volatile_and_initial_value_preserved (m : Module) (h : fragCore m = true) (j : J)
    (hw : writeModule m = some j) : (readModule j).toOption.map (·.vars) = some m.vars ∧
      (readModule j).toOption.map (·.funcs) = some m.funcs := by
  obtain ⟨j', h1, h2⟩ := roundtrip_partial m h
  rw [hw] at h1
  cases h1
  simp [h2, Except.toOption]

/-! ### non-vacuity: a module of the fragment with a loop (phi reading a later value), a forward
    reference to a later block and to a later function, an initialised global, a volatile store -/

def demo : Module :=
  { name := "demo",
    externs := [{ name := "ext", kind := .func [.int .i32] (.int .i32) }],
    vars := [{ name := "g", isGlobal := true, size := 8, align := 8,
               init := some [.bytes [1, 2, 3, 255], .ref "f"] }],
    funcs := [
      { name := "f", isGlobal := true, ret := some (.int .i32), entry := "e", params := [("n", .int .i32)],
        blocks := [
          { name := "e", instrs := [.const "z" (.int .i32) (.int 0), .jump "h"] },
          { name := "x", instrs := [.store (.int .i32) (.loc "s") (.glob "g") true,
                                    .fcall "r" (.int .i32) (.glob "later") [.loc "s", .loc "s"], .ret (.loc "r")] },
          { name := "h", instrs := [.phi "i" (.int .i32) [("e", .loc "z"), ("h", .loc "s")],
                                    .binop "s" (.int .i32) .add (.loc "i") (.loc "n"),
                                    .cjump (.loc "s") .lt (.loc "n") "h" "x"] }] },
      { name := "later", isGlobal := false, ret := some (.int .i32), entry := "b",
        params := [("a", .int .i32), ("b", .int .i32)],
        blocks := [{ name := "b", instrs := [.ret (.loc "a")] }] }] }

example : fragCore demo = true := by decide

/-! ### counterexamples outside the fragment (Lean-proved, replayed on ppci by harness/c16.py) -/

def isOkWith (r : Except RErr Module) (m : Module) : Bool :=
  match r with
  | .ok m' => decide (m' = m)
  | .error _ => false

def readBack (m : Module) : Except RErr Module :=
  match writeModule m with
  | some j => readModule j
  | none => .error .NotImplementedError

/-- name capture: the function-level value `x` hides the module-level `x`; the load of the global is
    bound to the integer value and `ir.Load` refuses it (`assert address.ty is ptr`) -/
def capture : Module :=
  { name := "capture", externs := [],
    vars := [{ name := "x", isGlobal := true, size := 4, align := 4, init := none }],
    funcs := [
      { name := "f", isGlobal := true, ret := some (.int .i32), entry := "entry", params := [("p", .int .i32)],
        blocks := [{ name := "entry", instrs := [
          .binop "x" (.int .i32) .add (.loc "p") (.loc "p"),
          .load "ld" (.int .i32) (.glob "x") false,
          .binop "s" (.int .i32) .add (.loc "x") (.loc "ld"),
          .ret (.loc "s")] }] }] }

example : wfModule capture = true := by decide
example : fragCore capture = false := by decide
example : isOkWith (readBack capture) capture = false := by decide

/-- inline assembly: the writer raises `NotImplementedError` -/
def withAsm : Module :=
  { name := "asm", externs := [], vars := [],
    funcs := [
      { name := "f", isGlobal := true, ret := none, entry := "entry", params := [("a", .int .i32)],
        blocks := [{ name := "entry", instrs := [.asm "nop" [.loc "a"] [] [], .exit] }] }] }

example : writeModule withAsm = none := by decide

end Props.C16
