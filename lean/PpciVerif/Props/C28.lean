import PpciVerif.Model.CEval
import PpciVerif.Model.CEvalLegacy
import PpciVerif.Model.CSyntax
import PpciVerif.Proofs.CEvalTotal
import PpciVerif.Proofs.PPParse
/-!
# C28 — front-ends fail only with diagnostics  (PARTIAL: a sliver)

Totality theorems for the *modelled kernels* of the C front-end only: the constant-expression
pipeline (semantic typing → `ConstantExpressionEvaluator` → `CContext.pack`) in its four users, and
the `#if` parser/evaluator.  An outcome is a value, or the diagnostic `CompilerError`; every other
exception (`KeyError`, `struct.error`, `NotImplementedError`, `AssertionError`, …) is an *internal
error* (`Model.CEval.Err.isInternal`).  Models are those of C27/C26 (after their fix commits);
`FromParser` delimits the trees the parser can produce.

NOT shown: anything outside these kernels — declarations, statements, code generation of the C
front-end, the C3 front-end, textual IR: for those the check only *searches* for internal errors.
-/
namespace Props.C28
open Model.CEval Model.CSyntax
open Proofs.CEval (FromParser Graceful)

/-- `pack τ v` never raises `struct.error` (nor anything else): every integer, of any magnitude, is
    converted to the destination type.  In particular `pack τ (convert τ v)` for every `v`. -/
theorem pack_never_raises (τ : Ty) (v : Int) : ∃ bs, pack τ v = .ok bs :=
  Proofs.CEval.pack_total τ v

/-- the same for every type `CContext.pack` accepts besides floats: integer basic types, enum types, pointers -/
theorem pack_never_raises_any_type (t : PackTy) (v : Int) : ∃ bs, packAny t v = .ok bs :=
  Proofs.CEval.packAny_total t v

/-- `enum E x = e;` and `T *p = (T *)e;` at file scope, for every parser tree: bytes or a diagnostic -/
theorem enum_and_pointer_initializer_no_internal_error (s : Src) (h : FromParser s) :
    isInternal (initializerEnum s) = false ∧ isInternal (initializerPtr s) = false :=
  ⟨Proofs.CEval.graceful_not_internal (Proofs.CEval.initializerAny_graceful .enum s h),
   Proofs.CEval.graceful_not_internal (Proofs.CEval.initializerAny_graceful .ptr s h)⟩

/-- A file-scope initialiser `T x = e;` for any integer type and ANY expression tree the parser can produce
    (including undefined ones: overflow, `/ 0`, negative or huge shift counts, constants without a type)
    ends with bytes or a diagnostic, never with an internal error. -/
theorem initializer_no_internal_error (τ : Ty) (s : Src) (h : FromParser s) :
    isInternal (initializer τ s) = false :=
  Proofs.CEval.graceful_not_internal (Proofs.CEval.initializer_graceful τ s h)

theorem case_label_no_internal_error (ctl : Ty) (s : Src) (h : FromParser s) :
    isInternal (caseLabel ctl s) = false :=
  Proofs.CEval.graceful_not_internal (Proofs.CEval.caseLabel_graceful ctl s h)

theorem enumerator_no_internal_error (s : Src) (h : FromParser s) : isInternal (enumerator s) = false :=
  Proofs.CEval.graceful_not_internal (Proofs.CEval.enumerator_graceful s h)

theorem array_size_no_internal_error (s : Src) (h : FromParser s) : isInternal (arraySize s) = false :=
  Proofs.CEval.graceful_not_internal (Proofs.CEval.arraySize_graceful s h)

/-- every C expression tree of `Spec.CInt` is written as a tree the parser can produce, so the four
    theorems above apply to all of them without a guard -/
theorem rendered_trees_are_parser_trees (e : Spec.CInt.Expr) : FromParser (render e) :=
  Proofs.CEval.render_fromParser e

theorem constant_expression_no_internal_error (τ : Spec.CInt.Ty) (e : Spec.CInt.Expr) :
    isInternal (initializer (ofSpecTy τ) (render e)) = false :=
  initializer_no_internal_error _ _ (Proofs.CEval.render_fromParser e)

/-- `#if <line>` for every sentence of the `#if` expression grammar: the group is kept, skipped, or a
    diagnostic is reported (division by zero, negative shift count) -/
theorem pp_if_no_internal_error (t : Spec.PPInt.PTree) (d : Spec.PPInt.Deriv 1 t) :
    (∃ b, Model.PPExpr.evalIf (Spec.PPInt.yield t) = .ok b) ∨
      Model.PPExpr.evalIf (Spec.PPInt.yield t) = .error .CompilerError :=
  Proofs.PPExpr.evalIf_graceful d

/-! ### negation witnesses for the code BEFORE the fix commits, and non-vacuity -/

section examples
private def lit (v : Nat) : Spec.CInt.Expr := .lit .dec .none v
-- `int a = 7 % 3;` KeyError, `unsigned char c = 300;` struct.error, `int a = !5;` NotImplementedError,
-- `int a = 1 / 0;` ZeroDivisionError, `int a = 1 << -1;` ValueError  (all internal errors)
example : isInternal (Model.CEvalLegacy.initializer .int (render (.bin .mod (lit 7) (lit 3)))) = true := by decide +kernel
example : isInternal (Model.CEvalLegacy.initializer .uchar (render (lit 300))) = true := by decide +kernel
example : isInternal (Model.CEvalLegacy.initializer .int (render (.un .lnot (lit 5)))) = true := by decide +kernel
example : isInternal (Model.CEvalLegacy.initializer .int (render (.bin .div (lit 1) (lit 0)))) = true := by decide +kernel
example : isInternal (Model.CEvalLegacy.initializer .int (render (.bin .shl (lit 1) (.un .neg (lit 1))))) = true := by
  decide +kernel
example : Model.CEvalLegacy.pack .uchar 300 = .error .StructError := by decide +kernel
-- after the fixes: value or diagnostic
example : initializer .uchar (render (lit 300)) = .ok [44] := by decide +kernel
example : initializer .int (render (.bin .div (lit 1) (lit 0))) = .error .CompilerError := by decide +kernel
example : pack .uchar (10 ^ 30 + 7) = .ok [7] := by decide +kernel
-- the parser-tree guard is not vacuous and is needed: a suffix `lll` cannot come from the lexer
example : FromParser (.bin .plus (.num true false 2 5) (.un .minus (.chr 65))) := by
  simp [FromParser]
example : isInternal (initializer .int (.num true false 3 5)) = true := by decide +kernel
end examples

end Props.C28
