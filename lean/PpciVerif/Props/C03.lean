import PpciVerif.Proofs.IRWF
import PpciVerif.Proofs.OptWF
import PpciVerif.Proofs.OptWFDel
import PpciVerif.Proofs.OptWFFold
/-!
# C03 — optimization passes keep IR well-formed

Property theorems only.

* Definition of well-formed: `Spec.IRWF.WF` / `WFModule` — a `Prop` written from the property text
  (every block ends in exactly one terminator; every block reachable **by a path** from the entry; every use
  dominated by its definition, dominance = **every path** from the entry passes through the defining block;
  every phi has exactly one incoming value per predecessor; operand types agree).
* Checker: `Spec.IR.wfFunc` / `wfModule` (Boolean, executable; `wf` of `Drivers/C03.lean`).  Every module that
  a real ppci pass produces during a run of the check is fed through it.
* Pass models: `Model.Opt` (tied to ppci/opt by the differential run of harness/c03.py and harness/c02.py).

V part: `wf_checker_decides_WF`, `wfModule_checker_decides_WFModule` (+ the two graph theorems they rest on).
P part: `replace_by_preserves_wf`, `cse_preserves_wf`, `deleteUnused_preserves_wf`, `constFold_preserves_wf`,
`removeAddZero_preserves_wf_partial` (nothing is claimed as a theorem about mem2reg, clean, tailcall, cjump,
load-after-store: validated per output only).
-/
namespace Props.C03
open Spec.IR Spec.IRWF Model.Opt Proofs.OptWF Proofs.OptWFDel Proofs.OptWFFold

/-! ## V part: the Boolean checker decides the declarative definition -/

/-- The graph search of the checker is reachability by paths of the block-level CFG. -/
theorem reach_is_path_reachability (f : Func) (v : String) :
    (f.reach none).contains v = true ↔ Reachable f v :=
  Proofs.IRGraph.reachable_iff f v

/-- The dominance test of the checker is dominance by paths: `d` dominates `v` iff every walk from the
    entry to `v` passes through `d`.  No side condition on `f`. -/
theorem dominates_is_path_dominance (f : Func) (d v : String) :
    f.dominates d v = true ↔ Dom f d v :=
  Proofs.IRGraph.dominates_iff f d v

/-- **Main theorem.** For every module `m` and function `f`: the checker accepts `f` iff `f` is well-formed
    by the declarative definition.  Hence every acceptance observed in a run of the check is a proof
    that the pass output is well-formed in the sense of the property. -/
theorem wf_checker_decides_WF (m : Module) (f : Func) : wfFunc m f = true ↔ WF m f :=
  Proofs.IRWF.wfFunc_iff m f

theorem wfModule_checker_decides_WFModule (m : Module) : wfModule m = true ↔ WFModule m :=
  Proofs.IRWF.wfModule_iff m

/-! ## P part: pass models preserve well-formedness -/

/-- `Value.replace_by` (the operation behind RemoveAddZero, CSE, ConstantFolder, LoadAfterStore, mem2reg,
    glue_blocks): replacing every use of `d` by `y` keeps a well-formed function well-formed when
    `d` is defined by instruction `k` of block `b` with type `ty`, `y` has type `ty`, the use of `y` at that
    position would be dominated, and `y` is a local value or `d` is not the callee of a call. -/
theorem replace_by_preserves_wf {m : Module} {f : Func} {b : Block} {k : Nat} {i : Instr} {d : String} {ty : Ty}
    {y : Operand} (h : WF m f) (hb : b ∈ f.blocks) (hi : b.instrs[k]? = some i) (hd : i.dst? = some (d, ty))
    (hy : HasTy m f y ty) (hdom : UseDominated f b.name k y)
    (hcal : (∃ x, y = .loc x) ∨ ∀ b' ∈ f.blocks, ∀ i' ∈ b'.instrs, calleeOf i' ≠ some (.loc d)) :
    WF m (subst f d y) := by
  have hw := (Proofs.IRWF.wfFunc_iff m f).2 h
  have nd := names_nodup hw
  exact (Proofs.IRWF.wfFunc_iff m _).1 (wf_subst hw (findDef_at hw hb hi hd)
    ((Proofs.IRWF.opndTy_iff nd y ty).2 hy) ((Proofs.IRWF.useDominated_iff nd b.name k y).2 hdom) hcal)

/-- **CommonSubexpressionEliminationPass** (model `Model.Opt.cse`, every function of the module):
    well-formed in, well-formed out.  No side condition. -/
theorem cse_preserves_wf (m m' : Module) (h : WFModule m)
    (hr : runPass (fun f => .ok (cse f)) m = .ok m') : WFModule m' := by
  rw [runPass_ok] at hr
  cases hr
  exact (Proofs.IRWF.wfModule_iff _).1
    (wfModule_mapFuncs cse sameSig_cse (fun f _ hf => wf_cse f hf) ((Proofs.IRWF.wfModule_iff m).2 h))

/-- **DeleteUnusedInstructionsPass** (model `Model.Opt.deleteUnused`): well-formed in, well-formed out.
    No side condition.  (Removing the definition of a value that no instruction uses — phi inputs included —
    keeps every clause; definition sites move to the position among the kept instructions.) -/
theorem deleteUnused_preserves_wf (m m' : Module) (h : WFModule m)
    (hr : runPass (fun f => .ok (deleteUnused f)) m = .ok m') : WFModule m' := by
  rw [runPass_ok] at hr
  cases hr
  exact (Proofs.IRWF.wfModule_iff _).1
    (wfModule_mapFuncs deleteUnused sameSig_deleteUnused (fun f _ hf => wf_deleteUnused f hf)
      ((Proofs.IRWF.wfModule_iff m).2 h))

/-- **RemoveAddZeroPass** (model `Model.Opt.removeAddZero`): well-formed in, well-formed out, provided no
    call goes through the result of a `binop` (`noBinopCallee`). -/
theorem removeAddZero_preserves_wf_partial (m m' : Module) (h : WFModule m)
    (hg : ∀ f ∈ m.funcs, noBinopCallee f = true)
    (hr : runPass (fun f => .ok (removeAddZero f)) m = .ok m') : WFModule m' := by
  rw [runPass_ok] at hr
  cases hr
  exact (Proofs.IRWF.wfModule_iff _).1
    (wfModule_mapFuncs removeAddZero sameSig_removeAddZero
      (fun f hf hw => (wf_removeAddZero f hw (hg f hf)).1) ((Proofs.IRWF.wfModule_iff m).2 h))

/-- the full statement for RemoveAddZero (no guard) -/
def removeAddZero_preserves_wf_full : Prop :=
  ∀ m m' : Module, WFModule m → runPass (fun f => .ok (removeAddZero f)) m = .ok m' → WFModule m'

/-! ### the guard is needed: witness of the open finding `addzero:operand-types[call-signature]`

`main` calls `(@f1 + 0)(a, b)` although `f1` takes one argument: an indirect call, whose arguments no rule
relates to `f1`.  RemoveAddZero makes it the direct call `@f1(a, b)`, which violates "operand types agree". -/

def i32 : Ty := .int .i32

def witF1 : Func := {
  name := "f1", isGlobal := false, ret := some i32, entry := "e", params := [("x", i32)],
  blocks := [{ name := "e", instrs := [.ret (.loc "x")] }] }

def witMain : Func := {
  name := "main", isGlobal := true, ret := some i32, entry := "e", params := [("a", i32), ("b", i32)],
  blocks := [{ name := "e", instrs := [
    .const "z" .ptr (.int 0), .binop "p" .ptr .add (.glob "f1") (.loc "z"),
    .fcall "r" i32 (.loc "p") [.loc "a", .loc "b"], .ret (.loc "r")] }] }

def witness : Module := { name := "w", externs := [], vars := [], funcs := [witF1, witMain] }

def witnessAfter : Module := { witness with funcs := witness.funcs.map removeAddZero }

example : wfModule witness = true := by decide +kernel
example : wfModule witnessAfter = false := by decide +kernel
example : noBinopCallee witMain = false := by decide +kernel

/-- the unguarded statement is false (Lean-proved witness) -/
theorem removeAddZero_full_fails : ¬ removeAddZero_preserves_wf_full := by
  intro h
  have hw : WFModule witness := (Proofs.IRWF.wfModule_iff _).1 (by decide +kernel)
  have := h witness witnessAfter hw (runPass_ok removeAddZero witness)
  have : wfModule witnessAfter = true := (Proofs.IRWF.wfModule_iff _).2 this
  exact absurd this (by decide +kernel)

/-- **ConstantFolder** (model `Model.Opt.constFold`): whenever the model returns (it mirrors the Python exceptions
    of the real pass as `.error`), well-formed in, well-formed out.  No side condition.  Covers both rewrites:
    a constant expression is replaced by a fresh `Const` of its type inserted right before it (fresh name:
    `freshName_not_mem`; type and payload: `evalConst_spec`), and the chain `(y ± c1) ± c2 → y ± c3`. -/
theorem constFold_preserves_wf (m m' : Module) (h : WFModule m) (hr : runPass constFold m = .ok m') :
    WFModule m' :=
  (Proofs.IRWF.wfModule_iff _).1
    (wfModule_runPass constFold (fun _ _ hw hf => wf_constFold hw hf) ((Proofs.IRWF.wfModule_iff m).2 h) hr)

/-! ## non-vacuity -/

/-- a well-formed function with a loop, a phi that reads itself through the back edge, a critical edge,
    and a common subexpression that CSE removes -/
def loopF : Func := {
  name := "loop", isGlobal := true, ret := some i32, entry := "e", params := [("n", i32)],
  blocks := [
    { name := "e", instrs := [.const "z" i32 (.int 0), .const "one" i32 (.int 1), .jump "h"] },
    { name := "h", instrs := [.phi "i" i32 [("e", .loc "z"), ("b", .loc "i1")],
                              .cjump (.loc "i") .lt (.loc "n") "b" "x"] },
    { name := "b", instrs := [.binop "i1" i32 .add (.loc "i") (.loc "one"),
                              .binop "i2" i32 .add (.loc "i") (.loc "one"),
                              .cjump (.loc "i2") .gt (.loc "n") "x" "h"] },
    { name := "x", instrs := [.phi "r" i32 [("h", .loc "i"), ("b", .loc "i2")], .ret (.loc "r")] }] }

def loopM : Module := { name := "m", externs := [], vars := [], funcs := [loopF] }

example : WFModule loopM := (wfModule_checker_decides_WFModule _).1 (by decide +kernel)
example : cse loopF ≠ loopF := by decide +kernel
example : deleteUnused (cse loopF) ≠ cse loopF := by decide +kernel
example : wfFunc loopM (deleteUnused (cse loopF)) = true := by decide +kernel
example : noBinopCallee loopF = true := by decide +kernel
example : Dom loopF "h" "x" := (dominates_is_path_dominance _ _ _).1 (by decide +kernel)
example : ¬ Dom loopF "b" "x" := fun h => absurd ((dominates_is_path_dominance _ _ _).2 h) (by decide +kernel)
/-- the checker rejects: a phi input for a non-predecessor, a use that is not dominated, an unreachable block -/
example : wfFunc loopM { loopF with blocks := loopF.blocks ++ [{ name := "dead", instrs := [.ret (.loc "z")] }] } = false := by
  decide +kernel
example : wfFunc loopM { loopF with blocks := loopF.blocks.map fun b =>
    if b.name = "x" then { b with instrs := [.ret (.loc "i1")] } else b } = false := by decide +kernel

/-- the names used by the driver denote the proved models -/
example : (passByName "cse").isSome = true := by decide +kernel
example : (passByName "addzero").isSome = true := by decide +kernel
example : (passByName "delunused").isSome = true := by decide +kernel
example : (passByName "constfold").isSome = true := by decide +kernel

/-- constant folding does something on a well-formed function and the result is accepted -/
def foldF : Func := {
  name := "k", isGlobal := true, ret := some i32, entry := "e", params := [("y", i32)],
  blocks := [{ name := "e", instrs := [
    .const "c" i32 (.int 100), .binop "s" i32 .add (.loc "c") (.loc "c"),
    .binop "a" i32 .add (.loc "y") (.loc "c"), .binop "b" i32 .add (.loc "a") (.loc "s"), .ret (.loc "b")] }] }
def foldM : Module := { name := "m", externs := [], vars := [], funcs := [foldF] }
example : wfModule foldM = true := by decide +kernel
example : (match constFold foldF with | .ok f' => f' != foldF && wfFunc foldM f' | .error _ => false) = true := by
  decide +kernel

end Props.C03
