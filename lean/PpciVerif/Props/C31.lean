import PpciVerif.Model.Regex
namespace Props.C31
theorem placeholder_to_be_replaced : True := trivial
end Props.C31
