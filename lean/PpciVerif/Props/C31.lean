import PpciVerif.Proofs.RegexInst
import PpciVerif.Proofs.RegexParse
import PpciVerif.Proofs.RegexMeaning
import PpciVerif.Model.RegexLegacy
import PpciVerif.Proofs.RegexDiverge
/-!
# C31 — regular-expression automata accept exactly the expression's language

Model: `Model.Regex` (regex.py / compiler.py / scanner.py), `Model.RegexParse` (parser.py), after the
`fix:` commits of findings/C31.json; `Model.RegexLegacy` = the code before them (witnesses only).
Specification: `Spec.Lang` (`Matches`, `Syn`, `Syn.rx`, `Munch`), `Spec.RegexLang` (`denote`, `L`, `WF`).

All theorems quantify over ALL expressions / syntax trees and ALL strings; strings given to the
automaton are over ppci's alphabet `SIGMA` = code points 0..255 (`InSigma`).  `WF r` is the
representation invariant "every SymbolSet holds a canonical IntegerSet" which the `IntegerSet`
constructor establishes (C33); it is not a restriction on the inputs.

NOT proved: termination of `compile` (`compile_total_full`) — it is false without
ACI-normalisation of `|` (open finding, witness below), so the automaton theorems carry the explicit
guard "compile returned" and the suffix `_partial`.
-/
namespace Props.C31
open Spec.Lang Spec.RegexLang Model.Regex Model.RegexParse Proofs.Regex Spec.IntSet

/-! ## the executable specification decides the inductive one (used for spec validation vs `re.fullmatch`) -/

theorem spec_matchB_iff (r : Rx Int) (s : List Int) : matchB r s = true ↔ Matches r s := matchB_iff r s

/-! ## smart constructors, nullable, derivative -/

theorem concatenate_language (l r : Re) (s : List Int) :
    L (concatenate l r) s ↔ ∃ u v, s = u ++ v ∧ L l u ∧ L r v := L_concatenate l r s

/-- includes the `SymbolSet | SymbolSet → SymbolSet(union)` shortcut -/
theorem logical_or_language (l r : Re) (s : List Int) : L (logicalOr l r) s ↔ L l s ∨ L r s := L_logicalOr l r s

theorem logical_and_language (l r : Re) (s : List Int) : L (logicalAnd l r) s ↔ L l s ∧ L r s := L_logicalAnd l r s

theorem nullable_iff_empty_string (r : Re) : nullable r = true ↔ L r [] := nullable_iff r

theorem derivative_language (r : Re) (hr : WF r) (c : Int) (s : List Int) :
    L (derivative r c) s ↔ L r (c :: s) := derivative_correct r c s hr

theorem derivative_keeps_invariant (r : Re) (hr : WF r) (c : Int) : WF (derivative r c) := WF_derivative r c hr

/-- derivative classes: canonical sets, pairwise disjoint, covering the alphabet, and two symbols
of one class have the same derivative (syntactically equal expressions) -/
theorem derivative_classes_partition (r : Re) (hr : WF r) :
    (∀ K ∈ derivativeClasses r, Canon K) ∧
    (derivativeClasses r).Pairwise (fun a b => ∀ v, ¬ (Mem a v ∧ Mem b v)) ∧
    (∀ c, 0 ≤ c → c ≤ 255 → ∃ K ∈ derivativeClasses r, Mem K c) ∧
    (∀ K ∈ derivativeClasses r, ∀ c1 c2, Mem K c1 → Mem K c2 → derivative r c1 = derivative r c2) :=
  let h := classesOK_re r hr
  ⟨h.canon, h.disj, h.cover, h.coh⟩

/-! ## compile: the automaton accepts exactly `L r`, whenever `compile` returns -/

/-- full statement (NOT proved; false today: `a*a*`, see the witness below): compile always returns -/
def compile_total_full : Prop := ∀ r : Re, WF r → ∃ fuel d, compile fuel r = .ok d

/-- acceptance computed by running the tables (bisect-based `pick_transition`, no RuntimeError,
no IndexError) is membership in the language — under the guard that `compile` returned -/
theorem compile_accepts_partial (r : Re) (hr : WF r) (fuel : Nat) (d : DFA Bool)
    (hc : compile fuel r = .ok d) (s : List Int) (hs : InSigma s) :
    ∃ b, accepts d s = .ok b ∧ (b = true ↔ L r s) :=
  ⟨_, compile_accepts r hr fuel d hc s hs, nullable_derivs r s hr⟩

/-- `error = state_numbers[expr.null]` never raises KeyError (after the fix) -/
theorem compile_no_keyError (r : Re) (hr : WF r) (fuel : Nat) : compile fuel r ≠ .error .KeyError :=
  compileWith_no_keyError sound_re nullable hr WF_NULL fuel

/-! ## scan: maximal munch -/

/-- `scan` splits the input into longest non-empty prefixes in `L r`, repeatedly; it ends with
`done` iff the whole input was consumed and with ValueError iff it got stuck; it never raises
anything else and never emits an empty token — under the guard that `compile` returned -/
theorem scan_maximal_munch_partial (r : Re) (hr : WF r) (fuel : Nat) (d : DFA Bool)
    (hc : compile fuel r = .ok d) (s : List Int) (hs : InSigma s) :
    ∃ ok, (scan d s).2 = (if ok then End.done else End.noMatch) ∧ Munch (L r) s (scan d s).1 ok :=
  compile_scan r hr fuel d hc s hs

/-- `Scanner.scan` for an `ExpressionVector`: maximal munch w.r.t. the union of the token languages,
each token named after the FIRST entry of the vector that matches it -/
theorem scanner_vector_maximal_munch_partial (v : Vec) (hv : VecWF v) (fuel : Nat) (d : DFA (List Nat))
    (hc : compileVec fuel v = .ok d) (s : List Int) (hs : InSigma s) :
    ∃ ok, (scanVec d s).2 = (if ok then End.done else End.noMatch) ∧
      Munch (fun t => ∃ p ∈ v, L p.2 t) s ((scanVec d s).1.map (·.2)) ok ∧
      ∀ tok ∈ (scanVec d s).1, FirstMatch v tok.2 tok.1 :=
  compileVec_scan v hv fuel d hc s hs

/-! ## parser -/

/-- `parse (pretty t) = meaning t`: `pretty` inserts only the parentheses the standard precedence
postfix > concatenation > alternation (left-associative) requires, `meaning` is the object the
standard reading denotes -/
theorem parse_pretty (t : Syn) (ht : t.WF) : parse (pretty t) = .ok (meaning t) :=
  Proofs.RegexParse.parse_pretty t ht

/-- the object the parser returns denotes the standard language of the expression -/
theorem parse_language (t : Syn) (ht : t.WF) :
    ∃ r, parse (pretty t) = .ok r ∧ WF r ∧ ∀ s, L r s ↔ Matches t.rx s :=
  ⟨meaning t, parse_pretty t ht, WF_meaning t, L_meaning t⟩

/-- end to end: text → parser → compile → tables accept exactly the standard language -/
theorem regex_automaton_partial (t : Syn) (ht : t.WF) (fuel : Nat) (r : Re) (d : DFA Bool)
    (hp : parse (pretty t) = .ok r) (hc : compile fuel r = .ok d) (s : List Int) (hs : InSigma s) :
    ∃ b, accepts d s = .ok b ∧ (b = true ↔ Matches t.rx s) := by
  rw [parse_pretty t ht] at hp
  cases hp
  obtain ⟨b, h1, h2⟩ := compile_accepts_partial (meaning t) (WF_meaning t) fuel d hc s hs
  exact ⟨b, h1, h2.trans (L_meaning t s)⟩

/-! ## non-vacuity -/

def a : Re := symbol 97
def b : Re := symbol 98
/-- `ab|cd` -/
def abcd : Syn := .alt (.cat (.chr 97) (.chr 98)) (.cat (.chr 99) (.chr 100))

example : pretty abcd = [97, 98, 124, 99, 100] := by decide +kernel
example : parse [97, 98, 124, 99, 100] =
    .ok (.or (.cat (.set [(97, 97)]) (.set [(98, 98)])) (.cat (.set [(99, 99)]) (.set [(100, 100)]))) := by
  decide +kernel
example : abcd.WF := by simp [abcd, Syn.WF]
-- `(a|b)*c` needs its parentheses, `a|b*` does not get any
example : pretty (.cat (.star (.alt (.chr 97) (.chr 98))) (.chr 99)) = [40, 97, 124, 98, 41, 42, 99] := by decide +kernel
example : pretty (.alt (.chr 97) (.star (.chr 98))) = [97, 124, 98, 42] := by decide +kernel
example : derivative (.cat a b) 97 = b ∧ nullable (.star a) = true ∧ nullable (.cat a b) = false := by decide +kernel
example : derivativeClasses (.cat a b) = [[(97, 97)], [(0, 96), (98, 255)]] := by decide +kernel
/-- `compile('ab')` returns: 4 states (ab, b, NULL, ε) -/
example : compile 10 (.cat a b) = .ok
    { trans := [[(0, 96, 2), (97, 97, 1), (98, 255, 2)], [(0, 97, 2), (98, 98, 3), (99, 255, 2)], [(0, 255, 2)], [(0, 255, 2)]],
      accepts := [false, false, false, true], error := 2 } := by decide +kernel
example : WF (.cat a b) := by
  refine ⟨?_, ?_⟩ <;> exact (Proofs.IntSet.mk_spec _).1
/-- `.*` compiles after the fix (the error state gets number 1 although it is unreachable) -/
example : compile 10 (.star SIGMA) = .ok { trans := [[(0, 255, 0)], [(0, 255, 1)]], accepts := [true, false], error := 1 } := by
  decide +kernel
/-- scanning `aab` with `a*`: one token, then stuck at `b` (ValueError) — no empty tokens -/
example : (compile 10 (.star a)).toOption.map (fun d => scan d [97, 97, 98]) = some ([[97, 97]], End.noMatch) := by
  decide +kernel
example : (compile 10 (.cat a (.star b))).toOption.map (fun d => scan d [97, 98, 97]) = some ([[97, 98], [97]], End.done) := by
  decide +kernel
/-- first-name priority: `ab` is both a `kw` (0) and an `id` (1) -/
example : (compileVec 20 [(0, .cat a b), (1, concatenate (symbolSet [(97, 98)]) (.star (symbolSet [(97, 98)])))]).toOption.map
    (fun d => scanVec d [97, 98, 97]) = some ([(1, [97, 98, 97])], End.done) := by decide +kernel
example : (compileVec 20 [(0, .cat a b), (1, concatenate (symbolSet [(97, 98)]) (.star (symbolSet [(97, 98)])))]).toOption.map
    (fun d => scanVec d [97, 98]) = some ([(0, [97, 98])], End.done) := by decide +kernel

/-! ## negation witnesses

### open finding: `compile` does not terminate without ACI-normalisation (`a*a*`)
Each derivative by `a` wraps the previous state into one more `LogicalOr(…, a*)`, all states are
different, the work list never empties (proved for every amount of fuel in `Proofs.RegexDiverge`;
`(aa+)*` even doubles in size at each step). -/
theorem compile_not_total : ¬ compile_total_full := by
  intro h
  obtain ⟨fuel, d, hd⟩ := h Proofs.RegexDiverge.root ⟨WF_symbol 97, WF_symbol 97⟩
  rw [Proofs.RegexDiverge.compile_diverges fuel] at hd
  cases hd
/-- for EVERY fuel: `compile` does not return on `a*a*` -/
example (fuel : Nat) : compile fuel (.cat (.star a) (.star a)) = .error .Fuel :=
  Proofs.RegexDiverge.compile_diverges fuel
example : derivative (.cat (.star a) (.star a)) 97 = .or (.cat (.star a) (.star a)) (.star a) := by decide +kernel
example : derivative (.or (.cat (.star a) (.star a)) (.star a)) 97
    = .or (.or (.cat (.star a) (.star a)) (.star a)) (.star a) := by decide +kernel

/-! ### fixed: operator precedence (the parser before the fix, `Model.RegexLegacy`) -/
/-- before: `ab|cd` was read as `a(b|c)d` = `a[b-c]d` … -/
example : Model.RegexLegacy.parse [97, 98, 124, 99, 100] =
    .ok (.cat (.cat (.set [(97, 97)]) (.set [(98, 99)])) (.set [(100, 100)])) := by decide +kernel
/-- … whose language is not the standard one: it rejects `ab` … -/
example : ¬ L (.cat (.cat (.set [(97, 97)]) (.set [(98, 99)])) (.set [(100, 100)])) [97, 98] := by
  intro h
  have := (matchB_iff _ _).2 h
  revert this
  decide +kernel
example : Matches abcd.rx [97, 98] := (matchB_iff _ _).1 (by decide +kernel)
/-- … and a group could not hold a concatenation at all: `(ab)*` was a ValueError -/
example : Model.RegexLegacy.parse [40, 97, 98, 41, 42] = .error .ValueError := by decide +kernel
example : parse [40, 97, 98, 41, 42] = .ok (.star (.cat (.set [(97, 97)]) (.set [(98, 98)]))) := by decide +kernel

/-! ### fixed: `compile('.*')` raised KeyError (no state for `expr.null`) -/
example : Model.RegexLegacy.compile 10 (.star SIGMA) = .error .KeyError := by decide +kernel

/-! ### fixed: `scan` emitted the empty token for ever when the longest match was empty -/
example : (Model.RegexLegacy.compile 10 (.star a)).toOption.map (fun d => Model.RegexLegacy.scan d [98])
    = some ([], Model.RegexLegacy.End.endlessEmpty) := by decide +kernel
example : (Model.RegexLegacy.compile 10 (.star a)).toOption.map (fun d => Model.RegexLegacy.scan d [97, 97])
    = some ([[97, 97]], Model.RegexLegacy.End.endlessEmpty) := by decide +kernel

end Props.C31
