import PpciVerif.Model.Linker
import PpciVerif.Spec.Link
namespace Props.C12
theorem placeholder : True := trivial
end Props.C12
