import PpciVerif.Model.Linker
import PpciVerif.Spec.Link
import PpciVerif.Proofs.Linker
import PpciVerif.Proofs.LinkerLayout
import PpciVerif.Proofs.LinkerIff
import PpciVerif.Proofs.LinkerFull
/-!
# C12 — the linker places sections correctly and preserves their contents

Property theorems only.  Model: `Model.Linker` (hand model of
`ppci/binutils/linker.py`, `objectfile.py`, layout input kinds; tied to the
source by the correspondence check `harness/c12.py` through the real `link()`).
`linkT inp = .ok (out, tr)`: the link succeeds with linked object `out`; `tr` is
the trace of what `inject_object` recorded per input object (`section_offsets`
and the new symbol ids).  `traceRecs inp.objs tr` lists every input section
(*piece*) with its recorded offset, in link order.

Relocation application is not part of the model (C10/C11): the theorems speak
about the linked object before `do_relocations`, which only rewrites the
relocation sites the property exempts.
-/
namespace Props.C12
open Model.Linker Proofs.Linker Spec.Link

/-! ### contents: every input section stands unchanged at its recorded offset -/

/-- The trace has one entry per object, one named offset per input section and one id per input
    symbol, so `traceRecs` enumerates exactly the input sections, in order. -/
theorem trace_enumerates_pieces (inp : LinkInput) (out : Obj) (tr : List ObjTrace)
    (h : linkT inp = .ok (out, tr)) :
    All2 TraceShape inp.objs tr ∧
    (traceRecs inp.objs tr).map (·.piece) = pieces inp ∧
    (traceRecs inp.objs tr).map (·.off) = tr.flatMap (fun t => t.offsets.map (·.2)) := by
  obtain ⟨d1, d2, li⟩ := linkT_inv h
  have f := link_facts li
  exact ⟨f.shape, (traceRecs_pieces f.shape).1, (traceRecs_pieces f.shape).2⟩

/-- Every input section's bytes occur unchanged at its recorded offset in the output section of
    the same name; the offset is a multiple of the piece's alignment.  For ALL object lists and
    layouts (no hypothesis besides success of the link). -/
theorem content_preserved (inp : LinkInput) (out : Obj) (tr : List ObjTrace)
    (h : linkT inp = .ok (out, tr)) :
    ∀ r ∈ traceRecs inp.objs tr,
      (∃ sec, getSec out.sections r.piece.name = some sec ∧ Occurs sec.data r.off r.piece.data) ∧
      0 < r.piece.alignment ∧ r.off % r.piece.alignment = 0 := by
  obtain ⟨d1, d2, li⟩ := linkT_inv h
  have f := link_facts li
  intro r hr
  have hp := f.good.present r hr
  have ⟨hd, _, hs⟩ := f.keeps.dataOf hp
  have ho := f.good.occurs r hr
  rw [← hd] at ho
  cases hg : getSec out.sections r.piece.name with
  | none => rw [hg] at hs; cases hs
  | some sec =>
    rw [dataOf_of_get hg] at ho
    exact ⟨⟨sec, rfl, ho⟩, f.good.aligned r hr⟩

/-- byte-wise form of `content_preserved` -/
theorem content_preserved_bytes (inp : LinkInput) (out : Obj) (tr : List ObjTrace)
    (h : linkT inp = .ok (out, tr)) (r : Rec) (hr : r ∈ traceRecs inp.objs tr) :
    ∃ sec, getSec out.sections r.piece.name = some sec ∧
      ∀ i, i < r.piece.data.length → sec.data[r.off + i]? = r.piece.data[i]? := by
  obtain ⟨⟨sec, hs, ho⟩, _⟩ := content_preserved inp out tr h r hr
  exact ⟨sec, hs, fun i hi => ho.getElem i hi⟩

/-- The occurrences are disjoint: pieces of one output section lie one after the other in link
    order (an earlier piece ends before a later piece begins). -/
theorem pieces_disjoint (inp : LinkInput) (out : Obj) (tr : List ObjTrace)
    (h : linkT inp = .ok (out, tr)) :
    (traceRecs inp.objs tr).Pairwise
      (fun r1 r2 => r1.piece.name = r2.piece.name → r1.off + r1.piece.data.length ≤ r2.off) := by
  obtain ⟨d1, d2, li⟩ := linkT_inv h
  exact (link_facts li).good.ordered

/-- The alignment of an output section is at least the alignment of each of its pieces, and it is
    4 (the default) or the alignment of one of its pieces. -/
theorem output_alignment (inp : LinkInput) (out : Obj) (tr : List ObjTrace)
    (h : linkT inp = .ok (out, tr)) :
    ∀ r ∈ traceRecs inp.objs tr, ∃ sec, getSec out.sections r.piece.name = some sec ∧
      r.piece.alignment ≤ sec.alignment ∧
      (sec.alignment = 4 ∨ ∃ r' ∈ traceRecs inp.objs tr, r'.piece.name = r.piece.name ∧
        sec.alignment = r'.piece.alignment) := by
  obtain ⟨d1, d2, li⟩ := linkT_inv h
  have f := link_facts li
  intro r hr
  have ⟨_, ha, hs⟩ := f.keeps.dataOf (f.good.present r hr)
  cases hg : getSec out.sections r.piece.name with
  | none => rw [hg] at hs; cases hs
  | some sec =>
    rw [alignOf_of_get hg] at ha
    refine ⟨sec, rfl, by rw [ha]; exact f.good.align_le r hr, ?_⟩
    rw [ha]; exact f.good.align_src _

/-! ### symbols: value = final address of the section + recorded offset + offset in the piece -/

/-- Every defined input symbol (value `v` in section `n` of its object) is mapped to a symbol of
    the output with the same name and binding whose resolved value
    (`ObjectFile.get_symbol_id_value`) is `section n's final address + section_offsets[n] + v`.
    For ALL inputs. -/
theorem symbol_values (inp : LinkInput) (out : Obj) (tr : List ObjTrace)
    (h : linkT inp = .ok (out, tr)) :
    ∀ p ∈ inp.objs.zip tr, ∀ q ∈ p.1.symbols.zip p.2.symIds, ∀ v n,
      q.1.value = some v → q.1.sect = some n →
      ∃ off sec y, dictGet p.2.offsets n = some off ∧ getSec out.sections n = some sec ∧
        out.symbols[q.2]? = some y ∧ y.name = q.1.name ∧ y.binding = q.1.binding ∧
        y.value = some (off + v) ∧ y.sect = some n ∧
        getSymbolIdValue out q.2 = .ok (sec.address + off + v) := by
  obtain ⟨d1, d2, li⟩ := linkT_inv h
  have f := link_facts li
  intro p hp q hq v n hv hn
  obtain ⟨y, hy, h1, h2, h3⟩ := f.syms p hp q hq
  obtain ⟨off, ho, hyv, hys⟩ := h3 v n hv hn
  -- the section exists: `n` is the name of one of the object's sections
  have hshape := f.shape.of_mem_zip p hp
  have hmem := dictGet_some_mem ho
  have hname : n ∈ p.1.sections.map (·.name) := by
    rw [← hshape.1]; exact List.mem_map_of_mem (f := (·.1)) hmem
  obtain ⟨s, hs, hsn⟩ := List.mem_map.1 hname
  have hrec : ∃ r ∈ traceRecs inp.objs tr, r.piece.name = n := by
    have hpieces := (traceRecs_pieces f.shape).1
    have hsp : s ∈ inp.objs.flatMap (·.sections) :=
      List.mem_flatMap.2 ⟨p.1, (List.of_mem_zip hp).1, hs⟩
    rw [← hpieces] at hsp
    obtain ⟨r, hr, e⟩ := List.mem_map.1 hsp
    exact ⟨r, hr, by rw [e]; exact hsn⟩
  obtain ⟨r, hr, hrn⟩ := hrec
  have ⟨_, _, hsome⟩ := f.keeps.dataOf (f.good.present r hr)
  rw [hrn] at hsome
  cases hg : getSec out.sections n with
  | none => rw [hg] at hsome; cases hsome
  | some sec =>
    refine ⟨off, sec, y, ho, rfl, hy, h1, h2, hyv, hys, ?_⟩
    rw [getSymbolIdValue_of f.idinv hy hyv hys hg]
    congr 1; omega

/-- When the section names inside an object are distinct, `section_offsets[name]` is the recorded
    offset of that very piece (so `symbol_values` speaks about the piece the symbol lives in). -/
theorem offsets_lookup (o : Obj) (t : ObjTrace) (hs : TraceShape o t)
    (hnd : (o.sections.map (·.name)).Nodup) :
    ∀ r ∈ recsOf o.sections t.offsets, dictGet t.offsets r.piece.name = some r.off :=
  dictGet_recsOf hs.1 hnd

/-! ### layout: placed sections are aligned, inside their memory, and do not overlap -/

/-- A successful link has placed every section name at most once (`layout_sections` ends with that
    check since the fix recorded in findings/C12.json). -/
theorem placed_once (inp : LinkInput) (out : Obj) (tr : List ObjTrace) (h : linkT inp = .ok (out, tr)) :
    (placedNames (memories inp)).Nodup := by
  obtain ⟨d1, d2, li⟩ := linkT_inv h
  exact li.placed_once

/-- After a successful link, for ALL layouts: one image per memory
    (same name, address = memory location, the placed sections in order); every placed section has
    `address % alignment = 0`, starts at or after `mem.location` and ends at or before
    `mem.location + mem.size`; the sections of an image form an ascending chain (hence are pairwise
    non-overlapping). -/
theorem layout_placement (inp : LinkInput) (out : Obj) (tr : List ObjTrace)
    (h : linkT inp = .ok (out, tr)) :
    All2 (fun m img =>
      img.name = m.name ∧ img.address = m.location ∧ img.sections = m.inputs.flatMap inputPlaced ∧
      (imageSections out.sections img).map (·.name) = img.sections ∧
      (∀ s ∈ imageSections out.sections img,
        0 < s.alignment ∧ s.address % s.alignment = 0 ∧
        m.location ≤ s.address ∧ s.address + s.data.length ≤ m.location + m.size) ∧
      (imageSections out.sections img).Pairwise (fun a b => a.address + a.data.length ≤ b.address))
      (memories inp) out.images := by
  obtain ⟨d1, d2, li⟩ := linkT_inv h
  have hall := link_images li
  refine hall.imp (fun m img ok => ⟨ok.name_eq, ok.addr_eq, ok.secs_eq, ok.present, fun s hs => ?_, chain_pairwise _ _ ok.chain⟩)
  have hb := chain_mem_bounds _ _ ok.chain s hs
  have ha := ok.aligned s hs
  have hf := ok.fits
  exact ⟨ha.1, ha.2, hb.1, Nat.le_trans hb.2 hf⟩

/-- `Image.data` of every image of such a link succeeds and, restricted to a section of the image,
    equals the section. -/
theorem image_data_restricts (inp : LinkInput) (out : Obj) (tr : List ObjTrace)
    (h : linkT inp = .ok (out, tr)) :
    ∀ img ∈ out.images, ∃ d, imageData out.sections img = .ok d ∧
      ∀ s ∈ imageSections out.sections img, Occurs d (s.address - img.address) s.data := by
  obtain ⟨d1, d2, li⟩ := linkT_inv h
  intro img hi
  obtain ⟨m, _, ok⟩ := (link_images li).mem_right img hi
  have hc : Chain img.address (imageSections out.sections img) := ok.addr_eq ▸ ok.chain
  obtain ⟨d, hd⟩ := (imageDataFrom_ok_iff _ _).2 hc
  exact ⟨d, hd, (imageDataFrom_spec _ _ _ hd).2⟩

/-! ### `Image.data` in general: gap fill, overlap error -/

/-- `Image.data` returns bytes iff the sections are in ascending order and none starts before the
    previous one ends; otherwise it raises ValueError ("sections overlap"). -/
theorem image_data_ok_iff_chain (base : Nat) (secs : List Section) :
    ((∃ d, imageDataFrom base secs = .ok d) ↔ Chain base secs) ∧
    (∀ e, imageDataFrom base secs = .error e → e = .ValueError) :=
  ⟨imageDataFrom_ok_iff secs base, fun e he => imageDataFrom_error secs base e he⟩

/-- When it succeeds, the result spans from the image address to the end of the last section and
    every section stands at `address - base` (gaps are filled, nothing else is inserted). -/
theorem image_data_contents (base : Nat) (secs : List Section) (d : List Nat)
    (h : imageDataFrom base secs = .ok d) :
    d.length = chainEnd base secs - base ∧ ∀ s ∈ secs, Occurs d (s.address - base) s.data :=
  imageDataFrom_spec secs base d h

/-! ### piece addresses (needs power-of-two alignments) -/

/-- If all pieces merged into an output section have power-of-two alignments, then for every
    placement of that section at an address that satisfies the *section's* alignment, every piece
    lands at an address that satisfies the *piece's* alignment. -/
theorem piece_address_aligned (inp : LinkInput) (out : Obj) (tr : List ObjTrace)
    (h : linkT inp = .ok (out, tr)) (r : Rec) (hr : r ∈ traceRecs inp.objs tr)
    (hp : ∀ r' ∈ traceRecs inp.objs tr, r'.piece.name = r.piece.name → IsPow2 r'.piece.alignment)
    (sec : Section) (hs : getSec out.sections r.piece.name = some sec)
    (ha : sec.address % sec.alignment = 0) :
    (sec.address + r.off) % r.piece.alignment = 0 := by
  obtain ⟨d1, d2, li⟩ := linkT_inv h
  have f := link_facts li
  have hd := f.good.piece_dvd hr hp
  have ⟨_, hal, _⟩ := f.keeps.dataOf (f.good.present r hr)
  rw [← hal, alignOf_of_get hs] at hd
  have h1 : r.piece.alignment ∣ sec.address := Nat.dvd_trans hd (Nat.dvd_of_mod_eq_zero ha)
  have h2 : r.piece.alignment ∣ r.off := Nat.dvd_of_mod_eq_zero (f.good.aligned r hr).2
  exact Nat.mod_eq_zero_of_dvd (Nat.dvd_add h1 h2)

/-! ### symbols defined by the layout -/

/-- `DEFINESYMBOL(s)` of the layout: the output has a global symbol `s` whose resolved value is
    the final address of its marker section `_$s_` (value 0 in that section).  For ALL layouts. -/
theorem layout_symbol_definitions (inp : LinkInput) (out : Obj) (tr : List ObjTrace)
    (h : linkT inp = .ok (out, tr)) :
    ∀ m ∈ memories inp, ∀ s, MemInput.symDef s ∈ m.inputs →
      ∃ id y sec, out.symbols[id]? = some y ∧ y.name = s ∧ y.binding = .global ∧
        getSec out.sections (dollarName s) = some sec ∧ getSymbolIdValue out id = .ok sec.address := by
  obtain ⟨d1, d2, li⟩ := linkT_inv h
  have ⟨_, i2, _⟩ := mergeObjects_syms li.merge li.d1_idinv
  have k := layoutSections_keeps li.layout i2
  intro m hm s hs
  obtain ⟨⟨id, y, hy, h1, h2, h3⟩, hsec⟩ := layoutSections_symdef li.layout i2 m hm s hs
  cases hg : getSec out.sections (dollarName s) with
  | none => rw [hg] at hsec; cases hsec
  | some sec =>
    have hv := h3 0 rfl
    refine ⟨id, y, sec, hy, h1, h2, rfl, ?_⟩
    rw [getSymbolIdValue_of k.idinv hy hv.1 hv.2 hg]; simp

/-! ### when does a link fail? -/

/-- **For ALL requests** (no well-formedness): a global symbol defined twice, a referenced global
    symbol that is never defined (non-partial link), or a memory that needs more bytes than it has
    (abstract placement of `Spec.Link`) makes the link fail. -/
theorem link_fails_full (inp : LinkInput) (hbad : DupGlobal inp ∨ UndefGlobal inp ∨ Overfull inp) :
    ∃ e, linkT inp = .error e :=
  linkT_bad_fails inp hbad

/-- Conversely, on well-formed requests (`Spec.Link.WF`: no dangling references inside an object,
    no zero alignment, at most one entry point, no layout in a partial link, a well-formed layout that
    places every section at most once) these are the *only* reasons: the link fails **iff** one of the
    three conditions holds, and then with `CompilerError`.  (The converse cannot hold without `WF`:
    ill-formed requests fail for other reasons, e.g. KeyError for a symbol in a missing section.) -/
theorem link_fails_iff (inp : LinkInput) (wf : WF inp = true) :
    ((∃ e, linkT inp = .error e) ↔ DupGlobal inp ∨ UndefGlobal inp ∨ Overfull inp) ∧
    (∀ e, linkT inp = .error e → e = .CompilerError) :=
  linkT_fails_iff wf

/-- Success form: a well-formed request links iff none of the three conditions holds. -/
theorem link_succeeds_iff (inp : LinkInput) (wf : WF inp = true) :
    (∃ out tr, linkT inp = .ok (out, tr)) ↔ ¬ DupGlobal inp ∧ ¬ UndefGlobal inp ∧ ¬ Overfull inp := by
  have h := (linkT_fails_iff wf).1
  constructor
  · rintro ⟨out, tr, hok⟩
    have : ¬ (∃ e, linkT inp = .error e) := by rintro ⟨e, he⟩; rw [hok] at he; cases he
    rw [h] at this
    exact ⟨fun a => this (Or.inl a), fun a => this (Or.inr (Or.inl a)), fun a => this (Or.inr (Or.inr a))⟩
  · rintro ⟨a, b, c⟩
    cases hl : linkT inp with
    | ok p => exact ⟨p.1, p.2, rfl⟩
    | error e =>
      have := h.1 ⟨e, hl⟩
      rcases this with x | x | x
      · exact absurd x a
      · exact absurd x b
      · exact absurd x c

/-! ### two-stage links: a (partially) linked object linked again -/

/-- Contents survive a second link: if `p` is the result of a first link and is one of the objects
    of a second link (alone — "re-linking a partial output" — or together with further objects and a
    layout), every *original* input section still stands unchanged in the final output section of
    the same name, at offset (offset of `p`'s section in the second link) + (its offset in the first). -/
theorem two_stage_content_preserved (inp1 inp2 : LinkInput) (p q : Obj) (tr1 tr2 : List ObjTrace)
    (h1 : linkT inp1 = .ok (p, tr1)) (hp : p ∈ inp2.objs) (h2 : linkT inp2 = .ok (q, tr2)) :
    ∀ r1 ∈ traceRecs inp1.objs tr1, ∃ r2 ∈ traceRecs inp2.objs tr2, ∃ sec,
      r2.piece ∈ p.sections ∧ r2.piece.name = r1.piece.name ∧
      getSec q.sections r1.piece.name = some sec ∧ Occurs sec.data (r2.off + r1.off) r1.piece.data := by
  intro r1 hr1
  obtain ⟨⟨sec1, hs1, ho1⟩, _⟩ := content_preserved inp1 p tr1 h1 r1 hr1
  have hmem : sec1 ∈ pieces inp2 := List.mem_flatMap.2 ⟨p, hp, getSec_mem hs1⟩
  rw [← (trace_enumerates_pieces inp2 q tr2 h2).2.1] at hmem
  obtain ⟨r2, hr2, e2⟩ := List.mem_map.1 hmem
  obtain ⟨⟨sec, hs, ho⟩, _⟩ := content_preserved inp2 q tr2 h2 r2 hr2
  have hname : r2.piece.name = r1.piece.name := by rw [e2]; exact getSec_some_name hs1
  rw [e2] at ho
  refine ⟨r2, hr2, sec, by rw [e2]; exact getSec_mem hs1, hname, by rw [← hname]; exact hs, ho.trans ho1⟩

/-- Symbols survive a second link: a defined symbol of the first link (value `v` in section `n`)
    resolves, after the second link, to final address of `n` + offset of `p`'s section `n` in the
    second link + its offset in the first link + `v`. -/
theorem two_stage_symbol_values (inp1 inp2 : LinkInput) (p q : Obj) (tr1 tr2 : List ObjTrace)
    (h1 : linkT inp1 = .ok (p, tr1)) (hp : p ∈ inp2.objs) (h2 : linkT inp2 = .ok (q, tr2)) :
    ∀ a ∈ inp1.objs.zip tr1, ∀ s ∈ a.1.symbols.zip a.2.symIds, ∀ v n,
      s.1.value = some v → s.1.sect = some n →
      ∃ t2 id2 off1 off2 sec y, (p, t2) ∈ inp2.objs.zip tr2 ∧
        dictGet a.2.offsets n = some off1 ∧ dictGet t2.offsets n = some off2 ∧
        getSec q.sections n = some sec ∧ q.symbols[id2]? = some y ∧ y.name = s.1.name ∧
        y.binding = s.1.binding ∧ getSymbolIdValue q id2 = .ok (sec.address + off2 + (off1 + v)) := by
  intro a ha s hs v n hv hn
  obtain ⟨off1, _, y1, ho1, _, hy1, hn1, hb1, hv1, hs1, _⟩ := symbol_values inp1 p tr1 h1 a ha s hs v n hv hn
  have hshape := (trace_enumerates_pieces inp2 q tr2 h2).1
  obtain ⟨t2, hpt⟩ := exists_zip_right hp hshape.length_eq
  have hy1mem : y1 ∈ p.symbols := List.mem_of_getElem? hy1
  obtain ⟨id2, hyid⟩ := exists_zip_right hy1mem (hshape.of_mem_zip _ hpt).2.symm
  obtain ⟨off2, sec, y, ho2, hsec, hy, hn2, hb2, _, _, hval⟩ :=
    symbol_values inp2 q tr2 h2 (p, t2) hpt (y1, id2) hyid (off1 + v) n hv1 hs1
  exact ⟨t2, id2, off1, off2, sec, y, hpt, ho1, ho2, hsec, hy, hn2.trans hn1, hb2.trans hb1, hval⟩

/-! ### concrete instances: hypotheses are satisfiable, guards are necessary (tests, labelled as such) -/

private def sy (id : Nat) (name : String) (b : Binding) (value : Option Nat) (sect : Option String) : Symbol :=
  { id, name, binding := b, value, sect, typ := "object", size := 0 }

private def oA : Obj :=
  { sections := [{ name := "code", alignment := 4, data := [1, 2, 3, 4, 5] }],
    symbols := [sy 0 "f1" .global (some 1) (some "code"), sy 1 "l" .loc (some 2) (some "code")] }
private def oB : Obj :=
  { sections := [{ name := "code", alignment := 8, data := [6, 7, 8] }, { name := "data", alignment := 4, data := [9, 9] }],
    symbols := [sy 0 "f2" .global (some 2) (some "code"), sy 1 "f1" .global none none] }
private def oC : Obj :=
  { sections := [{ name := "code", alignment := 2, data := [10] }],
    symbols := [sy 7 "f3" .global (some 0) (some "code"), sy 3 "ext" .global none none] }

private def layA (flashSize : Nat) : Layout :=
  { memories := [{ name := "flash", location := 0x100, size := flashSize,
                   inputs := [.sect "code", .align 8, .symDef "ext"] },
                 { name := "ram", location := 0x1001, size := 100, inputs := [.sect "data", .sectData "code"] }] }

private def exOK : LinkInput := { objs := [oA, oB, oC], layout := some (layA 16) }

/-- outcome of a link as decidable data: `("ok", sections)` or `(exception class, [])` -/
private def view (r : Except Err (Obj × List ObjTrace)) : String × List (String × Nat × Nat × List Nat) :=
  match r with
  | .ok (o, _) => ("ok", o.sections.map (fun s => (s.name, s.address, s.alignment, s.data)))
  | .error e => (e.name, [])

private def viewB (r : Except Err (List Nat)) : String × List Nat :=
  match r with
  | .ok d => ("ok", d)
  | .error e => (e.name, [])

/-- three objects merged into `code` (padding before the 2nd piece), two memories, ALIGN,
    DEFINESYMBOL (resolving `ext`), SECTIONDATA; flash is exactly full (need 16 = size 16). -/
example : view (linkT exOK) = ("ok",
    [("code", 0x100, 8, [1, 2, 3, 4, 5, 0, 0, 0, 6, 7, 8, 0, 10]), ("data", 0x1004, 4, [9, 9]),
     ("_$ext_", 0x110, 1, []), ("_$code_", 0x1006, 1, [1, 2, 3, 4, 5, 0, 0, 0, 6, 7, 8, 0, 10])]) := by decide +kernel
example : WF exOK = true := by decide +kernel
example : (placedNames (memories exOK)).Nodup := by decide +kernel
example : (match linkT exOK with | .ok (_, tr) => tr.map (·.offsets) | _ => []) =
    [[("code", 0)], [("code", 8), ("data", 0)], [("code", 12)]] := by decide +kernel
/-- one byte less and the link fails with CompilerError (`Overfull`); an undefined or duplicate global likewise -/
example : view (linkT { exOK with layout := some (layA 15) }) = ("CompilerError", []) := by decide +kernel
example : Overfull { exOK with layout := some (layA 15) } := by decide +kernel
example : view (linkT { exOK with layout := none }) = ("CompilerError", []) := by decide +kernel
example : UndefGlobal { exOK with layout := none } := by decide +kernel
example : view (linkT { exOK with objs := [oA, oB, oC, oA] }) = ("CompilerError", []) := by decide +kernel
example : DupGlobal { exOK with objs := [oA, oB, oC, oA] } := by decide +kernel
/-- a partial link of the same objects succeeds (undefined `ext` is no error) -/
example : view (linkT { exOK with layout := none, partialLink := true }) = ("ok",
    [("code", 0, 8, [1, 2, 3, 4, 5, 0, 0, 0, 6, 7, 8, 0, 10]), ("data", 0, 4, [9, 9])]) := by decide +kernel

/-- re-linking that partial output alone changes nothing (sections, symbols) -/
example : (match linkT { exOK with layout := none, partialLink := true } with
    | .ok (p, _) => (match linkT { objs := [p], partialLink := true } with
        | .ok (q, _) => decide (q = p)
        | .error _ => false)
    | .error _ => false) = true := by decide +kernel

/-- A layout that names `code` in two memories is rejected (before the fix the link succeeded with
    `code` at 0x200 while the image of the first memory [0x100, 0x110) still listed it). -/
example : view (linkT { objs := [oA], layout := some { memories :=
      [{ name := "m0", location := 0x100, size := 16, inputs := [.sect "code"] },
       { name := "m1", location := 0x200, size := 16, inputs := [.sect "code"] }] } }) =
    ("CompilerError", []) := by decide +kernel

/-- The power-of-two hypothesis of `piece_address_aligned` is necessary: pieces with alignments 3
    and 3 give an output section of alignment 4; placed at 4, the second piece (offset 3) lands at
    address 7, not a multiple of 3. -/
example : (match linkT { objs := [{ sections := [{ name := "s", alignment := 3, data := [1] }] },
                                   { sections := [{ name := "s", alignment := 3, data := [2] }] }],
                         layout := some { memories := [{ name := "m", location := 4, size := 16, inputs := [.sect "s"] }] } } with
    | .ok (o, tr) => (o.sections.map (fun s => (s.address, s.alignment)), tr.map (·.offsets))
    | .error _ => ([], [])) = ([(4, 4)], [[("s", 0)], [("s", 3)]]) := by decide +kernel

/-- `Image.data`: gap fill and overlap error -/
example : viewB (imageDataFrom 4 [{ name := "a", address := 6, data := [1, 2] }, { name := "b", address := 9, data := [3] }])
    = ("ok", [0, 0, 1, 2, 0, 3]) := by decide +kernel
example : viewB (imageDataFrom 4 [{ name := "a", address := 6, data := [1, 2] }, { name := "b", address := 7, data := [3] }])
    = ("ValueError", []) := by decide +kernel

end Props.C12
