import PpciVerif.Model.Bitfun
import PpciVerif.Spec.Bits
import PpciVerif.Spec.ArmImm
/-! C39 — stage 0: the model mirrors the pinned source; negation witnesses. -/
namespace Props.C39
open Model.Bitfun

/-- pinned code: the top bit is dropped -/
example : reverseBitsPinned 0b11100001 8 = 0b10000110 ∧ Spec.Bits.reverse 8 0b11100001 = 0b10000111 := by decide
example : encodeImm32Pinned (2 ^ 32 + 1) = .ok 1 ∧ Spec.ArmImm.representableB (2 ^ 32 + 1) = false := by decide

theorem stage0 : reverseBits 0 0 = 0 := by decide
end Props.C39
