import PpciVerif.Model.Bitfun
import PpciVerif.Spec.Bits
import PpciVerif.Spec.ArmImm
import PpciVerif.Proofs.Bits
import PpciVerif.Proofs.Bitfun
import PpciVerif.Proofs.BitfunEnc
import PpciVerif.Proofs.T1_bitfun
/-!
# C39 — bit-manipulation helpers compute their mathematical definitions

Property theorems only.  Model: `Model.Bitfun` (hand model of
`ppci/utils/bitfun.py` after the two `fix:` commits, tied by correspondence).
Spec: `Spec.Bits` (definitions by bit index / modular arithmetic) and
`Spec.ArmImm` (ARM rotated 8-bit immediate).

Every theorem is for **all** bit widths (`bits ≥ 1` where the helper needs a sign
or top bit) and **all** values; `testBit x i` is bit `i` of the infinite
two's-complement expansion of `x`, so "for every integer" includes the negative
arguments the wasm runtime passes.
-/
namespace Props.C39
open Spec.Bits Model.Bitfun Proofs.Bits Proofs.Bitfun

/-! ### rotation -/

/-- `rotl(v, count, bits)` is the left rotation of the `bits`-bit value `v`: it stays in
    range and result bit `i` is source bit `(i - count) mod bits` — for every width, every
    in-range value and every integer count (negative and ≥ bits included). -/
theorem rotl_spec {bits : Nat} (hb : 1 ≤ bits) {v : Int} (hv : fitsU bits v) (count : Int) :
    ∃ r : Int, Model.Bitfun.rotl v count bits = .ok r ∧ r = (Spec.Bits.rotl bits v count : Int) ∧ fitsU bits r ∧
      ∀ i, i < bits → testBit r i = testBit v (((i : Int) - count) % (bits : Int)).toNat := by
  refine ⟨_, rotl_eq hb hv count, rfl, fitsU_rotl _ _ _, fun i hi => ?_⟩
  rw [testBit_rotl]; simp [hi]

/-- `rotr(v, count, bits)`: result bit `i` is source bit `(i + count) mod bits`. -/
theorem rotr_spec {bits : Nat} (hb : 1 ≤ bits) {v : Int} (hv : fitsU bits v) (count : Int) :
    ∃ r : Int, Model.Bitfun.rotr v count bits = .ok r ∧ r = (Spec.Bits.rotr bits v count : Int) ∧ fitsU bits r ∧
      ∀ i, i < bits → testBit r i = testBit v (((i : Int) + count) % (bits : Int)).toNat := by
  refine ⟨_, rotr_eq hb hv count, rfl, fitsU_rotr _ _ _, fun i hi => ?_⟩
  rw [testBit_rotr]; simp [hi]

/-- `rotr` undoes `rotl` (same count, same width). -/
theorem rotr_rotl_inverse {bits : Nat} (hb : 1 ≤ bits) {v : Int} (hv : fitsU bits v) (count : Int) (r : Int)
    (h : Model.Bitfun.rotl v count bits = .ok r) : Model.Bitfun.rotr r count bits = .ok v := by
  rw [rotl_eq hb hv count] at h
  injection h with h; subst h
  rw [rotr_eq hb (fitsU_rotl _ _ _), Proofs.Bits.rotr_rotl hb, wrapU_of_fitsU hv]

/-- `rotl` undoes `rotr`. -/
theorem rotl_rotr_inverse {bits : Nat} (hb : 1 ≤ bits) {v : Int} (hv : fitsU bits v) (count : Int) (r : Int)
    (h : Model.Bitfun.rotr v count bits = .ok r) : Model.Bitfun.rotl r count bits = .ok v := by
  rw [rotr_eq hb hv count] at h
  injection h with h; subst h
  rw [rotl_eq hb (fitsU_rotr _ _ _), Proofs.Bits.rotl_rotr hb, wrapU_of_fitsU hv]

/-- the rotation count only matters modulo the width -/
theorem rotl_count_periodic {bits : Nat} (hb : 1 ≤ bits) {v : Int} (hv : fitsU bits v) (count k : Int) :
    Model.Bitfun.rotl v (count + k * bits) bits = Model.Bitfun.rotl v count bits := by
  rw [rotl_eq hb hv, rotl_eq hb hv, ← rotl_count_mod, Int.add_mul_emod_self_right, rotl_count_mod]

/-- `rotate_right(v, n)` is the 32-bit right rotation for `0 ≤ n ≤ 32`. -/
theorem rotate_right_spec {v n : Int} (hv : fitsU 32 v) (h0 : 0 ≤ n) (h1 : n ≤ 32) :
    rotateRight v n = .ok (Spec.Bits.rotr 32 v n : Int) := rotateRight_eq hv h0 h1

/-- `rotate_left(v, n)` is the 32-bit left rotation for `0 ≤ n < 32` … -/
theorem rotate_left_spec {v n : Int} (hv : fitsU 32 v) (h0 : 0 ≤ n) (h1 : n < 32) :
    rotateLeft v n = .ok (Spec.Bits.rotl 32 v n : Int) := rotateLeft_eq hv h0 h1

/-- … and outside that count range it fails its assertion (never a wrong value). -/
theorem rotate_left_rejects (v n : Int) (h : ¬ (0 ≤ n ∧ n < 32)) : rotateLeft v n = .error .AssertionError := by
  unfold rotateLeft
  by_cases h0 : n ≥ 0
  · rw [if_neg (by omega), if_pos (by omega)]
  · rw [if_pos h0]

/-- outside `0 ≤ n ≤ 32`, `rotate_right` raises (never a wrong value) -/
theorem rotate_right_rejects (v n : Int) (h : ¬ (0 ≤ n ∧ n ≤ 32)) : ∃ e, rotateRight v n = .error e := by
  unfold rotateRight
  by_cases h0 : n < 0
  · exact ⟨_, by rw [if_pos h0]⟩
  · exact ⟨_, by rw [if_neg h0, if_pos (by omega)]⟩

/-! ### bit reversal (after `fix: reverse_bits dropped the most significant input bit`) -/

/-- `reverse_bits(v, bits)` is in range and its bit `i` is bit `bits-1-i` of `v`,
    for every width and every integer `v` (only the low `bits` bits of `v` matter). -/
theorem reverse_bits_spec (v : Int) (bits : Nat) :
    reverseBits v bits = (Spec.Bits.reverse bits v : Int) ∧ fitsU bits (reverseBits v bits) ∧
      ∀ i, i < bits → testBit (reverseBits v bits) i = testBit v (bits - 1 - i) := by
  rw [reverseBits_eq]
  refine ⟨rfl, fitsU_reverse _ _, fun i hi => ?_⟩
  rw [testBit_reverse]; simp [hi]

/-- reversing twice is the identity on `bits`-bit values -/
theorem reverse_bits_involutive {bits : Nat} {v : Int} (hv : fitsU bits v) :
    reverseBits (reverseBits v bits) bits = v := by
  rw [reverseBits_eq, reverseBits_eq, reverse_reverse, wrapU_of_fitsU hv]

/-! ### two's-complement conversions -/

/-- `to_unsigned(v, bits) = v mod 2^bits` for every integer. -/
theorem to_unsigned_spec (v : Int) (bits : Nat) :
    toUnsigned v bits = wrapU bits v ∧ fitsU bits (toUnsigned v bits) ∧ (2 : Int) ^ bits ∣ toUnsigned v bits - v := by
  rw [toUnsigned_eq]
  exact ⟨rfl, fitsU_wrapU _ _, (wrapU_eq_iff bits _ _).1 (wrapU_idem bits v)⟩

/-- `to_signed(v, bits)` is the representative of `v mod 2^bits` in `[-2^(bits-1), 2^(bits-1))`,
    for every integer and every width ≥ 1. -/
theorem to_signed_spec {bits : Nat} (hb : 1 ≤ bits) (v : Int) :
    toSigned v bits = wrapS bits v ∧ fitsS bits (toSigned v bits) ∧ (2 : Int) ^ bits ∣ toSigned v bits - v := by
  rw [toSigned_eq hb]
  exact ⟨rfl, fitsS_wrapS hb _, wrapS_congr _ _⟩

/-- that representative is unique: the two conditions determine the result -/
theorem to_signed_unique {bits : Nat} (hb : 1 ≤ bits) (v y : Int) (hy : fitsS bits y)
    (hc : (2 : Int) ^ bits ∣ y - v) : y = toSigned v bits := by
  rw [toSigned_eq hb]; exact wrapS_unique hb hy hc

theorem correct_spec {bits : Nat} (hb : 1 ≤ bits) (v : Int) (signed : Bool) :
    correct v bits signed = if signed then wrapS bits v else wrapU bits v := by
  cases signed
  · exact toUnsigned_eq v bits
  · exact toSigned_eq hb v

/-- signed → unsigned → signed and unsigned → signed → unsigned are identities on their ranges -/
theorem signed_unsigned_roundtrip {bits : Nat} (hb : 1 ≤ bits) (v : Int) :
    (fitsS bits v → toSigned (toUnsigned v bits) bits = v) ∧
    (fitsU bits v → toUnsigned (toSigned v bits) bits = v) := by
  rw [toUnsigned_eq, toSigned_eq hb, toUnsigned_eq, toSigned_eq hb]
  exact ⟨wrapS_wrapU_of_fitsS hb, wrapU_wrapS_of_fitsU⟩

/-- `sign_extend(v, bits)` = the signed value of the low `bits` bits, for every integer. -/
theorem sign_extend_spec {bits : Nat} (hb : 1 ≤ bits) (v : Int) :
    signExtend v bits = .ok (wrapS bits v) := signExtend_eq hb v

/-! ### leading / trailing zeros, population count -/

/-- `clz(v, bits)` is the number of leading zeros of the `bits`-bit field of `v`
    (`IsClz`: the top `k` bits are clear and, unless `k = bits`, bit `bits-1-k` is set),
    for every integer `v` (negative = two's complement). -/
theorem clz_spec {bits : Nat} (hb : 1 ≤ bits) (v : Int) :
    ∃ k, Model.Bitfun.clz v bits = .ok k ∧ IsClz bits v k ∧ k = Spec.Bits.clz bits v :=
  ⟨_, clz_eq hb v, clz_isClz bits v, rfl⟩

/-- `ctz(v, bits)`: the low `k` bits are clear and, unless `k = bits`, bit `k` is set. -/
theorem ctz_spec (v : Int) (bits : Nat) : IsCtz bits v (Model.Bitfun.ctz v bits) ∧ Model.Bitfun.ctz v bits = Spec.Bits.ctz bits v := by
  rw [ctz_eq]; exact ⟨ctz_isCtz bits v, rfl⟩

/-- the counts are determined by those conditions -/
theorem clz_ctz_unique (bits : Nat) (v : Int) (k k' : Nat) :
    (IsClz bits v k → IsClz bits v k' → k = k') ∧ (IsCtz bits v k → IsCtz bits v k' → k = k') :=
  ⟨isClz_unique, isCtz_unique⟩

/-- `popcnt(v, bits)` = number of indices `i < bits` with bit `i` of `v` set. -/
theorem popcnt_spec (v : Int) (bits : Nat) :
    popcnt v bits = ((List.range bits).filter (testBit v)).length := popcnt_eq v bits

/-! ### ARM rotated immediate (after `fix: encode_imm32 accepted values of more than 32 bits`) -/

/-- Soundness: a returned field is 12 bits wide and denotes `v`: `ROR(e & 0xFF, 2 * (e >> 8)) = v`. -/
theorem encode_imm32_sound (v e : Int) (h : encodeImm32 v = .ok e) :
    0 ≤ e ∧ e < 4096 ∧ (Spec.ArmImm.decode e : Int) = v := by
  unfold encodeImm32 at h
  by_cases hv : 0 ≤ v ∧ v < 2 ^ 32
  · rw [if_neg (not_not.2 hv)] at h
    obtain ⟨j, _, hj, hlt, he, _⟩ := encLoop_ok hv 16 0 e rfl h
    subst he
    exact ⟨by omega, by omega, decode_pack hv hlt⟩
  · rw [if_pos hv] at h; cases h

/-- The encoder succeeds exactly for the representable values (every integer `v`). -/
theorem encode_imm32_succeeds_iff (v : Int) :
    (∃ e, encodeImm32 v = .ok e) ↔ Spec.ArmImm.Representable v := by
  constructor
  · rintro ⟨e, h⟩
    unfold encodeImm32 at h
    by_cases hv : 0 ≤ v ∧ v < 2 ^ 32
    · rw [if_neg (not_not.2 hv)] at h
      obtain ⟨j, _, hj, hlt, _, _⟩ := encLoop_ok hv 16 0 e rfl h
      exact (representable_iff v).2 ⟨hv, j, hj, hlt⟩
    · rw [if_pos hv] at h; cases h
  · intro hr
    obtain ⟨hv, j, hj, hlt⟩ := (representable_iff v).1 hr
    unfold encodeImm32
    rw [if_neg (show ¬¬(0 ≤ v ∧ v < 2 ^ 32) from not_not.2 hv)]
    cases hE : encLoop v 16 0 with
    | ok e => exact ⟨e, rfl⟩
    | error err => exact absurd hlt ((encLoop_err hv 16 0 err rfl hE).2 j (Nat.zero_le _) hj)

/-- Otherwise it raises ValueError and nothing else. -/
theorem encode_imm32_fails_iff (v : Int) :
    encodeImm32 v = .error .ValueError ↔ ¬ Spec.ArmImm.Representable v := by
  rw [← encode_imm32_succeeds_iff]
  constructor
  · rintro h ⟨e, he⟩; rw [h] at he; cases he
  · intro h
    cases hE : encodeImm32 v with
    | ok e => exact absurd ⟨e, hE⟩ h
    | error err =>
      unfold encodeImm32 at hE
      by_cases hv : 0 ≤ v ∧ v < 2 ^ 32
      · rw [if_neg (not_not.2 hv)] at hE
        rw [(encLoop_err hv 16 0 err rfl hE).1]
      · rw [if_pos hv] at hE; injection hE with hE; rw [hE]

/-- Among the fields denoting `v` the encoder returns the one with the smallest rotation. -/
theorem encode_imm32_smallest_rotation (v e : Int) (h : encodeImm32 v = .ok e) (rot imm8 : Nat)
    (hi : imm8 < 256) (_hr : rot < 16) (hd : (Spec.Bits.rotr 32 imm8 (2 * (rot : Int)) : Int) = v) :
    e / 256 ≤ rot := by
  unfold encodeImm32 at h
  by_cases hv : 0 ≤ v ∧ v < 2 ^ 32
  · rw [if_neg (not_not.2 hv)] at h
    obtain ⟨j, _, hj, hlt, he, hmin⟩ := encLoop_ok hv 16 0 e rfl h
    subst he
    have e2 : ((j : Int) * 256 + (Spec.Bits.rotl 32 v (2 * (j : Int)) : Int)) / 256 = (j : Int) := by omega
    rw [e2]
    by_cases hle : j ≤ rot
    · exact Int.ofNat_le.2 hle
    · exfalso
      apply hmin rot (Nat.zero_le _) (by omega)
      subst hd
      have := rotl_rotr (n := 32) (by decide) (imm8 : Int) (2 * (rot : Int))
      rw [wrapU_of_fitsU ⟨Int.natCast_nonneg _, by omega⟩] at this
      have h' : Spec.Bits.rotl 32 (↑(Spec.Bits.rotr 32 (↑imm8) (2 * ↑rot))) (2 * (rot : Int)) = imm8 :=
        Int.ofNat_inj.1 this
      omega
  · rw [if_pos hv] at h; cases h

/-- the executable test the harness uses as oracle decides `Representable` -/
theorem representableB_correct (v : Int) :
    Spec.ArmImm.representableB v = true ↔ Spec.ArmImm.Representable v := representableB_iff v

/-! ### the remaining integer helpers of bitfun.py -/

/-- `align(v, m)` is the least multiple of `m` that is `≥ v` (`m ≥ 1`). -/
theorem align_spec (v : Int) {m : Nat} (hm : 1 ≤ m) :
    ∃ r, align v m = .ok r ∧ (m : Int) ∣ r ∧ v ≤ r ∧ r < v + m := by
  refine ⟨_, align_eq v hm, ?_, ?_, ?_⟩
  · apply Int.dvd_of_emod_eq_zero
    rw [Int.add_emod, Int.emod_emod, ← Int.add_emod]
    simp
  · have := Int.emod_nonneg (-v) (show (m : Int) ≠ 0 by omega); omega
  · have := Int.emod_lt_of_pos (-v) (show (0 : Int) < m by omega); omega

/-- `wrap_negative(v, bits)` accepts exactly the union of the signed and the unsigned
    `bits`-bit ranges and returns the `bits`-bit pattern `v mod 2^bits`; otherwise ValueError. -/
theorem wrap_negative_spec {bits : Nat} (hb : 1 ≤ bits) (v : Int) :
    ((fitsS bits v ∨ fitsU bits v) → wrapNegative v bits = .ok (wrapU bits v)) ∧
    (¬ (fitsS bits v ∨ fitsU bits v) → wrapNegative v bits = .error .ValueError) :=
  ⟨wrapNegative_ok hb, wrapNegative_err hb⟩

/-- `inrange(v, bits)` decides membership of the signed `bits`-bit range. -/
theorem inrange_spec {bits : Nat} (hb : 1 ≤ bits) (v : Int) :
    inrange v bits = .ok (decide (fitsS bits v)) := inrange_eq hb v

/-- `value_to_bytes_big_endian(v, size)` = the `size` low bytes of `v`, most significant
    first; they denote `v mod 2^(8·size)`. -/
theorem value_to_bytes_big_endian_spec (v : Int) (size : Nat) :
    valueToBytesBigEndian v size = toBytesBE size v := valueToBytesBigEndian_eq v size

/-- `value_to_bits(v, bits)` lists bits `0 … bits-1` of `v`. -/
theorem value_to_bits_spec (v : Int) (bits : Nat) :
    valueToBits v bits = (List.range bits).map (testBit v) := valueToBits_eq v bits

/-! ### non-vacuity, concrete instances, and the recorded negation witnesses -/

-- the docstring example of reverse_bits, on the fixed code and on the specification
example : reverseBits 0b11100001 8 = 0b10000111 ∧ Spec.Bits.reverse 8 0b11100001 = 0b10000111 := by decide
-- the code at the pinned commit dropped the top bit (defect, fixed):
example : reverseBitsPinned 0b11100001 8 = 0b10000110 := by decide
example : reverseBitsPinned 0b11100001 8 ≠ (Spec.Bits.reverse 8 0b11100001 : Int) := by decide
-- the code at the pinned commit accepted a 33-bit value as the immediate 1 (defect, fixed):
example : encodeImm32Pinned (2 ^ 32 + 1) = .ok 1 ∧ Spec.ArmImm.representableB (2 ^ 32 + 1) = false := by decide
example : encodeImm32 (2 ^ 32 + 1) = .error .ValueError := by decide
-- hypotheses are satisfiable by non-trivial inputs
example : fitsU 8 0x81 ∧ Model.Bitfun.rotl 0x81 (-3) 8 = .ok 0x30 ∧ Model.Bitfun.rotr 0x30 (-3) 8 = .ok 0x81 := by decide
example : fitsU 32 0x80000001 ∧ rotateLeft 0x80000001 4 = .ok 0x18 ∧ rotateRight 0x18 4 = .ok 0x80000001 := by decide
example : toSigned 0xFF 8 = -1 ∧ toUnsigned (-1) 8 = 0xFF ∧ signExtend 0x17F 8 = .ok 127 := by decide
example : Model.Bitfun.clz (-1) 32 = .ok 0 ∧ Model.Bitfun.clz 1 32 = .ok 31 ∧ Model.Bitfun.ctz (-8) 32 = 3 ∧ popcnt (-1) 64 = 64 := by decide
example : encodeImm32 0xFF000000 = .ok 0x4FF ∧ Spec.ArmImm.decode 0x4FF = 0xFF000000 := by decide
example : encodeImm32 0x101 = .error .ValueError ∧ Spec.ArmImm.representableB 0x101 = false := by decide
example : align 13 8 = .ok 16 ∧ wrapNegative (-1) 8 = .ok 255 ∧ inrange 128 8 = .ok false := by decide
example : valueToBytesBigEndian 0x1234 4 = [0, 0, 0x12, 0x34] := by decide

/-! ### T1 translation tie: the functions REGENERATED from `ppci/utils/bitfun.py`

`Gen.Py_bitfun.*` is written by `translate/py2lean.py` from the source text of the checked tree on
every run.  `gen_*_eq_model`: for every value / count (any integer), every width (`Nat`, as in the
hand model) and every `fuel` above the stated bound, the regenerated function IS the hand model
(errors included; `FuelExhausted` never returned, i.e. the loops terminate).  Then the statement's
helpers are restated directly about the regenerated functions. -/
section T1
open Proofs.T1.Bitfun Model.PyRt

theorem gen_rotate_right_eq_model (fuel : Nat) (v n : Int) (hn : 0 ≤ n) :
    Gen.Py_bitfun.rotate_right fuel v n = liftI (rotateRight v n) := Proofs.T1.Bitfun.gen_rotate_right_eq_model fuel v n hn
theorem gen_rotate_left_eq_model (fuel : Nat) (v n : Int) :
    Gen.Py_bitfun.rotate_left fuel v n = liftI (rotateLeft v n) := Proofs.T1.Bitfun.gen_rotate_left_eq_model fuel v n
theorem gen_rotl_eq_model (fuel : Nat) (v count : Int) (bits : Nat) :
    Gen.Py_bitfun.rotl fuel v count (bits : Int) = liftI (Model.Bitfun.rotl v count bits) := Proofs.T1.Bitfun.gen_rotl_eq_model fuel v count bits
theorem gen_rotr_eq_model (fuel : Nat) (v count : Int) (bits : Nat) :
    Gen.Py_bitfun.rotr fuel v count (bits : Int) = liftI (Model.Bitfun.rotr v count bits) := Proofs.T1.Bitfun.gen_rotr_eq_model fuel v count bits
theorem gen_reverse_bits_eq_model (fuel : Nat) (v : Int) (bits : Nat) (hf : bits + 1 ≤ fuel) :
    Gen.Py_bitfun.reverse_bits fuel v (bits : Int) = .ok (reverseBits v bits) := Proofs.T1.Bitfun.gen_reverse_bits_eq_model fuel v bits hf
theorem gen_correct_eq_model (fuel : Nat) (value : Int) (bits : Nat) (signed : Bool) :
    Gen.Py_bitfun.correct fuel value (bits : Int) (Model.PyRt.ofBool signed) = .ok (Model.Bitfun.correct value bits signed) :=
  Proofs.T1.Bitfun.gen_correct_eq_model fuel value bits signed
theorem gen_to_signed_eq_model (fuel : Nat) (value : Int) (bits : Nat) :
    Gen.Py_bitfun.to_signed fuel value (bits : Int) = .ok (toSigned value bits) := Proofs.T1.Bitfun.gen_to_signed_eq_model fuel value bits
theorem gen_to_unsigned_eq_model (fuel : Nat) (value : Int) (bits : Nat) :
    Gen.Py_bitfun.to_unsigned fuel value (bits : Int) = .ok (toUnsigned value bits) := Proofs.T1.Bitfun.gen_to_unsigned_eq_model fuel value bits
theorem gen_sign_extend_eq_model (fuel : Nat) (value : Int) (bits : Nat) :
    Gen.Py_bitfun.sign_extend fuel value (bits : Int) = liftI (signExtend value bits) := Proofs.T1.Bitfun.gen_sign_extend_eq_model fuel value bits
theorem gen_clz_eq_model (fuel : Nat) (v : Int) (bits : Nat) (hf : bits + 1 ≤ fuel) :
    Gen.Py_bitfun.clz fuel v (bits : Int) = liftN (Model.Bitfun.clz v bits) := Proofs.T1.Bitfun.gen_clz_eq_model fuel v bits hf
theorem gen_ctz_eq_model (fuel : Nat) (v : Int) (bits : Nat) (hf : bits + 1 ≤ fuel) :
    Gen.Py_bitfun.ctz fuel v (bits : Int) = .ok ((Model.Bitfun.ctz v bits : Nat) : Int) := Proofs.T1.Bitfun.gen_ctz_eq_model fuel v bits hf
theorem gen_popcnt_eq_model (fuel : Nat) (v : Int) (bits : Nat) (hf : bits + 1 ≤ fuel) :
    Gen.Py_bitfun.popcnt fuel v (bits : Int) = .ok ((Model.Bitfun.popcnt v bits : Nat) : Int) := Proofs.T1.Bitfun.gen_popcnt_eq_model fuel v bits hf
theorem gen_encode_imm32_eq_model (fuel : Nat) (v : Int) (hf : 17 ≤ fuel) :
    Gen.Py_bitfun.encode_imm32 fuel v = liftI (encodeImm32 v) := Proofs.T1.Bitfun.gen_encode_imm32_eq_model fuel v hf
theorem gen_align_eq_model (fuel : Nat) (value : Int) (m : Nat) (hf : m + 1 ≤ fuel) :
    Gen.Py_bitfun.align fuel value (m : Int) = liftI (Model.Bitfun.align value m) := Proofs.T1.Bitfun.gen_align_eq_model fuel value m hf
theorem gen_wrap_negative_eq_model (fuel : Nat) (value : Int) (bits : Nat) :
    Gen.Py_bitfun.wrap_negative fuel value (bits : Int) = liftI (wrapNegative value bits) := Proofs.T1.Bitfun.gen_wrap_negative_eq_model fuel value bits
theorem gen_inrange_eq_model (fuel : Nat) (value : Int) (bits : Nat) :
    Gen.Py_bitfun.inrange fuel value (bits : Int) = liftB (Model.Bitfun.inrange value bits) := Proofs.T1.Bitfun.gen_inrange_eq_model fuel value bits

/-! the statement's helpers, about the regenerated functions -/

theorem gen_rotl_spec {bits : Nat} (hb : 1 ≤ bits) {v : Int} (hv : fitsU bits v) (count : Int) (fuel : Nat) :
    Gen.Py_bitfun.rotl fuel v count (bits : Int) = .ok (Spec.Bits.rotl bits v count : Int) := by
  rw [gen_rotl_eq_model, rotl_eq hb hv count]; rfl

theorem gen_rotr_spec {bits : Nat} (hb : 1 ≤ bits) {v : Int} (hv : fitsU bits v) (count : Int) (fuel : Nat) :
    Gen.Py_bitfun.rotr fuel v count (bits : Int) = .ok (Spec.Bits.rotr bits v count : Int) := by
  rw [gen_rotr_eq_model, rotr_eq hb hv count]; rfl

theorem gen_rotate_right_spec {v n : Int} (hv : fitsU 32 v) (h0 : 0 ≤ n) (h1 : n ≤ 32) (fuel : Nat) :
    Gen.Py_bitfun.rotate_right fuel v n = .ok (Spec.Bits.rotr 32 v n : Int) := by
  rw [gen_rotate_right_eq_model fuel v n h0, rotate_right_spec hv h0 h1]; rfl

theorem gen_rotate_left_spec {v n : Int} (hv : fitsU 32 v) (h0 : 0 ≤ n) (h1 : n < 32) (fuel : Nat) :
    Gen.Py_bitfun.rotate_left fuel v n = .ok (Spec.Bits.rotl 32 v n : Int) := by
  rw [gen_rotate_left_eq_model, rotate_left_spec hv h0 h1]; rfl

theorem gen_reverse_bits_spec (v : Int) (bits : Nat) (fuel : Nat) (hf : bits + 1 ≤ fuel) :
    Gen.Py_bitfun.reverse_bits fuel v (bits : Int) = .ok (Spec.Bits.reverse bits v : Int) := by
  rw [gen_reverse_bits_eq_model fuel v bits hf, (reverse_bits_spec v bits).1]

theorem gen_to_unsigned_spec (v : Int) (bits : Nat) (fuel : Nat) :
    Gen.Py_bitfun.to_unsigned fuel v (bits : Int) = .ok (wrapU bits v) := by
  rw [gen_to_unsigned_eq_model, (to_unsigned_spec v bits).1]

theorem gen_to_signed_spec {bits : Nat} (hb : 1 ≤ bits) (v : Int) (fuel : Nat) :
    Gen.Py_bitfun.to_signed fuel v (bits : Int) = .ok (wrapS bits v) := by
  rw [gen_to_signed_eq_model, (to_signed_spec hb v).1]

theorem gen_correct_spec {bits : Nat} (hb : 1 ≤ bits) (v : Int) (signed : Bool) (fuel : Nat) :
    Gen.Py_bitfun.correct fuel v (bits : Int) (Model.PyRt.ofBool signed) = .ok (if signed then wrapS bits v else wrapU bits v) := by
  rw [gen_correct_eq_model, correct_spec hb v signed]

theorem gen_sign_extend_spec {bits : Nat} (hb : 1 ≤ bits) (v : Int) (fuel : Nat) :
    Gen.Py_bitfun.sign_extend fuel v (bits : Int) = .ok (wrapS bits v) := by
  rw [gen_sign_extend_eq_model, sign_extend_spec hb v]; rfl

theorem gen_clz_spec {bits : Nat} (hb : 1 ≤ bits) (v : Int) (fuel : Nat) (hf : bits + 1 ≤ fuel) :
    ∃ k : Nat, Gen.Py_bitfun.clz fuel v (bits : Int) = .ok (k : Int) ∧ IsClz bits v k := by
  obtain ⟨k, h, hk, _⟩ := clz_spec hb v
  exact ⟨k, by rw [gen_clz_eq_model fuel v bits hf, h]; rfl, hk⟩

theorem gen_ctz_spec (v : Int) (bits : Nat) (fuel : Nat) (hf : bits + 1 ≤ fuel) :
    ∃ k : Nat, Gen.Py_bitfun.ctz fuel v (bits : Int) = .ok (k : Int) ∧ IsCtz bits v k :=
  ⟨_, gen_ctz_eq_model fuel v bits hf, (ctz_spec v bits).1⟩

theorem gen_popcnt_spec (v : Int) (bits : Nat) (fuel : Nat) (hf : bits + 1 ≤ fuel) :
    Gen.Py_bitfun.popcnt fuel v (bits : Int) = .ok ((((List.range bits).filter (testBit v)).length : Nat) : Int) := by
  rw [gen_popcnt_eq_model fuel v bits hf, popcnt_spec]

theorem gen_encode_imm32_sound (v e : Int) (fuel : Nat) (hf : 17 ≤ fuel) (h : Gen.Py_bitfun.encode_imm32 fuel v = .ok e) :
    0 ≤ e ∧ e < 4096 ∧ (Spec.ArmImm.decode e : Int) = v := by
  rw [gen_encode_imm32_eq_model fuel v hf] at h
  cases hm : encodeImm32 v with
  | ok e' => rw [hm] at h; cases h; exact encode_imm32_sound v e hm
  | error x => rw [hm] at h; cases h

theorem gen_encode_imm32_succeeds_iff (v : Int) (fuel : Nat) (hf : 17 ≤ fuel) :
    (∃ e, Gen.Py_bitfun.encode_imm32 fuel v = .ok e) ↔ Spec.ArmImm.Representable v := by
  rw [← encode_imm32_succeeds_iff, gen_encode_imm32_eq_model fuel v hf]
  cases encodeImm32 v with
  | ok e' => exact ⟨fun _ => ⟨e', rfl⟩, fun _ => ⟨e', rfl⟩⟩
  | error x => exact ⟨fun ⟨e, h⟩ => (by cases h), fun ⟨e, h⟩ => (by cases h)⟩

theorem gen_encode_imm32_fails_iff (v : Int) (fuel : Nat) (hf : 17 ≤ fuel) :
    Gen.Py_bitfun.encode_imm32 fuel v = .error .ValueError ↔ ¬ Spec.ArmImm.Representable v := by
  rw [← encode_imm32_fails_iff, gen_encode_imm32_eq_model fuel v hf]
  cases encodeImm32 v with
  | ok e' => exact ⟨fun h => (by cases h), fun h => (by cases h)⟩
  | error x => cases x <;> simp [liftI, errOf]

theorem gen_align_spec (v : Int) {m : Nat} (hm : 1 ≤ m) (fuel : Nat) (hf : m + 1 ≤ fuel) :
    ∃ r, Gen.Py_bitfun.align fuel v (m : Int) = .ok r ∧ (m : Int) ∣ r ∧ v ≤ r ∧ r < v + m := by
  obtain ⟨r, h, hr⟩ := align_spec v hm
  exact ⟨r, by rw [gen_align_eq_model fuel v m hf, h]; rfl, hr⟩

theorem gen_wrap_negative_spec {bits : Nat} (hb : 1 ≤ bits) (v : Int) (fuel : Nat) :
    ((fitsS bits v ∨ fitsU bits v) → Gen.Py_bitfun.wrap_negative fuel v (bits : Int) = .ok (wrapU bits v)) ∧
    (¬ (fitsS bits v ∨ fitsU bits v) → Gen.Py_bitfun.wrap_negative fuel v (bits : Int) = .error .ValueError) := by
  rw [gen_wrap_negative_eq_model]
  exact ⟨fun h => by rw [(wrap_negative_spec hb v).1 h]; rfl, fun h => by rw [(wrap_negative_spec hb v).2 h]; rfl⟩

theorem gen_inrange_spec {bits : Nat} (hb : 1 ≤ bits) (v : Int) (fuel : Nat) :
    Gen.Py_bitfun.inrange fuel v (bits : Int) = .ok (decide (fitsS bits v)) := by
  rw [gen_inrange_eq_model, inrange_spec hb v]; rfl

example : Gen.Py_bitfun.reverse_bits 9 0b11100001 8 = .ok 0b10000111 := by decide +kernel
example : Gen.Py_bitfun.encode_imm32 17 0xFF000000 = .ok 0x4FF ∧ Gen.Py_bitfun.encode_imm32 17 0x101 = .error .ValueError := by decide +kernel
example : Gen.Py_bitfun.clz 33 1 32 = .ok 31 ∧ Gen.Py_bitfun.clz 31 1 32 = .error .FuelExhausted := by decide +kernel

end T1

end Props.C39
