import PpciVerif.Spec.PPInt
import PpciVerif.Model.PPExpr
import PpciVerif.Gen.PPExpr
import PpciVerif.Proofs.PPParse
/-!
# C26 — C preprocessor: `#if` expressions  (PARTIAL)

Property theorems only.  `Spec.PPInt` is the specification (C11 6.10.1: `intmax_t`/`uintmax_t`
values, the expression grammar with its precedence levels); `Model.PPExpr` is the hand model of
`CPreProcessor.parse_expression/_binop_take/_eval_tree/OP_MAP` after the `fix:` commits listed in
findings/C26.json.  Helper lemmas are in `Proofs/PPExpr.lean` and `Proofs/PPParse.lean`.

What is NOT shown: unsigned (`uintmax_t`) arithmetic — false for the code, see `eval_agrees_full`
and the witnesses below; macro expansion, `defined`, the lexer, character constants (no model).
-/
namespace Props.C26
open Model.PPExpr
open Spec.PPInt (Sym Tok Tree PTree UnOp BinOp Deriv yield erase)

/-- Python name of each `OP_MAP` function as `module.__name__` -/
def OpFn.pyName : OpFn → String
  | .mul => "operator.mul" | .intDiv => "ppci.lang.c.eval.int_div" | .intRem => "ppci.lang.c.eval.int_rem"
  | .add => "operator.add" | .sub => "operator.sub" | .lshift => "operator.lshift" | .rshift => "operator.rshift"
  | .and_ => "operator.and_" | .xor => "operator.xor" | .or_ => "operator.or_"
  | _ => "ppci.lang.c.preprocessor.<lambda>"

/-- `OP_MAP` of the checked tree is the model's table: same spellings in the same order, priorities,
    associativity, and every function behaves like the model's on the probe operands (the lambdas are
    identified by behaviour, the named functions also by name). -/
theorem op_map_matches_source :
    Gen.PPExpr.probes = probes ∧ Gen.PPExpr.probesNeg = probesNeg ∧
    Gen.PPExpr.opMap = opMap.map (fun e =>
      (Sym.str e.1, e.2.1, e.2.2.1,
        (match e.2.2.2 with | some f => OpFn.pyName f | none => "None"),
        (match e.2.2.2 with | some f => f.probe | none => []))) := by
  decide +kernel

/-! ### parsing: full -/

/-- **The parsed tree is the tree of C's grammar.**  For every derivation tree `t` of a
    conditional-expression of the `#if` language (any size; `yield t` ranges over ALL sentences of the
    language), `parse_expression(0)` on the token line `yield t` consumes the whole line and returns the
    abstract tree of `t` (parentheses dropped; unary `+` builds no node), with the fuel `#if` supplies. -/
theorem parse_builds_C_tree (t : PTree) (d : Deriv 1 t) :
    parseExpr (2 * (yield t).length + 2) 0 (yield t) = .ok (ofTree (erase t), []) :=
  Proofs.PPExpr.parse_sentence d

/-- the result does not depend on the fuel once it suffices (the Python code has no such bound) -/
theorem parse_fuel_irrelevant (t : PTree) (d : Deriv 1 t) (fuel : Nat) (h : 2 * (yield t).length + 2 ≤ fuel) :
    parseExpr fuel 0 (yield t) = .ok (ofTree (erase t), []) :=
  Proofs.PPExpr.parseExpr_mono (Proofs.PPExpr.parse_sentence d) h

/-! ### evaluation: partial -/

/-- the full statement: the evaluator computes the value C prescribes for every tree.  **False for the
    code** (no `uintmax_t` arithmetic): see `eval_full_fails`. -/
def eval_agrees_full : Prop :=
  ∀ (T : Tree) (x : Spec.PPInt.Val), Spec.PPInt.eval T = some x → evalTree (ofTree T) = .ok x.v

/-- **Evaluation on the signed fragment.**  Guard: no constant of the tree is unsigned (no `u` suffix, value
    ≤ INTMAX_MAX).  Then whenever C defines the value (truncating `/ %`, no overflow, shift counts in range)
    it is a signed value and `_eval_tree` returns exactly it. -/
theorem eval_agrees_partial (T : Tree) (hs : Proofs.PPExpr.SignedOnly T) (x : Spec.PPInt.Val)
    (h : Spec.PPInt.eval T = some x) : x.u = false ∧ evalTree (ofTree T) = .ok x.v :=
  let ⟨h1, _, h3⟩ := Proofs.PPExpr.eval_signed T hs x h
  ⟨h1, h3⟩

/-- **The kept group.**  For every sentence of the grammar on the signed fragment: `#if <line>` keeps its
    group iff C says the value is non-zero (parsing and evaluation composed, as `handle_if_directive` does). -/
theorem if_group_partial (t : PTree) (d : Deriv 1 t) (hs : Proofs.PPExpr.SignedOnly (erase t)) (b : Bool)
    (h : Spec.PPInt.taken (erase t) = some b) : evalIf (yield t) = .ok b :=
  Proofs.PPExpr.evalIf_signed d hs h

/-! ### witnesses and non-vacuity (tests, labelled as such) -/

section examples
private def n (v : Nat) : Tree := .num v false true
private def nu (v : Nat) : Tree := .num v true true

/-- `eval_agrees_full` is false: `-1 < 0u` is 0 in C (−1 converts to UINTMAX_MAX), the code computes 1 -/
theorem eval_full_fails : ¬ eval_agrees_full := by
  intro h
  have := h (.bin .lt (.un .neg (n 1)) (nu 0)) ⟨0, false⟩ (by decide +kernel)
  revert this; decide +kernel

-- more negation witnesses: `0u - 1` is UINTMAX_MAX (code: -1); `~0u` (code: -1); constants above INTMAX_MAX
example : Spec.PPInt.eval (.bin .sub (nu 0) (n 1)) = some ⟨18446744073709551615, true⟩ ∧
    evalTree (ofTree (.bin .sub (nu 0) (n 1))) = .ok (-1) := by decide +kernel
example : Spec.PPInt.eval (.bin .gt (.bin .sub (nu 0) (n 1)) (n 0)) = some ⟨1, false⟩ ∧
    evalTree (ofTree (.bin .gt (.bin .sub (nu 0) (n 1)) (n 0))) = .ok 0 := by decide +kernel
example : Spec.PPInt.eval (.bin .eq (.bin .add (.num 0xffffffffffffffff false false) (n 1)) (n 0)) = some ⟨1, false⟩ ∧
    evalTree (ofTree (.bin .eq (.bin .add (.num 0xffffffffffffffff false false) (n 1)) (n 0))) = .ok 0 := by
  decide +kernel
-- the excluded region is exactly where the guard fails
example : ¬ Proofs.PPExpr.SignedOnly (.bin .lt (.un .neg (n 1)) (nu 0)) := by decide
-- the guard is satisfiable by non-trivial trees, and the theorems apply to them
example : Proofs.PPExpr.SignedOnly (.bin .eq (.bin .div (.un .neg (n 7)) (n 2)) (.un .neg (n 3))) := by decide
example : Spec.PPInt.eval (.bin .eq (.bin .div (.un .neg (n 7)) (n 2)) (.un .neg (n 3))) = some ⟨1, false⟩ := by
  decide +kernel
example : Spec.PPInt.eval (.bin .mod (.un .neg (n 7)) (n 2)) = some ⟨-1, false⟩ := by decide +kernel
-- `1 + 2 * 3 - 4` : a sentence, its derivation and the tree C prescribes
private def s1 : PTree := .bin .sub (.bin .add (.num 1 false true) (.bin .mul (.num 2 false true) (.num 3 false true)))
  (.num 4 false true)
example : Deriv 1 s1 := by
  have n12 : ∀ v, Deriv 12 (.num v false true) := fun v => .num v false true
  have l11 : ∀ v, Deriv 11 (.num v false true) := fun v => .up (n12 v)
  have m : Deriv 11 (.bin .mul (.num 2 false true) (.num 3 false true)) := Deriv.bin .mul (l11 2) (n12 3)
  have a : Deriv 10 (.bin .add (.num 1 false true) (.bin .mul (.num 2 false true) (.num 3 false true))) :=
    Deriv.bin .add (.up (l11 1)) m
  have s : Deriv 10 s1 := Deriv.bin .sub a (l11 4)
  exact .up (.up (.up (.up (.up (.up (.up (.up (.up s))))))))
example : parseExpr 16 0 (yield s1) =
    .ok (.bin .minus (.bin .plus (.num 1) (.bin .star (.num 2) (.num 3))) (.num 4), []) := by decide +kernel
-- pre-fix behaviour (2f4b2ca): `-7 / 2` was Python floor division, -4; C prescribes -3
example : Int.fdiv (-7) 2 = -4 ∧ Spec.PPInt.eval (.bin .div (.un .neg (n 7)) (n 2)) = some ⟨-3, false⟩ := by
  decide +kernel
-- undefined in C: no value, the model reports a diagnostic (448e2cd) instead of ZeroDivisionError
example : Spec.PPInt.eval (.bin .div (n 1) (n 0)) = none ∧
    evalTree (ofTree (.bin .div (n 1) (n 0))) = .error .CompilerError := by decide +kernel
end examples

end Props.C26
