import PpciVerif.Spec.PPInt
import PpciVerif.Model.PPExpr
import PpciVerif.Gen.PPExpr
/-!
# C26 — `#if` expressions (work in progress: table translation)
-/
namespace Props.C26
open Model.PPExpr
open Spec.PPInt (Sym)

/-- Python name of each `OP_MAP` function as `module.__name__` -/
def OpFn.pyName : OpFn → String
  | .mul => "operator.mul" | .intDiv => "ppci.lang.c.eval.int_div" | .intRem => "ppci.lang.c.eval.int_rem"
  | .add => "operator.add" | .sub => "operator.sub" | .lshift => "operator.lshift" | .rshift => "operator.rshift"
  | .and_ => "operator.and_" | .xor => "operator.xor" | .or_ => "operator.or_"
  | _ => "ppci.lang.c.preprocessor.<lambda>"

/-- `OP_MAP` of the checked tree is the model's table: same spellings in the same order, priorities,
    associativity, and every function behaves like the model's on the probe operands (the lambdas are
    identified by behaviour, the named functions also by name). -/
theorem op_map_matches_source :
    Gen.PPExpr.probes = probes ∧ Gen.PPExpr.probesNeg = probesNeg ∧
    Gen.PPExpr.opMap = opMap.map (fun e =>
      (Sym.str e.1, e.2.1, e.2.2.1,
        (match e.2.2.2 with | some f => OpFn.pyName f | none => "None"),
        (match e.2.2.2 with | some f => f.probe | none => []))) := by
  decide +kernel

end Props.C26
