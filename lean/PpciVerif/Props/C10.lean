import PpciVerif.Model.Token
import PpciVerif.Model.Encode
import PpciVerif.Model.Reloc
import PpciVerif.Spec.Field
import PpciVerif.Spec.RelocSem
import PpciVerif.Gen.Tokens
import PpciVerif.Gen.Instrs
import PpciVerif.Proofs.Token
import PpciVerif.Proofs.Encode
import PpciVerif.Proofs.Reloc
import PpciVerif.Proofs.RelocRv2
import PpciVerif.Proofs.RelocX86
import PpciVerif.Proofs.RelocThumb
/-!
# C10 — out-of-range operands are rejected, never silently truncated

Property theorems only.  Models: `Model.Token` (token.py), `Model.Encode` (declarative
`Instruction.encode`), `Model.Reloc` (relocation `calc`/`apply`); specifications: `Spec.Field`
(declared signedness ↦ representable range and read-back), `Spec.RelocSem` (ISA-manual decoders);
tables: `Gen.Tokens`, `Gen.Instrs` (regenerated from the live classes on every run).

Shape: P.  The code accepts more than fits (every plain field takes `[-2^w, 2^w)`, `bit_concat`
takes everything, several relocations take the unsigned AND the signed range), so the "is rejected"
half of the property is false; it is stated as `…_full : Prop`, its negation is PROVED
(`field_rejects_full_false`, witnesses below), and what does hold is proved as `…_partial` under the
explicit guard `fits` / `fitsS`.  The "decodes to the operand" half is proved exactly:
accepted ⇒ (reads back as `v` ⇔ `v` fits), so the accepted-but-not-fitting region IS the
silent-corruption region.
-/
namespace Props.C10
open Model.Tables Model.Token Model.Encode Model.Reloc Spec.Field Spec.RelocSem
open Proofs.Token Proofs.Encode Proofs.Reloc

/-! ## (1) token fields -/

/-- every token class of every ISA (live tables) is well formed: sizes are whole bytes, every field part is a
    non-empty range inside the token, parts of a `bit_concat` do not overlap -/
theorem tokens_wellformed : Gen.Tokens.all.all (fun p => p.2.all wfToken) = true := by decide +kernel

/-- EXACT acceptance region of the field setter as it is: a plain `bit_range` field of width `w` accepts
    precisely `[-2^w, 2^w)` — whatever its declared signedness —, a `bit_concat` field accepts every integer. -/
theorem field_accept_exact {size : Nat} {f : FieldDesc} (h : wfField size f = true) (bv : Nat) (v : Int) :
    (∃ r, setField size f bv v = .ok r) ↔ (f.concat = true ∨ (-(2 ^ width f) ≤ v ∧ v < 2 ^ width f)) := by
  have hW := wf_of_wfField h
  cases hc : f.concat with
  | true => simp [setField_concat_ok hW hc bv v]
  | false => simp [setField_range_ok_iff hW hc bv v]

/-- what an accepted write stores: the field reads `v mod 2^w` afterwards and no other bit of the token changes -/
theorem field_stores_mod {size : Nat} {f : FieldDesc} (h : wfField size f = true) {bv : Nat} {v : Int} {r : Nat}
    (hr : setField size f bv v = .ok r) :
    (∃ raw, getField f r = .ok raw ∧ (raw : Int) = v % 2 ^ width f)
    ∧ ∀ i, i < size → (∀ p ∈ f.parts, ¬ (p.1 ≤ i ∧ i < p.2)) → r.testBit i = bv.testBit i := by
  have hs := setField_spec (wf_of_wfField h) hr
  exact ⟨⟨_, hs.1, stored_cast _ _⟩, fun i hi ho => hs.2 i hi (fun p hp => ho p hp)⟩

/-- THE CORE OF C10 FOR FIELDS: whenever a value is accepted, decoding the stored bits under the field's
    declaration yields exactly the operand IF AND ONLY IF the operand fits the field. -/
theorem field_decode_iff {size : Nat} {f : FieldDesc} (h : wfField size f = true) {bv : Nat} {v : Int} {r : Nat}
    (hr : setField size f bv v = .ok r) :
    ∃ raw, getField f r = .ok raw ∧ (decode f.signed (width f) raw = v ↔ fits f.signed (width f) v) := by
  have hW := wf_of_wfField h
  refine ⟨_, (setField_spec hW hr).1, ?_⟩
  rw [stored_cast]
  exact decode_stored_iff f.signed (width_pos hW) v

/-- fitting values (negative ones in signed fields included) are accepted and decode to themselves -/
theorem field_roundtrip_partial {size : Nat} {f : FieldDesc} (h : wfField size f = true) (bv : Nat) (v : Int)
    (hfit : fits f.signed (width f) v) :
    ∃ r raw, setField size f bv v = .ok r ∧ getField f r = .ok raw ∧ decode f.signed (width f) raw = v := by
  have hW := wf_of_wfField h
  have hw := width_pos hW
  have hacc : ∃ r, setField size f bv v = .ok r := by
    rw [field_accept_exact h]
    have hp := two_pow_pos_int (width f - 1)
    have he := pow_pred_int hw
    cases hs : f.signed <;> simp only [fits, hs, Spec.Bits.fitsS, Spec.Bits.fitsU, if_true, Bool.false_eq_true, if_false] at hfit
    · right; omega
    · right; omega
  obtain ⟨r, hr⟩ := hacc
  obtain ⟨raw, h1, h2⟩ := field_decode_iff h hr
  exact ⟨r, raw, hr, h1, h2.mpr hfit⟩

/-- the part of "does not fit ⇒ error" that the code does satisfy: a plain field rejects everything
    outside `[-2^w, 2^w)` -/
theorem field_rejects_partial {size : Nat} {f : FieldDesc} (h : wfField size f = true) (hc : f.concat = false)
    (bv : Nat) (v : Int) (hout : v < -(2 ^ width f) ∨ 2 ^ width f ≤ v) : ∃ e, setField size f bv v = .error e := by
  cases hr : setField size f bv v with
  | error e => exact ⟨e, rfl⟩
  | ok r =>
    have := (field_accept_exact h bv v).mp ⟨r, hr⟩
    rw [hc] at this
    simp only [Bool.false_eq_true, false_or] at this
    omega

/-- the full statement of the property for fields — NOT true of the code -/
def field_rejects_full : Prop :=
  ∀ (size : Nat) (f : FieldDesc) (bv : Nat) (v : Int), wfField size f = true →
    ¬ fits f.signed (width f) v → ∃ e, setField size f bv v = .error e

/-- `RiscvIToken.imm` (a row of the live table) -/
def rvImm : FieldDesc := ⟨"imm", false, [(20, 32)], false⟩

/-- Lean-proved negation: `RiscvIToken().imm = -4096` is accepted (and stored as 0) -/
theorem field_rejects_full_false : ¬ field_rejects_full := by
  intro h
  obtain ⟨e, he⟩ := h 32 rvImm 0 (-4096) (by decide) (by decide)
  have : setField 32 rvImm 0 (-4096) = .ok 0 := by decide
  rw [this] at he
  cases he

/-! witnesses (replayed on the real classes by harness/c10.py) -/
example : findField (Gen.Tokens.riscvTokens.find? (·.name == "RiscvIToken")).get! "imm" = some rvImm := by decide
example : setField 32 rvImm 0 (-4096) = .ok 0 ∧ getField rvImm 0 = .ok 0 := by decide          -- -4096 stored as 0
example : setField 32 rvImm 0 4095 = .ok 4293918720 ∧ Spec.Bits.wrapS 12 4095 = -1 := by decide   -- 4095 reads as -1 if taken as signed
example : setField 32 riscvSB_imm 0 (4096 + 5) = setField 32 riscvSB_imm 0 5 := by decide       -- bit_concat truncates
example : ¬ fits false 12 (-4096) ∧ fits true 12 (-2048) ∧ ¬ fits true 12 2048 := by decide       -- non-vacuity of the guards

/-- the field descriptions used by the relocation models ARE the rows of the live token tables -/
theorem reloc_fields_match_tables :
    (findToken Gen.Tokens.riscvTokens "RiscvSBToken").bind (findField · "imm") = some riscvSB_imm
    ∧ (findToken Gen.Tokens.riscvTokens "RiscvIToken").bind (findField · "imm") = some riscvI_imm
    ∧ (findToken Gen.Tokens.armTokens "ArmToken").bind (findField · "imm24") = some arm_imm24
    ∧ (findToken Gen.Tokens.armTokens "ArmToken").bind (findField · "imm8") = some arm_imm8
    ∧ (findToken Gen.Tokens.x86_64Tokens "Imm32Token").bind (findField · "disp32") = some x86_disp32
    ∧ (findToken Gen.Tokens.x86_64Tokens "Imm8Token").bind (findField · "disp8") = some x86_disp8
    ∧ (findToken Gen.Tokens.x86_64Tokens "Imm64Token").bind (findField · "disp64") = some x86_disp64
    ∧ (findToken Gen.Tokens.miscTokens "WordToken").bind (findField · "value") = some (data_value 16)
    ∧ (findToken Gen.Tokens.miscTokens "DwordToken").bind (findField · "value") = some (data_value 32)
    ∧ (findToken Gen.Tokens.miscTokens "QwordToken").bind (findField · "value") = some (data_value 64) := by
  decide +kernel

/-- the fields DECLARED signed in the live tables (all others are declared unsigned); the field theorems
    above are instantiated with these declarations, so a flipped flag is a changed statement -/
def signedFields (tabs : List (String × List TokenDesc)) : List (String × String × String) :=
  tabs.flatMap (fun (isa, ts) => ts.flatMap (fun t => (t.fields.filter (·.signed)).map (fun f => (isa, t.name, f.name))))

theorem signed_fields_pinned :
    signedFields Gen.Tokens.all = [("riscv", "RiscvcToken", "offset"), ("x86_64", "Imm8Token", "disp8")] := by
  decide +kernel

/-! ## (2) relocations: `apply S data P = ok d → decode d = target`, `¬ accepted → error` -/

/-- riscv `b_imm12` (B-type branch).  Guard: the distance fits the 13-bit signed branch offset. -/
theorem riscv_b_imm12_partial {S P : Int} {data out : List Nat} (hlen : data.length = 4)
    (h : Riscv.bImm12 S data P = .ok out) (hfit : Spec.Bits.fitsS 13 (S - P)) :
    rvBOffset (wordLE out) = S - P := by
  have := bImm12_target hlen h hfit; omega

/-- exact acceptance region of `b_imm12` (`(S-P)/2 ∈ [-2^11, 2^12)`: the upper half does not fit) -/
theorem riscv_b_imm12_accept_iff {S P : Int} {data : List Nat} (hlen : data.length = 4) :
    (∃ out, Riscv.bImm12 S data P = .ok out) ↔
      (S % 2 = 0 ∧ P % 2 = 0 ∧ -(2 ^ 11) ≤ (S - P) / 2 ∧ (S - P) / 2 < 2 ^ 12) := by
  constructor
  · rintro ⟨out, h⟩
    obtain ⟨a, b, c, d, _⟩ := bImm12_ok hlen h
    exact ⟨a, b, c, d⟩
  · rintro ⟨a, b, c, d⟩
    exact bImm12_accepts hlen a b c d

def riscv_b_imm12_full : Prop :=
  ∀ (S P : Int) (data : List Nat), data.length = 4 → ¬ Spec.Bits.fitsS 13 (S - P) → ∃ e, Riscv.bImm12 S data P = .error e

/-- negation witness: `BImm12Relocation` links a branch to +6000 as a branch to -2192 -/
theorem riscv_b_imm12_full_false : ¬ riscv_b_imm12_full := by
  intro h
  obtain ⟨e, he⟩ := h 6000 0 [0x63, 0, 0, 0] rfl (by decide)
  have : Riscv.bImm12 6000 [0x63, 0, 0, 0] 0 = .ok [99, 8, 0, 246] := by decide
  rw [this] at he; cases he

example : Riscv.bImm12Calc 6000 0 = .ok 3000 := by decide
example : rvBOffset (wordLE [99, 8, 0, 246]) = -2192 := by decide

/-- riscv `b_imm20`, rvc `cb_imm11`, `cbl_imm11` (J-type jump) -/
theorem riscv_b_imm20_partial {S P : Int} {data out : List Nat} (hlen : data.length = 4) (hb : ∀ b ∈ data, b < 256)
    (h : Riscv.bImm20 S data P = .ok out) (hfit : Spec.Bits.fitsS 21 (S - P)) :
    rvJOffset (wordLE out) = S - P := by
  have := bImm20_target hlen hb h hfit; omega

theorem riscv_b_imm20_accept_iff {S P : Int} {data : List Nat} (hlen : data.length = 4) (hb : ∀ b ∈ data, b < 256) :
    (∃ out, Riscv.bImm20 S data P = .ok out) ↔
      (S % 2 = 0 ∧ P % 2 = 0 ∧ -(2 ^ 19) ≤ (S - P) / 2 ∧ (S - P) / 2 < 2 ^ 20) := by
  constructor
  · rintro ⟨out, h⟩
    obtain ⟨a, b, c, d, _⟩ := bImm20_ok hlen hb h
    exact ⟨a, b, c, d⟩
  · rintro ⟨a, b, c, d⟩
    exact bImm20_accepts hlen hb a b c d

theorem rvc_cb_imm11_eq_b_imm20 (S P : Int) (data : List Nat) : Rvc.cbImm11 S data P = Riscv.bImm20 S data P := rfl

example : Riscv.bImm20 1048576 [0x6f, 0, 0, 0] 0 = .ok [111, 0, 0, 128] ∧ rvJOffset (wordLE [111, 0, 0, 128]) = -1048576 := by
  decide

/-- rvc `bc_imm11` (C.J / C.JAL) -/
theorem rvc_bc_imm11_partial {S P : Int} {data out : List Nat} (hlen : data.length = 2) (hb : ∀ b ∈ data, b < 256)
    (h : Rvc.bcImm11 S data P = .ok out) (hfit : Spec.Bits.fitsS 12 (S - P)) :
    rvcJOffset (wordLE out) = S - P := by
  have := bcImm11_target hlen hb h hfit; omega

example : Rvc.bcImm11 2048 [0x01, 0xa0] 0 = .ok [1, 176] ∧ rvcJOffset (wordLE [1, 176]) = -2048 := by decide

/-- rvc `bc_imm8` (C.BEQZ / C.BNEZ) -/
theorem rvc_bc_imm8_partial {S P : Int} {data out : List Nat} (hlen : data.length = 2) (hb : ∀ b ∈ data, b < 256)
    (h : Rvc.bcImm8 S data P = .ok out) (hfit : Spec.Bits.fitsS 9 (S - P)) :
    rvcBOffset (wordLE out) = S - P := by
  have := bcImm8_target hlen hb h hfit; omega

example : Rvc.bcImm8 256 [0x01, 0xc0] 0 = .ok [1, 208] ∧ rvcBOffset (wordLE [1, 208]) = -256 := by decide

/-- rvc linker relaxation (`CBImm11Relocation.can_shrink` = `CBlImm11Relocation.can_shrink`): EXACT fit — the 32-bit
    `j`/`jal ra` is shrunk to `c.j`/`c.jal` iff both addresses are even and the displacement fits the signed 12-bit field -/
theorem rvc_can_shrink_iff (S P : Int) :
    Rvc.canShrink S P = .ok true ↔ (S % 2 = 0 ∧ P % 2 = 0 ∧ Spec.Bits.fitsS 12 (S - P)) := canShrink_true_iff S P

/-- … and whenever it says yes, the shrunk instruction (`do_shrink`, C.J opcode 0b101 / C.JAL 0b001), relocated with
    `bc_imm11` at the same addresses, is accepted and its field decodes to exactly `S - P` — full, no guard:
    the relaxation path cannot reach `bc_imm11`'s too-wide acceptance region -/
theorem rvc_shrink_resolves {opc : Nat} {S P : Int} {data d2 : List Nat} (hlen : data.length = 4)
    (hb : ∀ b ∈ data, b < 256) (hopc : opc < 8) (hcan : Rvc.canShrink S P = .ok true)
    (hsh : Rvc.doShrink opc S data P = .ok d2) :
    ∃ out, Rvc.bcImm11 S d2 P = .ok out ∧ rvcJOffset (wordLE out) = S - P := by
  obtain ⟨out, h1, h2⟩ := shrink_resolves hlen hb hopc hcan hsh
  exact ⟨out, h1, by omega⟩

example : Rvc.canShrink 2046 0 = .ok true ∧ Rvc.canShrink 2048 0 = .ok false ∧ Rvc.canShrink (-2048) 0 = .ok true
    ∧ Rvc.canShrink (-2050) 0 = .ok false ∧ Rvc.canShrink 2998 0 = .ok false := by decide
example : Rvc.doShrink 5 100 [0x6f, 0, 0, 0] 0 = .ok [0x6d, 0xa0] := by decide

/-- riscv `abs32_imm20` + `abs32_imm12`: the pair computes `S mod 2^32` for EVERY `S` (no range check:
    an address ≥ 2^32 is silently truncated — finding), hence exactly `S` for a 32-bit address -/
theorem riscv_abs32_pair_partial {S P P' : Int} {dhi dlo ohi olo : List Nat} (h1 : dhi.length = 4)
    (hb1 : ∀ b ∈ dhi, b < 256) (h2 : dlo.length = 4)
    (hhi : Riscv.abs32Imm20 S dhi P = .ok ohi) (hlo : Riscv.abs32Imm12 S dlo P' = .ok olo)
    (hfit : Spec.Bits.fitsU 32 S) : rvHiLo (wordLE ohi) (wordLE olo) = S :=
  abs32_pair_exact h1 hb1 h2 hhi hlo hfit

example : Riscv.abs32Imm20 (2 ^ 32 + 8) [0xb7, 0, 0, 0] 0 = .ok [183, 0, 0, 0]
    ∧ Riscv.abs32Imm12 (2 ^ 32 + 8) [0x13, 0, 0, 0] 0 = .ok [19, 0, 128, 0]
    ∧ rvHiLo (wordLE [183, 0, 0, 0]) (wordLE [19, 0, 128, 0]) = 8 := by decide

/-- riscv `rel_imm20` + `rel_imm12` (auipc/addi): `P + pair ≡ S (mod 2^32)`, for all `S`, `P` — full -/
theorem riscv_rel_pair {S P : Int} {dhi dlo ohi olo : List Nat} (h1 : dhi.length = 4) (hb1 : ∀ b ∈ dhi, b < 256)
    (h2 : dlo.length = 4)
    (hhi : Riscv.relImm20 S dhi P = .ok ohi) (hlo : Riscv.relImm12 S dlo (P + 4) = .ok olo) :
    Spec.Bits.wrapU 32 (P + rvHiLo (wordLE ohi) (wordLE olo)) = Spec.Bits.wrapU 32 S := by
  rw [rel_pair h1 hb1 h2 hhi hlo]
  unfold Spec.Bits.wrapU
  rw [Int.add_emod, Int.emod_emod_of_dvd _ (Int.dvd_refl _), ← Int.add_emod]
  congr 1; ring

/-- arm `imm24` (B/BL) -/
theorem arm_imm24_partial {S P : Int} {data out : List Nat} (hlen : data.length = 4)
    (h : Arm.imm24 S data P = .ok out) (hfit : Spec.Bits.fitsS 26 (S - P - 8)) :
    armBTarget (wordLE out) P = S := imm24_target hlen h hfit

example : Arm.imm24 (33554432 + 8) [0, 0, 0, 0xea] 0 = .ok [0, 0, 128, 234]
    ∧ armBTarget (wordLE [0, 0, 128, 234]) 0 = -33554432 + 8 := by decide

/-- thumb `wrap_new11` (B): exact range check, no guard needed — full -/
theorem thumb_wrap_new11 {S P : Int} {data out : List Nat} (hlen : data.length = 2) (hb : ∀ b ∈ data, b < 256)
    (hP : P % 2 = 0) (h : Thumb.wrapNew11 S data P = .ok out) : thumbBTarget (wordLE out) P = S :=
  wrapNew11_target hlen hb hP h

/-- thumb `rel8` (B<c>) — full -/
theorem thumb_rel8 {S P : Int} {data out : List Nat} (hlen : data.length = 2) (hb : ∀ b ∈ data, b < 256)
    (hP : P % 2 = 0) (h : Thumb.rel8 S data P = .ok out) : thumbBcTarget (wordLE out) P = S :=
  rel8_target hlen hb hP h

/-- thumb `lit8` (LDR literal) — full -/
theorem thumb_lit8 {S P : Int} {data out : List Nat} (hlen : data.length = 2) (hb : ∀ b ∈ data, b < 256)
    (hP : P % 2 = 0) (h : Thumb.lit8 S data P = .ok out) : thumbLdrLitAddr (wordLE out) P = S :=
  lit8_target hlen hb hP h

/-- thumb `bl_imm11` (BL, J1 = J2 = 1 as emitted).  Guard ±4 MiB; the code accepts ±16 MiB (finding). -/
theorem thumb_bl_imm11_partial {S P : Int} {data out : List Nat} (hlen : data.length = 4) (hb : ∀ b ∈ data, b < 256)
    (hP : P % 2 = 0) (hj1 : bits (wordLE data) 29 1 = 1) (hj2 : bits (wordLE data) 27 1 = 1)
    (h : Thumb.blImm11 S data P = .ok out) (hfit : Spec.Bits.fitsS 23 (S - P - 4)) :
    thumbBlTarget (wordLE out) P = S := blImm11_target hlen hb hP hj1 hj2 h hfit

example : Thumb.blImm11 (4194304 + 4) [0, 0xf0, 0, 0xf8] 0 = .ok [0, 240, 0, 248]
    ∧ thumbBlTarget (wordLE [0, 240, 0, 248]) 0 = 4 := by decide      -- +4 MiB links as a branch to itself+4

/-- x86_64 `rel32`: `P + sext32(field) = S + A` when `S + A - P` fits 32 signed bits -/
theorem x86_rel32_partial {A S P : Int} {data out : List Nat} (hlen : data.length = 4)
    (h : X86.rel32 A S data P = .ok out) (hfit : Spec.Bits.fitsS 32 (S + A - P)) :
    x86Rel32Target (wordLE out) P = S + A := rel32_target hlen h hfit

theorem x86_rel32_rejects_partial {A S P : Int} {data : List Nat} (hlen : data.length = 4)
    (h : S - P + A < -(2 ^ 32) ∨ 2 ^ 32 ≤ S - P + A) : ∃ e, X86.rel32 A S data P = .error e := rel32_rejects hlen h

example : X86.rel32 (-4) (2 ^ 31 + 4) [0, 0, 0, 0] 0 = .ok [0, 0, 0, 128] ∧ x86Rel32Target (wordLE [0, 0, 0, 128]) 0 = -(2 ^ 31) := by
  decide

/-- x86_64 `jmp8` -/
theorem x86_jmp8_partial {S P : Int} {data out : List Nat} (hlen : data.length = 1)
    (h : X86.jmp8 S data P = .ok out) (hfit : Spec.Bits.fitsS 8 (S - P - 1)) :
    x86Rel8Target (wordLE out) P = S := jmp8_target hlen h hfit

example : X86.jmp8 (128 + 1) [0] 0 = .ok [128] ∧ x86Rel8Target (wordLE [128]) 0 = -128 + 1 := by decide

/-- absolute relocations (`abs32`, `abs64`, `absaddr16/32/64`): for an address `S ≥ 0`, success means the field
    holds exactly `S` (and `S` fits) — full -/
theorem x86_abs32 {S P : Int} {data out : List Nat} (hlen : data.length = 4) (hS : 0 ≤ S)
    (h : X86.abs32 S data P = .ok out) : (wordLE out : Int) = S := (abs32_target hlen hS h).1

theorem x86_abs64 {S P : Int} {data out : List Nat} (hlen : data.length = 8) (hS : 0 ≤ S)
    (h : X86.abs64 S data P = .ok out) : (wordLE out : Int) = S := (abs64_target hlen hS h).1

theorem data_absaddr16 {S P : Int} {data out : List Nat} (hlen : data.length = 2) (hS : 0 ≤ S)
    (h : Data.absaddr16 S data P = .ok out) : (wordLE out : Int) = S := (absaddr16_target hlen hS h).1

theorem data_absaddr32 {S P : Int} {data out : List Nat} (hlen : data.length = 4) (hS : 0 ≤ S)
    (h : Data.absaddr32 S data P = .ok out) : (wordLE out : Int) = S := (absaddr32_target hlen hS h).1

theorem data_absaddr64 {S P : Int} {data out : List Nat} (hlen : data.length = 8) (hS : 0 ≤ S)
    (h : Data.absaddr64 S data P = .ok out) : (wordLE out : Int) = S := (absaddr64_target hlen hS h).1

/-! non-vacuity: in-range instances of the guarded theorems -/
example : Riscv.bImm12 (-4096) [0x63, 0, 0, 0] 0 = .ok [99, 0, 0, 128] ∧ rvBOffset (wordLE [99, 0, 0, 128]) = -4096 := by decide
example : Riscv.bImm20 0x1000 [0x6f, 0, 0, 0] 0x2000 = .ok [111, 240, 15, 128] ∧ rvJOffset (wordLE [111, 240, 15, 128]) = -0x1000 := by
  decide
example : Thumb.blImm11 0x2000 [0, 0xf0, 0, 0xf8] 0x100000 = .ok [1, 247, 254, 255]
    ∧ thumbBlTarget (wordLE [1, 247, 254, 255]) 0x100000 = 0x2000 := by decide

/-! ## (3) instruction tables of ALL ISAs: no operand field is overwritten by a later pattern -/

theorem arm_ordered : isaOK Gen.Tokens.armTokens Gen.Instrs.armInstrs = true := by decide +kernel
theorem thumb_ordered : isaOK Gen.Tokens.thumbTokens Gen.Instrs.thumbInstrs = true := by decide +kernel
theorem avr_ordered : isaOK Gen.Tokens.avrTokens Gen.Instrs.avrInstrs = true := by decide +kernel
theorem m68k_ordered : isaOK Gen.Tokens.m68kTokens Gen.Instrs.m68kInstrs = true := by decide +kernel
theorem mcs6500_ordered : isaOK Gen.Tokens.mcs6500Tokens Gen.Instrs.mcs6500Instrs = true := by decide +kernel
theorem microblaze_ordered : isaOK Gen.Tokens.microblazeTokens Gen.Instrs.microblazeInstrs = true := by decide +kernel
theorem mips_ordered : isaOK Gen.Tokens.mipsTokens Gen.Instrs.mipsInstrs = true := by decide +kernel
theorem msp430_ordered : isaOK Gen.Tokens.msp430Tokens Gen.Instrs.msp430Instrs = true := by decide +kernel
theorem or1k_ordered : isaOK Gen.Tokens.or1kTokens Gen.Instrs.or1kInstrs = true := by decide +kernel
theorem riscv_ordered : isaOK Gen.Tokens.riscvTokens Gen.Instrs.riscvInstrs = true := by decide +kernel
theorem stm8_ordered : isaOK Gen.Tokens.stm8Tokens Gen.Instrs.stm8Instrs = true := by decide +kernel
theorem x86_64_ordered : isaOK Gen.Tokens.x86_64Tokens Gen.Instrs.x86_64Instrs = true := by decide +kernel
theorem xtensa_ordered : isaOK Gen.Tokens.xtensaTokens Gen.Instrs.xtensaInstrs = true := by decide +kernel
theorem misc_ordered : isaOK Gen.Tokens.miscTokens Gen.Instrs.miscInstrs = true := by decide +kernel

/-- THE LIFT.  For any token/instruction tables satisfying `isaOK` (all fourteen above do), any covered
    (declarative) instruction class `c`, any of its shapes (choice of constructor operands) and any operand
    values: if `Instruction.encode` succeeds, every field written from an operand holds `v mod 2^w`, and
    decoding it under the field's declaration yields the operand iff the operand fits.  Combined with
    `field_accept_exact`, the operands that are accepted but corrupted are exactly those that do not fit. -/
theorem declarative_operand_decodes {tt : List TokenDesc} {is : List InstrDesc} (hok : isaOK tt is = true)
    {c : InstrDesc} (hc : c ∈ is) (hcov : covered c = true) :
    ∃ flats, expand is expandFuel c = some flats ∧
      ∀ (flat : List (InstrDesc × Vals)) (ts : List Inst), flat.map (·.1) ∈ flats →
        declarativeFlat (flat.map (·.1)) = true → encodeTokens tt flat = .ok ts →
        ∀ pv ∈ patWrites flat, isFixed pv.1.val = false →
          ∃ v fd raw, pv.2 = some v ∧ seqGet ts pv.1.field = .ok raw ∧ (raw : Int) = v % 2 ^ width fd
            ∧ (decode fd.signed (width fd) raw = v ↔ fits fd.signed (width fd) v) := by
  obtain ⟨flats, he, hall⟩ := instrOK_shapes hok hc hcov
  exact ⟨flats, he, fun flat ts hm hd henc => encode_operand_fields tt flat ts (hall _ hm hd) henc⟩

/-! non-vacuity: a real class from the table, encoded by the model, operand read back -/
example : (Gen.Instrs.or1kInstrs.filter covered).length > 0 := by decide +kernel
def demoFlat : List (InstrDesc × Vals) :=
  [((findInstr Gen.Instrs.or1kInstrs "Addi").get!, [("rd", 1), ("ra", 2)]),
   ((findInstr Gen.Instrs.or1kInstrs "Immediate").get!, [("imm", -5)])]

def demoResult : Option (Except Model.Token.Err Nat × List Nat) :=
  match encodeTokens Gen.Tokens.or1kTokens demoFlat with
  | .ok ts => some (seqGet ts "imm", seqEncode ts)
  | .error _ => none

example : demoResult = some (.ok 65531, [0x9c, 0x22, 0xff, 0xfb]) := by decide +kernel

end Props.C10
