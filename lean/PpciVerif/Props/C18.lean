import PpciVerif.Model.Hex
import PpciVerif.Spec.IHex
import PpciVerif.Proofs.Hex
import PpciVerif.Proofs.HexFile
/-!
# C18 — Intel HEX files round-trip and are standard-conforming

Property theorems only.  Model: `Model.Hex` (hand model of `ppci/format/hexfile.py`
after the repair commit, tied by correspondence; `Model.Hex.Legacy` = the code before
it).  Spec: `Spec.IHex` (independent reader, memory image `cells`, normal form `NF`,
`mergeSpec`).  `ValidSet rs`: every region non-empty, bytes, end ≤ 2^32, pairwise
non-overlapping.  No bound on the number or size of regions anywhere.
-/
namespace Props.C18
deriving instance DecidableEq for Except
open Spec.IHex Proofs.Hex
open Model.Hex (HexFile build save load Legacy.build Legacy.save)

/-! ### (a) merging is independent of the insertion order and equals the specification -/

/-- `add_region` of the regions of a valid set in ANY order `p` ends in `mergeSpec rs`. -/
theorem add_region_any_order (rs p : List Region) (hv : ValidSet rs) (hp : p.Perm rs) :
    build [] p = .ok (mergeSpec rs) :=
  build_eq_mergeSpec hv hp

/-- `mergeSpec rs` is in normal form (ascending, non-empty, separated by gaps) and has the
    memory image of `rs` … -/
theorem mergeSpec_is_normal_form (rs : List Region) (hv : ValidSet rs) :
    NF (mergeSpec rs) ∧ (cells (mergeSpec rs)).Perm (cells rs) :=
  mergeSpec_spec hv

/-- … and it is the ONLY such list: normal forms with the same memory image are equal.
    (So `mergeSpec` is fixed by its specification, not by how it is computed.) -/
theorem normal_form_unique (l1 l2 : List Region) (h1 : NF l1) (h2 : NF l2)
    (hc : (cells l1).Perm (cells l2)) : l1 = l2 :=
  nf_unique l1 l2 h1 h2 hc

/-- a built file satisfies the hypotheses of (b)–(d) -/
theorem built_file_wf (rs : List Region) (hv : ValidSet rs) (start : Nat) (hs : start < 4294967296) :
    WF ⟨mergeSpec rs, start⟩ := by
  obtain ⟨h1, h2⟩ := mergeSpec_spec hv
  exact ⟨h1, regionOK_of_cellsOK (cellsOK_perm h2 (validSet_cellsOK hv)) (nf_nonempty h1), hs⟩

/-! ### (b) every emitted line is a well-formed record -/

/-- `save` succeeds and every line satisfies the record grammar `:LLAAAATT<data>CC` with the
    right byte count and checksum (`parseRecord` checks exactly these) and has `Shape`: at most
    30 data bytes, type 00, or load offset 0 and type 01 (LL=0) / 04 (LL=2) / 05 (LL=4). -/
theorem save_lines_are_records (h : HexFile) (hw : WF h) :
    ∃ lines, save h = .ok lines ∧
      ∀ l ∈ lines, ∃ r, parseRecord l = some r ∧ Shape r := by
  refine ⟨_, save_eq hw, ?_⟩
  intro l hl
  obtain ⟨hrec, hmem, rfl⟩ := List.mem_map.mp hl
  have hwf := (fileRecs_spec hw).2 hrec hmem
  refine ⟨toSpec hrec, parseRecord_toLine hwf, ?_⟩
  exact fileRecs_shape hw hrec hmem

/-! ### (c) an independent reader decodes the file to the same bytes at the same addresses -/

/-- `Spec.IHex.read (save h)` = the cells of `h.regions` in ascending order, each address once,
    and the start address (absent iff 0). -/
theorem reader_decodes_saved_file (h : HexFile) (hw : WF h) :
    ∃ lines, save h = .ok lines ∧
      Spec.IHex.read lines = some ⟨cells h.regions, if h.start = 0 then none else some h.start⟩ :=
  ⟨_, save_eq hw, read_save hw⟩

/-! ### (d) load ∘ save = id -/

theorem load_of_save (h : HexFile) (hw : WF h) : ∃ lines, save h = .ok lines ∧ load lines = .ok h :=
  ⟨_, save_eq hw, load_save hw⟩

/-! ### the property, end to end -/

/-- For every valid region set, every insertion order and every 32-bit start address: the file
    built by `add_region` holds `mergeSpec rs`; `save` succeeds; the independent reader sees the
    image of `rs` (same bytes at the same addresses, up to the order in which `rs` lists them)
    and the start address; `load` gives the file back. -/
theorem hexfile_roundtrip (rs p : List Region) (start : Nat) (hv : ValidSet rs) (hp : p.Perm rs)
    (hs : start < 4294967296) :
    ∃ regs lines img, build [] p = .ok regs ∧ save ⟨regs, start⟩ = .ok lines ∧
      Spec.IHex.read lines = some img ∧ img.mem.Perm (cells rs) ∧
      img.mem.Pairwise (fun x y => x.1 < y.1) ∧ img.start.getD 0 = start ∧
      load lines = .ok ⟨regs, start⟩ := by
  have hw := built_file_wf rs hv start hs
  obtain ⟨h1, h2⟩ := mergeSpec_spec hv
  refine ⟨mergeSpec rs, _, _, build_eq_mergeSpec hv hp, save_eq hw, read_save hw, h2,
    cells_sorted _ (nf_before h1), ?_, load_save hw⟩
  by_cases h0 : start = 0 <;> simp [h0]

/-! ### non-vacuity and witnesses -/

/-- the hypotheses are satisfiable by a set with an adjacency, a 64 KiB crossing and a region
    that ends at 2^32 -/
example : ValidSet [(0xFFFE, [1, 2, 3]), (8, [8, 9]), (0x10001, [4]), (0xFFFFFFFE, [5, 6])] := by
  refine ⟨?_, ?_⟩
  · intro r hr
    simp only [List.mem_cons, List.not_mem_nil, or_false] at hr
    rcases hr with rfl | rfl | rfl | rfl <;> simp
  · simp [Disjoint]

example : mergeSpec [(0xFFFE, [1, 2, 3]), (8, [8, 9]), (0x10001, [4]), (0xFFFFFFFE, [5, 6])]
    = [(8, [8, 9]), (0xFFFE, [1, 2, 3, 4]), (0xFFFFFFFE, [5, 6])] := by decide

example : save ⟨[(0xFFFE, [1, 2, 3, 4])], 0x12345678⟩ = .ok
    [":020000040000fa".toList, ":04fffe0001020304f5".toList, ":0400000512345678e3".toList, ":00000001ff".toList] := by
  decide +kernel

/-- defect 1 (before the repair): adding the bridging region last loses the region at 8 … -/
example : Legacy.build [] [(0, [0, 1, 2, 3]), (8, [8, 9, 10, 11]), (4, [4, 5, 6, 7])]
    = .ok [(0, [0, 1, 2, 3, 4, 5, 6, 7])] := by decide
/-- … which is not the merged set (so `add_region_any_order` is false for the old code) … -/
example : Legacy.build [] [(0, [0, 1, 2, 3]), (8, [8, 9, 10, 11]), (4, [4, 5, 6, 7])]
    ≠ .ok (mergeSpec [(0, [0, 1, 2, 3]), (8, [8, 9, 10, 11]), (4, [4, 5, 6, 7])]) := by decide
/-- … while another order of the same set gave the right answer: order dependence. -/
example : Legacy.build [] [(0, [0, 1, 2, 3]), (4, [4, 5, 6, 7]), (8, [8, 9, 10, 11])]
    = .ok (mergeSpec [(0, [0, 1, 2, 3]), (8, [8, 9, 10, 11]), (4, [4, 5, 6, 7])]) := by decide
/-- the repaired code on the same input -/
example : build [] [(0, [0, 1, 2, 3]), (8, [8, 9, 10, 11]), (4, [4, 5, 6, 7])]
    = .ok [(0, [0, 1, 2, 3, 4, 5, 6, 7, 8, 9, 10, 11])] := by decide

/-- defect 2 (before the repair): `save` drops the start address — the reader finds none and
    `load` returns 0 -/
example : (Legacy.save ⟨[(0x8000, [0xaa])], 0x12345678⟩).toOption.bind Spec.IHex.read
    = some ⟨[(0x8000, 0xaa)], none⟩ := by decide +kernel
example : (Legacy.save ⟨[(0x8000, [0xaa])], 0x12345678⟩).toOption.map load
    = some (.ok ⟨[(0x8000, [0xaa])], 0⟩) := by decide +kernel

end Props.C18
