import PpciVerif.Model.Hex
import PpciVerif.Spec.IHex
namespace Props.C18
deriving instance DecidableEq for Except
open Model.Hex Spec.IHex

/-- witness: the pre-repair `check` loses the region at 8 when 4 is added last -/
example : Legacy.build [] [(0, [0,1,2,3]), (8, [8,9,10,11]), (4, [4,5,6,7])] = .ok [(0, [0,1,2,3,4,5,6,7])] := by decide
example : mergeSpec [(0, [0,1,2,3]), (8, [8,9,10,11]), (4, [4,5,6,7])] = [(0, [0,1,2,3,4,5,6,7,8,9,10,11])] := by decide

theorem stub : True := trivial
end Props.C18
