import PpciVerif.Model.C3
import PpciVerif.Spec.C3
import PpciVerif.Spec.IRArith
import PpciVerif.Spec.IR
import PpciVerif.Gen.C3Tab
import PpciVerif.Proofs.C3
import PpciVerif.Proofs.C3Ops
import PpciVerif.Proofs.C3Tab
/-!
# C37 — the C3 front-end computes the values C3 semantics prescribe  (P: operator and coercion mapping)

Property theorems only.  Model: `Model.C3` (typing and lowering decisions of
ppci/lang/c3/{scope,context,typechecker,codegenerator}.py, tied to the source by the dump
`Gen.C3Tab` and by the differential runs of harness/c37.py).  Spec: `Spec.C3` — the equivalent C
program `(T)((W)a op (W)b)` evaluated by `Spec.CInt` — and the reference IR semantics
`Spec.IRArith` / `Spec.IR`.  Helper definitions (`tyOf`, `irBinOpBySymbol`, the `…Table`s, `irOp`)
are in `Proofs.C3Tab` / `Proofs.C3Ops`.

Value theorems quantify over all eight integer types, all operators and all operand values
(unbounded `Int`, restricted only by `InRange`).  NOT proved (searched only by the harness):
statement lowering — short-circuit conditions, if / while / for / switch, calls, arrays.
-/
namespace Props.C37
open Spec.IRArith (Ty InRange wrap)
open Spec.C3 Proofs.C3

/-! ### the model's tables are the tables of the checked source tree (translation) -/

/-- `create_top_scope`'s integer types and `get_ir_type`, for the 32-bit-int and the 16-bit-int target -/
theorem base_types_match_source :
    Gen.C3Tab.intTypes = intSizes.map (fun n => (n, intTypesTable n))
    ∧ Gen.C3Tab.boolIr = intSizes.map (fun n => (n, Model.C3.irInt n))
    ∧ Gen.C3Tab.archs.map Prod.snd = intSizes := by decide +kernel

/-- `Context.get_common_type` on every ordered pair of integer base types -/
theorem common_type_matches_source :
    Gen.C3Tab.common = intSizes.map (fun n => (n, commonTable n)) := by decide +kernel

/-- `TypeChecker.do_coerce` on every ordered pair: no cast / TypeCast inserted / SemanticError -/
theorem coercion_matches_source :
    Gen.C3Tab.coerce = intSizes.map (fun n => (n, coerceTable n)) := by decide +kernel

/-- the IR operator and IR type read from the IR that the real `gen_binop` produced for every
    (operator, type), and the operator sets of astnodes / parser / ir -/
theorem binop_lowering_matches_source :
    Gen.C3Tab.binops = intSizes.map (fun n => (n, binopTable n))
    ∧ Gen.C3Tab.arithOps = Model.C3.arithOps
    ∧ (∀ op ∈ Model.C3.arithOps, op ∈ Gen.C3Tab.parserBinops ∧ op ∈ Gen.C3Tab.irBinopOps) := by decide +kernel

/-- … `gen_cond_code` for every (comparison, type) -/
theorem compare_lowering_matches_source :
    Gen.C3Tab.cmps = intSizes.map (fun n => (n, cmpTable n))
    ∧ Gen.C3Tab.compareOps = Model.C3.compareOps
    ∧ (∀ op ∈ Model.C3.compareOps, op ∈ Gen.C3Tab.parserBinops ∧ op ∈ Gen.C3Tab.irConds) := by decide +kernel

set_option synthInstance.maxSize 1024 in
/-- … and the *operand order* of the emitted `ir.CJump` when a named constant stands on the left, on the right or on
    both sides of the comparison (read from real generated IR): operands stay in source order, the condition is the
    operator as written — so `compare_lowering_correct` applies to `K op a` with `K` as first operand -/
theorem compare_operand_order_matches_source :
    Gen.C3Tab.cmpshape = intSizes.map (fun n => (n, cmpShapeTable n)) := by decide +kernel

/-- … `gen_assignment_stmt` for every (shorthand assignment, type) and `gen_unop` -/
theorem shorthand_lowering_matches_source :
    Gen.C3Tab.shorthands = intSizes.map (fun n => (n, shorthandTable n))
    ∧ Gen.C3Tab.assignOps = Model.C3.assignOps := by decide +kernel

theorem unop_lowering_matches_source :
    Gen.C3Tab.unops = intSizes.map (fun n => (n, unopTable n))
    ∧ Gen.C3Tab.unaryArithOps = Model.C3.unaryArithOps := by decide +kernel

/-- … operands of two different types: the operation is emitted at the IR type of the common type -/
theorem mixed_lowering_matches_source :
    Gen.C3Tab.mixed = intSizes.map (fun n => (n, mixedTable n)) := by decide +kernel

/-! ### the typing rules of the model are the rules of the specification -/

/-- `get_common_type` = signed as soon as one operand is signed, as wide as the wider operand;
    `do_coerce` = `Spec.C3.coerce`; for every pair of the named integer types, both targets -/
theorem typing_is_spec :
    ∀ n ∈ intSizes, ∀ a ∈ Model.C3.intTypes n, ∀ b ∈ Model.C3.intTypes n,
      (Model.C3.commonType a b).map tyOf = some (commonType (tyOf a) (tyOf b))
      ∧ (Model.C3.doCoerce a b).name = (coerce (tyOf a) (tyOf b)).name := by decide +kernel

/-- the IR type chosen for a C3 type has the type's signedness and width -/
theorem ir_type_is_spec :
    ∀ n ∈ intSizes, ∀ a ∈ Model.C3.intTypes n, irTyByName (Model.C3.irType a) = some (tyOf a) := by decide +kernel

/-- **Accepted operand conversions are exact.**  Whenever the conversion of an operand to the common
    type of a binary operator is accepted, every value of the operand's type is a value of the common
    type (so the inserted `ir.Cast` does not change it). -/
theorem operand_conversion_exact (a b : Ty) (v : Int) :
    (coerce a (commonType a b) ≠ .reject → InRange a v →
        InRange (commonType a b) v ∧ Spec.IRArith.cast (commonType a b) v = v)
    ∧ (coerce b (commonType a b) ≠ .reject → InRange b v →
        InRange (commonType a b) v ∧ Spec.IRArith.cast (commonType a b) v = v) :=
  ⟨fun h hv => ⟨common_left_exact a b h v hv, Proofs.IRArith.cast_of_inRange _ v (common_left_exact a b h v hv)⟩,
   fun h hv => ⟨common_right_exact a b h v hv, Proofs.IRArith.cast_of_inRange _ v (common_right_exact a b h v hv)⟩⟩

/-- **Implicit coercions.**  The `ir.Cast` inserted for an accepted coercion computes C's conversion
    `(T)v`; it leaves the value unchanged except for signed → unsigned (where C reduces modulo 2^N too). -/
theorem coercion_value (src dst : Ty) (v : Int) (_h : coerce src dst ≠ .reject) (hv : InRange src v) :
    Spec.IRArith.cast dst v = convert dst v
    ∧ ((src.signed = true → dst.signed = true) → Spec.IRArith.cast dst v = v) :=
  ⟨cast_agrees dst v, fun hs => Proofs.IRArith.cast_of_inRange dst v (coerce_preserves src dst _h hs v hv)⟩

/-- every cast (explicit `cast<T>(e)` too): `ir.Cast` to the IR type of `T` is C's `(T)e`, for all values -/
theorem cast_value (dst : Ty) (v : Int) :
    Spec.IRArith.cast dst v = convert dst v ∧ InRange dst (convert dst v) := by
  refine ⟨cast_agrees dst v, ?_⟩
  rw [convert_eq_wrap]; exact Proofs.IRArith.wrap_inRange dst v

/-! ### values: the IR operator computes the C value -/

/-- **Operator mapping, all values.**  For every integer type, every C3 arithmetic operator and all
    operand values of the type: if the equivalent C expression `(T)((W)a op (W)b)` has a defined value
    `v`, the IR operator of the same spelling at the IR type of `T` is defined and yields `v`. -/
theorem binop_value (t : Ty) (op : Op) (a b v : Int) (ha : InRange t a) (hb : InRange t b)
    (h : binop t op a b = some v) : Spec.IRArith.binop t (irOp op) a b = some v :=
  binop_agrees t op a b v ha hb h

/-- the strings the model hands to `ir.Binop` resolve (in the reference interpreter's own tables) to
    that operator and that type, for every named type of both targets -/
theorem binop_lowering_resolves :
    ∀ n ∈ intSizes, ∀ ct ∈ Model.C3.intTypes n, ∀ op ∈ Op.all,
      (irBinOpBySymbol (Model.C3.lowerBinop op.symbol ct).1).bind Spec.IR.BinOp.arith? = some (irOp op)
      ∧ irTyByName (Model.C3.lowerBinop op.symbol ct).2 = some (tyOf ct) := by decide +kernel

/-- **End to end for `gen_binop`**: what the reference IR interpreter computes for the instruction the
    front-end emits for `a op b` at a named C3 type is the value C prescribes. -/
theorem binop_lowering_correct (n : Nat) (hn : n ∈ intSizes) (ct : Model.C3.CTy) (hct : ct ∈ Model.C3.intTypes n)
    (op : Op) (a b v : Int) (cfg : Spec.IR.Config)
    (ha : InRange (tyOf ct) a) (hb : InRange (tyOf ct) b) (h : binop (tyOf ct) op a b = some v) :
    ∃ iop ity, irBinOpBySymbol (Model.C3.lowerBinop op.symbol ct).1 = some iop
      ∧ irTyByName (Model.C3.lowerBinop op.symbol ct).2 = some ity
      ∧ Spec.IR.evalBinop cfg (.int ity) iop (.int a) (.int b) = .ok (.int v) := by
  have hop : op ∈ Op.all := by cases op <;> decide
  obtain ⟨h1, h2⟩ := binop_lowering_resolves n hn ct hct op hop
  cases hi : irBinOpBySymbol (Model.C3.lowerBinop op.symbol ct).1 with
  | none => rw [hi] at h1; simp at h1
  | some iop =>
    rw [hi] at h1
    refine ⟨iop, tyOf ct, rfl, h2, ?_⟩
    have h3 : iop.arith? = some (irOp op) := by simpa using h1
    simp [Spec.IR.evalBinop, Spec.IR.intBinop, h3, binop_agrees _ op a b v ha hb h]

/-- shorthand assignment `x op= e` (`e` already coerced to the type of `x`): the emitted `ir.Binop` has the
    operator of `op` and the IR type of `x` -/
theorem shorthand_lowering_resolves :
    ∀ n ∈ intSizes, ∀ ct ∈ Model.C3.intTypes n, ∀ op ∈ Op.all, ∀ s, assignSymbol op = some s →
      s ∈ Model.C3.assignOps
      ∧ (irBinOpBySymbol (Model.C3.lowerShorthand s ct).1).bind Spec.IR.BinOp.arith? = some (irOp op)
      ∧ irTyByName (Model.C3.lowerShorthand s ct).2 = some (tyOf ct) := by
  intro n hn ct hct op _ s hs
  have key : ∀ n ∈ intSizes, ∀ ct ∈ Model.C3.intTypes n, ∀ op ∈ Op.all, ∀ s ∈ (assignSymbol op).toList,
      s ∈ Model.C3.assignOps
        ∧ (irBinOpBySymbol (Model.C3.lowerShorthand s ct).1).bind Spec.IR.BinOp.arith? = some (irOp op)
        ∧ irTyByName (Model.C3.lowerShorthand s ct).2 = some (tyOf ct) := by decide +kernel
  have hop : op ∈ Op.all := by cases op <;> decide
  exact key n hn ct hct op hop s (by simp [hs])

/-- **Operands of two different types** (`byte + int`, `int8_t * int64_t`, …): with the operand
    conversions the type checker inserts, the emitted operation at the common type yields the C value
    of `(T)a op (T)b` computed on the *unconverted* mathematical operand values. -/
theorem mixed_binop_value (ta tb : Ty) (op : Op) (a b v : Int) (ha : InRange ta a) (hb : InRange tb b)
    (hca : coerce ta (commonType ta tb) ≠ .reject) (hcb : coerce tb (commonType ta tb) ≠ .reject)
    (h : binop (commonType ta tb) op a b = some v) :
    Spec.IRArith.binop (commonType ta tb) (irOp op)
        (Spec.IRArith.cast (commonType ta tb) a) (Spec.IRArith.cast (commonType ta tb) b) = some v := by
  have h1 := (operand_conversion_exact ta tb a).1 hca ha
  have h2 := (operand_conversion_exact ta tb b).2 hcb hb
  rw [h1.2, h2.2]
  exact binop_agrees _ op a b v h1.1 h2.1 h

/-- **Comparisons**: the condition handed to `ir.CJump` is the comparison itself, and the reference
    interpreter's `evalCond` on two values of one type is the mathematical relation, i.e. C's
    `(T)a cmp (T)b` — in particular unsigned operands are compared as unsigned. -/
theorem compare_lowering_correct (c : Cmp) :
    ∃ ic, irCondBySymbol c.symbol = some ic
      ∧ ∀ a b : Int, Spec.IR.evalCond ic (.int a) (.int b) = .ok (cmp c a b) := by
  cases c
  · exact ⟨.eq, by decide, fun a b => by simp [Spec.IR.evalCond, cmp]; rfl⟩
  · exact ⟨.ne, by decide, fun a b => by simp [Spec.IR.evalCond, cmp, bne]; rfl⟩
  · exact ⟨.lt, by decide, fun a b => by simp [Spec.IR.evalCond, cmp]⟩
  · exact ⟨.gt, by decide, fun a b => by simp [Spec.IR.evalCond, cmp]⟩
  · exact ⟨.le, by decide, fun a b => by simp [Spec.IR.evalCond, cmp]⟩
  · exact ⟨.ge, by decide, fun a b => by simp [Spec.IR.evalCond, cmp]⟩

/-- the compared values have the IR type of the operands' C3 type and the condition string is unchanged -/
theorem compare_lowering_resolves :
    ∀ n ∈ intSizes, ∀ ct ∈ Model.C3.intTypes n, ∀ c ∈ Cmp.all,
      (Model.C3.lowerCmp c.symbol ct).1 = c.symbol ∧ irTyByName (Model.C3.lowerCmp c.symbol ct).2 = some (tyOf ct) := by
  decide +kernel

/-- **Unary minus**: `ir.Unop("-")` at the operand's IR type yields the C value of `(T)(-(W)a)`. -/
theorem neg_value (t : Ty) (a v : Int) (cfg : Spec.IR.Config) (ha : InRange t a) (h : neg t a = some v) :
    Spec.IR.evalUnop cfg (.int t) .neg (.int a) = .ok (.int v) := by
  simp [Spec.IR.evalUnop, neg_agrees t a v ha h]

/-- **Constant expressions** (`const` definitions, `case` labels, array sizes, global initialisers):
    `Context.eval_const` on two integers yields C's value of `a op b` at the target's `int`, whenever C
    defines one (`+ - * / %`; the other operators are not in eval_const's table). -/
theorem const_value (intTy : Ty) (hs : intTy.signed = true) (op : Op) (a b v : Int)
    (hop : op = .add ∨ op = .sub ∨ op = .mul ∨ op = .div ∨ op = .rem)
    (h : constOp intTy op a b = some v) : Model.C3.constOp op.symbol a b = .ok v :=
  const_agrees intTy hs op a b v hop h

/-! ### non-vacuity / concrete instances (tests, labelled as such) -/

-- byte + byte stays a byte; C: (uint8_t)((unsigned)200 + (unsigned)100) = 44
example : binop .u8 .add 200 100 = some 44 ∧ Spec.IRArith.binop .u8 .add 200 100 = some 44 := by decide +kernel
-- narrow signed types wrap through C's conversion, wide ones are undefined on overflow
example : binop .i8 .add 100 100 = some (-56) ∧ binop .i32 .add 2147483647 1 = none := by decide +kernel
-- u16 * u16 is computed in unsigned int: no overflow of int
example : binop .u16 .mul 65535 65535 = some 1 := by decide +kernel
-- truncating division and remainder, arithmetic shift of negative values
example : binop .i8 .div (-7) 2 = some (-3) ∧ binop .i8 .rem (-7) 2 = some (-1) ∧ binop .i8 .shr (-7) 1 = some (-4) := by
  decide +kernel
-- outside the declared type: nothing prescribed
example : binop .u8 .shl 1 8 = none ∧ binop .i8 .div (-128) (-1) = none ∧ binop .i8 .shl (-1) 1 = none := by decide +kernel
-- unsigned comparison
example : cmp .le 4294967295 1 = false ∧ cmp .le 1 4294967295 = true := by decide
-- hypotheses of the value theorems are satisfiable
example : InRange .u8 200 ∧ InRange .u8 100 ∧ InRange .i8 (-7) := by decide
example : coerce .u8 (commonType .u8 .i32) ≠ .reject ∧ coerce .i32 (commonType .u8 .i32) ≠ .reject := by decide
example : commonType .u8 .i32 = .i32 ∧ commonType .u8 .u8 = .u8 ∧ commonType .u16 .i8 = .i16 := by decide
example : coerce .u32 .i32 = .reject ∧ coerce .i32 .u8 = .auto ∧ coerce .u8 .i16 = .auto ∧ coerce .i16 .i8 = .reject := by decide
-- the signed → unsigned coercion is C's conversion and does change values
example : Spec.IRArith.cast .u8 (-1) = 255 ∧ convert .u8 (-1) = 255 := by decide +kernel
example : neg .i8 (-128) = some (-128) ∧ neg .i32 (-2147483648) = none ∧ neg .u8 1 = some 255 := by decide +kernel

-- the two defects this property found in Context.eval_const (before the `fix:` commit), as kernel-checked facts:
-- 1. `%` was operator.mod (Python floor-mod): `const int M = (0 - 7) % 3` became 2, C says -1
example : constOp .i32 .rem (-7) 3 = some (-1) ∧ Model.C3.constOpLegacyMod (-7) 3 = 2 := by decide +kernel
-- 2. `/` was operator.truediv: `7 / 2` became the float 3.5 — never an integer; C says 3 (after the fix:)
example : constOp .i32 .div 7 2 = some 3 := by decide +kernel
example : Model.C3.constOp "/" 7 2 = .ok 3 ∧ Model.C3.constOp "/" (-7) 2 = .ok (-3) := ⟨rfl, rfl⟩
example : Model.C3.constOp "%" (-7) 3 = .ok (-1) ∧ Model.C3.constOp "/" 1 0 = .error .ZeroDivisionError := ⟨rfl, rfl⟩

end Props.C37
