import PpciVerif.Model.Rsp
import PpciVerif.Spec.Rsp
import PpciVerif.Proofs.Rsp
/-!
# C35 — GDB remote-serial-protocol framing and acknowledgement

Property theorems only.  Model: `Model.Rsp` (hand model of
`ppci/binutils/dbg/gdb/rsp.py` after the three "fix:" commits, tied by
correspondence).  Spec: `Spec.Rsp`.  Helper lemmas: `Proofs.Rsp`.

Idle handler state `⟨.idle, q, s, dl, none⟩`: decoder at top level, ack slot `q`,
`s` = bytes written to the transport so far, `dl` = messages delivered so far,
no exception.  `[43]` is "+", `[45]` is "-".

What is NOT here (and not claimed): threads (`_ack_queue`/`_lock` interleavings
between the receiver thread and senders), the 0.5 s timeouts as time, sockets,
bytes ≥ 0x80, run-length encoding.
-/
namespace Props.C35
open Model.Rsp Proofs.Rsp
open Spec.Rsp (Item escape checksumOk nacksBeforePlus transmissions outcome Outcome)

/-! ### 1. every chunking -/

/-- Chunk independence: however the transport splits the byte stream, the handler
    ends in the state it reaches on the unsplit stream (the receive path is a fold). -/
theorem feed_chunking (h : HState) (chunks : List (List Nat)) :
    feedChunks h chunks = feed h chunks.flatten := by
  induction chunks generalizing h with
  | nil => rfl
  | cons c cs ih => simp [feedChunks, feed, List.foldl_append] at ih ⊢; exact ih _

/-! ### 2. a packet of the sender is received as exactly one packet carrying the payload -/

/-- `rsp_pack p` is the RSP packet of the specification: `$`, the escaped payload, `#`, and a
    checksum field that is good for it; and the specification's unescape restores `p`. -/
theorem pack_is_spec_packet (p : List Nat) :
    ∃ c1 c2, pack p = 36 :: (escape p ++ [35, c1, c2]) ∧ checksumOk (escape p) c1 c2 = true
      ∧ Spec.Rsp.unescape (escape p) = p := by
  refine ⟨hexUp (checksum (escape p) / 16), hexUp (checksum (escape p) % 16), ?_, checksumOk_pack _, ?_⟩
  · simp [pack, escapeData_eq]
  · rw [← unescape_eq_spec, unescape_escape]

/-- The decoder yields nothing on any proper prefix of `pack p` and exactly one message,
    the whole packet, on its last byte; it is back at top level afterwards. -/
theorem decoder_yields_exactly_one (p : List Nat) :
    decodeAll .idle (pack p) = (.idle, [.pkt (pack p)]) ∧
    ∀ pre suf, pack p = pre ++ suf → suf ≠ [] → (decodeAll .idle pre).2 = [] := by
  have hnh := escape_no_hash p
  refine ⟨by rw [pack_eq]; exact decodeAll_frame _ _ _ hnh, ?_⟩
  intro pre suf hsplit hsuf
  -- `pre` is a prefix of the packet without its last byte, on which nothing is yielded
  obtain ⟨suf', x, rfl⟩ : ∃ suf' x, suf = suf' ++ [x] := by
    rcases List.eq_nil_or_concat suf with h | ⟨l, a, h⟩
    · exact absurd h hsuf
    · exact ⟨l, a, by simpa using h⟩
  have hinit := decodeAll_frame_init (escape p) (hexUp (checksum (escape p) / 16)) hnh
  have e : pre ++ suf' = 36 :: (escape p ++ [35, hexUp (checksum (escape p) / 16)]) := by
    have h2 : (pre ++ suf') ++ [x] =
        (36 :: (escape p ++ [35, hexUp (checksum (escape p) / 16)])) ++ [hexUp (checksum (escape p) % 16)] := by
      rw [List.append_assoc, ← hsplit, pack_eq]; simp
    exact (List.append_inj' h2 rfl).1
  rw [← e, decodeAll_append] at hinit
  have := congrArg Prod.snd hinit
  simp only [List.append_eq_nil_iff] at this
  exact this.1

/-- `rsp_unpack (rsp_pack p) = p`: the checksum verifies and the escapes are restored. -/
theorem unpack_pack (p : List Nat) : unpack (pack p) = .ok p := by
  rw [pack_eq, unpack_frame, crcAccepts_pack, unescape_escape]; rfl

/-- Loop-back, for every payload and EVERY chunking of its packet: an idle handler writes
    exactly one `+`, delivers exactly the payload, once, touches nothing else. -/
theorem loopback_every_chunking (p : List Nat) (chunks : List (List Nat)) (hc : chunks.flatten = pack p)
    (q : Option Nat) (s dl : List (List Nat)) :
    feedChunks ⟨.idle, q, s, dl, none⟩ chunks = ⟨.idle, q, s ++ [[43]], dl ++ [p], none⟩ := by
  rw [feed_chunking, hc, pack_eq, feed_frame_result _ _ _ _ _ _ (escape_no_hash p), crcAccepts_pack,
    unescape_escape]
  rfl

/-- … and nothing is written or delivered before the last byte of the packet has arrived. -/
theorem nothing_before_last_byte (p : List Nat) (pre suf : List Nat) (hs : pack p = pre ++ suf) (hne : suf ≠ [])
    (q : Option Nat) (s dl : List (List Nat)) :
    ∃ d, feed ⟨.idle, q, s, dl, none⟩ pre = ⟨d, q, s, dl, none⟩ :=
  ⟨_, feed_silent .idle q s dl pre ((decoder_yields_exactly_one p).2 pre suf hs hne)⟩

/-! ### 3. bad checksums are negatively acknowledged -/

/-- Exact behaviour on a frame `$ d # c1 c2` (no `#` in `d`), every chunking: `+` and delivery of
    the unescaped data iff `int(c1 c2, 16)` equals the modulo-256 sum, otherwise `-` and nothing. -/
theorem frame_acknowledged_iff (d : List Nat) (c1 c2 : Nat) (hd : ∀ b ∈ d, b ≠ 35)
    (chunks : List (List Nat)) (hc : chunks.flatten = 36 :: (d ++ [35, c1, c2]))
    (q : Option Nat) (s dl : List (List Nat)) :
    feedChunks ⟨.idle, q, s, dl, none⟩ chunks =
      if crcAccepts d c1 c2 then ⟨.idle, q, s ++ [[43]], dl ++ [unescape d], none⟩
      else ⟨.idle, q, s ++ [[45]], dl, none⟩ := by
  rw [feed_chunking, hc, feed_frame_result q s dl d c1 c2 hd]

/-- The full statement: every frame whose checksum is bad (specification: the field is not
    two hex digits with the value of the sum) is answered `-` and nothing is delivered.
    FALSE for the code: `int()` also reads `+0`, ` 5`, `5 ` … (witness below). -/
def bad_checksum_nacked_full : Prop :=
  ∀ (d : List Nat) (c1 c2 : Nat), (∀ b ∈ d, b ≠ 35) → checksumOk d c1 c2 = false →
    ∀ q s dl, feed ⟨.idle, q, s, dl, none⟩ (36 :: (d ++ [35, c1, c2])) = ⟨.idle, q, s ++ [[45]], dl, none⟩

/-- Proved part: guard = the frame is not in the lax region (`laxItem`: accepted by `int()`
    although the field is not two hex digits).  In particular it covers every field made of
    two hex digits with the wrong value and every field `int()` cannot read. Every chunking. -/
theorem bad_checksum_nacked_partial (d : List Nat) (c1 c2 : Nat) (hd : ∀ b ∈ d, b ≠ 35)
    (hbad : checksumOk d c1 c2 = false) (hguard : laxItem (.frame d c1 c2) = false)
    (chunks : List (List Nat)) (hc : chunks.flatten = 36 :: (d ++ [35, c1, c2]))
    (q : Option Nat) (s dl : List (List Nat)) :
    feedChunks ⟨.idle, q, s, dl, none⟩ chunks = ⟨.idle, q, s ++ [[45]], dl, none⟩ := by
  rw [frame_acknowledged_iff d c1 c2 hd chunks hc, strict_or_not_accepted d c1 c2 hguard, hbad]
  rfl

/-- the guard holds for every two-hex-digit field -/
theorem strict_field_not_lax (d : List Nat) (c1 c2 : Nat) (h : strictField c1 c2 = true) :
    laxItem (.frame d c1 c2) = false := by
  simp [laxItem, h]

/-- A frame with a good checksum is answered `+` and its unescaped data delivered. -/
theorem good_checksum_delivered (d : List Nat) (c1 c2 : Nat) (hd : ∀ b ∈ d, b ≠ 35)
    (hgood : checksumOk d c1 c2 = true)
    (chunks : List (List Nat)) (hc : chunks.flatten = 36 :: (d ++ [35, c1, c2]))
    (q : Option Nat) (s dl : List (List Nat)) :
    feedChunks ⟨.idle, q, s, dl, none⟩ chunks = ⟨.idle, q, s ++ [[43]], dl ++ [Spec.Rsp.unescape d], none⟩ := by
  rw [frame_acknowledged_iff d c1 c2 hd chunks hc, checksumOk_imp_crcAccepts d c1 c2 hgood, unescape_eq_spec]
  rfl

/-! ### 4. no incoming message is lost or delivered twice -/

/-- For every stream of frames (good or bad) and noise bytes, in every chunking: exactly one
    reply per frame, and the delivered messages are the accepted frames, in order, once each
    (`mReply`/`mPayload`: acceptance as the code decides it). -/
theorem receiver_exactly_once (items : List Item) (hw : ∀ it ∈ items, it.wf = true ∧ it.isAck = false)
    (chunks : List (List Nat)) (hc : chunks.flatten = Spec.Rsp.render items)
    (q : Option Nat) (s dl : List (List Nat)) :
    feedChunks ⟨.idle, q, s, dl, none⟩ chunks =
      ⟨.idle, q, s ++ items.filterMap mReply, dl ++ items.filterMap mPayload, none⟩ := by
  rw [feed_chunking, hc, feed_items_noack items q s dl hw]

/-- The same against the specification's notion of a valid packet; guard: no frame of the
    stream lies in the lax-checksum region. -/
theorem receiver_exactly_once_spec_partial (items : List Item)
    (hw : ∀ it ∈ items, it.wf = true ∧ it.isAck = false) (hguard : ∀ it ∈ items, laxItem it = false)
    (chunks : List (List Nat)) (hc : chunks.flatten = Spec.Rsp.render items)
    (q : Option Nat) (s dl : List (List Nat)) :
    feedChunks ⟨.idle, q, s, dl, none⟩ chunks =
      ⟨.idle, q, s ++ items.filterMap Item.reply?, dl ++ items.filterMap Item.payload?, none⟩ := by
  rw [receiver_exactly_once items hw chunks hc]
  have e1 : items.filterMap mReply = items.filterMap Item.reply? := by
    exact filterMap_congr' _ _ _ (fun it hit => mReply_eq_spec it (hguard it hit))
  have e2 : items.filterMap mPayload = items.filterMap Item.payload? := by
    exact filterMap_congr' _ _ _ (fun it hit => mPayload_eq_spec it (hguard it hit))
  rw [e1, e2]

/-! ### 5. the sender -/

/-- For every acknowledgement sequence (each transmission answered by one `+`/`-`, or the peer
    falls silent when the sequence ends) and every budget `retries ≥ 1`:
    the packet is written `1 + min (nacks before the first '+') retries` times, nothing else is
    written or delivered, and the call ends normally / with ValueError("retry fail") /
    with queue.Empty exactly as `Spec.Rsp.outcome` says. -/
theorem sendpkt_acks (data : List Nat) (acks : List Nat) (ha : ∀ a ∈ acks, a = 43 ∨ a = 45)
    (retries : Nat) (hR : 1 ≤ retries) (s dl : List (List Nat)) :
    sendpkt ⟨.idle, none, s, dl, none⟩ data (retries : Int) (acks.map (fun a => [a])) =
      ⟨.idle, none, s ++ List.replicate (transmissions retries acks) (pack data), dl,
        errOf (outcome retries acks)⟩ := by
  have hg : ∀ r ∈ acks.map Round.ofAck, r.good := by
    intro r hr
    simp only [List.mem_map] at hr
    obtain ⟨a, hmem, rfl⟩ := hr
    exact Round.ofAck_good a (ha a hmem)
  have hb : (acks.map Round.ofAck).map Round.bytes = acks.map (fun a => [a]) := by
    simp [Round.ofAck, Function.comp_def]
  have hk : (acks.map Round.ofAck).map Round.ack = acks := by
    simp [Round.ofAck, Function.comp_def]
  have h := sendpkt_rounds data (acks.map Round.ofAck) hg s dl retries hR
  simp only [hb, hk] at h
  rw [h]
  have hs : ∀ t, ((acks.map Round.ofAck).take t).flatMap (fun r => pack data :: r.sent)
      = List.replicate (min t acks.length) (pack data) := by
    intro t
    have : ∀ r ∈ (acks.map Round.ofAck).take t, (fun r : Round => pack data :: r.sent) r = [pack data] := by
      intro r hr
      have hr' := List.mem_of_mem_take hr
      simp only [List.mem_map] at hr'
      obtain ⟨a, _, rfl⟩ := hr'
      rfl
    rw [flatMap_congr' _ _ _ this, flatMap_const_singleton]
    simp
  have hd : ∀ t, ((acks.map Round.ofAck).take t).flatMap Round.deliv = [] := by
    intro t
    simp only [List.flatMap_eq_nil_iff]
    intro r hr
    have hr' := List.mem_of_mem_take hr
    simp only [List.mem_map] at hr'
    obtain ⟨a, _, rfl⟩ := hr'
    rfl
  simp only [hs, hd, List.append_nil]
  by_cases ht : outcome retries acks = .timeout
  · have := transmissions_of_timeout retries acks ht
    simp only [ht, if_true, this]
    have e : min (acks.length + 1) acks.length = acks.length := by omega
    rw [e, List.append_assoc, ← List.replicate_succ']
  · have := transmissions_of_not_timeout retries acks ht
    simp only [ht, if_false, List.append_nil]
    have e : min (transmissions retries acks) acks.length = transmissions retries acks := by omega
    rw [e]

/-- "error iff the budget is exhausted": when the peer answers every transmission
    (more acknowledgements than the budget), the send fails iff the first `retries`
    acknowledgements are all negative; it never times out. -/
theorem sender_error_iff_budget_exhausted (retries : Nat) (acks : List Nat) (hlong : retries < acks.length) :
    (outcome retries acks = .retryFail ↔ retries ≤ nacksBeforePlus acks) ∧
    (outcome retries acks = .acked ↔ nacksBeforePlus acks < retries) ∧
    outcome retries acks ≠ .timeout := by
  unfold outcome
  by_cases h1 : nacksBeforePlus acks < retries
  · have h2 : nacksBeforePlus acks < acks.length := by omega
    have h3 : ¬ retries ≤ nacksBeforePlus acks := by omega
    simp [h1, h2, h3]
  · have h3 : retries ≤ nacksBeforePlus acks := by omega
    simp [h1, hlong, h3]

/-- The same with notifications, bad frames and noise interleaved in the replies: reply `i` is
    `pre_i ++ [ack a_i] ++ post_i` (well-formed items, `pre`/`post` without acknowledgements).
    The packet is transmitted `t = transmissions retries a` times; after each of the first `t`
    replies' worth of traffic every frame has got its one reply and every accepted frame was
    delivered once, in order — none lost, none duplicated, while the retransmissions go on. -/
theorem sendpkt_interleaved (data : List Nat) (replies : List (List Item × Nat × List Item))
    (hw : ∀ r ∈ replies, (r.2.1 = 43 ∨ r.2.1 = 45) ∧
      (∀ it ∈ r.1, it.wf = true ∧ it.isAck = false) ∧ (∀ it ∈ r.2.2, it.wf = true ∧ it.isAck = false))
    (retries : Nat) (hR : 1 ≤ retries) (s dl : List (List Nat)) :
    let acks := replies.map (fun r => r.2.1)
    let t := transmissions retries acks
    sendpkt ⟨.idle, none, s, dl, none⟩ data (retries : Int)
        (replies.map (fun r => Spec.Rsp.render (r.1 ++ [.ack r.2.1] ++ r.2.2))) =
      ⟨.idle, none,
        s ++ (replies.take t).flatMap (fun r => pack data :: (r.1 ++ r.2.2).filterMap mReply)
          ++ (if outcome retries acks = .timeout then [pack data] else []),
        dl ++ (replies.take t).flatMap (fun r => (r.1 ++ r.2.2).filterMap mPayload),
        errOf (outcome retries acks)⟩ := by
  intro acks t
  let rounds := replies.map (fun r => Round.ofItems r.1 r.2.1 r.2.2)
  have hg : ∀ r ∈ rounds, r.good := by
    intro r hr
    simp only [rounds, List.mem_map] at hr
    obtain ⟨x, hx, rfl⟩ := hr
    obtain ⟨h1, h2, h3⟩ := hw x hx
    exact Round.ofItems_good x.1 x.2.2 x.2.1 h1 h2 h3
  have hb : rounds.map Round.bytes = replies.map (fun r => Spec.Rsp.render (r.1 ++ [.ack r.2.1] ++ r.2.2)) := by
    simp [rounds, Round.ofItems, Function.comp_def]
  have hk : rounds.map Round.ack = acks := by
    simp [rounds, acks, Round.ofItems, Function.comp_def]
  have h := sendpkt_rounds data rounds hg s dl retries hR
  simp only [hb, hk] at h
  rw [h]
  have e1 : ∀ n, (rounds.take n).flatMap (fun r => pack data :: r.sent)
      = (replies.take n).flatMap (fun r => pack data :: (r.1 ++ r.2.2).filterMap mReply) := by
    intro n
    simp [rounds, ← List.map_take, List.flatMap_map, Round.ofItems]
  have e2 : ∀ n, (rounds.take n).flatMap Round.deliv
      = (replies.take n).flatMap (fun r => (r.1 ++ r.2.2).filterMap mPayload) := by
    intro n
    simp [rounds, ← List.map_take, List.flatMap_map, Round.ofItems]
  simp only [e1, e2, t]

/-! ### non-vacuity / concrete instances and negation witnesses -/

-- a payload with every special character: "a}b*#$'"
example : pack [97, 125, 98, 42, 35, 36, 39] =
    [36, 97, 125, 93, 98, 125, 10, 125, 3, 125, 4, 39, 35, 52, 67] := by decide
example : feedChunks {} [[36, 97, 125], [93, 98, 125, 10, 125, 3, 125], [4, 39, 35, 52], [67]] =
    ⟨.idle, none, [[43]], [[97, 125, 98, 42, 35, 36, 39]], none⟩ := by decide
-- a wrong two-digit checksum: "$abc#20" -> '-'
example : feed {} [36, 97, 98, 99, 35, 50, 48] = ⟨.idle, none, [[45]], [], none⟩ := by decide
example : checksumOk [97, 98, 99] 50 48 = false ∧ laxItem (.frame [97, 98, 99] 50 48) = false := by decide
-- sender: "-", "-", "+" -> three transmissions of "$a#61", no error
example : sendpkt {} [97] 10 [[45], [45], [43]] =
    ⟨.idle, none, [[36, 97, 35, 54, 49], [36, 97, 35, 54, 49], [36, 97, 35, 54, 49]], [], none⟩ := by decide
example : transmissions 10 [45, 45, 43] = 3 ∧ outcome 10 [45, 45, 43] = .acked := by decide
-- budget of 2 exhausted: three transmissions, ValueError
example : (sendpkt {} [97] 2 [[45], [45], [43]]).err = some .valueError ∧
    (sendpkt {} [97] 2 [[45], [45], [43]]).sent.length = 3 := by decide
example : outcome 2 [45, 45, 43] = .retryFail := by decide
-- a stop notification "$T05#b9" interleaved with the nack, then the ack
example : sendpkt {} [97] 10 [[36, 84, 48, 53, 35, 98, 57, 45], [43]] =
    ⟨.idle, none, [[36, 97, 35, 54, 49], [43], [36, 97, 35, 54, 49]], [[84, 48, 53]], none⟩ := by decide

/-- OPEN FINDING (negation witness of `bad_checksum_nacked_full`): the frame `$#+0` has the
    checksum field `+0`, which is not two hex digits, yet it is acknowledged and delivered. -/
example : ¬ bad_checksum_nacked_full := by
  intro h
  have := h [] 43 48 (by simp) (by decide) none [] []
  revert this
  decide
example : laxItem (.frame [] 43 48) = true := by decide

/-! negation witnesses of the three repaired defects, on the model of the pinned snapshot -/
-- (a) `-` was skipped like noise: no acknowledgement message, so `sendpkt` never saw a nack
example : (Legacy.decodeAll .idle [45]).2 = [] ∧ (decodeAll .idle [45]).2 = [.ack 45] := by decide
-- (b) `rsp_pack "a'"` = `$a'#88` was never framed: no message although the packet is complete
example : (Legacy.decodeAll .idle (pack [97, 39])).2 = [] ∧
    (decodeAll .idle (pack [97, 39])).2 = [.pkt (pack [97, 39])] := by decide
-- (c) `rsp_unpack` did not unescape: `}` came back as `}]`
example : Legacy.unpack (pack [125]) = .ok [125, 93] ∧ unpack (pack [125]) = .ok [125] := ⟨rfl, rfl⟩

end Props.C35
