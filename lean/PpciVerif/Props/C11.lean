import PpciVerif.Model.LinkReloc
import PpciVerif.Spec.RelocSem
import PpciVerif.Proofs.LinkReloc
import PpciVerif.Proofs.LinkRelocList
import PpciVerif.Proofs.Resolve
import PpciVerif.Spec.LinkGuard
import PpciVerif.Proofs.Reloc
import PpciVerif.Proofs.RelocRv2
import PpciVerif.Proofs.RelocX86
import PpciVerif.Proofs.RelocThumb
import PpciVerif.Proofs.RelocArm
/-!
# C11 — linked references resolve exactly to their symbols

Property theorems only.  Model: `Model.LinkReloc` (the linker's `_do_relocation` step:
symbol value = symbol offset + section address, site address = section address + offset, slice,
apply, write back) over `Model.Reloc` (each relocation type's `apply`).  Specification:
`Spec.RelocSem.decodeTarget` — per relocation type the address a relocated field designates, written
from the RISC-V / ARM / Intel manuals.

Shape: P.  Every theorem has the form
  `doRelocation … = ok secs' → <representable> → decodeTarget type (site bytes of secs') P = S (+A)`.
The guard `<representable>` (`fitsS n (S - P)` …) is present exactly where the code's own range check is
too wide (C10's open findings, shared); thumb `wrap_new11`, `rel8`, `lit8`, the absolute types and the
riscv pc-relative pair need no guard.  "Unrepresentable ⇒ the link fails" holds only for what the code
rejects (`Props.C10.*_accept_iff`, `*_rejects*`).  Relocation types of the other eight targets, arm
`ldr_imm12`/`adr_imm12` and thumb `b_imm11_imm6` are not covered by theorems (the last three are modelled
and checked against the Spec decoders by the harness only).
-/
namespace Props.C11
open Model.LinkReloc Model.Reloc Spec.RelocSem Spec.LinkGuard Proofs.LinkReloc Proofs.Reloc

/-! ## the mechanism -/

/-- symbol value = symbol offset + address of its section (absolute symbols: the value itself) -/
theorem symbol_value {secs : List Sec} {syms : List Sym} {id : Nat} {s : Sym} {n : String} {sec : Sec}
    (hs : syms.find? (fun x => x.id == id) = some s) (hd : s.undefined = false) (hn : s.sect = some n)
    (hsec : getSec secs n = some sec) : symbolValue secs syms id = .ok (s.value + sec.address) := by
  simp [symbolValue, hs, hd, hn, hsec]

/-- an undefined symbol makes the step (hence the link) fail -/
theorem undefined_symbol_fails {isa : String} {secs : List Sec} {syms : List Sym} {r : RelocEntry} {s : Sym}
    (hs : syms.find? (fun x => x.id == r.symbolId) = some s) (hd : s.undefined = true) :
    doRelocation isa secs syms r = .error .ValueError := by
  simp [doRelocation, symbolValue, hs, hd]

/-- the relocation step: the site bytes become `apply S site P` with `S` the symbol value and
    `P = section address + offset`; the section keeps its name and address -/
theorem do_relocation_effect {isa : String} {secs secs' : List Sec} {syms : List Sym} {r : RelocEntry}
    (h : doRelocation isa secs syms r = .ok secs') :
    ∃ S sec size out,
      symbolValue secs syms r.symbolId = .ok S ∧ getSec secs r.sect = some sec
      ∧ relocSize isa r.relocType = some size
      ∧ Model.Reloc.apply isa r.relocType r.addend S (slice sec.data r.offset size) (sec.address + r.offset) = some (.ok out)
      ∧ out.length = size ∧ (slice sec.data r.offset size).length = size
      ∧ getSec secs' r.sect = some { sec with data := splice sec.data r.offset out }
      ∧ (r.offset + size ≤ sec.data.length → slice (splice sec.data r.offset out) r.offset size = out) :=
  doRelocation_spec h

/-- no byte outside the relocated site changes, and the section does not grow or shrink -/
theorem do_relocation_frame {data out : List Nat} {b : Nat} (h : b + out.length ≤ data.length) :
    (splice data b out).length = data.length
    ∧ ∀ i, (i < b ∨ b + out.length ≤ i) → (splice data b out)[i]? = data[i]? :=
  ⟨splice_length h, fun i hi => splice_frame h i hi⟩

/-! ## per relocation type: the linked field designates the symbol -/

/-- riscv `b_imm12` (conditional branch).  Guard: distance fits the B-type offset (finding otherwise). -/
theorem linked_riscv_b_imm12_partial {secs secs' : List Sec} {syms : List Sym} {r : RelocEntry}
    (hty : r.relocType = "b_imm12") (h : doRelocation "riscv" secs syms r = .ok secs') :
    ∃ S sec, symbolValue secs syms r.symbolId = .ok S ∧ getSec secs r.sect = some sec ∧
      (Spec.Bits.fitsS 13 (S - (sec.address + r.offset)) →
        decodeTarget "riscv" "b_imm12" (linkedSite secs' r 4) (sec.address + r.offset) = some S) := by
  obtain ⟨S, sec, out, h1, h2, h4, h6, h7, h8⟩ := site h (n := 4) (by rw [hty]; rfl) (by decide)
  refine ⟨S, sec, h1, h2, fun hfit => ?_⟩
  rw [hty] at h4
  have hap : Riscv.bImm12 S (slice sec.data r.offset 4) (sec.address + r.offset) = .ok out := by
    simpa [Model.Reloc.apply] using h4
  rw [linkedSite_eq h7 h8]
  simp only [decodeTarget]
  rw [bImm12_target h6 hap hfit]

/-- riscv `b_imm20` / rvc `cb_imm11`, `cbl_imm11` (JAL / J) -/
theorem linked_riscv_b_imm20_partial {secs secs' : List Sec} {syms : List Sym} {r : RelocEntry}
    (hty : r.relocType = "b_imm20") (hbytes : ∀ s ∈ secs, ∀ x ∈ s.data, x < 256)
    (h : doRelocation "riscv" secs syms r = .ok secs') :
    ∃ S sec, symbolValue secs syms r.symbolId = .ok S ∧ getSec secs r.sect = some sec ∧
      (Spec.Bits.fitsS 21 (S - (sec.address + r.offset)) →
        decodeTarget "riscv" "b_imm20" (linkedSite secs' r 4) (sec.address + r.offset) = some S) := by
  obtain ⟨S, sec, out, h1, h2, h4, h6, h7, h8⟩ := site h (n := 4) (by rw [hty]; rfl) (by decide)
  refine ⟨S, sec, h1, h2, fun hfit => ?_⟩
  rw [hty] at h4
  have hap : Riscv.bImm20 S (slice sec.data r.offset 4) (sec.address + r.offset) = .ok out := by
    simpa [Model.Reloc.apply] using h4
  have hb := bytes_slice (hbytes sec (List.mem_of_find?_eq_some h2)) r.offset 4
  rw [linkedSite_eq h7 h8]
  simp only [decodeTarget]
  rw [bImm20_target h6 hb hap hfit]

/-- rvc `bc_imm11` (C.J / C.JAL) -/
theorem linked_rvc_bc_imm11_partial {secs secs' : List Sec} {syms : List Sym} {r : RelocEntry}
    (hty : r.relocType = "bc_imm11") (hbytes : ∀ s ∈ secs, ∀ x ∈ s.data, x < 256)
    (h : doRelocation "riscv" secs syms r = .ok secs') :
    ∃ S sec, symbolValue secs syms r.symbolId = .ok S ∧ getSec secs r.sect = some sec ∧
      (Spec.Bits.fitsS 12 (S - (sec.address + r.offset)) →
        decodeTarget "riscv" "bc_imm11" (linkedSite secs' r 2) (sec.address + r.offset) = some S) := by
  obtain ⟨S, sec, out, h1, h2, h4, h6, h7, h8⟩ := site h (n := 2) (by rw [hty]; rfl) (by decide)
  refine ⟨S, sec, h1, h2, fun hfit => ?_⟩
  rw [hty] at h4
  have hap : Rvc.bcImm11 S (slice sec.data r.offset 2) (sec.address + r.offset) = .ok out := by
    simpa [Model.Reloc.apply] using h4
  have hb := bytes_slice (hbytes sec (List.mem_of_find?_eq_some h2)) r.offset 2
  rw [linkedSite_eq h7 h8]
  simp only [decodeTarget]
  rw [bcImm11_target h6 hb hap hfit]

/-- rvc `bc_imm8` (C.BEQZ / C.BNEZ) -/
theorem linked_rvc_bc_imm8_partial {secs secs' : List Sec} {syms : List Sym} {r : RelocEntry}
    (hty : r.relocType = "bc_imm8") (hbytes : ∀ s ∈ secs, ∀ x ∈ s.data, x < 256)
    (h : doRelocation "riscv" secs syms r = .ok secs') :
    ∃ S sec, symbolValue secs syms r.symbolId = .ok S ∧ getSec secs r.sect = some sec ∧
      (Spec.Bits.fitsS 9 (S - (sec.address + r.offset)) →
        decodeTarget "riscv" "bc_imm8" (linkedSite secs' r 2) (sec.address + r.offset) = some S) := by
  obtain ⟨S, sec, out, h1, h2, h4, h6, h7, h8⟩ := site h (n := 2) (by rw [hty]; rfl) (by decide)
  refine ⟨S, sec, h1, h2, fun hfit => ?_⟩
  rw [hty] at h4
  have hap : Rvc.bcImm8 S (slice sec.data r.offset 2) (sec.address + r.offset) = .ok out := by
    simpa [Model.Reloc.apply] using h4
  have hb := bytes_slice (hbytes sec (List.mem_of_find?_eq_some h2)) r.offset 2
  rw [linkedSite_eq h7 h8]
  simp only [decodeTarget]
  rw [bcImm8_target h6 hb hap hfit]

/-- arm `imm24` (B / BL): target = P + 8 + sext(imm24)·4 -/
theorem linked_arm_imm24_partial {secs secs' : List Sec} {syms : List Sym} {r : RelocEntry}
    (hty : r.relocType = "imm24") (h : doRelocation "arm" secs syms r = .ok secs') :
    ∃ S sec, symbolValue secs syms r.symbolId = .ok S ∧ getSec secs r.sect = some sec ∧
      (Spec.Bits.fitsS 26 (S - (sec.address + r.offset) - 8) →
        decodeTarget "arm" "imm24" (linkedSite secs' r 4) (sec.address + r.offset) = some S) := by
  obtain ⟨S, sec, out, h1, h2, h4, h6, h7, h8⟩ := site h (n := 4) (by rw [hty]; rfl) (by decide)
  refine ⟨S, sec, h1, h2, fun hfit => ?_⟩
  rw [hty] at h4
  have hap : Arm.imm24 S (slice sec.data r.offset 4) (sec.address + r.offset) = .ok out := by
    simpa [Model.Reloc.apply] using h4
  rw [linkedSite_eq h7 h8]
  simp only [decodeTarget]
  rw [imm24_target h6 hap hfit]

/-- arm `ldr_imm12` (LDR literal): the apply checks `|S - P - 8| < 4096` exactly; needs the U bit and imm12[11:8]
    clear in the emitted instruction because the relocation ORs into them — full under that assumption -/
theorem linked_arm_ldr_imm12 {secs secs' : List Sec} {syms : List Sym} {r : RelocEntry}
    (hty : r.relocType = "ldr_imm12") (hbytes : ∀ s ∈ secs, ∀ x ∈ s.data, x < 256)
    (h : doRelocation "arm" secs syms r = .ok secs') :
    ∃ S sec, symbolValue secs syms r.symbolId = .ok S ∧ getSec secs r.sect = some sec ∧
      (bits (wordLE (slice sec.data r.offset 4)) 8 4 = 0 → bits (wordLE (slice sec.data r.offset 4)) 23 1 = 0 →
        decodeTarget "arm" "ldr_imm12" (linkedSite secs' r 4) (sec.address + r.offset) = some S) := by
  obtain ⟨S, sec, out, h1, h2, h4, h6, h7, h8⟩ := site h (n := 4) (by rw [hty]; rfl) (by decide)
  refine ⟨S, sec, h1, h2, fun hi hu => ?_⟩
  rw [hty] at h4
  have hap : Arm.ldrImm12 S (slice sec.data r.offset 4) (sec.address + r.offset) = .ok out := by
    simpa [Model.Reloc.apply] using h4
  have hb := bytes_slice (hbytes sec (List.mem_of_find?_eq_some h2)) r.offset 4
  rw [linkedSite_eq h7 h8]
  simp only [decodeTarget]
  rw [ldrImm12_target h6 hb hi hu hap]

/-- thumb `wrap_new11` (B): every successful link resolves exactly — full (halfword-aligned site) -/
theorem linked_thumb_wrap_new11 {secs secs' : List Sec} {syms : List Sym} {r : RelocEntry}
    (hty : r.relocType = "wrap_new11") (hbytes : ∀ s ∈ secs, ∀ x ∈ s.data, x < 256)
    (h : doRelocation "thumb" secs syms r = .ok secs') :
    ∃ S sec, symbolValue secs syms r.symbolId = .ok S ∧ getSec secs r.sect = some sec ∧
      ((sec.address + r.offset) % 2 = 0 →
        decodeTarget "thumb" "wrap_new11" (linkedSite secs' r 2) (sec.address + r.offset) = some S) := by
  obtain ⟨S, sec, out, h1, h2, h4, h6, h7, h8⟩ := site h (n := 2) (by rw [hty]; rfl) (by decide)
  refine ⟨S, sec, h1, h2, fun hP => ?_⟩
  rw [hty] at h4
  have hap : Thumb.wrapNew11 S (slice sec.data r.offset 2) (sec.address + r.offset) = .ok out := by
    simpa [Model.Reloc.apply] using h4
  have hb := bytes_slice (hbytes sec (List.mem_of_find?_eq_some h2)) r.offset 2
  rw [linkedSite_eq h7 h8]
  simp only [decodeTarget]
  rw [wrapNew11_target h6 hb hP hap]

/-- thumb `rel8` (B<c>) — full -/
theorem linked_thumb_rel8 {secs secs' : List Sec} {syms : List Sym} {r : RelocEntry}
    (hty : r.relocType = "rel8") (hbytes : ∀ s ∈ secs, ∀ x ∈ s.data, x < 256)
    (h : doRelocation "thumb" secs syms r = .ok secs') :
    ∃ S sec, symbolValue secs syms r.symbolId = .ok S ∧ getSec secs r.sect = some sec ∧
      ((sec.address + r.offset) % 2 = 0 →
        decodeTarget "thumb" "rel8" (linkedSite secs' r 2) (sec.address + r.offset) = some S) := by
  obtain ⟨S, sec, out, h1, h2, h4, h6, h7, h8⟩ := site h (n := 2) (by rw [hty]; rfl) (by decide)
  refine ⟨S, sec, h1, h2, fun hP => ?_⟩
  rw [hty] at h4
  have hap : Thumb.rel8 S (slice sec.data r.offset 2) (sec.address + r.offset) = .ok out := by
    simpa [Model.Reloc.apply] using h4
  have hb := bytes_slice (hbytes sec (List.mem_of_find?_eq_some h2)) r.offset 2
  rw [linkedSite_eq h7 h8]
  simp only [decodeTarget]
  rw [rel8_target h6 hb hP hap]

/-- thumb `lit8` (LDR literal / ADR) — full -/
theorem linked_thumb_lit8 {secs secs' : List Sec} {syms : List Sym} {r : RelocEntry}
    (hty : r.relocType = "lit8") (hbytes : ∀ s ∈ secs, ∀ x ∈ s.data, x < 256)
    (h : doRelocation "thumb" secs syms r = .ok secs') :
    ∃ S sec, symbolValue secs syms r.symbolId = .ok S ∧ getSec secs r.sect = some sec ∧
      ((sec.address + r.offset) % 2 = 0 →
        decodeTarget "thumb" "lit8" (linkedSite secs' r 2) (sec.address + r.offset) = some S) := by
  obtain ⟨S, sec, out, h1, h2, h4, h6, h7, h8⟩ := site h (n := 2) (by rw [hty]; rfl) (by decide)
  refine ⟨S, sec, h1, h2, fun hP => ?_⟩
  rw [hty] at h4
  have hap : Thumb.lit8 S (slice sec.data r.offset 2) (sec.address + r.offset) = .ok out := by
    simpa [Model.Reloc.apply] using h4
  have hb := bytes_slice (hbytes sec (List.mem_of_find?_eq_some h2)) r.offset 2
  rw [linkedSite_eq h7 h8]
  simp only [decodeTarget]
  rw [lit8_target h6 hb hP hap]

/-- thumb `bl_imm11` (BL with J1 = J2 = 1 as emitted).  Guard ±4 MiB (finding beyond). -/
theorem linked_thumb_bl_imm11_partial {secs secs' : List Sec} {syms : List Sym} {r : RelocEntry}
    (hty : r.relocType = "bl_imm11") (hbytes : ∀ s ∈ secs, ∀ x ∈ s.data, x < 256)
    (h : doRelocation "thumb" secs syms r = .ok secs') :
    ∃ S sec, symbolValue secs syms r.symbolId = .ok S ∧ getSec secs r.sect = some sec ∧
      ((sec.address + r.offset) % 2 = 0 →
       bits (wordLE (slice sec.data r.offset 4)) 29 1 = 1 → bits (wordLE (slice sec.data r.offset 4)) 27 1 = 1 →
       Spec.Bits.fitsS 23 (S - (sec.address + r.offset) - 4) →
        decodeTarget "thumb" "bl_imm11" (linkedSite secs' r 4) (sec.address + r.offset) = some S) := by
  obtain ⟨S, sec, out, h1, h2, h4, h6, h7, h8⟩ := site h (n := 4) (by rw [hty]; rfl) (by decide)
  refine ⟨S, sec, h1, h2, fun hP hj1 hj2 hfit => ?_⟩
  rw [hty] at h4
  have hap : Thumb.blImm11 S (slice sec.data r.offset 4) (sec.address + r.offset) = .ok out := by
    simpa [Model.Reloc.apply] using h4
  have hb := bytes_slice (hbytes sec (List.mem_of_find?_eq_some h2)) r.offset 4
  rw [linkedSite_eq h7 h8]
  simp only [decodeTarget]
  rw [blImm11_target h6 hb hP hj1 hj2 hap hfit]

/-- x86_64 `rel32`: relative to the field's own address, `P + sext32(field) = S + A` -/
theorem linked_x86_rel32_partial {secs secs' : List Sec} {syms : List Sym} {r : RelocEntry}
    (hty : r.relocType = "rel32") (h : doRelocation "x86_64" secs syms r = .ok secs') :
    ∃ S sec, symbolValue secs syms r.symbolId = .ok S ∧ getSec secs r.sect = some sec ∧
      (Spec.Bits.fitsS 32 (S + r.addend - (sec.address + r.offset)) →
        decodeTarget "x86_64" "rel32" (linkedSite secs' r 4) (sec.address + r.offset) = some (S + r.addend)) := by
  obtain ⟨S, sec, out, h1, h2, h4, h6, h7, h8⟩ := site h (n := 4) (by rw [hty]; rfl) (by decide)
  refine ⟨S, sec, h1, h2, fun hfit => ?_⟩
  rw [hty] at h4
  have hap : X86.rel32 r.addend S (slice sec.data r.offset 4) (sec.address + r.offset) = .ok out := by
    simpa [Model.Reloc.apply] using h4
  rw [linkedSite_eq h7 h8]
  simp only [decodeTarget]
  rw [rel32_target h6 hap hfit]

/-- x86_64 `jmp8` -/
theorem linked_x86_jmp8_partial {secs secs' : List Sec} {syms : List Sym} {r : RelocEntry}
    (hty : r.relocType = "jmp8") (h : doRelocation "x86_64" secs syms r = .ok secs') :
    ∃ S sec, symbolValue secs syms r.symbolId = .ok S ∧ getSec secs r.sect = some sec ∧
      (Spec.Bits.fitsS 8 (S - (sec.address + r.offset) - 1) →
        decodeTarget "x86_64" "jmp8" (linkedSite secs' r 1) (sec.address + r.offset) = some S) := by
  obtain ⟨S, sec, out, h1, h2, h4, h6, h7, h8⟩ := site h (n := 1) (by rw [hty]; rfl) (by decide)
  refine ⟨S, sec, h1, h2, fun hfit => ?_⟩
  rw [hty] at h4
  have hap : X86.jmp8 S (slice sec.data r.offset 1) (sec.address + r.offset) = .ok out := by
    simpa [Model.Reloc.apply] using h4
  rw [linkedSite_eq h7 h8]
  simp only [decodeTarget]
  rw [jmp8_target h6 hap hfit]

/-- absolute 32/64-bit fields (`abs32`, `abs64`, `absaddr32`, `absaddr64`): a successful link stores the
    symbol address itself — full (addresses are non-negative) -/
theorem linked_x86_abs32 {secs secs' : List Sec} {syms : List Sym} {r : RelocEntry}
    (hty : r.relocType = "abs32") (h : doRelocation "x86_64" secs syms r = .ok secs') :
    ∃ S, symbolValue secs syms r.symbolId = .ok S ∧
      (0 ≤ S → ∀ P, decodeTarget "x86_64" "abs32" (linkedSite secs' r 4) P = some S) := by
  obtain ⟨S, sec, out, h1, h2, h4, h6, h7, h8⟩ := site h (n := 4) (by rw [hty]; rfl) (by decide)
  refine ⟨S, h1, fun hS P => ?_⟩
  rw [hty] at h4
  have hap : X86.abs32 S (slice sec.data r.offset 4) (sec.address + r.offset) = .ok out := by
    simpa [Model.Reloc.apply] using h4
  rw [linkedSite_eq h7 h8]
  simp only [decodeTarget]
  rw [(abs32_target h6 hS hap).1]

theorem linked_x86_abs64 {secs secs' : List Sec} {syms : List Sym} {r : RelocEntry}
    (hty : r.relocType = "abs64") (h : doRelocation "x86_64" secs syms r = .ok secs') :
    ∃ S, symbolValue secs syms r.symbolId = .ok S ∧
      (0 ≤ S → ∀ P, decodeTarget "x86_64" "abs64" (linkedSite secs' r 8) P = some S) := by
  obtain ⟨S, sec, out, h1, h2, h4, h6, h7, h8⟩ := site h (n := 8) (by rw [hty]; rfl) (by decide)
  refine ⟨S, h1, fun hS P => ?_⟩
  rw [hty] at h4
  have hap : X86.abs64 S (slice sec.data r.offset 8) (sec.address + r.offset) = .ok out := by
    simpa [Model.Reloc.apply] using h4
  rw [linkedSite_eq h7 h8]
  simp only [decodeTarget]
  rw [(abs64_target h6 hS hap).1]

/-- riscv absolute pair at the `apply` level (two relocations, `lui` + `addi`): for a 32-bit address the
    pair of relocated instructions computes exactly `S`; for any integer it computes `S mod 2^32` -/
theorem riscv_abs32_pair_mod {S P P' : Int} {dhi dlo ohi olo : List Nat} (h1 : dhi.length = 4)
    (hb1 : ∀ b ∈ dhi, b < 256) (h2 : dlo.length = 4)
    (hhi : Riscv.abs32Imm20 S dhi P = .ok ohi) (hlo : Riscv.abs32Imm12 S dlo P' = .ok olo) :
    rvHiLo (wordLE ohi) (wordLE olo) = Spec.Bits.wrapU 32 S := abs32_pair h1 hb1 h2 hhi hlo

/-- riscv pc-relative pair (`auipc` at `P`, `addi` at `P + 4`): `(hi << 12) + sext12(lo) ≡ S - P (mod 2^32)` — full -/
theorem riscv_rel_pair_mod {S P : Int} {dhi dlo ohi olo : List Nat} (h1 : dhi.length = 4)
    (hb1 : ∀ b ∈ dhi, b < 256) (h2 : dlo.length = 4)
    (hhi : Riscv.relImm20 S dhi P = .ok ohi) (hlo : Riscv.relImm12 S dlo (P + 4) = .ok olo) :
    rvHiLo (wordLE ohi) (wordLE olo) = Spec.Bits.wrapU 32 (S - P) := rel_pair h1 hb1 h2 hhi hlo

/-! ## the whole link: `do_relocations` over all relocations of the output object

`secs`, `syms`, `rs` are the sections (with their final addresses), symbols and relocation entries of the merged and
laid-out output object — exactly the state C12's theorems describe (`Model.Linker`: `mergeObjects` then
`layoutSections`; its `Obj.sections/symbols/relocs` with `address`/`data`, `value`/`section`, `typ/symbolId/section/offset/addend`
are the fields used here).  `sitesDisjoint` is decidable and is checked by the harness on every real link
(compiled programs: always true; ppci never emits two relocations into the same bytes). -/

/-- AFTER A SUCCESSFUL LINK EVERY RELOCATION SITE DESIGNATES ITS SYMBOL.  For every relocation `r` of the list: with
    `S` the final value of its symbol and `P` the final address of its site, if the reference is `resolvable`
    (representable + the standing assumptions, `Spec.LinkGuard`), the site bytes of the OUTPUT, read with the ISA
    decoder, designate `target = S` (`S + A` for x86_64 `rel32`). -/
theorem all_sites_resolve_partial {isa : String} {syms : List Sym} {rs : List RelocEntry} {secs secs' : List Sec}
    (h : doRelocations isa syms secs rs = .ok secs') (hd : sitesDisjoint isa rs = true)
    (hbytes : ∀ s ∈ secs, ∀ x ∈ s.data, x < 256) :
    ∀ r ∈ rs, ∃ S sec size,
      symbolValue secs syms r.symbolId = .ok S ∧ getSec secs r.sect = some sec ∧ relocSize isa r.relocType = some size
      ∧ (resolvable isa r.relocType r.addend S (sec.address + r.offset) (slice sec.data r.offset size) →
          decodeTarget isa r.relocType (linkedSite secs' r size) (sec.address + r.offset)
            = some (target isa r.relocType r.addend S)) := by
  intro r hr
  obtain ⟨S, sec, size, out, e1, e2, e3, e4, e5, sec', g1, _, g3⟩ := doRelocations_sites h hd r hr
  refine ⟨S, sec, size, e1, e2, e3, fun hg => ?_⟩
  have hb := bytes_slice (hbytes sec (List.mem_of_find?_eq_some e2)) r.offset size
  have : linkedSite secs' r size = out := by simp [linkedSite, g1, g3]
  rw [this]
  exact apply_resolves e5 (by rw [e4]; exact e3) hb hg

/-- …and every byte that is not part of a relocation site is the byte of the merged input (same sections, same
    addresses, same lengths): relocation is the ONLY thing that distinguishes the output image from C12's content. -/
theorem bytes_outside_sites_unchanged {isa : String} {syms : List Sym} {rs : List RelocEntry} {secs secs' : List Sec}
    (h : doRelocations isa syms secs rs = .ok secs') :
    ∀ n, (getSec secs' n = none ↔ getSec secs n = none) ∧
      ∀ s, getSec secs n = some s → ∃ s', getSec secs' n = some s' ∧ s'.address = s.address
        ∧ s'.data.length = s.data.length
        ∧ ∀ i, (∀ r ∈ rs, ¬ inSite isa r n i) → s'.data[i]? = s.data[i]? :=
  doRelocations_frame h

/-- symbol values are not affected by relocation (they depend on section addresses only) -/
theorem symbol_values_stable {isa : String} {syms : List Sym} {rs : List RelocEntry} {secs secs' : List Sec}
    (h : doRelocations isa syms secs rs = .ok secs') (id : Nat) :
    symbolValue secs' syms id = symbolValue secs syms id :=
  symbolValue_frame (doRelocations_frame h) syms id

/-! non-vacuity: three relocations of two types in one section, disjoint sites -/
example : sitesDisjoint "riscv" [⟨"b_imm20", 0, "code", 0, 0⟩, ⟨"b_imm12", 0, "code", 4, 0⟩, ⟨"b_imm20", 0, "code", 8, 0⟩] = true := by decide
example : sitesDisjoint "riscv" [⟨"b_imm20", 0, "code", 0, 0⟩, ⟨"b_imm12", 0, "code", 2, 0⟩] = false := by decide
example : doRelocations "riscv" [⟨0, false, 0x10, some "far"⟩]
    [⟨"code", 0x1000, [0x6f, 0, 0, 0, 0x63, 0, 0, 0]⟩, ⟨"far", 0x1100, [0, 0]⟩]
    [⟨"b_imm20", 0, "code", 0, 0⟩, ⟨"b_imm12", 0, "code", 4, 0⟩]
    = .ok [⟨"code", 0x1000, [0x6f, 0, 0, 0x11, 0x63, 0x06, 0, 0x10]⟩, ⟨"far", 0x1100, [0, 0]⟩] := by decide
example : decodeTarget "riscv" "b_imm20" [0x6f, 0, 0, 0x11] 0x1000 = some 0x1110
    ∧ decodeTarget "riscv" "b_imm12" [0x63, 0x06, 0, 0x10] 0x1004 = some 0x1110 := by decide

/-! ## the full statement, and why it is only partial -/

/-- the property as stated: whenever the step succeeds the field designates `S`, for EVERY distance -/
def linked_riscv_b_imm12_full : Prop :=
  ∀ (secs secs' : List Sec) (syms : List Sym) (r : RelocEntry), r.relocType = "b_imm12" →
    doRelocation "riscv" secs syms r = .ok secs' →
    ∃ S sec, symbolValue secs syms r.symbolId = .ok S ∧ getSec secs r.sect = some sec ∧
      decodeTarget "riscv" "b_imm12" (linkedSite secs' r 4) (sec.address + r.offset) = some S

def demoSecs : List Sec := [⟨"code", 0, [0x63, 0, 0, 0]⟩, ⟨"far", 6000, [0, 0, 0, 0]⟩]
def demoSyms : List Sym := [⟨0, false, 0, some "far"⟩]
def demoReloc : RelocEntry := ⟨"b_imm12", 0, "code", 0, 0⟩

/-- negation witness: a branch to a symbol 6000 bytes ahead links without error and designates -2192 -/
theorem linked_riscv_b_imm12_full_false : ¬ linked_riscv_b_imm12_full := by
  intro hfull
  have hd : doRelocation "riscv" demoSecs demoSyms demoReloc
      = .ok [⟨"code", 0, [99, 8, 0, 246]⟩, ⟨"far", 6000, [0, 0, 0, 0]⟩] := by decide
  obtain ⟨S, sec, h1, h2, h3⟩ := hfull _ _ _ demoReloc rfl hd
  have e1 : symbolValue demoSecs demoSyms demoReloc.symbolId = .ok 6000 := by decide
  have e2 : getSec demoSecs demoReloc.sect = some ⟨"code", 0, [0x63, 0, 0, 0]⟩ := by decide
  rw [e1] at h1; cases h1
  rw [e2] at h2; cases h2
  have e3 : decodeTarget "riscv" "b_imm12"
      (linkedSite [⟨"code", 0, [99, 8, 0, 246]⟩, ⟨"far", 6000, [0, 0, 0, 0]⟩] demoReloc 4) (0 + (0 : Nat)) = some (-2192) := by
    decide
  simp only [demoReloc] at h3 e3
  rw [e3] at h3
  cases h3

/-! non-vacuity: a real two-section link step inside the guard -/
example : doRelocation "riscv" [⟨"code", 0x1000, [0, 0, 0, 0, 0x6f, 0, 0, 0]⟩, ⟨"far", 0x3000, [0, 0]⟩]
    [⟨0, false, 0x10, some "far"⟩] ⟨"b_imm20", 0, "code", 4, 0⟩
    = .ok [⟨"code", 0x1000, [0, 0, 0, 0, 0x6f, 0x20, 0xc0, 0x00]⟩, ⟨"far", 0x3000, [0, 0]⟩] := by decide
example : decodeTarget "riscv" "b_imm20" [0x6f, 0x20, 0xc0, 0x00] 0x1004 = some 0x3010 := by decide

end Props.C11
