import PpciVerif.Model.Burg
import PpciVerif.Proofs.Burg
import PpciVerif.Gen.Burg_x86_64
import PpciVerif.Gen.Burg_arm
import PpciVerif.Gen.Burg_thumb
import PpciVerif.Gen.Burg_riscv
import PpciVerif.Gen.Burg_rvc
/-!
# C29 — instruction selection is total (every tree over the target's alphabet has a cover)

Model: `Model.Burg` (hand model of `TreeSelector.burm_label / mark_tree`, `BurgSystem.tree_terminal_equal`,
tied by differential labelling of real trees).  Tables: `Gen.Burg_<target>` (regenerated from the live
instruction selectors and the real `SelectionGraphBuilder` on every run).

* `selection_total` — the generic theorem, for ALL rule sets, alphabets and trees (induction on trees).
* per target `<t>_premise` (kernel evaluation on the regenerated tables), `<t>_exclusions_pinned`
  (the heads left out are exactly the recorded ones) and `<t>_selection_total_partial`.

Partial: the full statement `<t>_selection_total_full` (no head excluded) is FALSE on every target; the
negation is proved on a concrete tree (`Gen.Burg_<t>.negWitness`).  Every pinned head except the
`…CondOnly` ones is an open known finding `"<t>:<HEAD>"` reproduced with the real `ir_to_object` on every
run; the `…CondOnly` heads are covered by conditional rules only (the theorem is silent about them, the
harness compiles boundary constants).

Not covered: acceptance conditions (the theorem never relies on a conditional rule), exceptions raised
inside rule templates / encoders, register allocation, DAG splitting (trees are taken as given).
-/
namespace Props.C29
open Model.Burg

/-- **Generic totality theorem.**  If the decidable premise holds for a rule set, a sorted alphabet and a
guarantee table, then bottom-up labelling gives every well-sorted tree (of any size, with ANY outcome of the
acceptance callables) every non-terminal guaranteed for its sort. -/
theorem selection_total (rules : List Rule) (sig : List Sym) (g ct : List (Nat × List Nat)) (wit : List Nat)
    (hp : premise rules sig g ct wit = true) (t : Tree) (s : Nat) (hws : wellSorted sig t s = true)
    (nt : Nat) (hnt : nt ∈ guarOf g s) : covers rules t nt = true := by
  unfold covers
  exact Proofs.Burg.contains_iff.mpr (Proofs.Burg.cover_tree rules sig g ct wit hp t s hws nt hnt)

/-! ## x86_64 -/

/-- heads covered by conditional rules only (no finding: conditions hold for every in-range constant) -/
def x86_64CondOnly : List String := []

/-- the heads left out of the alphabet: the open findings `"x86_64:<HEAD>"` plus `x86_64CondOnly` -/
theorem x86_64_exclusions_pinned : Gen.Burg_x86_64.excludedNames =
    ["DIVI8", "DIVU8", "F32TOI16", "F32TOI8", "F32TOU16", "F32TOU8", "F64TOI16", "F64TOI8", "F64TOU16", "F64TOU8", "I16TOF32", "I16TOF64", "I8TOF32", "I8TOF64", "INVI8", "INVU8", "MULI16", "MULI8", "MULU16", "MULU8", "NEGI8", "NEGU8", "REMI16", "REMI8", "REMU16", "REMU8", "U16TOF32", "U16TOF64", "U8TOF32", "U8TOF64"] := by decide +kernel

/-- the certified alphabet `sigR` is exactly the regenerated alphabet minus the pinned heads -/
theorem x86_64_certified_alphabet :
    restrict Gen.Burg_x86_64.sig Gen.Burg_x86_64.excluded = Gen.Burg_x86_64.sigR := by decide +kernel

theorem x86_64_premise :
    premise Gen.Burg_x86_64.rules Gen.Burg_x86_64.sigR Gen.Burg_x86_64.guar Gen.Burg_x86_64.ct Gen.Burg_x86_64.wit = true := by decide +kernel

theorem x86_64_stm_guaranteed : Gen.Burg_x86_64.stmNt ∈ guarOf Gen.Burg_x86_64.guar Gen.Burg_x86_64.stmSort := by decide +kernel

/-- every statement tree over the alphabet minus the pinned heads is covered (goal `stm` reached) -/
theorem x86_64_selection_total_partial (t : Tree)
    (h : wellSorted (restrict Gen.Burg_x86_64.sig Gen.Burg_x86_64.excluded) t Gen.Burg_x86_64.stmSort = true) :
    covers Gen.Burg_x86_64.rules t Gen.Burg_x86_64.stmNt = true :=
  selection_total _ _ _ _ _ x86_64_premise t _ (x86_64_certified_alphabet ▸ h) _ x86_64_stm_guaranteed

/-- full statement (not provable: see the witness below) -/
def x86_64_selection_total_full : Prop :=
  ∀ t : Tree, wellSorted Gen.Burg_x86_64.sig t Gen.Burg_x86_64.stmSort = true → covers Gen.Burg_x86_64.rules t Gen.Burg_x86_64.stmNt = true

example : ¬ x86_64_selection_total_full := by
  intro h
  have := h Gen.Burg_x86_64.negWitness (by decide +kernel)
  revert this
  decide +kernel

/-- non-vacuity: a deep tree satisfies the hypothesis of the partial theorem (and is covered) -/
example : wellSorted (restrict Gen.Burg_x86_64.sig Gen.Burg_x86_64.excluded) Gen.Burg_x86_64.posWitness Gen.Burg_x86_64.stmSort = true := by
  rw [x86_64_certified_alphabet]; decide +kernel
example : covers Gen.Burg_x86_64.rules Gen.Burg_x86_64.posWitness Gen.Burg_x86_64.stmNt = true := by decide +kernel

/-! ## arm -/

/-- heads covered by conditional rules only (no finding: conditions hold for every in-range constant) -/
def armCondOnly : List String := ["CONSTU8"]

/-- the heads left out of the alphabet: the open findings `"arm:<HEAD>"` plus `armCondOnly` -/
theorem arm_exclusions_pinned : Gen.Burg_arm.excludedNames =
    ["CONSTI8", "CONSTU8", "DIVI16", "DIVI8", "DIVU16", "DIVU8", "I16TOI8", "I16TOU8", "I8TOI16", "I8TOU16", "INVI16", "INVI8", "INVU16", "INVU8", "MULI16", "MULI8", "MULU16", "MULU8", "REMI16", "REMI8", "REMU16", "REMU32", "REMU8", "SUBU8", "U16TOI8", "U16TOU8", "U8TOI16", "U8TOU16"] := by decide +kernel

/-- the certified alphabet `sigR` is exactly the regenerated alphabet minus the pinned heads -/
theorem arm_certified_alphabet :
    restrict Gen.Burg_arm.sig Gen.Burg_arm.excluded = Gen.Burg_arm.sigR := by decide +kernel

theorem arm_premise :
    premise Gen.Burg_arm.rules Gen.Burg_arm.sigR Gen.Burg_arm.guar Gen.Burg_arm.ct Gen.Burg_arm.wit = true := by decide +kernel

theorem arm_stm_guaranteed : Gen.Burg_arm.stmNt ∈ guarOf Gen.Burg_arm.guar Gen.Burg_arm.stmSort := by decide +kernel

/-- every statement tree over the alphabet minus the pinned heads is covered (goal `stm` reached) -/
theorem arm_selection_total_partial (t : Tree)
    (h : wellSorted (restrict Gen.Burg_arm.sig Gen.Burg_arm.excluded) t Gen.Burg_arm.stmSort = true) :
    covers Gen.Burg_arm.rules t Gen.Burg_arm.stmNt = true :=
  selection_total _ _ _ _ _ arm_premise t _ (arm_certified_alphabet ▸ h) _ arm_stm_guaranteed

/-- full statement (not provable: see the witness below) -/
def arm_selection_total_full : Prop :=
  ∀ t : Tree, wellSorted Gen.Burg_arm.sig t Gen.Burg_arm.stmSort = true → covers Gen.Burg_arm.rules t Gen.Burg_arm.stmNt = true

example : ¬ arm_selection_total_full := by
  intro h
  have := h Gen.Burg_arm.negWitness (by decide +kernel)
  revert this
  decide +kernel

/-- non-vacuity: a deep tree satisfies the hypothesis of the partial theorem (and is covered) -/
example : wellSorted (restrict Gen.Burg_arm.sig Gen.Burg_arm.excluded) Gen.Burg_arm.posWitness Gen.Burg_arm.stmSort = true := by
  rw [arm_certified_alphabet]; decide +kernel
example : covers Gen.Burg_arm.rules Gen.Burg_arm.posWitness Gen.Burg_arm.stmNt = true := by decide +kernel

/-! ## arm:thumb -/

/-- heads covered by conditional rules only (no finding: conditions hold for every in-range constant) -/
def thumbCondOnly : List String := []

/-- the heads left out of the alphabet: the open findings `"thumb:<HEAD>"` plus `thumbCondOnly` -/
theorem thumb_exclusions_pinned : Gen.Burg_thumb.excludedNames =
    ["ADDI16", "ADDU16", "ADDU8", "DIVI16", "DIVI8", "DIVU16", "DIVU32", "DIVU8", "I16TOI8", "I16TOU8", "I8TOI16", "I8TOU16", "INVI16", "INVI32", "INVI8", "INVU16", "INVU32", "INVU8", "MOVB", "MULI16", "MULI8", "MULU16", "MULU8", "REMI16", "REMI8", "REMU16", "REMU32", "REMU8", "SUBI16", "SUBU16", "SUBU8", "U16TOI8", "U16TOU8", "U8TOI16", "U8TOU16"] := by decide +kernel

/-- the certified alphabet `sigR` is exactly the regenerated alphabet minus the pinned heads -/
theorem thumb_certified_alphabet :
    restrict Gen.Burg_thumb.sig Gen.Burg_thumb.excluded = Gen.Burg_thumb.sigR := by decide +kernel

theorem thumb_premise :
    premise Gen.Burg_thumb.rules Gen.Burg_thumb.sigR Gen.Burg_thumb.guar Gen.Burg_thumb.ct Gen.Burg_thumb.wit = true := by decide +kernel

theorem thumb_stm_guaranteed : Gen.Burg_thumb.stmNt ∈ guarOf Gen.Burg_thumb.guar Gen.Burg_thumb.stmSort := by decide +kernel

/-- every statement tree over the alphabet minus the pinned heads is covered (goal `stm` reached) -/
theorem thumb_selection_total_partial (t : Tree)
    (h : wellSorted (restrict Gen.Burg_thumb.sig Gen.Burg_thumb.excluded) t Gen.Burg_thumb.stmSort = true) :
    covers Gen.Burg_thumb.rules t Gen.Burg_thumb.stmNt = true :=
  selection_total _ _ _ _ _ thumb_premise t _ (thumb_certified_alphabet ▸ h) _ thumb_stm_guaranteed

/-- full statement (not provable: see the witness below) -/
def thumb_selection_total_full : Prop :=
  ∀ t : Tree, wellSorted Gen.Burg_thumb.sig t Gen.Burg_thumb.stmSort = true → covers Gen.Burg_thumb.rules t Gen.Burg_thumb.stmNt = true

example : ¬ thumb_selection_total_full := by
  intro h
  have := h Gen.Burg_thumb.negWitness (by decide +kernel)
  revert this
  decide +kernel

/-- non-vacuity: a deep tree satisfies the hypothesis of the partial theorem (and is covered) -/
example : wellSorted (restrict Gen.Burg_thumb.sig Gen.Burg_thumb.excluded) Gen.Burg_thumb.posWitness Gen.Burg_thumb.stmSort = true := by
  rw [thumb_certified_alphabet]; decide +kernel
example : covers Gen.Burg_thumb.rules Gen.Burg_thumb.posWitness Gen.Burg_thumb.stmNt = true := by decide +kernel

/-! ## riscv -/

/-- heads covered by conditional rules only (no finding: conditions hold for every in-range constant) -/
def riscvCondOnly : List String := ["CONSTI8", "CONSTU8"]

/-- the heads left out of the alphabet: the open findings `"riscv:<HEAD>"` plus `riscvCondOnly` -/
theorem riscv_exclusions_pinned : Gen.Burg_riscv.excludedNames =
    ["CONSTI8", "CONSTU8", "DIVI16", "DIVI8", "DIVU8", "F32TOI16", "F32TOI8", "F32TOU16", "F32TOU32", "F32TOU8", "F64TOI16", "F64TOI8", "F64TOU16", "F64TOU32", "F64TOU8", "FPRELU32", "I16TOF32", "I16TOF64", "I8TOF32", "I8TOF64", "INVI16", "INVU16", "MULI16", "NEGU16", "NEGU8", "REMI16", "REMI8", "REMU8", "U16TOF32", "U16TOF64", "U32TOF32", "U32TOF64", "U8TOF32", "U8TOF64"] := by decide +kernel

/-- the certified alphabet `sigR` is exactly the regenerated alphabet minus the pinned heads -/
theorem riscv_certified_alphabet :
    restrict Gen.Burg_riscv.sig Gen.Burg_riscv.excluded = Gen.Burg_riscv.sigR := by decide +kernel

theorem riscv_premise :
    premise Gen.Burg_riscv.rules Gen.Burg_riscv.sigR Gen.Burg_riscv.guar Gen.Burg_riscv.ct Gen.Burg_riscv.wit = true := by decide +kernel

theorem riscv_stm_guaranteed : Gen.Burg_riscv.stmNt ∈ guarOf Gen.Burg_riscv.guar Gen.Burg_riscv.stmSort := by decide +kernel

/-- every statement tree over the alphabet minus the pinned heads is covered (goal `stm` reached) -/
theorem riscv_selection_total_partial (t : Tree)
    (h : wellSorted (restrict Gen.Burg_riscv.sig Gen.Burg_riscv.excluded) t Gen.Burg_riscv.stmSort = true) :
    covers Gen.Burg_riscv.rules t Gen.Burg_riscv.stmNt = true :=
  selection_total _ _ _ _ _ riscv_premise t _ (riscv_certified_alphabet ▸ h) _ riscv_stm_guaranteed

/-- full statement (not provable: see the witness below) -/
def riscv_selection_total_full : Prop :=
  ∀ t : Tree, wellSorted Gen.Burg_riscv.sig t Gen.Burg_riscv.stmSort = true → covers Gen.Burg_riscv.rules t Gen.Burg_riscv.stmNt = true

example : ¬ riscv_selection_total_full := by
  intro h
  have := h Gen.Burg_riscv.negWitness (by decide +kernel)
  revert this
  decide +kernel

/-- non-vacuity: a deep tree satisfies the hypothesis of the partial theorem (and is covered) -/
example : wellSorted (restrict Gen.Burg_riscv.sig Gen.Burg_riscv.excluded) Gen.Burg_riscv.posWitness Gen.Burg_riscv.stmSort = true := by
  rw [riscv_certified_alphabet]; decide +kernel
example : covers Gen.Burg_riscv.rules Gen.Burg_riscv.posWitness Gen.Burg_riscv.stmNt = true := by decide +kernel

/-! ## riscv:rvc -/

/-- heads covered by conditional rules only (no finding: conditions hold for every in-range constant) -/
def rvcCondOnly : List String := ["CONSTI8", "CONSTU8"]

/-- the heads left out of the alphabet: the open findings `"rvc:<HEAD>"` plus `rvcCondOnly` -/
theorem rvc_exclusions_pinned : Gen.Burg_rvc.excludedNames =
    ["CONSTI8", "CONSTU8", "DIVI16", "DIVI8", "DIVU8", "F32TOI16", "F32TOI8", "F32TOU16", "F32TOU32", "F32TOU8", "F64TOI16", "F64TOI8", "F64TOU16", "F64TOU32", "F64TOU8", "FPRELU32", "I16TOF32", "I16TOF64", "I8TOF32", "I8TOF64", "INVI16", "INVU16", "MULI16", "NEGU16", "NEGU8", "REMI16", "REMI8", "REMU8", "U16TOF32", "U16TOF64", "U32TOF32", "U32TOF64", "U8TOF32", "U8TOF64"] := by decide +kernel

/-- the certified alphabet `sigR` is exactly the regenerated alphabet minus the pinned heads -/
theorem rvc_certified_alphabet :
    restrict Gen.Burg_rvc.sig Gen.Burg_rvc.excluded = Gen.Burg_rvc.sigR := by decide +kernel

theorem rvc_premise :
    premise Gen.Burg_rvc.rules Gen.Burg_rvc.sigR Gen.Burg_rvc.guar Gen.Burg_rvc.ct Gen.Burg_rvc.wit = true := by decide +kernel

theorem rvc_stm_guaranteed : Gen.Burg_rvc.stmNt ∈ guarOf Gen.Burg_rvc.guar Gen.Burg_rvc.stmSort := by decide +kernel

/-- every statement tree over the alphabet minus the pinned heads is covered (goal `stm` reached) -/
theorem rvc_selection_total_partial (t : Tree)
    (h : wellSorted (restrict Gen.Burg_rvc.sig Gen.Burg_rvc.excluded) t Gen.Burg_rvc.stmSort = true) :
    covers Gen.Burg_rvc.rules t Gen.Burg_rvc.stmNt = true :=
  selection_total _ _ _ _ _ rvc_premise t _ (rvc_certified_alphabet ▸ h) _ rvc_stm_guaranteed

/-- full statement (not provable: see the witness below) -/
def rvc_selection_total_full : Prop :=
  ∀ t : Tree, wellSorted Gen.Burg_rvc.sig t Gen.Burg_rvc.stmSort = true → covers Gen.Burg_rvc.rules t Gen.Burg_rvc.stmNt = true

example : ¬ rvc_selection_total_full := by
  intro h
  have := h Gen.Burg_rvc.negWitness (by decide +kernel)
  revert this
  decide +kernel

/-- non-vacuity: a deep tree satisfies the hypothesis of the partial theorem (and is covered) -/
example : wellSorted (restrict Gen.Burg_rvc.sig Gen.Burg_rvc.excluded) Gen.Burg_rvc.posWitness Gen.Burg_rvc.stmSort = true := by
  rw [rvc_certified_alphabet]; decide +kernel
example : covers Gen.Burg_rvc.rules Gen.Burg_rvc.posWitness Gen.Burg_rvc.stmNt = true := by decide +kernel

/-! ## small hand-made instance (tests of the model, labelled as such) -/

/-- rules: 1 `reg -> REG`, 2 `reg -> ADD(reg, reg)`, 3 `stm -> MOV(reg)`, 4 `mem -> reg` (chain),
    5 `stm -> STR(mem, reg)`, 6 `reg -> CONST` (conditional) -/
def toyRules : List Rule :=
  [⟨1, 0, .term 0 [], false⟩, ⟨2, 0, .term 1 [.nt 0, .nt 0], false⟩, ⟨3, 2, .term 2 [.nt 0], false⟩,
   ⟨4, 1, .nt 0, false⟩, ⟨5, 2, .term 3 [.nt 1, .nt 0], false⟩, ⟨6, 0, .term 4 [], true⟩]

example : close toyRules 0 = [0, 1] := by decide
-- STR(REG, ADD(REG, REG)) is covered through the chain rule mem -> reg
example : covers toyRules (.node 3 [] [.node 0 [] [], .node 1 [] [.node 0 [] [], .node 0 [] []]]) 2 = true := by decide
-- a CONST whose condition is rejected is not covered, one whose condition (rule 6) is accepted is
example : covers toyRules (.node 2 [] [.node 4 [] []]) 2 = false := by decide
example : covers toyRules (.node 2 [] [.node 4 [6] []]) 2 = true := by decide
-- the premise holds without CONST and fails with it (only a conditional rule)
example : premise toyRules [⟨0, [], 0⟩, ⟨1, [0, 0], 0⟩, ⟨2, [0], 1⟩, ⟨3, [0, 0], 1⟩] [(0, [0, 1]), (1, [2])]
    [(0, [0, 1]), (1, [1]), (2, [2])] [1, 2, 3, 5] = true := by decide
example : premise toyRules [⟨0, [], 0⟩, ⟨4, [], 0⟩] [(0, [0, 1]), (1, [2])] [(0, [0, 1]), (1, [1]), (2, [2])] [1, 6] = false := by decide
-- an unsound closure table is rejected
example : ctSound toyRules [(1, [0])] = false := by decide

end Props.C29
