import PpciVerif.Proofs.Peephole
import PpciVerif.Proofs.FrameAlloc
/-!
# C04 — x86-64 native code reproduces C program behaviour: the slivers that are theorems

**Partial.**  There is no x86-64 machine semantics here and the end-to-end statement
(`c04_full`) is NOT shown.  What is proved in this file, for all inputs:

* `peephole_stream_is_peep`, `peephole_sound`, `peephole_keeps_everything_but_jumps` — the
  peephole filter of the code generator (`ppci/codegen/peephole.py`, the only rewrite it has on
  x86-64: dropping `jmp L` in front of `L:` or of another `jmp L`) preserves the label-resolved
  trace semantics of every instruction stream with distinct labels, for every semantics of the
  other instructions (`Spec.ItemTrace`, over S5 `Model.MCode`);
* `frame_alloc_top_sound` — the stack-slot allocator in the mode x86-64 uses (frame pointer at
  the top): slots of every allocation history are pairwise disjoint, aligned, inside the frame.

Cited, proved elsewhere (not re-stated): register allocation validated per frame (C06, x86_64
frames), System V argument placement and prologue/epilogue stack discipline (C40), relocation
arithmetic and image layout (C11, C12), ELF container (C17).  Everything else (instruction
selection, instruction semantics, encodings of x86-64, the optimiser = C02) is covered only by
the always-on failing-input search of `harness/c04.py` (generated C programs, ppci vs gcc).
-/
namespace Props.C04
open Spec.ItemTrace Spec.StackSlots Model.Peephole Model.FrameAlloc

/-- The full statement of C04 needs a semantics of C and of x86-64 machine code; neither exists
    in this development, so the statement cannot even be written down here.  Kept as a marker. -/
def c04_full : Prop := False

/-! ### peephole -/

/-- `PeepHoleStream` (window of two, `do_emit`/`clip_window`/`flush`) hands downstream exactly
    the list `peep items`, for every item list. -/
theorem peephole_stream_is_peep (items : List Item) : runStream items = peep items :=
  Proofs.Peephole.runStream_eq_peep items

/-- **peephole_sound.**  For every stream `p` with distinct label names, every machine-state type
    `σ` and every semantics `X` of the non-jump instructions: what the peephole stream emits is
    trace-equivalent to `p` — every finite run of `p` is matched by a run of the output that is
    not longer, executes the same instructions leaving the same states, and ends at the
    corresponding program point (`m`), and conversely.  Entry corresponds to entry (`m 0 = 0`). -/
theorem peephole_sound {σ : Type} (X : Exec σ) (p : List Item) (hd : LabelsDistinct p) :
    ∃ m : Nat → Nat, m 0 = 0 ∧ TraceEquiv X p (runStream p) m := by
  rw [peephole_stream_is_peep]
  exact Proofs.Peephole.peep_equiv X p hd

/-- nothing but unconditional jumps is ever removed, and nothing is reordered -/
theorem peephole_keeps_everything_but_jumps (p : List Item) :
    (runStream p).filter (fun x => (effect? x).isNone || isLabel x) =
      p.filter (fun x => (effect? x).isNone || isLabel x) := by
  rw [peephole_stream_is_peep]
  exact Proofs.Peephole.peep_keeps_non_jumps p

/-! ### Frame.alloc, frame pointer at the top (x86-64, arm, riscv, …) -/

/-- For EVERY allocation history with positive sizes and alignments, starting from a new frame:
    every call succeeds and returns a slot of the requested size at a multiple of the requested
    alignment (`AllOk`); the slots are pairwise disjoint; all lie inside `[-stacksize, 0)` of the
    final frame; the frame's alignment dominates every requested alignment. -/
theorem frame_alloc_top_sound (h : List (Int × Int)) (hpos : ∀ p ∈ h, 0 < p.1 ∧ 0 < p.2) :
    let r := run alloc (Frame.new .top) h
    Proofs.FrameAlloc.AllOk r.2 h ∧
    (slots r.2).length = h.length ∧
    List.Pairwise (fun a b : Slot => Disjoint a.offset a.size b.offset b.size) (slots r.2) ∧
    (∀ s ∈ slots r.2, -r.1.stacksize ≤ s.offset ∧ s.offset + s.size ≤ 0) ∧
    (∀ p ∈ h, p.2 ≤ r.1.alignment) := by
  intro r
  have H := Proofs.FrameAlloc.run_top h (Frame.new .top) rfl hpos
  simp only at H
  obtain ⟨_, _, h3, h4, h5⟩ := H
  refine ⟨h3, Proofs.FrameAlloc.slots_length _ _ h3, ?_, ?_, ?_⟩
  · exact h5.imp (fun hab => Or.inr hab)
  · intro s hs
    have := h4 s hs
    exact ⟨this.1, by simpa [Frame.new] using this.2.1⟩
  · intro p hp
    exact Proofs.FrameAlloc.run_alignment h _ p hp

/-! ### non-vacuity and concrete instances (tests, labelled as such) -/

/-- a stream on which both rewrites fire: `jmp 7; jmp 7; L7:` and a kept `jmp 3` -/
example : runStream [.label 1, .jump 7, .jump 7, .label 7, .other (default), .jump 3, .label 5, .label 3]
    = [.label 1, .label 7, .other (default), .jump 3, .label 5, .label 3] := by
  rw [peephole_stream_is_peep]; decide

example : LabelsDistinct [.label 1, .jump 7, .jump 7, .label 7, .other (default), .jump 3, .label 5, .label 3] := by
  decide

/-- the hypothesis of `peephole_sound` is needed: with the label defined twice `jmp 0` goes back to
    the FIRST definition; after the jump is dropped the second definition is fallen into.
    Machine state = a counter, every other instruction increments it. -/
def countExec : Exec Nat := { run := fun _ s => (s + 1, 0) }
def dupProg : List Item := [.label 0, .other default, .jump 0, .label 0]

example : ¬ LabelsDistinct dupProg := by decide
example : runStream dupProg = [.label 0, .other default, .label 0] := by
  rw [peephole_stream_is_peep]; decide
example : ((trace countExec dupProg 8 ⟨0, 0⟩).1.map Prod.snd) = [1, 2, 3] := by decide
example : ∀ n, n ≤ 8 → ((trace countExec (runStream dupProg) n ⟨0, 0⟩).1.map Prod.snd) ≠ [1, 2, 3] := by
  rw [peephole_stream_is_peep]; decide

/-- an allocation history as the x86-64 back-end produces it -/
example : slots (run alloc (Frame.new .top) [(4, 4), (1, 1), (8, 8), (2, 2)]).2
    = [⟨-4, 4⟩, ⟨-5, 1⟩, ⟨-16, 8⟩, ⟨-18, 2⟩] := by decide

example : ∀ p ∈ [((4 : Int), (4 : Int)), (1, 1), (8, 8), (2, 2)], 0 < p.1 ∧ 0 < p.2 := by decide

end Props.C04
