import PpciVerif.Model.Tasks
import PpciVerif.Model.TasksLegacy
import PpciVerif.Spec.Tasks
import PpciVerif.Proofs.Tasks
/-!
# C34 — the build runner executes dependencies once, in order, and detects loops exactly

Property theorems only.  Model: `Model.Tasks` (hand model of the target ordering
of `ppci/build/tasks.py` after the `fix:` commit of findings/C34.json, tied by
correspondence, harness/c34.py).  Spec: `Spec.Tasks` (inductive dependency
paths; independent of the depth-first walk).

All theorems hold for every finite project `g` (any number of targets, any
dependency lists, dangling names allowed unless `AllExist` is assumed) and
every request list `req` (any length, any order, repetitions allowed).
At the end: the negation witnesses for the code as it was before the fix
(`Model.TasksLegacy`).
-/
namespace Props.C34
open Model.Tasks hiding Graph
open Spec.Tasks Proofs.Tasks

/-! ### loop detection is exact -/

/-- A dependency loop is reported **iff** the part of the graph reachable from
    the requested targets contains a cycle. -/
theorem loop_reported_iff_cycle_reachable (g : Graph) (req : List Nat) (hex : AllExist g req) :
    run g req = .error .loop ↔ CycleReachable g req := by
  constructor
  · exact sequence_loop
  · rintro ⟨v, hv, hc⟩
    unfold run
    cases h : targetSequence g req with
    | ok order =>
      obtain ⟨ht, hm⟩ := sequence_ok h
      exact absurd hc (ht.acyclic (by simpa using (hm v).mpr hv))
    | error e =>
      cases e with
      | loop => rfl
      | notFound =>
        obtain ⟨x, hx, hn⟩ := sequence_notFound h
        exact absurd (hex x hx) hn

/-- The "only if" half needs no assumption at all: a reported loop is a real,
    reachable cycle even in a project with dangling names. -/
theorem loop_reported_sound (g : Graph) (req : List Nat) (h : run g req = .error .loop) :
    CycleReachable g req := sequence_loop h

/-- `Project.check_target(t)` raises the loop error iff a cycle is reachable from `t`. -/
theorem check_target_iff (g : Graph) (t : Nat) (hex : AllExist g [t]) :
    checkTarget g t = .error .loop ↔ CycleReachable g [t] := by
  rw [← loop_reported_iff_cycle_reachable g [t] hex]
  unfold checkTarget run
  cases targetSequence g [t] with
  | ok _ => simp [Except.map]
  | error e => cases e <;> simp [Except.map]

/-- The only other failure is a missing target, and only when one is really
    needed; in a dependency graph proper (`AllExist`) it cannot happen. -/
theorem not_found_only_if_dangling (g : Graph) (req : List Nat) (h : run g req = .error .notFound) :
    ∃ v, Needed g req v ∧ ¬ IsTarget g v := sequence_notFound h

/-- Without a reachable cycle the runner does run (totality; termination of the
    walk itself is part of the definition of `Model.Tasks.visit`). -/
theorem runs_when_acyclic (g : Graph) (req : List Nat) (hex : AllExist g req)
    (hac : ¬ CycleReachable g req) : ∃ order, run g req = .ok order := by
  cases h : run g req with
  | ok order => exact ⟨order, rfl⟩
  | error e =>
    cases e with
    | loop => exact absurd (sequence_loop h) hac
    | notFound =>
      obtain ⟨x, hx, hn⟩ := sequence_notFound h
      exact absurd (hex x hx) hn

/-! ### what is executed, how often, and in which order -/

/-- The executed sequence is duplicate-free and consists exactly of the requested
    targets and their transitive dependencies. -/
theorem executed_is_closure (g : Graph) (req order : List Nat) (h : run g req = .ok order) :
    order.Nodup ∧ ∀ v, v ∈ order ↔ Needed g req v := by
  obtain ⟨ht, hm⟩ := sequence_ok h
  refine ⟨?_, hm⟩
  have := ht.nodup
  unfold List.Nodup at this ⊢
  rw [List.pairwise_reverse] at this
  exact this.imp (fun h => Ne.symm h)

/-- Each needed target is executed exactly once and nothing else is executed. -/
theorem executed_exactly_once (g : Graph) (req order : List Nat) (h : run g req = .ok order) :
    ExactlyOnce g req order := by
  obtain ⟨hn, hm⟩ := executed_is_closure g req order h
  exact exactlyOnce_of hn hm

/-- Every target is executed only after all of its dependencies. -/
theorem executed_after_dependencies (g : Graph) (req order : List Nat) (h : run g req = .ok order) :
    AfterDeps g order := by
  obtain ⟨ht, _⟩ := sequence_ok h
  simpa using ht.afterDeps

/-- A successful run proves that nothing reachable lies on a cycle and that every
    needed name is a target (so `AllExist` is not an extra assumption there). -/
theorem ok_implies_wellformed (g : Graph) (req order : List Nat) (h : run g req = .ok order) :
    ¬ CycleReachable g req ∧ AllExist g req := by
  obtain ⟨ht, hm⟩ := sequence_ok h
  constructor
  · rintro ⟨v, hv, hc⟩
    exact ht.acyclic (by simpa using (hm v).mpr hv) hc
  · intro v hv
    exact ht.isTarget (by simpa using (hm v).mpr hv)

/-! ### histories: every build on the same project object

`Model.Tasks.history g ops` are the observations of a sequence of
`add_target` / `add_dependency` / `run` / `check_target` calls on one project.
The model keeps nothing between calls but the graph, so the i-th observation is
the stateless `run` on the project as edited so far — earlier builds cannot
influence it — and therefore satisfies the per-run theorems above.  (That the
real objects keep no further state either is what the history correspondence
in harness/c34.py checks.) -/

/-- the i-th observation of a history is the i-th call made on the project as it is then -/
theorem history_nth (g : Graph) (ops : List Op) (i : Nat) (op : Op) (h : ops[i]? = some op) :
    (history g ops)[i]? = some (step (projectAfter g (ops.take i)) op).2 := by
  induction ops generalizing g i with
  | nil => simp at h
  | cons o ops ih =>
    cases i with
    | zero => simp at h; subst h; simp [history, projectAfter]
    | succ i =>
      simp only [List.getElem?_cons_succ] at h
      simpa [history, projectAfter] using ih (step g o).1 i h

/-- builds and checks leave the project as it is: only the edits of a history matter for its state -/
theorem project_ignores_runs (g : Graph) (ops : List Op) :
    projectAfter g ops = projectAfter g (ops.filter Op.isEdit) := by
  induction ops generalizing g with
  | nil => rfl
  | cons o ops ih =>
    cases o <;> simp [projectAfter, step, Op.isEdit, List.filter_cons] <;> first | exact ih _ | (split <;> exact ih _)

/-- **Statelessness.** In any history the result of a build is `run` of the
    request on the project obtained from the EDITS made before it; the builds
    and checks made before it (however many, with whatever requests) are irrelevant. -/
theorem history_run_stateless (g : Graph) (ops : List Op) (i : Nat) (req : List Nat)
    (h : ops[i]? = some (.run req)) :
    (history g ops)[i]? = some (.ran (run (projectAfter g ((ops.take i).filter Op.isEdit)) req)) := by
  rw [history_nth g ops i _ h, project_ignores_runs]; rfl

theorem history_check_stateless (g : Graph) (ops : List Op) (i : Nat) (t : Nat)
    (h : ops[i]? = some (.checkTarget t)) :
    (history g ops)[i]? = some (.checked (checkTarget (projectAfter g ((ops.take i).filter Op.isEdit)) t)) := by
  rw [history_nth g ops i _ h, project_ignores_runs]; rfl

/-- Hence every successful build of every history executes exactly the needed
    targets of the project as it is at that moment, once each, after their dependencies … -/
theorem history_build_correct (g : Graph) (ops : List Op) (i : Nat) (req order : List Nat)
    (h : ops[i]? = some (.run req)) (ho : (history g ops)[i]? = some (.ran (.ok order))) :
    ExactlyOnce (projectAfter g (ops.take i)) req order ∧ AfterDeps (projectAfter g (ops.take i)) order := by
  rw [history_nth g ops i _ h] at ho
  have hr : run (projectAfter g (ops.take i)) req = .ok order := by
    simp only [step, Option.some.injEq, Out.ran.injEq] at ho; exact ho
  exact ⟨executed_exactly_once _ _ _ hr, executed_after_dependencies _ _ _ hr⟩

/-- … and every build of every history reports a loop iff a cycle is reachable
    from its request in the project as it is at that moment. -/
theorem history_loop_exact (g : Graph) (ops : List Op) (i : Nat) (req : List Nat)
    (h : ops[i]? = some (.run req)) (hex : AllExist (projectAfter g (ops.take i)) req) :
    (history g ops)[i]? = some (.ran (.error .loop)) ↔ CycleReachable (projectAfter g (ops.take i)) req := by
  rw [history_nth g ops i _ h, ← loop_reported_iff_cycle_reachable _ _ hex]
  simp [step]

/-- non-vacuity: request [1,0] then [0] on 0 → 1, then add 2 and 0 → 2, build again -/
example : (history [(0, [1]), (1, [])] [.run [1, 0], .run [0], .addTarget 2 [], .addDependency 0 2, .run [0]])[1]?
    = some (.ran (.ok [1, 0])) := by
  simp [history, step, run, targetSequence, visit, List.lookup, Except.map]
example : (history [(0, [1]), (1, [])] [.run [1, 0], .run [0], .addTarget 2 [], .addDependency 0 2, .run [0]])[4]?
    = some (.ran (.ok [1, 2, 0])) := by
  simp [history, step, run, targetSequence, visit, List.lookup, Except.map, addDep, insertSorted]

/-! ### non-vacuity / concrete instances -/

/-- the diamond  0 → {1,2} → 3 -/
def diamond : Graph := [(0, [1, 2]), (1, [3]), (2, [3]), (3, [])]
/-- 0 → 1 → 2 → 0 hanging off 3; 4 is not involved -/
def lasso : Graph := [(3, [0, 4]), (0, [1]), (1, [2]), (2, [0]), (4, [])]

example : run diamond [0] = .ok [3, 1, 2, 0] := by
  simp [run, targetSequence, visit, diamond, List.lookup, Except.map]
example : run diamond [2, 1, 2] = .ok [3, 2, 1] := by
  simp [run, targetSequence, visit, diamond, List.lookup, Except.map]
example : run lasso [3] = .error .loop := by
  simp [run, targetSequence, visit, lasso, List.lookup, Except.map]
example : run lasso [4] = .ok [4] := by
  simp [run, targetSequence, visit, lasso, List.lookup, Except.map]
example : run diamond [0, 7] = .error .notFound := by
  simp [run, targetSequence, visit, diamond, List.lookup, Except.map]

/-- the hypotheses of the theorems are satisfiable: the diamond is a dependency
    graph proper and has no reachable cycle (read off a successful run) -/
theorem diamond_wellformed : ¬ CycleReachable diamond [0] ∧ AllExist diamond [0] :=
  ok_implies_wellformed diamond [0] [3, 1, 2, 0]
    (by simp [run, targetSequence, visit, diamond, List.lookup, Except.map])

example : CycleReachable lasso [3] :=
  loop_reported_sound lasso [3] (by simp [run, targetSequence, visit, lasso, List.lookup, Except.map])

/-! ### negation witnesses for the code before the fix (`Model.TasksLegacy`)

Both halves of the property were false for the original `Project.dfs` /
`TaskRunner.run`; these two examples are what the `fix:` commit repairs. -/

/-- (1) The diamond has no cycle, yet the old `check_target` reported a
    dependency loop (target 3 is met twice; `state` was never popped). -/
example : Model.TasksLegacy.checkTarget 10 diamond 0 = .error .loop ∧ ¬ CycleReachable diamond [0] :=
  ⟨rfl, diamond_wellformed.1⟩

/-- (2) 0 depends on 1, 2 is unrelated, request {0,2}.  When the set of needed
    names happens to be iterated as 0,2,1, `list.sort()` with the partial-order
    `<` (`a < b ⇔ a ∈ dependencies(b)`) sees one non-descending run and leaves
    the list alone: 0 is executed before its dependency 1. -/
def chainPlus : Graph := [(0, [1]), (1, []), (2, [])]

example : Model.TasksLegacy.order 10 chainPlus [0, 2] [0, 2, 1] = .ok [0, 2, 1]
    ∧ ¬ AfterDeps chainPlus [0, 2, 1] := by
  refine ⟨rfl, fun h => ?_⟩
  have := h [] 0 [2, 1] rfl 1 ⟨[1], by simp [chainPlus], by simp⟩
  simp at this

end Props.C34
