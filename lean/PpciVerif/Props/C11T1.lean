import PpciVerif.Props.C11
import PpciVerif.Props.C10T1
/-!
# C11 — T1 translation tie: the relocation bodies the link step applies (riscv, rvc)

`Model.LinkReloc.doRelocation` rewrites a site with `Model.Reloc.apply`; for the riscv / rvc types whose body is
translated from the source on every run (`Gen.Py_riscv_relocations`, `Gen.Py_rvc_relocations`, see
`Props/C10T1.lean` for `gen_*_eq_model`), the statement "the linked site designates the symbol" is restated about
the REGENERATED `apply`: whenever it succeeds on the site bytes and the distance is representable, the
ISA-manual decoder `Spec.RelocSem.decodeTarget` applied to its result gives exactly the symbol value `S`.
-/
namespace Props.C11T1
open Model.Reloc Spec.RelocSem Proofs.Reloc Proofs.T1.Reloc Props.C10T1

theorem gen_linked_riscv_b_imm20_partial {S P : Int} {site : List Nat} {out' : List Int} (fuel : Nat)
    (hlen : site.length = 4) (hb : ∀ b ∈ site, b < 256)
    (h : Gen.Py_riscv_relocations.BImm20Relocation_apply fuel S (ints site) P = .ok out')
    (hfit : Spec.Bits.fitsS 21 (S - P)) :
    ∃ out, out' = ints out ∧ decodeTarget "riscv" "b_imm20" out P = some S := by
  rw [gen_riscv_b_imm20_apply_eq_model] at h
  obtain ⟨out, hm, rfl⟩ := ok_of_liftL h
  refine ⟨out, rfl, ?_⟩
  simp only [decodeTarget]
  rw [bImm20_target hlen hb hm hfit]

theorem gen_linked_rvc_cb_imm11_partial {S P : Int} {site : List Nat} {out' : List Int} (fuel : Nat)
    (hlen : site.length = 4) (hb : ∀ b ∈ site, b < 256)
    (h : Gen.Py_rvc_relocations.CBImm11Relocation_apply fuel S (ints site) P = .ok out')
    (hfit : Spec.Bits.fitsS 21 (S - P)) :
    ∃ out, out' = ints out ∧ decodeTarget "riscv" "b_imm20" out P = some S := by
  rw [gen_rvc_cb_imm11_apply_eq_model] at h
  obtain ⟨out, hm, rfl⟩ := ok_of_liftL h
  refine ⟨out, rfl, ?_⟩
  simp only [decodeTarget]
  rw [bImm20_target hlen hb (by simpa [Props.C10.rvc_cb_imm11_eq_b_imm20] using hm) hfit]

theorem gen_linked_rvc_bc_imm11_partial {S P : Int} {site : List Nat} {out' : List Int} (fuel : Nat)
    (hlen : site.length = 2) (hb : ∀ b ∈ site, b < 256)
    (h : Gen.Py_rvc_relocations.BcImm11Relocation_apply fuel S (ints site) P = .ok out')
    (hfit : Spec.Bits.fitsS 12 (S - P)) :
    ∃ out, out' = ints out ∧ decodeTarget "riscv" "bc_imm11" out P = some S := by
  rw [gen_rvc_bc_imm11_apply_eq_model] at h
  obtain ⟨out, hm, rfl⟩ := ok_of_liftL h
  refine ⟨out, rfl, ?_⟩
  simp only [decodeTarget]
  rw [bcImm11_target hlen hb hm hfit]

theorem gen_linked_rvc_bc_imm8_partial {S P : Int} {site : List Nat} {out' : List Int} (fuel : Nat)
    (hlen : site.length = 2) (hb : ∀ b ∈ site, b < 256)
    (h : Gen.Py_rvc_relocations.BcImm8Relocation_apply fuel S (ints site) P = .ok out')
    (hfit : Spec.Bits.fitsS 9 (S - P)) :
    ∃ out, out' = ints out ∧ decodeTarget "riscv" "bc_imm8" out P = some S := by
  rw [gen_rvc_bc_imm8_apply_eq_model] at h
  obtain ⟨out, hm, rfl⟩ := ok_of_liftL h
  refine ⟨out, rfl, ?_⟩
  simp only [decodeTarget]
  rw [bcImm8_target hlen hb hm hfit]

example : Gen.Py_riscv_relocations.BImm20Relocation_apply 0 2048 [0x6f, 0, 0, 0] 1024 = .ok [0x6f, 0, 0, 0x40]
    ∧ decodeTarget "riscv" "b_imm20" [0x6f, 0, 0, 0x40] 1024 = some 2048 := by decide +kernel

end Props.C11T1
