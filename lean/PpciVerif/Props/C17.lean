import PpciVerif.Spec.Elf
import PpciVerif.Model.ElfW
import PpciVerif.Gen.ElfHeaders
import PpciVerif.Proofs.ElfW
/-!
# C17 — ELF output is read back faithfully
-/
namespace Props.C17
open Spec.Elf Model.ElfW Proofs.ElfW

/-- translation tie: the `_fields` of ppci's header classes are the gABI layouts, in the announced byte order -/
theorem layouts_match_gabi (c : Cls) (e : End) : Gen.ElfHeaders.layouts c e = gabiLayouts c e := by
  cases c <;> cases e <;> decide

end Props.C17
